/-
Loop optimisations of `Hpbf/Opt.lean`, part D (continued): `groupedVars`, `shiftVars`, `reduceConst`,
`splitAlong`.
-/
import Hpbf.Proofs.OptLoopExpr

namespace Hpbf.OptLoop
open Hpbf Opt OptSem Expr

variable {w : Nat}

/-! ### `groupedVars` -/

theorem groupedVars_eq (e : Expr w) : groupedVars e = e.map (·.vars) := rfl

theorem variables_eq_flatten_groupedVars (e : Expr w) : Expr.variables e = (groupedVars e).flatten := by
  simp [Expr.variables, groupedVars, List.flatMap]

theorem mem_variables_iff_groupedVars (e : Expr w) (v : Int) :
    v ∈ Expr.variables e ↔ ∃ g ∈ groupedVars e, v ∈ g := by
  rw [variables_eq_flatten_groupedVars, List.mem_flatten]

theorem groupedVars_length (e : Expr w) : (groupedVars e).length = e.length := by
  simp [groupedVars]

/-! ### `shiftVars` -/

theorem mono_map_shift (f : Int → BitVec w) (s : Int) (vs : List Int) :
    mono f (vs.map (· + s)) = mono (fun v => f (v + s)) vs := by
  induction vs with
  | nil => rfl
  | cons v vs ih => simp [ih]

/-- Renaming every variable `v` to `v + shift`. -/
theorem shiftVars_value (e : Expr w) (shift : Int) (f : Int → BitVec w) :
    evaluate (shiftVars e shift) f = evaluate e (fun v => f (v + shift)) := by
  induction e with
  | nil => rfl
  | cons p e ih =>
    have : shiftVars (p :: e) shift
        = { p with vars := p.vars.map (· + shift) } :: shiftVars e shift := rfl
    rw [this, evaluate_cons', evaluate_cons', ih, mono_map_shift]

theorem ev_shiftVars (e : Expr w) (shift : Int) (m : Mem w) :
    ev (shiftVars e shift) m = ev e (fun v => m (v + shift)) := shiftVars_value e shift m

theorem shiftVars_variables (e : Expr w) (shift : Int) :
    Expr.variables (shiftVars e shift) = (Expr.variables e).map (· + shift) := by
  induction e with
  | nil => rfl
  | cons p e ih =>
    have : shiftVars (p :: e) shift
        = { p with vars := p.vars.map (· + shift) } :: shiftVars e shift := rfl
    rw [this, variables_cons, variables_cons, ih, List.map_append]

theorem shiftVars_zero (e : Expr w) : shiftVars e 0 = e := by
  induction e with
  | nil => rfl
  | cons p e ih =>
    have : shiftVars (p :: e) 0 = { p with vars := p.vars.map (· + 0) } :: shiftVars e 0 := rfl
    rw [this, ih]; simp

/-! ### `reduceConst` -/

/-- The substitution `reduceConst` applies. -/
def reduceFn (s : Rebuild w) (ps : List (Rebuild w)) (constant : List Int) (i : Int) : Option (Expr w) :=
  if constant.contains i then
    match getConstant s ps i with
    | some c => some (Expr.val c)
    | none => some (Expr.var i)
  else some (Expr.var i)

theorem reduceConst_eq (s : Rebuild w) (ps : List (Rebuild w)) (e : Expr w) (constant : List Int) :
    reduceConst s ps e constant =
      if (Expr.variables e).any (fun i => constant.contains i) then
        match Expr.symbEvaluate e (reduceFn s ps constant) with
        | some e => pure e
        | none => throw "panic: reduce_const: symb_evaluate(..).unwrap()"
      else pure e := rfl

theorem reduceFn_cases (s : Rebuild w) (ps : List (Rebuild w)) (constant : List Int) (i : Int) :
    reduceFn s ps constant i = some (Expr.var i) ∨
      ∃ c, constant.contains i = true ∧ getConstant s ps i = some c ∧
        reduceFn s ps constant i = some (Expr.val c) := by
  unfold reduceFn
  split
  · rename_i hc
    cases hg : getConstant s ps i with
    | none => left; rfl
    | some c => right; exact ⟨c, hc, rfl, rfl⟩
  · left; rfl

/-- `reduceConst` never fails. -/
theorem reduceConst_total (s : Rebuild w) (ps : List (Rebuild w)) (e : Expr w) (constant : List Int) :
    ∃ e', reduceConst s ps e constant = .ok e' := by
  rw [reduceConst_eq]
  split
  · have hsome : (Expr.symbEvaluate e (reduceFn s ps constant)).isSome := by
      rw [C15.symbEvaluate_defined]
      intro v _
      rcases reduceFn_cases s ps constant v with h | ⟨c, _, _, h⟩ <;> simp [h]
    cases hs : Expr.symbEvaluate e (reduceFn s ps constant) with
    | none => simp [hs] at hsome
    | some e' => exact ⟨e', rfl⟩
  · exact ⟨e, rfl⟩

/-- Value of `reduceConst`: unchanged on every memory in which the known constants that occur in the
expression have their known values. -/
theorem reduceConst_value (s : Rebuild w) (ps : List (Rebuild w)) (e e' : Expr w) (constant : List Int)
    (h : reduceConst s ps e constant = .ok e') (f : Mem w)
    (hf : ∀ i ∈ Expr.variables e, constant.contains i = true →
      ∀ c, getConstant s ps i = some c → f i = c) :
    ev e' f = ev e f := by
  rw [reduceConst_eq] at h
  split at h
  · cases hs : Expr.symbEvaluate e (reduceFn s ps constant) with
    | none => simp [hs] at h
    | some r =>
      simp only [hs] at h
      have : r = e' := by cases h; rfl
      subst this
      show evaluate r f = evaluate e f
      rw [C15.value_symbEvaluate e r _ f hs]
      apply evaluate_congr
      intro v hv
      rcases reduceFn_cases s ps constant v with hg | ⟨c, hc, hgc, hg⟩
      · simp [hg, eval_var]
      · simp only [hg, eval_val]
        exact (hf v hv hc c hgc).symm
  · have : e = e' := by cases h; rfl
    rw [this]

/-- `reduceConst` does not invent variables. -/
theorem reduceConst_varsIn (s : Rebuild w) (ps : List (Rebuild w)) (e e' : Expr w) (constant : List Int)
    (h : reduceConst s ps e constant = .ok e') :
    ∀ x ∈ Expr.variables e', x ∈ Expr.variables e := by
  rw [reduceConst_eq] at h
  split at h
  · cases hs : Expr.symbEvaluate e (reduceFn s ps constant) with
    | none => simp [hs] at h
    | some r =>
      simp only [hs] at h
      have : r = e' := by cases h; rfl
      subst this
      have hV : VarsIn (fun x => x ∈ Expr.variables e) r := by
        refine symbEvaluate_varsIn (S := fun x => x ∈ Expr.variables e)
          (reduceFn s ps constant) e r ?_ hs
        intro v hv e1 he1
        rcases reduceFn_cases s ps constant v with hg | ⟨c, _, _, hg⟩
        · rw [hg] at he1
          cases he1
          intro p hp x hx
          simp only [Expr.var, List.mem_singleton] at hp
          subst hp
          simp only [List.mem_singleton] at hx
          subst hx; exact hv
        · rw [hg] at he1
          cases he1
          intro p hp x hx
          unfold Expr.val at hp
          split at hp
          · cases hp
          · simp only [List.mem_singleton] at hp
            subst hp; cases hx
      exact varsIn_iff.1 hV
  · have : e = e' := by cases h; rfl
    subst this; exact fun x hx => hx

/-- `reduceConst` keeps the normal form. -/
theorem reduceConst_canon (s : Rebuild w) (ps : List (Rebuild w)) (e e' : Expr w) (constant : List Int)
    (h : reduceConst s ps e constant = .ok e') (hc : Canon e) : Canon e' := by
  rw [reduceConst_eq] at h
  split at h
  · cases hs : Expr.symbEvaluate e (reduceFn s ps constant) with
    | none => simp [hs] at h
    | some r =>
      simp only [hs] at h
      have : r = e' := by cases h; rfl
      subst this
      apply C15.preserve_symbEvaluate (reduceFn s ps constant) _ hs
      intro v e1 he1
      rcases reduceFn_cases s ps constant v with hg | ⟨c, _, _, hg⟩
      · rw [hg] at he1; cases he1; exact C15.preserve_var v
      · rw [hg] at he1; cases he1; exact C15.preserve_val c
  · have : e = e' := by cases h; rfl
    subst this; exact hc

/-! ### `splitAlong` -/

/-- Sum of `g` over a list. -/
def sumL {α : Type} (g : α → BitVec w) : List α → BitVec w
  | [] => 0#w
  | a :: l => g a + sumL g l

@[simp] theorem sumL_nil {α : Type} (g : α → BitVec w) : sumL g [] = 0#w := rfl
@[simp] theorem sumL_cons {α : Type} (g : α → BitVec w) (a : α) (l : List α) :
    sumL g (a :: l) = g a + sumL g l := rfl

theorem sumL_append {α : Type} (g : α → BitVec w) (a b : List α) :
    sumL g (a ++ b) = sumL g a + sumL g b := by
  induction a with
  | nil => simp
  | cons x a ih => simp [ih, BitVec.add_assoc]

/-- The body of the loop of `split_along`. -/
def splitStep (constant : List Int) (linear : List (Int × Expr w))
    (acc : Expr w × Expr w × List (Expr w × Expr w)) (part : Part w) :
    Except String (Expr w × Expr w × List (Expr w × Expr w)) :=
  if part.vars.all (fun v => constant.contains v) then
    pure (acc.1 ++ [part], acc.2.1, acc.2.2)
  else if part.vars.all (fun v => constant.contains v || mHas linear v)
      && (part.vars.filter (fun x => !constant.contains x)).length == 1 then
    match part.vars.find? (fun x => !constant.contains x) with
    | none => throw "panic: split_along: find(..).unwrap()"
    | some linVar =>
      match mGet linear linVar with
      | none => throw "panic: split_along: linear[lin_var]"
      | some lin =>
        let increment : Part w := { coef := part.coef, vars := part.vars.filter (fun x => !(x == linVar)) }
        pure (acc.1, acc.2.1, acc.2.2 ++ [([part], Expr.mul [increment] lin)])
  else pure (acc.1, acc.2.1 ++ [part], acc.2.2)

theorem splitAlong_eq (e : Expr w) (constant : List Int) (linear : List (Int × Expr w)) :
    splitAlong e constant linear = e.foldlM (splitStep constant linear) ([], [], []) := rfl

/-- `part` without its variable `lv`. -/
abbrev incPart (part : Part w) (lv : Int) : Part w :=
  { coef := part.coef, vars := part.vars.filter (fun x => !(x == lv)) }

/-- A linear part `(initial, increment)` produced by `splitAlong`: the single part `part` of the
expression, which has exactly one non-constant variable `lv` (occurring once), a linear one with increment
`l`; `increment = (part / lv) * l`. -/
def LinPart (constant : List Int) (linear : List (Int × Expr w)) (e : Expr w)
    (il : Expr w × Expr w) : Prop :=
  ∃ (part : Part w) (lv : Int) (l : Expr w),
    part ∈ e ∧ il.1 = [part] ∧ lv ∈ part.vars ∧ constant.contains lv = false ∧
    mGet linear lv = some l ∧
    il.2 = Expr.mul [incPart part lv] l ∧
    (∀ x ∈ part.vars, x = lv ∨ constant.contains x = true) ∧
    (part.vars.filter (fun x => x == lv)).length = 1

theorem filter_single_of_find {vs : List Int} {q : Int → Bool} {lv : Int}
    (hlen : (vs.filter q).length = 1) (hfind : vs.find? q = some lv) : vs.filter q = [lv] := by
  have hq : q lv = true := List.find?_some hfind
  have hmem : lv ∈ vs := List.mem_of_find?_eq_some hfind
  have hm : lv ∈ vs.filter q := List.mem_filter.2 ⟨hmem, hq⟩
  obtain ⟨x, hx⟩ := List.length_eq_one_iff.1 hlen
  rw [hx] at hm ⊢
  simp only [List.mem_singleton] at hm
  rw [hm]

theorem splitStep_lin {constant : List Int} {linear : List (Int × Expr w)} {e : Expr w}
    {part : Part w} (hp : part ∈ e) {lv : Int} {l : Expr w}
    (hlen : (part.vars.filter (fun x => !constant.contains x)).length = 1)
    (hfind : part.vars.find? (fun x => !constant.contains x) = some lv)
    (hl : mGet linear lv = some l) :
    LinPart constant linear e
      ([part], Expr.mul [incPart part lv] l) := by
  have hfl := filter_single_of_find hlen hfind
  have hq : (fun x => !constant.contains x) lv = true :=
    List.find?_some (p := fun x => !constant.contains x) hfind
  have hmem : lv ∈ part.vars := List.mem_of_find?_eq_some hfind
  have hnc : constant.contains lv = false := by simpa using hq
  refine ⟨part, lv, l, hp, rfl, hmem, hnc, hl, rfl, ?_, ?_⟩
  · intro x hx
    cases hcx : constant.contains x with
    | true => right; rfl
    | false =>
      left
      have : x ∈ part.vars.filter (fun x => !constant.contains x) :=
        List.mem_filter.2 ⟨hx, by rw [hcx]; rfl⟩
      rw [hfl] at this
      simpa using this
  · have : part.vars.filter (fun x => x == lv)
        = (part.vars.filter (fun x => !constant.contains x)).filter (fun x => x == lv) := by
      rw [List.filter_filter]
      apply List.filter_congr
      intro x _
      by_cases hx : x = lv
      · subst hx; rw [hnc]; simp
      · simp [hx]
    rw [this, hfl]; simp

/-- What one run of the loop of `split_along` adds to the three accumulators. -/
theorem splitFold_spec (constant : List Int) (linear : List (Int × Expr w)) (e0 : Expr w) (e : Expr w)
    (he : ∀ p ∈ e, p ∈ e0)
    (acc acc' : Expr w × Expr w × List (Expr w × Expr w))
    (h : e.foldlM (splitStep constant linear) acc = .ok acc') :
    (∀ f : Mem w, ev acc'.1 f + ev acc'.2.1 f + sumL (fun il => ev il.1 f) acc'.2.2
      = (ev acc.1 f + ev acc.2.1 f + sumL (fun il => ev il.1 f) acc.2.2) + ev e f) ∧
    (∀ p ∈ acc'.1, p ∈ acc.1 ∨ (p ∈ e0 ∧ ∀ x ∈ p.vars, constant.contains x = true)) ∧
    (∀ p ∈ acc'.2.1, p ∈ acc.2.1 ∨ p ∈ e0) ∧
    (∀ il ∈ acc'.2.2, il ∈ acc.2.2 ∨ LinPart constant linear e0 il) := by
  induction e generalizing acc with
  | nil =>
    have : acc = acc' := by
      simp only [List.foldlM_nil] at h
      cases h; rfl
    subst this
    refine ⟨fun f => by simp, fun p hp => Or.inl hp, fun p hp => Or.inl hp, fun il h => Or.inl h⟩
  | cons part e ih =>
    rw [List.foldlM_cons] at h
    cases hstep : splitStep constant linear acc part with
    | error err => rw [hstep] at h; cases h
    | ok acc1 =>
      rw [hstep] at h
      have hrec := ih (fun p hp => he p (List.mem_cons_of_mem _ hp)) acc1 h
      obtain ⟨hv, h1, h2, h3⟩ := hrec
      have hpe0 : part ∈ e0 := he part List.mem_cons_self
      unfold splitStep at hstep
      split at hstep
      · rename_i hall
        have hacc1 : acc1 = (acc.1 ++ [part], acc.2.1, acc.2.2) := by cases hstep; rfl
        subst hacc1
        refine ⟨fun f => ?_, fun p hp => ?_, h2, h3⟩
        · rw [hv f, ev_cons part e f, ev_append]
          simp only
          generalize ev acc.1 f = a
          generalize ev [part] f = b
          generalize ev acc.2.1 f = c
          generalize sumL (fun il => ev il.1 f) acc.2.2 = d
          generalize ev e f = x
          bvring
        · rcases h1 p hp with hp1 | hp1
          · rcases List.mem_append.1 hp1 with hp2 | hp2
            · exact Or.inl hp2
            · simp only [List.mem_singleton] at hp2
              subst hp2
              exact Or.inr ⟨hpe0, fun x hx => List.all_eq_true.1 hall x hx⟩
          · exact Or.inr hp1
      · split at hstep
        · rename_i hcond
          simp only [Bool.and_eq_true, beq_iff_eq] at hcond
          cases hfind : part.vars.find? (fun x => !constant.contains x) with
          | none => simp only [hfind] at hstep; cases hstep
          | some lv =>
            simp only [hfind] at hstep
            cases hl : mGet linear lv with
            | none => simp only [hl] at hstep; cases hstep
            | some l =>
              simp only [hl] at hstep
              have hacc1 : acc1 = (acc.1, acc.2.1, acc.2.2 ++
                  [([part], Expr.mul [incPart part lv] l)]) := by
                cases hstep; rfl
              subst hacc1
              refine ⟨fun f => ?_, h1, h2, fun il hil => ?_⟩
              · rw [hv f, ev_cons part e f, sumL_append]
                simp only [sumL_cons, sumL_nil]
                generalize ev acc.1 f = a
                generalize ev [part] f = b
                generalize ev acc.2.1 f = c
                generalize sumL (fun il => ev il.1 f) acc.2.2 = d
                generalize ev e f = x
                bvring
              · rcases h3 il hil with hil1 | hil1
                · rcases List.mem_append.1 hil1 with hil2 | hil2
                  · exact Or.inl hil2
                  · simp only [List.mem_singleton] at hil2
                    subst hil2
                    exact Or.inr (splitStep_lin hpe0 hcond.2 hfind hl)
                · exact Or.inr hil1
        · have hacc1 : acc1 = (acc.1, acc.2.1 ++ [part], acc.2.2) := by cases hstep; rfl
          subst hacc1
          refine ⟨fun f => ?_, h1, fun p hp => ?_, h3⟩
          · rw [hv f, ev_cons part e f, ev_append]
            simp only
            generalize ev acc.1 f = a
            generalize ev [part] f = b
            generalize ev acc.2.1 f = c
            generalize sumL (fun il => ev il.1 f) acc.2.2 = d
            generalize ev e f = x
            bvring
          · rcases h2 p hp with hp1 | hp1
            · rcases List.mem_append.1 hp1 with hp2 | hp2
              · exact Or.inl hp2
              · simp only [List.mem_singleton] at hp2
                subst hp2
                exact Or.inr hpe0
            · exact Or.inr hp1

/-- `splitAlong`: the expression is the sum of its constant part, the other part and the initial values
of its linear parts; the constant part only mentions constants; the other part consists of parts of the
expression; every linear part is a `LinPart`. -/
theorem splitAlong_recompose (e : Expr w) (constant : List Int) (linear : List (Int × Expr w))
    (cst other : Expr w) (lins : List (Expr w × Expr w))
    (h : splitAlong e constant linear = .ok (cst, other, lins)) :
    (∀ f : Mem w, ev e f = ev cst f + ev other f + sumL (fun il => ev il.1 f) lins) ∧
    (∀ x ∈ Expr.variables cst, constant.contains x = true) ∧
    (∀ p ∈ cst, p ∈ e) ∧ (∀ p ∈ other, p ∈ e) ∧
    (∀ il ∈ lins, LinPart constant linear e il) := by
  rw [splitAlong_eq] at h
  obtain ⟨hv, h1, h2, h3⟩ := splitFold_spec constant linear e e (fun p hp => hp) _ _ h
  refine ⟨fun f => ?_, fun x hx => ?_, fun p hp => ?_, fun p hp => ?_, fun il hil => ?_⟩
  · have := hv f
    simp only [ev_nil, sumL_nil] at this
    rw [this]; simp
  · obtain ⟨p, hp, hxp⟩ := mem_variables.1 hx
    rcases h1 p hp with h | h
    · cases h
    · exact h.2 x hxp
  · rcases h1 p hp with h | h
    · cases h
    · exact h.1
  · rcases h2 p hp with h | h
    · cases h
    · exact h
  · rcases h3 il hil with h | h
    · cases h
    · exact h

/-- A variable occurring once can be factored out of a monomial. -/
theorem mono_extract (f : Int → BitVec w) (vs : List Int) (lv : Int)
    (h : (vs.filter (fun x => x == lv)).length = 1) :
    mono f vs = f lv * mono f (vs.filter (fun x => !(x == lv))) := by
  induction vs with
  | nil => simp at h
  | cons x xs ih =>
    by_cases hx : x = lv
    · subst hx
      simp only [List.filter_cons, beq_self_eq_true, if_true, List.length_cons, Nat.add_eq_right,
        List.length_eq_zero_iff] at h
      have hnone : xs.filter (fun y => !(y == x)) = xs := by
        apply List.filter_eq_self.2
        intro y hy
        by_cases hyx : y = x
        · subst hyx
          have : y ∈ xs.filter (fun z => z == y) := List.mem_filter.2 ⟨hy, by simp⟩
          rw [h] at this; cases this
        · simp [hyx]
      simp [hnone]
    · have hb : (x == lv) = false := by simpa using hx
      simp only [List.filter_cons, hb] at h ⊢
      simp only [Bool.not_false, if_true, mono_cons]
      rw [ih h]
      bvring

/-- Value of a linear part: the linear variable times the rest. -/
theorem linPart_value {constant : List Int} {linear : List (Int × Expr w)} {e : Expr w}
    {il : Expr w × Expr w} (h : LinPart constant linear e il) :
    ∃ (part : Part w) (lv : Int) (l : Expr w),
      part ∈ e ∧ il.1 = [part] ∧ lv ∈ part.vars ∧ constant.contains lv = false ∧
      mGet linear lv = some l ∧
      (∀ x ∈ part.vars, x = lv ∨ constant.contains x = true) ∧
      ∀ f : Mem w,
        ev il.1 f = f lv * ev [incPart part lv] f ∧
        ev il.2 f = ev [incPart part lv] f * ev l f := by
  obtain ⟨part, lv, l, hp, h1, hlv, hnc, hl, h2, hall, hcnt⟩ := h
  refine ⟨part, lv, l, hp, h1, hlv, hnc, hl, hall, fun f => ⟨?_, ?_⟩⟩
  · rw [h1, ev_singleton, ev_singleton, mono_extract f part.vars lv hcnt]
    simp only
    bvring
  · rw [h2, ev_mul]

end Hpbf.OptLoop
