/-
C01, level 0, part 1: `Ir.parse` on a bracket-balanced text is a structural recursion over the bracket
tree.  `comp q f` returns the instructions the parser emits for the program `q` when its top frame is
`f` (without the instruction list) together with the frame afterwards; `block q f` is the whole rest
of a block (including the final flush of pending increments).
-/
import Hpbf.Ir
import Hpbf.Proofs.Tree

namespace Hpbf
namespace C01
open Ir

variable {w : Nat}

/-- A parser frame without its instruction list. -/
structure Fr (w : Nat) where
  shift : Int
  moved : Bool
  buff : List (Int × BitVec w)

def toFrame (f : Fr w) (r : List (Instr w)) : Frame w :=
  { shift := f.shift, moved := f.moved, rinsts := r, buff := f.buff }

def fresh (sh : Int) : Fr w := { shift := sh, moved := false, buff := [] }

/-- Pending increment of the cell at offset `a`. -/
def pend (b : List (Int × BitVec w)) (a : Int) : BitVec w := (bget b a).getD 0#w

/-- The `add` instructions for the non-zero entries, in list order. -/
def addsOf (vars : List (Int × BitVec w)) : List (Instr w) :=
  vars.filterMap (fun kv => if kv.2 != 0#w then some (Instr.add kv.1 kv.2) else none)

theorem pushAdds_eq (vars : List (Int × BitVec w)) : ∀ r : List (Instr w),
    pushAdds r vars = (addsOf vars).reverse ++ r := by
  induction vars with
  | nil => intro r; rfl
  | cons kv vs ih =>
    intro r
    unfold pushAdds at ih ⊢
    simp only [List.foldl_cons]
    rw [ih]
    unfold addsOf
    by_cases h : kv.2 = 0#w
    · simp [h]
    · simp [h]

def flushOneI (b : List (Int × BitVec w)) (k : Int) : List (Instr w) × List (Int × BitVec w) :=
  match bget b k with
  | none => ([], bset b k 0#w)
  | some v => if v != 0#w then ([Instr.add k v], bset b k 0#w) else ([], b)

def flushManyI (b : List (Int × BitVec w)) : List Int → List (Instr w) × List (Int × BitVec w)
  | [] => ([], b)
  | k :: ks => ((flushOneI b k).1 ++ (flushManyI (flushOneI b k).2 ks).1, (flushManyI (flushOneI b k).2 ks).2)

theorem flushOne_eq (f : Fr w) (r : List (Instr w)) (k : Int) :
    flushOne (toFrame f r) k =
      toFrame { f with buff := (flushOneI f.buff k).2 } ((flushOneI f.buff k).1.reverse ++ r) := by
  unfold flushOne flushOneI toFrame
  simp only
  cases bget f.buff k with
  | none => rfl
  | some v =>
    by_cases h : (v != 0#w) = true
    · simp [h]
    · simp [h]

theorem flushMany_eq (ks : List (Int × BitVec w)) : ∀ (f : Fr w) (r : List (Instr w)),
    ks.foldl (fun p kv => flushOne p kv.1) (toFrame f r) =
      toFrame { f with buff := (flushManyI f.buff (ks.map (·.1))).2 }
        ((flushManyI f.buff (ks.map (·.1))).1.reverse ++ r) := by
  induction ks with
  | nil => intro f r; rfl
  | cons kv ks ih =>
    intro f r
    simp only [List.foldl_cons, List.map_cons, flushManyI]
    rw [flushOne_eq, ih]
    simp [List.append_assoc]

/-- Effect of one simple command on the frame, and the instructions emitted. -/
def compOp (op : Op) (f : Fr w) : List (Instr w) × Fr w :=
  match op with
  | .right => ([], { f with shift := f.shift + 1 })
  | .left => ([], { f with shift := f.shift - 1 })
  | .inc => ([], { f with buff := bset f.buff f.shift (pend f.buff f.shift + 1#w) })
  | .dec => ([], { f with buff := bset f.buff f.shift (pend f.buff f.shift + (-1#w)) })
  | .out => ((flushOneI f.buff f.shift).1 ++ [.output f.shift], { f with buff := (flushOneI f.buff f.shift).2 })
  | .inp => ([.input f.shift], { f with buff := bset f.buff f.shift 0#w })

/-- Is the loop with body end frame `fb` and body instructions `ib` (entered from `par`) unbalanced? -/
def unb (fb par : Fr w) : Bool := fb.moved || fb.shift != par.shift

/-- The instructions of a loop body. -/
def bodyInsts (ib : List (Instr w)) (fb : Fr w) : List (Instr w) := ib ++ addsOf (bsorted fb.buff)

def isSpecial (ib : List (Instr w)) (fb par : Fr w) : Bool :=
  !fb.moved && fb.shift == par.shift && isOddStep (bodyInsts ib fb) par.shift

/-- The `']'` arm: instructions pushed on the parent and the parent frame afterwards. -/
def closeI (ib : List (Instr w)) (fb par : Fr w) : List (Instr w) × Fr w :=
  if isSpecial ib fb par then
    ([Instr.load par.shift 0#w], { par with buff := bset par.buff par.shift 0#w })
  else
    let r1 := flushManyI par.buff ((bsorted fb.buff).map (·.1))
    let i2 := if unb fb par then addsOf (bsorted r1.2) else []
    let b2 := if unb fb par then r1.2.map (fun kv => (kv.1, 0#w)) else r1.2
    let mv := if unb fb par then true else par.moved
    let r3 := flushOneI b2 par.shift
    (r1.1 ++ i2 ++ r3.1 ++ [.loop par.shift (fb.shift - par.shift) (bodyInsts ib fb) false],
      { shift := par.shift, moved := mv, buff := r3.2 })

theorem closeLoop_eq (ib : List (Instr w)) (fb par : Fr w) (r : List (Instr w)) :
    closeLoop (toFrame fb ib.reverse) (toFrame par r) =
      toFrame (closeI ib fb par).2 ((closeI ib fb par).1.reverse ++ r) := by
  have e1 : (toFrame fb ib.reverse).moved = fb.moved := rfl
  have e2 : (toFrame fb ib.reverse).shift = fb.shift := rfl
  have e3 : (toFrame par r).shift = par.shift := rfl
  have e4 : (toFrame fb ib.reverse).buff = fb.buff := rfl
  have e5 : (toFrame fb ib.reverse).rinsts = ib.reverse := rfl
  unfold closeLoop closeI
  simp only [pushAdds_eq, List.reverse_append, List.reverse_reverse, e1, e2, e3, e4, e5]
  by_cases hs : isSpecial ib fb par = true
  · have hs' := hs
    unfold isSpecial bodyInsts at hs'
    rw [if_pos hs', if_pos hs]
    rfl
  · have hs' := hs
    unfold isSpecial bodyInsts at hs'
    rw [if_neg hs', if_neg hs]
    simp only [bodyInsts]
    rw [flushMany_eq]
    by_cases hu : unb fb par = true
    · have hu' := hu
      unfold unb at hu'
      simp only [toFrame, hu', hu, ↓reduceIte]
      have := flushOne_eq (w := w)
        { shift := par.shift, moved := true,
          buff := (flushManyI par.buff ((bsorted fb.buff).map (·.1))).2.map (fun kv => (kv.1, 0#w)) }
        ((addsOf (bsorted (flushManyI par.buff ((bsorted fb.buff).map (·.1))).2)).reverse ++
          ((flushManyI par.buff ((bsorted fb.buff).map (·.1))).1.reverse ++ r)) par.shift
      simp only [toFrame] at this
      rw [this]
      simp [List.append_assoc]
    · have hu' := hu
      unfold unb at hu'
      simp only [toFrame, hu', hu, Bool.false_eq_true, ↓reduceIte]
      have := flushOne_eq (w := w)
        { shift := par.shift, moved := par.moved,
          buff := (flushManyI par.buff ((bsorted fb.buff).map (·.1))).2 }
        ((flushManyI par.buff ((bsorted fb.buff).map (·.1))).1.reverse ++ r) par.shift
      simp only [toFrame] at this
      rw [this]
      simp [List.append_assoc]

/-- The parser as a recursion over the bracket tree. -/
def comp : Prog → Fr w → List (Instr w) × Fr w
  | .nil, f => ([], f)
  | .cmd op r, f => ((compOp op f).1 ++ (comp r (compOp op f).2).1, (comp r (compOp op f).2).2)
  | .loop b r, f =>
    let sub := comp b (fresh f.shift)
    let cl := closeI sub.1 sub.2 f
    (cl.1 ++ (comp r cl.2).1, (comp r cl.2).2)

/-- All instructions of the rest `q` of a block whose frame is `f`. -/
def block (q : Prog) (f : Fr w) : List (Instr w) :=
  (comp q f).1 ++ addsOf (bsorted (comp q f).2.buff)

theorem parseStep_op {k : Kind} {op : Op} (hk : Kind.toOp? k = some op) (f : Fr w)
    (r : List (Instr w)) (rest : List (Frame w)) (pos : List Nat) (i : Nat) :
    parseStep { top := toFrame f r, rest := rest, positions := pos } i k =
      .ok { top := toFrame (compOp op f).2 ((compOp op f).1.reverse ++ r), rest := rest, positions := pos } := by
  cases k <;> simp [Kind.toOp?] at hk <;> subst hk
  · simp [parseStep, compOp, bump, toFrame, pend]
  · simp [parseStep, compOp, bump, toFrame, pend]
  · simp [parseStep, compOp, toFrame]
  · simp [parseStep, compOp, toFrame]
  · simp [parseStep, compOp, toFrame]
  · simp only [parseStep, compOp]
    have e : (toFrame f r).shift = f.shift := rfl
    rw [e, flushOne_eq]
    simp [toFrame]

theorem drop_of_getElem? {src : List Kind} {i : Nat} {k : Kind} (h : src[i]? = some k) :
    src.drop i = k :: src.drop (i + 1) := by
  obtain ⟨hi, hk⟩ := List.getElem?_eq_some_iff.mp h
  rw [List.drop_eq_getElem_cons hi, hk]

/-- `parseLoop` across a represented segment. -/
theorem parseLoop_repr {src : List Kind} {i j : Nat} {q : Prog} (h : Repr src i j q) :
    ∀ (f : Fr w) (r : List (Instr w)) (rest : List (Frame w)) (pos : List Nat),
      parseLoop (src.drop i) i { top := toFrame f r, rest := rest, positions := pos } =
        parseLoop (src.drop j) j
          { top := toFrame (comp q f).2 ((comp q f).1.reverse ++ r), rest := rest, positions := pos } := by
  induction h with
  | nil i _ => intro f r rest pos; simp [comp]
  | comment hc _ ih =>
    intro f r rest pos
    rw [drop_of_getElem? hc, parseLoop]
    simp only [parseStep]
    exact ih f r rest pos
  | cmd hc hop _ ih =>
    intro f r rest pos
    rw [drop_of_getElem? hc, parseLoop, parseStep_op hop]
    simp only
    rw [ih]
    simp [comp, List.append_assoc]
  | @loop i k j body rst ho hb hk hr ih1 ih2 =>
    intro f r rest pos
    rw [drop_of_getElem? ho, parseLoop]
    simp only [parseStep]
    have e : ({ shift := (toFrame f r).shift, moved := false, rinsts := [], buff := [] } : Frame w) =
        toFrame (fresh f.shift) [] := rfl
    rw [e, ih1, drop_of_getElem? hk, parseLoop]
    simp only [parseStep, List.append_nil]
    rw [closeLoop_eq, ih2]
    simp [comp, List.append_assoc]

/-- `Ir.parse` of a balanced text, in closed form. -/
theorem parse_of_tree {src : List Kind} {p : Prog} (hp : Bf.tree src = some p) :
    Ir.parse (w := w) src =
      .ok { shift := (comp (w := w) p (fresh 0)).2.shift, insts := block p (fresh 0) } := by
  have h := parseLoop_repr (w := w) (tree_sound hp) (fresh 0) [] [] []
  unfold parse
  have e : ({ shift := 0, moved := false, rinsts := [], buff := [] } : Frame w) = toFrame (fresh 0) [] := rfl
  simp only [List.drop_zero] at h
  rw [e, h]
  simp [parseLoop, block, pushAdds_eq, toFrame]

theorem parse_ok_of_tree {src : List Kind} {p : Prog} (hp : Bf.tree src = some p) :
    ∃ b, Ir.parse (w := w) src = .ok b := ⟨_, parse_of_tree hp⟩

end C01
end Hpbf
