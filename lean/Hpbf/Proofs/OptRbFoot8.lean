/-
Rebuild-round proofs: the FOOTPRINT invariants, part 8: `performAll` at an arbitrary pointer offset (all footprint
claims at once), and `loopInsideIf` (the block, emitted in one of three ways, followed by the `after` operations).
-/
import Hpbf.Proofs.OptRbFoot7
import Hpbf.Proofs.OptRbLoopIn

namespace Hpbf
namespace OptProof
open Opt OptSem Ir

variable {w : Nat}

/-- All footprint claims packaged (for the instructions `new` appended between `s` and `s'`). -/
def FootAll (V : State w → Prop) (s s' : Rebuild w) (new : List (Instr w)) : Prop :=
  FootStepV V s s' new ∧ FootBadV V s s' new ∧ FootFrameV V s s' new ∧ ReadsMono s s' ∧ KeysMono' s s'

theorem KeysMono'.trans {a b c : Rebuild w} (h1 : KeysMono' a b) (h2 : KeysMono' b c) (hm : ReadsMono b c) :
    KeysMono' a c := fun hs v hv => h2 hs v (h1 (hm.2 hs) v hv)

theorem FootAll.trans {V V' : State w → Prop} {a b c : Rebuild w} {n1 n2 : List (Instr w)}
    (h1 : FootAll V a b n1) (h2 : FootAll V' b c n2)
    (hv : ∀ σ σ', V σ → Exec n1 σ (.fin σ') → V' σ') : FootAll V a c (n1 ++ n2) := by
  obtain ⟨a1, a2, a3, a4, a5⟩ := h1
  obtain ⟨b1, b2, b3, b4, b5⟩ := h2
  exact ⟨a1.trans b1 hv b4, a2.trans a1 b2 hv b4, a3.trans a1 b3 hv b4 b5, a4.trans b4, a5.trans b5 b4⟩

/-- After an uncertain move every footprint claim is void. -/
theorem FootAll.void {V : State w → Prop} {s s' : Rebuild w} (hs : s'.subShift = true) (hm : ReadsMono s s')
    (new : List (Instr w)) : FootAll V s s' new := by
  refine ⟨fun h => ?_, fun h => ?_, fun h => ?_, hm, fun h => ?_⟩ <;> exact absurd (hs.symm.trans h) (by simp)

/-! ### `performAll` -/

/-- `performAll` at any pointer offset, for any notion of validity. -/
theorem performAll_footAll {V : State w → Prop} {s : Rebuild w} {ps : List (Rebuild w)} {sh : Int}
    {calcs : List (Int × Expr w)} {os os' : Orders} {s' : Rebuild w}
    (hr : (performAll s ps sh calcs).run os = .ok (s', os')) (hwf : Wf s) :
    ∃ new, s'.insts = s.insts ++ new ∧ (∀ i ∈ new, C01Dse.isBlock i = false) ∧
      FootStepV V s s' new ∧ FootBadV V s s' new ∧ FootFrameV V s s' new ∧ ReadsMono s s' ∧ KeysMono' s s' := by
  obtain ⟨comps, _, _, _, _, hi, _, hf⟩ := performAll_foot' hr hwf
  exact ⟨comps.map Instr.calc, hi, noBlocks_calcs comps, hf.foot.footStep.toV V,
    footBadV_of_noBlocks (noBlocks_calcs comps), hf.physStep.footFrameV V, hf.mono, hf.keysMono⟩

/-! ### `loopInsideIf` -/

/-- The first half of `loopInsideIf`: the block itself. -/
theorem loopInsideIf_first_foot {shP shC shS cS : Int} {bodyS : List (Instr w)} {oS : Bool} {isLoop : Bool}
    {s : Rebuild w} {ps : List (Rebuild w)} {sub : Rebuild w} {cond : Int} {L : OptLoop w}
    {C : List Int} {pc : List (Rebuild w)} {sub0 : Rebuild w} {os os' : Orders} {s' : Rebuild w}
    {G Gc : State w → Prop}
    (hr : ((if L.atMostOnce then Opt.inline s ps sub
      else if L.finite && sub.shift == s.shift && sub.insts.isEmpty && sub.pending.length == 1
          && mHas sub.pending cond then performAll s ps 0 [(cond, Expr.val 0#w)]
      else loopOrIf s ps sub cond true L C : M (Rebuild w))).run os = .ok (s', os'))
    (hwf : Wf s) (hsf : ShiftFree s) (hcond : cond = cS + shP)
    (hsh : shC + shS = (sub.shift - s.shift) + shP)
    (hrep : ChildRep Gc shP shC pc sub0 [] sub bodyS)
    (hentry : ∀ σE σS : State w, SameMem shP σS σE → σS.rd cS ≠ 0#w → Gc σS →
      ∃ M0, RelAt shP sub0 pc M0 σE σS)
    (hGc : ∀ M0 σE σS, RelAt shP s ps M0 σE σS → G σS → ∀ k σk, Head cS shS bodyS σS k σk →
      (L.atMostOnce = true → k = 0) → σk.rd cS ≠ 0#w → Gc σk)
    (hGcT : L.atMostOnce = false → ∀ σ, Gc σ)
    (hwfc : Wf sub)
    (hpre : sub.subShift = false → ChildPre Gc shP shC pc sub0 sub cS bodyS)
    (hkv : sub.subShift = false →
      ∀ v e, mGet sub.written v = some (.known e) → ∀ x ∈ Expr.variables e, x ∈ sub.reads)
    (hF : LoopFacts G shP s ps isLoop cS shS bodyS oS L C)
    (hamoalo : L.atMostOnce = true → L.atLeastOnce = true) :
    Wf s' ∧ ∃ new, s'.insts = s.insts ++ new ∧ FootAll (ValidG G shP s ps) s s' new := by
  -- the emitted instructions and `Wf` from the semantic lemma
  obtain ⟨hwf', _, _, _, new, _, _, hi, _⟩ :=
    loopInsideIf_first hr hwf hsf hcond hsh hrep hentry hGc hwfc hpre hkv hF hamoalo
  refine ⟨hwf', new, hi, ?_⟩
  split at hr
  · -- inlined
    rename_i hamo
    have hne : ∀ M0 σE σS, RelAt shP s ps M0 σE σS → G σS → σS.rd cS ≠ 0#w := hF.alo (hamoalo hamo)
    cases hss : sub.subShift with
    | true =>
      obtain ⟨h1, h2, _⟩ := inline_shift_void hr hwf hss
      exact FootAll.void h1 h2 new
    | false =>
      obtain ⟨new', hi', a1, a2, a3, a4, a5⟩ := inline_stay_foot hr hwf (hpre hss) hne
        (fun M0 σE σS hrel hg => hGc M0 σE σS hrel hg 0 σS Head.zero (fun _ => rfl) (hne M0 σE σS hrel hg))
      have : new' = new := List.append_cancel_left (hi'.symm.trans hi)
      subst this
      exact ⟨a1, a2, a3, a4, a5⟩
  · rename_i hamo
    have hil : isLoop = true := by
      cases h : isLoop with
      | true => rfl
      | false => exact absurd (hF.ifamo h) hamo
    subst hil
    split at hr
    · -- `cond := 0`
      obtain ⟨new', hi', _, a1, a2, a3, a4, a5⟩ := performAll_footAll (V := ValidG G shP s ps) hr hwf
      have : new' = new := List.append_cancel_left (hi'.symm.trans hi)
      subst this
      exact ⟨a1, a2, a3, a4, a5⟩
    · cases hns : (sub.subShift || sub.shift != s.shift) with
      | true =>
        obtain ⟨h1, h2, _⟩ := loopOrIf_shift_foot hr hwf hwfc hns
        exact FootAll.void h1 h2 new
      | false =>
        have hss : sub.subShift = false := by
          simp only [Bool.or_eq_false_iff] at hns; exact hns.1
        have hse : sub.shift = s.shift := by
          simp only [Bool.or_eq_false_iff, bne_eq_false_iff_eq] at hns; exact hns.2
        have hamof : L.atMostOnce = false := by
          cases h : L.atMostOnce with
          | false => rfl
          | true => exact absurd h hamo
        have hGc' : ∀ M0 σE σS, RelAt shP s ps M0 σE σS → G σS → ∀ k σk, Head cS shS bodyS σS k σk →
            (true = false → k = 0) → σk.rd cS ≠ 0#w → Gc σk :=
          fun M0 σE σS hrel hg k σk hh _ hne' => hGc M0 σE σS hrel hg k σk hh (fun h => absurd h hamo) hne'
        have hGcT' : true = true → ∀ σ, Gc σ := fun _ => hGcT hamof
        obtain ⟨n1, e1, a1, a4, a5⟩ := loopOrIf_stay_foot hr hwf (hpre hss) hns hcond hGc' hGcT'
          (fun h => Bool.noConfusion h) hF.alo
        obtain ⟨n2, e2, a2⟩ := loopOrIf_stay_footBad (G := G) hr hwf (hpre hss) hns hcond hGc' hGcT'
        obtain ⟨n3, e3, a3⟩ := loopOrIf_stay_footFrame' (oS := oS) hr hwf (hpre hss) hns hcond
          (by rw [hsh, hse]; omega) hGc' hGcT' hF.alo hF.nc hF.ne hF.const
        have h1 : n1 = new := List.append_cancel_left (e1.symm.trans hi)
        have h2 : n2 = new := List.append_cancel_left (e2.symm.trans hi)
        have h3 : n3 = new := List.append_cancel_left (e3.symm.trans hi)
        subst h1
        rw [h2] at a2
        rw [h3] at a3
        refine ⟨a1, a2, a3, a4, ?_⟩
        intro hs v hv
        exact keys_of_none_mono (a5 hs) hv

/-- `loopInsideIf`: the block, then the operations moved behind it. -/
theorem loopInsideIf_foot {shP shC shS cS : Int} {bodyS : List (Instr w)} {oS : Bool} {isLoop : Bool}
    {s : Rebuild w} {ps : List (Rebuild w)} {sub : Rebuild w} {cond : Int} {L : OptLoop w}
    {after : List (Int × Expr w)}
    {C : List Int} {pc : List (Rebuild w)} {sub0 : Rebuild w} {os os' : Orders} {s' : Rebuild w}
    {G Gc : State w → Prop}
    (hr : (loopInsideIf s ps sub cond L after C).run os = .ok (s', os'))
    (hwf : Wf s) (hsf : ShiftFree s) (hcond : cond = cS + shP)
    (hsh : shC + shS = (sub.shift - s.shift) + shP)
    (hrep : ChildRep Gc shP shC pc sub0 [] sub bodyS)
    (hentry : ∀ σE σS : State w, SameMem shP σS σE → σS.rd cS ≠ 0#w → Gc σS →
      ∃ M0, RelAt shP sub0 pc M0 σE σS)
    (hGc : ∀ M0 σE σS, RelAt shP s ps M0 σE σS → G σS → ∀ k σk, Head cS shS bodyS σS k σk →
      (L.atMostOnce = true → k = 0) → σk.rd cS ≠ 0#w → Gc σk)
    (hGcT : L.atMostOnce = false → ∀ σ, Gc σ)
    (hwfc : Wf sub)
    (hpre : sub.subShift = false → ChildPre Gc shP shC pc sub0 sub cS bodyS)
    (hkv : sub.subShift = false →
      ∀ v e, mGet sub.written v = some (.known e) → ∀ x ∈ Expr.variables e, x ∈ sub.reads)
    (hF : LoopFacts G shP s ps isLoop cS shS bodyS oS L C)
    (hamoalo : L.atMostOnce = true → L.atLeastOnce = true)
    (_hafter : after ≠ [] → shP = 0 ∧ sub.shift = s.shift) :
    ∃ new, s'.insts = s.insts ++ new ∧ FootStepV (ValidG G shP s ps) s s' new ∧
      FootBadV (ValidG G shP s ps) s s' new ∧ FootFrameV (ValidG G shP s ps) s s' new ∧
      ReadsMono s s' ∧ KeysMono' s s' := by
  obtain ⟨s1, os1, h1, h2⟩ := loopInsideIf_run hr
  obtain ⟨hwf1, new1, hi1, hf1⟩ :=
    loopInsideIf_first_foot h1 hwf hsf hcond hsh hrep hentry hGc hGcT hwfc hpre hkv hF hamoalo
  obtain ⟨new2, hi2, _, b1, b2, b3, b4, b5⟩ := performAll_footAll (V := fun _ => True) h2 hwf1
  exact ⟨new1 ++ new2, by rw [hi2, hi1, List.append_assoc],
    FootAll.trans hf1 ⟨b1, b2, b3, b4, b5⟩ (fun _ _ _ _ => trivial)⟩

end OptProof
end Hpbf

#print axioms Hpbf.OptProof.performAll_footAll
#print axioms Hpbf.OptProof.loopInsideIf_foot
#print axioms Hpbf.OptProof.loopOrIf_stay_footFrame'
