/-
Offsets of optimized IR, part 3: the access window of `BcGen.analyze` is TIGHT — if `0` and every offset
of the block lie in `[lo, hi]` then so do `minAcc` and `maxAcc` (the converse of `Local.analyze_covers`).
-/
import Hpbf.BcGen
import Hpbf.Proofs.C10Parse

namespace Hpbf.OptOffs
open Hpbf Ir BcGen

variable {w : Nat}

/-- The window and the recorded writes lie in `[lo, hi]` (and the window is not empty). -/
def WB (lo hi : Int) (a : Analysis) : Prop :=
  lo ≤ a.minAcc ∧ a.maxAcc ≤ hi ∧ a.minAcc ≤ a.maxAcc ∧ ∀ v ∈ a.writes, lo ≤ v ∧ v ≤ hi

theorem wb_accessed {lo hi : Int} {a : Analysis} {v : Int} (h : WB lo hi a) (hv : lo ≤ v ∧ v ≤ hi) :
    WB lo hi (a.accessed v) := by
  obtain ⟨h1, h2, h4, h3⟩ := h
  unfold WB Analysis.accessed
  by_cases c1 : a.minAcc > v <;> by_cases c2 : a.maxAcc < v <;>
    simp only [c1, c2, if_true, if_false] <;> exact ⟨by omega, by omega, by omega, h3⟩

theorem wb_written {lo hi : Int} {a : Analysis} {v : Int} (h : WB lo hi a) (hv : lo ≤ v ∧ v ≤ hi) :
    WB lo hi (a.written v) := by
  have h' := wb_accessed h hv
  unfold Analysis.written
  simp only
  split
  · refine ⟨h'.1, h'.2.1, h'.2.2.1, ?_⟩
    intro x hx
    simp only [setInsert] at hx
    split at hx
    · exact h'.2.2.2 x hx
    · rcases List.mem_append.1 hx with e | e
      · exact h'.2.2.2 x e
      · simp only [List.mem_singleton] at e; subst e; exact hv
  · exact h'

theorem wb_foldl_accessed {lo hi : Int} (vs : List Int) :
    ∀ (a : Analysis), WB lo hi a → (∀ v ∈ vs, lo ≤ v ∧ v ≤ hi) → WB lo hi (vs.foldl Analysis.accessed a) := by
  induction vs with
  | nil => intro a h _; exact h
  | cons x xs ih =>
    intro a h hv
    exact ih _ (wb_accessed h (hv x List.mem_cons_self)) (fun v hv' => hv v (List.mem_cons_of_mem _ hv'))

theorem wb_foldl_written {lo hi : Int} (vs : List Int) :
    ∀ (a : Analysis), WB lo hi a → (∀ v ∈ vs, lo ≤ v ∧ v ≤ hi) → WB lo hi (vs.foldl Analysis.written a) := by
  induction vs with
  | nil => intro a h _; exact h
  | cons x xs ih =>
    intro a h hv
    exact ih _ (wb_written h (hv x List.mem_cons_self)) (fun v hv' => hv v (List.mem_cons_of_mem _ hv'))

theorem wb_calc {lo hi : Int} (calcs : List (Int × Expr w)) :
    ∀ (a : Analysis), WB lo hi a →
      (∀ o ∈ calcs.flatMap (fun ve => ve.1 :: Expr.variables ve.2), lo ≤ o ∧ o ≤ hi) →
      WB lo hi (a.calc calcs) := by
  induction calcs with
  | nil => intro a h _; exact h
  | cons c cs ih =>
    intro a h ho
    have e : a.calc (c :: cs) =
        Analysis.calc (((Expr.variables c.2).foldl Analysis.accessed a).written c.1) cs := rfl
    rw [e]
    simp only [List.flatMap_cons, List.mem_append, List.mem_cons] at ho
    apply ih
    · apply wb_written
      · exact wb_foldl_accessed _ _ h (fun v hv => ho v (Or.inl (Or.inr hv)))
      · exact ho c.1 (Or.inl (Or.inl rfl))
    · intro o ho'
      exact ho o (Or.inr ho')

theorem wb_close {lo hi : Int} {a : Analysis} (h : WB lo hi a) (shift : Int) : WB lo hi (a.close shift) := by
  unfold Analysis.close; split <;> exact h

theorem wb_absorb {lo hi : Int} {a sub : Analysis} {cond : Int} (h : WB lo hi a) (hs : WB lo hi sub)
    (hc : lo ≤ cond ∧ cond ≤ hi) : WB lo hi (a.absorb cond sub) := by
  have h1 := wb_accessed h hc
  have h2 := wb_accessed h1 (v := sub.minAcc) ⟨hs.1, by have := hs.2.1; have := hs.2.2.1; omega⟩
  have h3 := wb_accessed h2 (v := sub.maxAcc) ⟨by have := hs.1; have := hs.2.2.1; omega, hs.2.1⟩
  unfold Analysis.absorb
  simp only
  split
  · exact ⟨h3.1, h3.2.1, h3.2.2.1, fun v hv => by cases hv⟩
  · split
    · have := wb_foldl_written sub.writes _ h3 hs.2.2.2
      exact ⟨this.1, this.2.1, this.2.2.1, this.2.2.2⟩
    · exact ⟨h3.1, h3.2.1, h3.2.2.1, h3.2.2.2⟩

theorem wb_empty {lo hi : Int} (h0 : lo ≤ 0 ∧ 0 ≤ hi) : WB lo hi Analysis.empty :=
  ⟨h0.1, h0.2, Int.le_refl _, fun v hv => by cases hv⟩

mutual
theorem wb_analyzeInstr : ∀ (i : Instr w) (lo hi : Int) (a : Analysis), lo ≤ 0 ∧ 0 ≤ hi → WB lo hi a →
    (∀ o ∈ i.offsets, lo ≤ o ∧ o ≤ hi) → WB lo hi (analyzeInstr i a)
  | .output src, lo, hi, a, _, h, ho => by
    simp only [analyzeInstr]; exact wb_accessed h (ho src (by simp [Instr.offsets]))
  | .input dst, lo, hi, a, _, h, ho => by
    simp only [analyzeInstr]; exact wb_written h (ho dst (by simp [Instr.offsets]))
  | .calc calcs, lo, hi, a, _, h, ho => by
    simp only [analyzeInstr]; exact wb_calc calcs a h (by simpa [Instr.offsets] using ho)
  | .loop cond shift body once, lo, hi, a, h0, h, ho => by
    simp only [analyzeInstr]
    simp only [Instr.offsets, List.mem_cons, forall_eq_or_imp] at ho
    have hb := wb_analyzeInsts body lo hi Analysis.empty h0 (wb_empty h0) ho.2
    exact wb_absorb h (wb_close hb shift) ho.1
  | .ifnz cond shift body, lo, hi, a, h0, h, ho => by
    simp only [analyzeInstr]
    simp only [Instr.offsets, List.mem_cons, forall_eq_or_imp] at ho
    have hb := wb_analyzeInsts body lo hi Analysis.empty h0 (wb_empty h0) ho.2
    exact wb_absorb h (wb_close hb shift) ho.1
theorem wb_analyzeInsts : ∀ (l : List (Instr w)) (lo hi : Int) (a : Analysis), lo ≤ 0 ∧ 0 ≤ hi → WB lo hi a →
    (∀ o ∈ offsets l, lo ≤ o ∧ o ≤ hi) → WB lo hi (analyzeInsts l a)
  | [], _, _, a, _, h, _ => by simp only [analyzeInsts]; exact h
  | i :: r, lo, hi, a, h0, h, ho => by
    simp only [analyzeInsts]
    simp only [offsets, List.mem_append] at ho
    have h1 := wb_analyzeInstr i lo hi a h0 h (fun o hi' => ho o (Or.inl hi'))
    exact wb_analyzeInsts r lo hi _ h0 h1 (fun o hi' => ho o (Or.inr hi'))
end

/-- **The window of `analyze` is no larger than the hull of `0` and the offsets of the block.** -/
theorem analyze_tight (b : Block w) (lo hi : Int) (h0 : lo ≤ 0 ∧ 0 ≤ hi)
    (ho : ∀ o ∈ offsets b.insts, lo ≤ o ∧ o ≤ hi) :
    lo ≤ (analyze b).minAcc ∧ (analyze b).maxAcc ≤ hi := by
  have := wb_close (wb_analyzeInsts b.insts lo hi Analysis.empty h0 (wb_empty h0) ho) b.shift
  exact ⟨this.1, this.2.1⟩

end Hpbf.OptOffs
