/-
Rebuild-round proofs: the structural pass for `PhysInv` (`OptRbPhys.lean`): every cell the emitted code may
physically write is recorded in `written` or `reads`, and no nested block moves the pointer.
`PhysStep` / `KeysMono` per step, for the emitting primitives, `clobber`, `performAll`, the non-loop arms of
`rebuildInstr`, straight-line lists, and `loopOrIf` with a non-moving child.
-/
import Hpbf.Proofs.OptRbFoot4

namespace Hpbf
namespace OptProof
open Opt OptSem Ir

variable {w : Nat}

/-- The instructions `new` appended between `s` and `s'` write only recorded cells and contain no moving block. -/
def PhysStep (_s s' : Rebuild w) (new : List (Instr w)) : Prop :=
  s'.subShift = false → nsL new ∧ ∀ v, tgtL new v → v ∈ mKeys s'.written ∨ v ∈ s'.reads

/-- The keys of `written` only grow. -/
def KeysMono (s s' : Rebuild w) : Prop :=
  s'.subShift = false → ∀ v, v ∈ mKeys s.written → v ∈ mKeys s'.written

theorem PhysInv.step {s s' : Rebuild w} {new : List (Instr w)} (h : PhysInv s) (hp : PhysStep s s' new)
    (hk : KeysMono s s') (hm : ReadsMono s s') (hi : s'.insts = s.insts ++ new) : PhysInv s' := by
  intro hs
  obtain ⟨n0, t0⟩ := h (hm.2 hs)
  obtain ⟨n1, t1⟩ := hp hs
  rw [hi]
  refine ⟨(nsL_append _ _).2 ⟨n0, n1⟩, ?_⟩
  intro v hv
  rcases (tgtL_append _ _ _).1 hv with hv | hv
  · rcases t0 v hv with h' | h'
    · exact Or.inl (hk hs v h')
    · exact Or.inr (hm.1 v h')
  · exact t1 v hv

theorem PhysStep.refl (s : Rebuild w) : PhysStep s s [] :=
  fun _ => ⟨by simp [nsL], fun v hv => absurd hv (tgtL_nil v)⟩

theorem KeysMono.refl (s : Rebuild w) : KeysMono s s := fun _ _ h => h

theorem KeysMono.trans {a b c : Rebuild w} (h1 : KeysMono a b) (h2 : KeysMono b c) (hm : ReadsMono b c) :
    KeysMono a c := fun hs v hv => h2 hs v (h1 (hm.2 hs) v hv)

theorem PhysStep.trans {a b c : Rebuild w} {n1 n2 : List (Instr w)} (h1 : PhysStep a b n1)
    (h2 : PhysStep b c n2) (hk : KeysMono b c) (hm : ReadsMono b c) : PhysStep a c (n1 ++ n2) := by
  intro hs
  obtain ⟨x1, y1⟩ := h1 (hm.2 hs)
  obtain ⟨x2, y2⟩ := h2 hs
  refine ⟨(nsL_append _ _).2 ⟨x1, x2⟩, ?_⟩
  intro v hv
  rcases (tgtL_append _ _ _).1 hv with hv | hv
  · rcases y1 v hv with h' | h'
    · exact Or.inl (hk hs v h')
    · exact Or.inr (hm.1 v h')
  · exact y2 v hv

theorem keys_of_none_mono {ν : Type} {a b : List (Int × ν)} (h : ∀ v, mGet b v = none → mGet a v = none)
    {v : Int} (hv : v ∈ mKeys a) : v ∈ mKeys b := by
  apply Classical.byContradiction
  intro hn
  exact (mGet_none_iff a v).1 (h v ((mGet_none_iff b v).2 hn)) hv

theorem mem_keys_of_get {ν : Type} {m : List (Int × ν)} {v : Int} {x : ν} (h : mGet m v = some x) :
    v ∈ mKeys m := by
  apply Classical.byContradiction
  intro hn
  rw [(mGet_none_iff m v).2 hn] at h
  cases h

theorem DefW.mem_keys {s : Rebuild w} {v : Int} (h : DefW s v) : v ∈ mKeys s.written := by
  obtain ⟨k, hk, _⟩ := h
  exact mem_keys_of_get hk

/-! ### calc-only steps -/

theorem CalcFrame.keysMono {s s' : Rebuild w} {comps : List (List (Int × Expr w))} (h : CalcFrame s s' comps) :
    KeysMono s s' := fun hs _ hv => keys_of_none_mono (h hs).1 hv

theorem CalcFrame.physStep {s s' : Rebuild w} {comps : List (List (Int × Expr w))} (h : CalcFrame s s' comps) :
    PhysStep s s' (comps.map Instr.calc) := by
  intro hs
  refine ⟨nsL_calcs comps, ?_⟩
  intro v hv
  obtain ⟨g, hg, hvg⟩ := (tgtL_calcs comps v).1 hv
  left
  apply Classical.byContradiction
  intro hn
  exact (h hs).2 v ((mGet_none_iff _ v).2 hn) g hg hvg

theorem CalcFrame.congr_left {s s0 s' : Rebuild w} {comps : List (List (Int × Expr w))}
    (hw : s0.written = s.written) (h : CalcFrame s0 s' comps) : CalcFrame s s' comps := by
  intro hs
  obtain ⟨a, b⟩ := h hs
  exact ⟨fun v hv => by rw [← hw]; exact a v hv, b⟩

theorem EmitFoot.physStep {s s' : Rebuild w} {comps : List (List (Int × Expr w))} (h : EmitFoot s s' comps) :
    PhysStep s s' (comps.map Instr.calc) := h.frame.physStep

theorem EmitFoot.keysMono {s s' : Rebuild w} {comps : List (List (Int × Expr w))} (h : EmitFoot s s' comps) :
    KeysMono s s' := h.frame.keysMono

/-- An emission step (with its footprint) preserves `PhysInv`. -/
theorem EmitFoot.physInv {ps : List (Rebuild w)} {s s' : Rebuild w} {comps : List (List (Int × Expr w))}
    (r : EmitRes ps s s' comps) (h : EmitFoot s s' comps) (hp : PhysInv s) : PhysInv s' :=
  hp.step h.physStep h.keysMono h.mono r.insts

/-- The form in which the `_foot` lemmas of the emitting primitives are used here. -/
theorem emitBoth_phys {ps : List (Rebuild w)} {s s' : Rebuild w}
    (h : ∃ comps, EmitRes ps s s' comps ∧ EmitFoot s s' comps) :
    ∃ comps : List (List (Int × Expr w)), EmitRes ps s s' comps ∧ PhysStep s s' (comps.map Instr.calc) ∧
      KeysMono s s' ∧ ReadsMono s s' := by
  obtain ⟨c, r, f⟩ := h
  exact ⟨c, r, f.physStep, f.keysMono, f.mono⟩

theorem emit_phys {s : Rebuild w} (ps : List (Rebuild w)) (hwf : Wf s) (var : Int) {os os' : Orders}
    {s' : Rebuild w} (hr : (emit s ps var).run os = .ok (s', os')) :
    ∃ comps : List (List (Int × Expr w)), EmitRes ps s s' comps ∧ PhysStep s s' (comps.map Instr.calc) ∧
      KeysMono s s' ∧ ReadsMono s s' := emitBoth_phys (emit_foot ps hwf var hr)

theorem explosionVars_phys (ps : List (Rebuild w)) (vars : List Int) (last : Option Int) {s : Rebuild w}
    (hwf : Wf s) {os os' : Orders} {s' : Rebuild w}
    (hr : (explosionVars ps vars last s).run os = .ok (s', os')) :
    ∃ comps : List (List (Int × Expr w)), EmitRes ps s s' comps ∧ PhysStep s s' (comps.map Instr.calc) ∧
      KeysMono s s' ∧ ReadsMono s s' := emitBoth_phys (explosionVars_foot ps vars last hwf hr)

theorem performCheck_phys (ps : List (Rebuild w)) (calcs : List (Int × Expr w)) {s : Rebuild w}
    (hwf : Wf s) {os os' : Orders} {s' : Rebuild w}
    (hr : (performCheck s ps calcs).run os = .ok (s', os')) :
    ∃ comps : List (List (Int × Expr w)), EmitRes ps s s' comps ∧ PhysStep s s' (comps.map Instr.calc) ∧
      KeysMono s s' ∧ ReadsMono s s' := emitBoth_phys (performCheck_foot ps calcs hwf hr)

theorem emitAll_phys (ps : List (Rebuild w)) (vars : List Int) {s : Rebuild w}
    (hwf : Wf s) {os os' : Orders} {s' : Rebuild w}
    (hr : (emitAll ps vars s).run os = .ok (s', os')) :
    ∃ comps : List (List (Int × Expr w)), EmitRes ps s s' comps ∧ PhysStep s s' (comps.map Instr.calc) ∧
      KeysMono s s' ∧ ReadsMono s s' := emitBoth_phys (emitAll_foot ps vars hwf hr)

theorem emitReadAll_phys (ps : List (Rebuild w)) (vars : List Int) {s : Rebuild w}
    (hwf : Wf s) {os os' : Orders} {s' : Rebuild w}
    (hr : (emitReadAll ps vars s).run os = .ok (s', os')) :
    ∃ comps : List (List (Int × Expr w)), EmitRes ps s s' comps ∧ PhysStep s s' (comps.map Instr.calc) ∧
      KeysMono s s' ∧ ReadsMono s s' := emitBoth_phys (emitReadAll_foot ps vars hwf hr)

theorem performAll_phys {s : Rebuild w} {ps : List (Rebuild w)} {shift : Int} {calcs : List (Int × Expr w)}
    {os os' : Orders} {s' : Rebuild w}
    (hr : (performAll s ps shift calcs).run os = .ok (s', os')) (hwf : Wf s) :
    ∃ comps : List (List (Int × Expr w)), s'.insts = s.insts ++ comps.map Instr.calc ∧
      PhysStep s s' (comps.map Instr.calc) ∧ KeysMono s s' ∧ ReadsMono s s' := by
  obtain ⟨comps, hi, hf⟩ := performAll_foot hr hwf
  exact ⟨comps, hi, hf.physStep, hf.keysMono, hf.mono⟩

/-! ### `clobber`, `clobberAll`, the `clobber` phase -/

theorem clobber_phys {s : Rebuild w} {ps : List (Rebuild w)} {var : Int} {maybe : Bool} {os os' : Orders}
    {s' : Rebuild w} (hr : (clobber s ps var maybe).run os = .ok (s', os')) (hwf : Wf s) :
    ∃ comps : List (List (Int × Expr w)), s'.insts = s.insts ++ comps.map Instr.calc ∧ Wf s' ∧
      CalcFrame s s' comps ∧ ReadsMono s s' ∧ var ∈ mKeys s'.written := by
  obtain ⟨c, a1, _, a3, _, a5, _, _, _, _, a10, _⟩ :=
    clobber_footD hr hwf (fun _ => False) (fun _ h => absurd h id)
  obtain ⟨c', b1, _, _, b4, _⟩ := clobber_foot hr hwf
  have : c' = c := calc_map_inj (List.append_cancel_left (b1.symm.trans a1))
  subst this
  exact ⟨c', a1, a3, b4, a5, mem_keys_of_get a10⟩

theorem clobber_physStep {s : Rebuild w} {ps : List (Rebuild w)} {var : Int} {maybe : Bool} {os os' : Orders}
    {s' : Rebuild w} (hr : (clobber s ps var maybe).run os = .ok (s', os')) (hwf : Wf s) :
    ∃ comps : List (List (Int × Expr w)), s'.insts = s.insts ++ comps.map Instr.calc ∧
      PhysStep s s' (comps.map Instr.calc) ∧ KeysMono s s' ∧ ReadsMono s s' ∧ var ∈ mKeys s'.written := by
  obtain ⟨c, a1, _, a3, a4, a5⟩ := clobber_phys hr hwf
  exact ⟨c, a1, a3.physStep, a3.keysMono, a4, a5⟩

theorem clobberAll_phys (ps : List (Rebuild w)) (cl : List (Int × Bool)) {s : Rebuild w} (hwf : Wf s)
    {os os' : Orders} {s' : Rebuild w} (hr : (clobberAll ps cl s).run os = .ok (s', os')) :
    ∃ comps : List (List (Int × Expr w)), s'.insts = s.insts ++ comps.map Instr.calc ∧ Wf s' ∧
      CalcFrame s s' comps ∧ ReadsMono s s' ∧
      (s'.subShift = false → ∀ vb ∈ cl, vb.1 ∈ mKeys s'.written) := by
  induction cl generalizing s os with
  | nil =>
    unfold clobberAll at hr
    rw [List.foldlM_nil, run_pure] at hr
    cases hr
    exact ⟨[], by simp, hwf, CalcFrame.refl _, ReadsMono.refl _, fun _ _ h => absurd h (by simp)⟩
  | cons vb rest ih =>
    unfold clobberAll at hr
    rw [List.foldlM_cons, run_bind_ok] at hr
    obtain ⟨s1, os1, h1, h2⟩ := hr
    obtain ⟨c1, a1, a2, a3, a4, a5⟩ := clobber_phys h1 hwf
    obtain ⟨c2, b1, b2, b3, b4, b5⟩ := ih a2 (show (clobberAll ps rest s1).run os1 = _ from h2)
    refine ⟨c1 ++ c2, by rw [b1, a1]; simp, b2, a3.trans b3 b4, a4.trans b4, ?_⟩
    intro hs vb' hvb'
    rcases List.mem_cons.1 hvb' with e | e
    · rw [e]; exact b3.keysMono hs _ a5
    · exact b5 hs vb' e

theorem clobberPhase_phys {s : Rebuild w} (ps : List (Rebuild w)) (sub : Rebuild w) (L : OptLoop w)
    (C : List Int) (hwf : Wf s) {os os' : Orders} {s' : Rebuild w}
    (hr : (clobberPhase s ps sub L C).run os = .ok (s', os')) :
    ∃ comps : List (List (Int × Expr w)), s'.insts = s.insts ++ comps.map Instr.calc ∧
      CalcFrame s s' comps ∧ ReadsMono s s' ∧
      (s'.subShift = false → ∀ v, ClobSet L C sub v → v ∈ mKeys s'.written) := by
  rw [clobberPhase_eq] at hr
  cases hne : L.noEffect with
  | true =>
    rw [hne] at hr
    simp only [Bool.not_true, Bool.false_eq_true, if_false] at hr
    rw [run_pure] at hr
    cases hr
    refine ⟨[], by simp, CalcFrame.refl _, ReadsMono.refl _, ?_⟩
    rintro _ v ⟨h, _⟩
    rw [hne] at h; cases h
  | false =>
    rw [hne] at hr
    simp only [Bool.not_false, if_true] at hr
    obtain ⟨i1, i2, _⟩ := cfold_spec ps L C sub.written (s, []) hwf
    have hperm := Expr.stableSort_perm (fun (a b : Int × Bool) => decide (a.1 ≤ b.1))
      (sub.written.foldl (cfold L C) (s, [])).2
    have hsnd := cfold_snd L C sub.written (s, [])
    simp only [List.nil_append] at hsnd
    obtain ⟨comps, b1, _, b3, b4, b5⟩ := clobberAll_phys ps _ i1 hr
    refine ⟨comps, by rw [b1, i2.2.2.2.2.2.2.2.2.1], b3.congr_left i2.2.2.2.2.2.2.2.1, ?_, ?_⟩
    · exact ⟨fun v hv => b4.1 v (by rw [i2.2.2.2.2.2.2.1]; exact hv),
        fun h => by rw [← i2.2.2.2.2.1]; exact b4.2 h⟩
    · rintro hs v ⟨_, vk, hvk, e, hC⟩
      have hin : (vk.1, vk.2.isMaybe || !L.atLeastOnce) ∈ Expr.stableSort
          (fun (a b : Int × Bool) => decide (a.1 ≤ b.1)) (sub.written.foldl (cfold L C) (s, [])).2 := by
        rw [hperm.mem_iff, hsnd]
        refine List.mem_map.2 ⟨vk, List.mem_filter.2 ⟨hvk, ?_⟩, rfl⟩
        rw [e, hC]; rfl
      have := b5 hs _ hin
      rw [← e]; exact this

/-! ### the non-loop arms of `rebuildInstr` -/

theorem physStep_output (s s' : Rebuild w) (x : Int) : PhysStep s s' [Instr.output x] := by
  intro _
  refine ⟨by simp [nsL, nsI], ?_⟩
  intro v hv
  simp [tgtL, tgtI] at hv

theorem step_output_phys {ps : List (Rebuild w)} {s : Rebuild w} (hwf : Wf s) (src : Int) {os os' : Orders}
    {s' : Rebuild w} (hr : (rebuildInstr ps s (.output src)).run os = .ok (s', os')) :
    ∃ new, s'.insts = s.insts ++ new ∧ PhysStep s s' new ∧ KeysMono s s' ∧ ReadsMono s s' := by
  rw [rebuildInstr] at hr
  split at hr
  · rename_i x hx
    rw [run_pure] at hr
    cases hr
    have hsame := read_same s x
    refine ⟨[.output x], ?_, physStep_output _ _ x, ?_, read_readsMono s x⟩
    · show (Opt.read s x).insts ++ _ = _
      rw [hsame.2.2.2.2.2.2.2.2.2.1]
    · intro _ v hv
      show v ∈ mKeys (Opt.read s x).written
      rw [hsame.2.2.2.2.2.2.1]; exact hv
  · rw [run_bind_ok] at hr
    obtain ⟨s1, os1, h1, h2⟩ := hr
    rw [run_pure] at h2
    cases h2
    obtain ⟨comps, res, ft⟩ := emit_foot ps hwf (src + s.shift) h1
    have hsame := read_same s1 (src + s.shift)
    have hm : ReadsMono s1 ({ Opt.read s1 (src + s.shift) with
        insts := (Opt.read s1 (src + s.shift)).insts ++ [Instr.output (src + s.shift)] } : Rebuild w) :=
      read_readsMono s1 (src + s.shift)
    have hk : KeysMono s1 ({ Opt.read s1 (src + s.shift) with
        insts := (Opt.read s1 (src + s.shift)).insts ++ [Instr.output (src + s.shift)] } : Rebuild w) := by
      intro _ v hv
      show v ∈ mKeys (Opt.read s1 (src + s.shift)).written
      rw [hsame.2.2.2.2.2.2.1]; exact hv
    refine ⟨comps.map Instr.calc ++ [.output (src + s.shift)], ?_,
      ft.physStep.trans (physStep_output _ _ _) hk hm, ft.keysMono.trans hk hm, ft.mono.trans hm⟩
    show (Opt.read s1 (src + s.shift)).insts ++ _ = _
    rw [hsame.2.2.2.2.2.2.2.2.2.1, res.insts, List.append_assoc]

theorem step_input_phys {ps : List (Rebuild w)} {s : Rebuild w} (hwf : Wf s) (dst : Int) {os os' : Orders}
    {s' : Rebuild w} (hr : (rebuildInstr ps s (.input dst)).run os = .ok (s', os')) :
    ∃ new, s'.insts = s.insts ++ new ∧ PhysStep s s' new ∧ KeysMono s s' ∧ ReadsMono s s' := by
  rw [rebuildInstr, run_bind_ok] at hr
  obtain ⟨s1, os1, h1, h2⟩ := hr
  rw [run_pure] at h2
  cases h2
  obtain ⟨comps, c1, c2, c3, c4, c5⟩ := clobber_physStep h1 hwf
  have hm : ReadsMono s1 ({ s1 with insts := s1.insts ++ [Instr.input (dst + s.shift)] } : Rebuild w) :=
    ⟨fun _ h => h, fun h => h⟩
  have hk : KeysMono s1 ({ s1 with insts := s1.insts ++ [Instr.input (dst + s.shift)] } : Rebuild w) :=
    fun _ _ h => h
  have hp : PhysStep s1 ({ s1 with insts := s1.insts ++ [Instr.input (dst + s.shift)] } : Rebuild w)
      [Instr.input (dst + s.shift)] := by
    intro _
    refine ⟨by simp [nsL, nsI], ?_⟩
    intro v hv
    have : v = dst + s.shift := by simpa [tgtL, tgtI] using hv
    rw [this]
    exact Or.inl c5
  refine ⟨comps.map Instr.calc ++ [.input (dst + s.shift)], ?_, c2.trans hp hk hm, c3.trans hk hm, c4.trans hm⟩
  show s1.insts ++ _ = _
  rw [c1, List.append_assoc]

theorem step_calc_phys {ps : List (Rebuild w)} {s : Rebuild w} (hwf : Wf s) (calcs : List (Int × Expr w))
    {os os' : Orders} {s' : Rebuild w} (hr : (rebuildInstr ps s (.calc calcs)).run os = .ok (s', os')) :
    ∃ new, s'.insts = s.insts ++ new ∧ PhysStep s s' new ∧ KeysMono s s' ∧ ReadsMono s s' := by
  rw [rebuildInstr] at hr
  obtain ⟨comps, hi, hp, hk, hm⟩ := performAll_phys hr hwf
  exact ⟨comps.map Instr.calc, hi, hp, hk, hm⟩

theorem rebuildInstr_straight_phys {ps : List (Rebuild w)} {s : Rebuild w} (hwf : Wf s) {i : Instr w}
    (hi : C01Dse.isBlock i = false) {os os' : Orders} {s' : Rebuild w}
    (hr : (rebuildInstr ps s i).run os = .ok (s', os')) :
    ∃ new, s'.insts = s.insts ++ new ∧ PhysStep s s' new ∧ KeysMono s s' ∧ ReadsMono s s' := by
  cases i with
  | output src => exact step_output_phys hwf src hr
  | input dst => exact step_input_phys hwf dst hr
  | «calc» calcs => exact step_calc_phys hwf calcs hr
  | loop c sh b o => simp [C01Dse.isBlock] at hi
  | ifnz c sh b => simp [C01Dse.isBlock] at hi

theorem rebuildInsts_straight_phys {ps : List (Rebuild w)} (l : List (Instr w)) (hl : StraightL l)
    {s : Rebuild w} {os os' : Orders} {s' : Rebuild w} {done : Bool} (hwf : Wf s) (hnr : s.noReturn = false)
    (hr : (rebuildInsts ps s l).run os = .ok ((s', done), os')) :
    ∃ new, s'.insts = s.insts ++ new ∧ PhysStep s s' new ∧ KeysMono s s' ∧ ReadsMono s s' := by
  induction l generalizing s os with
  | nil =>
    rw [rebuildInsts, run_pure] at hr
    cases hr
    exact ⟨[], by simp, PhysStep.refl _, KeysMono.refl _, ReadsMono.refl _⟩
  | cons i rest ih =>
    rw [rebuildInsts, hnr] at hr
    simp only [Bool.false_eq_true, if_false] at hr
    rw [run_bind_ok] at hr
    obtain ⟨s1, os1, h1, h2⟩ := hr
    obtain ⟨a1, a2, _⟩ := rebuildInstr_straight hwf (hl i (by simp)) h1
    obtain ⟨n1, e1, p1, k1, m1⟩ := rebuildInstr_straight_phys hwf (hl i (by simp)) h1
    obtain ⟨n2, e2, p2, k2, m2⟩ := ih (fun j hj => hl j (by simp [hj])) a1 (by rw [a2, hnr]) h2
    exact ⟨n1 ++ n2, by rw [e2, e1, List.append_assoc], p1.trans p2 k2 m2, k1.trans k2 m2, m1.trans m2⟩

/-- Straight-line code preserves `PhysInv`. -/
theorem rebuildInsts_straight_physInv {ps : List (Rebuild w)} (l : List (Instr w)) (hl : StraightL l)
    {s : Rebuild w} {os os' : Orders} {s' : Rebuild w} {done : Bool} (hwf : Wf s) (hnr : s.noReturn = false)
    (hr : (rebuildInsts ps s l).run os = .ok ((s', done), os')) (hp : PhysInv s) : PhysInv s' := by
  obtain ⟨new, e, p, k, m⟩ := rebuildInsts_straight_phys l hl hwf hnr hr
  exact hp.step p k m e

/-! ### `loopOrIf`, non-moving child -/

/-- The parent's preparation: the emitted groups write recorded cells; what the child reads is recorded as read
(or is a key of `written`); the clobbered cells are keys of `written`. -/
theorem loopPrep_stay_phys {s : Rebuild w} {ps : List (Rebuild w)} {sub1 : Rebuild w} {cond : Int}
    {L : OptLoop w} {C : List Int} (hwf : Wf s)
    (hns : (sub1.subShift || sub1.shift != s.shift) = false)
    {os os' : Orders} {r : Rebuild w × Rebuild w × List Int}
    (hr : (loopPrep s ps sub1 cond L C).run os = .ok (r, os')) :
    ∃ comps : List (List (Int × Expr w)),
      r.2.1 = { sub1 with reads := sIns sub1.reads cond } ∧
      r.1.insts = s.insts ++ comps.map Instr.calc ∧ SameHdr s r.1 ∧
      PhysStep s r.1 (comps.map Instr.calc) ∧ KeysMono s r.1 ∧ ReadsMono s r.1 ∧
      (r.1.subShift = false → ∀ v, (v ∈ sub1.reads ∨ v = cond) → v ∈ mKeys r.1.written ∨ v ∈ r.1.reads) ∧
      (r.1.subShift = false → ∀ v, ClobSet L C sub1 v → v ∈ mKeys r.1.written) ∧
      (r.1.subShift = false → ∀ v ∈ mKeys sub1.written, C.contains v = true →
        v ∈ mKeys r.1.written ∨ v ∈ r.1.reads) := by
  obtain ⟨s1, s2, s3, os1, os2, e1, e2, e3, rfl⟩ := loopPrep_stay_cut hns hr
  obtain ⟨c1, r1, f1⟩ := emitReadAll_foot ps _ hwf e1
  obtain ⟨_, _, k1⟩ := emitReadAll_reads ps _ hwf e1
  obtain ⟨c2, r2, f2⟩ := emitReadAll_foot ps _ r1.wf e2
  obtain ⟨_, _, k2⟩ := emitReadAll_reads ps _ r1.wf e2
  obtain ⟨c3, q1, q2, q3, q4⟩ := clobberPhase_phys ps { sub1 with reads := sIns sub1.reads cond } L C r2.wf e3
  have hcz := condZero_same s3 { sub1 with reads := sIns sub1.reads cond } cond
  have hczr : (condZero s3 { sub1 with reads := sIns sub1.reads cond } cond).reads = s3.reads :=
    hcz.2.2.2.2.2.2.1
  have hczs : (condZero s3 { sub1 with reads := sIns sub1.reads cond } cond).subShift = s3.subShift :=
    hcz.2.2.2.2.1
  have hczk : ∀ v, v ∈ mKeys s3.written →
      v ∈ mKeys (condZero s3 { sub1 with reads := sIns sub1.reads cond } cond).written :=
    fun v hv => keys_of_none_mono (fun v h => condZero_written_none _ _ _ v h) hv
  -- everything up to `s3`
  have hf3 : CalcFrame s s3 (c1 ++ c2 ++ c3) := (f1.frame.trans f2.frame f2.mono).trans q2 q3
  have hm3 : ReadsMono s s3 := (f1.mono.trans f2.mono).trans q3
  have hm : ReadsMono s3 (condZero s3 { sub1 with reads := sIns sub1.reads cond } cond) :=
    ⟨fun v hv => by rw [hczr]; exact hv, fun h => by rw [← hczs]; exact h⟩
  have hk : KeysMono s3 (condZero s3 { sub1 with reads := sIns sub1.reads cond } cond) := fun _ => hczk
  have hmemR : ∀ v, (v ∈ sub1.reads ∨ v = cond) →
      v ∈ readsSorted { sub1 with reads := sIns sub1.reads cond } s := by
    intro v hv
    unfold readsSorted
    rw [(Expr.stableSort_perm _ _).mem_iff]
    show v ∈ sIns sub1.reads cond
    rw [mem_sIns]
    rcases hv with h | h
    · exact Or.inr h
    · exact Or.inl h
  refine ⟨c1 ++ c2 ++ c3, rfl, ?_, ?_, ?_, hf3.keysMono.trans hk hm, hm3.trans hm, ?_, ?_, ?_⟩
  · show (condZero s3 _ cond).insts = _
    rw [hcz.2.2.2.2.2.2.2.2.2.1, q1, r2.insts, r1.insts]
    simp
  · have h3 : SameHdr s2 s3 := by
      -- `clobberPhase` keeps the header (from the semantic package)
      obtain ⟨_, r3, _⟩ := clobberPhase_res ps { sub1 with reads := sIns sub1.reads cond } L C r2.wf e3
      exact r3.hdr
    exact ((r1.hdr.trans r2.hdr).trans h3).trans hcz.hdr
  · intro hss
    have hs3 : s3.subShift = false := by rw [← hczs]; exact hss
    obtain ⟨x, y⟩ := hf3.physStep hs3
    refine ⟨x, fun v hv => ?_⟩
    rcases y v hv with h | h
    · exact Or.inl (hczk v h)
    · exact Or.inr (by rw [hczr]; exact h)
  · intro hss v hv
    have hs3 : s3.subShift = false := by rw [← hczs]; exact hss
    have hs2 : s2.subShift = false := q3.2 hs3
    rcases k1 v (hmemR v hv) with h | h
    · right
      rw [hczr]
      exact q3.1 v (f2.mono.1 v h)
    · left
      exact hczk v (q2.keysMono hs3 v (f2.keysMono hs2 v h.mem_keys))
  · intro hss v hv
    have hs3 : s3.subShift = false := by rw [← hczs]; exact hss
    exact hczk v (q4 hs3 v hv)
  · intro hss v hv hC
    have hs3 : s3.subShift = false := by rw [← hczs]; exact hss
    have hmem : v ∈ (mKeys sub1.written).filter (fun var => C.contains var) :=
      List.mem_filter.2 ⟨hv, hC⟩
    rcases k2 v hmem with h | h
    · right
      rw [hczr]
      exact q3.1 v h
    · left
      exact hczk v (q2.keysMono hs3 v h.mem_keys)

/-- The push of the `Loop` / `If` after the preparation (child `sub1` after its own emission). -/
theorem loopOrIf_stay_phys_core {s : Rebuild w} {ps : List (Rebuild w)} {sub1 : Rebuild w} {cond : Int}
    {isLoop : Bool} {L : OptLoop w} {C : List Int} (hflag : Bool) (hwf : Wf s) (hph1 : PhysInv sub1)
    (hns : (sub1.subShift || sub1.shift != s.shift) = false)
    {os os' : Orders} {r : Rebuild w × Rebuild w × List Int}
    (hr : (loopPrep s ps sub1 cond L C).run os = .ok (r, os'))
    (hne : L.noEffect = false) :
    ∃ new, (loopTail r.1 r.2.1 cond isLoop L hflag r.2.2).insts = s.insts ++ new ∧
      PhysStep s (loopTail r.1 r.2.1 cond isLoop L hflag r.2.2) new ∧
      KeysMono s (loopTail r.1 r.2.1 cond isLoop L hflag r.2.2) ∧
      ReadsMono s (loopTail r.1 r.2.1 cond isLoop L hflag r.2.2) := by
  have hns' := hns
  simp only [Bool.or_eq_false_iff, bne_eq_false_iff_eq] at hns'
  obtain ⟨hss1, hshEq⟩ := hns'
  obtain ⟨comps, hsubR, p1, p2, p3, p4, p5, p6, p7, p8⟩ := loopPrep_stay_phys hwf hns hr
  obtain ⟨t1, _, _, t4, t5, _, t7⟩ := loopTail_fields r.1 r.2.1 cond isLoop L hflag r.2.2
  have hbs : r.2.1.shift - r.1.shift = 0 := by
    rw [hsubR, p2.2.2.1]
    show sub1.shift - s.shift = 0
    rw [hshEq]; omega
  have hinsR : r.2.1.insts = sub1.insts := by rw [hsubR]
  rw [hbs, hinsR] at t7
  have hssEq : (loopTail r.1 r.2.1 cond isLoop L hflag r.2.2).subShift = r.1.subShift := t1.2.2.2.2
  have hkeys : ∀ v, v ∈ mKeys r.1.written → v ∈ mKeys (loopTail r.1 r.2.1 cond isLoop L hflag r.2.2).written := by
    intro v hv
    rw [t5]
    split
    · exact (mem_keys_mSet _ _ _ _).2 (Or.inr hv)
    · exact hv
  have hm : ReadsMono r.1 (loopTail r.1 r.2.1 cond isLoop L hflag r.2.2) :=
    ⟨fun v hv => by rw [t4]; exact hv, fun h => by rw [← hssEq]; exact h⟩
  have hk : KeysMono r.1 (loopTail r.1 r.2.1 cond isLoop L hflag r.2.2) := fun _ => hkeys
  obtain ⟨nsC, tgC⟩ := hph1 hss1
  -- the pushed instruction
  have hp : PhysStep r.1 (loopTail r.1 r.2.1 cond isLoop L hflag r.2.2)
      [if isLoop then Instr.loop cond 0 sub1.insts L.atLeastOnce else Instr.ifnz cond 0 sub1.insts] := by
    intro hss
    have hssP : r.1.subShift = false := by rw [← hssEq]; exact hss
    have hbody : ∀ v, tgtL sub1.insts v →
        v ∈ mKeys (loopTail r.1 r.2.1 cond isLoop L hflag r.2.2).written ∨
        v ∈ (loopTail r.1 r.2.1 cond isLoop L hflag r.2.2).reads := by
      intro v hv
      rcases tgC v hv with h | h
      · cases hC : C.contains v with
        | true =>
          rcases p8 hssP v h hC with h' | h'
          · exact Or.inl (hkeys v h')
          · exact Or.inr (by rw [t4]; exact h')
        | false =>
          left
          apply hkeys
          apply p7 hssP v
          obtain ⟨vk, hvk, e⟩ := List.mem_map.1 h
          exact ⟨hne, vk, hvk, e, hC⟩
      · rcases p6 hssP v (Or.inl h) with h' | h'
        · exact Or.inl (hkeys v h')
        · exact Or.inr (by rw [t4]; exact h')
    cases isLoop with
    | true =>
      simp only [if_true]
      refine ⟨by simp [nsL, nsI, nsC], ?_⟩
      intro v hv
      have : tgtL sub1.insts v := by simpa [tgtL, tgtI] using hv
      exact hbody v this
    | false =>
      simp only [Bool.false_eq_true, if_false]
      refine ⟨by simp [nsL, nsI, nsC], ?_⟩
      intro v hv
      have : tgtL sub1.insts v := by simpa [tgtL, tgtI] using hv
      exact hbody v this
  refine ⟨comps.map Instr.calc ++ [if isLoop then Instr.loop cond 0 sub1.insts L.atLeastOnce
      else Instr.ifnz cond 0 sub1.insts], ?_, p3.trans hp hk hm, p4.trans hk hm, p5.trans hm⟩
  rw [t7, p1, List.append_assoc]

theorem loopOrIf_stay_phys {s : Rebuild w} {ps : List (Rebuild w)} {sub : Rebuild w} {cond : Int}
    {isLoop : Bool} {L : OptLoop w} {C : List Int} {os os' : Orders} {s' : Rebuild w}
    (hr : (loopOrIf s ps sub cond isLoop L C).run os = .ok (s', os'))
    (hwf : Wf s) (hwfc : Wf sub) (hph : PhysInv sub)
    (hns : (sub.subShift || sub.shift != s.shift) = false)
    (hne : L.noEffect = false) :
    ∃ new, s'.insts = s.insts ++ new ∧ PhysStep s s' new ∧ KeysMono s s' ∧ ReadsMono s s' := by
  obtain ⟨sub1, os1, r, h1, h2, rfl⟩ := loopOrIf_run hr
  have hns' := hns
  simp only [Bool.or_eq_false_iff, bne_eq_false_iff_eq] at hns'
  obtain ⟨hss, hshEq⟩ := hns'
  -- the child after its own emission
  have hsub1 : SameHdr sub sub1 ∧ PhysInv sub1 := by
    have h1' := h1
    split at h1'
    · obtain ⟨c, res, ef⟩ := emitAll_foot [] (pendingSorted sub sub) hwfc h1'
      exact ⟨res.hdr, ef.physInv res hph⟩
    · rw [run_pure] at h1'
      cases h1'
      exact ⟨SameHdr.refl _, hph⟩
  obtain ⟨hhdr, hph1⟩ := hsub1
  have hns1 : (sub1.subShift || sub1.shift != s.shift) = false := by
    rw [hhdr.2.2.2.2, hhdr.2.2.1, hss, hshEq]; simp
  exact loopOrIf_stay_phys_core _ hwf hph1 hns1 h2 hne

/-- `loopOrIf` with a non-moving child preserves `PhysInv`. -/
theorem loopOrIf_stay_physInv {s : Rebuild w} {ps : List (Rebuild w)} {sub : Rebuild w} {cond : Int}
    {isLoop : Bool} {L : OptLoop w} {C : List Int} {os os' : Orders} {s' : Rebuild w}
    (hr : (loopOrIf s ps sub cond isLoop L C).run os = .ok (s', os'))
    (hwf : Wf s) (hwfc : Wf sub) (hph : PhysInv sub)
    (hns : (sub.subShift || sub.shift != s.shift) = false)
    (hne : L.noEffect = false)
    (hp : PhysInv s) : PhysInv s' := by
  obtain ⟨new, e, p, k, m⟩ := loopOrIf_stay_phys hr hwf hwfc hph hns hne
  exact hp.step p k m e

/-- `loopOrIf` with a moving child: `subShift` becomes `true`, `PhysInv` is void. -/
theorem loopOrIf_shift_physInv {s : Rebuild w} {ps : List (Rebuild w)} {sub : Rebuild w} {cond : Int}
    {isLoop : Bool} {L : OptLoop w} {C : List Int} {os os' : Orders} {s' : Rebuild w}
    (hr : (loopOrIf s ps sub cond isLoop L C).run os = .ok (s', os'))
    (hwf : Wf s) (hwfc : Wf sub)
    (hshift : (sub.subShift || sub.shift != s.shift) = true) : PhysInv s' := by
  obtain ⟨h, _⟩ := loopOrIf_shift_foot hr hwf hwfc hshift
  intro h'
  rw [h] at h'; cases h'

end OptProof
end Hpbf

#print axioms Hpbf.OptProof.loopOrIf_stay_phys
#print axioms Hpbf.OptProof.rebuildInsts_straight_phys
#print axioms Hpbf.OptProof.PhysInv.step
