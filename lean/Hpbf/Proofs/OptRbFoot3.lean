/-
Rebuild-round proofs: the FOOTPRINT invariants, part 3: emission modulo a set `D` of cells that no pending
operation uses (`NoUse`): after a cell has been clobbered the two runs may differ on it, but the groups emitted
afterwards neither read nor write it.  `clobber`, `clobberAll`, the `clobber` phase of `loopOrIf`.
-/
import Hpbf.Proofs.OptRbLoopStay2
import Hpbf.Proofs.OptRbFoot2

namespace Hpbf
namespace OptProof
open Opt OptSem Ir

variable {w : Nat}

/-- Nothing is pending for `v` and no pending operation reads `v`. -/
def NoUse (s : Rebuild w) (v : Int) : Prop :=
  mGet s.pending v = none ∧ ∀ u e, mGet s.pending u = some e → v ∉ Expr.variables e

theorem Dead.noUse {s : Rebuild w} {v : Int} (h : Dead s v) : NoUse s v := ⟨h.1, h.2.1⟩

theorem NoUse.of_sub {s s' : Rebuild w}
    (hsub : ∀ k e, mGet s'.pending k = some e → mGet s.pending k = some e) {v : Int} (h : NoUse s v) :
    NoUse s' v := by
  refine ⟨?_, fun u e hu => h.2 u e (hsub u e hu)⟩
  cases hp : mGet s'.pending v with
  | none => rfl
  | some e =>
    have := hsub v e hp
    rw [h.1] at this; cases this

/-- The cells on which two runs may differ: `Rest K s`, and the cells of `K` in `D`. -/
def RestD (K D : Int → Prop) (s : Rebuild w) (v : Int) : Prop := Rest K s v ∨ (K v ∧ D v)

theorem RestD.congr {s s' : Rebuild w} (h : s'.written = s.written) (K D : Int → Prop) (v : Int) :
    RestD K D s' v ↔ RestD K D s v := by
  unfold RestD; rw [Rest.congr h]

theorem restD_false (K : Int → Prop) (s : Rebuild w) (v : Int) : RestD K (fun _ => False) s v ↔ Rest K s v := by
  unfold RestD; simp

/-- calc-only step modulo `D` -/
def CalcFootD (D : Int → Prop) (s s' : Rebuild w) (comps : List (List (Int × Expr w))) : Prop :=
  s'.subShift = false → ∀ (K : Int → Prop), (∀ v, K v → v ∉ s'.reads) → ∀ σ1 σ2 : State w,
    AgreeOff (RestD K D s) σ1 σ2 → AgreeOff (RestD K D s') (comps.foldl doCalc σ1) (comps.foldl doCalc σ2)

theorem CalcFootD.refl (D : Int → Prop) (s : Rebuild w) : CalcFootD D s s [] := fun _ _ _ _ _ h => h

theorem CalcFootD.trans {D : Int → Prop} {a b c : Rebuild w} {c1 c2 : List (List (Int × Expr w))}
    (h1 : CalcFootD D a b c1) (h2 : CalcFootD D b c c2) (hm : ReadsMono b c) : CalcFootD D a c (c1 ++ c2) := by
  intro hs K hK σ1 σ2 hag
  rw [List.foldl_append, List.foldl_append]
  exact h2 hs K hK _ _ (h1 (hm.2 hs) K (fun v hv hr => hK v hv (hm.1 v hr)) σ1 σ2 hag)

theorem CalcFootD.congr_left {D : Int → Prop} {s s0 s' : Rebuild w} {comps : List (List (Int × Expr w))}
    (hw : s0.written = s.written) (h : CalcFootD D s0 s' comps) : CalcFootD D s s' comps := by
  intro hss K hK σ1 σ2 hag
  exact h hss K hK σ1 σ2 (hag.congr (fun v => (RestD.congr hw K D v).symm))

theorem emitGroup_footD {s : Rebuild w} (hwf : Wf s) (ps : List (Rebuild w)) (g : List (Int × Expr w))
    (hnd : (g.map (·.1)).Nodup) (D : Int → Prop)
    (hD : ∀ vc ∈ g, ∀ x ∈ Expr.variables vc.2, ¬ D x) : CalcFootD D s (emitGroup ps s g) [g] := by
  obtain ⟨_, _, _, hoff⟩ := emitGroup_struct hwf ps g
  obtain ⟨hrd, _⟩ := readGroup_reads s g
  intro _ K hK σ1 σ2 hag
  simp only [List.foldl_cons, List.foldl_nil]
  obtain ⟨m1, m2, m3⟩ := C01Dse.doCalc_meta σ1 g
  obtain ⟨n1, n2, n3⟩ := C01Dse.doCalc_meta σ2 g
  refine ⟨by rw [m1, n1]; exact hag.1, by rw [m2, n2]; exact hag.2.1, by rw [m3, n3]; exact hag.2.2.1, ?_⟩
  intro v hv
  rw [memE_doCalc σ1 g hnd, memE_doCalc σ2 g hnd]
  by_cases hvt : v ∈ g.map (·.1)
  · obtain ⟨vc, hvc, rfl⟩ := List.mem_map.1 hvt
    rw [par_of_mem hnd (show (vc.1, vc.2) ∈ g from hvc), par_of_mem hnd (show (vc.1, vc.2) ∈ g from hvc)]
    apply ev_congr
    intro x hx
    apply hag.2.2.2 x
    rintro (⟨hkx, hnx⟩ | ⟨_, hdx⟩)
    · rcases hrd vc hvc x hx with h | h
      · exact hK x hkx (by rw [emitGroup_reads]; exact h)
      · exact hnx h
    · exact hD vc hvc x hx hdx
  · rw [par_of_notin hvt, par_of_notin hvt]
    apply hag.2.2.2 v
    rintro (⟨hkv, hnv⟩ | h)
    · exact hv (Or.inl ⟨hkv, fun hd => hnv ((DefW.of_get_eq (hoff v hvt)).1 hd)⟩)
    · exact hv (Or.inr h)

theorem emitStructured_footD {s : Rebuild w} (hwf : Wf s) (ps : List (Rebuild w))
    (toEmit : List (List (Int × Expr w))) (hnd : ∀ g ∈ toEmit, (g.map (·.1)).Nodup) (D : Int → Prop)
    (hD : ∀ g ∈ toEmit, ∀ vc ∈ g, ∀ x ∈ Expr.variables vc.2, ¬ D x) :
    CalcFootD D s (emitStructured s ps toEmit) toEmit := by
  rw [emitStructured_eq]
  induction toEmit generalizing s with
  | nil => exact CalcFootD.refl D s
  | cons g toEmit ih =>
    have h1 := emitGroup_footD hwf ps g (hnd g (by simp)) D (hD g (by simp))
    have hwf1 := (emitGroup_struct hwf ps g).1
    have h2 := ih hwf1 (fun g' hg' => hnd g' (by simp [hg'])) (fun g' hg' => hD g' (by simp [hg']))
    have hm : ReadsMono (emitGroup ps s g) (toEmit.foldl (emitGroup ps) (emitGroup ps s g)) := by
      have := (emitStructured_foot hwf1 ps toEmit (fun g' hg' => hnd g' (by simp [hg']))).mono
      rw [emitStructured_eq] at this; exact this
    simp only [List.foldl_cons]
    exact h1.trans h2 hm

theorem gatherEmit_footD {s : Rebuild w} (ps : List (Rebuild w)) (hwf : Wf s) (var : Int) {os os' : Orders}
    {s1 : Rebuild w} {toEmit : List (List (Int × Expr w))}
    (hr : (gatherForEmit s [var]).run os = .ok ((s1, toEmit), os')) (D : Int → Prop)
    (hD : ∀ v, D v → NoUse s v) :
    CalcFootD D s (emitStructured s1 ps toEmit) toEmit := by
  obtain ⟨g1, g2, _, _, _, g6, g7, _⟩ := gatherForEmit_spec hwf var hr
  refine (emitStructured_footD g1 ps toEmit (fun g hg => (g6 g hg).1) D ?_).congr_left g2.2.2.2.2.2.2.2.1
  intro g hg vc hvc x hx hdx
  exact (hD x hdx).2 vc.1 vc.2 (g7 g hg vc hvc) hx

/-! ### `clobber` -/

theorem clobber_footD {s : Rebuild w} {ps : List (Rebuild w)} {var : Int} {maybe : Bool} {os os' : Orders}
    {s' : Rebuild w} (hr : (clobber s ps var maybe).run os = .ok (s', os')) (hwf : Wf s) (D : Int → Prop)
    (hD : ∀ v, D v → NoUse s v) :
    ∃ comps : List (List (Int × Expr w)), s'.insts = s.insts ++ comps.map Instr.calc ∧ (∀ g ∈ comps, (g.map (·.1)).Nodup) ∧ Wf s' ∧
      SameHdr s s' ∧ ReadsMono s s' ∧
      (∀ g ∈ comps, ∀ ve ∈ g, mGet s.pending ve.1 = some ve.2) ∧
      (∀ k e, mGet s'.pending k = some e → mGet s.pending k = some e) ∧
      NoUse s' var ∧
      (s'.subShift = false → ∀ (K : Int → Prop), (∀ v, K v → v ∉ s'.reads) → ∀ σ1 σ2 : State w,
        AgreeOff (RestD K D s) σ1 σ2 →
        AgreeOff (RestD K (fun v => D v ∨ v = var) s') (comps.foldl doCalc σ1) (comps.foldl doCalc σ2)) ∧
      mGet s'.written var = some (if maybe then OptWrite.maybe else OptWrite.unknown) ∧
      (∀ v, v ≠ var → (∀ g ∈ comps, v ∉ g.map (·.1)) → mGet s'.written v = mGet s.written v) ∧
      (s'.subShift = false → ∀ v, mGet s'.written v = none → mGet s.written v = none) := by
  obtain ⟨compsF, f1, _, f3, f4, _⟩ := clobber_foot hr hwf
  obtain ⟨compsS, p1, p2, _, p4, _, _, p7, p8, _⟩ := clobber_spec ps hwf var maybe hr
  unfold clobber at hr
  rw [run_bind_ok] at hr
  obtain ⟨⟨s2, toEmit⟩, os1, h1, h2⟩ := hr
  rw [run_pure] at h2
  cases h2
  have hs0 : ∃ s0, s0 = (if !maybe then (removePending s var).1 else s) := ⟨_, rfl⟩
  obtain ⟨s0, hs0e⟩ := hs0
  rw [← hs0e] at h1
  have hwf0 : Wf s0 := by
    rw [hs0e]; split
    · exact removePending_wf hwf var
    · exact hwf
  have hsame0 : SameButPend s s0 := by
    rw [hs0e]; split
    · exact removePending_same s var
    · exact SameButPend.refl s
  have hsub0 : ∀ k e, mGet s0.pending k = some e → mGet s.pending k = some e := by
    rw [hs0e]; split
    · intro k e h
      rw [removePending_get hwf] at h
      split at h
      · cases h
      · exact h
    · exact fun _ _ h => h
  obtain ⟨r, _, _⟩ := gatherEmit_res ps hwf0 var h1
  have hfD : CalcFootD D s (emitStructured s2 ps toEmit) toEmit :=
    (gatherEmit_footD ps hwf0 var h1 D (fun v hv => (hD v hv).of_sub hsub0)).congr_left
      hsame0.2.2.2.2.2.2.2.1
  have hk : ∀ e, (if maybe then OptWrite.maybe else OptWrite.unknown : OptWrite w) ≠ .known e := by
    intro e; split <;> simp
  obtain ⟨i1, i2, i3, i4, i5, i6, i7, i8, i9, i10, i11⟩ :=
    insertWritten_same (emitStructured s2 ps toEmit) var (if maybe then .maybe else .unknown)
  have hwr : ∀ v, mGet (insertWritten (emitStructured s2 ps toEmit) var
      (if maybe then .maybe else .unknown)).written v =
      if var = v then some (if maybe then OptWrite.maybe else OptWrite.unknown)
      else mGet (emitStructured s2 ps toEmit).written v := by
    intro v
    rw [insertWritten_written', normW_nonknown _ hk, mGet_mSet]
  have hinsts : (insertWritten (emitStructured s2 ps toEmit) var (if maybe then .maybe else .unknown)).insts =
      s.insts ++ toEmit.map Instr.calc := by
    rw [i10, r.insts, hsame0.2.2.2.2.2.2.2.2.1]
  have hcF : compsF = toEmit := calc_map_inj (List.append_cancel_left (f1.symm.trans hinsts))
  have hcS : compsS = toEmit := calc_map_inj (List.append_cancel_left (p2.symm.trans hinsts))
  subst hcF
  refine ⟨compsF, hinsts, r.nodup, p1, p4, f3, ?_, p7, p8.noUse, ?_, ?_, ?_, ?_⟩
  · intro g hg ve hve
    exact hsub0 _ _ (r.tgt g hg ve hve)
  · intro hss K hK σ1 σ2 hag
    have := hfD (by rw [← i5]; exact hss) K (fun v hv hr' => hK v hv (by rw [i7]; exact hr')) σ1 σ2 hag
    refine this.mono ?_
    rintro v (⟨hkv, hnv⟩ | ⟨hkv, hdv⟩)
    · by_cases hv : v = var
      · exact Or.inr ⟨hkv, Or.inr hv⟩
      · refine Or.inl ⟨hkv, fun hd => hnv ?_⟩
        refine (DefW.of_get_eq ?_).1 hd
        rw [hwr, if_neg (fun e => hv e.symm)]
    · exact Or.inr ⟨hkv, Or.inl hdv⟩
  · rw [hwr, if_pos rfl]
  · intro v hv hnt
    rw [hwr, if_neg (fun e => hv e.symm), r.wr v hnt, hsame0.2.2.2.2.2.2.2.1]
  · intro hss
    exact (f4 hss).1

/-! ### `clobberAll` -/

theorem clobberAll_footD (ps : List (Rebuild w)) (cl : List (Int × Bool)) {s : Rebuild w} (hwf : Wf s)
    (hnd : (cl.map (·.1)).Nodup) (D : Int → Prop) (hD : ∀ v, D v → NoUse s v)
    {os os' : Orders} {s' : Rebuild w} (hr : (clobberAll ps cl s).run os = .ok (s', os')) :
    ∃ comps : List (List (Int × Expr w)), s'.insts = s.insts ++ comps.map Instr.calc ∧ (∀ g ∈ comps, (g.map (·.1)).Nodup) ∧ Wf s' ∧
      SameHdr s s' ∧ ReadsMono s s' ∧
      (∀ g ∈ comps, ∀ ve ∈ g, mGet s.pending ve.1 = some ve.2) ∧
      (∀ k e, mGet s'.pending k = some e → mGet s.pending k = some e) ∧
      (s'.subShift = false → ∀ (K : Int → Prop), (∀ v, K v → v ∉ s'.reads) → ∀ σ1 σ2 : State w,
        AgreeOff (RestD K D s) σ1 σ2 →
        AgreeOff (RestD K (fun v => D v ∨ v ∈ cl.map (·.1)) s')
          (comps.foldl doCalc σ1) (comps.foldl doCalc σ2)) ∧
      (∀ vb ∈ cl, vb.2 = true → ¬ DefW s' vb.1) ∧
      (∀ v, v ∉ cl.map (·.1) → mGet s.pending v = none → mGet s'.written v = mGet s.written v) ∧
      (s'.subShift = false → ∀ v, mGet s'.written v = none → mGet s.written v = none) := by
  induction cl generalizing s os D with
  | nil =>
    unfold clobberAll at hr
    rw [List.foldlM_nil, run_pure] at hr
    cases hr
    refine ⟨[], by simp, by simp, hwf, SameHdr.refl _, ReadsMono.refl _, by simp, fun _ _ h => h, ?_, by simp,
      fun _ _ _ => rfl, fun _ _ h => h⟩
    intro _ K _ σ1 σ2 hag
    refine hag.mono ?_
    rintro v (h | ⟨h1, h2⟩)
    · exact Or.inl h
    · exact Or.inr ⟨h1, Or.inl h2⟩
  | cons vb rest ih =>
    unfold clobberAll at hr
    rw [List.foldlM_cons, run_bind_ok] at hr
    obtain ⟨s1, os1, h1, h2⟩ := hr
    simp only [List.map_cons, List.nodup_cons] at hnd
    obtain ⟨c1, a1, a2, a3, a4, a5, a6, a7, a8, a9, a10, a11, a12⟩ := clobber_footD h1 hwf D hD
    have hD1 : ∀ v, (D v ∨ v = vb.1) → NoUse s1 v := by
      rintro v (h | h)
      · exact (hD v h).of_sub a7
      · rw [h]; exact a8
    obtain ⟨c2, b1, b2, b3, b4, b5, b6, b7, b8, b9, b10, b11⟩ :=
      ih a3 hnd.2 (fun v => D v ∨ v = vb.1) hD1 (show (clobberAll ps rest s1).run os1 = _ from h2)
    refine ⟨c1 ++ c2, by rw [b1, a1]; simp, ?_, b3, a4.trans b4, a5.trans b5, ?_, fun k e h => a7 k e (b7 k e h),
      ?_, ?_, ?_, ?_⟩
    · intro g hg
      rcases List.mem_append.1 hg with h | h
      · exact a2 g h
      · exact b2 g h
    · intro g hg ve hve
      rcases List.mem_append.1 hg with h | h
      · exact a6 g h ve hve
      · exact a7 _ _ (b6 g h ve hve)
    · intro hss K hK σ1 σ2 hag
      rw [List.foldl_append, List.foldl_append]
      have h1' := a9 (b5.2 hss) K (fun v hv hr' => hK v hv (b5.1 v hr')) σ1 σ2 hag
      refine (b8 hss K hK _ _ h1').mono ?_
      rintro v (h | ⟨hk, (hd | hd) | hd⟩)
      · exact Or.inl h
      · exact Or.inr ⟨hk, Or.inl hd⟩
      · exact Or.inr ⟨hk, Or.inr (by rw [hd]; simp)⟩
      · exact Or.inr ⟨hk, Or.inr (by simp only [List.map_cons, List.mem_cons]; exact Or.inr hd)⟩
    · intro vb' hvb' hflag
      rcases List.mem_cons.1 hvb' with e | e
      · subst e
        have hw1 : mGet s1.written vb'.1 = some OptWrite.maybe := by rw [a10, hflag]; rfl
        have := b10 vb'.1 hnd.1 a8.1
        rintro ⟨k, hk, hm⟩
        rw [this, hw1] at hk
        cases hk; cases hm
      · exact b9 vb' e hflag
    · intro v hv hp
      simp only [List.map_cons, List.mem_cons, not_or] at hv
      have hp1 : mGet s1.pending v = none := by
        cases hq : mGet s1.pending v with
        | none => rfl
        | some e => rw [a7 v e hq] at hp; cases hp
      rw [b10 v hv.2 hp1]
      apply a11 v hv.1
      intro g hg hvg
      obtain ⟨ve, hve, e⟩ := List.mem_map.1 hvg
      have := a6 g hg ve hve
      rw [e, hp] at this; cases this
    · intro hss v hv
      exact a12 (b5.2 hss) v (b11 hss v hv)

/-! ### the `clobber` phase of `loopOrIf` -/

theorem cfold_snd (L : OptLoop w) (C : List Int) (l : List (Int × OptWrite w))
    (acc : Rebuild w × List (Int × Bool)) :
    (l.foldl (cfold L C) acc).2 =
      acc.2 ++ (l.filter (fun vk => !C.contains vk.1)).map (fun vk => (vk.1, vk.2.isMaybe || !L.atLeastOnce)) := by
  induction l generalizing acc with
  | nil => simp
  | cons vk l ih =>
    simp only [List.foldl_cons]
    rw [ih]
    unfold cfold
    cases hC : C.contains vk.1 with
    | true =>
      rw [List.filter_cons_of_neg (by rw [hC]; simp)]
      simp only [Bool.not_true, Bool.false_eq_true, if_false]
    | false =>
      rw [List.filter_cons_of_pos (by rw [hC]; simp)]
      cases hm : (vk.2.isMaybe || !L.atLeastOnce) with
      | true => simp only [Bool.not_false, if_true, List.map_cons, hm, List.append_assoc, List.singleton_append]
      | false =>
        simp only [Bool.not_false, if_true, Bool.false_eq_true, if_false, List.map_cons, hm, List.append_assoc,
          List.singleton_append]

/-- The cells clobbered before a non-moving loop. -/
def ClobSet (L : OptLoop w) (C : List Int) (sub : Rebuild w) (v : Int) : Prop :=
  L.noEffect = false ∧ ∃ vk ∈ sub.written, vk.1 = v ∧ C.contains v = false

theorem clobberPhase_foot {s : Rebuild w} (ps : List (Rebuild w)) (sub : Rebuild w) (L : OptLoop w)
    (C : List Int) (hwf : Wf s) (hsw : Sorted sub.written) {os os' : Orders} {s' : Rebuild w}
    (hr : (clobberPhase s ps sub L C).run os = .ok (s', os')) :
    ∃ comps : List (List (Int × Expr w)), s'.insts = s.insts ++ comps.map Instr.calc ∧ (∀ g ∈ comps, (g.map (·.1)).Nodup) ∧
      SameHdr s s' ∧ ReadsMono s s' ∧
      (∀ g ∈ comps, ∀ ve ∈ g, mGet s.pending ve.1 = some ve.2) ∧
      (s'.subShift = false → ∀ (K : Int → Prop), (∀ v, K v → v ∉ s'.reads) → ∀ σ1 σ2 : State w,
        AgreeOff (Rest K s) σ1 σ2 →
        AgreeOff (fun v => Rest K s' v ∨ (K v ∧ ClobSet L C sub v))
          (comps.foldl doCalc σ1) (comps.foldl doCalc σ2)) ∧
      (∀ v, ClobSet L C sub v → DefW s' v → L.atLeastOnce = true ∧ DefW sub v) ∧
      (s'.subShift = false → ∀ v, mGet s'.written v = none → mGet s.written v = none) := by
  rw [clobberPhase_eq] at hr
  cases hne : L.noEffect with
  | true =>
    rw [hne] at hr
    simp only [Bool.not_true, Bool.false_eq_true, if_false] at hr
    rw [run_pure] at hr
    cases hr
    refine ⟨[], by simp, by simp, SameHdr.refl _, ReadsMono.refl _, by simp, ?_, ?_, fun _ _ h => h⟩
    · intro _ K _ σ1 σ2 hag
      exact hag.mono (fun v h => Or.inl h)
    · rintro v ⟨h, _⟩
      rw [hne] at h; cases h
  | false =>
    rw [hne] at hr
    simp only [Bool.not_false, if_true] at hr
    obtain ⟨i1, i2, i3, _, _, _, _⟩ := cfold_spec ps L C sub.written (s, []) hwf
    have hperm := Expr.stableSort_perm (fun (a b : Int × Bool) => decide (a.1 ≤ b.1))
      (sub.written.foldl (cfold L C) (s, [])).2
    have hsnd := cfold_snd L C sub.written (s, [])
    simp only [List.nil_append] at hsnd
    -- the keys of the clobber list are distinct
    have hnd0 : ((sub.written.foldl (cfold L C) (s, [])).2.map (·.1)).Nodup := by
      rw [hsnd, List.map_map]
      have hsl : ((sub.written.filter (fun vk => !C.contains vk.1)).map
          ((fun x : Int × Bool => x.1) ∘ fun vk : Int × OptWrite w => (vk.1, vk.2.isMaybe || !L.atLeastOnce))).Sublist
          (sub.written.map (·.1)) := by
        have : ((fun x : Int × Bool => x.1) ∘ fun vk : Int × OptWrite w =>
            (vk.1, vk.2.isMaybe || !L.atLeastOnce)) = (fun vk : Int × OptWrite w => vk.1) := rfl
        rw [this]
        exact List.Sublist.map _ List.filter_sublist
      exact List.Nodup.sublist hsl (nodup_keys_of_sorted hsw)
    have hnd : ((Expr.stableSort (fun (a b : Int × Bool) => decide (a.1 ≤ b.1))
        (sub.written.foldl (cfold L C) (s, [])).2).map (·.1)).Nodup :=
      (List.Perm.nodup_iff (hperm.map _)).2 hnd0
    have hmem : ∀ vb, vb ∈ Expr.stableSort (fun (a b : Int × Bool) => decide (a.1 ≤ b.1))
        (sub.written.foldl (cfold L C) (s, [])).2 ↔
        ∃ vk ∈ sub.written, C.contains vk.1 = false ∧ vb = (vk.1, vk.2.isMaybe || !L.atLeastOnce) := by
      intro vb
      rw [hperm.mem_iff, hsnd]
      simp only [List.mem_map, List.mem_filter, Bool.not_eq_true']
      constructor
      · rintro ⟨vk, ⟨h1, h2⟩, h3⟩; exact ⟨vk, h1, h2, h3.symm⟩
      · rintro ⟨vk, h1, h2, h3⟩; exact ⟨vk, ⟨h1, h2⟩, h3.symm⟩
    obtain ⟨comps, b1, b2, b3, b4, b5, b6, b7, b8, b9, b10, b11⟩ :=
      clobberAll_footD ps _ i1 hnd (fun _ => False) (fun _ h => absurd h id) hr
    have hw0 : (sub.written.foldl (cfold L C) (s, [])).1.written = s.written := i2.2.2.2.2.2.2.2.1
    have hr0 : (sub.written.foldl (cfold L C) (s, [])).1.reads = s.reads := i2.2.2.2.2.2.2.1
    have hs0 : (sub.written.foldl (cfold L C) (s, [])).1.subShift = s.subShift := i2.2.2.2.2.1
    refine ⟨comps, by rw [b1, i2.2.2.2.2.2.2.2.2.1], b2, i2.hdr.trans b4, ?_, ?_, ?_, ?_, ?_⟩
    · exact ⟨fun v hv => b5.1 v (by rw [hr0]; exact hv), fun h => by rw [← hs0]; exact b5.2 h⟩
    · intro g hg ve hve
      exact i3 _ _ (b6 g hg ve hve)
    · intro hss K hK σ1 σ2 hag
      have hag0 : AgreeOff (RestD K (fun _ => False) (sub.written.foldl (cfold L C) (s, [])).1) σ1 σ2 := by
        refine hag.congr (fun v => ?_)
        rw [restD_false, Rest.congr hw0]
      refine (b8 hss K hK σ1 σ2 hag0).mono ?_
      rintro v (h | ⟨hk, hf | hm⟩)
      · exact Or.inl h
      · exact absurd hf id
      · refine Or.inr ⟨hk, hne, ?_⟩
        obtain ⟨vb, hvb, e⟩ := List.mem_map.1 hm
        obtain ⟨vk, hvk, hC, e'⟩ := (hmem vb).1 hvb
        refine ⟨vk, hvk, ?_, ?_⟩
        · rw [← e, e']
        · rw [← e, e']; exact hC
    · rintro v ⟨_, vk, hvk, e, hC⟩ hdef
      have hin : (vk.1, vk.2.isMaybe || !L.atLeastOnce) ∈ Expr.stableSort
          (fun (a b : Int × Bool) => decide (a.1 ≤ b.1)) (sub.written.foldl (cfold L C) (s, [])).2 :=
        (hmem _).2 ⟨vk, hvk, by rw [e]; exact hC, rfl⟩
      cases hflag : (vk.2.isMaybe || !L.atLeastOnce) with
      | true =>
        have := b9 _ hin hflag
        rw [e] at this
        exact absurd hdef this
      | false =>
        simp only [Bool.or_eq_false_iff, Bool.not_eq_false'] at hflag
        refine ⟨hflag.2, vk.2, ?_, hflag.1⟩
        rw [← e]
        exact mGet_of_mem hsw hvk
    · intro hss v hv
      rw [← hw0]
      exact b11 hss v hv

end OptProof
end Hpbf
