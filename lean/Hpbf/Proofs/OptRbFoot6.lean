/-
Rebuild-round proofs: the FOOTPRINT invariants, part 6: the write frame along the footprint (`FootFrameV`) and the
mirroring of badness (`FootBadV`): generic lemmas, straight-line code, and `loopOrIf` with a non-moving child.
-/
import Hpbf.Proofs.OptRbFoot5

namespace Hpbf
namespace OptProof
open Opt OptSem Ir

variable {w : Nat}

/-! ### generic -/

theorem PhysStep.footFrameV {s s' : Rebuild w} {new : List (Instr w)} (h : PhysStep s s' new)
    (V : State w → Prop) : FootFrameV V s s' new := footFrameV_of_phys h

theorem KeysMono.toPrime {s s' : Rebuild w} (h : KeysMono s s') : KeysMono' s s' := h

/-- Code without `loop` / `ifnz` never goes bad. -/
theorem footBadV_of_noBlocks {V : State w → Prop} {s s' : Rebuild w} {new : List (Instr w)}
    (h : ∀ i ∈ new, C01Dse.isBlock i = false) : FootBadV V s s' new :=
  fun _ _ _ _ σ2 _ _ hb => absurd hb (not_bad_of_noBlocks h σ2)

theorem FootBadV.refl (V : State w → Prop) (s : Rebuild w) : FootBadV V s s [] :=
  footBadV_of_noBlocks (fun _ h => by cases h)

theorem FootBadV.trans {V V' : State w → Prop} {a b c : Rebuild w} {n1 n2 : List (Instr w)}
    (b1 : FootBadV V a b n1) (h1 : FootStepV V a b n1) (b2 : FootBadV V' b c n2)
    (hv : ∀ σ σ', V σ → Exec n1 σ (.fin σ') → V' σ') (hm : ReadsMono b c) : FootBadV V a c (n1 ++ n2) := by
  intro hs K hK σ1 σ2 v1 hag hbad
  have hsb := hm.2 hs
  have hKb : ∀ v, K v → v ∉ b.reads := fun v hv' hr => hK v hv' (hm.1 v hr)
  rcases bad_append.1 hbad with hb | ⟨σ2', e2, hb⟩
  · exact bad_append.2 (Or.inl (b1 hsb K hKb σ1 σ2 v1 hag hb))
  · obtain ⟨σ1', e1, hag'⟩ := (h1 hsb K hKb σ1 σ2 v1 hag).finR σ2' e2
    exact bad_append.2 (Or.inr ⟨σ1', e1, b2 hs K hK σ1' σ2' (hv σ1 σ1' v1 e1) hag' hb⟩)

/-- All `_phys` results give the frame along the footprint. -/
theorem footFrame_of_phys_ex {s s' : Rebuild w}
    (h : ∃ new, s'.insts = s.insts ++ new ∧ PhysStep s s' new ∧ KeysMono s s' ∧ ReadsMono s s') :
    ∃ new, s'.insts = s.insts ++ new ∧ (∀ V, FootFrameV V s s' new) ∧ KeysMono' s s' ∧ ReadsMono s s' := by
  obtain ⟨new, e, p, k, m⟩ := h
  exact ⟨new, e, fun V => p.footFrameV V, k, m⟩

/-! ### straight-line code -/

theorem noBlocks_append {a b : List (Instr w)} (ha : ∀ i ∈ a, C01Dse.isBlock i = false)
    (hb : ∀ i ∈ b, C01Dse.isBlock i = false) : ∀ i ∈ a ++ b, C01Dse.isBlock i = false := by
  intro i hi
  rcases List.mem_append.1 hi with h | h
  · exact ha i h
  · exact hb i h

/-- The instructions emitted for an instruction that is not a block contain no block. -/
theorem rebuildInstr_straight_noBlocks {ps : List (Rebuild w)} {s : Rebuild w} (hwf : Wf s) {i : Instr w}
    (hi : C01Dse.isBlock i = false) {os os' : Orders} {s' : Rebuild w}
    (hr : (rebuildInstr ps s i).run os = .ok (s', os')) :
    ∃ new, s'.insts = s.insts ++ new ∧ ∀ j ∈ new, C01Dse.isBlock j = false := by
  cases i with
  | output src =>
    rw [rebuildInstr] at hr
    split at hr
    · rename_i x hx
      rw [run_pure] at hr
      cases hr
      refine ⟨[.output x], ?_, by simp [C01Dse.isBlock]⟩
      show (Opt.read s x).insts ++ _ = _
      rw [(read_same s x).2.2.2.2.2.2.2.2.2.1]
    · rw [run_bind_ok] at hr
      obtain ⟨s1, os1, h1, h2⟩ := hr
      rw [run_pure] at h2
      cases h2
      obtain ⟨comps, res, _⟩ := emit_res ps hwf (src + s.shift) h1
      refine ⟨comps.map Instr.calc ++ [.output (src + s.shift)], ?_, noBlocks_calcs_then comps _ rfl⟩
      show (Opt.read s1 (src + s.shift)).insts ++ _ = _
      rw [(read_same s1 (src + s.shift)).2.2.2.2.2.2.2.2.2.1, res.insts, List.append_assoc]
  | input dst =>
    rw [rebuildInstr, run_bind_ok] at hr
    obtain ⟨s1, os1, h1, h2⟩ := hr
    rw [run_pure] at h2
    cases h2
    obtain ⟨comps, c1, _⟩ := clobber_foot h1 hwf
    refine ⟨comps.map Instr.calc ++ [.input (dst + s.shift)], ?_, noBlocks_calcs_then comps _ rfl⟩
    show s1.insts ++ _ = _
    rw [c1, List.append_assoc]
  | «calc» calcs =>
    rw [rebuildInstr] at hr
    obtain ⟨comps, hi', _⟩ := performAll_foot hr hwf
    exact ⟨comps.map Instr.calc, hi', noBlocks_calcs comps⟩
  | loop c sh b o => simp [C01Dse.isBlock] at hi
  | ifnz c sh b => simp [C01Dse.isBlock] at hi

theorem rebuildInsts_straight_noBlocks {ps : List (Rebuild w)} (l : List (Instr w)) (hl : StraightL l)
    {s : Rebuild w} {os os' : Orders} {s' : Rebuild w} {done : Bool} (hwf : Wf s) (hnr : s.noReturn = false)
    (hr : (rebuildInsts ps s l).run os = .ok ((s', done), os')) :
    ∃ new, s'.insts = s.insts ++ new ∧ ∀ j ∈ new, C01Dse.isBlock j = false := by
  induction l generalizing s os with
  | nil =>
    rw [rebuildInsts, run_pure] at hr
    cases hr
    exact ⟨[], by simp, fun _ h => by cases h⟩
  | cons i rest ih =>
    rw [rebuildInsts, hnr] at hr
    simp only [Bool.false_eq_true, if_false] at hr
    rw [run_bind_ok] at hr
    obtain ⟨s1, os1, h1, h2⟩ := hr
    obtain ⟨a1, a2, _⟩ := rebuildInstr_straight hwf (hl i (by simp)) h1
    obtain ⟨n1, e1, b1⟩ := rebuildInstr_straight_noBlocks hwf (hl i (by simp)) h1
    obtain ⟨n2, e2, b2⟩ := ih (fun j hj => hl j (by simp [hj])) a1 (by rw [a2, hnr]) h2
    exact ⟨n1 ++ n2, by rw [e2, e1, List.append_assoc], noBlocks_append b1 b2⟩

/-- Straight-line code: frame along the footprint and mirrored badness, for every notion of validity (the same
`new` in both). -/
theorem rebuildInsts_straight_frameBad {ps : List (Rebuild w)} (l : List (Instr w)) (hl : StraightL l)
    {s : Rebuild w} {os os' : Orders} {s' : Rebuild w} {done : Bool} (hwf : Wf s) (hnr : s.noReturn = false)
    (hr : (rebuildInsts ps s l).run os = .ok ((s', done), os')) :
    ∃ new, s'.insts = s.insts ++ new ∧ (∀ V, FootFrameV V s s' new) ∧ (∀ V, FootBadV V s s' new) ∧
      KeysMono' s s' ∧ ReadsMono s s' := by
  obtain ⟨new, e, p, k, m⟩ := rebuildInsts_straight_phys l hl hwf hnr hr
  obtain ⟨new', e', b⟩ := rebuildInsts_straight_noBlocks l hl hwf hnr hr
  have : new' = new := List.append_cancel_left (e'.symm.trans e)
  subst this
  exact ⟨new', e, fun V => p.footFrameV V, fun V => footBadV_of_noBlocks b, k, m⟩

theorem rebuildInstr_straight_frameBad {ps : List (Rebuild w)} {s : Rebuild w} (hwf : Wf s) {i : Instr w}
    (hi : C01Dse.isBlock i = false) {os os' : Orders} {s' : Rebuild w}
    (hr : (rebuildInstr ps s i).run os = .ok (s', os')) :
    ∃ new, s'.insts = s.insts ++ new ∧ (∀ V, FootFrameV V s s' new) ∧ (∀ V, FootBadV V s s' new) ∧
      KeysMono' s s' ∧ ReadsMono s s' := by
  obtain ⟨new, e, p, k, m⟩ := rebuildInstr_straight_phys hwf hi hr
  obtain ⟨new', e', b⟩ := rebuildInstr_straight_noBlocks hwf hi hr
  have : new' = new := List.append_cancel_left (e'.symm.trans e)
  subst this
  exact ⟨new', e, fun V => p.footFrameV V, fun V => footBadV_of_noBlocks b, k, m⟩

/-! ### loops along a loop-head relation -/

theorem exec_loop_zero {c sh : Int} {I : List (Instr w)} {once : Bool} {b bb : State w}
    (hz : b.rd c = 0#w) (hex : Exec [.loop c sh I once] b (.fin bb)) : bb = b := by
  cases hex with
  | loopSkip _ hrest => cases hrest; rfl
  | loopIter hne _ _ => exact absurd hz hne
  | loopIn _ _ hnf => simp [Out.isFin] at hnf

theorem exec_ifnz_zero {c sh : Int} {I : List (Instr w)} {b bb : State w}
    (hz : b.rd c = 0#w) (hex : Exec [.ifnz c sh I] b (.fin bb)) : bb = b := by
  cases hex with
  | ifSkip _ hrest => cases hrest; rfl
  | ifIter hne _ _ => exact absurd hz hne
  | ifIn _ _ hnf => simp [Out.isFin] at hnf

/-- The write frame of a non-moving loop whose heads are related to the heads of a mirror run. -/
theorem loop_frame_aux {J : State w → State w → Prop} {c : Int} {I : List (Instr w)} {P : Int → Prop}
    (hbody : ∀ a b, J a b → b.rd c ≠ 0#w → Sim (fun a' b' => J (a'.mov 0) (b'.mov 0)) I I a b)
    (hframe : ∀ a b, J a b → b.rd c ≠ 0#w → ∀ b', Exec I b (.fin b') →
      b'.ptr = b.ptr ∧ ∀ v, P v → memE b' v = memE b v)
    {a b bb : State w} {once : Bool} (h : J a b) (hex : Exec [.loop c 0 I once] b (.fin bb)) :
    bb.ptr = b.ptr ∧ ∀ v, P v → memE bb v = memE b v := by
  generalize hl : [Instr.loop c 0 I once] = l at hex
  generalize ho : Out.fin bb = o at hex
  induction hex generalizing a with
  | cut _ _ => cases ho
  | nil _ => cases hl
  | outOk _ _ _ => cases hl
  | outFail _ => cases hl
  | inOk _ _ _ => cases hl
  | inFail _ => cases hl
  | «calc» _ _ => cases hl
  | loopSkip _ hrest _ =>
    simp only [List.cons.injEq, Instr.loop.injEq] at hl
    obtain ⟨_, rfl⟩ := hl
    subst ho
    cases hrest
    exact ⟨rfl, fun _ _ => rfl⟩
  | @loopIter cond shift body once' rest σ σ1 o hne hb _ _ ih2 =>
    simp only [List.cons.injEq, Instr.loop.injEq] at hl
    obtain ⟨⟨rfl, rfl, rfl, rfl⟩, rfl⟩ := hl
    obtain ⟨x1, _, hJ'⟩ := (hbody a σ h hne).finR σ1 hb
    obtain ⟨p1, m1⟩ := hframe a σ h hne σ1 hb
    obtain ⟨p2, m2⟩ := ih2 hJ' rfl ho
    refine ⟨?_, fun v hv => ?_⟩
    · rw [p2]
      show σ1.ptr + 0 = σ.ptr
      rw [Int.add_zero, p1]
    · rw [m2 v hv, memE_mov0, m1 v hv]
  | loopIn _ _ hnf _ =>
    rw [← ho] at hnf
    simp [Out.isFin] at hnf
  | ifSkip _ _ _ => cases hl
  | ifIter _ _ _ _ _ => cases hl
  | ifIn _ _ _ _ => cases hl

theorem ifnz_frame_aux {c : Int} {I : List (Instr w)} {P : Int → Prop} {b bb : State w}
    (hframe : b.rd c ≠ 0#w → ∀ b', Exec I b (.fin b') → b'.ptr = b.ptr ∧ ∀ v, P v → memE b' v = memE b v)
    (hex : Exec [.ifnz c 0 I] b (.fin bb)) : bb.ptr = b.ptr ∧ ∀ v, P v → memE bb v = memE b v := by
  cases hex with
  | ifSkip _ hrest => cases hrest; exact ⟨rfl, fun _ _ => rfl⟩
  | @ifIter _ _ _ _ _ σ1 _ hne hb hrest =>
    cases hrest
    obtain ⟨p1, m1⟩ := hframe hne σ1 hb
    refine ⟨?_, fun v hv => ?_⟩
    · show σ1.ptr + 0 = b.ptr
      rw [Int.add_zero, p1]
    · rw [memE_mov0, m1 v hv]
  | ifIn _ _ hnf => simp [Out.isFin] at hnf

/-- Badness of a non-moving loop is mirrored along a loop-head relation. -/
theorem loop_bad_mirror {J : State w → State w → Prop} {c : Int} {I : List (Instr w)}
    (hc : ∀ a b, J a b → (a.rd c = 0#w ↔ b.rd c = 0#w))
    (hbody : ∀ a b, J a b → b.rd c ≠ 0#w → Sim (fun a' b' => J (a'.mov 0) (b'.mov 0)) I I a b)
    (hbad : ∀ a b, J a b → b.rd c ≠ 0#w → Bad I b → Bad I a)
    {a b : State w} {once : Bool} (h : J a b) (hb : Bad [.loop c 0 I once] b) :
    Bad [.loop c 0 I once] a := by
  generalize hl : [Instr.loop c 0 I once] = l at hb
  induction hb generalizing a once with
  | here h0 =>
    simp only [List.cons.injEq, Instr.loop.injEq] at hl
    obtain ⟨⟨rfl, rfl, rfl, rfl⟩, _⟩ := hl
    exact Bad.here ((hc _ _ h).2 h0)
  | outOk _ _ _ => cases hl
  | inOk _ _ _ => cases hl
  | «calc» _ _ => cases hl
  | loopSkip _ hb' _ =>
    simp only [List.cons.injEq, Instr.loop.injEq] at hl
    obtain ⟨_, rfl⟩ := hl
    cases hb'
  | @loopIter cond shift body once' rest σ σ1 hne hex _ ih =>
    simp only [List.cons.injEq, Instr.loop.injEq] at hl
    obtain ⟨⟨rfl, rfl, rfl, rfl⟩, rfl⟩ := hl
    obtain ⟨x1, hx1, hJ'⟩ := (hbody a σ h hne).finR σ1 hex
    have hnea : a.rd c ≠ 0#w := fun hz => hne ((hc _ _ h).1 hz)
    exact Bad.loopIter hnea hx1 (ih hJ' rfl)
  | loopIn hne hb' _ =>
    simp only [List.cons.injEq, Instr.loop.injEq] at hl
    obtain ⟨⟨rfl, rfl, rfl, rfl⟩, rfl⟩ := hl
    have hnea : a.rd c ≠ 0#w := fun hz => hne ((hc _ _ h).1 hz)
    exact Bad.loopIn hnea (hbad _ _ h hne hb')
  | ifSkip _ _ _ => cases hl
  | ifIter _ _ _ _ => cases hl
  | ifIn _ _ _ => cases hl

theorem ifnz_bad_mirror {c : Int} {I : List (Instr w)} {a b : State w}
    (hc : a.rd c = 0#w ↔ b.rd c = 0#w) (hbad : b.rd c ≠ 0#w → Bad I b → Bad I a)
    (hb : Bad [.ifnz c 0 I] b) : Bad [.ifnz c 0 I] a := by
  cases hb with
  | ifSkip _ hb' => cases hb'
  | ifIter _ _ hb' => cases hb'
  | ifIn hne hb' => exact Bad.ifIn (fun hz => hne (hc.1 hz)) (hbad hne hb')

/-! ### one round of the child along the footprint -/

section Round
variable {Gc : State w → Prop} {shP shC cS : Int} {pc : List (Rebuild w)} {sub0 sub1 : Rebuild w}
  {bodyS : List (Instr w)}

theorem ChildOk.round (hc : ChildOk Gc shP shC pc sub0 sub1 cS bodyS) (hall : ∀ σ, Gc σ) {X : Int → Prop}
    (hX : ∀ v, X v → v ∉ sub1.reads) {a b : State w} (hab : AgreeOff X a b)
    (hne : a.rd (cS + shP) ≠ 0#w) :
    Sim (fun a' b' => AgreeOff (Rest X sub1) (a'.mov 0) (b'.mov 0)) sub1.insts sub1.insts a b :=
  (hc.foot hc.noShift X hX a b (hc.valid_head hall hne) (hab.congr (fun v => (rest_fresh hc.w0 v).symm))).mono
    (fun _ _ h => h.mov0)

theorem ChildOk.round_frame (hc : ChildOk Gc shP shC pc sub0 sub1 cS bodyS) (hall : ∀ σ, Gc σ)
    {X : Int → Prop}
    (hX : ∀ v, X v → v ∉ sub1.reads) {a b : State w} (hab : AgreeOff X a b)
    (hne : a.rd (cS + shP) ≠ 0#w) (b' : State w) (hex : Exec sub1.insts b (.fin b')) :
    b'.ptr = b.ptr ∧ ∀ v, (v ∉ mKeys sub1.written ∧ v ∉ sub1.reads) → memE b' v = memE b v := by
  obtain ⟨p, m⟩ := hc.frame2 hc.noShift X hX a b (hc.valid_head hall hne)
    (hab.congr (fun v => (rest_fresh hc.w0 v).symm)) b' hex
  exact ⟨p, fun v hv => m v hv.1 hv.2⟩

theorem ChildOk.round_bad (hc : ChildOk Gc shP shC pc sub0 sub1 cS bodyS) (hall : ∀ σ, Gc σ)
    {X : Int → Prop}
    (hX : ∀ v, X v → v ∉ sub1.reads) {a b : State w} (hab : AgreeOff X a b)
    (hne : a.rd (cS + shP) ≠ 0#w) (hb : Bad sub1.insts b) : Bad sub1.insts a :=
  hc.badfoot hc.noShift X hX a b (hc.valid_head hall hne) (hab.congr (fun v => (rest_fresh hc.w0 v).symm)) hb

end Round

/-! ### `loopOrIf`, non-moving child: the common setup -/

/-- Everything the frame / badness passes need about the parent's preparation and the pushed instruction. -/
theorem loopOrIf_stay_setup {shP cS : Int} {s : Rebuild w}
    {ps : List (Rebuild w)} {sub1 : Rebuild w} {isLoop : Bool} {L : OptLoop w} {C : List Int}
    (hflag : Bool) (hwf : Wf s) (hwf1 : Wf sub1)
    (hns : (sub1.subShift || sub1.shift != s.shift) = false)
    {os os' : Orders} {r : Rebuild w × Rebuild w × List Int}
    (hr : (loopPrep s ps sub1 (cS + shP) L C).run os = .ok (r, os')) :
    ∃ comps : List (List (Int × Expr w)),
      (loopTail r.1 r.2.1 (cS + shP) isLoop L hflag r.2.2).insts =
        s.insts ++ (comps.map Instr.calc ++ [if isLoop then Instr.loop (cS + shP) 0 sub1.insts L.atLeastOnce
          else Instr.ifnz (cS + shP) 0 sub1.insts]) ∧
      ((loopTail r.1 r.2.1 (cS + shP) isLoop L hflag r.2.2).subShift = false → ∀ (K : Int → Prop),
        (∀ v, K v → v ∉ (loopTail r.1 r.2.1 (cS + shP) isLoop L hflag r.2.2).reads) → ∀ σ1 σ2 : State w,
        AgreeOff (Rest K s) σ1 σ2 →
        AgreeOff (HeadSet K r.1 sub1 (cS + shP) L C) (comps.foldl doCalc σ1) (comps.foldl doCalc σ2)) ∧
      ((loopTail r.1 r.2.1 (cS + shP) isLoop L hflag r.2.2).subShift = false →
        ∀ v, tgtL (comps.map Instr.calc) v →
          v ∈ mKeys (loopTail r.1 r.2.1 (cS + shP) isLoop L hflag r.2.2).written ∨
          v ∈ (loopTail r.1 r.2.1 (cS + shP) isLoop L hflag r.2.2).reads) ∧
      ((loopTail r.1 r.2.1 (cS + shP) isLoop L hflag r.2.2).subShift = false → L.noEffect = false →
        ∀ v, (v ∈ mKeys sub1.written ∨ v ∈ sub1.reads) →
          v ∈ mKeys (loopTail r.1 r.2.1 (cS + shP) isLoop L hflag r.2.2).written ∨
          v ∈ (loopTail r.1 r.2.1 (cS + shP) isLoop L hflag r.2.2).reads) ∧
      (∀ M0 (σ1 σS : State w), RelAt shP s ps M0 σ1 σS → (comps.foldl doCalc σ1).rd (cS + shP) = σS.rd cS) := by
  have hns' := hns
  simp only [Bool.or_eq_false_iff, bne_eq_false_iff_eq] at hns'
  obtain ⟨_, hshEq⟩ := hns'
  obtain ⟨s3', compsL, Dx, hreq, hclob, hdrop, hreads, _, _, hminvx⟩ := loopPrep_stay hwf hns hr
  obtain ⟨comps, hsubR, p1, _, p3, _, p5, _, _⟩ := loopPrep_stay_foot hwf hwf1 hns hr
  obtain ⟨compsP, _, q1, _, q3, _, _, q6, q7, q8⟩ := loopPrep_stay_phys hwf hns hr
  have hcompsL : compsL = comps := by
    apply calc_map_inj
    have e1 : r.1.insts = s3'.insts := by
      rw [hreq]
      exact (condZero_same s3' _ (cS + shP)).2.2.2.2.2.2.2.2.2.1
    exact List.append_cancel_left (hclob.insts.symm.trans (e1.symm.trans p1))
  have hcompsP : compsP = comps := calc_map_inj (List.append_cancel_left (q1.symm.trans p1))
  subst hcompsL
  subst hcompsP
  obtain ⟨t1, _, _, t4, t5, _, t7⟩ := loopTail_fields r.1 r.2.1 (cS + shP) isLoop L hflag r.2.2
  have hbs : r.2.1.shift - r.1.shift = 0 := by
    rw [hsubR, p3.2.2.1]
    show sub1.shift - s.shift = 0
    rw [hshEq]; omega
  have hinsR : r.2.1.insts = sub1.insts := by rw [hsubR]
  rw [hbs, hinsR] at t7
  have hssEq : (loopTail r.1 r.2.1 (cS + shP) isLoop L hflag r.2.2).subShift = r.1.subShift := t1.2.2.2.2
  have hkeys : ∀ v, v ∈ mKeys r.1.written →
      v ∈ mKeys (loopTail r.1 r.2.1 (cS + shP) isLoop L hflag r.2.2).written := by
    intro v hv
    rw [t5]
    split
    · exact (mem_keys_mSet _ _ _ _).2 (Or.inr hv)
    · exact hv
  refine ⟨compsP, by rw [t7, p1, List.append_assoc], ?_, ?_, ?_, ?_⟩
  · intro hss K hK σ1 σ2 hag
    exact p5 (by rw [← hssEq]; exact hss) K (fun v hv hr' => hK v hv (by rw [t4]; exact hr')) σ1 σ2 hag
  · intro hss v hv
    rcases (q3 (by rw [← hssEq]; exact hss)).2 v hv with h | h
    · exact Or.inl (hkeys v h)
    · exact Or.inr (by rw [t4]; exact h)
  · intro hss hne v hv
    have hssP : r.1.subShift = false := by rw [← hssEq]; exact hss
    rcases hv with h | h
    · cases hC : C.contains v with
      | true =>
        rcases q8 hssP v h hC with h' | h'
        · exact Or.inl (hkeys v h')
        · exact Or.inr (by rw [t4]; exact h')
      | false =>
        left
        apply hkeys
        apply q7 hssP v
        obtain ⟨vk, hvk, e⟩ := List.mem_map.1 h
        exact ⟨hne, vk, hvk, e, hC⟩
    · rcases q6 hssP v (Or.inl h) with h' | h'
      · exact Or.inl (hkeys v h')
      · exact Or.inr (by rw [t4]; exact h')
  · intro M0 σ1 σS hrel
    have hX : MInvX Dx s3' ps M0 (memE (compsP.foldl doCalc σ1)) (memS (compsP.foldl doCalc σ1) σS) := by
      rw [memE_foldl_doCalc σ1 compsP hclob.nodup, memS_foldl_doCalc]
      exact hminvx M0 _ _ hrel.inv
    have hnd : ¬ Dx (cS + shP) := fun hd => (hdrop.notRead _ hd).2 rfl
    have h1' : memS (compsP.foldl doCalc σ1) σS (cS + shP) = memE (compsP.foldl doCalc σ1) (cS + shP) := by
      rw [hX.pendX _ hnd]
      exact par_of_not_mem _ _ _ (hreads _ (Or.inr rfl))
    have h2' : σS.rd cS = memS (compsP.foldl doCalc σ1) σS (cS + shP) := by
      rw [memS_foldl_doCalc]
      exact hrel.rdS cS
    rw [h2', h1']
    rfl

/-! ### `loopOrIf`, non-moving child: mirrored badness -/

theorem loopOrIf_stay_footBad {shP shC shS cS : Int} {bodyS : List (Instr w)}
    {s : Rebuild w} {ps : List (Rebuild w)} {sub : Rebuild w} {cond : Int} {isLoop : Bool} {L : OptLoop w}
    {C : List Int} {pc : List (Rebuild w)} {sub0 : Rebuild w} {os os' : Orders} {s' : Rebuild w}
    {G Gc : State w → Prop}
    (hr : (loopOrIf s ps sub cond isLoop L C).run os = .ok (s', os'))
    (hwf : Wf s) (hpre : ChildPre Gc shP shC pc sub0 sub cS bodyS)
    (hns : (sub.subShift || sub.shift != s.shift) = false)
    (hcond : cond = cS + shP)
    (hGc : ∀ M0 σE σS, RelAt shP s ps M0 σE σS → G σS → ∀ k σk, Head cS shS bodyS σS k σk →
      (isLoop = false → k = 0) → σk.rd cS ≠ 0#w → Gc σk)
    (hGcT : isLoop = true → ∀ σ, Gc σ) :
    ∃ new, s'.insts = s.insts ++ new ∧ FootBadV (ValidG G shP s ps) s s' new := by
  subst hcond
  obtain ⟨sub1, os1, r, h1, h2, rfl⟩ := loopOrIf_run hr
  obtain ⟨hc, hwf1, hshift1⟩ := hpre.emit h1
  have hshEq : sub.shift = s.shift := by
    have := hns
    simp only [Bool.or_eq_false_iff, bne_eq_false_iff_eq] at this
    exact this.2
  have hns1 : (sub1.subShift || sub1.shift != s.shift) = false := by
    rw [hc.noShift, hshift1, hshEq]; simp
  obtain ⟨comps, hi, hhead, _, _, _⟩ :=
    loopOrIf_stay_setup (isLoop := isLoop)
      (sub1.subShift || sub1.shift != s.shift) hwf hwf1 hns1 h2
  obtain ⟨compsL, eL, hsemc⟩ := loopPrep_stay_semctx hc hwf hwf1 hns1 h2
  have hcL : compsL = comps := by
    apply calc_map_inj
    obtain ⟨_, _, _, _, _, _, t7⟩ := loopTail_fields r.1 r.2.1 (cS + shP) isLoop L
      (sub1.subShift || sub1.shift != s.shift) r.2.2
    rw [t7, eL, List.append_assoc] at hi
    exact List.append_inj_left' (List.append_cancel_left hi) rfl
  rw [hcL] at hsemc
  refine ⟨_, hi, ?_⟩
  intro hss K hK σ1 σ2 v1 hag hbad
  have hA := hhead hss K hK σ1 σ2 hag
  rw [bad_calcs_iff] at hbad ⊢
  have hXr : ∀ v, HeadSet K r.1 sub1 (cS + shP) L C v → v ∉ sub1.reads := fun v h => h.1.1
  have hcnd : ∀ a b : State w, AgreeOff (HeadSet K r.1 sub1 (cS + shP) L C) a b →
      a.rd (cS + shP) = b.rd (cS + shP) := fun a b hab => hab.2.2.2 (cS + shP) (fun h => h.1.2 rfl)
  cases isLoop with
  | true =>
    simp only [if_true] at hbad ⊢
    refine loop_bad_mirror (J := fun a b => AgreeOff (HeadSet K r.1 sub1 (cS + shP) L C) a b) ?_ ?_ ?_ hA hbad
    · intro a b hab; rw [hcnd a b hab]
    · intro a b hab hne
      exact (hc.round (hGcT rfl) hXr hab (by rw [hcnd a b hab]; exact hne)).mono
        (fun _ _ h => h.mono (fun v hv => hv.1))
    · intro a b hab hne hb
      exact hc.round_bad (hGcT rfl) hXr hab (by rw [hcnd a b hab]; exact hne) hb
  | false =>
    simp only [Bool.false_eq_true, if_false] at hbad ⊢
    -- the body is not bad from the real source state, hence (mirrored) not from the second run
    exfalso
    cases hbad with
    | ifSkip _ hb' => cases hb'
    | ifIter _ _ hb' => cases hb'
    | ifIn hne hb' =>
      obtain ⟨M0, σS, hrel, hg⟩ := v1
      obtain ⟨hcell, hctx⟩ := hsemc M0 σ1 σS hrel
      have hneS : σS.rd cS ≠ 0#w := by rw [← hcell, hcnd _ _ hA]; exact hne
      have hGcS : Gc σS := hGc M0 σ1 σS hrel hg 0 σS Head.zero (fun _ => rfl) hneS
      obtain ⟨hvX, hnbX, hXp, hXe, hXt, hXrd, _⟩ := hctx hneS hGcS
      obtain ⟨_, hbm, _⟩ := child_chain hc.foot hc.badfoot hc.frame2 hc.noShift hc.w0 hvX hXr hXp hXe hXt
        hXrd hA
      exact hnbX (hbm hb')

/-! ### `loopOrIf`, non-moving child: the write frame along the footprint -/

/-- The write frame of `loopOrIf` (non-moving child), given the simulation statement of `loopOrIf_stay_ok` (or of
`loopOrIf_stay_ok'`) as a hypothesis. -/
theorem loopOrIf_stay_footFrame_of_step {shP shC shS cS : Int} {bodyS : List (Instr w)} {oS : Bool}
    {s : Rebuild w} {ps : List (Rebuild w)} {sub : Rebuild w} {cond : Int} {isLoop : Bool} {L : OptLoop w}
    {C : List Int} {pc : List (Rebuild w)} {sub0 : Rebuild w} {os os' : Orders} {s' : Rebuild w}
    {G Gc : State w → Prop}
    (hr : (loopOrIf s ps sub cond isLoop L C).run os = .ok (s', os'))
    (hwf : Wf s) (hpre : ChildPre Gc shP shC pc sub0 sub cS bodyS)
    (hns : (sub.subShift || sub.shift != s.shift) = false)
    (hcond : cond = cS + shP)
    (hGc : ∀ M0 σE σS, RelAt shP s ps M0 σE σS → G σS → ∀ k σk, Head cS shS bodyS σS k σk →
      (isLoop = false → k = 0) → σk.rd cS ≠ 0#w → Gc σk)
    (hGcT : isLoop = true → ∀ σ, Gc σ)
    (halo : L.atLeastOnce = true → ∀ M0 σE σS, RelAt shP s ps M0 σE σS → G σS → σS.rd cS ≠ 0#w)
    (hne : L.noEffect = true → ∀ M0 σE σS, RelAt shP s ps M0 σE σS → G σS →
      σS.rd cS = 0#w ∨ ∀ x, ¬ Exec [blockInstr isLoop cS shS bodyS oS] σS (.fin x))
    (hstepEx : ∃ new, s'.insts = s.insts ++ new ∧
      StepNG G shP shP ps s s' [blockInstr isLoop cS shS bodyS oS] new) :
    ∃ new, s'.insts = s.insts ++ new ∧ FootFrameV (ValidG G shP s ps) s s' new := by
  have hifne : isLoop = false → L.noEffect = true → ∀ M0 σ1 σS, RelAt shP s ps M0 σ1 σS → G σS →
      σS.rd cS ≠ 0#w → ∀ new x, s'.insts = s.insts ++ new → ¬ Exec new σ1 (.fin x) := by
    intro _ hnev M0 σ1 σS hrel hg hneS new x hin hx
    obtain ⟨newS, eS, hst⟩ := hstepEx
    have : new = newS := List.append_cancel_left (hin.symm.trans eS)
    subst this
    rcases hne hnev M0 σ1 σS hrel hg with h | h
    · exact hneS h
    · exact nofin_of_step hst hrel hg h x hx
  obtain ⟨newF, eF, hfoot, _, _⟩ := loopOrIf_stay_foot hr hwf hpre hns hcond hGc hGcT hifne halo
  obtain ⟨newS, eS, _, hstep⟩ := hstepEx
  have hnew : newS = newF := List.append_cancel_left (eS.symm.trans eF)
  subst hnew
  subst hcond
  obtain ⟨sub1, os1, r, h1, h2, rfl⟩ := loopOrIf_run hr
  obtain ⟨hc, hwf1, hshift1⟩ := hpre.emit h1
  have hshEq : sub.shift = s.shift := by
    have := hns
    simp only [Bool.or_eq_false_iff, bne_eq_false_iff_eq] at this
    exact this.2
  have hns1 : (sub1.subShift || sub1.shift != s.shift) = false := by
    rw [hc.noShift, hshift1, hshEq]; simp
  obtain ⟨comps, hi, hhead, htgt, hrec, hcell⟩ :=
    loopOrIf_stay_setup (isLoop := isLoop)
      (sub1.subShift || sub1.shift != s.shift) hwf hwf1 hns1 h2
  have hnewEq : newS = comps.map Instr.calc ++ [if isLoop then Instr.loop (cS + shP) 0 sub1.insts L.atLeastOnce
      else Instr.ifnz (cS + shP) 0 sub1.insts] := List.append_cancel_left (eS.symm.trans hi)
  subst hnewEq
  obtain ⟨compsL, eL, hsemc⟩ := loopPrep_stay_semctx hc hwf hwf1 hns1 h2
  have hcL : compsL = comps := by
    apply calc_map_inj
    obtain ⟨_, _, _, _, _, _, t7⟩ := loopTail_fields r.1 r.2.1 (cS + shP) isLoop L
      (sub1.subShift || sub1.shift != s.shift) r.2.2
    have hi' := hi
    rw [t7, eL, List.append_assoc] at hi'
    exact List.append_inj_left' (List.append_cancel_left hi') rfl
  rw [hcL] at hsemc
  refine ⟨_, hi, ?_⟩
  intro hss K hK σ1 σ2 v1 hag bb hex
  have hA := hhead hss K hK σ1 σ2 hag
  have hexL := (exec_calcs_iff comps _ σ2 _).1 hex
  -- the groups
  have hexC : Exec (comps.map Instr.calc) σ2 (.fin (comps.foldl doCalc σ2)) := by
    have := (exec_calcs_iff comps [] σ2 (.fin (comps.foldl doCalc σ2))).2 (Exec.nil _)
    rw [List.append_nil] at this
    exact this
  obtain ⟨pc0, mc0⟩ := phys_frame hexC _ rfl (nsL_calcs comps)
  have hXr : ∀ v, HeadSet K r.1 sub1 (cS + shP) L C v → v ∉ sub1.reads := fun v h => h.1.1
  have hcnd : ∀ a b : State w, AgreeOff (HeadSet K r.1 sub1 (cS + shP) L C) a b →
      a.rd (cS + shP) = b.rd (cS + shP) := fun a b hab => hab.2.2.2 (cS + shP) (fun h => h.1.2 rfl)
  -- it suffices to treat the pushed instruction
  suffices hloop : bb.ptr = (comps.foldl doCalc σ2).ptr ∧
      ∀ v, v ∉ mKeys (loopTail r.1 r.2.1 (cS + shP) isLoop L
          (sub1.subShift || sub1.shift != s.shift) r.2.2).written →
        v ∉ (loopTail r.1 r.2.1 (cS + shP) isLoop L (sub1.subShift || sub1.shift != s.shift) r.2.2).reads →
        memE bb v = memE (comps.foldl doCalc σ2) v by
    refine ⟨hloop.1.trans pc0, fun v hv1 hv2 => ?_⟩
    rw [hloop.2 v hv1 hv2]
    apply mc0 v
    intro ht
    rcases htgt hss v ht with h | h
    · exact hv1 h
    · exact hv2 h
  cases hnev : L.noEffect with
  | true =>
    -- a run that reaches the end has not entered the loop
    obtain ⟨aa, hexA, _⟩ := (hfoot hss K hK σ1 σ2 v1 hag).finR bb hex
    obtain ⟨M0, σS, hrel, hg⟩ := v1
    obtain ⟨x, hx, _⟩ := (hstep M0 σ1 σS hrel hg).1.finR aa hexA
    have hzS : σS.rd cS = 0#w := by
      rcases hne hnev M0 σ1 σS hrel hg with h | h
      · exact h
      · exact absurd hx (h x)
    have hz1 : (comps.foldl doCalc σ1).rd (cS + shP) = 0#w := by rw [hcell M0 σ1 σS hrel]; exact hzS
    have hz2 : (comps.foldl doCalc σ2).rd (cS + shP) = 0#w := by rw [← hcnd _ _ hA]; exact hz1
    have hbb : bb = comps.foldl doCalc σ2 := by
      cases isLoop with
      | true =>
        simp only [if_true] at hexL
        exact exec_loop_zero hz2 hexL
      | false =>
        simp only [Bool.false_eq_true, if_false] at hexL
        exact exec_ifnz_zero hz2 hexL
    rw [hbb]
    exact ⟨rfl, fun _ _ _ => rfl⟩
  | false =>
    -- what the child writes is recorded by the parent
    have hP : ∀ v, v ∉ mKeys (loopTail r.1 r.2.1 (cS + shP) isLoop L
          (sub1.subShift || sub1.shift != s.shift) r.2.2).written →
        v ∉ (loopTail r.1 r.2.1 (cS + shP) isLoop L (sub1.subShift || sub1.shift != s.shift) r.2.2).reads →
        v ∉ mKeys sub1.written ∧ v ∉ sub1.reads := by
      intro v hv1 hv2
      refine ⟨fun h => ?_, fun h => ?_⟩
      · rcases hrec hss hnev v (Or.inl h) with h' | h'
        · exact hv1 h'
        · exact hv2 h'
      · rcases hrec hss hnev v (Or.inr h) with h' | h'
        · exact hv1 h'
        · exact hv2 h'
    have hframe : bb.ptr = (comps.foldl doCalc σ2).ptr ∧
        ∀ v, (v ∉ mKeys sub1.written ∧ v ∉ sub1.reads) → memE bb v = memE (comps.foldl doCalc σ2) v := by
      cases isLoop with
      | true =>
        simp only [if_true] at hexL
        refine loop_frame_aux (J := fun a b => AgreeOff (HeadSet K r.1 sub1 (cS + shP) L C) a b)
          ?_ ?_ hA hexL
        · intro a b hab hne'
          exact (hc.round (hGcT rfl) hXr hab (by rw [hcnd a b hab]; exact hne')).mono
            (fun _ _ h => h.mono (fun v hv => hv.1))
        · intro a b hab hne' b' hb'
          exact hc.round_frame (hGcT rfl) hXr hab (by rw [hcnd a b hab]; exact hne') b' hb'
      | false =>
        simp only [Bool.false_eq_true, if_false] at hexL
        refine ifnz_frame_aux ?_ hexL
        intro hne' b' hb'
        obtain ⟨M0, σS, hrel, hg⟩ := v1
        obtain ⟨hcell', hctx⟩ := hsemc M0 σ1 σS hrel
        have hneS : σS.rd cS ≠ 0#w := by rw [← hcell', hcnd _ _ hA]; exact hne'
        have hGcS : Gc σS := hGc M0 σ1 σS hrel hg 0 σS Head.zero (fun _ => rfl) hneS
        obtain ⟨hvX, _, hXp, hXe, hXt, hXrd, _⟩ := hctx hneS hGcS
        obtain ⟨_, _, hfr⟩ := child_chain hc.foot hc.badfoot hc.frame2 hc.noShift hc.w0 hvX hXr hXp hXe hXt
          hXrd hA
        obtain ⟨p, m⟩ := hfr b' hb'
        exact ⟨p, fun v hv => m v hv.1 hv.2⟩
    exact ⟨hframe.1, fun v hv1 hv2 => hframe.2 v (hP v hv1 hv2)⟩

theorem loopOrIf_stay_footFrame {shP shC shS cS : Int} {bodyS : List (Instr w)} {oS : Bool}
    {s : Rebuild w} {ps : List (Rebuild w)} {sub : Rebuild w} {cond : Int} {isLoop : Bool} {L : OptLoop w}
    {C : List Int} {pc : List (Rebuild w)} {sub0 : Rebuild w} {os os' : Orders} {s' : Rebuild w}
    {G Gc : State w → Prop}
    (hr : (loopOrIf s ps sub cond isLoop L C).run os = .ok (s', os'))
    (hwf : Wf s) (hpre : ChildPre Gc shP shC pc sub0 sub cS bodyS)
    (hns : (sub.subShift || sub.shift != s.shift) = false)
    (hcond : cond = cS + shP) (hsh : shC + shS = shP)
    (hGc : ∀ M0 σE σS, RelAt shP s ps M0 σE σS → G σS → ∀ k σk, Head cS shS bodyS σS k σk →
      (isLoop = false → k = 0) → σk.rd cS ≠ 0#w → Gc σk)
    (hGcT : isLoop = true → ∀ σ, Gc σ)
    (halo : L.atLeastOnce = true → ∀ M0 σE σS, RelAt shP s ps M0 σE σS → G σS → σS.rd cS ≠ 0#w)
    (hnc : L.noContinue = true → ∀ M0 σE σS, RelAt shP s ps M0 σE σS → G σS →
      ∀ x, ¬ Exec [blockInstr isLoop cS shS bodyS oS] σS (.fin x))
    (hne : L.noEffect = true → ∀ M0 σE σS, RelAt shP s ps M0 σE σS → G σS →
      σS.rd cS = 0#w ∨ ∀ x, ¬ Exec [blockInstr isLoop cS shS bodyS oS] σS (.fin x))
    (hconst : ∀ M0 σE σS, RelAt shP s ps M0 σE σS → G σS → ∀ k σk, Head cS shS bodyS σS k σk →
      ∀ x, C.contains x = true → memS σE σk x = memS σE σS x) :
    ∃ new, s'.insts = s.insts ++ new ∧ FootFrameV (ValidG G shP s ps) s s' new :=
  loopOrIf_stay_footFrame_of_step hr hwf hpre hns hcond hGc hGcT halo hne
    (loopOrIf_stay_ok (oS := oS) hr hwf hpre hns hcond hsh hGc halo hnc hne hconst).2.2

/-- The same with the weaker constancy hypothesis of `loopOrIf_stay_ok'`. -/
theorem loopOrIf_stay_footFrame' {shP shC shS cS : Int} {bodyS : List (Instr w)} {oS : Bool}
    {s : Rebuild w} {ps : List (Rebuild w)} {sub : Rebuild w} {cond : Int} {isLoop : Bool} {L : OptLoop w}
    {C : List Int} {pc : List (Rebuild w)} {sub0 : Rebuild w} {os os' : Orders} {s' : Rebuild w}
    {G Gc : State w → Prop}
    (hr : (loopOrIf s ps sub cond isLoop L C).run os = .ok (s', os'))
    (hwf : Wf s) (hpre : ChildPre Gc shP shC pc sub0 sub cS bodyS)
    (hns : (sub.subShift || sub.shift != s.shift) = false)
    (hcond : cond = cS + shP) (hsh : shC + shS = shP)
    (hGc : ∀ M0 σE σS, RelAt shP s ps M0 σE σS → G σS → ∀ k σk, Head cS shS bodyS σS k σk →
      (isLoop = false → k = 0) → σk.rd cS ≠ 0#w → Gc σk)
    (hGcT : isLoop = true → ∀ σ, Gc σ)
    (halo : L.atLeastOnce = true → ∀ M0 σE σS, RelAt shP s ps M0 σE σS → G σS → σS.rd cS ≠ 0#w)
    (hnc : L.noContinue = true → ∀ M0 σE σS, RelAt shP s ps M0 σE σS → G σS →
      ∀ x, ¬ Exec [blockInstr isLoop cS shS bodyS oS] σS (.fin x))
    (hne : L.noEffect = true → ∀ M0 σE σS, RelAt shP s ps M0 σE σS → G σS →
      σS.rd cS = 0#w ∨ ∀ x, ¬ Exec [blockInstr isLoop cS shS bodyS oS] σS (.fin x))
    (hconst : ∀ M0 σE σS, RelAt shP s ps M0 σE σS → G σS → ∀ k σk, Head cS shS bodyS σS k σk →
      (isLoop = false → k ≤ 1) → ∀ x, C.contains x = true → memS σE σk x = memS σE σS x) :
    ∃ new, s'.insts = s.insts ++ new ∧ FootFrameV (ValidG G shP s ps) s s' new :=
  loopOrIf_stay_footFrame_of_step hr hwf hpre hns hcond hGc hGcT halo hne
    (loopOrIf_stay_ok' (oS := oS) hr hwf hpre hns hcond hsh hGc halo hnc hne hconst).2.2

/-! ### `loopOrIf`, moving child: everything is void -/

theorem loopOrIf_shift_void {s : Rebuild w} {ps : List (Rebuild w)} {sub : Rebuild w} {cond : Int}
    {isLoop : Bool} {L : OptLoop w} {C : List Int} {os os' : Orders} {s' : Rebuild w}
    (hr : (loopOrIf s ps sub cond isLoop L C).run os = .ok (s', os'))
    (hwf : Wf s) (hwfc : Wf sub)
    (hshift : (sub.subShift || sub.shift != s.shift) = true) :
    ∀ (V : State w → Prop) (new : List (Instr w)),
      FootFrameV V s s' new ∧ FootBadV V s s' new ∧ KeysMono' s s' := by
  obtain ⟨h, _⟩ := loopOrIf_shift_foot hr hwf hwfc hshift
  intro V new
  refine ⟨fun h' => ?_, fun h' => ?_, fun h' => ?_⟩ <;> (rw [h] at h'; cases h')

end OptProof
end Hpbf

#print axioms Hpbf.OptProof.loopOrIf_stay_footFrame
#print axioms Hpbf.OptProof.loopOrIf_stay_footBad
#print axioms Hpbf.OptProof.rebuildInsts_straight_frameBad
