/-
C03 / C13 (the JIT's instruction selector is total on generator output), part 4: compilation succeeds.
`compile_total_of`: `compileX86` succeeds iff every `emitInstr` does and relocation finds every branch target
(which `TargetsOk` guarantees: `jccInstr` items only come from `brz`/`brnz`); `emitInstr_total`: a `JitForm`
instruction with encodable operands (`InstrFits`) and a live bitmap below `2^11` passes; hence
`compile_total_modulo_fits'` and, for `translate` output, `translate_compile_total`.
-/
import Hpbf.Proofs.C03TotalTranslate
import Hpbf.Proofs.C03TotalFits
import Hpbf.Proofs.C03FlowLayout
import Hpbf.Proofs.C03
set_option linter.unusedSimpArgs false
namespace Hpbf
namespace C03
open Asm JitGen
variable {w : Nat}

/-- Where the `jccInstr` items come from: only `brz`/`brnz`, with target `i + off`. -/
theorem emitInstrRaw_jccInstr {sz : Size} {limited safe : Bool} {minAcc maxAcc : Int} {aE aI aO i live : Nat}
    {ins : Bc.Instr w} {its : List Item}
    (h : emitInstrRaw sz limited safe minAcc maxAcc aE aI aO i live ins = some its)
    {pr : JmpPred} {t : Int} (hm : Item.jccInstr pr t ∈ its) :
    ∃ c off, (ins = .brz c off ∨ ins = .brnz c off) ∧ t = (i : Int) + off := by
  have np : ∀ xs : List X86, Item.jccInstr pr t ∉ plains xs := by intro xs; simp [plains]
  cases ins with
  | noop => simp [emitInstrRaw] at h; subst h; simp at hm
  | scan c s => simp [emitInstrRaw] at h
  | mov shift =>
    simp only [emitInstrRaw] at h
    cases safe with
    | false => simp at h; subst h; simp at hm
    | true =>
      simp only [if_true] at h
      cases hpre : preCall live with
      | none => simp [hpre] at h
      | some pre =>
        cases hpost : postCall live with
        | none => simp [hpre, hpost] at h
        | some post =>
          simp only [hpre, hpost, Option.bind_eq_bind, Option.bind_some, Option.some.injEq] at h
          subst h
          rcases List.mem_append.1 hm with hm | hm
          · exact absurd hm (np _)
          · simp at hm
  | inp dst =>
    simp only [emitInstrRaw] at h
    cases hpre : preCall live with
    | none => simp [hpre] at h
    | some pre =>
      cases hpost : postCall live with
      | none => simp [hpre, hpost] at h
      | some post =>
        simp only [hpre, hpost, Option.bind_eq_bind, Option.bind_some, Option.some.injEq] at h
        subst h
        rcases List.mem_append.1 hm with hm | hm
        · exact absurd hm (np _)
        · simp at hm
  | out src =>
    simp only [emitInstrRaw] at h
    cases hpre : preCall live with
    | none => simp [hpre] at h
    | some pre =>
      cases hpost : postCall live with
      | none => simp [hpre, hpost] at h
      | some post =>
        simp only [hpre, hpost, Option.bind_eq_bind, Option.bind_some, Option.some.injEq] at h
        subst h
        rcases List.mem_append.1 hm with hm | hm
        · exact absurd hm (np _)
        · simp at hm
  | brz c o =>
    simp only [emitInstrRaw, Option.some.injEq] at h; subst h
    rcases List.mem_append.1 hm with hm | hm
    · split at hm <;> simp [limitCheck] at hm
    · simp at hm; exact ⟨c, o, Or.inl rfl, hm.2⟩
  | brnz c o =>
    simp only [emitInstrRaw, Option.some.injEq] at h; subst h
    rcases List.mem_append.1 hm with hm | hm
    · split at hm <;> simp [limitCheck] at hm
    · simp at hm; exact ⟨c, o, Or.inr rfl, hm.2⟩
  | add d a b =>
    simp only [emitInstrRaw, Option.map_eq_some_iff] at h
    obtain ⟨xs, -, rfl⟩ := h; exact absurd hm (np _)
  | sub d a b =>
    simp only [emitInstrRaw, Option.map_eq_some_iff] at h
    obtain ⟨xs, -, rfl⟩ := h; exact absurd hm (np _)
  | mul d a b =>
    simp only [emitInstrRaw, Option.map_eq_some_iff] at h
    obtain ⟨xs, -, rfl⟩ := h; exact absurd hm (np _)
  | copy d s =>
    simp only [emitInstrRaw, Option.map_eq_some_iff] at h
    obtain ⟨xs, -, rfl⟩ := h; exact absurd hm (np _)

theorem resolveItems_isSome {locs : Array Nat} {term : Nat} : ∀ (its : List Item) (pos : Nat),
    (∀ it ∈ its, ∀ pos, (JitGen.resolve locs term pos it).isSome = true) →
    (resolveItems locs term pos its).isSome = true
  | [], _, _ => rfl
  | it :: rest, pos, h => by
    have h1 := h it List.mem_cons_self pos
    have h2 := resolveItems_isSome rest (pos + it.size) (fun x hx => h x (List.mem_cons_of_mem _ hx))
    simp only [resolveItems]
    cases hr : JitGen.resolve locs term pos it with
    | none => rw [hr] at h1; cases h1
    | some xs =>
      cases hrs : resolveItems locs term (pos + it.size) rest with
      | none => rw [hrs] at h2; cases h2
      | some ys => rfl

/-- The two per-instruction conditions of a successful compilation: the selector has an arm and its operands
pass the range test (`emitInstr`), and relocation finds every branch target. -/
theorem compile_total_of (p : Bc.Program w) (limited safe : Bool) (aE aI aO : Nat) {sz : Size}
    (hsz : Size.ofBits? w = some sz) (hsize : p.live.size = p.insts.size)
    (hemit : ∀ (i : Nat) (ins : Bc.Instr w) (lv : Nat), p.insts[i]? = some ins → p.live[i]? = some lv →
      (emitInstr sz limited safe p.minAcc p.maxAcc aE aI aO i lv ins).isSome = true)
    (hT : C02.TargetsOk p.insts) :
    ∃ code, compileX86 w p limited safe aE aI aO = some code := by
  -- emission
  have hbody : (emitProgram sz p limited safe aE aI aO).isSome = true := by
    unfold emitProgram
    apply mapM_opt_some
    rintro ⟨⟨ins, lv⟩, i⟩ hmem
    obtain ⟨k, hk⟩ := List.getElem?_of_mem hmem
    rw [List.getElem?_zipIdx] at hk
    cases hz : (p.insts.toList.zip p.live.toList)[k]? with
    | none => rw [hz] at hk; cases hk
    | some pr =>
      rw [hz] at hk
      simp only [Option.map_some, Option.some.injEq, Prod.mk.injEq, Nat.zero_add] at hk
      obtain ⟨rfl, rfl⟩ := hk
      have := List.getElem?_zip_eq_some.1 hz
      simp only at this
      exact hemit k ins lv (by simpa using this.1) (by simpa using this.2)
  cases hb : emitProgram sz p limited safe aE aI aO with
  | none => rw [hb] at hbody; cases hbody
  | some body =>
    have hlen : body.length = p.insts.size := emitProgram_length hb hsize
    -- relocation
    have hres : (resolveItems (locsOf p body) (termOf p body) (startOf p) body.flatten).isSome = true := by
      apply resolveItems_isSome
      intro it hit pos
      cases it with
      | plain x => rfl
      | jccTerm pr => rfl
      | skip8 pr b => rfl
      | jccInstr pr t =>
        obtain ⟨its, hits, hin⟩ := List.mem_flatten.1 hit
        obtain ⟨i, hi⟩ := List.getElem?_of_mem hits
        have hlt : i < p.insts.size := by
          rw [← hlen]; exact (List.getElem?_eq_some_iff.1 hi).1
        obtain ⟨its', hits', hemit'⟩ := emitProgram_getElem? hb (i := i) (ins := p.insts[i]) (lv := p.live[i]'(by omega))
          (Array.getElem?_eq_getElem hlt) (Array.getElem?_eq_getElem (by omega))
        rw [hi] at hits'; cases hits'
        obtain ⟨c, off, hins, rfl⟩ := emitInstrRaw_jccInstr (emitInstr_raw hemit').1 hin
        have hoff : BcGen.branchOff? (p.insts[i]) = some off := by rcases hins with h | h <;> rw [h] <;> rfl
        have := hT i _ off (Array.getElem?_eq_getElem hlt) hoff
        simp only [JitGen.resolve]
        rw [if_neg (by omega), locsOf_getElem?, if_pos (by rw [hlen]; omega)]
        rfl
    cases hr : resolveItems (locsOf p body) (termOf p body) (startOf p) body.flatten with
    | none => rw [hr] at hres; cases hres
    | some rcode =>
      exact ⟨_, compileX86_of ⟨sz, hsz, body, hb, rcode, hr, rfl⟩⟩

theorem fits_addr (a : Nat) (r : Reg) : (X86.movRImm64 r (BitVec.ofNat 64 a).toInt).fits = true := by
  simp only [X86.fits, fitsS, Bool.and_eq_true, decide_eq_true_eq]
  have h1 := BitVec.le_two_mul_toInt (x := BitVec.ofNat 64 a)
  have h2 := BitVec.two_mul_toInt_lt (x := BitVec.ofNat 64 a)
  constructor <;> omega

theorem preCall_fits {live : Nat} {pre : List X86} (h : preCall live = some pre) : pre.all X86.fits = true := by
  unfold preCall at h
  cases hs : savedRegs live with
  | none => simp [hs] at h
  | some rs =>
    simp only [hs, Option.bind_eq_bind, Option.bind_some, Option.some.injEq] at h; subst h
    rw [List.all_append]
    have : (rs.map X86.push).all X86.fits = true := by simp [List.all_map, X86.fits]
    rw [this]
    split <;> simp [X86.fits, RegMem.fits, fitsS]

theorem postCall_fits {live : Nat} {post : List X86} (h : postCall live = some post) : post.all X86.fits = true := by
  unfold postCall at h
  cases hs : savedRegs live with
  | none => simp [hs] at h
  | some rs =>
    simp only [hs, Option.bind_eq_bind, Option.bind_some, Option.some.injEq] at h; subst h
    rw [List.all_append]
    have : (rs.reverse.map X86.pop).all X86.fits = true := by simp [List.all_map, X86.fits]
    rw [this]
    split <;> simp [X86.fits, RegMem.fits, fitsS, addImm64, Size.immBits]

theorem plains_fits {xs : List X86} (h : xs.all X86.fits = true) : (plains xs).all Item.fits = true := by
  rw [plains_all_fits]; exact h

/-- The operand-range condition on one instruction (`safe`: with bounds-checked `mov`). -/
def InstrFits (sz : Size) (safe : Bool) (mn mx : Int) : Bc.Instr w → Prop
  | .copy d s => LocFits sz d ∧ LocFits sz s
  | .add d a b => LocFits sz d ∧ LocFits sz a ∧ LocFits sz b
  | .sub d a b => LocFits sz d ∧ LocFits sz a ∧ LocFits sz b
  | .mul d a b => LocFits sz d ∧ LocFits sz a ∧ LocFits sz b
  | .inp m => DispOk sz m
  | .out m => DispOk sz m
  | .brz m _ => DispOk sz m
  | .brnz m _ => DispOk sz m
  | .mov sh => DispOk sz sh ∧
      (safe = true → DispOk sz (if sh < 0 then mn else mx) ∧ DispOk sz (-(if sh < 0 then mn else mx)))
  | _ => True

theorem limitCheck_fits : (limitCheck).all Item.fits = true := by decide

theorem fits_storeReg (sz : Size) (idx : Int) (r : Reg) : (storeReg sz idx r).fits = (memParam sz idx).fits := rfl
theorem fits_load (sz : Size) (idx : Int) (r : Reg) : (load sz idx r).fits = (memParam sz idx).fits := rfl
theorem fits_cmpZero (sz : Size) (idx : Int) : (cmpZero sz idx).fits = (memParam sz idx).fits := by
  simp [cmpZero, X86.fits, fitsS]
theorem fits_st64_reg (d r : Reg) : (st64 (.reg d) r).fits = true := rfl
theorem fits_callReg (r : Reg) : (X86.callInd (.reg r)).fits = true := rfl

/-- The non-arithmetic instructions pass the operand-range test. -/
theorem emitInstrRaw_fits_flow {sz : Size} {limited safe : Bool} {mn mx : Int} {aE aI aO i live : Nat}
    {ins : Bc.Instr w} {its : List Item}
    (h : emitInstrRaw sz limited safe mn mx aE aI aO i live ins = some its)
    (hf : InstrFits sz safe mn mx ins)
    (hna : ∀ d a b, ins ≠ .add d a b ∧ ins ≠ .sub d a b ∧ ins ≠ .mul d a b) (hnc : ∀ d s, ins ≠ .copy d s) :
    its.all Item.fits = true := by
  cases ins with
  | noop => simp [emitInstrRaw] at h; subst h; rfl
  | scan c s => simp [emitInstrRaw] at h
  | add d a b => exact absurd rfl (hna d a b).1
  | sub d a b => exact absurd rfl (hna d a b).2.1
  | mul d a b => exact absurd rfl (hna d a b).2.2
  | copy d s => exact absurd rfl (hnc d s)
  | brz c o =>
    simp only [emitInstrRaw, Option.some.injEq] at h; subst h
    have hm := fits_memParam (show DispOk sz c from hf)
    cases limited <;> simp [limitCheck_fits, Item.fits, fits_cmpZero, hm]
  | brnz c o =>
    simp only [emitInstrRaw, Option.some.injEq] at h; subst h
    have hm := fits_memParam (show DispOk sz c from hf)
    cases limited <;> simp [limitCheck_fits, Item.fits, fits_cmpZero, hm]
  | inp dst =>
    simp only [emitInstrRaw] at h
    cases hpre : preCall live with
    | none => simp [hpre] at h
    | some pre =>
      cases hpost : postCall live with
      | none => simp [hpre, hpost] at h
      | some post =>
        simp only [hpre, hpost, Option.bind_eq_bind, Option.bind_some, Option.some.injEq] at h
        subst h
        have hm := fits_memParam (show DispOk sz dst from hf)
        have hc : (X86.cmpRmImm8 .b64 (.reg .rax) (-1)).fits = true := by decide
        rw [List.all_append, plains_all_fits]
        simp only [List.all_append, preCall_fits hpre, postCall_fits hpost, List.all_cons, List.all_nil, fits_addr,
          Item.fits, fits_st64_reg, fits_callReg, fits_storeReg, hm, hc, Bool.and_self]
  | out src =>
    simp only [emitInstrRaw] at h
    cases hpre : preCall live with
    | none => simp [hpre] at h
    | some pre =>
      cases hpost : postCall live with
      | none => simp [hpre, hpost] at h
      | some post =>
        simp only [hpre, hpost, Option.bind_eq_bind, Option.bind_some, Option.some.injEq] at h
        subst h
        have hm := fits_memParam (show DispOk sz src from hf)
        have hc : (X86.testRm8R8 (.reg .rax) .rax).fits = true := by decide
        rw [List.all_append, plains_all_fits]
        simp only [List.all_append, preCall_fits hpre, postCall_fits hpost, List.all_cons, List.all_nil, fits_addr,
          Item.fits, fits_st64_reg, fits_callReg, fits_load, hm, hc, Bool.and_self]
  | mov shift =>
    obtain ⟨hsh, hsafe⟩ := hf
    have hr := dispOk_range hsh
    have hadv : (addImm64 (.reg memr) ((sz.bytes : Int) * i32 shift)).fits = true := by
      rw [i32_eq hr.1 hr.2]
      simp only [addImm64, X86.fits, RegMem.fits, Size.immBits, Bool.true_and, fitsS32_iff]; exact hsh
    simp only [emitInstrRaw] at h
    cases safe with
    | false => simp at h; subst h; simp [Item.fits, hadv]
    | true =>
      obtain ⟨hp1, hp2⟩ := hsafe rfl
      have r1 := dispOk_range hp1
      have r2 := dispOk_range hp2
      simp only [if_true] at h
      cases hpre : preCall live with
      | none => simp [hpre] at h
      | some pre =>
        cases hpost : postCall live with
        | none => simp [hpre, hpost] at h
        | some post =>
          simp only [hpre, hpost, Option.bind_eq_bind, Option.bind_some, Option.some.injEq] at h
          subst h
          have hb : sz.bytes < 256 := by cases sz <;> decide
          have hlea : (X86.lea scr0 (.mem (some memr) none 1 ((sz.bytes : Int) * i32 (if shift < 0 then mn else mx)))).fits
              = true := by
            rw [i32_eq r1.1 r1.2]
            simp only [X86.fits, RegMem.fits, Bool.and_eq_true, decide_eq_true_eq, fitsS32_iff]
            exact ⟨by decide, hp1⟩
          have hsub : (sub64 scr0 (.mem (some cxt) none 1 0)).fits = true := by decide
          have hsar : ((if sz != .b8 then [X86.sarRmImm8 (.reg scr0) (Nat.log2 sz.bytes)] else []) : List X86).all
              X86.fits = true := by cases sz <;> decide
          have hcmp : (X86.cmpRRm scr0 (.mem (some cxt) none 1 8)).fits = true := by decide
          have hst : (st64 (.mem (some cxt) none 1 16) scr0).fits = true := by decide
          have hm0 : (X86.movRImm64 .rsi 0).fits = true := by decide
          have hm1 : (X86.movRImm64 .rdx 1).fits = true := by decide
          have hl1 : (mov64 memr (.mem (some cxt) none 1 0)).fits = true := by decide
          have hl2 : (mov64 scr0 (.mem (some cxt) none 1 16)).fits = true := by decide
          have hlea2 : (X86.lea memr (.mem (some memr) (some scr0) sz.bytes
              ((sz.bytes : Int) * i32 (-(if shift < 0 then mn else mx))))).fits = true := by
            rw [i32_eq r2.1 r2.2]
            simp only [X86.fits, RegMem.fits, Bool.and_eq_true, decide_eq_true_eq, fitsS32_iff]
            exact ⟨hb, hp2⟩
          rw [List.all_append, plains_all_fits]
          simp only [List.all_append, List.all_cons, List.all_nil, Item.fits, hadv, preCall_fits hpre,
            postCall_fits hpost, fits_addr, hlea, hsub, hsar, hcmp, hst, hm0, hm1, hl1, hl2, hlea2,
            fits_st64_reg, fits_callReg, Bool.and_self]


/-- `emit_program`'s loop body succeeds on a `JitForm` instruction with a live bitmap below `2^11` whose operands
are encodable. -/
theorem emitInstr_total {sz : Size} {limited safe : Bool} {mn mx : Int} {aE aI aO i live : Nat}
    {ins : Bc.Instr w} (hform : JitForm ins = true) (hlive : live < 2 ^ 11)
    (hfit : InstrFits sz safe mn mx ins) :
    (emitInstr sz limited safe mn mx aE aI aO i live ins).isSome = true := by
  have hne := selector_total' hform hlive sz limited safe mn mx aE aI aO i
  cases hraw : emitInstrRaw sz limited safe mn mx aE aI aO i live ins with
  | none => exact absurd hraw hne
  | some its =>
    have hall : its.all Item.fits = true := by
      cases ins with
      | add d a b =>
        simp only [emitInstrRaw, Option.map_eq_some_iff] at hraw
        obtain ⟨xs, hxs, rfl⟩ := hraw
        rw [plains_all_fits]; exact emitAdd_fits sz live hxs hfit.1 hfit.2.1 hfit.2.2
      | sub d a b =>
        simp only [emitInstrRaw, Option.map_eq_some_iff] at hraw
        obtain ⟨xs, hxs, rfl⟩ := hraw
        rw [plains_all_fits]; exact emitSub_fits sz live hxs hfit.1 hfit.2.1 hfit.2.2
      | mul d a b =>
        simp only [emitInstrRaw, Option.map_eq_some_iff] at hraw
        obtain ⟨xs, hxs, rfl⟩ := hraw
        rw [plains_all_fits]; exact emitMul_fits sz live hxs hfit.1 hfit.2.1 hfit.2.2
      | copy d s =>
        simp only [emitInstrRaw, Option.map_eq_some_iff] at hraw
        obtain ⟨xs, hxs, rfl⟩ := hraw
        rw [plains_all_fits]; exact emitCopy_fits sz hxs hfit.1 hfit.2
      | noop => exact emitInstrRaw_fits_flow hraw hfit (by intro d a b; simp) (by intro d s; simp)
      | scan c s => exact emitInstrRaw_fits_flow hraw hfit (by intro d a b; simp) (by intro d s; simp)
      | mov s => exact emitInstrRaw_fits_flow hraw hfit (by intro d a b; simp) (by intro d s; simp)
      | inp s => exact emitInstrRaw_fits_flow hraw hfit (by intro d a b; simp) (by intro d s; simp)
      | out s => exact emitInstrRaw_fits_flow hraw hfit (by intro d a b; simp) (by intro d s; simp)
      | brz c s => exact emitInstrRaw_fits_flow hraw hfit (by intro d a b; simp) (by intro d s; simp)
      | brnz c s => exact emitInstrRaw_fits_flow hraw hfit (by intro d a b; simp) (by intro d s; simp)
    simp [emitInstr, hraw, hall]

/-- **Compilation is total modulo the operand-range test**: a program all of whose instructions are `JitForm`s
with encodable operands, whose live bitmaps are below `2^11` and whose branches stay inside the program, is
compiled (for the four supported widths). -/
theorem compile_total_modulo_fits' (p : Bc.Program w) (limited safe : Bool) (aE aI aO : Nat) {sz : Size}
    (hsz : Size.ofBits? w = some sz) (hsize : p.live.size = p.insts.size)
    (hform : ∀ (i : Nat) (ins : Bc.Instr w), p.insts[i]? = some ins → JitForm ins = true)
    (hlive : ∀ (j l : Nat), p.live[j]? = some l → l < 2 ^ 11)
    (hT : C02.TargetsOk p.insts)
    (hfit : ∀ (i : Nat) (ins : Bc.Instr w), p.insts[i]? = some ins → InstrFits sz safe p.minAcc p.maxAcc ins) :
    ∃ code, compileX86 w p limited safe aE aI aO = some code :=
  compile_total_of p limited safe aE aI aO hsz hsize
    (fun i ins lv hi hl => emitInstr_total (hform i ins hi) (hlive i lv hl) (hfit i ins hi)) hT

/-- Operands inside a window whose ends are encodable are encodable. -/
theorem dispOk_between {sz : Size} {lo hi o : Int} (hlo : DispOk sz lo) (hhi : DispOk sz hi)
    (h : lo ≤ o ∧ o ≤ hi) : DispOk sz o := by
  unfold DispOk at *
  cases sz <;> simp only [Size.bytes] at * <;> omega

/-- The arithmetic condition on a program that implies `InstrFits` for each of its instructions: the access
window `[minAcc, maxAcc]` contains every tape operand and its ends have `i32` displacements (`bytes * offset`);
temporaries are below `temps` and `8 * temps` is an `i32`; pointer moves have `i32` displacements; and, for
bounds-checked code, `-minAcc` and `-maxAcc` have too. -/
theorem instrFits_of_bounds {sz : Size} {safe : Bool} (p : Bc.Program w) {ins : Bc.Instr w}
    (hlo : DispOk sz p.minAcc) (hhi : DispOk sz p.maxAcc)
    (hwin : ∀ o ∈ BcWf.memOps ins, p.minAcc ≤ o ∧ o ≤ p.maxAcc)
    (htmp : ∀ t ∈ BcWf.uses ins ++ BcWf.defs ins, t < p.temps) (htemps : 8 * p.temps < 2147483648)
    (hmov : ∀ sh, ins = .mov sh → DispOk sz sh)
    (hneg : safe = true → DispOk sz (-p.minAcc) ∧ DispOk sz (-p.maxAcc)) :
    InstrFits sz safe p.minAcc p.maxAcc ins := by
  have loc : ∀ l : Bc.Loc w, (∀ o ∈ BcWf.locMem l, o ∈ BcWf.memOps ins) →
      (∀ t ∈ BcWf.locTmp l, t ∈ BcWf.uses ins ++ BcWf.defs ins) → LocFits sz l := by
    intro l h1 h2
    cases l with
    | mem o => exact dispOk_between hlo hhi (hwin o (h1 o (by simp [BcWf.locMem])))
    | memZero o => trivial
    | tmp t =>
      have := htmp t (h2 t (by simp [BcWf.locTmp]))
      show 8 * t < 2147483648
      omega
    | imm c => trivial
  cases ins with
  | noop => trivial
  | scan c s => trivial
  | mov sh =>
    refine ⟨hmov sh rfl, fun hs => ?_⟩
    obtain ⟨h1, h2⟩ := hneg hs
    split
    · exact ⟨hlo, h1⟩
    · exact ⟨hhi, h2⟩
  | inp m => exact dispOk_between hlo hhi (hwin m (by simp [BcWf.memOps]))
  | out m => exact dispOk_between hlo hhi (hwin m (by simp [BcWf.memOps]))
  | brz m o => exact dispOk_between hlo hhi (hwin m (by simp [BcWf.memOps]))
  | brnz m o => exact dispOk_between hlo hhi (hwin m (by simp [BcWf.memOps]))
  | add d a b =>
    exact ⟨loc d (by intro x hx; simp [BcWf.memOps, hx]) (by intro x hx; simp [BcWf.uses, BcWf.defs, hx]),
      loc a (by intro x hx; simp [BcWf.memOps, hx]) (by intro x hx; simp [BcWf.uses, BcWf.defs, hx]),
      loc b (by intro x hx; simp [BcWf.memOps, hx]) (by intro x hx; simp [BcWf.uses, BcWf.defs, hx])⟩
  | sub d a b =>
    exact ⟨loc d (by intro x hx; simp [BcWf.memOps, hx]) (by intro x hx; simp [BcWf.uses, BcWf.defs, hx]),
      loc a (by intro x hx; simp [BcWf.memOps, hx]) (by intro x hx; simp [BcWf.uses, BcWf.defs, hx]),
      loc b (by intro x hx; simp [BcWf.memOps, hx]) (by intro x hx; simp [BcWf.uses, BcWf.defs, hx])⟩
  | mul d a b =>
    exact ⟨loc d (by intro x hx; simp [BcWf.memOps, hx]) (by intro x hx; simp [BcWf.uses, BcWf.defs, hx]),
      loc a (by intro x hx; simp [BcWf.memOps, hx]) (by intro x hx; simp [BcWf.uses, BcWf.defs, hx]),
      loc b (by intro x hx; simp [BcWf.memOps, hx]) (by intro x hx; simp [BcWf.uses, BcWf.defs, hx])⟩
  | copy d s =>
    exact ⟨loc d (by intro x hx; simp [BcWf.memOps, hx]) (by intro x hx; simp [BcWf.uses, BcWf.defs, hx]),
      loc s (by intro x hx; simp [BcWf.memOps, hx]) (by intro x hx; simp [BcWf.uses, BcWf.defs, hx])⟩

/-- For the output of `translate` in the JIT's setting (`numRegs = 11`, no fusion): forms, live bitmaps,
branch targets and the `live` size are theorems; what remains is the operand-range condition. -/
theorem translate_compile_total {blk : Ir.Block w} {p : Bc.Program w}
    (h : BcGen.translateE blk 11 false = .ok p) (limited safe : Bool) (aE aI aO : Nat) {sz : Size}
    (hsz : Size.ofBits? w = some sz)
    (hfit : ∀ (i : Nat) (ins : Bc.Instr w), p.insts[i]? = some ins → InstrFits sz safe p.minAcc p.maxAcc ins) :
    ∃ code, compileX86 w p limited safe aE aI aO = some code := by
  obtain ⟨hform, hlive, hT⟩ := translate_jitForm' h
  exact compile_total_modulo_fits' p limited safe aE aI aO hsz (Chain.translate_shape h).1 hform
    (fun j l hj => by have := hlive j l hj; simpa [liveBound] using this) hT hfit

end C03
end Hpbf
