/-
Rebuild-round proofs: the pending expressions of a state never mention a cell about which the state could get a
constant from its parent (`PVClean`).  Part 1: what `getParentConstant` depends on, the step relation `QStep`,
the emitting primitives, `performAll`, the non-loop arms of `rebuildInstr`.
-/
import Hpbf.Proofs.OptRbShape3

namespace Hpbf
namespace OptProof
open Opt OptSem Ir

variable {w : Nat}

/-! ### what the questions to the parent depend on -/

/-- The part of the state's analysis node that `canAskParentFor` looks at:
`(atMostOnce, hasShift, clobbered)`. -/
def acore (s : Rebuild w) : Option (Bool × Bool × List Int) :=
  s.anal.map (fun a => (a.loopAnal.atMostOnce, a.hasShift, a.clobbered))

theorem canAskParentFor_eq (s : Rebuild w) (var : Int) :
    canAskParentFor s var =
      (!s.subShift && (match acore s with
        | some c => c.1 || (!c.2.2.contains (var - s.shift) && !c.2.1)
        | none => false)) := by
  unfold canAskParentFor acore
  cases s.anal <;> rfl

/-- `canAskParentFor` does not depend on `shift`: no analysis, or `atMostOnce`, or `hasShift`. -/
def ShiftIndep (s : Rebuild w) : Prop :=
  match acore s with
  | none => True
  | some c => c.1 = true ∨ c.2.1 = true

theorem ShiftIndep.of_core {s s' : Rebuild w} (h : ShiftIndep s) (hc : acore s' = acore s) : ShiftIndep s' := by
  unfold ShiftIndep at *; rw [hc]; exact h

theorem canAskParentFor_congr' {s s' : Rebuild w} (hcore : acore s' = acore s)
    (hsub : s'.subShift = s.subShift) (hsh : s'.shift = s.shift ∨ ShiftIndep s) (x : Int) :
    canAskParentFor s' x = canAskParentFor s x := by
  rw [canAskParentFor_eq, canAskParentFor_eq, hcore, hsub]
  rcases hsh with h | h
  · rw [h]
  · unfold ShiftIndep at h
    cases hc : acore s with
    | none => rfl
    | some c =>
      rw [hc] at h
      rcases h with h | h
      · simp [h]
      · simp [h]

theorem getParentConstant_congr' {s s' : Rebuild w} (hcore : acore s' = acore s)
    (hsub : s'.subShift = s.subShift) (hpar : s'.parent = s.parent)
    (hsh : s'.shift = s.shift ∨ ShiftIndep s) (ps : List (Rebuild w)) (x : Int) :
    getParentConstant s' ps x = getParentConstant s ps x := by
  unfold getParentConstant
  rw [canAskParentFor_congr' hcore hsub hsh, hpar]

theorem getParentConstant_subShift {s : Rebuild w} (h : s.subShift = true) (ps : List (Rebuild w))
    (x : Int) : getParentConstant s ps x = none := by
  unfold getParentConstant canAskParentFor
  simp [h]

theorem acore_of_anal {s s' : Rebuild w} (h : s'.anal = s.anal) : acore s' = acore s := by
  unfold acore; rw [h]

/-! ### the invariant -/

/-- The pending expressions never mention a cell about which the state could get a constant from its parent. -/
def PVClean (s : Rebuild w) (ps : List (Rebuild w)) : Prop :=
  ∀ v p, mGet s.pending v = some p → ∀ x ∈ Expr.variables p, mGet s.written x = none →
    getParentConstant s ps x = none

/-- The property of a variable that `PVClean` asks for. -/
def AskFree (s : Rebuild w) (ps : List (Rebuild w)) (x : Int) : Prop :=
  mGet s.written x = none → getParentConstant s ps x = none

theorem pvClean_iff (s : Rebuild w) (ps : List (Rebuild w)) :
    PVClean s ps ↔ ∀ v p, mGet s.pending v = some p → OptLoop.VarsIn (AskFree s ps) p := by
  unfold PVClean
  constructor
  · intro h v p hp
    exact (OptLoop.varsIn_iff (S := AskFree s ps)).2 (fun x hx => h v p hp x hx)
  · intro h v p hp x hx
    exact (OptLoop.varsIn_iff (S := AskFree s ps)).1 (h v p hp) x hx

theorem pvClean_of_pending_nil {s : Rebuild w} (h : s.pending = []) (ps : List (Rebuild w)) :
    PVClean s ps := by
  intro v p hp
  rw [h] at hp
  cases hp

/-- Pending shrinks, the keys of `written` grow (while `subShift = false`), the answers of the parent stay or
disappear. -/
theorem pv_of_shrink {s s' : Rebuild w} {ps : List (Rebuild w)}
    (hpend : ∀ k e, mGet s'.pending k = some e → mGet s.pending k = some e)
    (hkeys : s'.subShift = false → ∀ v, mGet s.written v ≠ none → mGet s'.written v ≠ none)
    (hask : ∀ x, getParentConstant s' ps x = none ∨ getParentConstant s' ps x = getParentConstant s ps x)
    (h : PVClean s ps) : PVClean s' ps := by
  intro v p hp x hx hwn
  rcases hask x with h1 | h1
  · exact h1
  · rw [h1]
    cases hss : s'.subShift with
    | true => rw [← h1]; exact getParentConstant_subShift hss ps x
    | false =>
      apply h v p (hpend v p hp) x hx
      cases hw : mGet s.written x with
      | none => rfl
      | some k => exact absurd hwn (hkeys hss x (by rw [hw]; simp))

theorem pv_congr {s s' : Rebuild w} {ps : List (Rebuild w)} (hpend : s'.pending = s.pending)
    (hw : s'.written = s.written) (hask : ∀ x, getParentConstant s' ps x = getParentConstant s ps x)
    (h : PVClean s ps) : PVClean s' ps := by
  intro v p hp x hx hwn
  rw [hpend] at hp
  rw [hw] at hwn
  rw [hask]
  exact h v p hp x hx hwn

/-- `PVClean` does not depend on `shift` for a state whose questions do not. -/
theorem pvClean_setShift {s : Rebuild w} {ps : List (Rebuild w)} (hi : ShiftIndep s) (sh : Int)
    (h : PVClean s ps) : PVClean ({ s with shift := sh } : Rebuild w) ps :=
  pv_congr (s := s) (s' := { s with shift := sh }) rfl rfl
    (fun x => getParentConstant_congr' (s := s) (s' := { s with shift := sh }) rfl rfl rfl (Or.inr hi) ps x) h

/-! ### the step relation for steps that emit no nested block -/

/-- A step of the state with parent chain `ps` that keeps what `canAskParentFor` looks at. -/
structure QStep (ps : List (Rebuild w)) (s s' : Rebuild w) : Prop where
  wf : Wf s'
  core : acore s' = acore s
  shift : s'.shift = s.shift
  pv : PVClean s ps → PVClean s' ps

theorem QStep.refl {ps : List (Rebuild w)} {s : Rebuild w} (h : Wf s) : QStep ps s s :=
  ⟨h, rfl, rfl, fun h => h⟩

theorem QStep.trans {ps : List (Rebuild w)} {a b c : Rebuild w} (h1 : QStep ps a b) (h2 : QStep ps b c) :
    QStep ps a c :=
  ⟨h2.wf, h2.core.trans h1.core, h2.shift.trans h1.shift, fun h => h2.pv (h1.pv h)⟩

/-- Same header, pending shrinks, keys of `written` grow. -/
theorem QStep.of_hdr {ps : List (Rebuild w)} {s s' : Rebuild w} (hwf : Wf s') (hh : SameHdr s s')
    (hpend : ∀ k e, mGet s'.pending k = some e → mGet s.pending k = some e)
    (hkeys : s'.subShift = false → ∀ v, mGet s.written v ≠ none → mGet s'.written v ≠ none) :
    QStep ps s s' :=
  ⟨hwf, acore_of_anal hh.2.1, hh.2.2.1,
   pv_of_shrink hpend hkeys (fun x => Or.inr (getParentConstant_congr hh ps x))⟩

/-- Same header, `pending` and `written` unchanged. -/
theorem QStep.of_fields {ps : List (Rebuild w)} {s s' : Rebuild w} (hwf : Wf s') (hh : SameHdr s s')
    (hp : s'.pending = s.pending) (hw : s'.written = s.written) : QStep ps s s' :=
  QStep.of_hdr hwf hh (fun k e h => by rw [hp] at h; exact h) (fun _ v hv => by rw [hw]; exact hv)

theorem QStep.then_fields {ps : List (Rebuild w)} {s s1 s2 : Rebuild w} (h : QStep ps s s1) (hwf : Wf s2)
    (hh : SameHdr s1 s2) (hp : s2.pending = s1.pending) (hw : s2.written = s1.written) : QStep ps s s2 :=
  h.trans (QStep.of_fields hwf hh hp hw)

theorem QStep.push {ps : List (Rebuild w)} {s s1 : Rebuild w} (h : QStep ps s s1) (l : List (Instr w)) :
    QStep ps s ({ s1 with insts := s1.insts ++ l } : Rebuild w) :=
  h.then_fields (h.wf.pushInsts l) ⟨rfl, rfl, rfl, rfl, rfl⟩ rfl rfl

theorem QStep.read {ps : List (Rebuild w)} {s s1 : Rebuild w} (h : QStep ps s s1) (var : Int) :
    QStep ps s (Opt.read s1 var) := by
  have hs := read_same s1 var
  exact h.then_fields (hs.wf h.wf) hs.hdr hs.2.2.2.2.2.2.2.1 hs.2.2.2.2.2.2.1

theorem QStep.removePending {ps : List (Rebuild w)} {s s1 : Rebuild w} (h : QStep ps s s1) (var : Int) :
    QStep ps s (removePending s1 var).1 := by
  have hs := removePending_same s1 var
  refine h.trans (QStep.of_hdr (removePending_wf h.wf var) hs.hdr ?_ ?_)
  · intro k e hk
    rw [removePending_get h.wf] at hk
    split at hk
    · cases hk
    · exact hk
  · intro _ v hv
    rw [hs.2.2.2.2.2.2.2.1]; exact hv

theorem QStep.insertWritten {ps : List (Rebuild w)} {s s1 : Rebuild w} (h : QStep ps s s1) (var : Int)
    (val : OptWrite w) : QStep ps s (insertWritten s1 var val) := by
  have hs := insertWritten_same s1 var val
  refine h.trans (QStep.of_hdr (insertWritten_wf h.wf var val) hs.hdr ?_ ?_)
  · intro k e hk
    rw [hs.2.2.2.2.2.2.2.1] at hk; exact hk
  · intro _ v hv
    rw [insertWritten_written, mGet_mSet]
    split
    · simp
    · exact hv

theorem QStep.writtenCalcs {ps : List (Rebuild w)} {s s1 : Rebuild w} (h : QStep ps s s1)
    (ps' : List (Rebuild w)) (calcs : List (Int × Expr w)) : QStep ps s (writtenCalcs s1 ps' calcs) := by
  obtain ⟨hs, _, hwr⟩ := writtenCalcs_eq s1 ps' calcs
  refine h.trans (QStep.of_hdr (writtenCalcs_wf h.wf ps' calcs) hs.hdr ?_ ?_)
  · intro k e hk
    rw [hs.2.2.2.2.2.2.2.1] at hk; exact hk
  · intro _ v hv
    rw [hwr]; exact mGet_foldl_mSet_ne_none _ _ _ hv

theorem QStep.uncertainShift {ps : List (Rebuild w)} {s s1 : Rebuild w} (h : QStep ps s s1) :
    QStep ps s (Opt.uncertainShift s1) :=
  h.trans ⟨uncertainShift_wf h.wf, rfl, rfl, fun _ _ _ _ x _ _ =>
    getParentConstant_subShift (s := Opt.uncertainShift s1) rfl ps x⟩

theorem foldl_remove_q {α β : Type} {ps : List (Rebuild w)} (f : Rebuild w × β → α → Rebuild w × β)
    (hf : ∀ acc x, (f acc x).1 = acc.1 ∨ ∃ k, (f acc x).1 = (removePending acc.1 k).1)
    {s : Rebuild w} (l : List α) (acc : Rebuild w × β) (h : QStep ps s acc.1) :
    QStep ps s (l.foldl f acc).1 := by
  induction l generalizing acc with
  | nil => exact h
  | cons x l ih =>
    simp only [List.foldl_cons]
    apply ih
    rcases hf acc x with e | ⟨k, e⟩
    · rw [e]; exact h
    · rw [e]; exact h.removePending k

theorem foldlM_q {γ : Type} {ps : List (Rebuild w)} (f : Rebuild w → γ → M (Rebuild w)) (l : List γ)
    (hstep : ∀ s x os s' os', x ∈ l → Wf s → (f s x).run os = .ok (s', os') → QStep ps s s')
    {s : Rebuild w} {os : Orders} {s' : Rebuild w} {os' : Orders} (hwf : Wf s)
    (hr : (l.foldlM f s).run os = .ok (s', os')) : QStep ps s s' := by
  induction l generalizing s os with
  | nil =>
    rw [List.foldlM_nil, run_pure] at hr
    cases hr; exact QStep.refl hwf
  | cons x l ih =>
    rw [List.foldlM_cons, run_bind_ok] at hr
    obtain ⟨s1, os1, h1, h2⟩ := hr
    have r1 := hstep s x os s1 os1 (by simp) hwf h1
    exact r1.trans (ih (fun s x os s' os' hx => hstep s x os s' os' (List.mem_cons_of_mem _ hx)) r1.wf h2)

/-! ### the emitting primitives -/

theorem EmitRes.qstep {ps : List (Rebuild w)} {s s' : Rebuild w} {comps : List (List (Int × Expr w))}
    (h : EmitRes ps s s' comps) (hk : WK s s') : QStep ps s s' :=
  QStep.of_hdr h.wf h.hdr h.sub hk.k.keys

theorem emit_q {s : Rebuild w} (ps : List (Rebuild w)) (var : Int) {os os' : Orders} {s' : Rebuild w}
    (hr : (emit s ps var).run os = .ok (s', os')) (hwf : Wf s) : QStep ps s s' := by
  obtain ⟨comps, r, _⟩ := emit_res ps hwf var hr
  exact r.qstep (emit_wk ps var hr hwf)

theorem emitAll_q (ps : List (Rebuild w)) (vars : List Int) {s : Rebuild w}
    {os os' : Orders} {s' : Rebuild w}
    (hr : (emitAll ps vars s).run os = .ok (s', os')) (hwf : Wf s) : QStep ps s s' := by
  obtain ⟨comps, r⟩ := emitAll_res ps vars hwf hr
  exact r.qstep (emitAll_wk ps vars hr hwf)

theorem emitReadAll_q (ps : List (Rebuild w)) (vars : List Int) {s : Rebuild w}
    {os os' : Orders} {s' : Rebuild w}
    (hr : (emitReadAll ps vars s).run os = .ok (s', os')) (hwf : Wf s) : QStep ps s s' := by
  unfold emitReadAll at hr
  refine foldlM_q _ vars ?_ hwf hr
  intro s var os s' os' _ hwf' h
  rw [run_bind_ok] at h
  obtain ⟨s1, os1, h1, h2⟩ := h
  rw [run_pure] at h2
  cases h2
  exact (emit_q ps var h1 hwf').read var

theorem clobber_q {s : Rebuild w} (ps : List (Rebuild w)) (var : Int) (maybe : Bool)
    {os os' : Orders} {s' : Rebuild w} (hr : (clobber s ps var maybe).run os = .ok (s', os'))
    (hwf : Wf s) : QStep ps s s' := by
  obtain ⟨comps, c1, _, _, c4, _, _, c7, _⟩ := clobber_spec ps hwf var maybe hr
  exact QStep.of_hdr c1 c4 c7 (clobber_wk ps var maybe hr hwf).k.keys

theorem clobberAll_q (ps : List (Rebuild w)) (vars : List (Int × Bool)) {s : Rebuild w}
    {os os' : Orders} {s' : Rebuild w}
    (hr : (clobberAll ps vars s).run os = .ok (s', os')) (hwf : Wf s) : QStep ps s s' := by
  unfold clobberAll at hr
  refine foldlM_q _ vars ?_ hwf hr
  intro s vm os s' os' _ hwf' h
  exact clobber_q ps vm.1 vm.2 h hwf'

/-! ### `performAll` -/

theorem askFree_getPending {s : Rebuild w} {ps : List (Rebuild w)} (h : PVClean s ps) (y : Int) :
    OptLoop.VarsIn (AskFree s ps) (getPending s ps y) := by
  unfold getPending
  split
  · rename_i p hp
    exact (pvClean_iff s ps).1 h y p hp
  · split
    · intro p hp x hx
      unfold Expr.val at hp
      split at hp
      · cases hp
      · simp only [List.mem_singleton] at hp
        subst hp; cases hx
    · rename_i hnone
      intro p hp x hx
      simp only [Expr.var, List.mem_singleton] at hp
      subst hp
      simp only [List.mem_singleton] at hx
      subst hx
      intro hw
      unfold getWrittenConstant at hnone
      rw [hw] at hnone
      exact hnone

/-- What `evalPending` returns only mentions cells about which the parent cannot be asked. -/
theorem evalPending_askFree {s : Rebuild w} {ps : List (Rebuild w)} (h : PVClean s ps) {sh : Int}
    {e e' : Expr w} (he : evalPending s ps sh e = .ok e') : OptLoop.VarsIn (AskFree s ps) e' := by
  unfold evalPending at he
  split at he
  · split at he
    · rename_i e0 hs
      cases he
      refine OptLoop.symbEvaluate_varsIn (S := AskFree s ps) _ e e' ?_ hs
      intro v _ e1 hv
      simp only [Option.some.injEq] at hv
      subst hv
      exact askFree_getPending h _
    · cases he
  · rename_i hany
    have hall : ∀ x ∈ Expr.variables e, AskFree s ps (x + sh) := by
      intro x hx hw
      have hf : (mHas s.pending (x + sh) || (getWrittenConstant s ps (x + sh)).isSome) = false := by
        cases hb : (mHas s.pending (x + sh) || (getWrittenConstant s ps (x + sh)).isSome) with
        | false => rfl
        | true => exact absurd (List.any_eq_true.2 ⟨x, hx, hb⟩) hany
      simp only [Bool.or_eq_false_iff] at hf
      have hg : getWrittenConstant s ps (x + sh) = none := by
        cases hc : getWrittenConstant s ps (x + sh) with
        | none => rfl
        | some c => rw [hc] at hf; simp at hf
      unfold getWrittenConstant at hg
      rw [hw] at hg
      exact hg
    split at he
    · cases he
      apply (OptLoop.varsIn_iff (S := AskFree s ps)).2
      intro y hy
      rw [OptLoop.shiftVars_variables] at hy
      obtain ⟨x, hx, rfl⟩ := List.mem_map.1 hy
      exact hall x hx
    · rename_i hz
      cases he
      have hz' : sh = 0 := by simpa using hz
      subst hz'
      apply (OptLoop.varsIn_iff (S := AskFree s ps)).2
      intro x hx
      have := hall x hx
      simpa using this

theorem insertPending_pv {s : Rebuild w} (hwf : Wf s) {ps : List (Rebuild w)} (h : PVClean s ps)
    (var : Int) {expr : Expr w} (he : OptLoop.VarsIn (AskFree s ps) expr) :
    PVClean (insertPending s ps var expr) ps := by
  have hs := insertPending_same s ps var expr
  have hask : ∀ x, getParentConstant (insertPending s ps var expr) ps x = getParentConstant s ps x :=
    fun x => getParentConstant_congr hs.hdr ps x
  intro v p hp x hx hwn
  rw [hs.2.2.2.2.2.2.2.1] at hwn
  rw [hask]
  rw [insertPending_get hwf] at hp
  split at hp
  · split at hp
    · cases hp
    · simp only [Option.some.injEq] at hp
      subst hp
      exact (OptLoop.varsIn_iff (S := AskFree s ps)).1 he x (normalize_variables_sub expr x hx) hwn
  · exact h v p hp x hx hwn

theorem askFree_congr_pend {s s' : Rebuild w} (h : SameButPend s s') (ps : List (Rebuild w)) (x : Int) :
    AskFree s' ps x ↔ AskFree s ps x := by
  unfold AskFree
  rw [h.2.2.2.2.2.2.2.1, getParentConstant_congr h.hdr]

theorem foldl_insertPending_pv {s : Rebuild w} (hwf : Wf s) {ps : List (Rebuild w)} (h : PVClean s ps)
    (exprs : List (Int × Expr w)) (he : ∀ ve ∈ exprs, OptLoop.VarsIn (AskFree s ps) ve.2) :
    PVClean (exprs.foldl (fun s ve => insertPending s ps ve.1 ve.2) s) ps := by
  induction exprs generalizing s with
  | nil => exact h
  | cons ve exprs ih =>
    simp only [List.foldl_cons]
    have hs := insertPending_same s ps ve.1 ve.2
    apply ih (insertPending_wf hwf ps ve.1 ve.2) (insertPending_pv hwf h ve.1 (he ve (by simp)))
    intro ve' hve' p hp x hx
    exact (askFree_congr_pend hs ps x).2 (he ve' (by simp [hve']) p hp x hx)

theorem all2_evalPending_askFree {s : Rebuild w} {ps : List (Rebuild w)} {shift : Int}
    {calcs exprs : List (Int × Expr w)} (hpv : PVClean s ps)
    (hf : All2 (fun vc ve => ve.1 = shift + vc.1 ∧ evalPending s ps shift vc.2 = .ok ve.2) calcs exprs) :
    ∀ ve ∈ exprs, OptLoop.VarsIn (AskFree s ps) ve.2 := by
  induction hf with
  | nil => intro ve h; cases h
  | cons hab _ ih =>
    intro ve h
    rcases List.mem_cons.1 h with rfl | h
    · exact evalPending_askFree hpv hab.2
    · exact ih ve h

theorem performCheck_q (ps : List (Rebuild w)) (calcs : List (Int × Expr w)) {s : Rebuild w}
    {os os' : Orders} {s' : Rebuild w}
    (hr : (performCheck s ps calcs).run os = .ok (s', os')) (hwf : Wf s) : QStep ps s s' := by
  obtain ⟨comps, r⟩ := performCheck_res ps calcs hwf hr
  exact r.qstep (performCheck_wk ps calcs hr hwf)

theorem performAll_q {s : Rebuild w} {ps : List (Rebuild w)} {shift : Int}
    {calcs : List (Int × Expr w)} {os os' : Orders} {s' : Rebuild w}
    (hr : (performAll s ps shift calcs).run os = .ok (s', os')) (hwf : Wf s) : QStep ps s s' := by
  rw [performAll_eq, run_bind_ok] at hr
  obtain ⟨s1, os1, h1, h2⟩ := hr
  rw [run_bind_ok] at h2
  obtain ⟨exprs, os2, h3, h4⟩ := h2
  rw [run_pure] at h4
  cases h4
  have q1 := performCheck_q ps calcs h1 hwf
  obtain ⟨_, hf⟩ := performEval_ok h3
  obtain ⟨a, b⟩ := foldl_insertPending_wf q1.wf ps exprs
  refine q1.trans ⟨a, acore_of_anal b.2.1, b.2.2.1, ?_⟩
  intro hpv
  exact foldl_insertPending_pv q1.wf hpv exprs (all2_evalPending_askFree hpv hf)

/-- The non-loop arms of `rebuildInstr`. -/
theorem rebuildInstr_q {ps : List (Rebuild w)} {s : Rebuild w} {i : Instr w} {os os' : Orders}
    {s' : Rebuild w} (hr : (rebuildInstr ps s i).run os = .ok (s', os')) (hwf : Wf s)
    (hb : C01Dse.isBlock i = false) : QStep ps s s' := by
  cases i with
  | output src =>
    rw [rebuildInstr] at hr
    split at hr
    · rename_i x hx
      rw [run_pure] at hr
      cases hr
      exact ((QStep.refl hwf).read x).push _
    · rw [run_bind_ok] at hr
      obtain ⟨s1, os1, h1, h2⟩ := hr
      rw [run_pure] at h2
      cases h2
      exact ((emit_q ps (src + s.shift) h1 hwf).read (src + s.shift)).push _
  | input dst =>
    rw [rebuildInstr, run_bind_ok] at hr
    obtain ⟨s1, os1, h1, h2⟩ := hr
    rw [run_pure] at h2
    cases h2
    exact (clobber_q ps (dst + s.shift) false h1 hwf).push _
  | «calc» calcs =>
    rw [rebuildInstr] at hr
    exact performAll_q hr hwf
  | loop c sh b o => simp [C01Dse.isBlock] at hb
  | ifnz c sh b => simp [C01Dse.isBlock] at hb

end OptProof
end Hpbf
