/-
C11 for the output of `allocate_temps`, part 8: evaluation of the checker on concrete outputs of the pass
(non-vacuity), a witness that the precondition is needed, and the semantic reading of the initialisation clause.
-/
import Hpbf.Proofs.C11AllocTop
import Hpbf.Proofs.C02AllocEx
import Hpbf.Proofs.C11
set_option linter.unusedSimpArgs false

namespace Hpbf
namespace C02

open Bc BcWf BcGen C11 Alloc

/-- Results of the two tests of `BcWf.check` on the output of `allocateTemps numRegs s`, packaged with
`countTemps`. -/
def allocContract (numRegs : Nat) (s : St 8) : Option (Bool × Bool) :=
  (allocateTemps numRegs s).toOption.map (fun s' =>
    let p := progOf s' (countTemps s'.insts) (-8) 8
    (initOk p (initSolve p), liveOk p numRegs (liveSolve p)))

/-- The examples of `Props/C02Alloc.lean` that satisfy `AllocPre` (straight-line code with a forwarded and a moved
value; a loop with a value kept across it). -/
theorem alloc_contract_examples :
    allocContract 2 exFuseGood = some (true, true) ∧ allocContract 0 exFuseGood = some (true, true) ∧
    allocContract 1 exFlowGood = some (true, true) := by
  refine ⟨?_, ?_, ?_⟩ <;> decide +kernel

/-- `flow` is needed for the liveness clause: on `exFlowBad` (a value used inside a loop whose range is not
extended to the loop end) the pass succeeds, reuses the register inside the loop, and the bitmap of the
instruction that overwrites it does not contain the register although it is needed again in the next iteration. -/
theorem alloc_flow_needed_for_liveOk :
    comps exFlowBad = [true, true, true, true, false, true, true, true, true] ∧
    allocContract 1 exFlowBad = some (true, false) := by
  refine ⟨?_, ?_⟩ <;> decide +kernel

/-- The theorems apply to the examples (here: without evaluating the checker). -/
theorem alloc_contract_exFuseGood (numRegs : Nat) (s' : St 8) (h : allocateTemps numRegs exFuseGood = .ok s') :
    initOk (progOf s' (countTemps s'.insts) 0 0) (initSolve (progOf s' (countTemps s'.insts) 0 0)) = true ∧
    liveOk (progOf s' (countTemps s'.insts) 0 0) numRegs (liveSolve (progOf s' (countTemps s'.insts) 0 0)) = true := by
  have hT : TargetsOk exFuseGood.insts := by
    intro i ins off hi hoff
    have hlt : i < 7 := lt_of_getElem? hi
    have : ∀ i : Fin 7, ∀ ins, exFuseGood.insts[i.val]? = some ins → branchOff? ins = none := by decide
    rw [this ⟨i, hlt⟩ ins hi] at hoff
    cases hoff
  exact ⟨allocateTemps_initOk _ _ numRegs exFuseGood_pre hT h _ 0 0 (tempsBelow_countTemps _),
    allocateTemps_liveOk _ _ numRegs exFuseGood_pre hT h _ 0 0 (tempsBelow_countTemps _)⟩

/-- Semantic reading for the final program: on every execution path (any initial temporaries, budget, state, mode)
an instruction reads only temporaries that have been written before. -/
theorem translateE_no_uninit_read {w : Nat} {prog : Ir.Block w} {numRegs : Nat} {fuse : Bool} {p : Program w}
    (h : translateE prog numRegs fuse = .ok p) {limited : Bool} {c : Cfg w} {W : List Nat} {ins : Instr w}
    (hw : Wr p limited c W) (hi : p.insts[c.pc]? = some ins) : ∀ t ∈ BcWf.uses ins, t ∈ W :=
  init_sound (initOk_facts (translateE_initOk_liveOk h).1) hw hi

/-- All temporaries of the final program are below its declared count. -/
theorem translateE_temps_lt {w : Nat} {prog : Ir.Block w} {numRegs : Nat} {fuse : Bool} {p : Program w}
    (h : translateE prog numRegs fuse = .ok p) {i : Nat} {ins : Instr w} (hi : p.insts[i]? = some ins) :
    ∀ t ∈ BcWf.uses ins ++ BcWf.defs ins, t < p.temps := by
  obtain ⟨s1, s2, s3, s4, _, _, _, _, rfl⟩ := Chain.translateE_phases h
  intro t ht
  exact temps_lt_countTemps (insts := s4.insts) hi ht

end C02
end Hpbf
