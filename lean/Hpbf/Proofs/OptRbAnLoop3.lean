/-
Rebuild-round proofs, stage 5 (the recorded analysis is sound for the emitted code): `loopInsideIf` (the block,
emitted in one of three ways, followed by the block-free `after` operations).  Analogue of `OptRbFootG3.lean`.
-/
import Hpbf.Proofs.OptRbAnLoop2
import Hpbf.Proofs.OptRbAnShift

namespace Hpbf
namespace OptProof
open Opt OptSem Ir

variable {w : Nat}

/-- The first half of `loopInsideIf`: the block itself. -/
theorem loopInsideIf_first_an {shP shC shS cS : Int} {bodyS : List (Instr w)} {oS : Bool} {isLoop : Bool}
    {s : Rebuild w} {ps : List (Rebuild w)} {sub : Rebuild w} {cond : Int} {L : OptLoop w}
    {C : List Int} {pc : List (Rebuild w)} {sub0 : Rebuild w} {os os' : Orders} {s' : Rebuild w}
    {G Gc : State w → Prop}
    (hr : ((if L.atMostOnce then Opt.inline s ps sub
      else if L.finite && sub.shift == s.shift && sub.insts.isEmpty && sub.pending.length == 1
          && mHas sub.pending cond then performAll s ps 0 [(cond, Expr.val 0#w)]
      else loopOrIf s ps sub cond true L C : M (Rebuild w))).run os = .ok (s', os'))
    (hwf : Wf s) (hsf : sub.subShift = false → AskStable s sub.shift) (hcond : cond = cS + shP)
    (hsh : shC + shS = (sub.shift - s.shift) + shP)
    (hrep : ChildRep Gc shP shC pc sub0 [] sub bodyS)
    (hentry : ∀ σE σS : State w, SameMem shP σS σE → σS.rd cS ≠ 0#w → Gc σS →
      ∃ M0, RelAt shP sub0 pc M0 σE σS)
    (hGc : ∀ M0 σE σS, RelAt shP s ps M0 σE σS → G σS → ∀ k σk, Head cS shS bodyS σS k σk →
      (L.atMostOnce = true → k = 0) → σk.rd cS ≠ 0#w → Gc σk)
    (hwfc : Wf sub)
    (hpre : sub.subShift = false → ChildPre Gc shP shC pc sub0 sub cS bodyS)
    (hkv : sub.subShift = false →
      ∀ v e, mGet sub.written v = some (.known e) → ∀ x ∈ Expr.variables e, x ∈ sub.reads)
    (hF : LoopFacts G shP s ps isLoop cS shS bodyS oS L C)
    (hamoalo : L.atMostOnce = true → L.atLeastOnce = true)
    (hcA : AStep (ValidG Gc shP sub0 pc) sub0 sub sub.insts) (hsa0 : sub0.subAnal = [])
    (hshs : ShapeSt sub) :
    Wf s' ∧ ∃ new, s'.insts = s.insts ++ new ∧ AStep (ValidG G shP s ps) s s' new := by
  -- the emitted instructions and `Wf` from the semantic lemma
  obtain ⟨hwf', _, _, _, new, _, _, hi, _⟩ :=
    loopInsideIf_first_g hr hwf hsf hcond hsh hrep hentry hGc hwfc hpre hkv hF hamoalo
  refine ⟨hwf', ?_⟩
  split at hr
  · -- inlined
    rename_i hamo
    have hne : ∀ M0 σE σS, RelAt shP s ps M0 σE σS → G σS → σS.rd cS ≠ 0#w := hF.alo (hamoalo hamo)
    have hGc0 : ∀ M0 σE σS, RelAt shP s ps M0 σE σS → G σS → Gc σS :=
      fun M0 σE σS hrel hg => hGc M0 σE σS hrel hg 0 σS Head.zero (fun _ => rfl) (hne M0 σE σS hrel hg)
    cases hss : sub.subShift with
    | true => exact inline_shift_an hr hwf hss hentry hne hGc0 hsa0 hcA
    | false => exact inline_stay_an hr hwf (hpre hss) hne hGc0 hsa0 hcA
  · rename_i hamo
    have hil : isLoop = true := by
      cases h : isLoop with
      | true => rfl
      | false => exact absurd (hF.ifamo h) hamo
    subst hil
    split at hr
    · -- `cond := 0`
      obtain ⟨new', hi', _, a1⟩ := performAll_an (V := ValidG G shP s ps) hr hwf
      exact ⟨new', hi', a1⟩
    · have hGc' : ∀ M0 σE σS, RelAt shP s ps M0 σE σS → G σS → ∀ k σk, Head cS shS bodyS σS k σk →
          (true = false → k = 0) → σk.rd cS ≠ 0#w → Gc σk :=
        fun M0 σE σS hrel hg k σk hh _ hne' => hGc M0 σE σS hrel hg k σk hh (fun h => absurd h hamo) hne'
      have hflag : if (true : Bool) then L.atMostOnce = false else L.atLeastOnce = false := by
        simp only [if_true]
        cases h : L.atMostOnce with
        | false => rfl
        | true => exact absurd h hamo
      cases hns : (sub.subShift || sub.shift != s.shift) with
      | true => exact loopOrIf_shift_an hr hwf hwfc hns hcond hsh hrep hentry hGc' hshs hflag hsa0 hcA
      | false =>
        have hss : sub.subShift = false := by
          simp only [Bool.or_eq_false_iff] at hns; exact hns.1
        have hse : sub.shift = s.shift := by
          simp only [Bool.or_eq_false_iff, bne_eq_false_iff_eq] at hns; exact hns.2
        have hsh' : shC + shS = shP := by rw [hsh, hse]; omega
        exact loopOrIf_stay_an hr hwf (hpre hss) hns hcond hsh' hGc' hF.const hcA hsa0 hshs hflag

/-- `loopInsideIf`: the block, then the operations moved behind it (block-free). -/
theorem loopInsideIf_an {shP shC shS cS : Int} {bodyS : List (Instr w)} {oS : Bool} {isLoop : Bool}
    {s : Rebuild w} {ps : List (Rebuild w)} {sub : Rebuild w} {cond : Int} {L : OptLoop w}
    {after : List (Int × Expr w)}
    {C : List Int} {pc : List (Rebuild w)} {sub0 : Rebuild w} {os os' : Orders} {s' : Rebuild w}
    {G Gc : State w → Prop}
    (hr : (loopInsideIf s ps sub cond L after C).run os = .ok (s', os'))
    (hwf : Wf s) (hsf : sub.subShift = false → AskStable s sub.shift) (hcond : cond = cS + shP)
    (hsh : shC + shS = (sub.shift - s.shift) + shP)
    (hrep : ChildRep Gc shP shC pc sub0 [] sub bodyS)
    (hentry : ∀ σE σS : State w, SameMem shP σS σE → σS.rd cS ≠ 0#w → Gc σS →
      ∃ M0, RelAt shP sub0 pc M0 σE σS)
    (hGc : ∀ M0 σE σS, RelAt shP s ps M0 σE σS → G σS → ∀ k σk, Head cS shS bodyS σS k σk →
      (L.atMostOnce = true → k = 0) → σk.rd cS ≠ 0#w → Gc σk)
    (hwfc : Wf sub)
    (hpre : sub.subShift = false → ChildPre Gc shP shC pc sub0 sub cS bodyS)
    (hkv : sub.subShift = false →
      ∀ v e, mGet sub.written v = some (.known e) → ∀ x ∈ Expr.variables e, x ∈ sub.reads)
    (hF : LoopFacts G shP s ps isLoop cS shS bodyS oS L C)
    (hamoalo : L.atMostOnce = true → L.atLeastOnce = true)
    (hcA : AStep (ValidG Gc shP sub0 pc) sub0 sub sub.insts) (hsa0 : sub0.subAnal = [])
    (hshs : ShapeSt sub) :
    ∃ new, s'.insts = s.insts ++ new ∧ AStep (ValidG G shP s ps) s s' new := by
  obtain ⟨s1, os1, h1, h2⟩ := loopInsideIf_run hr
  obtain ⟨hwf1, new1, hi1, ha1⟩ :=
    loopInsideIf_first_an h1 hwf hsf hcond hsh hrep hentry hGc hwfc hpre hkv hF hamoalo hcA hsa0 hshs
  have n2 := performAll_nstep h2 hwf1
  obtain ⟨new2, hi2, hb2⟩ := n2.insts
  obtain ⟨new2', hi2', _, _, _, _, hm2, _⟩ := performAll_footAll (V := fun _ => True) h2 hwf1
  exact ⟨new1 ++ new2, by rw [hi2, hi1, List.append_assoc],
    ha1.append_noBlocks_right hb2 n2.subAnal hm2⟩

end OptProof
end Hpbf

#print axioms Hpbf.OptProof.loopInsideIf_first_an
#print axioms Hpbf.OptProof.loopInsideIf_an
