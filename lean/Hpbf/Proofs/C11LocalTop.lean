/-
C11 (local clauses) for `translate`, part 3: `localOk` and hence the whole checker `BcWf.check` accept every
program returned by `translateE`.
-/
import Hpbf.Proofs.C11LocalPasses
import Hpbf.Proofs.C11AllocEx
set_option linter.unusedSimpArgs false

namespace Hpbf
namespace C02

open Bc BcWf BcGen C11 Alloc Local

variable {w : Nat}

/-- `localOk` from its clauses. -/
theorem local_localOk_of_facts {p : Program w} (h : LocalFacts p) : localOk p = true := by
  simp only [localOk, Bool.and_eq_true, decide_eq_true_eq, beq_iff_eq, List.all_eq_true, List.mem_range]
  refine ⟨⟨⟨h.min0, h.max0⟩, h.liveSize⟩, ?_⟩
  intro i hi
  have hget : p.insts[i]? = some p.insts[i] := Array.getElem?_eq_getElem hi
  simp only [hget, Bool.and_eq_true, List.all_eq_true, decide_eq_true_eq]
  exact ⟨⟨⟨fun o ho => h.window hget o ho, fun t ht => h.temps hget t ht⟩, h.dst hget⟩, h.succ hget⟩

/-- **The local clauses for the program returned by `translate`**: the window contains `0` and every tape operand,
one bitmap per instruction, temporaries below the declared count, destinations are cells or temporaries, branches
stay inside the program. -/
theorem translateE_localFacts {prog : Ir.Block w} {numRegs : Nat} {fuse : Bool} {p : Program w}
    (h : translateE prog numRegs fuse = .ok p) : LocalFacts p := by
  have hshape := Chain.translate_shape h
  have htemps := fun {i : Nat} {ins : Instr w} (hi : p.insts[i]? = some ins) => translateE_temps_lt h hi
  obtain ⟨s1, s2, s3, s4, h1, h2, h3, h4, rfl⟩ := Chain.translateE_phases h
  obtain ⟨s2', h2', _, _, _, hT, _⟩ := deadStoreElim_preserves_of_emit h1
  rw [h2] at h2'; cases h2'
  have hpre := AEmit.allocPre_of_emit h1 h2
  have hT2 := hT (Chain.emit_targetsOk h1)
  have hlate := allocateTemps_latePre s2 s3 numRegs hpre hT2 h3
  obtain ⟨c0, c1, ccov⟩ := analyze_covers prog
  have g1 : AllGood (Cov (analyze prog)) s1.insts := allGood_mono ccov (emit_allGood h1)
  have g2 := allGood_dseLike (deadStoreElim_dseLike h2) g1
  have g3 := allGood_allocateTemps hpre h3 g2
  obtain ⟨g4, t4⟩ := latePasses_good s3 s4 hlate fuse h4 g3
  refine ⟨c0, c1, hshape.1, ?_, fun hi => htemps hi, ?_, ?_⟩
  · intro i ins hi o ho
    exact (g4 i ins hi).1 o ho
  · intro i ins hi
    exact (g4 i ins hi).2
  · intro i ins hi
    exact succs_of_targetsOk t4 hi

theorem translateE_localOk {prog : Ir.Block w} {numRegs : Nat} {fuse : Bool} {p : Program w}
    (h : translateE prog numRegs fuse = .ok p) : localOk p = true :=
  local_localOk_of_facts (translateE_localFacts h)

/-- **Property C11 for every program returned by `translate`.** -/
theorem translateE_check {prog : Ir.Block w} {numRegs : Nat} {fuse : Bool} {p : Program w}
    (h : translateE prog numRegs fuse = .ok p) : check p numRegs = true := by
  obtain ⟨h1, h2⟩ := translateE_initOk_liveOk h
  simp [check, translateE_localOk h, h1, h2]

end C02
end Hpbf
