/-
C02 (`allocate_temps`), part 9: the simulation relation between a run of the input program (virtual
temporaries) and a run of the output program (physical temporaries, forwarded operands, moved computations),
and its preservation by one instruction that falls through (`relV_succ`) or jumps (`relV_jump`).
-/
import Hpbf.Proofs.C02AllocTrace
set_option linter.unusedSimpArgs false

namespace Hpbf
namespace C02
namespace Alloc

open Bc BcWf BcGen C11

variable {w : Nat} {s : St w}

/-- `t` is the destination of a computation that has been moved and not yet executed. -/
def PendDst (s : St w) (k : Nat) (a : ASt w) (t : Nat) : Prop :=
  ∃ f op m s0 s1, Fused s k a f op m t s0 s1

/-- The value of `t` is still needed at `k`: inside the recorded range, or as operand of a moved computation. -/
def LiveAt (s : St w) (k : Nat) (a : ASt w) (t : Nat) : Prop :=
  (∃ (r : RangeInfo) (L : Nat), s.ranges[t]? = some r ∧ r.lastUse = some L ∧ k ≤ L) ∨
  (∃ f op m t' s0 s1, Fused s k a f op m t' s0 s1 ∧ (s0 = .tmp t ∨ s1 = .tmp t))

/-- The temporaries of the two runs at position `k` (`a` = state of the pass before round `k`). -/
structure RelV (s : St w) (k : Nat) (a : ASt w) (c1 c2 : Cfg w) : Prop where
  val : ∀ t l, alGet a.repl t = some l → LiveAt s k a t → ¬ PendDst s k a t → tget c1.temps t = rdVal c2 l
  pend : ∀ f op m t s0 s1, Fused s k a f op m t s0 s1 →
    tget c1.temps t = opFun op (rdVal c1 s0) (rdVal c1 s1)

/-! ### waiting computations -/

/-- The facts about a waiting computation, with the candidate conditions of `AllocPre`. -/
theorem fused_cand {k : Nat} {a : ASt w} (hI : PassInv s k a) {f : Nat} {op : BcGen.Op} {m : Int} {t : Nat}
    {s0 s1 : Loc w} (h : Fused s k a f op m t s0 s1) :
    ∃ i, i < k ∧ Cand s i op t s0 s1 f m (.tmp t) ∧ ∃ r : RangeInfo, s.ranges[t]? = some r ∧ r.created = i := by
  obtain ⟨i, r, L, g1, g2, g3, g4, g5, g6, _⟩ := hI.fused _ _ _ _ _ _ h
  exact ⟨i, g4, ⟨g1, ⟨r, L, g2, g5, g6⟩, h.2.1⟩, r, g2, g3⟩

/-- Between a moved computation and its destination the code is straight-line. -/
theorem fused_plain (hp : AllocPre s) {k : Nat} {a : ASt w} (hI : PassInv s k a) {f : Nat} {op : BcGen.Op}
    {m : Int} {t : Nat} {s0 s1 : Loc w} (h : Fused s k a f op m t s0 s1) {x : Instr w}
    (hx : s.insts[k]? = some x) : plain x = true := by
  obtain ⟨i, hik, hc, _⟩ := fused_cand hI h
  obtain ⟨_, hreg, _⟩ := hp.fuse _ _ _ _ _ _ _ _ hc
  by_cases hkf : k = f
  · subst hkf
    rw [h.2.1] at hx; cases hx; rfl
  · exact (hreg k x hik (Nat.lt_of_le_of_ne h.1 hkf) hx).1

/-- No branch lands between a moved computation and its destination. -/
theorem fused_nojump (hp : AllocPre s) {k' : Nat} {a : ASt w} (hI : PassInv s k' a) {f : Nat} {op : BcGen.Op}
    {m : Int} {t : Nat} {s0 s1 : Loc w} (h : Fused s k' a f op m t s0 s1) {j : Nat} {x : Instr w} {off : Int}
    (hx : s.insts[j]? = some x) (hoff : branchOff? x = some off) (hk : (j : Int) + off = (k' : Int)) : False := by
  obtain ⟨i, hik, hc, _⟩ := fused_cand hI h
  obtain ⟨_, _, hnj⟩ := hp.fuse _ _ _ _ _ _ _ _ hc
  apply hnj j x off hx hoff
  rw [hk]
  have := h.1
  omega

theorem stepKind_fused_fwd {k : Nat} {a a' : ASt w} (K : StepKind s k a a') {f : Nat} {op : BcGen.Op} {m : Int}
    {t : Nat} {s0 s1 : Loc w} (h : Fused s k a f op m t s0 s1) (hkf : k < f) :
    Fused s (k + 1) a' f op m t s0 s1 := by
  refine fused_mono h hkf ?_
  cases K with
  | other x hx hpl hq hi hr => exact hi f (by omega)
  | fuse op' t' s0' s1' f' m' hx hPk hkf' hPf hfa hq hf hi hnone hr =>
    by_cases e : f = f'
    · subst e
      have := h.2.2
      rw [hfa] at this
      exact absurd (Option.some.inj this).symm (mkArith_ne_copy _ _ _ _ _ _)
    · exact hi f (by omega) e
  | rw cur new q hx hpl hn hq hi hd => exact hi f (by omega)

/-- A computation waiting after round `k` was waiting before, or has been moved in round `k`. -/
theorem stepKind_fused_back {k : Nat} {a a' : ASt w} (K : StepKind s k a a') {f : Nat} {op : BcGen.Op} {m : Int}
    {t : Nat} {s0 s1 : Loc w} (h : Fused s (k + 1) a' f op m t s0 s1) :
    Fused s k a f op m t s0 s1 ∨
    (s.insts[k]? = some (mkArith op (.tmp t) s0 s1) ∧ a.st.insts[k]? = some (mkArith op (.tmp t) s0 s1) ∧
      alGet a.repl t = none) := by
  have hk : k ≤ f := Nat.le_of_succ_le h.1
  have hne : f ≠ k := Nat.ne_of_gt h.1
  cases K with
  | other x hx hpl hq hi hr => exact Or.inl (fused_mono h hk (hi f hne).symm)
  | fuse op' t' s0' s1' f' m' hx hPk hkf' hPf hfa hq hf hi hnone hr =>
    by_cases e : f = f'
    · subst e
      have h2 := h.2.2
      rw [hf] at h2
      obtain ⟨rfl, hm, rfl, rfl⟩ := mkArith_inj (Option.some.inj h2)
      have h1 := h.2.1
      rw [hPf] at h1
      simp only [Option.some.injEq, Instr.copy.injEq, Loc.tmp.injEq] at h1
      obtain ⟨_, rfl⟩ := h1
      exact Or.inr ⟨hPk, hx, hnone⟩
    · exact Or.inl (fused_mono h hk (hi f hne e).symm)
  | rw cur new q hx hpl hn hq hi hd => exact Or.inl (fused_mono h hk (hi f hne).symm)

/-- Entries after round `k` are old entries or belong to a temporary without entry before. -/
theorem stepKind_repl {k : Nat} {a a' : ASt w} (K : StepKind s k a a') {t : Nat} {v : Loc w}
    (hv : alGet a'.repl t = some v) : alGet a.repl t = some v ∨ alGet a.repl t = none := by
  cases K with
  | other x hx hpl hq hi hr => exact Or.inl (hr t v hv)
  | fuse op' t' s0' s1' f' m' hx hPk hkf' hPf hfa hq hf hi hnone hr =>
    rcases hr.2 t v hv with ⟨rfl, _⟩ | h
    · exact Or.inr hnone
    · exact Or.inl h
  | rw cur new q hx hpl hn hq hi hd =>
    rcases hd with ⟨_, _, h⟩ | ⟨t0, _, hn0, _, h⟩
    · exact Or.inl (h t v hv)
    · rcases h with ⟨_, h⟩ | ⟨src, _, _, _, h⟩ | ⟨r, _, h⟩
      · exact Or.inl (h t v hv)
      · rcases h.2 t v hv with ⟨rfl, _⟩ | h
        · exact Or.inr hn0
        · exact Or.inl h
      · rcases h.2 t v hv with ⟨rfl, _⟩ | h
        · exact Or.inr hn0
        · exact Or.inl h

/-! ### operands -/

theorem rdVal_of_eq {c c' : Cfg w} (l : Loc w) (ht : ∀ i, l = .tmp i → tget c'.temps i = tget c.temps i)
    (hm : ∀ o, (l = .mem o ∨ l = .memZero o) → c'.st.rd o = c.st.rd o) : rdVal c' l = rdVal c l := by
  cases l with
  | tmp i => exact ht i rfl
  | mem o => exact hm o (Or.inl rfl)
  | memZero o => exact hm o (Or.inr rfl)
  | imm v => rfl

/-! ### one instruction that falls through -/

/-- The generic successor lemma.  `c1'`, `c2'` are the configurations after instruction `k` (`x` in the input);
the hypotheses say which temporaries and cells the two instructions may have changed. -/
theorem relV_succ (hp : AllocPre s) {k : Nat} {a a' : ASt w} (hI : PassInv s k a) (hI' : PassInv s (k + 1) a')
    (K : StepKind s k a a') {x : Instr w} (hx : s.insts[k]? = some x)
    {c1 c2 c1' c2' : Cfg w} (hR : RelV s k a c1 c2) (hst : c2.st = c1.st) (hst' : c2'.st = c1'.st)
    (hmem : ∀ m', m' ∉ memDefs x → c1'.st.rd m' = c1.st.rd m')
    (ht1 : ∀ t', t' ∉ BcWf.defs x → tget c1'.temps t' = tget c1.temps t')
    (ht2 : ∀ t' r', alGet a'.repl t' = some (.tmp r') → alGet a.repl t' = some (.tmp r') →
      tget c2'.temps r' = tget c2.temps r')
    (hnew : ∀ t' v, alGet a'.repl t' = some v → alGet a.repl t' = none → ¬ PendDst s (k + 1) a' t' →
      tget c1'.temps t' = rdVal c2' v)
    (hexec : ∀ op m t s0 s1, Fused s k a k op m t s0 s1 → tget c1.temps t = c2'.st.rd m)
    (hnewF : ∀ op t s0 s1, s.insts[k]? = some (mkArith op (.tmp t) s0 s1) → alGet a.repl t = none →
      tget c1'.temps t = opFun op (rdVal c1 s0) (rdVal c1 s1)) :
    RelV s (k + 1) a' c1' c2' := by
  -- temporaries created before `k` are not written by `x`
  have hkeep : ∀ t' (r : RangeInfo), s.ranges[t']? = some r → r.created < k →
      tget c1'.temps t' = tget c1.temps t' := by
    intro t' r hr hc
    apply ht1
    intro hd
    obtain ⟨r', g1, g2⟩ := hp.defs k x t' hx hd
    rw [hr] at g1; cases g1
    omega
  have hkeepR : ∀ t' v, alGet a.repl t' = some v → tget c1'.temps t' = tget c1.temps t' := by
    intro t' v hv
    obtain ⟨_, r, g1, g2⟩ := hI.replDom t' v hv
    exact hkeep t' r g1 g2
  -- cells read by values that stay live are not written by `x`
  have hM : ∀ t' m', alGet a'.repl t' = some (.mem m') → alGet a.repl t' = some (.mem m') →
      LiveAt s (k + 1) a' t' → ¬ PendDst s (k + 1) a' t' → ¬ PendDst s k a t' → m' ∉ memDefs x := by
    intro t' m' hv' hv hlive hnp' hnp
    rcases hlive with ⟨r, L, g1, g2, g3⟩ | ⟨f, op, m, t'', s0, s1, hf, hs⟩
    · rcases hI.fwdMem t' m' hv with ⟨f, op, s0, s1, g⟩ | ⟨r1, L1, lo, q1, q2, q3, q4⟩
      · exact absurd ⟨f, op, m', s0, s1, g⟩ hnp
      · rw [g1] at q1; cases q1
        rw [g2] at q2; cases q2
        exact no_write_of_check hp q4 q3 (by omega) hx
    · obtain ⟨i, r, L, g1, g2, g3, g4, g5, g6, g7, g8, g9, g10⟩ := hI'.fused _ _ _ _ _ _ hf
      have hsf : SrcFacts s a' i f (.tmp t') := by
        rcases hs with rfl | rfl
        · exact g9
        · exact g10
      exact no_write_of_check hp (hsf m' hv') (by omega) (by have := hf.1; omega) hx
  -- operands of waiting computations
  have hS : ∀ f op m t s0 s1, Fused s (k + 1) a' f op m t s0 s1 → ∀ l, (l = s0 ∨ l = s1) →
      rdVal c1' l = rdVal c1 l := by
    intro f op m t s0 s1 hf l hl
    obtain ⟨i, r, L, g1, g2, g3, g4, g5, g6, g7, g8, g9, g10⟩ := hI'.fused _ _ _ _ _ _ hf
    have hz := (hI'.skel f _ hf.2.2).1
    rw [noMemZero_mkArith] at hz
    have hsf : SrcFacts s a' i f l := by
      rcases hl with rfl | rfl
      · exact g9
      · exact g10
    have hlz : locNoZero l = true := by rcases hl with rfl | rfl; exact hz.2.1; exact hz.2.2
    apply rdVal_of_eq
    · intro u e; subst e
      obtain ⟨ru, gu, gc⟩ := fused_src_created hp hI' hf (u := u) (by
        rcases hl with e | e
        · exact Or.inl e.symm
        · exact Or.inr e.symm)
      exact hkeep u ru gu (by omega)
    · intro o e
      rcases e with rfl | rfl
      · exact hmem o (no_write_of_check hp hsf (by omega) (by have := hf.1; omega) hx)
      · cases hlz
  have hLive : ∀ t', LiveAt s (k + 1) a' t' → LiveAt s k a t' := by
    intro t' h
    rcases h with ⟨r, L, g1, g2, g3⟩ | ⟨f, op, m, t'', s0, s1, hf, hs⟩
    · exact Or.inl ⟨r, L, g1, g2, by omega⟩
    · rcases stepKind_fused_back K hf with h | ⟨hPk, _, _⟩
      · exact Or.inr ⟨f, op, m, t'', s0, s1, h, hs⟩
      · obtain ⟨r, L, g1, g2, _, g4⟩ := hp.uses k _ t' hPk (by
          rw [uses_mkArith]; rcases hs with rfl | rfl <;> simp [locTmp])
        exact Or.inl ⟨r, L, g1, g2, g4⟩
  constructor
  · intro t' v hv hlive hnp'
    rcases stepKind_repl K hv with hold | hnone
    · by_cases hpd : PendDst s k a t'
      · obtain ⟨f, op, m, s0, s1, hf⟩ := hpd
        by_cases hfk : f = k
        · subst hfk
          obtain ⟨i, r, L, g1, g2, g3, g4, g5, g6, g7, _⟩ := hI.fused _ _ _ _ _ _ hf
          have := g7 v hold
          subst this
          show tget c1'.temps t' = c2'.st.rd m
          rw [hkeepR t' _ hold]
          exact hexec op m t' s0 s1 hf
        · exact absurd ⟨f, op, m, s0, s1, stepKind_fused_fwd K hf (Nat.lt_of_le_of_ne hf.1 (Ne.symm hfk))⟩ hnp'
      · have h0 := hR.val t' v hold (hLive t' hlive) hpd
        rw [hkeepR t' v hold, h0]
        symm
        apply rdVal_of_eq
        · intro i e; subst e; exact ht2 t' i hv hold
        · intro o e
          have hz := (hI.replDom t' v hold).1
          rcases e with rfl | rfl
          · rw [hst', hst]
            exact hmem o (hM t' o hv hold hlive hnp' hpd)
          · cases hz
    · exact hnew t' v hv hnone hnp'
  · intro f op m t s0 s1 hf
    rw [hS f op m t s0 s1 hf s0 (Or.inl rfl), hS f op m t s0 s1 hf s1 (Or.inr rfl)]
    rcases stepKind_fused_back K hf with hold | ⟨hPk, _, hnone⟩
    · have h0 := hR.pend f op m t s0 s1 hold
      obtain ⟨i, r, L, g1, g2, g3, g4, _⟩ := hI.fused _ _ _ _ _ _ hold
      rw [hkeep t r g2 (by omega), h0]
    · exact hnewF op t s0 s1 hPk hnone

end Alloc
end C02
end Hpbf
