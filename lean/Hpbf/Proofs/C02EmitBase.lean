/-
C02 (first phase of the bytecode generator: `emit_block` with global value numbering), part 0.

* `emitState` / `emitOnly`  – the generator run up to (and excluding) `dead_store_elim`;
  `translateE_factors`: `translateE` is `emitState` followed by the later passes.
* the state monad `M w` on successful runs (`bind_ok`, …);
* `G w` / `St.core` – the part of the generator state that matters for the semantics of the emitted code:
  instructions, the value-numbering table `values`, the list of numbered expressions and the number of
  value numbers; `read`, `rangeExtend`, `outerLoop` do not change it;
* association lists (`alGet` of `alSet`/`alErase`, duplicate-free keys).
-/
import Hpbf.BcGen

namespace Hpbf
namespace BcGen

variable {w : Nat}

/-- The generator state after `emit_block` on the whole program, before `dead_store_elim`. -/
def emitState (prog : Ir.Block w) (fuse : Bool) : Except String (St w) :=
  match (emitInsts fuse 0 prog.insts (analyze prog).subAnal).run ({} : St w) with
  | .ok (_, s) => .ok s
  | .error e => .error e

/-- The first phase packaged as a program: temporaries are the value numbers. -/
def emitOnly (prog : Ir.Block w) (fuse : Bool) : Except String (Bc.Program w) :=
  match emitState prog fuse with
  | .ok s =>
    .ok { temps := s.ranges.size, minAcc := (analyze prog).minAcc, maxAcc := (analyze prog).maxAcc,
          live := #[], insts := s.insts }
  | .error e => .error e

/-- `translateE` = first phase, then the later passes. -/
theorem translateE_factors (prog : Ir.Block w) (numRegs : Nat) (fuse : Bool) :
    translateE prog numRegs fuse = (do
      let s ← emitState prog fuse
      let s ← deadStoreElim s
      let s ← allocateTemps numRegs s
      let s := parameterReordering s
      let s ← if fuse then (do let s ← recordBranchTargets s; zeroingMoveDetection s) else pure s
      let s ← stripNoops s
      pure { temps := countTemps s.insts, minAcc := (analyze prog).minAcc,
             maxAcc := (analyze prog).maxAcc, live := s.live, insts := s.insts }) := by
  unfold translateE emitState
  dsimp only
  generalize (emitInsts fuse 0 prog.insts (analyze prog).subAnal).run ({} : St w) = r
  cases r with
  | error e => rfl
  | ok p => obtain ⟨u, s⟩ := p; rfl

theorem emitOnly_insts {prog : Ir.Block w} {fuse : Bool} {p : Bc.Program w}
    (h : emitOnly prog fuse = .ok p) : ∃ s, emitState prog fuse = .ok s ∧ p.insts = s.insts := by
  unfold emitOnly at h
  cases hs : emitState prog fuse with
  | error e => rw [hs] at h; cases h
  | ok s => rw [hs] at h; cases h; exact ⟨s, rfl, rfl⟩

end BcGen

namespace C02Emit
open BcGen

variable {w : Nat}

/-! ### the monad on successful runs -/

theorem bind_ok {α β : Type} (m : M w α) (f : α → M w β) (s s' : St w) (b : β) :
    (m >>= f) s = .ok (b, s') ↔ ∃ a s1, m s = .ok (a, s1) ∧ f a s1 = .ok (b, s') := by
  simp only [bind, StateT.bind, Except.bind]
  cases h : m s with
  | error e => simp
  | ok p =>
    obtain ⟨a, s1⟩ := p
    constructor
    · intro h'; exact ⟨a, s1, rfl, h'⟩
    · rintro ⟨a', s1', h1, h2⟩; cases h1; exact h2

theorem pure_ok {α : Type} (a b : α) (s s' : St w) :
    (pure a : M w α) s = .ok (b, s') ↔ b = a ∧ s' = s := by
  simp only [pure, StateT.pure, Except.pure, Except.ok.injEq, Prod.mk.injEq]
  constructor <;> rintro ⟨h1, h2⟩ <;> exact ⟨h1.symm, h2.symm⟩

theorem get_ok (a s s' : St w) : (get : M w (St w)) s = .ok (a, s') ↔ a = s ∧ s' = s := by
  simp only [get, getThe, MonadStateOf.get, StateT.get, pure, Except.pure, Except.ok.injEq,
    Prod.mk.injEq]
  constructor <;> rintro ⟨h1, h2⟩ <;> exact ⟨h1.symm, h2.symm⟩

theorem set_ok (x s s' : St w) (u : Unit) : (set x : M w Unit) s = .ok (u, s') ↔ s' = x := by
  simp only [set, StateT.set, pure, Except.pure, Except.ok.injEq, Prod.mk.injEq]
  constructor
  · rintro ⟨_, h⟩; exact h.symm
  · intro h; exact ⟨trivial, h.symm⟩

theorem modify_ok (f : St w → St w) (s s' : St w) (u : Unit) :
    (modify f : M w Unit) s = .ok (u, s') ↔ s' = f s := by
  simp only [modify, modifyGet, MonadStateOf.modifyGet, StateT.modifyGet, pure, Except.pure,
    Except.ok.injEq, Prod.mk.injEq]
  constructor
  · rintro ⟨_, h⟩; exact h.symm
  · intro h; exact ⟨trivial, h.symm⟩

theorem throw_ok {α : Type} (e : String) (s s' : St w) (a : α) :
    (throw e : M w α) s = .ok (a, s') ↔ False := by
  simp [throw, throwThe, MonadExceptOf.throw, StateT.lift, Except.bind, bind]

theorem get_bind {β : Type} (f : St w → M w β) (s : St w) :
    ((get : M w (St w)) >>= f) s = f s s := by cases s; rfl
theorem set_bind {β : Type} (x : St w) (f : Unit → M w β) (s : St w) :
    ((set x : M w Unit) >>= f) s = f () x := by cases s; rfl
theorem modify_bind {β : Type} (g : St w → St w) (f : Unit → M w β) (s : St w) :
    ((modify g : M w Unit) >>= f) s = f () (g s) := by cases s; rfl
theorem pure_bind' {α β : Type} (a : α) (f : α → M w β) (s : St w) :
    ((pure a : M w α) >>= f) s = f a s := by cases s; rfl
theorem throw_bind {α β : Type} (e : String) (f : α → M w β) (s : St w) :
    ((throw e : M w α) >>= f) s = .error e := by cases s; rfl
theorem throw_run {α : Type} (e : String) (s : St w) : (throw e : M w α) s = .error e := by cases s; rfl
theorem pushInst_bind {β : Type} (i : Bc.Instr w) (f : Unit → M w β) (s : St w) :
    (pushInst i >>= f) s = f () { s with insts := s.insts.push i } := by cases s; rfl

theorem ite_run {α : Type} (c : Prop) [Decidable c] (a b : M w α) (s : St w) :
    (if c then a else b) s = if c then a s else b s := by
  split <;> rfl

theorem ite_error_ok {α : Type} (c : Prop) [Decidable c] (e : String) (x : Except String α) (r : α) :
    (if c then Except.error e else x) = .ok r ↔ ¬ c ∧ x = .ok r := by
  by_cases h : c
  · simp [h]
  · simp [h]

theorem pushInst_ok (i : Bc.Instr w) (s s' : St w) (u : Unit) :
    pushInst i s = .ok (u, s') ↔ s' = { s with insts := s.insts.push i } := by
  unfold pushInst; exact modify_ok _ _ _ _

/-! ### the semantically relevant part of the generator state -/

structure G (w : Nat) where
  insts : Array (Bc.Instr w)
  values : List (GvnExpr w × Nat)
  exprs : Array (GvnExpr w)
  n : Nat

def core (s : St w) : G w := ⟨s.insts, s.values, s.exprs, s.ranges.size⟩

@[simp] theorem core_insts (s : St w) : (core s).insts = s.insts := rfl
@[simp] theorem core_values (s : St w) : (core s).values = s.values := rfl
@[simp] theorem core_exprs (s : St w) : (core s).exprs = s.exprs := rfl
@[simp] theorem core_n (s : St w) : (core s).n = s.ranges.size := rfl

theorem extendTo_size {rs rs' : Array RangeInfo} {v t : Nat} (h : extendTo rs v t = .ok rs') :
    rs'.size = rs.size := by
  unfold extendTo at h
  split at h
  · cases h
  · cases h; simp

theorem rangeExtendTo_core {v t : Nat} {s s' : St w} {u : Unit}
    (h : rangeExtendTo v t s = .ok (u, s')) : core s' = core s ∧ s'.currentStart = s.currentStart := by
  unfold rangeExtendTo at h
  cases hrs : extendTo s.ranges v t with
  | error e => simp only [hrs] at h; cases h
  | ok rs =>
    simp only [hrs] at h
    cases h
    simp only [core, extendTo_size hrs, and_self]

theorem rangeExtend_core {v : Nat} {s s' : St w} {u : Unit}
    (h : rangeExtend v s = .ok (u, s')) : core s' = core s ∧ s'.currentStart = s.currentStart := by
  unfold rangeExtend at h
  simp only [get_bind] at h
  cases hr : s.ranges[v]? with
  | none => simp only [hr, throw_ok] at h
  | some r =>
    simp only [hr] at h
    simp only [ite_run, modify_bind] at h
    split at h <;> split at h <;> first | exact rangeExtendTo_core h | (have := rangeExtendTo_core h; exact this)

theorem read_core {v : Nat} {s s' : St w} {u : Unit}
    (h : BcGen.read v s = .ok (u, s')) : core s' = core s ∧ s'.currentStart = s.currentStart := by
  unfold BcGen.read at h
  simp only [bind_ok, modify_ok] at h
  obtain ⟨_, s1, h1, rfl⟩ := h
  have := rangeExtend_core h1
  split
  · simp only [core, Array.size_setIfInBounds]
    exact this
  · exact this

theorem outerLoop_core (ps : Nat) : ∀ (fuel i : Nat) {s s' : St w} {u : Unit},
    outerLoop ps fuel i s = .ok (u, s') → core s' = core s ∧ s'.currentStart = s.currentStart := by
  intro fuel
  induction fuel with
  | zero => intro i s s' u h; simp only [outerLoop, throw_ok] at h
  | succ fuel ih =>
    intro i s s' u h
    simp only [outerLoop, get_bind] at h
    split at h
    · cases ho : s.outerAccessed[i]? with
      | none => simp only [ho, throw_ok] at h
      | some var =>
        simp only [ho] at h
        cases hr : s.ranges[var]? with
        | none => simp only [hr, throw_ok] at h
        | some r =>
          simp only [hr] at h
          split at h
          · exact ih _ h
          · simp only [bind_ok, modify_ok] at h
            obtain ⟨_, s2, h2, _, s3, rfl, h⟩ := h
            have h2' := rangeExtend_core h2
            have h3 := ih _ h
            refine ⟨h3.1.trans ?_, h3.2.trans ?_⟩
            · rw [← h2'.1]; split <;> rfl
            · rw [← h2'.2]; split <;> rfl
    · simp only [pure_ok] at h
      obtain ⟨_, rfl⟩ := h
      exact ⟨rfl, rfl⟩

/-! ### association lists -/

section AL
variable {κ ν : Type} [DecidableEq κ]

def keys (l : List (κ × ν)) : List κ := l.map (·.1)

theorem alGet_alSet (l : List (κ × ν)) (k k' : κ) (v : ν) :
    alGet (alSet l k v) k' = if k' = k then some v else alGet l k' := by
  induction l with
  | nil =>
    simp only [alSet, alGet]
    by_cases h : k' = k
    · subst h; simp
    · have : ¬ k = k' := fun e => h e.symm
      simp [h, this]
  | cons p rest ih =>
    obtain ⟨k0, v0⟩ := p
    simp only [alSet]
    by_cases h0 : k0 = k
    · subst h0
      simp only [if_true, alGet]
      by_cases h : k' = k0
      · subst h; simp
      · have : ¬ k0 = k' := fun e => h e.symm
        simp [h, this]
    · simp only [h0, if_false, alGet, ih]
      by_cases h : k' = k
      · subst h; simp [h0]
      · simp [h]

theorem alGet_none_iff (l : List (κ × ν)) (k : κ) : alGet l k = none ↔ k ∉ keys l := by
  induction l with
  | nil => simp [alGet, keys]
  | cons p rest ih =>
    obtain ⟨k0, v0⟩ := p
    simp only [alGet, keys, List.map_cons, List.mem_cons, not_or]
    by_cases h : k0 = k
    · subst h; simp
    · have : ¬ k = k0 := fun e => h e.symm
      simp only [h, if_false, this, not_false_eq_true, true_and]
      exact ih

theorem keys_alSet_nodup (l : List (κ × ν)) (k : κ) (v : ν) (h : (keys l).Nodup) :
    (keys (alSet l k v)).Nodup ∧ ∀ x, x ∈ keys (alSet l k v) ↔ x = k ∨ x ∈ keys l := by
  induction l with
  | nil => simp [alSet, keys]
  | cons p rest ih =>
    obtain ⟨k0, v0⟩ := p
    simp only [keys, List.map_cons, List.nodup_cons] at h
    obtain ⟨ihn, ihm⟩ := ih h.2
    simp only [alSet]
    by_cases h0 : k0 = k
    · subst h0
      simp only [if_true, keys, List.map_cons, List.nodup_cons, List.mem_cons]
      refine ⟨h, fun x => ?_⟩
      constructor
      · intro hx; rcases hx with hx | hx
        · exact Or.inl hx
        · exact Or.inr (Or.inr hx)
      · intro hx; rcases hx with hx | hx | hx
        · exact Or.inl hx
        · exact Or.inl hx
        · exact Or.inr hx
    · simp only [h0, if_false, keys, List.map_cons, List.nodup_cons, List.mem_cons]
      refine ⟨⟨?_, ihn⟩, fun x => ?_⟩
      · intro hm
        rcases (ihm k0).1 hm with e | e
        · exact h0 e
        · exact h.1 e
      · have := ihm x
        simp only [keys] at this
        rw [this]
        constructor
        · intro hx; rcases hx with hx | hx | hx
          · exact Or.inr (Or.inl hx)
          · exact Or.inl hx
          · exact Or.inr (Or.inr hx)
        · intro hx; rcases hx with hx | hx | hx
          · exact Or.inr (Or.inl hx)
          · exact Or.inl hx
          · exact Or.inr (Or.inr hx)

theorem keys_alErase_sub (l : List (κ × ν)) (k : κ) : ∀ x, x ∈ keys (alErase l k) → x ∈ keys l := by
  induction l with
  | nil => intro x hx; simp [alErase, keys] at hx
  | cons p rest ih =>
    obtain ⟨k0, v0⟩ := p
    intro x hx
    simp only [alErase] at hx
    by_cases h0 : k0 = k
    · simp only [h0, if_true] at hx
      simp only [keys, List.map_cons, List.mem_cons]
      exact Or.inr hx
    · simp only [h0, if_false, keys, List.map_cons, List.mem_cons] at hx ⊢
      rcases hx with hx | hx
      · exact Or.inl hx
      · exact Or.inr (ih x hx)

theorem keys_alErase_nodup (l : List (κ × ν)) (k : κ) (h : (keys l).Nodup) :
    (keys (alErase l k)).Nodup := by
  induction l with
  | nil => simp [alErase, keys]
  | cons p rest ih =>
    obtain ⟨k0, v0⟩ := p
    simp only [keys, List.map_cons, List.nodup_cons] at h
    simp only [alErase]
    by_cases h0 : k0 = k
    · simp only [h0, if_true]; exact h.2
    · simp only [h0, if_false, keys, List.map_cons, List.nodup_cons]
      exact ⟨fun hm => h.1 (keys_alErase_sub rest k k0 hm), ih h.2⟩

theorem alGet_alErase (l : List (κ × ν)) (k k' : κ) (h : (keys l).Nodup) :
    alGet (alErase l k) k' = if k' = k then none else alGet l k' := by
  induction l with
  | nil => simp [alErase, alGet]
  | cons p rest ih =>
    obtain ⟨k0, v0⟩ := p
    simp only [keys, List.map_cons, List.nodup_cons] at h
    simp only [alErase]
    by_cases h0 : k0 = k
    · subst h0
      simp only [if_true, alGet]
      by_cases hk : k' = k0
      · subst hk
        simp only [if_true]
        exact (alGet_none_iff rest k').2 h.1
      · have : ¬ k0 = k' := fun e => hk e.symm
        simp [hk, this]
    · simp only [h0, if_false, alGet, ih h.2]
      by_cases hk : k' = k
      · subst hk; simp [h0]
      · simp [hk]

end AL

end C02Emit
end Hpbf
