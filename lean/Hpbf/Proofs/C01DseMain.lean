/-
The dead store elimination preserves behaviour: the two runs are in lockstep (same fuel, same budget).
-/
import Hpbf.Proofs.C01DseFlow

namespace Hpbf
namespace C01Dse
open Ir OptDse

variable {w : Nat}

theorem inv_step {lim : Bool} {bud : Nat} {b : Block w} {anal : DAnal} {env : Env}
    (hS : AnalSoundAt lim bud b anal env) {c c' : Cfg w} (h : Inv lim bud b anal env c c') :
    StepRel lim bud b anal env (step lim c) (step lim c') := by
  obtain ⟨cur, conts, budget, st⟩ := c
  obtain ⟨cur', conts', budget', st'⟩ := c'
  cases cur with
  | nil =>
    cases conts with
    | nil => exact step_halt h
    | cons k ks =>
      cases k with
      | loopEnd cond shift body rest => exact step_loopEnd hS h
      | ifEnd shift rest => exact step_ifEnd h
  | cons i rest =>
    cases i with
    | output src => exact step_output h
    | input dst => exact step_input h
    | «calc» calcs => exact step_calc h
    | loop cond shift body once => exact step_loop hS h
    | ifnz cond shift body => exact step_ifnz hS h

theorem Inv.obs {lim : Bool} {bud : Nat} {b : Block w} {anal : DAnal} {env : Env} {c c' : Cfg w}
    (h : Inv lim bud b anal env c c') : Obs c c' := ⟨h.trace, h.env, h.ptr, h.budget⟩

theorem inv_run {lim : Bool} {bud : Nat} {b : Block w} {anal : DAnal} {env : Env}
    (hS : AnalSoundAt lim bud b anal env) (f : Nat) {c c' : Cfg w} (h : Inv lim bud b anal env c c') :
    ObsEq (runCfg lim f c) (runCfg lim f c') := by
  induction f generalizing c c' with
  | zero => exact h.obs
  | succ f ih =>
    have hstep := inv_step hS h
    simp only [runCfg]
    cases hs : step lim c with
    | next c1 =>
      cases hs' : step lim c' with
      | next c1' => rw [hs, hs'] at hstep; exact ih hstep
      | halt _ => rw [hs, hs'] at hstep; exact hstep.elim
      | stop _ => rw [hs, hs'] at hstep; exact hstep.elim
      | interrupted _ => rw [hs, hs'] at hstep; exact hstep.elim
    | halt c1 =>
      cases hs' : step lim c' with
      | halt c1' => rw [hs, hs'] at hstep; exact hstep
      | next _ => rw [hs, hs'] at hstep; exact hstep.elim
      | stop _ => rw [hs, hs'] at hstep; exact hstep.elim
      | interrupted _ => rw [hs, hs'] at hstep; exact hstep.elim
    | stop c1 =>
      cases hs' : step lim c' with
      | stop c1' => rw [hs, hs'] at hstep; exact hstep
      | next _ => rw [hs, hs'] at hstep; exact hstep.elim
      | halt _ => rw [hs, hs'] at hstep; exact hstep.elim
      | interrupted _ => rw [hs, hs'] at hstep; exact hstep.elim
    | interrupted c1 =>
      cases hs' : step lim c' with
      | interrupted c1' => rw [hs, hs'] at hstep; exact hstep
      | next _ => rw [hs, hs'] at hstep; exact hstep.elim
      | halt _ => rw [hs, hs'] at hstep; exact hstep.elim
      | stop _ => rw [hs, hs'] at hstep; exact hstep.elim

theorem eliminate_some {b b' : Block w} {anal : DAnal} (h : eliminate b anal = some b') :
    ∃ s idx, elimInsts [] b.insts (DState.new 0 anal) anal.subs.length = some (b'.insts, s, idx) ∧
      b'.shift = b.shift := by
  unfold eliminate at h
  split at h
  · exact absurd h (by simp)
  · rename_i insts s idx he
    simp only [Option.some.injEq] at h
    subst h
    exact ⟨s, idx, he, rfl⟩

theorem inv_init {lim : Bool} {bud : Nat} {b b' : Block w} {anal : DAnal} {env : Env}
    (hE : eliminate b anal = some b') (hnd : NoDupTargets b) (hS : AnalSoundAt lim bud b anal env) :
    Inv lim bud b anal env (initCfg b bud env) (initCfg b' bud env) := by
  obtain ⟨s, idx, he, _⟩ := eliminate_some hE
  exact ⟨Reach.init lim bud b env, ⟨[], anal, 0, s, idx, MatchK.nil, he, ⟨hS.shift, hnd⟩,
    fun a => Or.inl rfl⟩, rfl, rfl, rfl, rfl⟩

/-- LOCKSTEP: with the same fuel (and in limited mode the same budget) the two runs end in the same way with
the same events, environment, pointer and remaining budget. -/
theorem elim_lockstep {lim : Bool} {bud : Nat} {b b' : Block w} {anal : DAnal} {env : Env}
    (hE : eliminate b anal = some b') (hnd : NoDupTargets b) (hS : AnalSoundAt lim bud b anal env)
    (f : Nat) : ObsEq (run b lim bud f env) (run b' lim bud f env) :=
  inv_run hS f (inv_init hE hnd hS)

/-! ### the limited run is a prefix of the unlimited one: `AnalSound` carries over -/

def eraseB (c : Cfg w) : Cfg w := { c with budget := 0 }

theorem step_erase {c c1 : Cfg w} (h : step true c = .next c1) : step false (eraseB c) = .next (eraseB c1) := by
  obtain ⟨cur, conts, budget, st⟩ := c
  cases cur with
  | nil =>
    cases conts with
    | nil => simp [step] at h
    | cons k ks =>
      cases k with
      | loopEnd cond shift body rest =>
        simp only [step, Bool.true_and, beq_iff_eq, if_true] at h
        simp only [step, eraseB, Bool.false_and, Bool.false_eq_true, if_false]
        split at h
        · exact absurd h (by simp)
        · split at h
          · rename_i hz
            cases h
            rw [if_pos hz]
          · rename_i hz
            cases h
            rw [if_neg hz]
      | ifEnd shift rest =>
        simp only [step, Bool.true_and, beq_iff_eq, if_true] at h
        simp only [step, eraseB, Bool.false_and, Bool.false_eq_true, if_false]
        split at h
        · exact absurd h (by simp)
        · cases h; rfl
  | cons i rest =>
    cases i with
    | output src =>
      simp only [step] at h
      simp only [step, eraseB]
      split at h
      · rename_i s ho
        cases h
        simp only
      · exact absurd h (by simp)
    | input dst =>
      simp only [step] at h
      simp only [step, eraseB]
      split at h
      · rename_i s ho
        cases h
        simp only
      · exact absurd h (by simp)
    | «calc» calcs =>
      simp only [step] at h
      cases h
      simp only [step, eraseB]
    | loop cond shift body once =>
      simp only [step] at h
      simp only [step, eraseB]
      split at h
      · rename_i hz; cases h; simp [hz]
      · rename_i hz; cases h; simp [hz]
    | ifnz cond shift body =>
      simp only [step] at h
      simp only [step, eraseB]
      split at h
      · rename_i hz; cases h; simp [hz]
      · rename_i hz; cases h; simp [hz]

theorem cfgAt_erase {f : Nat} {c0 c : Cfg w} (h : cfgAt true f c0 = some c) :
    cfgAt false f (eraseB c0) = some (eraseB c) := by
  induction f generalizing c0 with
  | zero =>
    simp only [cfgAt, Option.some.injEq] at h
    subst h; rfl
  | succ f ih =>
    rw [cfgAt] at h
    cases hs : step true c0 with
    | next c1 =>
      rw [hs] at h
      rw [cfgAt, step_erase hs]
      exact ih h
    | halt _ => rw [hs] at h; exact absurd h (by simp)
    | stop _ => rw [hs] at h; exact absurd h (by simp)
    | interrupted _ => rw [hs] at h; exact absurd h (by simp)

theorem unexposed_erase {d : Nat} {a : Int} {n : Nat} {c : Cfg w}
    (h : unexposedN false d a n (eraseB c) = true) : unexposedN true d a n c = true := by
  induction n generalizing c with
  | zero => rfl
  | succ n ih =>
    rw [unexposedN] at h ⊢
    have e1 : (eraseB c).cur = c.cur := rfl
    have e2 : (eraseB c).conts = c.conts := rfl
    have e3 : stepReads (eraseB c) = stepReads c := rfl
    have e4 : stepWrites (eraseB c) = stepWrites c := rfl
    rw [e1, e2, e3, e4] at h
    split
    · rfl
    · rename_i hstop
      rw [if_neg hstop] at h
      simp only [Bool.and_eq_true, Bool.or_eq_true] at h ⊢
      refine ⟨h.1, ?_⟩
      rcases h.2 with h2 | h2
      · exact Or.inl h2
      · right
        cases hs : step true c with
        | next c1 =>
          rw [step_erase hs] at h2
          exact ih h2
        | halt _ => rfl
        | stop _ => rfl
        | interrupted _ => rfl

/-- Facts that are sound for the unlimited run are sound for every limited run. -/
theorem analSound_lim {b : Block w} {anal : DAnal} {env : Env} (h : AnalSound b anal env) (bud : Nat) :
    AnalSoundAt true bud b anal env := by
  have hreach : ∀ c, Reach true bud b env c → Reach false 0 b env (eraseB c) := by
    rintro c ⟨f, hf⟩
    exact ⟨f, cfgAt_erase hf⟩
  refine ⟨h.shift, ?_, ?_, ?_⟩
  · intro c hc i rest cond shift body A0 A1 h1 h2 h3 h4 h5
    exact h.atLeast (eraseB c) (hreach c hc) i rest cond shift body A0 A1 h1 h2 h3 h4 h5
  · intro c hc cond shift body rest ks A0 h1 h2 h3 h4
    exact h.atMost (eraseB c) (hreach c hc) cond shift body rest ks A0 h1 h2 h3 h4
  · intro c hc cond shift body rest ks A0 c1 h1 h2 h3 h4 h5 h6 v n hv
    have := h.reads (eraseB c) (hreach c hc) cond shift body rest ks A0 (eraseB c1) h1 h2 h3 h4 h5
      (step_erase h6) v n hv
    exact unexposed_erase this

/-! ### consequences -/

theorem traceOf_eq_of_obsEq {o o' : Outcome w} (h : ObsEq o o') : traceOf o' = traceOf o := by
  cases o <;> cases o' <;> first | exact h.1 | exact h.elim

/-! ### totality and shape of the result -/

theorem elim_total {b : Block w} {anal : DAnal} (h : ShapeOk b anal) : ∃ b', eliminate b anal = some b' := by
  obtain ⟨⟨insts, s, idx⟩, he⟩ := elimInsts_total b.insts [] (DState.new 0 anal) h
  have he' : elimInsts [] b.insts (DState.new 0 anal) anal.subs.length = some (insts, s, idx) := he
  exact ⟨{ b with insts := insts }, by unfold eliminate; rw [he']⟩

theorem shapeOk_of_eliminate {b b' : Block w} {anal : DAnal} (h : eliminate b anal = some b') :
    ShapeOk b anal := by
  obtain ⟨s, idx, he, _⟩ := eliminate_some h
  exact shape_of_elimInsts b.insts [] (DState.new 0 anal) _ he

theorem elim_none_iff {b : Block w} {anal : DAnal} : eliminate b anal = none ↔ ¬ ShapeOk b anal := by
  constructor
  · intro h hs
    obtain ⟨b', hb'⟩ := elim_total hs
    rw [h] at hb'; exact absurd hb' (by simp)
  · intro h
    cases he : eliminate b anal with
    | none => rfl
    | some b' => exact absurd (shapeOk_of_eliminate he) h

theorem eliminate_sub {b b' : Block w} {anal : DAnal} (h : eliminate b anal = some b') :
    b'.shift = b.shift ∧ SubL b.insts b'.insts := by
  obtain ⟨s, idx, he, hsh⟩ := eliminate_some h
  exact ⟨hsh, subL_of_elimInsts _ _ _ _ _ _ _ he⟩

/-! ### reading off the lockstep theorem -/

theorem ObsEq.done_left {o o' : Outcome w} {c : Cfg w} (h : ObsEq o o') (ho : o = .done c) :
    ∃ c', o' = .done c' ∧ Obs c c' := by
  subst ho; cases o' <;> first | exact ⟨_, rfl, h⟩ | exact h.elim

theorem ObsEq.stopped_left {o o' : Outcome w} {c : Cfg w} (h : ObsEq o o') (ho : o = .stopped c) :
    ∃ c', o' = .stopped c' ∧ Obs c c' := by
  subst ho; cases o' <;> first | exact ⟨_, rfl, h⟩ | exact h.elim

theorem ObsEq.interrupted_left {o o' : Outcome w} {c : Cfg w} (h : ObsEq o o') (ho : o = .interrupted c) :
    ∃ c', o' = .interrupted c' ∧ Obs c c' := by
  subst ho; cases o' <;> first | exact ⟨_, rfl, h⟩ | exact h.elim

theorem ObsEq.done_right {o o' : Outcome w} {c' : Cfg w} (h : ObsEq o o') (ho : o' = .done c') :
    ∃ c, o = .done c ∧ Obs c c' := by
  subst ho; cases o <;> first | exact ⟨_, rfl, h⟩ | exact h.elim

theorem ObsEq.stopped_right {o o' : Outcome w} {c' : Cfg w} (h : ObsEq o o') (ho : o' = .stopped c') :
    ∃ c, o = .stopped c ∧ Obs c c' := by
  subst ho; cases o <;> first | exact ⟨_, rfl, h⟩ | exact h.elim

theorem ObsEq.interrupted_right {o o' : Outcome w} {c' : Cfg w} (h : ObsEq o o')
    (ho : o' = .interrupted c') : ∃ c, o = .interrupted c ∧ Obs c c' := by
  subst ho; cases o <;> first | exact ⟨_, rfl, h⟩ | exact h.elim

end C01Dse
end Hpbf
