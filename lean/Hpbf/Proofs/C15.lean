/-
C15 — expression arithmetic. Umbrella for the lemma files plus the predicate "built through the public
expression API" and the fact that every such expression is in normal form.

* `C15Basic`  : `evaluate` as a sum of monomials, permutation invariance, `cmpVars`, sorting, `accum`,
                `finish`; value of `val var add neg half mul mulParts` (all part lists, all widths).
* `C15Norm`   : value of `normalize`.
* `C15Subst`  : `constant`, `identity`; substitution lemma and definedness of `symbEvaluate`.
* `C15Decomp` : `constIncOf`, `prodOf` (unconditional); `incOf`, `prodIncOf`, `constantPart` under
                `WeakCanon`; counterexamples without it.
* `C15Canon`  : the normal form `Canon` and its preservation by every expression-returning operation.
* `C15Orig`   : the code before the repair of `mul`/`prod_of`: witness of wrong decompositions, and the
                invariant `SCanon` that the original constructors did preserve.
-/
import Hpbf.Proofs.C15Basic
import Hpbf.Proofs.C15Norm
import Hpbf.Proofs.C15Subst
import Hpbf.Proofs.C15Decomp
import Hpbf.Proofs.C15Canon
import Hpbf.Proofs.C15Orig

namespace Hpbf
namespace Expr
variable {w : Nat}

/-- Expressions built through the public expression API of `ir::Expr`: the constructors
`val var add mul neg half normalize symb_evaluate` and the expression-valued results of the
decompositions `prod_of inc_of prod_inc_of`. For `symb_evaluate` the substituted expressions must be
API-built too. -/
inductive Built : Expr w → Prop
  | val (c : BitVec w) : Built (val c)
  | var (v : Int) : Built (var v)
  | add {a b : Expr w} : Built a → Built b → Built (add a b)
  | mul {a b : Expr w} : Built a → Built b → Built (mul a b)
  | neg {a : Expr w} : Built a → Built (neg a)
  | half {a r : Expr w} : Built a → half a = some r → Built r
  | normalize {a : Expr w} : Built a → Built (normalize a)
  | symbEvaluate {e r : Expr w} (g : Int → Option (Expr w)) :
      Built e → (∀ v e', g v = some e' → Built e') → symbEvaluate e g = some r → Built r
  | prodOf {e r : Expr w} {v : Int} : Built e → prodOf e v = some r → Built r
  | incOf {e r : Expr w} {v : Int} : Built e → incOf e v = some r → Built r
  | prodIncOf {e r : Expr w} {v : Int} {m : BitVec w} : Built e → prodIncOf e v = some (r, m) → Built r

/-- Every API-built expression is in normal form. -/
theorem Built.canon {e : Expr w} (h : Built e) : Canon e := by
  induction h with
  | val c => exact canon_val c
  | var v => exact canon_var v
  | add _ _ iha ihb => exact canon_add iha ihb
  | mul _ _ iha ihb => exact canon_mul iha ihb
  | neg _ ih => exact canon_neg ih
  | half _ hh ih => exact canon_half ih hh
  | normalize _ ih => exact canon_normalize ih
  | symbEvaluate g _ _ hs _ ihg => exact canon_symbEvaluate g ihg hs
  | prodOf _ hp ih => exact canon_prodOf ih hp
  | incOf _ hi ih => exact canon_incOf ih hi
  | prodIncOf _ hi ih => exact canon_prodIncOf ih hi

end Expr
end Hpbf
