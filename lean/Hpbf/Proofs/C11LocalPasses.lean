/-
C11 (local clauses) for `translate`, part 2: every pass after the emission keeps "all tape operands satisfy `P`,
all destinations are cells or temporaries" (`AllGood P`), and the final code has its branches inside the program.
-/
import Hpbf.Proofs.C11LocalEmit
import Hpbf.Proofs.C11AllocTop
set_option linter.unusedSimpArgs false

namespace Hpbf
namespace C02

open Bc BcWf BcGen C11 Alloc

variable {w : Nat}

namespace Local

variable {P : Int → Prop}

/-! ### `dead_store_elim` -/

theorem allGood_dseLike {s s' : St w} (h : DseLike s s') (hg : AllGood P s.insts) : AllGood P s'.insts := by
  intro j x hx
  rcases h.insts j with e | ⟨e, _⟩
  · exact hg j x (by rw [← e]; exact hx)
  · rw [hx] at e; cases e; exact goodI_noop P

/-! ### `allocate_temps` -/

theorem memOps_mkArith (op : BcGen.Op) (d a b : Loc w) :
    memOps (mkArith op d a b) = locMem d ++ locMem a ++ locMem b := by cases op <;> rfl
theorem dstOk_mkArith (op : BcGen.Op) (d a b : Loc w) :
    dstOk (mkArith op d a b) = dstOk (.copy d a : Instr w) := by cases op <;> rfl

/-- The locations in the replacement table only mention good cells. -/
def ReplGood (P : Int → Prop) (a : ASt w) : Prop := ∀ t l, alGet a.repl t = some l → ∀ o ∈ locMem l, P o

theorem good_replSrc {repl : List (Nat × Loc w)} {l l' : Loc w} (h : replSrc repl l = .ok l')
    (hr : ∀ t v, alGet repl t = some v → ∀ o ∈ locMem v, P o) (hl : ∀ o ∈ locMem l, P o) :
    ∀ o ∈ locMem l', P o := by
  rcases replSrc_ok h with ⟨u, rfl, hu⟩ | ⟨_, rfl⟩
  · exact hr u l' hu
  · exact hl

theorem good_rwInst {repl : List (Nat × Loc w)} {cur new : Instr w} (h : rwInst repl cur = .ok new)
    (hr : ∀ t v, alGet repl t = some v → ∀ o ∈ locMem v, P o) (hc : GoodI P cur) : GoodI P new := by
  rcases rwInst_cases h with ⟨d, s, s', rfl, g, rfl⟩ | ⟨op, d, s0, s1, s0', s1', rfl, g0, g1, rfl⟩ |
      ⟨_, rfl⟩ | ⟨rfl, rfl⟩
  · refine ⟨?_, hc.2⟩
    intro o ho
    simp only [memOps, List.mem_append] at ho
    rcases ho with ho | ho
    · exact hc.1 o (by simp only [memOps, List.mem_append]; exact Or.inl ho)
    · exact good_replSrc g hr (fun o' ho' => hc.1 o' (by simp only [memOps, List.mem_append]; exact Or.inr ho')) o ho
  · refine ⟨?_, by rw [dstOk_mkArith]; have := hc.2; rw [dstOk_mkArith] at this; exact this⟩
    intro o ho
    have hc1 := hc.1
    rw [memOps_mkArith] at ho hc1
    simp only [List.mem_append] at ho hc1
    rcases ho with (ho | ho) | ho
    · exact hc1 o (Or.inl (Or.inl ho))
    · exact good_replSrc g0 hr (fun o' ho' => hc1 o' (Or.inl (Or.inr ho'))) o ho
    · exact good_replSrc g1 hr (fun o' ho' => hc1 o' (Or.inr ho')) o ho
  · exact hc
  · exact hc

theorem good_setDst {x : Instr w} {t : Nat} (h : dstTmp? x = some t) (hx : GoodI P x) (r : Nat) :
    GoodI P (setDst x (.tmp r)) := by
  cases x <;> simp [dstTmp?] at h
  all_goals
    refine ⟨?_, rfl⟩
    intro o ho
    apply hx.1 o
    simp only [setDst, memOps, locMem, List.nil_append, List.mem_append] at ho ⊢
    first
      | exact Or.inr ho
      | (rcases ho with ho | ho
         · exact Or.inl (Or.inr ho)
         · exact Or.inr ho)

theorem good_step {s : St w} {k : Nat} {a a' : ASt w} (K : StepKind s k a a')
    (hg : AllGood P a.st.insts) (hr : ReplGood P a) : AllGood P a'.st.insts ∧ ReplGood P a' := by
  cases K with
  | other x hx hpl hq hi hr' =>
    refine ⟨?_, fun t l hl => hr t l (hr' t l hl)⟩
    intro j y hy
    by_cases e : j = k
    · subst e; rw [hq] at hy; cases hy; exact hg j x hx
    · exact hg j y (by rw [← hi j e]; exact hy)
  | fuse op t s0 s1 f m hx hPk hkf hPf hfa hq hf hi hnone hr' =>
    have gk := hg k _ hx
    have gf := hg f _ hfa
    have hm : P m := gf.1 m (by simp [memOps, locMem])
    have gk1 := gk.1
    rw [memOps_mkArith] at gk1
    refine ⟨?_, ?_⟩
    · intro j y hy
      by_cases e : j = k
      · subst e; rw [hq] at hy; cases hy; exact goodI_noop P
      · by_cases e' : j = f
        · subst e'
          rw [hf] at hy; cases hy
          refine ⟨?_, by rw [dstOk_mkArith]; rfl⟩
          intro o ho
          rw [memOps_mkArith] at ho
          simp only [List.mem_append, locMem, List.mem_singleton] at ho
          rcases ho with (ho | ho) | ho
          · rw [ho]; exact hm
          · exact gk1 o (by simp only [List.mem_append]; exact Or.inl (Or.inr ho))
          · exact gk1 o (by simp only [List.mem_append]; exact Or.inr ho)
        · exact hg j y (by rw [← hi j e e']; exact hy)
    · intro t' l hl
      rcases hr'.2 t' l hl with ⟨_, rfl⟩ | h
      · intro o ho
        simp only [locMem, List.mem_singleton] at ho
        rw [ho]; exact hm
      · exact hr t' l h
  | rw cur new q hx hpl hn hq hi hd =>
    have gnew : GoodI P new := good_rwInst hn hr (hg k cur hx)
    have hins : ∀ (q' : Instr w), a'.st.insts[k]? = some q' → GoodI P q' → AllGood P a'.st.insts := by
      intro q' hq' gq' j y hy
      by_cases e : j = k
      · subst e; rw [hq'] at hy; cases hy; exact gq'
      · exact hg j y (by rw [← hi j e]; exact hy)
    rcases hd with ⟨_, rfl, h⟩ | ⟨t, ht, _, _, ⟨rfl, h⟩ | ⟨src, rfl, _, rfl, h⟩ | ⟨r, rfl, h⟩⟩
    · exact ⟨hins _ hq gnew, fun t l hl => hr t l (h t l hl)⟩
    · exact ⟨hins _ hq (goodI_noop P), fun t l hl => hr t l (h t l hl)⟩
    · refine ⟨hins _ hq (goodI_noop P), ?_⟩
      intro t' l hl
      rcases h.2 t' l hl with ⟨_, rfl⟩ | h'
      · intro o ho
        exact gnew.1 o (by simp only [memOps, List.mem_append]; exact Or.inr ho)
      · exact hr t' l h'
    · refine ⟨hins _ hq (good_setDst ht gnew r), ?_⟩
      intro t' l hl
      rcases h.2 t' l hl with ⟨_, rfl⟩ | h'
      · intro o ho; cases ho
      · exact hr t' l h'

theorem allGood_allocateTemps {s s' : St w} {numRegs : Nat} (hp : AllocPre s)
    (h : allocateTemps numRegs s = .ok s') (hg : AllGood P s.insts) : AllGood P s'.insts := by
  obtain ⟨tr, T, rfl⟩ := trace_of_allocateTemps h
  have key : ∀ k, k ≤ s.insts.size → AllGood P (tr k).st.insts ∧ ReplGood P (tr k) := by
    intro k
    induction k with
    | zero =>
      intro _
      rw [T.init]
      exact ⟨hg, fun t l hl => by simp [initASt, alGet] at hl⟩
    | succ k ih =>
      intro hk
      obtain ⟨i1, i2⟩ := ih (by omega)
      exact good_step (trace_sum hp T (by omega)).kind i1 i2
  exact (key _ (Nat.le_refl _)).1

/-! ### `parameter_reordering` -/

theorem comm_mem (d a b : Loc w) {a' b' : Loc w} (h : reorderComm d a b = (a', b')) :
    ∀ o, o ∈ locMem d ++ locMem a' ++ locMem b' → o ∈ locMem d ++ locMem a ++ locMem b := by
  intro o ho
  rcases reorderComm_cases d a b with e | e <;> rw [e] at h <;> cases h
  · exact ho
  · simp only [List.mem_append] at ho ⊢
    rcases ho with (ho | ho) | ho
    · exact Or.inl (Or.inl ho)
    · exact Or.inr ho
    · exact Or.inl (Or.inr ho)

theorem good_reorderInst {x : Instr w} (hx : GoodI P x) : GoodI P (reorderInst x) := by
  cases x with
  | add d a b =>
    cases a <;> cases b <;> simp only [reorderInst] <;>
      first
        | exact ⟨fun o ho => hx.1 o (comm_mem d _ _ rfl o ho), hx.2⟩
        | exact ⟨fun o ho => hx.1 o (by simp only [memOps, locMem, List.append_nil] at ho ⊢; exact ho), hx.2⟩
  | mul d a b =>
    cases a <;> cases b <;> simp only [reorderInst] <;>
      first
        | exact ⟨fun o ho => hx.1 o (comm_mem d _ _ rfl o ho), hx.2⟩
        | exact ⟨fun o ho => hx.1 o (by simp only [memOps, locMem, List.append_nil] at ho ⊢; exact ho), hx.2⟩
  | sub d a b =>
    cases b with
    | imm c =>
      have key : ∀ a : Loc w, GoodI P (.sub d a (.imm c)) →
          GoodI P (.add d (reorderComm d a (.imm (-c))).1 (reorderComm d a (.imm (-c))).2) := by
        intro a ha
        refine ⟨fun o ho => ha.1 o ?_, ha.2⟩
        have := comm_mem d a (.imm (-c)) rfl o ho
        simp only [locMem, List.append_nil] at this
        simp only [memOps, locMem, List.append_nil]
        exact this
      cases a with
      | imm a0 =>
        simp only [reorderInst]
        exact ⟨fun o ho => hx.1 o (by simp only [memOps, locMem, List.append_nil] at ho ⊢; exact ho), hx.2⟩
      | tmp i => simp only [reorderInst]; exact key _ hx
      | mem o => simp only [reorderInst]; exact key _ hx
      | memZero o => simp only [reorderInst]; exact key _ hx
    | tmp i => cases a <;> exact hx
    | mem o => cases a <;> exact hx
    | memZero o => cases a <;> exact hx
  | _ => exact hx

theorem allGood_parameterReordering {s : St w} (hg : AllGood P s.insts) :
    AllGood P (parameterReordering s).insts := by
  intro i x' hx'
  simp only [parameterReordering, Array.getElem?_map, Option.map_eq_some_iff] at hx'
  obtain ⟨a, ha, rfl⟩ := hx'
  exact good_reorderInst (hg i a ha)

/-! ### `zeroing_move_detection` -/

theorem locMem_zeroSrc (Z : List (Int × Nat)) (l : Loc w) : locMem (zeroSrc Z l).1 = locMem l := by
  cases l with
  | mem m =>
    simp only [zeroSrc]
    cases alGet Z m <;> rfl
  | _ => rfl

theorem allGood_blank {A : Array (Instr w)} (h : AllGood P A) (jo : Option Nat) : AllGood P (blank A jo) := by
  cases jo with
  | none => exact h
  | some j => exact allGood_set h (goodI_noop P) j

theorem good_copy_zero (Z : List (Int × Nat)) {d src : Loc w} (h : GoodI P (.copy d src)) :
    GoodI P (.copy d (zeroSrc Z src).1) := by
  refine ⟨?_, h.2⟩
  intro o ho
  apply h.1 o
  simp only [memOps, List.mem_append] at ho ⊢
  rcases ho with ho | ho
  · exact Or.inl ho
  · rw [locMem_zeroSrc] at ho; exact Or.inr ho

theorem good_arith_zero (Z Z' : List (Int × Nat)) {op : BcGen.Op} {d s0 s1 : Loc w}
    (h : GoodI P (mkArith op d s0 s1)) : GoodI P (mkArith op d (zeroSrc Z s0).1 (zeroSrc Z' s1).1) := by
  refine ⟨?_, by rw [dstOk_mkArith]; have := h.2; rw [dstOk_mkArith] at this; exact this⟩
  intro o ho
  apply h.1 o
  rw [memOps_mkArith, locMem_zeroSrc, locMem_zeroSrc] at ho
  rw [memOps_mkArith]
  exact ho

theorem good_zmdPair {B : Array (Instr w)} {i : Nat} {inst : Instr w} (Z : List (Int × Nat))
    (hg : AllGood P B) (hi : B[i]? = some inst) : AllGood P (zmdPair i B Z inst).1 := by
  have gi := hg i inst hi
  cases inst with
  | copy d src =>
    simp only [zmdPair]
    exact allGood_blank (allGood_set hg (good_copy_zero _ gi) i) _
  | add d s0 s1 =>
    simp only [zmdPair, arith?]
    exact allGood_blank (allGood_blank (allGood_set hg (good_arith_zero (op := .add) _ _ gi) i) _) _
  | sub d s0 s1 =>
    simp only [zmdPair, arith?]
    exact allGood_blank (allGood_blank (allGood_set hg (good_arith_zero (op := .sub) _ _ gi) i) _) _
  | mul d s0 s1 =>
    simp only [zmdPair, arith?]
    exact allGood_blank (allGood_blank (allGood_set hg (good_arith_zero (op := .mul) _ _ gi) i) _) _
  | _ => exact hg

theorem allGood_zmdLoop : ∀ (k : Nat) (s : St w) (Z : List (Int × Nat)) (s' : St w),
    zmdLoop k s Z = .ok s' → AllGood P s.insts → AllGood P s'.insts := by
  intro k
  induction k with
  | zero =>
    intro s Z s' h hg
    simp only [zmdLoop, Except.ok.injEq] at h
    subst h; exact hg
  | succ i ih =>
    intro s Z s' h hg
    rw [zmdLoop, zmdStep_eq] at h
    cases hi : s.insts[i]? with
    | none => simp [hi] at h
    | some inst =>
      cases ht : s.isTarget[i]? with
      | none => simp [hi, ht] at h
      | some t =>
        simp only [hi, ht] at h
        exact ih _ _ s' h (good_zmdPair Z hg hi)

theorem allGood_zeroingMoveDetection {s s' : St w} (h : zeroingMoveDetection s = .ok s')
    (hg : AllGood P s.insts) : AllGood P s'.insts :=
  allGood_zmdLoop _ s [] s' h hg

/-! ### `strip_noops` -/

theorem memOps_fixInst (B : Array (Instr w)) (i : Nat) (x : Instr w) : memOps (fixInst B i x) = memOps x := by
  cases x <;> rfl
theorem dstOk_fixInst (B : Array (Instr w)) (i : Nat) (x : Instr w) : dstOk (fixInst B i x) = dstOk x := by
  cases x <;> rfl

theorem allGood_strip {p q : Program w} (R : StripRel p q) (hg : AllGood P p.insts) : AllGood P q.insts := by
  intro m y hy
  obtain ⟨i, x, g1, _, _, rfl⟩ := stripRel_inst R hy
  have := hg i x g1
  exact ⟨by rw [memOps_fixInst]; exact this.1, by rw [dstOk_fixInst]; exact this.2⟩

/-- The branches of the stripped program stay inside it. -/
theorem targetsOk_strip {p q : Program w} (R : StripRel p q) : TargetsOk q.insts := by
  apply targetsOk_of_succs
  intro m y hy
  obtain ⟨i, x, g1, g2, g3, rfl⟩ := stripRel_inst R hy
  obtain ⟨ss, _, hs'⟩ := succs_fixInst R.targets g1 g2
  rw [R.stripped.size, ← g3, hs']
  rfl

/-! ### the late passes -/

theorem latePasses_good (s s4 : St w) (h : LatePre s) (fuse : Bool) (h4 : latePasses fuse s = .ok s4)
    (hg : AllGood P s.insts) : AllGood P s4.insts ∧ TargetsOk s4.insts := by
  have hT1 := parameterReordering_targetsOk s h.targets
  have hZ1 := parameterReordering_noMemZero s h.noZero
  have hL1 : (parameterReordering s).live.size = (parameterReordering s).insts.size := by
    rw [parameterReordering_live, parameterReordering_size]; exact h.live
  have hg1 := allGood_parameterReordering hg
  have fin : ∀ sz : St w, AllGood P sz.insts → sz.live.size = sz.insts.size → TargetsOk sz.insts →
      stripNoops sz = .ok s4 → AllGood P s4.insts ∧ TargetsOk s4.insts := by
    intro sz hgz h3 h5 h6
    have R := stripNoops_rel sz s4 h3 h5 h6 0 0 0 0 0 0
    exact ⟨allGood_strip (p := progOf sz 0 0 0) (q := progOf s4 0 0 0) R hgz, targetsOk_strip R⟩
  cases fuse with
  | false =>
    simp only [latePasses, Bool.false_eq_true, if_false, pure_bind] at h4
    exact fin _ hg1 hL1 hT1 h4
  | true =>
    obtain ⟨tg, r1, r2⟩ := recordBranchTargets_spec (parameterReordering s) hT1
    obtain ⟨s3, z1, z2, _, z4, z5, _⟩ := zeroingMoveDetection_preserves_of_pre
      { parameterReordering s with isTarget := tg } ⟨r2, hZ1⟩
    simp only [latePasses, if_true, r1, bind, Except.bind, z1] at h4
    exact fin s3 (allGood_zeroingMoveDetection z1 hg1) (by rw [z2, z4]; exact hL1) z5 h4

end Local
end C02
end Hpbf
