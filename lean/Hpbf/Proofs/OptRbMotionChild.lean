/-
Rebuild-round proofs, stage 3: the child state after the loop-motion phase of `finishLoop`.

All pending operations are removed from the child (`motionFold_sub`), then `performAll sub (s :: ps) 0 toPerform`
puts back the part `D` that stays in the loop.  The resulting child represents the body `sub.insts ++ [calc D]`
(the emitted code of the original child, in the coordinates of the parent state, followed by `D`):
`childPre_motion`.
-/
import Hpbf.Proofs.OptRbAnal

namespace Hpbf
namespace OptProof
open Opt OptSem Ir

variable {w : Nat}

/-! ### the child after the loop over the pending variables -/

theorem motionFold_sub {s : Rebuild w} {ps : List (Rebuild w)} {R C : List Int} {lin : List (Int × Expr w)}
    {pset : List Int} {L : OptLoop w} (vars : List Int)
    {acc res : Rebuild w × List (Int × Expr w) × List (Int × Expr w) × List (Int × Expr w)} {os os' : Orders}
    (h : (vars.foldlM (OptLoop.motionStepM s ps R C lin pset L) acc).run os = .ok (res, os'))
    (hwf : Wf acc.1) :
    Wf res.1 ∧ SameButPend acc.1 res.1 ∧
    ∀ k, mGet res.1.pending k = if k ∈ vars then none else mGet acc.1.pending k := by
  induction vars generalizing acc os with
  | nil =>
    rw [List.foldlM_nil, run_pure] at h
    cases h
    exact ⟨hwf, SameButPend.refl _, fun k => by simp⟩
  | cons v vars ih =>
    rw [List.foldlM_cons, run_bind_ok] at h
    obtain ⟨acc1, os1, h1, h2⟩ := h
    obtain ⟨sub, B, D, A⟩ := acc
    obtain ⟨_, sub', p, b, d, a, hrm, _, hres⟩ :=
      OptLoop.motionStepM_ok s ps R C lin pset L sub B D A v os os1 acc1 h1
    have e1 : acc1.1 = (removePending sub v).1 := by rw [hres, hrm]
    have hwf1 : Wf acc1.1 := by rw [e1]; exact removePending_wf hwf v
    obtain ⟨w1, w2, w3⟩ := ih h2 hwf1
    refine ⟨w1, ?_, ?_⟩
    · have := removePending_same sub v
      rw [← e1] at this
      exact this.trans w2
    · intro k
      rw [w3 k, e1, removePending_get hwf v k]
      by_cases hk : k ∈ vars
      · simp [hk]
      · by_cases hv : v = k
        · subst hv; simp
        · have : k ≠ v := fun h => hv h.symm
          simp [hk, hv, this]

/-- After the loop over ALL pending variables nothing is pending. -/
theorem motionFold_sub_all {s : Rebuild w} {ps : List (Rebuild w)} {R C : List Int} {lin : List (Int × Expr w)}
    {pset : List Int} {L : OptLoop w} {sub sub1 : Rebuild w} {B D A : List (Int × Expr w)} {os os' : Orders}
    (h : ((pendingSorted sub sub).foldlM (OptLoop.motionStepM s ps R C lin pset L) (sub, [], [], [])).run os
      = .ok ((sub1, B, D, A), os'))
    (hwf : Wf sub) : Wf sub1 ∧ SameButPend sub sub1 ∧ sub1.pending = [] := by
  obtain ⟨w1, w2, w3⟩ := motionFold_sub _ h hwf
  refine ⟨w1, w2, mGet_all_none_nil _ ?_⟩
  intro k
  have := w3 k
  simp only at this
  rw [this]
  by_cases hk : k ∈ pendingSorted sub sub
  · simp [hk]
  · rw [if_neg hk]
    rw [OptLoop.mem_pendingSorted] at hk
    exact (mGet_none_iff _ _).2 hk

/-! ### validity and footprints under a change of coordinates -/

theorem FootStepV.weaken {V V' : State w → Prop} {s s' : Rebuild w} {new : List (Instr w)}
    (h : FootStepV V s s' new) (hv : ∀ σ, V' σ → V σ) : FootStepV V' s s' new :=
  fun hs K hK σ1 σ2 v1 hag => h hs K hK σ1 σ2 (hv σ1 v1) hag

theorem FootBadV.weaken {V V' : State w → Prop} {s s' : Rebuild w} {new : List (Instr w)}
    (h : FootBadV V s s' new) (hv : ∀ σ, V' σ → V σ) : FootBadV V' s s' new :=
  fun hs K hK σ1 σ2 v1 hag hb => h hs K hK σ1 σ2 (hv σ1 v1) hag hb

theorem FootFrameV.weaken {V V' : State w → Prop} {s s' : Rebuild w} {new : List (Instr w)}
    (h : FootFrameV V s s' new) (hv : ∀ σ, V' σ → V σ) : FootFrameV V' s s' new :=
  fun hs K hK σ1 σ2 v1 hag b hex => h hs K hK σ1 σ2 (hv σ1 v1) hag b hex

theorem FootAll.weaken {V V' : State w → Prop} {s s' : Rebuild w} {new : List (Instr w)}
    (h : FootAll V s s' new) (hv : ∀ σ, V' σ → V σ) : FootAll V' s s' new :=
  ⟨h.1.weaken hv, h.2.1.weaken hv, h.2.2.1.weaken hv, h.2.2.2.1, h.2.2.2.2⟩

/-- The footprint notions only look at `subShift`, `reads` and `written` of the two states. -/
theorem FootAll.congr {V : State w → Prop} {a a' b b' : Rebuild w} {new : List (Instr w)}
    (h : FootAll V a b new)
    (ha1 : a'.subShift = a.subShift) (ha2 : a'.reads = a.reads) (ha3 : a'.written = a.written)
    (hb1 : b'.subShift = b.subShift) (hb2 : b'.reads = b.reads) (hb3 : b'.written = b.written) :
    FootAll V a' b' new := by
  have hrest : ∀ K v, Rest K a' v ↔ Rest K a v := by
    intro K v; unfold Rest DefW; rw [ha3]
  have hrestb : ∀ K v, Rest K b' v ↔ Rest K b v := by
    intro K v; unfold Rest DefW; rw [hb3]
  obtain ⟨h1, h2, h3, h4, h5⟩ := h
  refine ⟨?_, ?_, ?_, ?_, ?_⟩
  · intro hs K hK σ1 σ2 v1 hag
    refine (h1 (hb1 ▸ hs) K (fun v hv => by rw [← hb2]; exact hK v hv) σ1 σ2 v1
      (hag.mono (fun v hv => (hrest K v).1 hv))).mono ?_
    intro x y hxy
    exact hxy.mono (fun v hv => (hrestb K v).2 hv)
  · intro hs K hK σ1 σ2 v1 hag hb
    exact h2 (hb1 ▸ hs) K (fun v hv => by rw [← hb2]; exact hK v hv) σ1 σ2 v1
      (hag.mono (fun v hv => (hrest K v).1 hv)) hb
  · intro hs K hK σ1 σ2 v1 hag x hex
    obtain ⟨p, m⟩ := h3 (hb1 ▸ hs) K (fun v hv => by rw [← hb2]; exact hK v hv) σ1 σ2 v1
      (hag.mono (fun v hv => (hrest K v).1 hv)) x hex
    exact ⟨p, fun v hv1 hv2 => m v (by rw [← hb3]; exact hv1) (by rw [← hb2]; exact hv2)⟩
  · refine ⟨fun v hv => ?_, fun hs => ?_⟩
    · rw [hb2]; rw [ha2] at hv; exact h4.1 v hv
    · rw [ha1]; exact h4.2 (hb1 ▸ hs)
  · intro hs v hv
    rw [hb3]; rw [ha3] at hv
    exact h5 (hb1 ▸ hs) v hv

/-- A state valid at pointer offset `0` is valid at offset `shP` for the moved source state. -/
theorem relAt_shift_coord {sh : Int} {s : Rebuild w} {ps : List (Rebuild w)} {M0 : Mem w} {σE σS : State w}
    (h : RelAt 0 s ps M0 σE σS) : RelAt sh s ps M0 σE (σS.mov sh) :=
  ⟨h.tr, h.env, by show σS.ptr + sh = σE.ptr + sh; rw [h.ptr]; omega, h.nr, h.inv⟩

theorem relAt_unshift_coord {sh : Int} {s : Rebuild w} {ps : List (Rebuild w)} {M0 : Mem w} {σE σS : State w}
    (h : RelAt sh s ps M0 σE σS) : RelAt 0 s ps M0 σE (σS.mov (-sh)) :=
  ⟨h.tr, h.env, by show σS.ptr + -sh = σE.ptr + 0; rw [h.ptr]; omega, h.nr, h.inv⟩

/-! ### the new child -/

/-- The child of the transformed loop. `Gc` is translated to the coordinates of the parent state. -/
theorem childPre_motion {Gc : State w → Prop} {shP shC cS : Int} {bodyS newC : List (Instr w)}
    {s : Rebuild w} {ps : List (Rebuild w)} {sub0 sub sub1 sub' : Rebuild w} {D : List (Int × Expr w)}
    {os os' : Orders}
    (hall : StepAll Gc shP shC (s :: ps) sub0 sub bodyS newC)
    (h0 : sub0.insts = []) (hw0 : sub0.written = []) (hp0 : sub0.pending = [])
    (hns : sub.subShift = false) (hkvs : KnownVars sub)
    (hentry : ∀ σE σS : State w, SameMem shP σS σE → σS.rd cS ≠ 0#w → Gc σS →
      ∃ M0, RelAt shP sub0 (s :: ps) M0 σE σS)
    (hwf1 : Wf sub1) (hsame : SameButPend sub sub1) (hpend1 : sub1.pending = [])
    (h5 : (performAll sub1 (s :: ps) 0 D).run os = .ok (sub', os')) :
    ChildPre (fun σ => Gc (σ.mov shP)) 0 0 (s :: ps) sub0 (forgetParent sub') (cS + shP)
      (newC ++ [.calc D]) ∧
    Wf sub' ∧ sub'.shift = sub.shift ∧ sub'.subShift = false ∧ sub'.noReturn = sub.noReturn ∧
    (∀ v e, mGet sub'.written v = some (.known e) → ∀ x ∈ Expr.variables e, x ∈ sub'.reads) := by
  obtain ⟨wf', hdr', nr', newD, hiD, hnbD, _, hstD⟩ := performAll_stepN hwf1 h5
  obtain ⟨newD', hiD', _, hfootD⟩ := performAll_footAll (V := fun _ => True) h5 hwf1
  have hnew : newD' = newD := List.append_cancel_left (hiD'.symm.trans hiD)
  subst hnew
  have hinstsC : sub.insts = newC := by rw [hall.insts, h0]; rfl
  have hinsts1 : sub1.insts = newC := by rw [hsame.2.2.2.2.2.2.2.2.1]; exact hinstsC
  have hinsts' : (forgetParent sub').insts = newC ++ newD' := by
    show sub'.insts = _
    rw [hiD, hinsts1]
  have hss1 : sub1.subShift = false := by rw [hsame.2.2.2.2.1]; exact hns
  have hss' : sub'.subShift = false := by rw [hdr'.2.2.2.2]; exact hss1
  -- validity in the two coordinate systems
  have hvalid : ∀ σ, ValidG (fun σ => Gc (σ.mov shP)) 0 sub0 (s :: ps) σ → ValidG Gc shP sub0 (s :: ps) σ := by
    rintro σ ⟨M0, σS, hrel, hg⟩
    exact ⟨M0, σS.mov shP, relAt_shift_coord hrel, hg⟩
  -- footprints
  have hfootC : FootAll (ValidG Gc shP sub0 (s :: ps)) sub0 sub newC :=
    ⟨hall.foot, hall.bad, hall.frame, hall.mono, hall.keys⟩
  have hfoot1 : FootAll (ValidG (fun σ => Gc (σ.mov shP)) 0 sub0 (s :: ps)) sub0 sub1 newC :=
    (hfootC.weaken hvalid).congr rfl rfl rfl hsame.2.2.2.2.1 hsame.2.2.2.2.2.2.1 hsame.2.2.2.2.2.2.2.1
  have hfoot' : FootAll (ValidG (fun σ => Gc (σ.mov shP)) 0 sub0 (s :: ps)) sub0 (forgetParent sub')
      (newC ++ newD') :=
    (hfoot1.trans hfootD (fun _ _ _ _ => trivial)).congr rfl rfl rfl rfl rfl rfl
  -- the known variables
  have hkv1 : KnownVars sub1 := by
    intro _ v e hv x hx
    rw [hsame.2.2.2.2.2.2.1]
    rw [hsame.2.2.2.2.2.2.2.1] at hv
    exact hkvs hns v e hv x hx
  have hkv' : KnownVars sub' := (performAll_wk h5 hwf1).known hkv1
  refine ⟨⟨?_, ?_, ?_, ?_, hss', hw0, ?_, ⟨wf'.pend, wf'.writ, wf'.rev, wf'.revOk⟩⟩, wf',
    hdr'.2.2.1.trans hsame.2.2.1, hss', nr'.trans hsame.2.2.2.2.2.1, hkv' hss'⟩
  · -- representation
    intro M0 σE σS₂ hrel₂ hg₂
    have hrelP : RelAt shP sub0 (s :: ps) M0 σE (σS₂.mov shP) := relAt_shift_coord hrel₂
    obtain ⟨hsO, hbO⟩ := hall.step.2 M0 σE _ hrelP hg₂
    have hV : ValidG Gc shP sub0 (s :: ps) σE := ⟨M0, _, hrelP, hg₂⟩
    have hmem : ∀ v, memE σE v = memE σS₂ v := by
      intro v
      have := congrFun hrel₂.inv.pend v
      rw [hp0, par_nil] at this
      rw [← this]
      show σS₂.tape.get (σE.ptr + v) = σS₂.tape.get (σS₂.ptr + v)
      rw [hrel₂.ptr, Int.add_zero]
    have hag : AgreeOff (Rest (fun _ => False) sub0) σE σS₂ :=
      ⟨by rw [hrel₂.ptr, Int.add_zero], hrel₂.env.symm, hrel₂.tr.symm, fun v _ => hmem v⟩
    have hf := hall.foot hns (fun _ => False) (fun _ h => h.elim) σE σS₂ hV hag
    rw [hinsts']
    refine ⟨Sim.append hf.symm.fin_strengthen ?_, ?_⟩
    · rintro y₂ y ⟨hyy, _, hexy⟩
      obtain ⟨a, _, M0', hr', hk'⟩ := hsO.finR y hexy
      obtain ⟨hM0, hyp⟩ := hk' hns
      subst hM0
      have hrel1 : RelAt 0 sub1 (s :: ps) M0' y y₂ := by
        refine ⟨hyy.2.2.1.symm, hyy.2.1.symm, by rw [← hyy.1, Int.add_zero], ?_, ?_, ?_, ?_⟩
        · rw [hsame.2.2.2.2.2.1]; exact hr'.nr
        · rw [hpend1, par_nil]
          funext v
          show y₂.tape.get (y.ptr + v) = memE y v
          rw [hyy.1]
          exact (hyy.2.2.2 v (fun h => h.1.elim)).symm
        · intro v
          have := hr'.inv.writ v
          rw [hsame.2.2.2.2.2.2.2.1]
          exact this
        · exact hr'.inv.pk.congr ⟨hsame.1, hsame.2.1, hsame.2.2.1, hsame.2.2.2.1, hsame.2.2.2.2.1⟩
      refine (hstD M0' y y₂ hrel1).1.mono ?_
      rintro p q ⟨M0'', hr'', hk''⟩
      refine ⟨M0'', hr''.forget, fun hc => ?_⟩
      obtain ⟨k1, k2⟩ := hk'' hc
      exact ⟨k1, k2.trans hyp⟩
    · intro hbad
      rcases bad_append.1 hbad with h1 | ⟨σ1, _, h2⟩
      · exact hbO h1
      · exact not_bad_of_noBlocks hnbD _ h2
  · rw [hinsts']; exact hfoot'.1
  · rw [hinsts']; exact hfoot'.2.1
  · rw [hinsts']; exact hfoot'.2.2.1
  · -- entry
    intro σE σS hm hne hg
    have hmP : SameMem shP (σS.mov shP) σE :=
      ⟨hm.1, hm.2.1, by show σS.ptr + shP = σE.ptr + shP; rw [hm.2.2.1]; omega, hm.2.2.2⟩
    have hneP : (σS.mov shP).rd cS ≠ 0#w := by
      have : (σS.mov shP).rd cS = σS.rd (cS + shP) := by
        show σS.tape.get (σS.ptr + shP + cS) = σS.tape.get (σS.ptr + (cS + shP))
        congr 1; omega
      rw [this]; exact hne
    obtain ⟨M0, hre⟩ := hentry σE _ hmP hneP hg
    refine ⟨M0, ?_⟩
    have := relAt_unshift_coord hre
    have e : (σS.mov shP).mov (-shP) = σS := by
      cases σS
      simp [State.mov]
    rw [e] at this
    exact this

end OptProof
end Hpbf
