/-
Rebuild-round proofs: the normal-form invariant.  Every expression in the optimizer state is `Expr.Canon`
(`CanonSt`), every emitted `calc` has distinct targets and canonical right-hand sides (`GoodL`).
Part 1: definitions, accessors, the mutators that do not consume the oracle.
-/
import Hpbf.Proofs.OptRbStraight
import Hpbf.Proofs.OptLoopTop

namespace Hpbf
namespace OptProof
open Opt OptSem Ir

variable {w : Nat}

/-! ### Definitions -/

/-- every expression of the state is in normal form -/
def CanonSt (s : Rebuild w) : Prop :=
  (∀ v e, mGet s.pending v = some e → Expr.Canon e) ∧
  (∀ v e, mGet s.written v = some (.known e) → Expr.Canon e)

mutual
/-- one instruction: every `calc` (at any depth) has distinct targets and canonical right-hand sides -/
def GoodI : Instr w → Prop
  | .calc g => (g.map (·.1)).Nodup ∧ ∀ ve ∈ g, Expr.Canon ve.2
  | .loop _ _ body _ => GoodL body
  | .ifnz _ _ body => GoodL body
  | .output _ => True
  | .input _ => True
/-- every `calc` (at any depth) has distinct targets and canonical right-hand sides -/
def GoodL : List (Instr w) → Prop
  | [] => True
  | i :: rest => GoodI i ∧ GoodL rest
end

mutual
/-- one instruction: all right-hand sides (at any depth) canonical -/
def CanonI : Instr w → Prop
  | .calc g => ∀ ve ∈ g, Expr.Canon ve.2
  | .loop _ _ body _ => CanonL body
  | .ifnz _ _ body => CanonL body
  | .output _ => True
  | .input _ => True
/-- all right-hand sides (at any depth) canonical; no condition on the targets -/
def CanonL : List (Instr w) → Prop
  | [] => True
  | i :: rest => CanonI i ∧ CanonL rest
end

/-- the right-hand sides of one simultaneous assignment are canonical -/
def CanonCalcs (calcs : List (Int × Expr w)) : Prop := ∀ ve ∈ calcs, Expr.Canon ve.2

theorem goodL_nil : GoodL ([] : List (Instr w)) := by rw [GoodL]; trivial

theorem goodL_cons {i : Instr w} {l : List (Instr w)} : GoodL (i :: l) ↔ GoodI i ∧ GoodL l := by
  rw [GoodL]

theorem goodL_append {a b : List (Instr w)} : GoodL (a ++ b) ↔ GoodL a ∧ GoodL b := by
  induction a with
  | nil => simp [goodL_nil]
  | cons i a ih => rw [List.cons_append, goodL_cons, goodL_cons, ih, and_assoc]

theorem goodL_single {i : Instr w} : GoodL [i] ↔ GoodI i := by
  rw [goodL_cons]; simp [goodL_nil]

theorem goodL_calc {g : List (Int × Expr w)} :
    GoodL [Instr.calc g] ↔ (g.map (·.1)).Nodup ∧ ∀ ve ∈ g, Expr.Canon ve.2 := by
  rw [goodL_single, GoodI]

theorem goodL_output (src : Int) : GoodL [(Instr.output src : Instr w)] := by
  rw [goodL_single, GoodI]; trivial

theorem goodL_input (dst : Int) : GoodL [(Instr.input dst : Instr w)] := by
  rw [goodL_single, GoodI]; trivial

theorem goodL_loop {c sh : Int} {body : List (Instr w)} {o : Bool} :
    GoodL [Instr.loop c sh body o] ↔ GoodL body := by
  rw [goodL_single, GoodI]

theorem goodL_ifnz {c sh : Int} {body : List (Instr w)} :
    GoodL [Instr.ifnz c sh body] ↔ GoodL body := by
  rw [goodL_single, GoodI]

mutual
theorem goodI_noDup : ∀ (i : Instr w), GoodI i → C01Dse.noDupI i = true
  | .output _, _ => by simp [C01Dse.noDupI]
  | .input _, _ => by simp [C01Dse.noDupI]
  | .calc g, h => by
    rw [GoodI] at h
    simp [C01Dse.noDupI, h.1]
  | .loop _ _ body _, h => by
    rw [GoodI] at h
    rw [C01Dse.noDupI]; exact goodL_noDup body h
  | .ifnz _ _ body, h => by
    rw [GoodI] at h
    rw [C01Dse.noDupI]; exact goodL_noDup body h
/-- hence `C01Dse.NoDupTargets ⟨sh, l⟩` -/
theorem goodL_noDup : ∀ (l : List (Instr w)), GoodL l → C01Dse.noDupL l = true
  | [], _ => by rw [C01Dse.noDupL]
  | i :: rest, h => by
    rw [GoodL] at h
    rw [C01Dse.noDupL, goodI_noDup i h.1, goodL_noDup rest h.2]; rfl
end

theorem goodL_noDupTargets {l : List (Instr w)} (sh : Int) (h : GoodL l) :
    C01Dse.NoDupTargets (⟨sh, l⟩ : Block w) := goodL_noDup l h

theorem canonL_nil : CanonL ([] : List (Instr w)) := by rw [CanonL]; trivial

theorem canonL_cons {i : Instr w} {l : List (Instr w)} : CanonL (i :: l) ↔ CanonI i ∧ CanonL l := by
  rw [CanonL]

theorem canonL_append {a b : List (Instr w)} : CanonL (a ++ b) ↔ CanonL a ∧ CanonL b := by
  induction a with
  | nil => simp [canonL_nil]
  | cons i a ih => rw [List.cons_append, canonL_cons, canonL_cons, ih, and_assoc]

theorem canonL_single {i : Instr w} : CanonL [i] ↔ CanonI i := by
  rw [canonL_cons]; simp [canonL_nil]

theorem canonL_calc {g : List (Int × Expr w)} : CanonL [Instr.calc g] ↔ CanonCalcs g := by
  rw [canonL_single, CanonI]; rfl

theorem canonL_output (src : Int) : CanonL [(Instr.output src : Instr w)] := by
  rw [canonL_single, CanonI]; trivial

theorem canonL_input (dst : Int) : CanonL [(Instr.input dst : Instr w)] := by
  rw [canonL_single, CanonI]; trivial

theorem canonL_loop {c sh : Int} {body : List (Instr w)} {o : Bool} :
    CanonL [Instr.loop c sh body o] ↔ CanonL body := by
  rw [canonL_single, CanonI]

theorem canonL_ifnz {c sh : Int} {body : List (Instr w)} :
    CanonL [Instr.ifnz c sh body] ↔ CanonL body := by
  rw [canonL_single, CanonI]

mutual
theorem goodI_canonI : ∀ (i : Instr w), GoodI i → CanonI i
  | .output _, _ => by rw [CanonI]; trivial
  | .input _, _ => by rw [CanonI]; trivial
  | .calc g, h => by
    rw [GoodI] at h
    rw [CanonI]; exact h.2
  | .loop _ _ body _, h => by
    rw [GoodI] at h
    rw [CanonI]; exact goodL_canonL body h
  | .ifnz _ _ body, h => by
    rw [GoodI] at h
    rw [CanonI]; exact goodL_canonL body h
theorem goodL_canonL : ∀ (l : List (Instr w)), GoodL l → CanonL l
  | [], _ => canonL_nil
  | i :: rest, h => by
    rw [GoodL] at h
    rw [CanonL]; exact ⟨goodI_canonI i h.1, goodL_canonL rest h.2⟩
end

/-- emitted groups with distinct targets and canonical right-hand sides -/
theorem goodL_calcs {comps : List (List (Int × Expr w))}
    (hnd : ∀ g ∈ comps, (g.map (·.1)).Nodup) (hc : ∀ g ∈ comps, CanonCalcs g) :
    GoodL (comps.map Instr.calc) := by
  induction comps with
  | nil => exact goodL_nil
  | cons g comps ih =>
    rw [List.map_cons, goodL_cons, GoodI]
    exact ⟨⟨hnd g (by simp), hc g (by simp)⟩,
      ih (fun g' hg' => hnd g' (by simp [hg'])) (fun g' hg' => hc g' (by simp [hg']))⟩

/-! ### `shiftVars` keeps the normal form -/

theorem cmpVars_map_add (a b : List Int) (s : Int) :
    Expr.cmpVars (a.map (· + s)) (b.map (· + s)) = Expr.cmpVars a b := by
  induction a generalizing b with
  | nil => cases b <;> rfl
  | cons x a ih =>
    cases b with
    | nil => rfl
    | cons y b =>
      simp only [List.map_cons, Expr.cmpVars, ih]
      have h1 : (x + s < y + s) ↔ x < y := by omega
      have h2 : (y + s < x + s) ↔ y < x := by omega
      simp only [h1, h2]

theorem sortedVars_map_add {vs : List Int} (h : Expr.SortedVars vs) (s : Int) :
    Expr.SortedVars (vs.map (· + s)) := by
  unfold Expr.SortedVars at *
  rw [List.pairwise_map]
  exact h.imp (fun hab => by omega)

theorem canon_shiftVars {e : Expr w} (h : Expr.Canon e) (s : Int) : Expr.Canon (shiftVars e s) := by
  unfold Expr.Canon at *
  have hm : (shiftVars e s).map (·.vars) = (e.map (·.vars)).map (fun vs => vs.map (· + s)) := by
    unfold shiftVars
    rw [List.map_map, List.map_map]
    rfl
  rw [hm]
  obtain ⟨h1, h2⟩ := h
  constructor
  · intro vs hvs
    obtain ⟨vs0, hvs0, rfl⟩ := List.mem_map.1 hvs
    exact sortedVars_map_add (h1 vs0 hvs0) s
  · rw [List.pairwise_map]
    exact h2.imp (fun hab => by rw [cmpVars_map_add]; exact hab)

/-! ### Accessors -/

theorem CanonSt.of_eq {s s' : Rebuild w} (h : CanonSt s) (hp : s'.pending = s.pending)
    (hw : s'.written = s.written) : CanonSt s' := by
  unfold CanonSt; rw [hp, hw]; exact h

theorem canonSt_new (shift : Int) (cond : Option Int) (par : OptParent) (anal : Option (OptAnalysis w)) :
    CanonSt (Rebuild.new shift cond par anal) := by
  constructor <;> intro v e h <;> simp [Rebuild.new, mGet] at h

theorem getWritten_canon {s : Rebuild w} (hc : CanonSt s) (ps : List (Rebuild w)) {v : Int} {e : Expr w}
    (h : getWritten s ps v = some e) : Expr.Canon e := by
  unfold getWritten at h
  split at h
  · rename_i expr hw
    simp only [Option.some.injEq] at h
    subst h; exact hc.2 v _ hw
  · cases h
  · split at h
    · simp only [Option.some.injEq] at h
      subst h; exact Expr.canon_val _
    · simp only [Option.some.injEq] at h
      subst h; exact Expr.canon_var _

theorem getPending_canon {s : Rebuild w} (hc : CanonSt s) (ps : List (Rebuild w)) (v : Int) :
    Expr.Canon (getPending s ps v) := by
  unfold getPending
  split
  · rename_i expr hp; exact hc.1 v _ hp
  · split
    · exact Expr.canon_val _
    · exact Expr.canon_var _

theorem evalWritten_canon {s : Rebuild w} (hc : CanonSt s) (ps : List (Rebuild w)) {e e' : Expr w}
    (h : evalWritten s ps e = some e') (he : Expr.Canon e) : Expr.Canon e' := by
  unfold evalWritten at h
  split at h
  · exact Expr.canon_symbEvaluate _ (fun v e1 hv => getWritten_canon hc ps hv) h
  · simp only [Option.some.injEq] at h
    subst h; exact he

theorem evalPending_canon {s : Rebuild w} (hc : CanonSt s) (ps : List (Rebuild w)) {sh : Int}
    {e e' : Expr w} (h : evalPending s ps sh e = .ok e') (he : Expr.Canon e) : Expr.Canon e' := by
  unfold evalPending at h
  split at h
  · split at h
    · rename_i e0 hs
      cases h
      refine Expr.canon_symbEvaluate _ ?_ hs
      intro v e1 hv
      simp only [Option.some.injEq] at hv
      subst hv; exact getPending_canon hc ps _
    · cases h
  · split at h
    · cases h; exact canon_shiftVars he sh
    · cases h; exact he

theorem getBoth_canon {s : Rebuild w} (hc : CanonSt s) (ps : List (Rebuild w)) {v : Int} {e : Expr w}
    (h : getBoth s ps v = some e) : Expr.Canon e := by
  unfold getBoth at h
  split at h
  · rename_i expr hp
    exact evalWritten_canon hc ps h (hc.1 v _ hp)
  · exact getWritten_canon hc ps h

/-! ### Mutators -/

theorem removePending_canon {s : Rebuild w} (hwf : Wf s) (hc : CanonSt s) (var : Int) :
    CanonSt (removePending s var).1 := by
  have hs := removePending_same s var
  constructor
  · intro v e h
    rw [removePending_get hwf] at h
    split at h
    · cases h
    · exact hc.1 v e h
  · intro v e h
    rw [hs.2.2.2.2.2.2.2.1] at h
    exact hc.2 v e h

theorem removePending_snd_canon {s : Rebuild w} (hc : CanonSt s) (var : Int) {e : Expr w}
    (h : (removePending s var).2 = some e) : Expr.Canon e := by
  rw [removePending_snd] at h
  exact hc.1 var e h

theorem insertPending_canon {s : Rebuild w} (hwf : Wf s) (hc : CanonSt s) (ps : List (Rebuild w))
    (var : Int) {expr : Expr w} (he : Expr.Canon expr) : CanonSt (insertPending s ps var expr) := by
  have hs := insertPending_same s ps var expr
  constructor
  · intro v e h
    rw [insertPending_get hwf] at h
    split at h
    · split at h
      · cases h
      · simp only [Option.some.injEq] at h
        subst h; exact Expr.canon_normalize he
    · exact hc.1 v e h
  · intro v e h
    rw [hs.2.2.2.2.2.2.2.1] at h
    exact hc.2 v e h

theorem foldl_insertPending_canon {s : Rebuild w} (hwf : Wf s) (hc : CanonSt s) (ps : List (Rebuild w))
    (exprs : List (Int × Expr w)) (he : CanonCalcs exprs) :
    CanonSt (exprs.foldl (fun s ve => insertPending s ps ve.1 ve.2) s) := by
  induction exprs generalizing s with
  | nil => exact hc
  | cons ve exprs ih =>
    simp only [List.foldl_cons]
    exact ih (insertPending_wf hwf ps ve.1 ve.2) (insertPending_canon hwf hc ps ve.1 (he ve (by simp)))
      (fun ve' h' => he ve' (by simp [h']))

/-- `insertWritten` of a value that is canonical when it is `known`. -/
theorem insertWritten_canon {s : Rebuild w} (hc : CanonSt s) (var : Int) (val : OptWrite w)
    (hv : ∀ e, val = .known e → Expr.Canon e) : CanonSt (insertWritten s var val) := by
  have hs := insertWritten_same s var val
  constructor
  · intro v e h
    rw [hs.2.2.2.2.2.2.2.1] at h
    exact hc.1 v e h
  · intro v e h
    rw [insertWritten_written, mGet_mSet] at h
    split at h
    · simp only [Option.some.injEq] at h
      cases val with
      | known e0 =>
        simp only [OptWrite.known.injEq] at h
        subst h; exact Expr.canon_normalize (hv e0 rfl)
      | unknown => cases h
      | maybe => cases h
    · exact hc.2 v e h

theorem insertWritten_canon_known {s : Rebuild w} (hc : CanonSt s) (var : Int) {e : Expr w}
    (he : Expr.Canon e) : CanonSt (insertWritten s var (.known e)) :=
  insertWritten_canon hc var _ (fun e' h => by cases h; exact he)

theorem insertWritten_canon_unknown {s : Rebuild w} (hc : CanonSt s) (var : Int) :
    CanonSt (insertWritten s var .unknown) :=
  insertWritten_canon hc var _ (fun e' h => by cases h)

theorem insertWritten_canon_maybe {s : Rebuild w} (hc : CanonSt s) (var : Int) :
    CanonSt (insertWritten s var .maybe) :=
  insertWritten_canon hc var _ (fun e' h => by cases h)

theorem read_canon {s : Rebuild w} (hc : CanonSt s) (var : Int) : CanonSt (Opt.read s var) := by
  have hs := read_same s var
  exact hc.of_eq hs.2.2.2.2.2.2.2.1 hs.2.2.2.2.2.2.1

theorem readGroup_canon {s : Rebuild w} (hc : CanonSt s) (calcs : List (Int × Expr w)) :
    CanonSt (readGroup s calcs) := by
  have hs := readGroup_same s calcs
  exact hc.of_eq hs.2.2.2.2.2.2.2.1 hs.2.2.2.2.2.2.1

theorem mGet_foldl_mSet_cases {ν : Type} (l : List (Int × ν)) (m0 : List (Int × ν)) (v : Int) (x : ν)
    (h : mGet (l.foldl (fun m kv => mSet m kv.1 kv.2) m0) v = some x) :
    (v, x) ∈ l ∨ mGet m0 v = some x := by
  induction l generalizing m0 with
  | nil => exact Or.inr h
  | cons kv l ih =>
    simp only [List.foldl_cons] at h
    rcases ih _ h with h1 | h1
    · exact Or.inl (List.mem_cons_of_mem _ h1)
    · rw [mGet_mSet] at h1
      split at h1
      · rename_i hk
        simp only [Option.some.injEq] at h1
        left
        have : kv = (v, x) := by rw [← hk, ← h1]
        rw [this]; exact List.mem_cons_self
      · exact Or.inr h1

theorem knownOf_canon {s : Rebuild w} (hc : CanonSt s) (ps : List (Rebuild w)) {e0 e : Expr w}
    (h : knownOf s ps e0 = .known e) (he : Expr.Canon e0) : Expr.Canon e := by
  unfold knownOf at h
  split at h
  · split at h
    · rename_i c hcw
      simp only [OptWrite.known.injEq] at h
      subst h
      exact Expr.canon_normalize (evalWritten_canon hc ps hcw he)
    · cases h
  · cases h

theorem writtenCalcs_canon {s : Rebuild w} (hc : CanonSt s) (ps : List (Rebuild w))
    {calcs : List (Int × Expr w)} (hcalcs : CanonCalcs calcs) : CanonSt (writtenCalcs s ps calcs) := by
  obtain ⟨hs, _, hwr⟩ := writtenCalcs_eq s ps calcs
  constructor
  · intro v e h
    rw [hs.2.2.2.2.2.2.2.1] at h
    exact hc.1 v e h
  · intro v e h
    rw [hwr] at h
    rcases mGet_foldl_mSet_cases _ _ _ _ h with h1 | h1
    · obtain ⟨vc, hvc, e1⟩ := List.mem_map.1 h1
      simp only [Prod.mk.injEq] at e1
      exact knownOf_canon hc ps e1.2 (hcalcs vc hvc)
    · exact hc.2 v e h1

theorem emitGroup_canon {s : Rebuild w} (hc : CanonSt s) (ps : List (Rebuild w))
    {calcs : List (Int × Expr w)} (hcalcs : CanonCalcs calcs) : CanonSt (emitGroup ps s calcs) := by
  have h := writtenCalcs_canon (readGroup_canon hc calcs) ps hcalcs
  exact ⟨h.1, h.2⟩

theorem emitStructured_canon {s : Rebuild w} (hc : CanonSt s) (ps : List (Rebuild w))
    {toEmit : List (List (Int × Expr w))} (hg : ∀ g ∈ toEmit, CanonCalcs g) :
    CanonSt (emitStructured s ps toEmit) := by
  rw [emitStructured_eq]
  induction toEmit generalizing s with
  | nil => exact hc
  | cons g toEmit ih =>
    simp only [List.foldl_cons]
    exact ih (emitGroup_canon hc ps (hg g (by simp))) (fun g' hg' => hg g' (by simp [hg']))

theorem uncertainShift_canon {s : Rebuild w} (hc : CanonSt s) : CanonSt (uncertainShift s) := by
  constructor
  · exact hc.1
  · intro v e h
    simp [uncertainShift, mGet] at h

theorem forgetParent_canon {s : Rebuild w} (hc : CanonSt s) : CanonSt (forgetParent s) := ⟨hc.1, hc.2⟩

end OptProof
end Hpbf
