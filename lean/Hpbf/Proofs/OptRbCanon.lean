/-
Rebuild-round proofs: the normal-form invariant.  Every expression in the optimizer state is `Expr.Canon`
(`CanonSt`), every emitted `calc` has distinct targets and canonical right-hand sides (`GoodL`).
Part 1: definitions, accessors, the mutators that do not consume the oracle.
-/
import Hpbf.Proofs.OptRbStraight
import Hpbf.Proofs.OptLoopTop

namespace Hpbf
namespace OptProof
open Opt OptSem Ir

variable {w : Nat}

/-! ### Definitions -/

/-- every expression of the state is in normal form -/
def CanonSt (s : Rebuild w) : Prop :=
  (∀ v e, mGet s.pending v = some e → Expr.Canon e) ∧
  (∀ v e, mGet s.written v = some (.known e) → Expr.Canon e)

mutual
/-- one instruction: every `calc` (at any depth) has distinct targets and canonical right-hand sides -/
def GoodI : Instr w → Prop
  | .calc g => (g.map (·.1)).Nodup ∧ ∀ ve ∈ g, Expr.Canon ve.2
  | .loop _ _ body _ => GoodL body
  | .ifnz _ _ body => GoodL body
  | .output _ => True
  | .input _ => True
/-- every `calc` (at any depth) has distinct targets and canonical right-hand sides -/
def GoodL : List (Instr w) → Prop
  | [] => True
  | i :: rest => GoodI i ∧ GoodL rest
end

mutual
/-- one instruction: all right-hand sides (at any depth) canonical -/
def CanonI : Instr w → Prop
  | .calc g => ∀ ve ∈ g, Expr.Canon ve.2
  | .loop _ _ body _ => CanonL body
  | .ifnz _ _ body => CanonL body
  | .output _ => True
  | .input _ => True
/-- all right-hand sides (at any depth) canonical; no condition on the targets -/
def CanonL : List (Instr w) → Prop
  | [] => True
  | i :: rest => CanonI i ∧ CanonL rest
end

/-- the right-hand sides of one simultaneous assignment are canonical -/
def CanonCalcs (calcs : List (Int × Expr w)) : Prop := ∀ ve ∈ calcs, Expr.Canon ve.2

theorem goodL_nil : GoodL ([] : List (Instr w)) := by rw [GoodL]; trivial

theorem goodL_cons {i : Instr w} {l : List (Instr w)} : GoodL (i :: l) ↔ GoodI i ∧ GoodL l := by
  rw [GoodL]

theorem goodL_append {a b : List (Instr w)} : GoodL (a ++ b) ↔ GoodL a ∧ GoodL b := by
  induction a with
  | nil => simp [goodL_nil]
  | cons i a ih => rw [List.cons_append, goodL_cons, goodL_cons, ih, and_assoc]

theorem goodL_single {i : Instr w} : GoodL [i] ↔ GoodI i := by
  rw [goodL_cons]; simp [goodL_nil]

theorem goodL_calc {g : List (Int × Expr w)} :
    GoodL [Instr.calc g] ↔ (g.map (·.1)).Nodup ∧ ∀ ve ∈ g, Expr.Canon ve.2 := by
  rw [goodL_single, GoodI]

theorem goodL_output (src : Int) : GoodL [(Instr.output src : Instr w)] := by
  rw [goodL_single, GoodI]; trivial

theorem goodL_input (dst : Int) : GoodL [(Instr.input dst : Instr w)] := by
  rw [goodL_single, GoodI]; trivial

theorem goodL_loop {c sh : Int} {body : List (Instr w)} {o : Bool} :
    GoodL [Instr.loop c sh body o] ↔ GoodL body := by
  rw [goodL_single, GoodI]

theorem goodL_ifnz {c sh : Int} {body : List (Instr w)} :
    GoodL [Instr.ifnz c sh body] ↔ GoodL body := by
  rw [goodL_single, GoodI]

end OptProof
end Hpbf
