/-
Rebuild-round proofs: the FOOTPRINT invariants, part 7: `Opt.inline` (a block executed exactly once is spliced into
its parent).  Stay mode: `inline_stay_foot` (read footprint, mirrored badness, write frame along the footprint,
`ReadsMono`, `KeysMono'`); shift mode: `inline_shift_void`.
-/
import Hpbf.Proofs.OptRbFoot6
import Hpbf.Proofs.OptRbInline2

namespace Hpbf
namespace OptProof
open Opt OptSem Ir

variable {w : Nat}

/-! ### `writtenCalcs`, `inlineEnd` -/

theorem writtenCalcs_fields (s : Rebuild w) (ps : List (Rebuild w)) (calcs : List (Int × Expr w))
    (hnd : (calcs.map (·.1)).Nodup) :
    SameButWritten s (writtenCalcs s ps calcs) ∧ (writtenCalcs s ps calcs).reads = s.reads ∧
    (∀ v, v ∉ calcs.map (·.1) → mGet (writtenCalcs s ps calcs).written v = mGet s.written v) ∧
    (∀ v, v ∈ calcs.map (·.1) → DefW (writtenCalcs s ps calcs) v) := by
  obtain ⟨a, b, c⟩ := writtenCalcs_eq s ps calcs
  refine ⟨a, b, ?_, ?_⟩
  · intro v hv
    rw [c]
    apply mGet_foldl_mSet_notin
    rw [List.map_map]; exact hv
  · intro v hv
    obtain ⟨vc, hvc, rfl⟩ := List.mem_map.1 hv
    refine ⟨knownOf s ps vc.2, ?_, knownOf_not_maybe _ _ _⟩
    rw [c]
    apply mGet_foldl_mSet_in
    · rw [List.map_map]; exact hnd
    · exact List.mem_map.2 ⟨vc, hvc, rfl⟩

theorem writtenCalcs_insts_wf {s : Rebuild w} (hwf : Wf s) (ps : List (Rebuild w)) (calcs : List (Int × Expr w))
    (i : List (Instr w)) : Wf (writtenCalcs ({ s with insts := i } : Rebuild w) ps calcs) := by
  obtain ⟨a, _, c⟩ := writtenCalcs_eq ({ s with insts := i } : Rebuild w) ps calcs
  refine ⟨by rw [a.2.2.2.2.2.2.2.1]; exact hwf.pend, ?_, by rw [a.2.2.2.2.2.2.2.2.1]; exact hwf.rev,
    by rw [a.2.2.2.2.2.2.2.1, a.2.2.2.2.2.2.2.2.1]; exact hwf.revOk⟩
  rw [c]; exact sorted_foldl_mSet _ hwf.writ

theorem inlineEnd_foot {s3 : Rebuild w} {ps : List (Rebuild w)} {sub : Rebuild w} {os os' : Orders}
    {s4 : Rebuild w} (hr : (inlineEnd s3 ps sub).run os = .ok (s4, os')) (hwf : Wf s3) :
    ∃ c3 : List (List (Int × Expr w)), s4.insts = s3.insts ++ c3.map Instr.calc ∧
      (∀ g ∈ c3, (g.map (·.1)).Nodup) ∧ EmitFoot s3 s4 c3 := by
  unfold inlineEnd at hr
  split at hr
  · rw [run_pure] at hr
    cases hr
    exact ⟨[], by simp, by simp, EmitFoot.congr_right (s1 := s3) rfl (fun _ h => h) rfl (EmitFoot.refl s3)⟩
  · rw [run_bind_ok] at hr
    obtain ⟨l, os3, _, h6⟩ := hr
    rw [run_bind_ok] at h6
    obtain ⟨s5, os5, h7, h8⟩ := h6
    rw [run_pure] at h8
    cases h8
    obtain ⟨comps, _, _, _, _, hi, hnd, hf⟩ := performAll_foot' h7 hwf
    exact ⟨comps, hi, hnd, EmitFoot.congr_right (s1 := s5) rfl (fun _ h => h) rfl hf⟩

/-- The `clobberAll` of `inline` is the `clobber` phase of a loop with nothing constant and unknown trip count. -/
theorem inline_clobberPhase {s1 : Rebuild w} {ps : List (Rebuild w)} {sub : Rebuild w} {os1 os2 : Orders}
    {s2 : Rebuild w}
    (h3 : (clobberAll ps (Expr.stableSort (fun (a b : Int × Bool) => decide (a.1 ≤ b.1))
      (sub.written.foldl ifold (s1, [])).2) (sub.written.foldl ifold (s1, [])).1).run os1 = .ok (s2, os2)) :
    (clobberPhase s1 ps sub (OptLoop.unknown true) []).run os1 = .ok (s2, os2) := by
  rw [clobberPhase_eq]
  have : (!(OptLoop.unknown true : OptLoop w).noEffect) = true := rfl
  rw [if_pos this, ← ifold_eq]; exact h3

theorem clobSet_inline (sub : Rebuild w) (v : Int) :
    ClobSet (OptLoop.unknown true) [] sub v ↔ v ∈ mKeys sub.written := by
  unfold ClobSet mKeys
  constructor
  · rintro ⟨_, vk, hvk, e, _⟩
    exact List.mem_map.2 ⟨vk, hvk, e⟩
  · intro h
    obtain ⟨vk, hvk, e⟩ := List.mem_map.1 h
    exact ⟨rfl, vk, hvk, e, rfl⟩

/-! ### the parent's preparation -/

/-- The set on which two runs may differ after the parent's preparation. -/
def InlSet (K : Int → Prop) (s2 sub : Rebuild w) (v : Int) : Prop :=
  v ∉ sub.reads ∧ (Rest K s2 v ∨ (K v ∧ v ∈ mKeys sub.written))

theorem inline_prep_foot {s : Rebuild w} {ps : List (Rebuild w)} {sub : Rebuild w} (hwf : Wf s)
    (hwfc : Wf sub) {os os1 os2 : Orders} {s1 s2 : Rebuild w}
    (h1 : (emitReadAll ps (readsSorted sub s) s).run os = .ok (s1, os1))
    (hcp : (clobberPhase s1 ps sub (OptLoop.unknown true) []).run os1 = .ok (s2, os2)) :
    ∃ comps : List (List (Int × Expr w)), s2.insts = s.insts ++ comps.map Instr.calc ∧
      (∀ g ∈ comps, (g.map (·.1)).Nodup) ∧ Wf s2 ∧ SameHdr s s2 ∧ ReadsMono s s2 ∧ CalcFrame s s2 comps ∧
      (s2.subShift = false → ∀ (K : Int → Prop), (∀ v, K v → v ∉ s2.reads) → ∀ σ1 σ2 : State w,
        AgreeOff (Rest K s) σ1 σ2 →
        AgreeOff (InlSet K s2 sub) (comps.foldl doCalc σ1) (comps.foldl doCalc σ2)) ∧
      (∀ v, v ∈ mKeys sub.written → DefW s2 v → DefW sub v) ∧
      (s2.subShift = false → ∀ v, v ∈ mKeys sub.written → v ∈ mKeys s2.written) ∧
      (s2.subShift = false → ∀ v ∈ sub.reads, v ∈ mKeys s2.written ∨ v ∈ s2.reads) := by
  obtain ⟨c1, r1, f1⟩ := emitReadAll_foot ps _ hwf h1
  obtain ⟨_, _, n1⟩ := emitReadAll_pending_none ps _ hwf h1
  obtain ⟨_, _, k1⟩ := emitReadAll_reads ps _ hwf h1
  obtain ⟨c3, q1, q2, q3, q4, q5, q6, q7, _⟩ :=
    clobberPhase_foot ps sub (OptLoop.unknown true) [] r1.wf hwfc.writ hcp
  obtain ⟨c3', y1, y2, _, y4⟩ := clobberPhase_phys ps sub (OptLoop.unknown true) [] r1.wf hcp
  have hc3 : c3' = c3 := calc_map_inj (List.append_cancel_left (y1.symm.trans q1))
  subst hc3
  obtain ⟨_, rr, _⟩ := clobberPhase_res ps sub (OptLoop.unknown true) [] r1.wf hcp
  have hmemR : ∀ v, v ∈ sub.reads → v ∈ readsSorted sub s := by
    intro v hv
    unfold readsSorted
    rw [(Expr.stableSort_perm _ _).mem_iff]; exact hv
  refine ⟨c1 ++ c3', by rw [q1, r1.insts]; simp, ?_, rr.wf, r1.hdr.trans q3, f1.mono.trans q4,
    f1.frame.trans y2 q4, ?_, ?_, ?_, ?_⟩
  · intro g hg
    rcases List.mem_append.1 hg with h | h
    · exact r1.nodup g h
    · exact q2 g h
  · intro hs2 K hK σ1 σ2 hag
    have hs1 : s1.subShift = false := q4.2 hs2
    have hK1 : ∀ v, K v → v ∉ s1.reads := fun v hv hr' => hK v hv (q4.1 v hr')
    have a1 := f1.foot hs1 K hK1 σ1 σ2 hag
    have a3 := q6 hs2 K hK _ _ a1
    rw [List.foldl_append, List.foldl_append]
    have hR1 : ∀ v, v ∈ sub.reads → memE (c1.foldl doCalc σ1) v = memE (c1.foldl doCalc σ2) v := by
      intro v hv
      apply a1.2.2.2 v
      rintro ⟨hkv, hnv⟩
      rcases k1 v (hmemR v hv) with h | h
      · exact hK1 v hkv h
      · exact hnv h
    have hnot3 : ∀ v, v ∈ sub.reads → ∀ g ∈ c3', v ∉ g.map (·.1) := by
      intro v hv g hg hvg
      obtain ⟨ve, hve, e⟩ := List.mem_map.1 hvg
      have := q5 g hg ve hve
      rw [e, n1 v (hmemR v hv)] at this
      cases this
    have hkeep : ∀ (σ : State w) v, v ∈ sub.reads → memE (c3'.foldl doCalc σ) v = memE σ v := by
      intro σ v hv
      rw [memE_foldl_doCalc _ c3' q2, seq_of_notin c3' _ v (hnot3 v hv)]
    refine ⟨a3.1, a3.2.1, a3.2.2.1, ?_⟩
    intro v hv
    by_cases hR : v ∈ sub.reads
    · rw [hkeep _ v hR, hkeep _ v hR]
      exact hR1 v hR
    · apply a3.2.2.2 v
      rintro (h | ⟨hk, hc⟩)
      · exact hv ⟨hR, Or.inl h⟩
      · exact hv ⟨hR, Or.inr ⟨hk, (clobSet_inline sub v).1 hc⟩⟩
  · intro v hv hd
    exact (q7 v ((clobSet_inline sub v).2 hv) hd).2
  · intro hs2 v hv
    exact y4 hs2 v ((clobSet_inline sub v).2 hv)
  · intro hs2 v hv
    have hs1 : s1.subShift = false := q4.2 hs2
    rcases k1 v (hmemR v hv) with h | h
    · exact Or.inr (q4.1 v h)
    · exact Or.inl (y2.keysMono hs2 v h.mem_keys)

/-- The semantic side: the state `σX` with the SOURCE memory and the emitted program's pointer is a valid entry
state of the child; it agrees with the emitted memory (after the preparation) on what the child reads and on the
cells the child only maybe-writes. -/
theorem inline_sem_ctx {Gc : State w → Prop} {shP shC cS : Int} {bodyS : List (Instr w)} {s : Rebuild w}
    {ps : List (Rebuild w)}
    {sub : Rebuild w} {pc : List (Rebuild w)} {sub0 : Rebuild w} (hwf : Wf s)
    (hpre : ChildPre Gc shP shC pc sub0 sub cS bodyS) {os os1 os2 : Orders} {s1 s2 : Rebuild w}
    (h1 : (emitReadAll ps (readsSorted sub s) s).run os = .ok (s1, os1))
    (hcp : (clobberPhase s1 ps sub (OptLoop.unknown true) []).run os1 = .ok (s2, os2)) :
    ∃ comps : List (List (Int × Expr w)), s2.insts = s.insts ++ comps.map Instr.calc ∧
      ∀ M0 (σ1 σS : State w), RelAt shP s ps M0 σ1 σS → σS.rd cS ≠ 0#w → Gc σS →
        ValidG Gc shP sub0 pc (σS.mov (-shP)) ∧ ¬ Bad sub.insts (σS.mov (-shP)) ∧
        (σS.mov (-shP)).ptr = (comps.foldl doCalc σ1).ptr ∧
        (σS.mov (-shP)).env = (comps.foldl doCalc σ1).env ∧
        (σS.mov (-shP)).trace = (comps.foldl doCalc σ1).trace ∧
        (∀ v ∈ sub.reads, memE (σS.mov (-shP)) v = memE (comps.foldl doCalc σ1) v) ∧
        (∀ v k, (v, k) ∈ sub.written → k.isMaybe = true →
          memE (σS.mov (-shP)) v = memE (comps.foldl doCalc σ1) v) := by
  obtain ⟨c1, r1, n1⟩ := emitReadAll_pending_none ps _ hwf h1
  obtain ⟨c2, r2, d2, k2⟩ := clobberPhase_res ps sub (OptLoop.unknown true) [] r1.wf hcp
  refine ⟨c1 ++ c2, by rw [r2.insts, r1.insts]; simp, ?_⟩
  intro M0 σ1 σS hrel hne hgc
  obtain ⟨m1, m2, m3⟩ := foldl_doCalc_meta (c1 ++ c2) σ1
  have hXptr : (σS.mov (-shP)).ptr = ((c1 ++ c2).foldl doCalc σ1).ptr := by
    rw [m1]
    show σS.ptr + -shP = σ1.ptr
    rw [hrel.ptr]; omega
  have hsm : SameMem shP σS (σS.mov (-shP)) := by
    refine ⟨rfl, rfl, ?_, by funext v; rfl⟩
    show σS.ptr = σS.ptr + -shP + shP
    omega
  obtain ⟨M0c, hre⟩ := hpre.entry (σS.mov (-shP)) σS hsm hne hgc
  have hnd12 : ∀ g ∈ c1 ++ c2, (g.map (·.1)).Nodup := by
    intro g hg
    rcases List.mem_append.1 hg with h | h
    · exact r1.nodup g h
    · exact r2.nodup g h
  have hX : MInvX (fun v => False ∨ ((OptLoop.unknown true : OptLoop w).noEffect = false ∧
        DropL (OptLoop.unknown true) [] sub.written s1 v)) s2 ps M0
      (memE ((c1 ++ c2).foldl doCalc σ1)) (memS ((c1 ++ c2).foldl doCalc σ1) σS) := by
    rw [memE_foldl_doCalc σ1 _ hnd12, memS_foldl_doCalc, seq_append]
    exact k2 _ M0 _ _ ((r1.minv hrel.inv).toX _)
  have hSE : ∀ v, mGet s2.pending v = none → ¬ (False ∨ ((OptLoop.unknown true : OptLoop w).noEffect = false ∧
      DropL (OptLoop.unknown true) [] sub.written s1 v)) →
      memS ((c1 ++ c2).foldl doCalc σ1) σS v = memE ((c1 ++ c2).foldl doCalc σ1) v := by
    intro v hp hd
    rw [hX.pendX v hd]; exact par_of_not_mem _ _ _ hp
  have hXS : ∀ v, memE (σS.mov (-shP)) v = memS ((c1 ++ c2).foldl doCalc σ1) σS v := by
    intro v
    show σS.tape.get ((σS.mov (-shP)).ptr + v) = σS.tape.get (((c1 ++ c2).foldl doCalc σ1).ptr + v)
    rw [hXptr]
  have hreads1 : ∀ v ∈ sub.reads, mGet s1.pending v = none := fun v hv =>
    n1 v (by unfold readsSorted; rw [(Expr.stableSort_perm _ _).mem_iff]; exact hv)
  refine ⟨⟨M0c, σS, hre, hgc⟩, (hpre.rep M0c _ σS hre hgc).2, hXptr, ?_, ?_, ?_, ?_⟩
  · show σS.env = _
    rw [m2]; exact hrel.env
  · show σS.trace = _
    rw [m3]; exact hrel.tr
  · intro v hv
    rw [hXS v]
    apply hSE v
    · cases hp : mGet s2.pending v with
      | none => rfl
      | some e =>
        have := hreads1 v hv
        rw [r2.sub v e hp] at this; cases this
    · rintro (h | ⟨_, vk, _, e1, _, _, e4⟩)
      · exact h
      · exact e4 (hreads1 v hv)
  · intro v k hvk hm
    rw [hXS v]
    apply hSE v
    · exact (d2 rfl (v, k) hvk (by simp)).1
    · rintro (h | ⟨_, vk, hvk', e1, _, e3, _⟩)
      · exact h
      · have g1 := mGet_of_mem hpre.wf.writ hvk
        have g2 := mGet_of_mem hpre.wf.writ hvk'
        rw [e1, g1] at g2
        cases g2
        rw [hm] at e3
        simp at e3

/-! ### `inline`, stay mode -/

theorem inline_stay_foot {shP shC cS : Int} {bodyS : List (Instr w)}
    {s : Rebuild w} {ps : List (Rebuild w)} {sub : Rebuild w} {pc : List (Rebuild w)} {sub0 : Rebuild w}
    {os os' : Orders} {s' : Rebuild w} {G Gc : State w → Prop}
    (hr : (Opt.inline s ps sub).run os = .ok (s', os'))
    (hwf : Wf s) (hpre : ChildPre Gc shP shC pc sub0 sub cS bodyS)
    (hne : ∀ M0 σE σS, RelAt shP s ps M0 σE σS → G σS → σS.rd cS ≠ 0#w)
    (hGc : ∀ M0 σE σS, RelAt shP s ps M0 σE σS → G σS → Gc σS) :
    ∃ new, s'.insts = s.insts ++ new ∧ FootStepV (ValidG G shP s ps) s s' new ∧
      FootBadV (ValidG G shP s ps) s s' new ∧ FootFrameV (ValidG G shP s ps) s s' new ∧
      ReadsMono s s' ∧ KeysMono' s s' := by
  rw [inline_eq, if_neg (by rw [hpre.noShift]; simp), run_bind_ok] at hr
  obtain ⟨s1, os1, h1, h2⟩ := hr
  obtain ⟨s2, os2, s4, h3, h4, rfl⟩ := inlineRest_run h2
  have hcp := inline_clobberPhase h3
  obtain ⟨comps, p1, p2, pwf, _, pmono, pframe, pfoot, pdef, pkeys, preads⟩ :=
    inline_prep_foot hwf hpre.wf h1 hcp
  obtain ⟨compsS, e1, hsem⟩ := inline_sem_ctx hwf hpre h1 hcp
  have hcS : compsS = comps := calc_map_inj (List.append_cancel_left (e1.symm.trans p1))
  rw [hcS] at hsem
  -- the recorded state
  have hwf3 := writtenCalcs_insts_wf pwf ps (knownsOf sub) (s2.insts ++ sub.insts)
  obtain ⟨w1, w2, w3, w4⟩ := writtenCalcs_fields ({ s2 with insts := s2.insts ++ sub.insts } : Rebuild w) ps
    (knownsOf sub) (nodup_knownsOf hpre.wf.writ)
  obtain ⟨S3, hS3⟩ : ∃ x, x = writtenCalcs ({ s2 with insts := s2.insts ++ sub.insts } : Rebuild w) ps
    (knownsOf sub) := ⟨_, rfl⟩
  rw [← hS3] at h4 hwf3 w1 w2 w3 w4
  have w2' : S3.reads = s2.reads := w2
  have w3' : ∀ v, v ∉ (knownsOf sub).map (·.1) → mGet S3.written v = mGet s2.written v := w3
  have wss : S3.subShift = s2.subShift := w1.2.2.2.2.1
  have wins : S3.insts = s2.insts ++ sub.insts := w1.2.2.2.2.2.2.2.2.2.1
  have hnone23 : ∀ v, mGet S3.written v = none → mGet s2.written v = none := by
    intro v hv
    by_cases hk : v ∈ (knownsOf sub).map (·.1)
    · exact absurd (w4 v hk) (not_defW_of_none hv)
    · rw [← w3' v hk]; exact hv
  obtain ⟨c3, i3, n3, f3⟩ := inlineEnd_foot h4 hwf3
  -- a maybe-entry of the child is not among the recorded known entries
  have hnotKn : ∀ v, ¬ DefW sub v → v ∉ (knownsOf sub).map (·.1) := by
    intro v hd hk
    obtain ⟨ve, hve, e⟩ := List.mem_map.1 hk
    have := (mem_knownsOf hpre.wf.writ ve.1 ve.2).1 hve
    rw [e] at this
    exact hd ⟨_, this, rfl⟩
  have hnotKn' : ∀ v, v ∉ mKeys sub.written → v ∉ (knownsOf sub).map (·.1) := by
    intro v hd hk
    obtain ⟨ve, hve, e⟩ := List.mem_map.1 hk
    have := (mem_knownsOf hpre.wf.writ ve.1 ve.2).1 hve
    rw [e] at this
    exact hd (mem_keys_of_get this)
  -- the context of two runs
  have hctx : s4.subShift = false → ∀ (K : Int → Prop), (∀ v, K v → v ∉ s4.reads) → ∀ σ1 σ2 : State w,
      ValidG G shP s ps σ1 → AgreeOff (Rest K s) σ1 σ2 →
      ∃ σX : State w, ValidG Gc shP sub0 pc σX ∧ ¬ Bad sub.insts σX ∧
        AgreeOff (InlSet K s2 sub) (comps.foldl doCalc σ1) (comps.foldl doCalc σ2) ∧
        AgreeOff (Rest (fun v => memE σX v ≠ memE (comps.foldl doCalc σ1) v) sub0) σX (comps.foldl doCalc σ1) ∧
        AgreeOff (Rest (fun v => memE σX v ≠ memE (comps.foldl doCalc σ1) v ∨ InlSet K s2 sub v) sub0) σX
          (comps.foldl doCalc σ2) ∧
        (∀ v ∈ sub.reads, memE σX v = memE (comps.foldl doCalc σ1) v) ∧
        (∀ v k, (v, k) ∈ sub.written → k.isMaybe = true → memE σX v = memE (comps.foldl doCalc σ1) v) := by
    intro hs4 K hK σ1 σ2 v1 hag
    have hs3 : S3.subShift = false := f3.mono.2 hs4
    have hs2 : s2.subShift = false := by rw [← wss]; exact hs3
    have hK2 : ∀ v, K v → v ∉ s2.reads := fun v hv hr' => hK v hv (f3.mono.1 v (by rw [w2']; exact hr'))
    have hX := pfoot hs2 K hK2 σ1 σ2 hag
    obtain ⟨M0, σS, hrel, hg⟩ := v1
    obtain ⟨hvX, hnbX, hXptr, hXenv, hXtr, hXr, hXm⟩ := hsem M0 σ1 σS hrel (hne M0 σ1 σS hrel hg) (hGc M0 σ1 σS hrel hg)
    refine ⟨σS.mov (-shP), hvX, hnbX, hX, ⟨hXptr, hXenv, hXtr, ?_⟩,
      ⟨hXptr.trans hX.1, hXenv.trans hX.2.1, hXtr.trans hX.2.2.1, ?_⟩, hXr, hXm⟩
    · intro v hv
      exact Classical.not_not.1 (fun h => hv ((rest_fresh hpre.w0 v).2 h))
    · intro v hv
      have hv' : ¬ (memE (σS.mov (-shP)) v ≠ memE (comps.foldl doCalc σ1) v ∨ InlSet K s2 sub v) :=
        fun h => hv ((rest_fresh hpre.w0 v).2 h)
      have e1' : memE (σS.mov (-shP)) v = memE (comps.foldl doCalc σ1) v :=
        Classical.not_not.1 (fun h => hv' (Or.inl h))
      rw [e1']
      exact hX.2.2.2 v (fun h => hv' (Or.inr h))
  have hinsts : ({ s4 with subAnal := s4.subAnal ++ sub.subAnal } : Rebuild w).insts =
      s.insts ++ (comps.map Instr.calc ++ (sub.insts ++ c3.map Instr.calc)) := by
    show s4.insts = _
    rw [i3, wins, p1]
    simp only [List.append_assoc]
  refine ⟨comps.map Instr.calc ++ (sub.insts ++ c3.map Instr.calc), hinsts, ?_, ?_, ?_, ?_, ?_⟩
  · -- read footprint
    intro hss K hK σ1 σ2 v1 hag
    have hs4 : s4.subShift = false := hss
    have hK4 : ∀ v, K v → v ∉ s4.reads := hK
    obtain ⟨σX, hvX, _, hX, hag1, hag2, hXr, hXm⟩ := hctx hs4 K hK4 σ1 σ2 v1 hag
    have hK1r : ∀ v, memE σX v ≠ memE (comps.foldl doCalc σ1) v → v ∉ sub.reads :=
      fun v h hr' => h (hXr v hr')
    have hK2r : ∀ v, (memE σX v ≠ memE (comps.foldl doCalc σ1) v ∨ InlSet K s2 sub v) → v ∉ sub.reads := by
      rintro v (h | h) hr'
      · exact h (hXr v hr')
      · exact h.1 hr'
    have S1 := (hpre.foot hpre.noShift _ hK1r σX _ hvX hag1).fin_strengthen
    have S2 := (hpre.foot hpre.noShift _ hK2r σX _ hvX hag2).fin_strengthen
    have Sc : Sim (fun a b => AgreeOff (Rest K S3) a b) sub.insts sub.insts
        (comps.foldl doCalc σ1) (comps.foldl doCalc σ2) := by
      refine (Sim.trans S1.symm S2).mono ?_
      rintro a b ⟨y, ⟨hya, _, hea⟩, ⟨hyb, _, heb⟩⟩
      obtain ⟨_, fa⟩ := hpre.frame2 hpre.noShift _ hK1r σX _ hvX hag1 a hea
      obtain ⟨_, fb⟩ := hpre.frame2 hpre.noShift _ hK2r σX _ hvX hag2 b heb
      refine ⟨hya.1.symm.trans hyb.1, hya.2.1.symm.trans hyb.2.1, hya.2.2.1.symm.trans hyb.2.2.1, ?_⟩
      intro v hv
      have via : (DefW sub v ∨ ¬ (memE σX v ≠ memE (comps.foldl doCalc σ1) v ∨ InlSet K s2 sub v)) →
          memE a v = memE b v := by
        intro h
        have ha : memE y v = memE a v := by
          apply hya.2.2.2 v
          rintro ⟨hk, hnd⟩
          rcases h with h | h
          · exact hnd h
          · exact h (Or.inl hk)
        have hb : memE y v = memE b v := by
          apply hyb.2.2.2 v
          rintro ⟨hk, hnd⟩
          rcases h with h | h
          · exact hnd h
          · exact h hk
        rw [← ha, hb]
      by_cases hkey : v ∈ mKeys sub.written
      · by_cases hd : DefW sub v
        · exact via (Or.inl hd)
        · -- the child only maybe-writes `v`
          have hw32 : mGet S3.written v = mGet s2.written v := w3' v (hnotKn v hd)
          have hnd3 : ¬ DefW S3 v := fun h => hd (pdef v hkey ((DefW.of_get_eq hw32).1 h))
          have hnk : ¬ K v := fun hk => hv ⟨hk, hnd3⟩
          obtain ⟨vk, hvk, e⟩ := List.mem_map.1 hkey
          have hmb : vk.2.isMaybe = true := by
            cases hm : vk.2.isMaybe with
            | true => rfl
            | false =>
              exact absurd ⟨vk.2, by rw [← e]; exact mGet_of_mem hpre.wf.writ hvk, hm⟩ hd
          apply via
          right
          rintro (h | h)
          · exact h (hXm v vk.2 (by rw [← e]; exact hvk) hmb)
          · rcases h.2 with h' | h'
            · exact hnk h'.1
            · exact hnk h'.1
      · have hw32 : mGet S3.written v = mGet s2.written v := w3' v (hnotKn' v hkey)
        have hnr2 : ¬ Rest K s2 v := fun h => hv ⟨h.1, fun hd => h.2 ((DefW.of_get_eq hw32).1 hd)⟩
        by_cases hrd : v ∈ sub.reads
        · apply via
          right
          rintro (h | h)
          · exact h (hXr v hrd)
          · exact h.1 hrd
        · rw [fa v hkey hrd, fb v hkey hrd]
          apply hX.2.2.2 v
          rintro ⟨_, h | h⟩
          · exact hnr2 h
          · exact hkey h.2
    refine Sim.calcs_both comps comps (Sim.append Sc ?_)
    intro a b hab
    exact f3.foot.footStep hs4 K hK4 a b hab
  · -- the spliced code does not go bad
    intro hss K hK σ1 σ2 v1 hag hbad
    have hs4 : s4.subShift = false := hss
    have hK4 : ∀ v, K v → v ∉ s4.reads := hK
    obtain ⟨σX, hvX, hnbX, _, _, hag2, hXr, _⟩ := hctx hs4 K hK4 σ1 σ2 v1 hag
    have hK2r : ∀ v, (memE σX v ≠ memE (comps.foldl doCalc σ1) v ∨ InlSet K s2 sub v) → v ∉ sub.reads := by
      rintro v (h | h) hr'
      · exact h (hXr v hr')
      · exact h.1 hr'
    rw [bad_calcs_iff] at hbad
    rcases bad_append.1 hbad with hb | ⟨b, _, hb⟩
    · exact absurd (hpre.badfoot hpre.noShift _ hK2r σX _ hvX hag2 hb) hnbX
    · exact absurd hb (not_bad_of_noBlocks (noBlocks_calcs c3) _)
  · -- write frame along the footprint
    intro hss K hK σ1 σ2 v1 hag bb hex
    have hs4 : s4.subShift = false := hss
    have hK4 : ∀ v, K v → v ∉ s4.reads := hK
    have hs3 : S3.subShift = false := f3.mono.2 hs4
    have hs2 : s2.subShift = false := by rw [← wss]; exact hs3
    obtain ⟨σX, hvX, _, _, _, hag2, hXr, _⟩ := hctx hs4 K hK4 σ1 σ2 v1 hag
    have hK2r : ∀ v, (memE σX v ≠ memE (comps.foldl doCalc σ1) v ∨ InlSet K s2 sub v) → v ∉ sub.reads := by
      rintro v (h | h) hr'
      · exact h (hXr v hr')
      · exact h.1 hr'
    have hexL := (exec_calcs_iff comps _ σ2 _).1 hex
    rcases exec_append.1 hexL with ⟨hf, _⟩ | ⟨b, eb, e3⟩
    · cases hf
    · obtain ⟨pb, fb⟩ := hpre.frame2 hpre.noShift _ hK2r σX _ hvX hag2 b eb
      rw [exec_calcs_fin e3]
      refine ⟨?_, ?_⟩
      · rw [(foldl_doCalc_meta c3 b).1, pb, (foldl_doCalc_meta comps σ2).1]
      · intro v hv1 hv2
        have hn4 : mGet s4.written v = none := (mGet_none_iff _ v).2 hv1
        have hn3 : mGet S3.written v = none := (f3.frame hs4).1 v hn4
        have hn2 : mGet s2.written v = none := hnone23 v hn3
        have hk2 : v ∉ mKeys s2.written := (mGet_none_iff _ v).1 hn2
        have hkey : v ∉ mKeys sub.written := fun h => hk2 (pkeys hs2 v h)
        have hrd : v ∉ sub.reads := by
          intro h
          rcases preads hs2 v h with h' | h'
          · exact hk2 h'
          · exact hv2 (f3.mono.1 v (by rw [w2']; exact h'))
        rw [memE_foldl_doCalc b c3 n3, seq_of_notin c3 _ v ((f3.frame hs4).2 v hn4), fb v hkey hrd,
          memE_foldl_doCalc σ2 comps p2, seq_of_notin comps _ v ((pframe hs2).2 v hn2)]
  · refine ⟨fun v hv => ?_, fun h => ?_⟩
    · show v ∈ s4.reads
      exact f3.mono.1 v (by rw [w2']; exact pmono.1 v hv)
    · have hs3 : S3.subShift = false := f3.mono.2 h
      exact pmono.2 (by rw [← wss]; exact hs3)
  · intro hs v hv
    have hs4 : s4.subShift = false := hs
    have hs3 : S3.subShift = false := f3.mono.2 hs4
    have hs2 : s2.subShift = false := by rw [← wss]; exact hs3
    show v ∈ mKeys s4.written
    exact f3.keysMono hs4 v (keys_of_none_mono hnone23 (pframe.keysMono hs2 v hv))

/-! ### `inline`, shift mode -/

theorem inlineRest_readsMono {s : Rebuild w} {ps : List (Rebuild w)} {sub : Rebuild w} {os os' : Orders}
    {s' : Rebuild w} (hr : (inlineRest s ps sub).run os = .ok (s', os')) (hwf : Wf s) : ReadsMono s s' := by
  obtain ⟨s2, os2, s4, h3, h4, rfl⟩ := inlineRest_run hr
  rw [ifold_eq] at h3
  obtain ⟨i1, i2, _⟩ := cfold_spec ps (OptLoop.unknown true) [] sub.written (s, []) hwf
  obtain ⟨c2, _, a2, _, a4, _⟩ := clobberAll_phys ps _ i1 h3
  have hwf3 := writtenCalcs_insts_wf a2 ps (knownsOf sub) (s2.insts ++ sub.insts)
  obtain ⟨w1, w2, _⟩ := writtenCalcs_eq ({ s2 with insts := s2.insts ++ sub.insts } : Rebuild w) ps (knownsOf sub)
  obtain ⟨c3, _, _, f3⟩ := inlineEnd_foot h4 hwf3
  refine ⟨fun v hv => ?_, fun h => ?_⟩
  · show v ∈ s4.reads
    apply f3.mono.1 v
    rw [w2]
    show v ∈ s2.reads
    exact a4.1 v (by rw [i2.2.2.2.2.2.2.1]; exact hv)
  · have h3' := f3.mono.2 h
    rw [w1.2.2.2.2.1] at h3'
    have := a4.2 h3'
    rw [i2.2.2.2.2.1] at this
    exact this

/-- `inline` of a child that moves the pointer: `subShift` becomes `true`, the footprint claims are void. -/
theorem inline_shift_void {s : Rebuild w} {ps : List (Rebuild w)} {sub : Rebuild w} {os os' : Orders}
    {s' : Rebuild w} (hr : (Opt.inline s ps sub).run os = .ok (s', os')) (hwf : Wf s)
    (hss : sub.subShift = true) :
    s'.subShift = true ∧ ReadsMono s s' ∧
    ∀ (V : State w → Prop) (new : List (Instr w)),
      FootStepV V s s' new ∧ FootBadV V s s' new ∧ FootFrameV V s s' new ∧ KeysMono' s s' := by
  rw [inline_eq, if_pos hss, run_bind_ok] at hr
  obtain ⟨s0, os0, h0, h1⟩ := hr
  rw [run_bind_ok] at h1
  obtain ⟨s1, os1, h1', h2⟩ := h1
  rw [run_pure] at h1'
  cases h1'
  obtain ⟨c, res, ft⟩ := emitAll_foot ps (pendingSorted s s) hwf h0
  have hm := inlineRest_readsMono h2 (uncertainShift_wf res.wf)
  have hsub' : s'.subShift = true := by
    cases h : s'.subShift with
    | true => rfl
    | false =>
      have := hm.2 h
      rw [(uncertainShift_fields s0).2.1] at this
      cases this
  refine ⟨hsub', ⟨fun v hv => hm.1 v (ft.mono.1 v hv), fun h => absurd (hsub'.symm.trans h) (by simp)⟩, ?_⟩
  intro V new
  refine ⟨fun h => ?_, fun h => ?_, fun h => ?_, fun h => ?_⟩ <;> exact absurd (hsub'.symm.trans h) (by simp)

end OptProof
end Hpbf

#print axioms Hpbf.OptProof.inline_stay_foot
#print axioms Hpbf.OptProof.inline_shift_void
