/-
C03 (control flow), stage 2: leaving the compiled function. `exit_common` runs `add rsp, N; pop r15 … pop rbp;
ret`; `exit_term` is the termination label (`mov rax, 0` first: the function returns 0), `exit_normal` the
fall-through exit after the last instruction (`mov rax, 1; jmp +6`: the function returns 1).
-/
import Hpbf.Proofs.C03FlowInv
namespace Hpbf
namespace C03
open Asm JitGen X86Sem X86Prog
variable {w : Nat}

/-! ### Leaving the function -/

theorem fitsS_32 (v : Int) : fitsS 32 v = true ↔ (-2147483648 ≤ v ∧ v < 2147483648) := by
  simp [fitsS]

theorem fitsS_8 (v : Int) : fitsS 8 v = true ↔ (-128 ≤ v ∧ v < 128) := by
  simp [fitsS]

theorem run_ret {cfg : Cfg} {n : Nat} {s s1 s' : PState w} (h : steps cfg n s = some s1)
    (hr : step cfg s1 = .ret s') (k : Nat) : run cfg (n + 1 + k) s = .ret s' := by
  rw [Nat.add_assoc, run_of_steps h, Nat.add_comm 1 k]
  simp [run, hr]

theorem step_pop {cfg : Cfg} {code : List X86} {r : Reg} {rest : List X86} {s : PState w}
    (hat : At cfg code s.pc (.pop r :: rest)) (hr : r ≠ .rsp) {v : BitVec 64} {tl : List (BitVec 64)}
    (hs : s.stk = v :: tl) :
    step cfg s = .next { s with stk := tl, regs := (s.regs.set .rsp (s.regs.rsp + 8)).set r v,
                                pc := s.pc + (X86.pop r).size,
                                tapeOk := if r = .rbp then false else s.tapeOk } := by
  rw [step_at hat]
  step_open (show (X86.pop r).fits = true from rfl)
  simp [stepPop, hs, hr]

theorem step_ret {cfg : Cfg} {code : List X86} {rest : List X86} {s : PState w}
    (hat : At cfg code s.pc (.ret :: rest)) {v : BitVec 64} {tl : List (BitVec 64)} (hs : s.stk = v :: tl) :
    step cfg s = .ret { s with stk := tl, regs := s.regs.set .rsp (s.regs.rsp + 8) } := by
  rw [step_at hat]
  step_open (show X86.ret.fits = true from rfl)
  simp [stepRet, hs]

theorem step_addRsp {cfg : Cfg} {code : List X86} {imm : Int} {rest : List X86} {s : PState w}
    (hat : At cfg code s.pc (addImm64 (.reg .rsp) imm :: rest)) (h0 : 0 ≤ imm) (h8 : imm % 8 = 0)
    (hfit : imm < 2147483648) (hlen : (imm / 8).toNat ≤ s.stk.length) :
    ∃ z c, step cfg s = .next { s with stk := s.stk.drop (imm / 8).toNat
                                       regs := s.regs.set .rsp (s.regs.rsp + immVal imm)
                                       zf := z, cf := c, pc := s.pc + (addImm64 (.reg .rsp) imm).size } := by
  rw [step_at hat]
  have hfit' : (addImm64 (.reg .rsp) imm).fits = true := by
    simp only [addImm64, X86.fits, RegMem.fits, Size.immBits, Bool.true_and, fitsS_32]
    omega
  step_open hfit'
  simp only [addImm64, true_and, if_true, stepAddRsp, h0, h8, hlen, and_self, alu, trunc64]
  exact ⟨_, _, rfl⟩

/-- The common end of both exits: `add rsp, N; pop r15; …; pop rbp; ret`. -/
def exitCode (temps : Nat) : List X86 :=
  [addImm64 (.reg .rsp) (i32 ((alignedTemps temps * 8 : Nat) : Int)),
   .pop .r15, .pop .r14, .pop .r13, .pop .r12, .pop .rbx, .pop .rbp, .ret]

theorem epilogueTail_eq (temps : Nat) : epilogueTail temps = .movRImm64 .rax 0 :: exitCode temps := rfl

/-- What the caller sees after `ret`: the callee-saved registers and the stack pointer it had. -/
structure Returned (fr : Frame) (temps : Nat) (s s' : PState w) : Prop where
  saved : ∃ ra, fr.saved = [s'.regs.r15, s'.regs.r14, s'.regs.r13, s'.regs.r12, s'.regs.rbx, s'.regs.rbp, ra]
  rsp : s'.regs.rsp = fr.rsp + BitVec.ofNat 64 (alignedTemps temps * 8) + 56
  stk : s'.stk = []
  lptr : s'.lptr = s.lptr
  tape : s'.tape = s.tape
  env : s'.env = s.env
  trace : s'.trace = s.trace
  budget : s'.budget = s.budget
  buf : s'.buf = s.buf
  size : s'.size = s.size
  base : s'.base = s.base

/-- Fields no exit instruction touches. -/
structure ExitKeep (s s' : PState w) : Prop where
  lptr : s'.lptr = s.lptr
  tape : s'.tape = s.tape
  env : s'.env = s.env
  trace : s'.trace = s.trace
  budget : s'.budget = s.budget
  buf : s'.buf = s.buf
  size : s'.size = s.size
  base : s'.base = s.base

theorem ExitKeep.trans {a b c : PState w} (h1 : ExitKeep a b) (h2 : ExitKeep b c) : ExitKeep a c :=
  ⟨h2.lptr.trans h1.lptr, h2.tape.trans h1.tape, h2.env.trans h1.env, h2.trace.trans h1.trace, h2.budget.trans h1.budget,
   h2.buf.trans h1.buf, h2.size.trans h1.size, h2.base.trans h1.base⟩

theorem pop_step {cfg : Cfg} {code : List X86} {r : Reg} {rest : List X86} {s : PState w}
    (hat : At cfg code s.pc (.pop r :: rest)) (hr : r ≠ .rsp) {v : BitVec 64} {tl : List (BitVec 64)}
    (hs : s.stk = v :: tl) :
    ∃ s', step cfg s = .next s' ∧ s'.stk = tl ∧ s'.regs.get r = v ∧
      (∀ r', r' ≠ r → r' ≠ .rsp → s'.regs.get r' = s.regs.get r') ∧
      s'.regs.get .rsp = s.regs.get .rsp + 8 ∧ At cfg code s'.pc rest ∧ ExitKeep s s' := by
  refine ⟨_, step_pop hat hr hs, rfl, by simp, ?_, ?_, hat.tail, ⟨rfl, rfl, rfl, rfl, rfl, rfl, rfl, rfl⟩⟩
  · intro r' h1 h2; simp [h1, h2]
  · simp [Ne.symm hr]; rfl

theorem exit_common {cfg : Cfg} {code : List X86} {temps : Nat} (htemps : alignedTemps temps * 8 < 2147483648)
    {fr : Frame} {s : PState w} (hat : At cfg code s.pc (exitCode temps))
    (hrsp : s.regs.rsp = fr.rsp) (hlen : s.stk.length = alignedTemps temps + fr.saved.length)
    (hsaved : s.stk.drop (alignedTemps temps) = fr.saved) (h7 : fr.saved.length = 7) (k : Nat) :
    ∃ s', run cfg (8 + k) s = .ret s' ∧ s'.regs.rax = s.regs.rax ∧ Returned fr temps s s' := by
  have hN : i32 ((alignedTemps temps * 8 : Nat) : Int) = ((alignedTemps temps * 8 : Nat) : Int) :=
    i32_nat (by omega)
  obtain ⟨a, b, c, d, e, f, g, hs⟩ : ∃ a b c d e f g, fr.saved = [a, b, c, d, e, f, g] := by
    match hfs : fr.saved, h7 with
    | [a, b, c, d, e, f, g], _ => exact ⟨a, b, c, d, e, f, g, rfl⟩
  unfold exitCode at hat
  rw [hN] at hat
  have hdiv : (((alignedTemps temps * 8 : Nat) : Int) / 8).toNat = alignedTemps temps := by omega
  obtain ⟨z, cf', h1⟩ := step_addRsp hat (by omega) (by omega) (by omega) (by rw [hdiv, hlen]; omega)
  rw [hdiv, hsaved, hs] at h1
  obtain ⟨s1, hs1, e1⟩ : ∃ s1 : PState w, step cfg s = .next s1 ∧ s1 = _ := ⟨_, h1, rfl⟩
  have hat1 : At cfg code s1.pc [.pop .r15, .pop .r14, .pop .r13, .pop .r12, .pop .rbx, .pop .rbp, .ret] := by
    rw [e1]; exact hat.tail
  have k1 : ExitKeep s s1 := by rw [e1]; exact ⟨rfl, rfl, rfl, rfl, rfl, rfl, rfl, rfl⟩
  have r1 : ∀ r, r ≠ .rsp → s1.regs.get r = s.regs.get r := by intro r hr; rw [e1]; simp [hr]
  have p1 : s1.regs.get .rsp = fr.rsp + immVal ((alignedTemps temps * 8 : Nat) : Int) := by
    rw [e1]; simp [hrsp]
  have t1 : s1.stk = [a, b, c, d, e, f, g] := by rw [e1]
  clear e1 h1
  obtain ⟨s2, hs2, t2, v2, r2, p2, hat2, k2⟩ := pop_step hat1 (by decide) t1
  obtain ⟨s3, hs3, t3, v3, r3, p3, hat3, k3⟩ := pop_step hat2 (by decide) t2
  obtain ⟨s4, hs4, t4, v4, r4, p4, hat4, k4⟩ := pop_step hat3 (by decide) t3
  obtain ⟨s5, hs5, t5, v5, r5, p5, hat5, k5⟩ := pop_step hat4 (by decide) t4
  obtain ⟨s6, hs6, t6, v6, r6, p6, hat6, k6⟩ := pop_step hat5 (by decide) t5
  obtain ⟨s7, hs7, t7, v7, r7, p7, hat7, k7⟩ := pop_step hat6 (by decide) t6
  have h8 := step_ret hat7 t7
  have hsteps : steps cfg 7 s = some s7 := by
    simp [steps, hs1, hs2, hs3, hs4, hs5, hs6, hs7]
  refine ⟨_, run_ret hsteps h8 k, ?_⟩
  rw [and_comm]
  have kk := ((((((k1.trans k2).trans k3).trans k4).trans k5).trans k6).trans k7)
  refine ⟨⟨⟨g, ?_⟩, ?_, rfl, kk.lptr, kk.tape, kk.env, kk.trace, kk.budget, kk.buf, kk.size, kk.base⟩, ?_⟩
  rotate_left 2
  · show (s7.regs.set .rsp (s7.regs.rsp + 8)).get .rax = s.regs.get .rax
    simp
    rw [r7 _ (by decide) (by decide), r6 _ (by decide) (by decide), r5 _ (by decide) (by decide),
      r4 _ (by decide) (by decide), r3 _ (by decide) (by decide), r2 _ (by decide) (by decide),
      r1 _ (by decide)]
  · rw [hs]
    have e15 : (s7.regs.set .rsp (s7.regs.rsp + 8)).get .r15 = a := by
      simp
      rw [r7 _ (by decide) (by decide), r6 _ (by decide) (by decide), r5 _ (by decide) (by decide),
        r4 _ (by decide) (by decide), r3 _ (by decide) (by decide), v2]
    have e14 : (s7.regs.set .rsp (s7.regs.rsp + 8)).get .r14 = b := by
      simp
      rw [r7 _ (by decide) (by decide), r6 _ (by decide) (by decide), r5 _ (by decide) (by decide),
        r4 _ (by decide) (by decide), v3]
    have e13 : (s7.regs.set .rsp (s7.regs.rsp + 8)).get .r13 = c := by
      simp
      rw [r7 _ (by decide) (by decide), r6 _ (by decide) (by decide), r5 _ (by decide) (by decide), v4]
    have e12 : (s7.regs.set .rsp (s7.regs.rsp + 8)).get .r12 = d := by
      simp
      rw [r7 _ (by decide) (by decide), r6 _ (by decide) (by decide), v5]
    have ebx : (s7.regs.set .rsp (s7.regs.rsp + 8)).get .rbx = e := by
      simp
      rw [r7 _ (by decide) (by decide), v6]
    have ebp : (s7.regs.set .rsp (s7.regs.rsp + 8)).get .rbp = f := by
      simp [v7]
    simp only [RegFile.get] at e15 e14 e13 e12 ebx ebp
    simp only [e15, e14, e13, e12, ebx, ebp]
  · show (s7.regs.set .rsp (s7.regs.rsp + 8)).get .rsp = _
    simp
    have : s7.regs.rsp = s7.regs.get .rsp := rfl
    rw [this, p7, p6, p5, p4, p3, p2, p1, immVal, BitVec.ofInt_natCast]
    simp only [BitVec.add_assoc]
    congr 1

/-- `mov r, imm64`. -/
theorem step_movImm {cfg : Cfg} {code : List X86} {r : Reg} {v : Int} {rest : List X86} {s : PState w}
    (hat : At cfg code s.pc (.movRImm64 r v :: rest)) (hr : r ≠ .rsp ∧ r ≠ .rbp)
    (hfit : (X86.movRImm64 r v).fits = true) :
    step cfg s = .next { s with regs := s.regs.set r (immVal v), pc := s.pc + (X86.movRImm64 r v).size } := by
  rw [step_at hat]
  step_open hfit
  simp only [stepPlain, exec, hfit, if_true, execCore, writeReg, hr.1, hr.2, or_self, if_false, placeOf, rmOf,
    Option.bind_none]
  rfl

theorem step_jmp8 {cfg : Cfg} {code : List X86} {d : Int} {rest : List X86} {s : PState w}
    (hat : At cfg code s.pc (.jmpRel8 d :: rest)) (hfit : (X86.jmpRel8 d).fits = true) {t : Nat}
    (ht : (s.pc : Int) + 2 + d = t) : step cfg s = .next { s with pc := t } := by
  rw [step_at hat]
  step_open hfit
  exact jumpTo_eq (by simpa using ht)

/-- The termination path: `mov rax, 0` and the common end. The function returns 0. -/
theorem exit_term (K : Ctx w) (htemps : alignedTemps K.p.temps * 8 < 2147483648)
    {fr : Frame} {s : PState w} (hpc : s.pc = K.term)
    (hrsp : s.regs.rsp = fr.rsp) (hlen : s.stk.length = alignedTemps K.p.temps + fr.saved.length)
    (hsaved : s.stk.drop (alignedTemps K.p.temps) = fr.saved) (h7 : fr.saved.length = 7) (k : Nat) :
    ∃ s', run K.cfg (9 + k) s = .ret s' ∧ s'.regs.rax = 0 ∧ Returned fr K.p.temps s s' := by
  have hat : At K.cfg K.code s.pc (.movRImm64 .rax 0 :: exitCode K.p.temps) := by
    rw [hpc, ← epilogueTail_eq]; exact K.at_term
  have h1 := step_movImm hat (by decide) (by decide)
  obtain ⟨s1, hs1, e1⟩ : ∃ s1 : PState w, step K.cfg s = .next s1 ∧ s1 = _ := ⟨_, h1, rfl⟩
  have hat1 : At K.cfg K.code s1.pc (exitCode K.p.temps) := by rw [e1]; exact hat.tail
  have hrsp1 : s1.regs.rsp = fr.rsp := by
    have : s1.regs.get .rsp = s.regs.get .rsp := by rw [e1]; simp
    exact this.trans hrsp
  obtain ⟨s', hrun, hrax, hret⟩ := exit_common (fr := fr) htemps hat1 hrsp1
    (by rw [e1]; exact hlen) (by rw [e1]; exact hsaved) h7 k
  refine ⟨s', ?_, ?_, ?_⟩
  · have := run_of_steps (steps_one hs1) (8 + k)
    rw [show 9 + k = 1 + (8 + k) by omega, this]; exact hrun
  · rw [hrax]
    have : s1.regs.get .rax = immVal 0 := by rw [e1]; simp
    exact this.trans immVal_zero
  · have e : ExitKeep s s1 := by rw [e1]; exact ⟨rfl, rfl, rfl, rfl, rfl, rfl, rfl, rfl⟩
    exact ⟨hret.saved, hret.rsp, hret.stk, hret.lptr.trans e.lptr, hret.tape.trans e.tape, hret.env.trans e.env,
      hret.trace.trans e.trace, hret.budget.trans e.budget, hret.buf.trans e.buf, hret.size.trans e.size,
      hret.base.trans e.base⟩

/-- The normal exit: `mov rax, 1; jmp +6` and the common end. The function returns 1. -/
theorem exit_normal (K : Ctx w) (htemps : alignedTemps K.p.temps * 8 < 2147483648)
    {fr : Frame} {s : PState w} (hpc : s.pc = K.loc K.n)
    (hrsp : s.regs.rsp = fr.rsp) (hlen : s.stk.length = alignedTemps K.p.temps + fr.saved.length)
    (hsaved : s.stk.drop (alignedTemps K.p.temps) = fr.saved) (h7 : fr.saved.length = 7) (k : Nat) :
    ∃ s', run K.cfg (10 + k) s = .ret s' ∧ s'.regs.rax = 1 ∧ Returned fr K.p.temps s s' := by
  have hat0 := K.at_end
  rw [epilogueHead_eq, epilogueTail_eq] at hat0
  have hat : At K.cfg K.code s.pc ([.movRImm64 .rax 1, .jmpRel8 6] ++ .movRImm64 .rax 0 :: exitCode K.p.temps) := by
    rw [hpc]; exact hat0
  have h1 := step_movImm (r := .rax) (v := 1) hat (by decide) (by decide)
  obtain ⟨s1, hs1, e1⟩ : ∃ s1 : PState w, step K.cfg s = .next s1 ∧ s1 = _ := ⟨_, h1, rfl⟩
  have hat1 : At K.cfg K.code s1.pc (.jmpRel8 6 :: .movRImm64 .rax 0 :: exitCode K.p.temps) := by
    rw [e1]; exact hat.tail
  have h2 := step_jmp8 (t := s1.pc + 8) hat1 (by decide) (by push_cast; omega)
  obtain ⟨s2, hs2, e2⟩ : ∃ s2 : PState w, step K.cfg s1 = .next s2 ∧ s2 = _ := ⟨_, h2, rfl⟩
  have hat2 : At K.cfg K.code s2.pc (exitCode K.p.temps) := by
    have := hat1.tail.tail
    rw [e2]
    have e : s1.pc + (X86.jmpRel8 6).size + (X86.movRImm64 .rax 0).size = s1.pc + 8 := by
      rw [show (X86.jmpRel8 6).size = 2 by decide, show (X86.movRImm64 .rax 0).size = 6 by decide]
    rw [e] at this; exact this
  have hrsp2 : s2.regs.rsp = fr.rsp := by
    have : s2.regs.get .rsp = s.regs.get .rsp := by rw [e2, e1]; simp
    exact this.trans hrsp
  obtain ⟨s', hrun, hrax, hret⟩ := exit_common (fr := fr) htemps hat2 hrsp2
    (by rw [e2, e1]; exact hlen) (by rw [e2, e1]; exact hsaved) h7 k
  refine ⟨s', ?_, ?_, ?_⟩
  · have := run_of_steps (steps_trans (steps_one hs1) (steps_one hs2)) (8 + k)
    rw [show 10 + k = 1 + 1 + (8 + k) by omega, this]; exact hrun
  · rw [hrax]
    have : s2.regs.get .rax = immVal 1 := by rw [e2, e1]; simp
    exact this.trans (by decide)
  · have e : ExitKeep s s2 := by rw [e2, e1]; exact ⟨rfl, rfl, rfl, rfl, rfl, rfl, rfl, rfl⟩
    exact ⟨hret.saved, hret.rsp, hret.stk, hret.lptr.trans e.lptr, hret.tape.trans e.tape, hret.env.trans e.env,
      hret.trace.trans e.trace, hret.budget.trans e.budget, hret.buf.trans e.buf, hret.size.trans e.size,
      hret.base.trans e.base⟩

end C03
end Hpbf
