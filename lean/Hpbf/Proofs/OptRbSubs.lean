/-
Rebuild-round proofs, stage 4: bookkeeping for the nodes of the previous analysis.  `subsOf` and `popSubAnal`,
the rebuild relation does not see the pop (`relAt_of_core`), `AskStable` from `StableAsk`, the child of a block
under the previous round's shape.
-/
import Hpbf.Proofs.OptRbGDefs
import Hpbf.Proofs.OptRbDseShape
import Hpbf.Proofs.OptRbInlineG

namespace Hpbf
namespace OptProof
open Opt OptSem Ir

variable {w : Nat}

/-! ### (1) the pop order -/

theorem subsOf_child (sh : Int) (c : Option Int) (par : OptParent) (A : OptAnalysis w) :
    subsOf (reverseSubBlocks (Rebuild.new sh c par (some A)) : Rebuild w) = A.subBlocks := by
  cases A with
  | mk a b c d e =>
    simp [subsOf, reverseSubBlocks, Rebuild.new, OptAnalysis.setSubBlocks, OptAnalysis.subBlocks]

theorem subsOf_new_none (sh : Int) (c : Option Int) (par : OptParent) :
    subsOf (reverseSubBlocks (Rebuild.new sh c par none) : Rebuild w) = [] := by
  simp [subsOf, reverseSubBlocks, Rebuild.new]

theorem subsOf_congr {s s' : Rebuild w} (h : s'.anal = s.anal) : subsOf s' = subsOf s := by
  unfold subsOf; rw [h]

theorem popSubAnal_cons {s : Rebuild w} {A : OptAnalysis w} {rest : List (OptAnalysis w)}
    (h : subsOf s = A :: rest) : (popSubAnal s).2 = some A ∧ subsOf (popSubAnal s).1 = rest := by
  unfold subsOf at h
  cases ha : s.anal with
  | none => rw [ha] at h; cases h
  | some a =>
    rw [ha] at h
    simp only at h
    have hsb : a.subBlocks = rest.reverse ++ [A] := by
      have := congrArg List.reverse h
      simpa using this
    unfold popSubAnal
    rw [ha]
    simp only
    have hl : a.subBlocks.getLast? = some A := by rw [hsb]; simp
    rw [hl]
    refine ⟨rfl, ?_⟩
    cases a with
    | mk a1 a2 a3 a4 a5 =>
      simp only [OptAnalysis.subBlocks] at hsb
      subst hsb
      simp [subsOf, OptAnalysis.setSubBlocks, OptAnalysis.subBlocks]

theorem popSubAnal_nil {s : Rebuild w} (h : subsOf s = []) : popSubAnal s = (s, none) := by
  unfold subsOf at h
  unfold popSubAnal
  cases ha : s.anal with
  | none => rfl
  | some a =>
    rw [ha] at h
    simp only at h ⊢
    have : a.subBlocks = [] := by simpa using h
    rw [this]
    rfl

/-- Everything but `anal` is untouched by the pop. -/
theorem popSubAnal_same (s : Rebuild w) :
    (popSubAnal s).1.parent = s.parent ∧ (popSubAnal s).1.shift = s.shift ∧
    (popSubAnal s).1.cond = s.cond ∧ (popSubAnal s).1.subShift = s.subShift ∧
    (popSubAnal s).1.noReturn = s.noReturn ∧ (popSubAnal s).1.reads = s.reads ∧
    (popSubAnal s).1.written = s.written ∧ (popSubAnal s).1.pending = s.pending ∧
    (popSubAnal s).1.reverse = s.reverse ∧ (popSubAnal s).1.insts = s.insts ∧
    (popSubAnal s).1.subAnal = s.subAnal := by
  unfold popSubAnal
  split
  · split <;> exact ⟨rfl, rfl, rfl, rfl, rfl, rfl, rfl, rfl, rfl, rfl, rfl⟩
  · exact ⟨rfl, rfl, rfl, rfl, rfl, rfl, rfl, rfl, rfl, rfl, rfl⟩

theorem popSubAnal_wf {s : Rebuild w} : Wf (popSubAnal s).1 ↔ Wf s := by
  obtain ⟨_, _, _, _, _, _, f7, f8, f9, _⟩ := popSubAnal_same s
  constructor
  · intro h
    exact ⟨by rw [← f8]; exact h.pend, by rw [← f7]; exact h.writ, by rw [← f9]; exact h.rev,
      by rw [← f8, ← f9]; exact h.revOk⟩
  · intro h
    exact ⟨by rw [f8]; exact h.pend, by rw [f7]; exact h.writ, by rw [f9]; exact h.rev,
      by rw [f8, f9]; exact h.revOk⟩

theorem popSubAnal_canonSt {s : Rebuild w} : CanonSt (popSubAnal s).1 ↔ CanonSt s := by
  obtain ⟨_, _, _, _, _, _, f7, f8, _⟩ := popSubAnal_same s
  unfold CanonSt
  rw [f7, f8]

theorem popSubAnal_knownVars {s : Rebuild w} : KnownVars (popSubAnal s).1 ↔ KnownVars s := by
  obtain ⟨_, _, _, f4, _, f6, f7, _⟩ := popSubAnal_same s
  unfold KnownVars
  rw [f4, f6, f7]

theorem popSubAnal_sasc {s : Rebuild w} : OptLoop.SAsc (popSubAnal s).1.reads ↔ OptLoop.SAsc s.reads := by
  rw [(popSubAnal_same s).2.2.2.2.2.1]

theorem popSubAnal_pvClean {s : Rebuild w} {ps : List (Rebuild w)} :
    PVClean (popSubAnal s).1 ps ↔ PVClean s ps := by
  obtain ⟨f1, f2, _, f4, _, _, f7, f8, _⟩ := popSubAnal_same s
  constructor
  · exact pv_reshift f8.symm f7.symm (acore_popSubAnal s).symm f4.symm f1.symm (Or.inl f2.symm)
  · exact pv_reshift f8 f7 (acore_popSubAnal s) f4 f1 (Or.inl f2)

theorem popSubAnal_shapeSt {s : Rebuild w} : ShapeSt (popSubAnal s).1 ↔ ShapeSt s := by
  obtain ⟨_, _, _, f4, _, _, _, _, _, f10, f11⟩ := popSubAnal_same s
  constructor
  · intro h; exact h.of_same f10.symm f11.symm f4.symm
  · intro h; exact h.of_same f10 f11 f4

/-! ### (2) the rebuild relation only looks at the core of the node -/

theorem nonZeroParent_congr' {s s' : Rebuild w} (hcore : acore s' = acore s)
    (hsub : s'.subShift = s.subShift) (hpar : s'.parent = s.parent) (hcond : s'.cond = s.cond)
    (hsh : s'.shift = s.shift ∨ ShiftIndep s) (ps : List (Rebuild w)) (x : Int) :
    nonZeroParent s' ps x = nonZeroParent s ps x := by
  unfold nonZeroParent
  rw [canAskParentFor_congr' hcore hsub hsh, hpar, hcond, hsub]

theorem compareParent_congr' {s s' : Rebuild w} (hcore : acore s' = acore s)
    (hsub : s'.subShift = s.subShift) (hpar : s'.parent = s.parent)
    (hsh : s'.shift = s.shift ∨ ShiftIndep s) (ps : List (Rebuild w)) (a b : Expr w) :
    compareParent s' ps a b = compareParent s ps a b := by
  unfold compareParent
  have : (fun x => canAskParentFor s' x) = (fun x => canAskParentFor s x) := by
    funext x; exact canAskParentFor_congr' hcore hsub hsh x
  rw [this, hpar]

theorem PK.of_core {s s' : Rebuild w} {ps : List (Rebuild w)} {M0 : Mem w} (h : PK s ps M0)
    (hcore : acore s' = acore s) (hsub : s'.subShift = s.subShift) (hpar : s'.parent = s.parent)
    (hcond : s'.cond = s.cond) (hsh : s'.shift = s.shift ∨ ShiftIndep s) : PK s' ps M0 :=
  ⟨fun v c hc => h.const v c (by rw [← getParentConstant_congr' hcore hsub hpar hsh]; exact hc),
   fun v hv => h.nz v (by rw [← nonZeroParent_congr' hcore hsub hpar hcond hsh]; exact hv),
   fun a b ha hb hc => h.cmp a b ha hb (by rw [← compareParent_congr' hcore hsub hpar hsh]; exact hc)⟩

theorem RelAt.of_core {sh : Int} {s s' : Rebuild w} {ps : List (Rebuild w)} {M0 : Mem w} {σE σS : State w}
    (h : RelAt sh s ps M0 σE σS) (hcore : acore s' = acore s) (hpar : s'.parent = s.parent)
    (hshift : s'.shift = s.shift) (hcond : s'.cond = s.cond) (hsub : s'.subShift = s.subShift)
    (hnr : s'.noReturn = s.noReturn) (hw : s'.written = s.written) (hp : s'.pending = s.pending) :
    RelAt sh s' ps M0 σE σS := by
  refine ⟨h.tr, h.env, h.ptr, by rw [hnr]; exact h.nr, ?_, ?_, ?_⟩
  · rw [hp]; exact h.inv.pend
  · have := h.inv.writ
    unfold WrOk at this ⊢
    rw [hw]; exact this
  · exact h.inv.pk.of_core hcore hsub hpar hcond (Or.inl hshift)

/-- Two states with the same core of the analysis node and the same other fields are related to the same
machine states. -/
theorem relAt_of_core {sh : Int} {s s' : Rebuild w} {ps : List (Rebuild w)} {M0 : Mem w} {σE σS : State w}
    (hcore : acore s' = acore s) (hpar : s'.parent = s.parent) (hshift : s'.shift = s.shift)
    (hcond : s'.cond = s.cond) (hsub : s'.subShift = s.subShift) (hnr : s'.noReturn = s.noReturn)
    (hw : s'.written = s.written) (hp : s'.pending = s.pending) :
    RelAt sh s' ps M0 σE σS ↔ RelAt sh s ps M0 σE σS :=
  ⟨fun h => h.of_core hcore.symm hpar.symm hshift.symm hcond.symm hsub.symm hnr.symm hw.symm hp.symm,
   fun h => h.of_core hcore hpar hshift hcond hsub hnr hw hp⟩

/-- The rebuild relation does not see the pop. -/
theorem relAt_pop {sh : Int} {s : Rebuild w} {ps : List (Rebuild w)} {M0 : Mem w} {σE σS : State w} :
    RelAt sh (popSubAnal s).1 ps M0 σE σS ↔ RelAt sh s ps M0 σE σS := by
  obtain ⟨f1, f2, f3, f4, f5, _, f7, f8, _⟩ := popSubAnal_same s
  exact relAt_of_core (acore_popSubAnal s) f1 f2 f3 f4 f5 f7 f8

/-! ### (3) `AskStable` from `StableAsk` -/

theorem askStable_of_shiftIndep {s : Rebuild w} (h : ShiftIndep s) (x : Int) : AskStable s x :=
  fun v => canAskParentFor_congr' (s := s) (s' := { s with shift := x }) rfl rfl (Or.inr h) v

theorem stableAsk_of_core {s s' : Rebuild w} {l : List (Instr w)} (h : StableAsk s l)
    (hc : acore s' = acore s) : StableAsk s' l := by
  rcases h with h | h
  · exact Or.inl (h.of_core hc)
  · exact Or.inr h

theorem stableAsk_tail {s s' : Rebuild w} {i : Instr w} {rest : List (Instr w)}
    (h : StableAsk s (i :: rest)) (hc : acore s' = acore s) : StableAsk s' rest := by
  rcases h with h | h
  · exact Or.inl (h.of_core hc)
  · right
    rw [C01Dse.noShiftL] at h
    simp only [Bool.and_eq_true] at h
    exact h.2

/-- A nested block of a list without pointer movement: shift `0`, body without pointer movement. -/
theorem noShift_block {i : Instr w} {rest : List (Instr w)} {c shS : Int} {body : List (Instr w)}
    (h : C01Dse.noShiftL (i :: rest) = true) (hp : C01Dse.blockParts i = some (c, shS, body)) :
    shS = 0 ∧ C01Dse.noShiftL body = true := by
  rw [C01Dse.noShiftL] at h
  simp only [Bool.and_eq_true] at h
  have hi := h.1
  cases i with
  | output _ => simp [C01Dse.blockParts] at hp
  | input _ => simp [C01Dse.blockParts] at hp
  | «calc» _ => simp [C01Dse.blockParts] at hp
  | loop c' sh' body' o =>
    simp only [C01Dse.blockParts, Option.some.injEq, Prod.mk.injEq] at hp
    obtain ⟨_, rfl, rfl⟩ := hp
    rw [C01Dse.noShiftI] at hi
    simpa using hi
  | ifnz c' sh' body' =>
    simp only [C01Dse.blockParts, Option.some.injEq, Prod.mk.injEq] at hp
    obtain ⟨_, rfl, rfl⟩ := hp
    rw [C01Dse.noShiftI] at hi
    simpa using hi

/-- The block case: the shift the child ends with (with or without the block's own shift) can be installed in
the parent without changing what the parent may ask. -/
theorem askStable_block {s s1 : Rebuild w} {ps : List (Rebuild w)} {i : Instr w} {rest : List (Instr w)}
    {c shS : Int} {body : List (Instr w)} (hst : StableAsk s (i :: rest))
    (hp : C01Dse.blockParts i = some (c, shS, body)) {sub0 subR : Rebuild w} {completed : Bool}
    {os os1 : Orders} (h1 : (rebuildInsts (s1 :: ps) sub0 body).run os = .ok ((subR, completed), os1))
    (hsh0 : sub0.shift = s.shift) (hwf0 : Wf sub0) (hc0 : CanonSt sub0) (hcl : CanonL body) :
    AskStable s subR.shift ∧ AskStable s (subR.shift + shS) := by
  rcases hst with h | h
  · exact ⟨askStable_of_shiftIndep h _, askStable_of_shiftIndep h _⟩
  · obtain ⟨e0, hns⟩ := noShift_block h hp
    have e : subR.shift = s.shift := (rebuildInsts_shift_const body h1 hwf0 hc0 hcl hns).trans hsh0
    exact ⟨AskStable.of_eq e, AskStable.of_eq (by rw [e0, e]; omega)⟩

/-! ### (4) the child of a block under the previous round's shape -/

theorem child_pv {i : Instr w} {a : OptAnalysis w} (hs : ShapeI i a) {c shS : Int} {body : List (Instr w)}
    (hp : C01Dse.blockParts i = some (c, shS, body)) (sh cond : Int) (ps : List (Rebuild w))
    {subR : Rebuild w} {completed : Bool} {os os1 : Orders}
    (h1 : (rebuildInsts ps (reverseSubBlocks (Rebuild.new sh (some cond) .parent (some a))) body).run os
      = .ok ((subR, completed), os1)) (hcl : CanonL body) :
    PVClean subR ps ∧
    PVClean (if completed then { subR with shift := subR.shift + shS } else subR) ps ∧
    StableAsk (reverseSubBlocks (Rebuild.new sh (some cond) .parent (some a)) : Rebuild w) body := by
  obtain ⟨hst, hflag⟩ := stableAsk_child_of_shapeI hs sh (some cond) .parent hp
  have hch0 : Child (reverseSubBlocks (Rebuild.new sh (some cond) .parent (some a)) : Rebuild w) :=
    (child_new _ _ _ _).reverseSubBlocks
  have hpv : PVClean subR ps :=
    rebuildInsts_pvclean_all body h1 hch0.wf hch0.canon hcl hst (pvClean_child _ _ _ _ ps)
  have hcore : acore subR = some (a.loopAnal.atMostOnce, a.hasShift, a.clobbered) := by
    rw [rebuildInsts_acore (ps := ps) body h1 hch0.wf hch0.canon hcl, acore_child]
    rfl
  have hadd : ShiftIndep subR ∨ shS = 0 := by
    rcases hflag with h | h | h
    · left; unfold ShiftIndep; rw [hcore]; exact Or.inl h
    · left; unfold ShiftIndep; rw [hcore]; exact Or.inr h
    · exact Or.inr h
  refine ⟨hpv, ?_, hst⟩
  split
  · exact pvClean_addShift shS hadd hpv
  · exact hpv

#print axioms relAt_pop
#print axioms askStable_block
#print axioms child_pv

end OptProof
end Hpbf
