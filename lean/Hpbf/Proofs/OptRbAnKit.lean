/-
Rebuild-round proofs, stage 5: the TOOLKIT for "the analysis a round records is sound for the program it emits".
(1) algebra of `AnalInL` / `AnalInI` / `BlockIn` / `AfterG` (monotonicity, block-free lists, `++`);
(2) lemmas about the mirror guard `MirV`;
(3) algebra of `AStep` (reflexivity, block-free steps, weakening, congruence, and THE COMPOSITION `AStep.trans`).
-/
import Hpbf.Proofs.OptRbAnDefs
import Hpbf.Proofs.OptRbMotionChildG

namespace Hpbf
namespace OptProof
open Opt OptSem Ir

variable {w : Nat}

/-! ## (1) `AnalInL` algebra -/

theorem blockIn_mono {G G' : State w → Prop} {isLoop : Bool} {c sh : Int} {body : List (Instr w)}
    {A : OptAnalysis w} (h : ∀ σ, G' σ → G σ) (hb : BlockIn G isLoop c sh body A) :
    BlockIn G' isLoop c sh body A :=
  blockIn_cover (fun σ hσ => ⟨G, h σ hσ, hb⟩)

theorem analInI_mono {G G' : State w → Prop} {i : Instr w} {A : OptAnalysis w} (h : ∀ σ, G' σ → G σ)
    (hi : AnalInI G i A) : AnalInI G' i A :=
  analInI_cover i A G' (fun σ hσ => ⟨G, h σ hσ, hi⟩)

theorem analInL_mono {G G' : State w → Prop} {l : List (Instr w)} {subs : List (OptAnalysis w)}
    (h : ∀ σ, G' σ → G σ) (hl : AnalInL G l subs) : AnalInL G' l subs :=
  analInL_cover l subs G' (fun σ hσ => ⟨G, h σ hσ, hl⟩)

/-- guards that are extensionally equal -/
theorem analInL_congr_guard {G G' : State w → Prop} {l : List (Instr w)} {subs : List (OptAnalysis w)}
    (h : ∀ σ, G σ ↔ G' σ) : AnalInL G l subs ↔ AnalInL G' l subs :=
  ⟨analInL_mono (fun σ hσ => (h σ).2 hσ), analInL_mono (fun σ hσ => (h σ).1 hσ)⟩

theorem analInI_congr_guard {G G' : State w → Prop} {i : Instr w} {A : OptAnalysis w}
    (h : ∀ σ, G σ ↔ G' σ) : AnalInI G i A ↔ AnalInI G' i A :=
  ⟨analInI_mono (fun σ hσ => (h σ).2 hσ), analInI_mono (fun σ hσ => (h σ).1 hσ)⟩

/-- a list without nested blocks makes no claim -/
theorem analInL_noBlocks {G : State w → Prop} {l : List (Instr w)} {subs : List (OptAnalysis w)}
    (h : ∀ i ∈ l, C01Dse.isBlock i = false) : AnalInL G l subs := by
  induction l generalizing G with
  | nil => exact analInL_nil G subs
  | cons i l ih =>
    rw [analInL_cons_nonblock G (h i (by simp))]
    exact ih (fun j hj => h j (by simp [hj]))

theorem afterG_mono {G G' : State w → Prop} {l : List (Instr w)} (h : ∀ σ, G' σ → G σ) :
    ∀ σ, AfterG G' l σ → AfterG G l σ := by
  rintro σ ⟨σ0, h0, hex⟩
  exact ⟨σ0, h σ0 h0, hex⟩

theorem afterG_nil {G : State w → Prop} (σ : State w) : AfterG G [] σ ↔ G σ := by
  constructor
  · rintro ⟨σ0, h0, hex⟩
    cases hex
    exact h0
  · intro h; exact ⟨σ, h, .nil σ⟩

theorem afterG_append {G : State w → Prop} {l1 l2 : List (Instr w)} (σ : State w) :
    AfterG G (l1 ++ l2) σ ↔ AfterG (AfterG G l1) l2 σ := by
  constructor
  · rintro ⟨σ0, h0, hex⟩
    rcases exec_append.1 hex with ⟨hnf, _⟩ | ⟨σ1, h1, h2⟩
    · cases hnf
    · exact ⟨σ1, ⟨σ0, h0, h1⟩, h2⟩
  · rintro ⟨σ1, ⟨σ0, h0, h1⟩, h2⟩
    exact ⟨σ0, h0, exec_append.2 (Or.inr ⟨σ1, h1, h2⟩)⟩

theorem afterG_cons {G : State w → Prop} {i : Instr w} {l : List (Instr w)} (σ : State w) :
    AfterG G (i :: l) σ ↔ AfterG (AfterG G [i]) l σ :=
  afterG_append (l1 := [i]) σ

/-- `AnalInL` of a concatenation (the first list is paired exactly with the first node list). -/
theorem analInL_append {G : State w → Prop} {l1 l2 : List (Instr w)} {a1 a2 : List (OptAnalysis w)}
    (hs : ShapeL l1 a1) :
    AnalInL G (l1 ++ l2) (a1 ++ a2) ↔ AnalInL G l1 a1 ∧ AnalInL (AfterG G l1) l2 a2 := by
  induction l1 generalizing G a1 with
  | nil =>
    rw [shapeL_nil_iff] at hs
    subst hs
    simp only [List.nil_append]
    rw [analInL_congr_guard (G := AfterG G []) (G' := G) afterG_nil]
    exact ⟨fun h => ⟨analInL_nil G [], h⟩, fun h => h.2⟩
  | cons i l1 ih =>
    rw [List.cons_append]
    cases hb : C01Dse.isBlock i with
    | false =>
      rw [shapeL_cons_nonblock hb] at hs
      rw [analInL_cons_nonblock G hb, analInL_cons_nonblock G hb, ih hs,
        analInL_congr_guard (G := AfterG (AfterG G [i]) l1) (G' := AfterG G (i :: l1))
          (fun σ => (afterG_cons σ).symm)]
    | true =>
      rw [shapeL_cons_block hb] at hs
      obtain ⟨A, a1', rfl, _, hr⟩ := hs
      rw [List.cons_append, analInL_cons_block G hb, analInL_cons_block G hb, ih hr,
        analInL_congr_guard (G := AfterG (AfterG G [i]) l1) (G' := AfterG G (i :: l1))
          (fun σ => (afterG_cons σ).symm), and_assoc]

/-- an `ifnz` node makes no claim of its own -/
theorem blockIn_ifnz {G : State w → Prop} {c sh : Int} {body : List (Instr w)} {A : OptAnalysis w} :
    BlockIn G false c sh body A :=
  ⟨fun _ h => (by cases h), fun _ _ h => (by cases h)⟩

/-- a `loop` node with `atMostOnce = false` only makes the `clobbered` claim -/
theorem blockIn_loop_of {G : State w → Prop} {c sh : Int} {body : List (Instr w)} {A : OptAnalysis w}
    (hamo : A.loopAnal.atMostOnce = false)
    (h : A.hasShift = false → ∀ σ, G σ → ∀ k σk, Head c sh body σ k σk →
      σk.ptr = σ.ptr ∧ ∀ x, A.clobbered.contains x = false → σk.rd x = σ.rd x) :
    BlockIn G true c sh body A :=
  ⟨fun h1 => (by rw [hamo] at h1; cases h1), fun _ h2 _ σ hσ k σk hh => h h2 σ hσ k σk hh⟩

/-- the node of an emitted loop (`ShapeI`: `atMostOnce = false`) -/
theorem analInI_loop_of_shape {G : State w → Prop} {c sh : Int} {body : List (Instr w)} {o : Bool}
    {A : OptAnalysis w} (hs : ShapeI (.loop c sh body o) A)
    (h : A.hasShift = false → ∀ σ, G σ → ∀ k σk, Head c sh body σ k σk →
      σk.ptr = σ.ptr ∧ ∀ x, A.clobbered.contains x = false → σk.rd x = σ.rd x)
    (hb : AnalInL (HeadG G true c sh body) body A.subBlocks) : AnalInI G (.loop c sh body o) A :=
  (analInI_loop G c sh body o A).2 ⟨blockIn_loop_of (shapeI_loop hs).2.1 h, hb⟩

theorem analInI_ifnz_of {G : State w → Prop} {c sh : Int} {body : List (Instr w)} {A : OptAnalysis w}
    (hb : AnalInL (HeadG G false c sh body) body A.subBlocks) : AnalInI G (.ifnz c sh body) A :=
  (analInI_ifnz G c sh body A).2 ⟨blockIn_ifnz, hb⟩

theorem headG_mono {G G' : State w → Prop} {isLoop : Bool} {c sh : Int} {body : List (Instr w)}
    (h : ∀ σ, G' σ → G σ) : ∀ σ, HeadG G' isLoop c sh body σ → HeadG G isLoop c sh body σ := by
  rintro σ ⟨hnz, σ0, h0, hh⟩
  exact ⟨hnz, σ0, h σ0 h0, hh⟩

/-- a single block with its node -/
theorem analInL_single {G : State w → Prop} {i : Instr w} {A : OptAnalysis w}
    (hb : C01Dse.isBlock i = true) : AnalInL G [i] [A] ↔ AnalInI G i A := by
  rw [analInL_cons_block G hb]
  exact ⟨fun h => h.1, fun h => ⟨h, analInL_nil _ _⟩⟩

/-! ## (2) the mirror guard `MirV` -/

theorem rest_of_written_nil {K : Int → Prop} {s : Rebuild w} (hw : s.written = []) (v : Int) :
    Rest K s v ↔ K v := by
  unfold Rest DefW
  rw [hw]
  simp [mGet]

theorem rest_eq_of_written_nil {K : Int → Prop} {s : Rebuild w} (hw : s.written = []) : Rest K s = K :=
  funext (fun v => propext (rest_of_written_nil hw v))

theorem MirV.mono_V {V V' : State w → Prop} {s s' : Rebuild w} (hv : ∀ σ, V σ → V' σ) :
    ∀ σ, MirV V s s' σ → MirV V' s s' σ := by
  rintro σ ⟨σ1, K, h1, h2, h3, h4⟩
  exact ⟨σ1, K, hv σ1 h1, h2, h3, h4⟩

/-- a later state (more reads, possibly an uncertain move) has fewer mirrors -/
theorem MirV.mono_reads {V : State w → Prop} {s s' s'' : Rebuild w}
    (hr : ∀ v, v ∈ s'.reads → v ∈ s''.reads) (hss : s''.subShift = false → s'.subShift = false) :
    ∀ σ, MirV V s s'' σ → MirV V s s' σ := by
  rintro σ ⟨σ1, K, h1, h2, h3, h4⟩
  refine ⟨σ1, K, h1, fun v hk hm => h2 v hk (hr v hm), fun hs' => h3 ?_, h4⟩
  cases hs2 : s''.subShift with
  | true => rfl
  | false => rw [hss hs2] at hs'; cases hs'

theorem MirV.mono_readsMono {V : State w → Prop} {s s' s'' : Rebuild w} (hm : ReadsMono s' s'') :
    ∀ σ, MirV V s s'' σ → MirV V s s' σ :=
  MirV.mono_reads hm.1 hm.2

/-- only `s.written`, `s'.reads` and `s'.subShift` matter -/
theorem MirV.congr {V : State w → Prop} {s s' t t' : Rebuild w} (hw : t.written = s.written)
    (hr : t'.reads = s'.reads) (hss : t'.subShift = s'.subShift) (σ : State w) :
    MirV V t t' σ ↔ MirV V s s' σ := by
  unfold MirV
  rw [hr, hss]
  constructor
  · rintro ⟨σ1, K, h1, h2, h3, h4⟩
    exact ⟨σ1, K, h1, h2, h3, h4.congr (Rest.congr hw K)⟩
  · rintro ⟨σ1, K, h1, h2, h3, h4⟩
    exact ⟨σ1, K, h1, h2, h3, h4.congr (fun v => (Rest.congr hw K v).symm)⟩

/-- for a state that has written nothing yet: a state that agrees with a mirror outside unread cells is a mirror -/
theorem MirV.of_agree {V : State w → Prop} {s s' : Rebuild w} {X : Int → Prop} {σ2 σ3 : State w}
    (hw : s.written = []) (h : MirV V s s' σ2) (hag : AgreeOff X σ2 σ3) (hX : ∀ v, X v → v ∉ s'.reads)
    (hXs : s'.subShift = true → ∀ v, ¬ X v) : MirV V s s' σ3 := by
  obtain ⟨σ1, K, h1, h2, h3, h4⟩ := h
  refine ⟨σ1, fun v => K v ∨ X v, h1, ?_, ?_, ?_⟩
  · rintro v (hk | hx)
    · exact h2 v hk
    · exact hX v hx
  · rintro hs v (hk | hx)
    · exact h3 hs v hk
    · exact hXs hs v hx
  · refine (h4.trans' hag).mono (fun v hv => ?_)
    rw [rest_of_written_nil hw]
    rcases hv with hv | hv
    · exact Or.inl ((rest_of_written_nil hw v).1 hv)
    · exact Or.inr hv

/-- agreement everywhere is `StEq` -/
theorem AgreeOff.stEq_of_empty {K : Int → Prop} {σ1 σ2 : State w} (h : AgreeOff K σ1 σ2) (hK : ∀ v, ¬ K v) :
    StEq σ1 σ2 := by
  refine ⟨h.1, h.2.1, h.2.2.1, fun i => ?_⟩
  have := h.2.2.2 (i - σ1.ptr) (hK _)
  have e1 : σ1.ptr + (i - σ1.ptr) = i := by omega
  have e2 : σ2.ptr + (i - σ1.ptr) = i := by rw [← h.1]; omega
  show σ1.tape.get i = σ2.tape.get i
  have h' : σ1.tape.get (σ1.ptr + (i - σ1.ptr)) = σ2.tape.get (σ2.ptr + (i - σ1.ptr)) := this
  rw [e1, e2] at h'
  exact h'

theorem AgreeOff.of_stEq {K : Int → Prop} {σ1 σ2 : State w} (h : StEq σ1 σ2) : AgreeOff K σ1 σ2 :=
  ⟨h.1, h.2.1, h.2.2.1, fun _ _ => by rw [h.memE]⟩

/-- a mirror of a state with an uncertain move is (up to the representation of the tape) the valid state itself -/
theorem MirV.stEq_of_subShift {V : State w → Prop} {s s' : Rebuild w} {σ2 : State w} (hs : s'.subShift = true)
    (h : MirV V s s' σ2) : ∃ σ1, V σ1 ∧ StEq σ1 σ2 := by
  obtain ⟨σ1, K, h1, _, h3, h4⟩ := h
  exact ⟨σ1, h1, h4.stEq_of_empty (fun v hv => h3 hs v hv.1)⟩

/-! ## (3) `AStep` algebra -/

theorem AStep.refl (V : State w → Prop) (s : Rebuild w) : AStep V s s [] :=
  ⟨[], by simp, shapeL_nil, analInL_nil _ _⟩

/-- a step that emits no nested block and records no node -/
theorem AStep.of_noBlocks {V : State w → Prop} {s s' : Rebuild w} {new : List (Instr w)}
    (hins : ∀ i ∈ new, C01Dse.isBlock i = false) (hsa : s'.subAnal = s.subAnal) : AStep V s s' new :=
  ⟨[], by simp [hsa], shapeL_nonblocks hins, analInL_noBlocks hins⟩

theorem AStep.weaken {V V' : State w → Prop} {s s' : Rebuild w} {new : List (Instr w)}
    (hv : ∀ σ, V' σ → V σ) (h : AStep V s s' new) : AStep V' s s' new := by
  obtain ⟨newA, h1, h2, h3⟩ := h.ext
  exact ⟨newA, h1, h2, analInL_mono (MirV.mono_V hv) h3⟩

/-- the target state only matters through `subAnal`, `reads`, `subShift` -/
theorem AStep.congr_right {V : State w → Prop} {s s' t' : Rebuild w} {new : List (Instr w)}
    (hsa : t'.subAnal = s'.subAnal) (hr : t'.reads = s'.reads) (hss : t'.subShift = s'.subShift)
    (h : AStep V s s' new) : AStep V s t' new := by
  obtain ⟨newA, h1, h2, h3⟩ := h.ext
  refine ⟨newA, by rw [hsa, h1], h2, analInL_mono (fun σ hσ => ?_) h3⟩
  exact (MirV.congr rfl hr hss σ).1 hσ

/-- the source state only matters through `subAnal`, `written` -/
theorem AStep.congr_left {V : State w → Prop} {s t s' : Rebuild w} {new : List (Instr w)}
    (hsa : t.subAnal = s.subAnal) (hw : t.written = s.written)
    (h : AStep V s s' new) : AStep V t s' new := by
  obtain ⟨newA, h1, h2, h3⟩ := h.ext
  refine ⟨newA, by rw [hsa, h1], h2, analInL_mono (fun σ hσ => ?_) h3⟩
  exact (MirV.congr hw rfl rfl σ).1 hσ

/-- The states after `n1` from mirrors of `V`-states (for the step `a → c`) are mirrors of `V'`-states (for the
step `b → c`). -/
theorem afterG_mirV {V V' : State w → Prop} {a b c : Rebuild w} {n1 : List (Instr w)}
    (hf : FootStepV V a b n1) (hv : ∀ σ σ', V σ → Exec n1 σ (.fin σ') → V' σ') (hm : ReadsMono b c) :
    ∀ σ, AfterG (MirV V a c) n1 σ → MirV V' b c σ := by
  rintro σ2' ⟨σ2, ⟨σ1, K, h1, h2, h3, h4⟩, hex⟩
  cases hs : c.subShift with
  | false =>
    have hsim := hf (hm.2 hs) K (fun v hk hr => h2 v hk (hm.1 v hr)) σ1 σ2 h1 h4
    obtain ⟨y1, hy1, hag⟩ := hsim.finR σ2' hex
    exact ⟨y1, K, hv σ1 y1 h1 hy1, h2, h3, hag⟩
  | true =>
    have he : StEq σ1 σ2 := h4.stEq_of_empty (fun v hv' => h3 hs v hv'.1)
    obtain ⟨y1, hy1, he'⟩ := exec_ext_fin hex he.symm
    exact ⟨y1, fun _ => False, hv σ1 y1 h1 hy1, fun _ hk => hk.elim, fun _ _ hk => hk,
      AgreeOff.of_stEq he'.symm⟩

/-- **THE COMPOSITION** of two steps. -/
theorem AStep.trans {V V' : State w → Prop} {a b c : Rebuild w} {n1 n2 : List (Instr w)}
    (h1 : AStep V a b n1) (h2 : AStep V' b c n2) (hf : FootStepV V a b n1)
    (hv : ∀ σ σ', V σ → Exec n1 σ (.fin σ') → V' σ') (hm : ReadsMono b c) : AStep V a c (n1 ++ n2) := by
  obtain ⟨A1, e1, s1, l1⟩ := h1.ext
  obtain ⟨A2, e2, s2, l2⟩ := h2.ext
  refine ⟨A1 ++ A2, by rw [e2, e1, List.append_assoc], shapeL_append s1 s2, ?_⟩
  rw [analInL_append s1]
  exact ⟨analInL_mono (MirV.mono_readsMono hm) l1, analInL_mono (afterG_mirV hf hv hm) l2⟩

/-- a block-free suffix (no footprint needed) -/
theorem AStep.append_noBlocks_right {V : State w → Prop} {a b c : Rebuild w} {n1 n2 : List (Instr w)}
    (h1 : AStep V a b n1) (hins : ∀ i ∈ n2, C01Dse.isBlock i = false) (hsa : c.subAnal = b.subAnal)
    (hm : ReadsMono b c) : AStep V a c (n1 ++ n2) := by
  obtain ⟨A1, e1, s1, l1⟩ := h1.ext
  refine ⟨A1 ++ [], by rw [hsa, e1, List.append_nil], shapeL_append s1 (shapeL_nonblocks hins), ?_⟩
  rw [analInL_append s1]
  exact ⟨analInL_mono (MirV.mono_readsMono hm) l1, analInL_noBlocks hins⟩

/-- a block-free prefix (e.g. emitted `calc` groups) -/
theorem AStep.append_noBlocks_left {V V' : State w → Prop} {a b c : Rebuild w} {n1 n2 : List (Instr w)}
    (hins : ∀ i ∈ n1, C01Dse.isBlock i = false) (hsa : b.subAnal = a.subAnal) (h2 : AStep V' b c n2)
    (hf : FootStepV V a b n1) (hv : ∀ σ σ', V σ → Exec n1 σ (.fin σ') → V' σ') (hm : ReadsMono b c) :
    AStep V a c (n1 ++ n2) :=
  AStep.trans (AStep.of_noBlocks hins hsa) h2 hf hv hm

theorem isBlock_calcs (comps : List (List (Int × Expr w))) :
    ∀ i ∈ comps.map Instr.calc, C01Dse.isBlock i = false := by
  intro i hi
  obtain ⟨g, _, rfl⟩ := List.mem_map.1 hi
  rfl

/-! ### axioms -/

#print axioms analInL_append
#print axioms MirV.of_agree
#print axioms afterG_mirV
#print axioms AStep.trans

end OptProof
end Hpbf
