/-
C02 (`allocate_temps`), part 3: the precondition `AllocPre` on the input of the pass, and the invariant
`PassInv` of the allocation loop (state before step `k`, relative to the input state `s`).
-/
import Hpbf.Proofs.C02Passes
import Hpbf.Proofs.C02AllocSpec
set_option linter.unusedSimpArgs false

namespace Hpbf
namespace C02

open Bc BcWf BcGen C11

variable {w : Nat}

/-! ### vocabulary -/

/-- Instructions that neither branch, nor move the pointer, nor perform I/O. -/
def plain : Instr w → Bool
  | .noop => true
  | .add _ _ _ => true
  | .sub _ _ _ => true
  | .mul _ _ _ => true
  | .copy _ _ => true
  | _ => false

/-- Instructions that leave the pointer where it is. -/
def ptrStable : Instr w → Bool
  | .mov _ => false
  | .scan _ sh => sh == 0
  | _ => true

/-- Tape offsets an instruction writes. -/
def memDefs : Instr w → List Int
  | .inp d => [d]
  | .add d _ _ => locMem d
  | .sub d _ _ => locMem d
  | .mul d _ _ => locMem d
  | .copy d _ => locMem d
  | _ => []

/-- The operation computed by `mkArith op`. -/
def opFun : BcGen.Op → BitVec w → BitVec w → BitVec w
  | .add => (· + ·)
  | .sub => fun x y => x + (-y)
  | .mul => (· * ·)

/-- `t` is in its recorded range on entry to instruction `k`. -/
def InRange (s : St w) (t k : Nat) : Prop :=
  ∃ (r : RangeInfo) (L : Nat), s.ranges[t]? = some r ∧ r.lastUse = some L ∧ r.created < k ∧ k ≤ L

/-- Candidate for step 3 of the pass: `insts[i] = op (tmp t) s0 s1` and the recorded first use of `t` is the
store `insts[f] = copy (mem m) src`. -/
structure Cand (s : St w) (i : Nat) (op : BcGen.Op) (t : Nat) (s0 s1 : Loc w) (f : Nat) (m : Int)
    (src : Loc w) : Prop where
  inst : s.insts[i]? = some (mkArith op (.tmp t) s0 s1)
  first : ∃ (r : RangeInfo) (L : Nat), s.ranges[t]? = some r ∧ r.firstUse = some f ∧ r.lastUse = some L
  store : s.insts[f]? = some (.copy (.mem m) src)

/-- The precondition of `allocateTemps`. -/
structure AllocPre (s : St w) : Prop where
  /-- no bitmap has been recorded yet -/
  live0 : s.live.size = 0
  noZero : ∀ (j : Nat) (ins : Instr w), s.insts[j]? = some ins → NoMemZero ins
  /-- a temporary is written only by the instruction at its `created` position -/
  defs : ∀ (j : Nat) (ins : Instr w) (t : Nat), s.insts[j]? = some ins → t ∈ BcWf.defs ins → ∃ r : RangeInfo, s.ranges[t]? = some r ∧ r.created = j
  /-- a temporary is read only inside its recorded range -/
  uses : ∀ (j : Nat) (ins : Instr w) (t : Nat), s.insts[j]? = some ins → t ∈ BcWf.uses ins → InRange s t j
  /-- the ranges are closed under control flow: a temporary in range at the target of a branch is in range at
  the branch (loop back edges: the range reaches the end of the loop; forward edges: a value created in the
  skipped region is not used after it) -/
  flow : ∀ (j : Nat) (ins : Instr w) (off : Int) (k' : Nat), s.insts[j]? = some ins → branchOff? ins = some off → (j : Int) + off = (k' : Int) →
    ∀ t, InRange s t k' → InRange s t j
  /-- no pointer movement inside a range -/
  ptr : ∀ (t j : Nat) (ins : Instr w), InRange s t j → s.insts[j]? = some ins → ptrStable ins = true
  /-- the table of write positions is complete -/
  writes : ∀ (j : Nat) (ins : Instr w) (m : Int), s.insts[j]? = some ins → m ∈ memDefs ins →
    ∃ ws, alGet s.writes m = some ws ∧ j ∈ ws
  /-- the recorded first use of a computed value lies after the computation (the pass inspects and overwrites
  `insts[first_use]`) -/
  firstLt : ∀ (i : Nat) (op : BcGen.Op) (t : Nat) (s0 s1 : Loc w) (r : RangeInfo) (f : Nat),
    s.insts[i]? = some (mkArith op (.tmp t) s0 s1) → s.ranges[t]? = some r → r.firstUse = some f → i < f
  /-- a fusion candidate: the store reads `t`, the code in between is straight-line and does not read `t`, and
  no branch lands in `(i, f]` -/
  fuse : ∀ (i : Nat) (op : BcGen.Op) (t : Nat) (s0 s1 : Loc w) (f : Nat) (m : Int) (src : Loc w), Cand s i op t s0 s1 f m src →
    src = .tmp t ∧
    (∀ (j : Nat) (x : Instr w), i < j → j < f → s.insts[j]? = some x → plain x = true ∧ t ∉ BcWf.uses x) ∧
    (∀ (j : Nat) (x : Instr w) (off : Int), s.insts[j]? = some x → branchOff? x = some off →
      ¬ ((i : Int) < (j : Int) + off ∧ (j : Int) + off ≤ (f : Int)))

/-! ### the loop invariant -/

/-- A moved computation waiting at `f ≥ k`: the input has the store `mem[m] = tmp t` there, the current code
the computation `mem[m] = op s0 s1`. -/
def Fused (s : St w) (k : Nat) (a : ASt w) (f : Nat) (op : BcGen.Op) (m : Int) (t : Nat) (s0 s1 : Loc w) : Prop :=
  k ≤ f ∧ s.insts[f]? = some (.copy (.mem m) (.tmp t)) ∧ a.st.insts[f]? = some (mkArith op (.mem m) s0 s1)

/-- What the pass checked about an operand of a moved computation. -/
def SrcFacts (s : St w) (a : ASt w) (i f : Nat) : Loc w → Prop
  | .mem m' => hasWriteInRange s m' i f = false
  | .tmp u => ∀ m', alGet a.repl u = some (.mem m') → hasWriteInRange s m' i f = false
  | _ => True

/-- The register part of the invariant: the physical temporaries in use are pairwise different, different from
the free ones, and everything handed out so far is below `nextFresh`. -/
structure RegsInv (a : ASt w) : Prop where
  replKeys : (a.repl.map (·.1)).Nodup
  inj : ∀ (t t' r : Nat), alGet a.repl t = some (.tmp r) → alGet a.repl t' = some (.tmp r) → t = t'
  notFree : ∀ (t r : Nat), alGet a.repl t = some (.tmp r) → r ∉ a.freeRegs ∧ r ∉ a.freeTemps ∧ r < a.nextFresh
  freeRegsNodup : a.freeRegs.Nodup
  freeTempsNodup : a.freeTemps.Nodup
  freeDisj : ∀ r ∈ a.freeRegs, r ∉ a.freeTemps
  freeLt : ∀ r, r ∈ a.freeRegs ∨ r ∈ a.freeTemps → r < a.nextFresh

structure PassInv (s : St w) (k : Nat) (a : ASt w) : Prop where
  writes : a.st.writes = s.writes
  isize : a.st.insts.size = s.insts.size
  rkeep : ∀ (t : Nat) (r : RangeInfo), s.ranges[t]? = some r → ∃ r' : RangeInfo, a.st.ranges[t]? = some r' ∧ r'.created = r.created ∧
    r'.numUses = r.numUses ∧ (k ≤ r.created → r' = r)
  /-- instructions still to be processed: the input, or a moved computation -/
  fut : ∀ (j : Nat), k ≤ j → a.st.insts[j]? = s.insts[j]? ∨ ∃ op m t s0 s1, Fused s k a j op m t s0 s1
  /-- all instructions: same branches as the input, no read-and-clear operand -/
  skel : ∀ (j : Nat) (x : Instr w), a.st.insts[j]? = some x → NoMemZero x ∧ ∃ y, s.insts[j]? = some y ∧ branchOff? x = branchOff? y
  regs : RegsInv a
  replDom : ∀ (t : Nat) (l : Loc w), alGet a.repl t = some l → locNoZero l = true ∧ ∃ r : RangeInfo, s.ranges[t]? = some r ∧ r.created < k
  /-- a value forwarded to a memory cell: the cell is not written while the value is needed -/
  fwdMem : ∀ (t : Nat) (m : Int), alGet a.repl t = some (.mem m) → (∃ f op s0 s1, Fused s k a f op m t s0 s1) ∨
    ∃ (r : RangeInfo) (L lo : Nat), s.ranges[t]? = some r ∧ r.lastUse = some L ∧ lo ≤ k ∧ hasWriteInRange s m lo L = false
  /-- heap entries: created earlier, and the recorded end is not before the original last use -/
  heap : ∀ (e t : Nat), (e, t) ∈ a.nre → ∃ r : RangeInfo, s.ranges[t]? = some r ∧ r.created < k ∧ ∀ L, r.lastUse = some L → L ≤ e
  fused : ∀ (f : Nat) (op : BcGen.Op) (m : Int) (t : Nat) (s0 s1 : Loc w), Fused s k a f op m t s0 s1 →
    ∃ (i : Nat) (r : RangeInfo) (L : Nat), s.insts[i]? = some (mkArith op (.tmp t) s0 s1) ∧ s.ranges[t]? = some r ∧ r.created = i ∧ i < k ∧
      r.firstUse = some f ∧ r.lastUse = some L ∧ (∀ v, alGet a.repl t = some v → v = .mem m) ∧
      hasWriteInRange s m (f + 1) L = false ∧ SrcFacts s a i f s0 ∧ SrcFacts s a i f s1

end C02
end Hpbf
