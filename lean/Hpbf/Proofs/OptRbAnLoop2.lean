/-
Rebuild-round proofs, stage 5 (the recorded analysis is sound for the emitted code): `loopOrIf` with a non-moving
child, part 2: the agreement of two runs after the parent's preparation (including the constant keys, which count
as read by the block), and `loopOrIf_stay_an`.
-/
import Hpbf.Proofs.OptRbAnLoop1

namespace Hpbf
namespace OptProof
open Opt OptSem Ir

variable {w : Nat}

/-- After the parent's preparation two runs agree on the constant keys of the child (they are emitted and read by
`emitReadAll`, and not written by the clobber groups). -/
theorem loopPrep_stay_constAgree {s : Rebuild w} {ps : List (Rebuild w)} {sub1 : Rebuild w} {cond : Int}
    {L : OptLoop w} {C : List Int} (hwf : Wf s) (hwf1 : Wf sub1)
    (hns : (sub1.subShift || sub1.shift != s.shift) = false)
    {os os' : Orders} {r : Rebuild w × Rebuild w × List Int}
    (hr : (loopPrep s ps sub1 cond L C).run os = .ok (r, os')) :
    ∃ comps : List (List (Int × Expr w)), r.1.insts = s.insts ++ comps.map Instr.calc ∧
      r.2.2 = (mKeys sub1.written).filter (fun var => !C.contains var) ∧
      (r.1.subShift = false → ∀ (K : Int → Prop), (∀ v, K v → v ∉ r.1.reads) → ∀ σ1 σ2 : State w,
        AgreeOff (Rest K s) σ1 σ2 → ∀ v, v ∈ mKeys sub1.written → C.contains v = true →
          memE (comps.foldl doCalc σ1) v = memE (comps.foldl doCalc σ2) v) := by
  obtain ⟨s1, s2, s3, os1, os2, e1, e2, e3, rfl⟩ := loopPrep_stay_cut hns hr
  obtain ⟨c1, r1, f1⟩ := emitReadAll_foot ps _ hwf e1
  obtain ⟨c2, r2, f2⟩ := emitReadAll_foot ps _ r1.wf e2
  obtain ⟨_, _, n2⟩ := emitReadAll_pending_none ps _ r1.wf e2
  obtain ⟨_, _, k2⟩ := emitReadAll_reads ps _ r1.wf e2
  obtain ⟨c3, q1, q2, _, q4, q5, _, _, _⟩ :=
    clobberPhase_foot ps { sub1 with reads := sIns sub1.reads cond } L C r2.wf hwf1.writ e3
  have hcz := condZero_same s3 { sub1 with reads := sIns sub1.reads cond } cond
  have hczr : (condZero s3 { sub1 with reads := sIns sub1.reads cond } cond).reads = s3.reads :=
    hcz.2.2.2.2.2.2.1
  have hczs : (condZero s3 { sub1 with reads := sIns sub1.reads cond } cond).subShift = s3.subShift :=
    hcz.2.2.2.2.1
  refine ⟨c1 ++ c2 ++ c3, ?_, rfl, ?_⟩
  · show (condZero s3 _ cond).insts = _
    rw [hcz.2.2.2.2.2.2.2.2.2.1, q1, r2.insts, r1.insts]
    simp
  · intro hss K hK σ1 σ2 hag v hkey hC
    have hs3 : s3.subShift = false := by rw [← hczs]; exact hss
    have hs2 : s2.subShift = false := q4.2 hs3
    have hs1 : s1.subShift = false := f2.mono.2 hs2
    have hK3 : ∀ v, K v → v ∉ s3.reads := fun v hv hr' => hK v hv (by
      show v ∈ (condZero s3 _ cond).reads
      rw [hczr]; exact hr')
    have hK2 : ∀ v, K v → v ∉ s2.reads := fun v hv hr' => hK3 v hv (q4.1 v hr')
    have hK1 : ∀ v, K v → v ∉ s1.reads := fun v hv hr' => hK2 v hv (f2.mono.1 v hr')
    have a1 := f1.foot hs1 K hK1 σ1 σ2 hag
    have a2 := f2.foot hs2 K hK2 _ _ a1
    have hv2 : v ∈ (mKeys sub1.written).filter (fun var => C.contains var) :=
      List.mem_filter.2 ⟨hkey, hC⟩
    have e : memE (c2.foldl doCalc (c1.foldl doCalc σ1)) v = memE (c2.foldl doCalc (c1.foldl doCalc σ2)) v := by
      apply a2.2.2.2 v
      rintro ⟨hkv, hnd⟩
      rcases k2 v hv2 with h | h
      · exact hK2 v hkv h
      · exact hnd h
    have hnot3 : ∀ g ∈ c3, v ∉ g.map (·.1) := by
      intro g hg hvg
      obtain ⟨ve, hve, e'⟩ := List.mem_map.1 hvg
      have := q5 g hg ve hve
      rw [e', n2 v hv2] at this
      cases this
    rw [List.foldl_append, List.foldl_append, List.foldl_append, List.foldl_append,
      memE_foldl_doCalc _ c3 q2, memE_foldl_doCalc _ c3 q2, seq_of_notin c3 _ v hnot3,
      seq_of_notin c3 _ v hnot3]
    exact e

/-- After the parent's preparation a mirror run agrees with the valid run off a set that avoids the child's reads
and the protected cells. -/
theorem loopPrep_stay_agreeW {s : Rebuild w} {ps : List (Rebuild w)} {sub1 : Rebuild w} {cond : Int}
    {L : OptLoop w} {C : List Int} (hwf : Wf s) (hwf1 : Wf sub1)
    (hns : (sub1.subShift || sub1.shift != s.shift) = false)
    {os os' : Orders} {r : Rebuild w × Rebuild w × List Int}
    (hr : (loopPrep s ps sub1 cond L C).run os = .ok (r, os')) :
    ∃ comps : List (List (Int × Expr w)), r.1.insts = s.insts ++ comps.map Instr.calc ∧
      r.2.2 = (mKeys sub1.written).filter (fun var => !C.contains var) ∧
      ∀ (K : Int → Prop), (r.1.subShift = true → ∀ v, ¬ K v) → (∀ v, K v → v ∉ r.1.reads) →
        ∀ σ1 σ2 : State w, AgreeOff (Rest K s) σ1 σ2 →
        ∃ H : Int → Prop, AgreeOff H (comps.foldl doCalc σ1) (comps.foldl doCalc σ2) ∧
          (∀ v, H v → v ∉ sub1.reads) ∧ (∀ v, ProtP sub1 C cond v → ¬ H v) := by
  obtain ⟨compsC, eC, hr22, hconstA⟩ := loopPrep_stay_constAgree hwf hwf1 hns hr
  obtain ⟨comps, _, p1, _, _, _, p5, _, _⟩ := loopPrep_stay_foot hwf hwf1 hns hr
  have hcc : compsC = comps := calc_map_inj (List.append_cancel_left (eC.symm.trans p1))
  subst hcc
  refine ⟨compsC, eC, hr22, ?_⟩
  intro K hKs hK σ1 σ2 hag
  cases hss : r.1.subShift with
  | true =>
    have hst : StEq σ1 σ2 := hag.stEq_of_empty (fun v hv => hKs hss v hv.1)
    exact ⟨fun _ => False, AgreeOff.of_stEq (hst.foldl_doCalc compsC), fun _ h => h.elim, fun _ _ h => h⟩
  | false =>
    have hA := p5 hss K hK σ1 σ2 hag
    refine ⟨fun v => HeadSet K r.1 sub1 cond L C v ∧ ¬ ProtP sub1 C cond v,
      ⟨hA.1, hA.2.1, hA.2.2.1, ?_⟩, fun v h => h.1.1.1, fun v hp h => h.2 hp⟩
    intro v hv
    by_cases hH : HeadSet K r.1 sub1 cond L C v
    · have hp : ProtP sub1 C cond v := Classical.not_not.1 (fun h => hv ⟨hH, h⟩)
      rcases hp with hp | ⟨hkey, hC⟩
      · exact absurd hp hH.1.2
      · exact hconstA hss K hK σ1 σ2 hag v hkey hC
    · exact hA.2.2.2 v hH

theorem analInL_ext_calcs {Gh : State w → Prop} {l : List (Instr w)} {cc : List (List (Int × Expr w))}
    {A : List (OptAnalysis w)} (hs : ShapeL l A) (h : AnalInL Gh l A) :
    AnalInL Gh (l ++ cc.map Instr.calc) A := by
  have := (analInL_append (G := Gh) (l2 := cc.map Instr.calc) (a2 := []) hs).2
    ⟨h, analInL_noBlocks (isBlock_calcs cc)⟩
  rw [List.append_nil] at this
  exact this

/-- **`loopOrIf`, non-moving child**: the recorded node is sound for the emitted block (from every mirror of a valid
state), and so are the child's nodes for the body. -/
theorem loopOrIf_stay_an {shP shC shS cS : Int} {bodyS : List (Instr w)}
    {s : Rebuild w} {ps : List (Rebuild w)} {sub : Rebuild w} {cond : Int} {isLoop : Bool} {L : OptLoop w}
    {C : List Int} {pc : List (Rebuild w)} {sub0 : Rebuild w} {os os' : Orders} {s' : Rebuild w}
    {G Gc : State w → Prop}
    (hr : (loopOrIf s ps sub cond isLoop L C).run os = .ok (s', os'))
    (hwf : Wf s) (hpre : ChildPre Gc shP shC pc sub0 sub cS bodyS)
    (hns : (sub.subShift || sub.shift != s.shift) = false)
    (hcond : cond = cS + shP) (hsh : shC + shS = shP)
    (hGc : ∀ M0 σE σS, RelAt shP s ps M0 σE σS → G σS → ∀ k σk, Head cS shS bodyS σS k σk →
      (isLoop = false → k = 0) → σk.rd cS ≠ 0#w → Gc σk)
    (hconst : ∀ M0 σE σS, RelAt shP s ps M0 σE σS → G σS → ∀ k σk, Head cS shS bodyS σS k σk →
      (isLoop = false → k ≤ 1) → ∀ x, C.contains x = true → memS σE σk x = memS σE σS x)
    (hcA : AStep (ValidG Gc shP sub0 pc) sub0 sub sub.insts) (hsa0 : sub0.subAnal = [])
    (hshs : ShapeSt sub) (hflag : if isLoop then L.atMostOnce = false else L.atLeastOnce = false) :
    ∃ new, s'.insts = s.insts ++ new ∧ AStep (ValidG G shP s ps) s s' new := by
  subst hcond
  obtain ⟨sub1, os1, r, h1, h2, rfl⟩ := loopOrIf_run hr
  obtain ⟨hc, hwf1, hshift1⟩ := hpre.emit h1
  have hshEq : sub.shift = s.shift := by
    have := hns
    simp only [Bool.or_eq_false_iff, bne_eq_false_iff_eq] at this
    exact this.2
  have hns1 : (sub1.subShift || sub1.shift != s.shift) = false := by
    rw [hc.noShift, hshift1, hshEq]; simp
  -- the child after its own `emitAll`: a block-free extension
  have hsub1 : ∃ cc : List (List (Int × Expr w)), sub1.insts = sub.insts ++ cc.map Instr.calc ∧
      sub1.subAnal = sub.subAnal ∧ (∀ v, v ∈ sub.reads → v ∈ sub1.reads) ∧ ShapeSt sub1 := by
    split at h1
    · obtain ⟨c, res, ef⟩ := emitAll_foot [] (pendingSorted sub sub) hpre.wf h1
      exact ⟨c, res.insts, res.subAnal, ef.mono.1, (emitAll_nstep [] _ h1 hpre.wf).shapeSt hshs⟩
    · rw [run_pure] at h1
      cases h1
      exact ⟨[], by simp, rfl, fun _ h => h, hshs⟩
  obtain ⟨cc, hi1, ha1, hr1, hsh1⟩ := hsub1
  obtain ⟨newAc, hAc1, hAc2, hAc3⟩ := hcA.ext
  rw [hsa0, List.nil_append] at hAc1
  -- the parent's preparation
  obtain ⟨comps, eH, hWall⟩ :=
    loopPrep_stay_headsW (isLoop := isLoop) (G := G) hc hwf hwf1 hns1 hsh hGc hconst h2
  obtain ⟨compsA, eA, hr22, hagree⟩ := loopPrep_stay_agreeW (L := L) (C := C) hwf hwf1 hns1 h2
  have hcomps : comps = compsA := calc_map_inj (List.append_cancel_left (eH.symm.trans eA))
  subst hcomps
  obtain ⟨n, ei, ea, es, _⟩ := loopPrep_nstep h2 hwf
  obtain ⟨f1, f2, f3⟩ :=
    loopTail_shapeFields r.1 r.2.1 (cS + shP) isLoop L (sub1.subShift || sub1.shift != s.shift) r.2.2
  obtain ⟨_, _, _, t4, _, _, _⟩ := loopTail_fields r.1 r.2.1 (cS + shP) isLoop L
    (sub1.subShift || sub1.shift != s.shift) r.2.2
  have hbs : r.2.1.shift - r.1.shift = 0 := by
    rw [es, n.shift, hshift1, hshEq]; omega
  rw [hbs, ei] at f1
  have f2' : (loopTail r.1 r.2.1 (cS + shP) isLoop L (sub1.subShift || sub1.shift != s.shift) r.2.2).subAnal =
      s.subAnal ++ [OptAnalysis.mk L false r.2.1.reads
        ((mKeys sub1.written).filter (fun var => !C.contains var)) sub1.subAnal] := by
    rw [f2, ea, hns1, hr22, n.subAnal]
  -- the node fits the block
  have hI : ShapeI (if isLoop then Ir.Instr.loop (cS + shP) 0 sub1.insts L.atLeastOnce
      else Ir.Instr.ifnz (cS + shP) 0 sub1.insts)
      (OptAnalysis.mk L false r.2.1.reads ((mKeys sub1.written).filter (fun var => !C.contains var))
        sub1.subAnal) := by
    have hnode : (false : Bool) = false → (0 : Int) = 0 ∧ ∀ a ∈ sub1.subAnal, a.hasShift = false :=
      fun _ => ⟨rfl, hsh1.noShift hc.noShift⟩
    cases isLoop with
    | true =>
      simp only [if_true] at hflag ⊢
      rw [ShapeI]
      exact ⟨rfl, hflag, hnode, hsh1.shape⟩
    | false =>
      simp only [Bool.false_eq_true, if_false] at hflag ⊢
      rw [ShapeI]
      exact ⟨hflag, hnode, hsh1.shape⟩
  have hnb := isBlock_calcs comps
  refine ⟨comps.map Instr.calc ++ [if isLoop then Ir.Instr.loop (cS + shP) 0 sub1.insts L.atLeastOnce
      else Ir.Instr.ifnz (cS + shP) 0 sub1.insts], by rw [f1, eH, List.append_assoc],
    ⟨[] ++ [OptAnalysis.mk L false r.2.1.reads ((mKeys sub1.written).filter (fun var => !C.contains var))
        sub1.subAnal], by rw [f2']; rfl, shapeL_append (shapeL_nonblocks hnb) (shapeL_single hI), ?_⟩⟩
  rw [analInL_append (shapeL_nonblocks hnb)]
  refine ⟨analInL_noBlocks hnb, ?_⟩
  rw [analInL_single (shapeI_isBlock hI)]
  -- every entry state of the block mirrors a valid entry state
  have hentry : ∀ τ2, AfterG (MirV (ValidG G shP s ps) s
        (loopTail r.1 r.2.1 (cS + shP) isLoop L (sub1.subShift || sub1.shift != s.shift) r.2.2))
        (comps.map Instr.calc) τ2 →
      ∃ τ1, HeadsW Gc shP cS pc sub0 sub1 isLoop (ProtP sub1 C (cS + shP)) (KeepQ sub1 C) τ1 ∧
        JW sub1 (cS + shP) (ProtP sub1 C (cS + shP)) τ1 0 τ1 τ2 := by
    rintro τ2 ⟨σ2, ⟨σ1, K, ⟨M0, σS, hrel, hg⟩, hK, hKs, hag⟩, hex⟩
    have hτ2 : τ2 = comps.foldl doCalc σ2 := by
      have := (exec_calcs_iff comps [] σ2 (.fin τ2)).1 (by rw [List.append_nil]; exact hex)
      cases this
      rfl
    subst hτ2
    obtain ⟨H, hagH, hHr, hHP⟩ := hagree K (fun h => hKs (by rw [f3]; exact h))
      (fun v hv => by rw [← t4]; exact hK v hv) σ1 σ2 hag
    exact ⟨comps.foldl doCalc σ1, hWall M0 σ1 σS hrel hg, Head.zero, H, hagH, hHr, hHP⟩
  have hPc : ProtP sub1 C (cS + shP) (cS + shP) := Or.inl rfl
  -- the heads at which the body is entered mirror child-valid states
  have hbody : ∀ b, HeadG (AfterG (MirV (ValidG G shP s ps) s
        (loopTail r.1 r.2.1 (cS + shP) isLoop L (sub1.subShift || sub1.shift != s.shift) r.2.2))
        (comps.map Instr.calc)) isLoop (cS + shP) 0 sub1.insts b →
      MirV (ValidG Gc shP sub0 pc) sub0 sub b := by
    rintro b ⟨hnz, τ2, hG2, hh⟩
    obtain ⟨τ1, hW, hJ0⟩ := hentry τ2 hG2
    refine MirV.mono_reads (s'' := sub1) hr1 (fun _ => hpre.noShift) b ?_
    cases hil : isLoop with
    | true =>
      rw [hil] at hh hW
      simp only [if_true] at hh
      obtain ⟨k, hh⟩ := hh
      obtain ⟨a, hJ, _, _⟩ := heads_mirror hc hW hPc hJ0 hh
      exact jw_mirV hc hW hPc (fun h => Bool.noConfusion h) hJ hnz
    | false =>
      rw [hil] at hh hW
      simp only [Bool.false_eq_true, if_false] at hh
      subst hh
      exact jw_mirV hc hW hPc (fun _ => rfl) hJ0 hnz
  have hnested : AnalInL (HeadG (AfterG (MirV (ValidG G shP s ps) s
        (loopTail r.1 r.2.1 (cS + shP) isLoop L (sub1.subShift || sub1.shift != s.shift) r.2.2))
        (comps.map Instr.calc)) isLoop (cS + shP) 0 sub1.insts) sub1.insts sub1.subAnal := by
    have := analInL_ext_calcs (cc := cc) hAc2 (analInL_mono hbody hAc3)
    rw [← hi1] at this
    rw [ha1, hAc1]
    exact this
  cases isLoop with
  | true =>
    simp only [if_true] at hflag hI hnested ⊢
    refine analInI_loop_of_shape hI ?_ hnested
    intro _ τ2 hG2 k b hh
    obtain ⟨τ1, hW, hJ0⟩ := hentry τ2 hG2
    obtain ⟨hp, hq⟩ := heads_mirror_clob hc hW hPc hJ0
      (fun v hv hkey => by
        rcases hv with h | h
        · exact absurd hkey h
        · exact Or.inr ⟨hkey, h⟩) hh
    refine ⟨hp, fun x hx => hq x ?_⟩
    have hx' : ((mKeys sub1.written).filter (fun var => !C.contains var)).contains x = false := hx
    by_cases hkey : x ∈ mKeys sub1.written
    · right
      cases hC : C.contains x with
      | true => rfl
      | false =>
        have : x ∈ (mKeys sub1.written).filter (fun var => !C.contains var) :=
          List.mem_filter.2 ⟨hkey, by rw [hC]; rfl⟩
        rw [List.contains_eq_mem, decide_eq_false_iff_not] at hx'
        exact absurd this hx'
    · exact Or.inl hkey
  | false =>
    simp only [Bool.false_eq_true, if_false] at hnested ⊢
    exact analInI_ifnz_of hnested

end OptProof
end Hpbf

#print axioms Hpbf.OptProof.loopOrIf_stay_an
