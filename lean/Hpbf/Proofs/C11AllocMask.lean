/-
C11 for the output of `allocate_temps`, part 2: the `live` bitmap pushed in round `k`.

* `liveMask_testBit`: the bitmap has bit `r` set for every register `r < min numRegs 16` that is not free;
* `alloc_step_mask`: one round pushes exactly one bitmap, computed from the free registers of an intermediate
  state `c` (after the ended ranges have been released, before the destination gets its location); every entry
  `t ↦ tmp r` of the replacement table after the round is an entry of `c` or the destination allocated in this
  round.
-/
import Hpbf.Proofs.C02AllocTrace
set_option linter.unusedSimpArgs false

namespace Hpbf
namespace C02
namespace Alloc

open Bc BcWf BcGen C11

variable {w : Nat} {s : St w}

/-! ### bits -/

theorem testBit_sub_two_pow {c v : Nat} (h : c.testBit v = true) (r : Nat) :
    (c - 2 ^ v).testBit r = (c.testBit r && decide (r ≠ v)) := by
  have hm : (c % 2 ^ (v + 1)).testBit v = true := by
    rw [Nat.testBit_mod_two_pow]; simp [h]
  have hge : 2 ^ v ≤ c % 2 ^ (v + 1) := Nat.ge_two_pow_of_testBit hm
  have hlt : c % 2 ^ (v + 1) < 2 ^ (v + 1) := Nat.mod_lt _ (Nat.two_pow_pos _)
  have hdecomp : c = 2 ^ (v + 1) * (c / 2 ^ (v + 1)) + c % 2 ^ (v + 1) := (Nat.div_add_mod c _).symm
  have hpow : 2 ^ (v + 1) = 2 ^ v + 2 ^ v := by rw [Nat.pow_succ]; omega
  have hsub : c - 2 ^ v = 2 ^ (v + 1) * (c / 2 ^ (v + 1)) + (c % 2 ^ (v + 1) - 2 ^ v) := by omega
  have hlo : c % 2 ^ (v + 1) - 2 ^ v < 2 ^ v := by omega
  have hlo' : c % 2 ^ (v + 1) - 2 ^ v < 2 ^ (v + 1) := by omega
  have hc : c.testBit r = if r < v + 1 then (c % 2 ^ (v + 1)).testBit r else (c / 2 ^ (v + 1)).testBit (r - (v + 1)) := by
    conv => lhs; rw [hdecomp]
    exact Nat.testBit_two_pow_mul_add _ hlt r
  rw [hsub, Nat.testBit_two_pow_mul_add _ hlo' r, hc]
  by_cases h1 : r < v + 1
  · simp only [h1, if_true]
    by_cases h2 : r = v
    · subst h2
      simp [Nat.testBit_lt_two_pow hlo]
    · have h3 : r < v := by omega
      have : c % 2 ^ (v + 1) = 2 ^ v + (c % 2 ^ (v + 1) - 2 ^ v) := by omega
      conv => rhs; rw [this]
      rw [Nat.testBit_two_pow_add_gt h3]
      simp [h2]
  · have : r ≠ v := by omega
    simp [h1, this]

/-- The loop of `liveMask`. -/
theorem liveMask_loop : ∀ (F : List Nat) (cur live : Nat) (B : Nat), B ≤ 16 → F.Nodup →
    (∀ r, cur.testBit r = (decide (r < B))) →
    F.foldlM (fun live var =>
      if var < 16 then
        if live < 2 ^ var then (.error "allocate_temps:live-underflow" : Except String Nat) else .ok (live - 2 ^ var)
      else .ok live) cur = .ok live →
    ∀ r, r ∉ F → live.testBit r = decide (r < B) := by
  intro F
  -- generalised: the bits of `cur` are those below `B` that are not in `D`
  suffices H : ∀ (F : List Nat) (D : List Nat) (cur live : Nat) (B : Nat), B ≤ 16 → F.Nodup → (∀ x ∈ F, x ∉ D) →
      (∀ r, cur.testBit r = (decide (r < B) && !D.contains r)) →
      F.foldlM (fun live var =>
        if var < 16 then
          if live < 2 ^ var then (.error "allocate_temps:live-underflow" : Except String Nat) else .ok (live - 2 ^ var)
        else .ok live) cur = .ok live →
      ∀ r, live.testBit r = (decide (r < B) && !D.contains r && !F.contains r) by
    intro cur live B hB hn hc hf r hr
    have := H F [] cur live B hB hn (fun _ _ h => by cases h) (by intro r; rw [hc]; simp) hf r
    rw [this]
    simp [hr]
  intro F
  induction F with
  | nil =>
    intro D cur live B _ _ _ hc hf r
    simp only [List.foldlM, pure, Except.pure, Except.ok.injEq] at hf
    subst hf
    rw [hc]; simp
  | cons var F ih =>
    intro D cur live B hB hn hd hc hf r
    rw [List.foldlM_cons] at hf
    obtain ⟨hvF, hnF⟩ := List.nodup_cons.1 hn
    have hvD : var ∉ D := hd var List.mem_cons_self
    by_cases h16 : var < 16
    · simp only [h16, if_true] at hf
      by_cases hu : cur < 2 ^ var
      · simp only [hu, if_true] at hf
        cases hf
      · simp only [hu, if_false] at hf
        -- the bit is set
        have hbit : cur.testBit var = true := by
          rw [hc]
          have hvB : var < B := by
            apply Classical.byContradiction
            intro hnb
            have : cur < 2 ^ B := by
              apply Nat.lt_pow_two_of_testBit
              intro i hi
              rw [hc]
              have : ¬ i < B := by omega
              simp [this]
            have : 2 ^ B ≤ 2 ^ var := Nat.pow_le_pow_right (by omega) (by omega)
            omega
          simp [hvB, hvD]
        have := ih (var :: D) (cur - 2 ^ var) live B hB hnF (by
          intro x hx hxd
          rcases List.mem_cons.1 hxd with rfl | h
          · exact hvF hx
          · exact hd x (List.mem_cons_of_mem _ hx) h) (by
          intro r
          rw [testBit_sub_two_pow hbit, hc]
          by_cases e : r = var
          · subst e; simp
          · have : ¬ var = r := fun h => e h.symm
            simp [e, this]) hf r
        rw [this]
        by_cases e : r = var
        · subst e; simp
        · have : ¬ var = r := fun h => e h.symm
          simp [e, this]
    · simp only [h16, if_false] at hf
      have := ih (var :: D) cur live B hB hnF (by
        intro x hx hxd
        rcases List.mem_cons.1 hxd with rfl | h
        · exact hvF hx
        · exact hd x (List.mem_cons_of_mem _ hx) h) (by
        intro r
        rw [hc]
        by_cases e : r = var
        · subst e
          have : ¬ r < B := by omega
          simp [this]
        · have : ¬ var = r := fun h => e h.symm
          simp [e, this]) hf r
      rw [this]
      by_cases e : r = var
      · subst e
        have : ¬ r < B := by omega
        simp [this]
      · have : ¬ var = r := fun h => e h.symm
        simp [e, this]

/-- A register that is not free has its bit set. -/
theorem liveMask_testBit {numRegs : Nat} {F : List Nat} {live : Nat} (h : liveMask numRegs F = .ok live)
    (hn : F.Nodup) {r : Nat} (h1 : r < numRegs) (h2 : r < 16) (hr : r ∉ F) : live.testBit r = true := by
  unfold liveMask at h
  by_cases hlt : numRegs < 16
  · simp only [hlt, if_true] at h
    have := liveMask_loop F (2 ^ numRegs - 1) live numRegs (by omega) hn
      (fun r => Nat.testBit_two_pow_sub_one numRegs r) h r hr
    rw [this]; simp [h1]
  · simp only [hlt, if_false] at h
    have e : (65535 : Nat) = 2 ^ 16 - 1 := by decide
    rw [e] at h
    have := liveMask_loop F (2 ^ 16 - 1) live 16 (Nat.le_refl _) hn
      (fun r => Nat.testBit_two_pow_sub_one 16 r) h r hr
    rw [this]; simp [h2]

/-! ### the bitmap of one round -/

theorem alloc_step_mask (hp : AllocPre s) {numRegs k : Nat} {a a' : ASt w} {u : Unit} (hI : PassInv s k a)
    (h : allocStep numRegs k a = .ok (u, a')) :
    ∃ (c : ASt w) (live : Nat), a'.st.live = a.st.live.push live ∧ liveMask numRegs c.freeRegs = .ok live ∧
      RegsInv c ∧
      ∀ t r, alGet a'.repl t = some (.tmp r) → alGet c.repl t = some (.tmp r) ∨
        ∃ new, dstTmp? new = some t ∧ a'.st.insts[k]? = some (setDst new (.tmp r)) := by
  obtain ⟨atf0, b, inst0, can, atf, aF, cur, new, live, hd, hi0, hF, hc, hn, hl, hD⟩ := allocStep_ok h
  replace hD : phDst k can (pushLive (freeList numRegs atf (aF.setI k new)) live) = .ok (u, a') := hD
  replace hl : liveMask numRegs (freeList numRegs atf (aF.setI k new)).freeRegs = .ok live := hl
  obtain ⟨d1, d2, d3⟩ := drainEnds_ok _ hd
  obtain ⟨hb, hdead⟩ := passInv_drain hI d1 d2
    (fun t ht => (d3 t ht).resolve_left (by simp))
  have hbst : b.st = a.st := d1.st
  rcases hF with ⟨rfl, rfl⟩ | ⟨op, t, s0, s1, r, L, f, m, src, atf1, a1, a2, x, e1, e2, e3, e4, e5, e6, e7, e8,
      e9, e10, e11, rfl⟩
  · -- no fusion
    have hcur : cur = inst0 := Option.some.inj (hc.symm.trans hi0)
    subst hcur
    have hc1 := passInv_rewrite hb hi0 hn
    have hkb : k < aF.st.insts.size := lt_of_getElem? hi0
    have hc2 := passInv_free (numRegs := numRegs) (atf := atf) hc1
    have hst3 : (pushLive (freeList numRegs atf (aF.setI k new)) live).st.insts = (aF.setI k new).st.insts := by
      show (freeList numRegs atf (aF.setI k new)).st.insts = _
      rw [freeList_st]
    have hx3 : (pushLive (freeList numRegs atf (aF.setI k new)) live).st.insts[k]? = some new := by
      rw [hst3, getElem?_setI]; simp [hkb]
    obtain ⟨s1, s2, s3⟩ := phDst_sum hD hx3
    refine ⟨freeList numRegs atf (aF.setI k new), live, ?_, hl, hc2.regs, ?_⟩
    · rw [s2]
      show (freeList numRegs atf (aF.setI k new)).st.live.push live = _
      rw [freeList_st, ← hbst]
      rfl
    · intro t r ht
      rcases s3 with ⟨_, _, e⟩ | ⟨t0, ht0, ⟨_, e⟩ | ⟨src, _, hsrc, _, e⟩ | ⟨r0, hq, e⟩⟩
      · rw [e] at ht; exact Or.inl ht
      · rw [e] at ht; exact Or.inl ht
      · rw [e, alGet_alSet] at ht
        split at ht
        · cases ht
          rcases hsrc with ⟨cc, h⟩ | ⟨mm, h⟩ <;> cases h
        · exact Or.inl ht
      · rw [e, alGet_alSet] at ht
        split at ht
        · rename_i e'
          cases ht
          exact Or.inr ⟨new, by rw [ht0, e'], hq⟩
        · exact Or.inl ht
  · -- fusion
    obtain ⟨hcF, hkF, hPk, hkf, hPf, hreplF, hatf, hinsF, hfF, hfr, hft, hnf, hlv, hfb⟩ :=
      passInv_fuse hp hb hdead hi0 e1 e2 e3 e4 e5 e6 e7 e8 e9 e10 e11
    rw [hkF] at hc; cases hc
    have hnew : new = .noop := by
      simp only [rwInst, arith?, Except.ok.injEq] at hn; exact hn.symm
    subst hnew
    have hc1 := passInv_setI_done (fin := .noop) hcF hkF rfl rfl rfl
    rw [setI_self hkF] at hc1 hl hD
    have hc2 := passInv_free (numRegs := numRegs) (atf := atf) hc1
    generalize haFdef : retarget (fuseSt a2 k t L f m inst0) f m x = aF at *
    have hst3 : (pushLive (freeList numRegs atf aF) live).st.insts = aF.st.insts := by
      show (freeList numRegs atf aF).st.insts = _
      rw [freeList_st]
    have hx3 : (pushLive (freeList numRegs atf aF) live).st.insts[k]? = some .noop := by
      rw [hst3]; exact hkF
    have hst' : a' = pushLive (freeList numRegs atf aF) live := by
      obtain ⟨x', hx', h'⟩ := phDst_ok hD
      rw [hx3] at hx'; cases hx'
      rcases h' with ⟨_, e⟩ | ⟨t0, ht0, _⟩
      · exact e
      · cases ht0
    refine ⟨freeList numRegs atf aF, live, ?_, hl, hc2.regs, ?_⟩
    · rw [hst']
      show (freeList numRegs atf aF).st.live.push live = _
      rw [freeList_st, hlv, hbst]
    · intro t' r' ht
      rw [hst'] at ht
      exact Or.inl ht

end Alloc
end C02
end Hpbf
