/-
Rebuild-round proofs, part 3: ADEQUACY of the big-step semantics `Exec` and of `Bad` (`OptRbSem.lean`) with
respect to the continuation machine `Ir.run` in unlimited mode, and `C02Emit.OnceOk ↔ ¬ Bad`.
-/
import Hpbf.Proofs.OptRbAdeq
import Hpbf.Proofs.C01Parse
import Hpbf.Proofs.C02EmitRun

namespace Hpbf
namespace OptProof
open Ir

variable {w : Nat}

/-! ## C. Adequacy: from `Exec` / `Bad` to the machine -/

open C01Dse (cfgAt)

theorem cfgAt_trans {lim : Bool} {n m : Nat} {a b c : Cfg w} (h1 : cfgAt lim n a = some b)
    (h2 : cfgAt lim m b = some c) : cfgAt lim (n + m) a = some c := by
  induction n generalizing a with
  | zero =>
    simp only [cfgAt, Option.some.injEq] at h1
    subst h1; simpa using h2
  | succ n ih =>
    rw [Nat.add_right_comm]
    simp only [cfgAt] at h1 ⊢
    cases hs : step lim a with
    | next a1 => rw [hs] at h1; exact ih h1
    | halt _ => rw [hs] at h1; cases h1
    | stop _ => rw [hs] at h1; cases h1
    | interrupted _ => rw [hs] at h1; cases h1

theorem cfgAt_runCfg {lim : Bool} {n : Nat} {a b : Cfg w} (h : cfgAt lim n a = some b) (f : Nat) :
    runCfg lim (n + f) a = runCfg lim f b := by
  induction n generalizing a with
  | zero =>
    simp only [cfgAt, Option.some.injEq] at h
    subst h; simp
  | succ n ih =>
    rw [Nat.add_right_comm]
    simp only [cfgAt] at h
    simp only [runCfg]
    cases hs : step lim a with
    | next a1 => rw [hs] at h; exact ih h
    | halt _ => rw [hs] at h; cases h
    | stop _ => rw [hs] at h; cases h
    | interrupted _ => rw [hs] at h; cases h

theorem runCfg_outOfFuel_iff {lim : Bool} {f : Nat} {a c : Cfg w} :
    runCfg lim f a = .outOfFuel c ↔ cfgAt lim f a = some c := by
  induction f generalizing a with
  | zero => simp [runCfg, cfgAt]
  | succ f ih =>
    simp only [runCfg, cfgAt]
    cases hs : step lim a with
    | next a1 => exact ih
    | halt _ => simp
    | stop _ => simp
    | interrupted _ => simp

theorem runCfg_done {lim : Bool} {f : Nat} {a c : Cfg w} (h : runCfg lim f a = .done c) :
    ∃ n c1, cfgAt lim n a = some c1 ∧ step lim c1 = .halt c := by
  induction f generalizing a with
  | zero => simp [runCfg] at h
  | succ f ih =>
    simp only [runCfg] at h
    cases hs : step lim a with
    | next a1 =>
      rw [hs] at h
      obtain ⟨n, c1, h1, h2⟩ := ih h
      exact ⟨n + 1, c1, by simp [cfgAt, hs, h1], h2⟩
    | halt c' => rw [hs] at h; cases h; exact ⟨0, a, rfl, hs⟩
    | stop _ => rw [hs] at h; cases h
    | interrupted _ => rw [hs] at h; cases h

theorem runCfg_stopped {lim : Bool} {f : Nat} {a c : Cfg w} (h : runCfg lim f a = .stopped c) :
    ∃ n c1, cfgAt lim n a = some c1 ∧ step lim c1 = .stop c := by
  induction f generalizing a with
  | zero => simp [runCfg] at h
  | succ f ih =>
    simp only [runCfg] at h
    cases hs : step lim a with
    | next a1 =>
      rw [hs] at h
      obtain ⟨n, c1, h1, h2⟩ := ih h
      exact ⟨n + 1, c1, by simp [cfgAt, hs, h1], h2⟩
    | halt c' => rw [hs] at h; cases h
    | stop _ => rw [hs] at h; cases h; exact ⟨0, a, rfl, hs⟩
    | interrupted _ => rw [hs] at h; cases h

/-- Some configuration reachable from `a` by `.next` steps (unlimited mode) satisfies `P`. -/
def Reaches (a : Cfg w) (P : Cfg w → Prop) : Prop := ∃ n c, cfgAt false n a = some c ∧ P c

theorem Reaches.here {a : Cfg w} {P : Cfg w → Prop} (h : P a) : Reaches a P := ⟨0, a, rfl, h⟩

theorem Reaches.cons {a b : Cfg w} {P : Cfg w → Prop} (hs : step false a = .next b) (h : Reaches b P) :
    Reaches a P := by
  obtain ⟨n, c, h1, h2⟩ := h
  exact ⟨n + 1, c, by simp [cfgAt, hs, h1], h2⟩

theorem Reaches.trans {a b : Cfg w} {P : Cfg w → Prop} (h1 : Reaches a (· = b)) (h2 : Reaches b P) :
    Reaches a P := by
  obtain ⟨n, c, h1, rfl⟩ := h1
  obtain ⟨m, c', h2, h3⟩ := h2
  exact ⟨n + m, c', cfgAt_trans h1 h2, h3⟩

theorem Reaches.mono {a : Cfg w} {P P' : Cfg w → Prop} (hP : ∀ c, P c → P' c) (h : Reaches a P) :
    Reaches a P' := by
  obtain ⟨n, c, h1, h2⟩ := h
  exact ⟨n, c, h1, hP c h2⟩

theorem Reaches.transfer {a a' : Cfg w} {P : Cfg w → Prop} (hs : step false a' = step false a)
    (hP : P a → P a') (h : Reaches a P) : Reaches a' P := by
  obtain ⟨n, c, h1, h2⟩ := h
  cases n with
  | zero =>
    simp only [cfgAt, Option.some.injEq] at h1
    subst h1; exact .here (hP h2)
  | succ n => exact ⟨n + 1, c, by simp only [cfgAt, hs] at h1 ⊢; exact h1, h2⟩

/-- the back edge of a loop does what the `.loop` instruction does -/
theorem step_loopEnd (c s : Int) (body R : List (Instr w)) (once : Bool) (ks : List (Cont w)) (bud : Nat)
    (σ : State w) :
    step false ⟨[], .loopEnd c s body R :: ks, bud, σ⟩ =
      step false ⟨.loop c s body once :: R, ks, bud, σ.mov s⟩ := by
  simp [step]

/-- What the machine does for an observation `o` of `is` (started with `is ++ rest`, continuations `ks`). -/
def Goal (rest : List (Instr w)) (ks : List (Cont w)) (bud : Nat) : Out w → Cfg w → Prop
  | .fin σ1, c => c = ⟨rest, ks, bud, σ1⟩
  | .stop σ1, c => ∃ c', step false c = .stop c' ∧ c'.st = σ1
  | .part t, c => c.st.trace = t

theorem goal_nonfin {rest rest' : List (Instr w)} {ks ks' : List (Cont w)} {bud bud' : Nat} {o : Out w}
    (h : o.isFin = false) (c : Cfg w) : Goal rest ks bud o c → Goal rest' ks' bud' o c := by
  cases o with
  | fin _ => cases h
  | stop _ => exact id
  | part _ => exact id

theorem goal_transfer {rest rest' : List (Instr w)} {ks : List (Cont w)} {bud : Nat} {o : Out w}
    {c s : Int} {body : List (Instr w)} {once : Bool} {σ1 : State w} :
    Goal rest ks bud o ⟨.loop c s body once :: (rest' ++ rest), ks, bud, σ1.mov s⟩ →
      Goal rest ks bud o ⟨[], .loopEnd c s body (rest' ++ rest) :: ks, bud, σ1⟩ := by
  cases o with
  | fin σ2 =>
    intro h
    have := congrArg (fun c => c.cur.length) h
    simp at this
    omega
  | stop σ2 =>
    rintro ⟨c', h1, h2⟩
    exact ⟨c', by rw [step_loopEnd _ _ _ _ once]; exact h1, h2⟩
  | part t => exact id

theorem exec_reaches {is : List (Instr w)} {σ : State w} {o : Out w} (h : Exec is σ o) :
    ∀ (rest : List (Instr w)) (ks : List (Cont w)) (bud : Nat),
      Reaches ⟨is ++ rest, ks, bud, σ⟩ (Goal rest ks bud o) := by
  induction h with
  | cut => intro rest ks bud; exact .here rfl
  | nil => intro rest ks bud; exact .here rfl
  | outOk h _ ih =>
    intro rest ks bud
    exact .cons (by simp [step, h]) (ih rest ks bud)
  | @outFail src rest' σ σ1 h =>
    intro rest ks bud
    exact .here ⟨⟨rest' ++ rest, ks, bud, σ1⟩, by simp [step, h], rfl⟩
  | inOk h _ ih =>
    intro rest ks bud
    exact .cons (by simp [step, h]) (ih rest ks bud)
  | @inFail dst rest' σ σ1 h =>
    intro rest ks bud
    exact .here ⟨⟨rest' ++ rest, ks, bud, σ1⟩, by simp [step, h], rfl⟩
  | «calc» _ ih =>
    intro rest ks bud
    exact .cons (by simp [step]) (ih rest ks bud)
  | loopSkip hz _ ih =>
    intro rest ks bud
    exact .cons (by simp [step, hz]) (ih rest ks bud)
  | @loopIter cond shift body once rest' σ σ1 o hnz _ _ ihb ihl =>
    intro rest ks bud
    have hb := ihb [] (.loopEnd cond shift body (rest' ++ rest) :: ks) bud
    rw [List.append_nil] at hb
    refine .cons (b := ⟨body, .loopEnd cond shift body (rest' ++ rest) :: ks, bud, σ⟩) (by simp [step, hnz]) ?_
    refine .trans hb ?_
    exact Reaches.transfer (step_loopEnd _ _ _ _ _ _ _ _) goal_transfer (ihl rest ks bud)
  | @loopIn cond shift body once rest' σ o hnz _ hnf ihb =>
    intro rest ks bud
    have hb := ihb [] (.loopEnd cond shift body (rest' ++ rest) :: ks) bud
    rw [List.append_nil] at hb
    exact .cons (b := ⟨body, .loopEnd cond shift body (rest' ++ rest) :: ks, bud, σ⟩) (by simp [step, hnz])
      (hb.mono (goal_nonfin hnf))
  | ifSkip hz _ ih =>
    intro rest ks bud
    exact .cons (by simp [step, hz]) (ih rest ks bud)
  | @ifIter cond shift body rest' σ σ1 o hnz _ _ ihb ihr =>
    intro rest ks bud
    have hb := ihb [] (.ifEnd shift (rest' ++ rest) :: ks) bud
    rw [List.append_nil] at hb
    refine .cons (b := ⟨body, .ifEnd shift (rest' ++ rest) :: ks, bud, σ⟩) (by simp [step, hnz]) ?_
    refine .trans hb ?_
    exact .cons (by simp [step]) (ihr rest ks bud)
  | @ifIn cond shift body rest' σ o hnz _ hnf ihb =>
    intro rest ks bud
    have hb := ihb [] (.ifEnd shift (rest' ++ rest) :: ks) bud
    rw [List.append_nil] at hb
    exact .cons (b := ⟨body, .ifEnd shift (rest' ++ rest) :: ks, bud, σ⟩) (by simp [step, hnz])
      (hb.mono (goal_nonfin hnf))

/-- The situation excluded by `OnceOk`. -/
def BadCfg (c : Cfg w) : Prop :=
  ∃ cond shift body rest, c.cur = .loop cond shift body true :: rest ∧ c.st.rd cond = 0#w

theorem bad_reaches {is : List (Instr w)} {σ : State w} (h : Bad is σ) :
    ∀ (rest : List (Instr w)) (ks : List (Cont w)) (bud : Nat), Reaches ⟨is ++ rest, ks, bud, σ⟩ BadCfg := by
  induction h with
  | here hz => intro rest ks bud; exact .here ⟨_, _, _, _, rfl, hz⟩
  | outOk h _ ih =>
    intro rest ks bud
    exact .cons (by simp [step, h]) (ih rest ks bud)
  | inOk h _ ih =>
    intro rest ks bud
    exact .cons (by simp [step, h]) (ih rest ks bud)
  | «calc» _ ih =>
    intro rest ks bud
    exact .cons (by simp [step]) (ih rest ks bud)
  | loopSkip hz _ ih =>
    intro rest ks bud
    exact .cons (by simp [step, hz]) (ih rest ks bud)
  | @loopIter cond shift body once rest' σ σ1 hnz hb _ ihl =>
    intro rest ks bud
    have hb := exec_reaches hb [] (.loopEnd cond shift body (rest' ++ rest) :: ks) bud
    rw [List.append_nil] at hb
    refine .cons (b := ⟨body, .loopEnd cond shift body (rest' ++ rest) :: ks, bud, σ⟩) (by simp [step, hnz]) ?_
    refine .trans hb ?_
    refine Reaches.transfer (step_loopEnd _ _ _ _ _ _ _ _) ?_ (ihl rest ks bud)
    rintro ⟨_, _, _, _, e, _⟩
    cases e
  | @loopIn cond shift body once rest' σ hnz _ ihb =>
    intro rest ks bud
    have hb := ihb [] (.loopEnd cond shift body (rest' ++ rest) :: ks) bud
    rw [List.append_nil] at hb
    exact .cons (b := ⟨body, .loopEnd cond shift body (rest' ++ rest) :: ks, bud, σ⟩) (by simp [step, hnz]) hb
  | ifSkip hz _ ih =>
    intro rest ks bud
    exact .cons (by simp [step, hz]) (ih rest ks bud)
  | @ifIter cond shift body rest' σ σ1 hnz hb _ ihr =>
    intro rest ks bud
    have hb := exec_reaches hb [] (.ifEnd shift (rest' ++ rest) :: ks) bud
    rw [List.append_nil] at hb
    refine .cons (b := ⟨body, .ifEnd shift (rest' ++ rest) :: ks, bud, σ⟩) (by simp [step, hnz]) ?_
    refine .trans hb ?_
    exact .cons (by simp [step]) (ihr rest ks bud)
  | @ifIn cond shift body rest' σ hnz _ ihb =>
    intro rest ks bud
    have hb := ihb [] (.ifEnd shift (rest' ++ rest) :: ks) bud
    rw [List.append_nil] at hb
    exact .cons (b := ⟨body, .ifEnd shift (rest' ++ rest) :: ks, bud, σ⟩) (by simp [step, hnz]) hb

/-! ## C. Adequacy: from the machine to `Exec` / `Bad`

Both `Exec · · o` (for a fixed non-`fin` observation `o`) and `Bad` are predicates `X` on (instruction list,
state) that are closed under the "backward" rules below; for such a predicate, `XC X X0 cur ks σ` says that `X`
holds of the configuration `(cur, ks, σ)`: either in `cur`, or `cur` runs to its end and `X` holds of what the
continuation stack does next (`X0`: what is required when the stack is empty). -/

structure Closed (X : List (Instr w) → State w → Prop) : Prop where
  cOut : ∀ {src : Int} {rest : List (Instr w)} {σ σ1 : State w},
    σ.output src = (true, σ1) → X rest σ1 → X (.output src :: rest) σ
  cIn : ∀ {dst : Int} {rest : List (Instr w)} {σ σ1 : State w},
    σ.input dst = (true, σ1) → X rest σ1 → X (.input dst :: rest) σ
  cCalc : ∀ {calcs : List (Int × Expr w)} {rest : List (Instr w)} {σ : State w},
    X rest (doCalc σ calcs) → X (.calc calcs :: rest) σ
  cLoopSkip : ∀ {cond shift : Int} {body : List (Instr w)} {once : Bool} {rest : List (Instr w)} {σ : State w},
    σ.rd cond = 0#w → X rest σ → X (.loop cond shift body once :: rest) σ
  cLoopIter : ∀ {cond shift : Int} {body : List (Instr w)} {once : Bool} {rest : List (Instr w)}
    {σ σ1 : State w}, σ.rd cond ≠ 0#w → Exec body σ (.fin σ1) →
    X (.loop cond shift body false :: rest) (σ1.mov shift) → X (.loop cond shift body once :: rest) σ
  cLoopIn : ∀ {cond shift : Int} {body : List (Instr w)} {once : Bool} {rest : List (Instr w)} {σ : State w},
    σ.rd cond ≠ 0#w → X body σ → X (.loop cond shift body once :: rest) σ
  cIfSkip : ∀ {cond shift : Int} {body : List (Instr w)} {rest : List (Instr w)} {σ : State w},
    σ.rd cond = 0#w → X rest σ → X (.ifnz cond shift body :: rest) σ
  cIfIter : ∀ {cond shift : Int} {body : List (Instr w)} {rest : List (Instr w)} {σ σ1 : State w},
    σ.rd cond ≠ 0#w → Exec body σ (.fin σ1) → X rest (σ1.mov shift) → X (.ifnz cond shift body :: rest) σ
  cIfIn : ∀ {cond shift : Int} {body : List (Instr w)} {rest : List (Instr w)} {σ : State w},
    σ.rd cond ≠ 0#w → X body σ → X (.ifnz cond shift body :: rest) σ

/-- `X` holds of what the continuation stack does from `σ` (the state when the current list is exhausted). -/
def XK (X : List (Instr w) → State w → Prop) (X0 : State w → Prop) : List (Cont w) → State w → Prop
  | [], σ => X0 σ
  | .loopEnd c s body rest :: ks, σ =>
    X (.loop c s body false :: rest) (σ.mov s) ∨
      ∃ σ1, Exec (.loop c s body false :: rest) (σ.mov s) (.fin σ1) ∧ XK X X0 ks σ1
  | .ifEnd s rest :: ks, σ =>
    X rest (σ.mov s) ∨ ∃ σ1, Exec rest (σ.mov s) (.fin σ1) ∧ XK X X0 ks σ1

def XC (X : List (Instr w) → State w → Prop) (X0 : State w → Prop) (cur : List (Instr w))
    (ks : List (Cont w)) (σ : State w) : Prop :=
  X cur σ ∨ ∃ σ1, Exec cur σ (.fin σ1) ∧ XK X X0 ks σ1

theorem XC.map {X : List (Instr w) → State w → Prop} {X0 : State w → Prop} {a1 a2 : List (Instr w)}
    {ks : List (Cont w)} {σ1 σ2 : State w} (g : X a1 σ1 → X a2 σ2)
    (f : ∀ σ', Exec a1 σ1 (.fin σ') → Exec a2 σ2 (.fin σ')) (h : XC X X0 a1 ks σ1) : XC X X0 a2 ks σ2 := by
  rcases h with h | ⟨σ', h1, h2⟩
  · exact Or.inl (g h)
  · exact Or.inr ⟨σ', f _ h1, h2⟩

theorem XC.loop_enter {X : List (Instr w) → State w → Prop} {X0 : State w → Prop} (hX : Closed X)
    {c s : Int} {body rest : List (Instr w)} {once : Bool} {ks : List (Cont w)} {σ : State w}
    (hnz : σ.rd c ≠ 0#w) (h : XC X X0 body (.loopEnd c s body rest :: ks) σ) :
    XC X X0 (.loop c s body once :: rest) ks σ := by
  rcases h with h | ⟨σ1, hb, hk⟩
  · exact Or.inl (hX.cLoopIn hnz h)
  · rcases hk with hk | ⟨σ2, hl, hk⟩
    · exact Or.inl (hX.cLoopIter hnz hb hk)
    · exact Or.inr ⟨σ2, .loopIter hnz hb (exec_once_irrel hl), hk⟩

theorem XC.step {X : List (Instr w) → State w → Prop} {X0 : State w → Prop} (hX : Closed X)
    {c c1 : Cfg w} (hs : Ir.step false c = .next c1) (h : XC X X0 c1.cur c1.conts c1.st) :
    XC X X0 c.cur c.conts c.st := by
  obtain ⟨cur, ks, bud, σ⟩ := c
  cases cur with
  | nil =>
    cases ks with
    | nil => simp [Ir.step] at hs
    | cons k ks =>
      cases k with
      | loopEnd cond shift body rest =>
        by_cases hz : (σ.mov shift).rd cond = 0#w
        · simp [Ir.step, hz] at hs
          subst hs
          exact Or.inr ⟨σ, .nil σ, h.map (hX.cLoopSkip hz) (fun _ hx => .loopSkip hz hx)⟩
        · simp [Ir.step, hz] at hs
          subst hs
          exact Or.inr ⟨σ, .nil σ, XC.loop_enter hX hz h⟩
      | ifEnd shift rest =>
        simp [Ir.step] at hs
        subst hs
        exact Or.inr ⟨σ, .nil σ, h⟩
  | cons i cur =>
    cases i with
    | output src =>
      cases ho : σ.output src with
      | mk ok σ1 =>
        cases ok with
        | false => simp [Ir.step, ho] at hs
        | true =>
          simp [Ir.step, ho] at hs
          subst hs
          exact h.map (hX.cOut ho) (fun _ hx => .outOk ho hx)
    | input dst =>
      cases ho : σ.input dst with
      | mk ok σ1 =>
        cases ok with
        | false => simp [Ir.step, ho] at hs
        | true =>
          simp [Ir.step, ho] at hs
          subst hs
          exact h.map (hX.cIn ho) (fun _ hx => .inOk ho hx)
    | «calc» calcs =>
      simp [Ir.step] at hs
      subst hs
      exact h.map hX.cCalc (fun _ hx => .calc hx)
    | loop cond shift body once =>
      by_cases hz : σ.rd cond = 0#w
      · simp [Ir.step, hz] at hs
        subst hs
        exact h.map (hX.cLoopSkip hz) (fun _ hx => .loopSkip hz hx)
      · simp [Ir.step, hz] at hs
        subst hs
        exact XC.loop_enter hX hz h
    | ifnz cond shift body =>
      by_cases hz : σ.rd cond = 0#w
      · simp [Ir.step, hz] at hs
        subst hs
        exact h.map (hX.cIfSkip hz) (fun _ hx => .ifSkip hz hx)
      · simp [Ir.step, hz] at hs
        subst hs
        rcases h with h | ⟨σ1, hb, hk⟩
        · exact Or.inl (hX.cIfIn hz h)
        · rcases hk with hk | ⟨σ2, hl, hk⟩
          · exact Or.inl (hX.cIfIter hz hb hk)
          · exact Or.inr ⟨σ2, .ifIter hz hb hl, hk⟩

theorem XC.cfgAt {X : List (Instr w) → State w → Prop} {X0 : State w → Prop} (hX : Closed X) :
    ∀ (n : Nat) (c c' : Cfg w), C01Dse.cfgAt false n c = some c' → XC X X0 c'.cur c'.conts c'.st →
      XC X X0 c.cur c.conts c.st := by
  intro n
  induction n with
  | zero =>
    intro c c' h
    simp only [C01Dse.cfgAt, Option.some.injEq] at h
    subst h; exact id
  | succ n ih =>
    intro c c' h hx
    simp only [C01Dse.cfgAt] at h
    cases hs : Ir.step false c with
    | next c1 => rw [hs] at h; exact XC.step hX hs (ih c1 c' h hx)
    | halt _ => rw [hs] at h; cases h
    | stop _ => rw [hs] at h; cases h
    | interrupted _ => rw [hs] at h; cases h

/-- the instance for `Exec · · o` -/
theorem closed_exec (o : Out w) : Closed (fun l σ => o.isFin = false ∧ Exec l σ o) where
  cOut := fun h ⟨hnf, hx⟩ => ⟨hnf, .outOk h hx⟩
  cIn := fun h ⟨hnf, hx⟩ => ⟨hnf, .inOk h hx⟩
  cCalc := fun ⟨hnf, hx⟩ => ⟨hnf, .calc hx⟩
  cLoopSkip := fun hz ⟨hnf, hx⟩ => ⟨hnf, .loopSkip hz hx⟩
  cLoopIter := fun hnz hb ⟨hnf, hx⟩ => ⟨hnf, .loopIter hnz hb (exec_once_irrel hx)⟩
  cLoopIn := fun hnz ⟨hnf, hx⟩ => ⟨hnf, .loopIn hnz hx hnf⟩
  cIfSkip := fun hz ⟨hnf, hx⟩ => ⟨hnf, .ifSkip hz hx⟩
  cIfIter := fun hnz hb ⟨hnf, hx⟩ => ⟨hnf, .ifIter hnz hb hx⟩
  cIfIn := fun hnz ⟨hnf, hx⟩ => ⟨hnf, .ifIn hnz hx hnf⟩

theorem closed_bad : Closed (Bad (w := w)) where
  cOut := .outOk
  cIn := .inOk
  cCalc := .calc
  cLoopSkip := .loopSkip
  cLoopIter := .loopIter
  cLoopIn := .loopIn
  cIfSkip := .ifSkip
  cIfIter := .ifIter
  cIfIn := .ifIn

theorem exec_of_XC {o : Out w} {is : List (Instr w)} {σ : State w}
    (h : XC (fun l σ => o.isFin = false ∧ Exec l σ o) (fun σ => Exec [] σ o) is [] σ) : Exec is σ o := by
  rcases h with ⟨_, h⟩ | ⟨σ1, h1, h2⟩
  · exact h
  · have h2 : Exec [] σ1 o := h2
    cases h2 with
    | cut => exact exec_fin_part h1
    | nil => exact h1

theorem exec_of_cfgAt {o : Out w} {is : List (Instr w)} {σ : State w} {bud n : Nat} {c : Cfg w}
    (h : C01Dse.cfgAt false n ⟨is, [], bud, σ⟩ = some c)
    (hx : XC (fun l σ => o.isFin = false ∧ Exec l σ o) (fun σ => Exec [] σ o) c.cur c.conts c.st) :
    Exec is σ o :=
  exec_of_XC (XC.cfgAt (closed_exec o) n _ c h hx)

theorem step_halt {lim : Bool} {c c' : Cfg w} (h : Ir.step lim c = .halt c') :
    c' = c ∧ c.cur = [] ∧ c.conts = [] := by
  obtain ⟨cur, ks, bud, σ⟩ := c
  cases cur with
  | nil =>
    cases ks with
    | nil => simp [Ir.step] at h; exact ⟨h.symm, rfl, rfl⟩
    | cons k ks =>
      cases k <;> simp only [Ir.step] at h <;> (repeat' split at h) <;> cases h
  | cons i cur =>
    cases i <;> simp only [Ir.step] at h <;> (repeat' split at h) <;> cases h

theorem step_stop {c c' : Cfg w} (h : Ir.step false c = .stop c') : Exec c.cur c.st (.stop c'.st) := by
  obtain ⟨cur, ks, bud, σ⟩ := c
  cases cur with
  | nil =>
    cases ks with
    | nil => simp [Ir.step] at h
    | cons k ks =>
      cases k <;> simp only [Ir.step] at h <;> (repeat' split at h) <;> cases h
  | cons i cur =>
    cases i with
    | output src =>
      cases ho : σ.output src with
      | mk ok σ1 =>
        cases ok with
        | true => simp [Ir.step, ho] at h
        | false =>
          simp [Ir.step, ho] at h
          subst h
          exact .outFail ho
    | input dst =>
      cases ho : σ.input dst with
      | mk ok σ1 =>
        cases ok with
        | true => simp [Ir.step, ho] at h
        | false =>
          simp [Ir.step, ho] at h
          subst h
          exact .inFail ho
    | «calc» calcs => simp [Ir.step] at h
    | loop cond shift body once => simp only [Ir.step] at h; split at h <;> cases h
    | ifnz cond shift body => simp only [Ir.step] at h; split at h <;> cases h

/-! ### whole programs -/

theorem run_done_exec {b : Block w} {env : Env} {f : Nat} {c : Cfg w} (h : Ir.run b false 0 f env = .done c) :
    Exec b.insts (State.init env) (.fin c.st) := by
  obtain ⟨n, c1, h1, h2⟩ := runCfg_done h
  obtain ⟨rfl, hc, hk⟩ := step_halt h2
  refine exec_of_cfgAt h1 ?_
  rw [hc, hk]
  exact Or.inr ⟨_, .nil _, .nil _⟩

theorem run_stopped_exec {b : Block w} {env : Env} {f : Nat} {c : Cfg w}
    (h : Ir.run b false 0 f env = .stopped c) : Exec b.insts (State.init env) (.stop c.st) := by
  obtain ⟨n, c1, h1, h2⟩ := runCfg_stopped h
  exact exec_of_cfgAt h1 (Or.inl ⟨rfl, step_stop h2⟩)

theorem exec_fin_run {b : Block w} {env : Env} {σ : State w} (h : Exec b.insts (State.init env) (.fin σ)) :
    ∃ f c, Ir.run b false 0 f env = .done c ∧ c.st = σ := by
  obtain ⟨n, c, h1, h2⟩ := exec_reaches h [] [] 0
  rw [List.append_nil] at h1
  have h2 : c = ⟨[], [], 0, σ⟩ := h2
  subst h2
  refine ⟨n + 1, ⟨[], [], 0, σ⟩, ?_, rfl⟩
  unfold Ir.run
  rw [cfgAt_runCfg h1]
  simp [runCfg, Ir.step]

theorem exec_stop_run {b : Block w} {env : Env} {σ : State w} (h : Exec b.insts (State.init env) (.stop σ)) :
    ∃ f c, Ir.run b false 0 f env = .stopped c ∧ c.st = σ := by
  obtain ⟨n, c, h1, h2⟩ := exec_reaches h [] [] 0
  rw [List.append_nil] at h1
  obtain ⟨c', h2, h3⟩ : ∃ c', Ir.step false c = .stop c' ∧ c'.st = σ := h2
  refine ⟨n + 1, c', ?_, h3⟩
  unfold Ir.run
  rw [cfgAt_runCfg h1]
  simp [runCfg, h2]

theorem run_trace_exec (b : Block w) (env : Env) (f : Nat) :
    ∃ o, Exec b.insts (State.init env) o ∧ o.trace = C01.traceOf (Ir.run b false 0 f env) := by
  cases h : Ir.run b false 0 f env with
  | done c => exact ⟨_, run_done_exec h, rfl⟩
  | stopped c => exact ⟨_, run_stopped_exec h, rfl⟩
  | interrupted c => exact absurd h (C01.runCfg_not_interrupted _ _ _)
  | outOfFuel c =>
    refine ⟨.part c.st.trace, ?_, rfl⟩
    exact exec_of_cfgAt (runCfg_outOfFuel_iff.1 h) (Or.inl ⟨rfl, .cut _ _⟩)

theorem exec_trace_run {b : Block w} {env : Env} {o : Out w} (h : Exec b.insts (State.init env) o) :
    ∃ f, C01.traceOf (Ir.run b false 0 f env) = o.trace := by
  cases o with
  | fin σ =>
    obtain ⟨f, c, h1, h2⟩ := exec_fin_run h
    exact ⟨f, by rw [h1, ← h2]; rfl⟩
  | stop σ =>
    obtain ⟨f, c, h1, h2⟩ := exec_stop_run h
    exact ⟨f, by rw [h1, ← h2]; rfl⟩
  | part t =>
    obtain ⟨n, c, h1, h2⟩ := exec_reaches h [] [] 0
    rw [List.append_nil] at h1
    have h2 : c.st.trace = t := h2
    refine ⟨n, ?_⟩
    unfold Ir.run
    rw [runCfg_outOfFuel_iff.2 h1, ← h2]
    rfl

theorem onceOk_iff_not_bad (b : Block w) (env : Env) : C02Emit.OnceOk b env ↔ ¬ Bad b.insts (State.init env) := by
  constructor
  · intro ho hbad
    obtain ⟨n, c, h1, cond, shift, body, rest, e, hz⟩ := bad_reaches hbad [] [] 0
    rw [List.append_nil] at h1
    exact ho n c (runCfg_outOfFuel_iff.2 h1) cond shift body rest e hz
  · intro hnb f c hr cond shift body rest e hz
    apply hnb
    have hx : XC Bad (fun _ => False) c.cur c.conts c.st := Or.inl (e ▸ Bad.here hz)
    rcases XC.cfgAt closed_bad f _ c (runCfg_outOfFuel_iff.1 hr) hx with h | ⟨_, _, h⟩
    · exact h
    · exact h.elim

/-! ### axioms -/

#print axioms run_done_exec
#print axioms run_stopped_exec
#print axioms exec_fin_run
#print axioms exec_stop_run
#print axioms run_trace_exec
#print axioms exec_trace_run
#print axioms onceOk_iff_not_bad

end OptProof
end Hpbf
