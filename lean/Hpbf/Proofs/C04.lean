/-
C04: the in-place interpreter (`Inplace`) simulates and is simulated by canonical Brainfuck (`Bf`).

* fuel facts for `Bf.runCfg` and `Inplace.runCfg` (monotonicity, determinism);
* `Rel`: the invariant relating an in-place configuration to a canonical one (equal states);
* `step_sim`: one in-place step corresponds to 0, 1 or 2 canonical steps;
* `back_sim`: in-place runs are canonical runs (termination reflection, prefix, limited mode);
* `fwd_sim`: canonical runs are in-place runs (given enough budget in limited mode);
* `limited_fuel`: in limited mode the run returns within `(budget+1) * (length+2)` steps.

Throughout, the program text is a `List Kind` and the in-place interpreter runs `code.toArray`.
-/
import Hpbf.Proofs.Tree

namespace Hpbf

variable {w : Nat}

/-! ### Fuel facts for the canonical machine -/

namespace Bf

/-- The outcome is a proper result (not `outOfFuel`). -/
def Outcome.Halted : Outcome w → Prop
  | .outOfFuel _ => False
  | _ => True

theorem runCfg_succ_next {c c' : Config w} (h : step c = .next c') (f : Nat) :
    runCfg (f + 1) c = runCfg f c' := by
  simp [runCfg, h]

theorem runCfg_succ_halt {c : Config w} {s : State w} (h : step c = .halt s) (f : Nat) :
    runCfg (f + 1) c = .done s := by
  simp [runCfg, h]

theorem runCfg_succ_stop {c : Config w} {s : State w} (h : step c = .stop s) (f : Nat) :
    runCfg (f + 1) c = .stopped s := by
  simp [runCfg, h]

/-- More fuel does not change a proper result. -/
theorem runCfg_add {f : Nat} {c : Config w} (h : (runCfg f c).Halted) (g : Nat) :
    runCfg (f + g) c = runCfg f c := by
  induction f generalizing c with
  | zero => simp [runCfg, Outcome.Halted] at h
  | succ f ih =>
    have e : f + 1 + g = (f + g) + 1 := by omega
    rw [e]
    cases hs : step c with
    | next c' =>
      rw [runCfg_succ_next hs] at h
      rw [runCfg_succ_next hs, runCfg_succ_next hs]
      exact ih h
    | halt s => rw [runCfg_succ_halt hs, runCfg_succ_halt hs]
    | stop s => rw [runCfg_succ_stop hs, runCfg_succ_stop hs]

/-- Fuel monotonicity: a proper result is stable under more fuel. -/
theorem runCfg_mono {f f' : Nat} {c : Config w} (h : (runCfg f c).Halted) (hf : f ≤ f') :
    runCfg f' c = runCfg f c := by
  obtain ⟨g, rfl⟩ : ∃ g, f' = f + g := ⟨f' - f, by omega⟩
  exact runCfg_add h g

/-- Determinism: two proper results of the same configuration coincide. -/
theorem runCfg_det {f f' : Nat} {c : Config w} (h : (runCfg f c).Halted)
    (h' : (runCfg f' c).Halted) : runCfg f c = runCfg f' c := by
  rcases Nat.le_total f f' with hle | hle
  · exact (runCfg_mono h hle).symm
  · exact runCfg_mono h' hle

/-- Running out of fuel with `f'` steps means running out of fuel with fewer. -/
theorem not_halted_of_le {f f' : Nat} {c : Config w} (h : ¬ (runCfg f' c).Halted) (hf : f ≤ f') :
    ¬ (runCfg f c).Halted := by
  intro hh; rw [runCfg_mono hh hf] at h; exact h hh

end Bf

/-! ### Fuel facts for the in-place machine -/

namespace Inplace

def Outcome.Halted : Outcome w → Prop
  | .outOfFuel _ => False
  | _ => True

variable {arr : Array Kind} {limited : Bool}

theorem runCfg_succ_next {c c' : Cfg w} (h : step arr limited c = .next c') (f : Nat) :
    runCfg arr limited (f + 1) c = runCfg arr limited f c' := by
  simp [runCfg, h]

theorem runCfg_succ_finished {c c' : Cfg w} (h : step arr limited c = .finished c') (f : Nat) :
    runCfg arr limited (f + 1) c = .finished c' := by
  simp [runCfg, h]

theorem runCfg_succ_stopped {c c' : Cfg w} (h : step arr limited c = .stopped c') (f : Nat) :
    runCfg arr limited (f + 1) c = .stopped c' := by
  simp [runCfg, h]

theorem runCfg_succ_interrupted {c c' : Cfg w} (h : step arr limited c = .interrupted c')
    (f : Nat) : runCfg arr limited (f + 1) c = .interrupted c' := by
  simp [runCfg, h]

theorem runCfg_succ_notOpened {c c' : Cfg w} {p : Nat} (h : step arr limited c = .notOpened p c')
    (f : Nat) : runCfg arr limited (f + 1) c = .notOpened p c' := by
  simp [runCfg, h]

theorem runCfg_add {f : Nat} {c : Cfg w} (h : (runCfg arr limited f c).Halted) (g : Nat) :
    runCfg arr limited (f + g) c = runCfg arr limited f c := by
  induction f generalizing c with
  | zero => simp [runCfg, Outcome.Halted] at h
  | succ f ih =>
    have e : f + 1 + g = (f + g) + 1 := by omega
    rw [e]
    cases hs : step arr limited c with
    | next c' =>
      rw [runCfg_succ_next hs] at h
      rw [runCfg_succ_next hs, runCfg_succ_next hs]
      exact ih h
    | finished c' => rw [runCfg_succ_finished hs, runCfg_succ_finished hs]
    | stopped c' => rw [runCfg_succ_stopped hs, runCfg_succ_stopped hs]
    | interrupted c' => rw [runCfg_succ_interrupted hs, runCfg_succ_interrupted hs]
    | notOpened p c' => rw [runCfg_succ_notOpened hs, runCfg_succ_notOpened hs]

theorem runCfg_mono {f f' : Nat} {c : Cfg w} (h : (runCfg arr limited f c).Halted)
    (hf : f ≤ f') : runCfg arr limited f' c = runCfg arr limited f c := by
  obtain ⟨g, rfl⟩ : ∃ g, f' = f + g := ⟨f' - f, by omega⟩
  exact runCfg_add h g

theorem runCfg_det {f f' : Nat} {c : Cfg w} (h : (runCfg arr limited f c).Halted)
    (h' : (runCfg arr limited f' c).Halted) :
    runCfg arr limited f c = runCfg arr limited f' c := by
  rcases Nat.le_total f f' with hle | hle
  · exact (runCfg_mono h hle).symm
  · exact runCfg_mono h' hle

end Inplace

namespace C04

/-! ### Event sequences only grow -/

/-- Events produced so far (most recent first) by an in-place run, whatever its outcome. -/
def traceOf : Inplace.Outcome w → List Ev
  | .finished c => c.st.trace
  | .stopped c => c.st.trace
  | .interrupted c => c.st.trace
  | .notOpened _ c => c.st.trace
  | .outOfFuel c => c.st.trace

/-- Events produced so far (most recent first) by a canonical run, whatever its outcome. -/
def traceOfBf : Bf.Outcome w → List Ev
  | .done s => s.trace
  | .stopped s => s.trace
  | .outOfFuel c => c.st.trace

theorem input_trace (s : State w) (off : Int) : s.trace <:+ (s.input off).2.trace := by
  unfold State.input
  split <;> simp

theorem output_trace (s : State w) (off : Int) : s.trace <:+ (s.output off).2.trace := by
  unfold State.output
  simp only
  split
  · split <;> simp
  · simp

theorem applyOp_trace (op : Op) (s : State w) : s.trace <:+ (Bf.applyOp op s).2.trace := by
  cases op <;> simp [Bf.applyOp, State.wr, State.mov, input_trace, output_trace]

/-- One canonical step only appends events. -/
theorem bf_step_trace (c : Bf.Config w) :
    match Bf.step c with
    | .next c' => c.st.trace <:+ c'.st.trace
    | .halt s => c.st.trace <:+ s.trace
    | .stop s => c.st.trace <:+ s.trace := by
  obtain ⟨cur, conts, st⟩ := c
  cases cur with
  | nil => cases conts <;> simp [Bf.step]
  | cmd op rest =>
    have := applyOp_trace op st
    rcases h : Bf.applyOp op st with ⟨ok, s'⟩
    rw [h] at this
    cases ok <;> simpa [Bf.step, h] using this
  | loop body rest =>
    by_cases hz : st.rd 0 = 0#w <;> simp [Bf.step, hz]

theorem bf_trace_start (f : Nat) (c : Bf.Config w) :
    c.st.trace <:+ traceOfBf (Bf.runCfg f c) := by
  induction f generalizing c with
  | zero => exact List.suffix_refl _
  | succ f ih =>
    have := bf_step_trace c
    cases hs : Bf.step c with
    | next c' =>
      rw [hs] at this; rw [Bf.runCfg_succ_next hs]; exact List.IsSuffix.trans this (ih c')
    | halt s => rw [hs] at this; rw [Bf.runCfg_succ_halt hs]; exact this
    | stop s => rw [hs] at this; rw [Bf.runCfg_succ_stop hs]; exact this

/-- The canonical event sequence after `f` steps is an initial part of the one after `f + g`. -/
theorem bf_trace_add (f g : Nat) (c : Bf.Config w) :
    traceOfBf (Bf.runCfg f c) <:+ traceOfBf (Bf.runCfg (f + g) c) := by
  induction f generalizing c with
  | zero => rw [Nat.zero_add]; exact bf_trace_start g c
  | succ f ih =>
    have e : f + 1 + g = (f + g) + 1 := by omega
    rw [e]
    cases hs : Bf.step c with
    | next c' => rw [Bf.runCfg_succ_next hs, Bf.runCfg_succ_next hs]; exact ih c'
    | halt s => rw [Bf.runCfg_succ_halt hs, Bf.runCfg_succ_halt hs]; exact List.suffix_refl _
    | stop s => rw [Bf.runCfg_succ_stop hs, Bf.runCfg_succ_stop hs]; exact List.suffix_refl _

/-! ### Bounded advance of the canonical machine -/

/-- `Adv cc cc' n`: the canonical machine goes from `cc` to `cc'` in exactly `n ≤ 2` steps, and in
the two-step case the first step leaves the state untouched (it pops a continuation). -/
inductive Adv (cc cc' : Bf.Config w) : Nat → Prop
  | zero : cc' = cc → Adv cc cc' 0
  | one : Bf.step cc = .next cc' → Adv cc cc' 1
  | two {c1 : Bf.Config w} : Bf.step cc = .next c1 → c1.st = cc.st → Bf.step c1 = .next cc' →
      Adv cc cc' 2

theorem Adv.runCfg_add {cc cc' : Bf.Config w} {n : Nat} (h : Adv cc cc' n) (f : Nat) :
    Bf.runCfg (f + n) cc = Bf.runCfg f cc' := by
  cases h with
  | zero e => subst e; rfl
  | one h1 => exact Bf.runCfg_succ_next h1 f
  | two h1 _ h2 =>
    have e : f + 2 = (f + 1) + 1 := rfl
    rw [e, Bf.runCfg_succ_next h1, Bf.runCfg_succ_next h2]

/-- Before the advance is complete the canonical machine is out of fuel in a configuration with
the state it started from. -/
theorem Adv.runCfg_lt {cc cc' : Bf.Config w} {n : Nat} (h : Adv cc cc' n) {m : Nat} (hm : m < n) :
    ∃ c, Bf.runCfg m cc = .outOfFuel c ∧ c.st = cc.st := by
  cases h with
  | zero _ => omega
  | one _ =>
    have : m = 0 := by omega
    subst this; exact ⟨cc, rfl, rfl⟩
  | @two c1 h1 hst _ =>
    rcases m with _ | m
    · exact ⟨cc, rfl, rfl⟩
    · have : m = 0 := by omega
      subst this
      exact ⟨c1, by rw [Bf.runCfg_succ_next h1]; rfl, hst⟩

theorem Adv.le_two {cc cc' : Bf.Config w} {n : Nat} (h : Adv cc cc' n) : n ≤ 2 := by
  cases h <;> omega

/-! ### The invariant -/

/-- The enclosing loops: `Ctx code j stack conts` says the current segment ends at `j`, which is
the end of the text when no loop is active, and otherwise the `]` at `j` of the innermost active
loop `[`body`]`rest whose `[` is at `o` (stack entry `o + 1`, continuation `.loop body rest`). -/
inductive Ctx (code : List Kind) : Nat → List Nat → List Prog → Prop
  | top : Ctx code code.length [] []
  | loop {o k j : Nat} {body rest : Prog} {stack : List Nat} {conts : List Prog} :
      code[o]? = some .open → Repr code (o + 1) k body → code[k]? = some .close →
      Repr code (k + 1) j rest → Ctx code j stack conts →
      Ctx code k ((o + 1) :: stack) (.loop body rest :: conts)

theorem Ctx.end_char {code : List Kind} {j : Nat} {stack : List Nat} {conts : List Prog}
    (h : Ctx code j stack conts) : code[j]? = none ∨ code[j]? = some .close := by
  cases h with
  | top => left; simp
  | loop _ _ hk _ _ => right; exact hk

/-- In-place configuration `ic` and canonical configuration `cc` are at the same point of the same
execution: equal states, `ic.pc` is the start of a segment representing `cc.cur`, and the loop stack
matches the continuations. -/
def Rel (code : List Kind) (ic : Inplace.Cfg w) (cc : Bf.Config w) : Prop :=
  ic.st = cc.st ∧ ∃ j, Repr code ic.pc j cc.cur ∧ Ctx code j ic.stack cc.conts

theorem Rel.pc_le {code : List Kind} {ic : Inplace.Cfg w} {cc : Bf.Config w}
    (h : Rel code ic cc) : ic.pc ≤ code.length := by
  obtain ⟨_, j, hr, _⟩ := h
  have := hr.le; have := hr.le_length; omega

/-- The initial configurations are related when the text represents the program. -/
theorem Rel.init {code : List Kind} {p : Prog} (h : Bf.tree code = some p) (b : Nat) (env : Env) :
    Rel (w := w) code { pc := 0, stack := [], budget := b, st := State.init env }
      { cur := p, conts := [], st := State.init env } :=
  ⟨rfl, code.length, tree_sound h, Ctx.top⟩

/-! ### One in-place step, by the character under the program counter -/

section StepLemmas
variable {code : List Kind} {limited : Bool} {ic : Inplace.Cfg w}

theorem step_none (h : code[ic.pc]? = none) :
    Inplace.step code.toArray limited ic = .finished ic := by
  simp [Inplace.step, h]

theorem step_comment (h : code[ic.pc]? = some .comment) :
    Inplace.step code.toArray limited ic = .next { ic with pc := ic.pc + 1 } := by
  simp [Inplace.step, h]

theorem step_inc (h : code[ic.pc]? = some .inc) :
    Inplace.step code.toArray limited ic =
      .next { ic with pc := ic.pc + 1, st := ic.st.wr 0 (ic.st.rd 0 + 1#w) } := by
  simp [Inplace.step, h]

theorem step_dec (h : code[ic.pc]? = some .dec) :
    Inplace.step code.toArray limited ic =
      .next { ic with pc := ic.pc + 1, st := ic.st.wr 0 (ic.st.rd 0 + (-1#w)) } := by
  simp [Inplace.step, h]

theorem step_left (h : code[ic.pc]? = some .left) :
    Inplace.step code.toArray limited ic =
      .next { ic with pc := ic.pc + 1, st := ic.st.mov (-1) } := by
  simp [Inplace.step, h]

theorem step_right (h : code[ic.pc]? = some .right) :
    Inplace.step code.toArray limited ic =
      .next { ic with pc := ic.pc + 1, st := ic.st.mov 1 } := by
  simp [Inplace.step, h]

theorem step_inp_ok {s : State w} (h : code[ic.pc]? = some .inp) (hio : ic.st.input 0 = (true, s)) :
    Inplace.step code.toArray limited ic = .next { ic with pc := ic.pc + 1, st := s } := by
  simp [Inplace.step, h, hio]

theorem step_inp_fail {s : State w} (h : code[ic.pc]? = some .inp)
    (hio : ic.st.input 0 = (false, s)) :
    Inplace.step code.toArray limited ic = .stopped { ic with pc := ic.pc + 1, st := s } := by
  simp [Inplace.step, h, hio]

theorem step_out_ok {s : State w} (h : code[ic.pc]? = some .out)
    (hio : ic.st.output 0 = (true, s)) :
    Inplace.step code.toArray limited ic = .next { ic with pc := ic.pc + 1, st := s } := by
  simp [Inplace.step, h, hio]

theorem step_out_fail {s : State w} (h : code[ic.pc]? = some .out)
    (hio : ic.st.output 0 = (false, s)) :
    Inplace.step code.toArray limited ic = .stopped { ic with pc := ic.pc + 1, st := s } := by
  simp [Inplace.step, h, hio]

theorem step_open_zero {k : Nat} {body : Prog} (h : code[ic.pc]? = some .open)
    (hz : ic.st.rd 0 = 0#w) (hb : Repr code (ic.pc + 1) k body) (hk : code[k]? = some .close) :
    Inplace.step code.toArray limited ic = .next { ic with pc := k + 1 } := by
  simp [Inplace.step, h, hz, scan_finds_match hb hk]

theorem step_open_nonzero (h : code[ic.pc]? = some .open) (hz : ic.st.rd 0 ≠ 0#w) :
    Inplace.step code.toArray limited ic =
      .next { ic with pc := ic.pc + 1, stack := (ic.pc + 1) :: ic.stack } := by
  simp [Inplace.step, h, hz]

theorem step_close_interrupted (h : code[ic.pc]? = some .close) (hl : limited = true)
    (hb : ic.budget = 0) :
    Inplace.step code.toArray limited ic = .interrupted { ic with pc := ic.pc + 1 } := by
  simp [Inplace.step, h, hl, hb]

theorem step_close_nonzero {t : Nat} {rest : List Nat} (h : code[ic.pc]? = some .close)
    (hl : limited = false ∨ 0 < ic.budget) (hs : ic.stack = t :: rest) (hz : ic.st.rd 0 ≠ 0#w) :
    Inplace.step code.toArray limited ic =
      .next { ic with pc := t, stack := t :: rest,
                      budget := if limited then ic.budget - 1 else ic.budget } := by
  have : ¬ (limited = true ∧ ic.budget = 0) := by
    rintro ⟨h1, h2⟩; rcases hl with hl | hl
    · rw [h1] at hl; cases hl
    · omega
  simp [Inplace.step, h, hs, hz, this]

theorem step_close_zero {t : Nat} {rest : List Nat} (h : code[ic.pc]? = some .close)
    (hl : limited = false ∨ 0 < ic.budget) (hs : ic.stack = t :: rest) (hz : ic.st.rd 0 = 0#w) :
    Inplace.step code.toArray limited ic =
      .next { ic with pc := ic.pc + 1, stack := rest,
                      budget := if limited then ic.budget - 1 else ic.budget } := by
  have : ¬ (limited = true ∧ ic.budget = 0) := by
    rintro ⟨h1, h2⟩; rcases hl with hl | hl
    · rw [h1] at hl; cases hl
    · omega
  simp [Inplace.step, h, hs, hz, this]

end StepLemmas

/-! ### The step simulation -/

/-- What one in-place step from a related pair means for the canonical machine. -/
def StepSim (code : List Kind) (limited : Bool) (ic : Inplace.Cfg w) (cc : Bf.Config w) :
    Inplace.StepRes w → Prop
  | .next ic' => ∃ n cc', Adv cc cc' n ∧ Rel code ic' cc' ∧
      ((n ≤ 1 ∧ ic.pc < ic'.pc ∧ ic'.budget = ic.budget) ∨
       (n = 2 ∧ ic'.budget = (if limited then ic.budget - 1 else ic.budget) ∧
         (limited = true → 0 < ic.budget)))
  | .finished c => c = ic ∧ Bf.step cc = .halt ic.st
  | .stopped c => Bf.step cc = .stop c.st
  | .interrupted c => limited = true ∧ ic.budget = 0 ∧ c.st = ic.st
  | .notOpened _ _ => False

section StepSim
variable {code : List Kind} {limited : Bool}

/-- Plain commands: both machines apply the same state operation. -/
theorem step_sim_cmd {pc j : Nat} {stack : List Nat} {b : Nat} {st : State w} {cur : Prog}
    {conts : List Prog} {k : Kind} {op : Op} (hk : code[pc]? = some k) (hop : k.toOp? = some op)
    (hr : Repr code pc j cur) (hctx : Ctx code j stack conts) :
    StepSim code limited ⟨pc, stack, b, st⟩ ⟨cur, conts, st⟩
      (Inplace.step code.toArray limited ⟨pc, stack, b, st⟩) := by
  have hne : pc ≠ j := by
    rintro rfl
    rcases hctx.end_char with h | h <;> rw [hk] at h <;> cases h
    simp [Kind.toOp?] at hop
  obtain ⟨p', rfl, hr'⟩ := hr.inv_cmd hk hop hne
  cases k <;> simp [Kind.toOp?] at hop <;> subst hop
  · rw [step_inc hk]
    exact ⟨1, ⟨p', conts, _⟩, .one (by simp [Bf.step, Bf.applyOp]), ⟨rfl, j, hr', hctx⟩,
      .inl ⟨Nat.le_refl _, Nat.lt_succ_self _, rfl⟩⟩
  · rw [step_dec hk]
    exact ⟨1, ⟨p', conts, _⟩, .one (by simp [Bf.step, Bf.applyOp]), ⟨rfl, j, hr', hctx⟩,
      .inl ⟨Nat.le_refl _, Nat.lt_succ_self _, rfl⟩⟩
  · rw [step_left hk]
    exact ⟨1, ⟨p', conts, _⟩, .one (by simp [Bf.step, Bf.applyOp]), ⟨rfl, j, hr', hctx⟩,
      .inl ⟨Nat.le_refl _, Nat.lt_succ_self _, rfl⟩⟩
  · rw [step_right hk]
    exact ⟨1, ⟨p', conts, _⟩, .one (by simp [Bf.step, Bf.applyOp]), ⟨rfl, j, hr', hctx⟩,
      .inl ⟨Nat.le_refl _, Nat.lt_succ_self _, rfl⟩⟩
  · rcases hio : st.input 0 with ⟨ok, s⟩
    cases ok
    · rw [step_inp_fail (ic := ⟨pc, stack, b, st⟩) hk hio]
      show Bf.step _ = _
      simp [Bf.step, Bf.applyOp, hio]
    · rw [step_inp_ok (ic := ⟨pc, stack, b, st⟩) hk hio]
      exact ⟨1, ⟨p', conts, s⟩, .one (by simp [Bf.step, Bf.applyOp, hio]), ⟨rfl, j, hr', hctx⟩,
        .inl ⟨Nat.le_refl _, Nat.lt_succ_self _, rfl⟩⟩
  · rcases hio : st.output 0 with ⟨ok, s⟩
    cases ok
    · rw [step_out_fail (ic := ⟨pc, stack, b, st⟩) hk hio]
      show Bf.step _ = _
      simp [Bf.step, Bf.applyOp, hio]
    · rw [step_out_ok (ic := ⟨pc, stack, b, st⟩) hk hio]
      exact ⟨1, ⟨p', conts, s⟩, .one (by simp [Bf.step, Bf.applyOp, hio]), ⟨rfl, j, hr', hctx⟩,
        .inl ⟨Nat.le_refl _, Nat.lt_succ_self _, rfl⟩⟩

/-- `[`: skip to the partner (zero cell) or enter the loop. -/
theorem step_sim_open {pc j : Nat} {stack : List Nat} {b : Nat} {st : State w} {cur : Prog}
    {conts : List Prog} (hk : code[pc]? = some .open)
    (hr : Repr code pc j cur) (hctx : Ctx code j stack conts) :
    StepSim code limited ⟨pc, stack, b, st⟩ ⟨cur, conts, st⟩
      (Inplace.step code.toArray limited ⟨pc, stack, b, st⟩) := by
  have hne : pc ≠ j := by
    rintro rfl
    rcases hctx.end_char with h | h <;> rw [hk] at h <;> cases h
  obtain ⟨k, body, rest, rfl, hb, hc, hrest⟩ := hr.inv_open hk hne
  have := hb.le
  by_cases hz : st.rd 0 = 0#w
  · rw [step_open_zero (ic := ⟨pc, stack, b, st⟩) hk hz hb hc]
    exact ⟨1, ⟨rest, conts, st⟩, .one (by simp [Bf.step, hz]), ⟨rfl, j, hrest, hctx⟩,
      .inl ⟨Nat.le_refl _, by show pc < k + 1; omega, rfl⟩⟩
  · rw [step_open_nonzero (ic := ⟨pc, stack, b, st⟩) hk hz]
    exact ⟨1, ⟨body, .loop body rest :: conts, st⟩, .one (by simp [Bf.step, hz]),
      ⟨rfl, k, hb, Ctx.loop hk hb hc hrest hctx⟩,
      .inl ⟨Nat.le_refl _, Nat.lt_succ_self _, rfl⟩⟩

/-- `]`: the canonical machine pops the loop and tests it again. -/
theorem step_sim_close {pc j : Nat} {stack : List Nat} {b : Nat} {st : State w} {cur : Prog}
    {conts : List Prog} (hk : code[pc]? = some .close)
    (hr : Repr code pc j cur) (hctx : Ctx code j stack conts) :
    StepSim code limited ⟨pc, stack, b, st⟩ ⟨cur, conts, st⟩
      (Inplace.step code.toArray limited ⟨pc, stack, b, st⟩) := by
  obtain ⟨rfl, rfl⟩ := hr.inv_close hk
  cases hctx with
  | top =>
    have := (List.getElem?_eq_some_iff.mp hk).1
    omega
  | @loop o _ j' body rest stack' conts' ho hb hc hrest hctx' =>
    by_cases hl : limited = true ∧ b = 0
    · rw [step_close_interrupted (ic := ⟨pc, _, b, st⟩) hk hl.1 hl.2]
      exact ⟨hl.1, hl.2, rfl⟩
    · have hl' : limited = false ∨ 0 < b := by
        cases limited
        · exact .inl rfl
        · right; simp at hl; omega
      have hpos : limited = true → 0 < b := by
        intro h; rcases hl' with h' | h'
        · rw [h] at h'; cases h'
        · exact h'
      by_cases hz : st.rd 0 = 0#w
      · rw [step_close_zero (ic := ⟨pc, _, b, st⟩) hk hl' rfl hz]
        refine ⟨2, ⟨rest, conts', st⟩, ?_, ⟨rfl, j', hrest, hctx'⟩, .inr ⟨rfl, rfl, hpos⟩⟩
        exact .two (c1 := ⟨.loop body rest, conts', st⟩) (by simp [Bf.step]) rfl
          (by simp [Bf.step, hz])
      · rw [step_close_nonzero (ic := ⟨pc, _, b, st⟩) hk hl' rfl hz]
        refine ⟨2, ⟨body, .loop body rest :: conts', st⟩, ?_,
          ⟨rfl, pc, hb, Ctx.loop ho hb hc hrest hctx'⟩, .inr ⟨rfl, rfl, hpos⟩⟩
        exact .two (c1 := ⟨.loop body rest, conts', st⟩) (by simp [Bf.step]) rfl
          (by simp [Bf.step, hz])

/-- The step simulation. -/
theorem step_sim {ic : Inplace.Cfg w} {cc : Bf.Config w} (h : Rel code ic cc) :
    StepSim code limited ic cc (Inplace.step code.toArray limited ic) := by
  obtain ⟨pc, stack, b, st⟩ := ic
  obtain ⟨cur, conts, st'⟩ := cc
  obtain ⟨hst, j, hr, hctx⟩ := h
  simp only at hst hr hctx
  subst hst
  cases hk : code[pc]? with
  | none =>
    rw [step_none (ic := ⟨pc, stack, b, st⟩) hk]
    obtain ⟨rfl, rfl⟩ := hr.inv_none hk
    cases hctx with
    | top => exact ⟨rfl, by simp [Bf.step]⟩
    | loop _ _ hc _ _ => rw [hk] at hc; cases hc
  | some k =>
    cases k with
    | comment =>
      have hne : pc ≠ j := by
        rintro rfl
        rcases hctx.end_char with h | h <;> rw [hk] at h <;> cases h
      rw [step_comment (ic := ⟨pc, stack, b, st⟩) hk]
      exact ⟨0, _, .zero rfl, ⟨rfl, j, hr.inv_comment hk hne, hctx⟩,
        .inl ⟨by omega, Nat.lt_succ_self _, rfl⟩⟩
    | «open» => exact step_sim_open hk hr hctx
    | close => exact step_sim_close hk hr hctx
    | inc => exact step_sim_cmd hk rfl hr hctx
    | dec => exact step_sim_cmd hk rfl hr hctx
    | left => exact step_sim_cmd hk rfl hr hctx
    | right => exact step_sim_cmd hk rfl hr hctx
    | inp => exact step_sim_cmd hk rfl hr hctx
    | out => exact step_sim_cmd hk rfl hr hctx

end StepSim

/-! ### In-place runs are canonical runs -/

/-- What an in-place outcome from a related pair means for the canonical machine. -/
def BackSim (code : List Kind) (limited : Bool) (cc : Bf.Config w) : Inplace.Outcome w → Prop
  | .finished c => ∃ f, Bf.runCfg f cc = .done c.st
  | .stopped c => ∃ f, Bf.runCfg f cc = .stopped c.st
  | .interrupted c => limited = true ∧ ∃ f c', Bf.runCfg f cc = .outOfFuel c' ∧ c'.st = c.st
  | .notOpened _ _ => False
  | .outOfFuel c => ∃ f c', Bf.runCfg f cc = .outOfFuel c' ∧ Rel code c c'

theorem BackSim.of_adv {code : List Kind} {limited : Bool} {cc cc' : Bf.Config w} {n : Nat}
    (ha : Adv cc cc' n) {r : Inplace.Outcome w} (h : BackSim code limited cc' r) :
    BackSim code limited cc r := by
  cases r with
  | finished c => obtain ⟨f, hf⟩ := h; exact ⟨f + n, by rw [ha.runCfg_add]; exact hf⟩
  | stopped c => obtain ⟨f, hf⟩ := h; exact ⟨f + n, by rw [ha.runCfg_add]; exact hf⟩
  | interrupted c =>
    obtain ⟨hl, f, c', hf, hc⟩ := h
    exact ⟨hl, f + n, c', by rw [ha.runCfg_add]; exact hf, hc⟩
  | notOpened p c => exact h
  | outOfFuel c =>
    obtain ⟨f, c', hf, hc⟩ := h
    exact ⟨f + n, c', by rw [ha.runCfg_add]; exact hf, hc⟩

/-- Every in-place run from a related pair is matched by a canonical run. -/
theorem back_sim {code : List Kind} {limited : Bool} (f' : Nat) :
    ∀ {ic : Inplace.Cfg w} {cc : Bf.Config w}, Rel code ic cc →
      BackSim code limited cc (Inplace.runCfg code.toArray limited f' ic) := by
  induction f' with
  | zero => intro ic cc h; exact ⟨0, cc, rfl, h⟩
  | succ f' ih =>
    intro ic cc h
    have hs := step_sim (limited := limited) h
    cases hstep : Inplace.step code.toArray limited ic with
    | next ic' =>
      rw [hstep] at hs
      obtain ⟨n, cc', ha, hrel, _⟩ := hs
      rw [Inplace.runCfg_succ_next hstep]
      exact BackSim.of_adv ha (ih hrel)
    | finished c =>
      rw [hstep] at hs
      obtain ⟨rfl, hh⟩ := hs
      rw [Inplace.runCfg_succ_finished hstep]
      exact ⟨1, Bf.runCfg_succ_halt hh 0⟩
    | stopped c =>
      rw [hstep] at hs
      rw [Inplace.runCfg_succ_stopped hstep]
      exact ⟨1, Bf.runCfg_succ_stop hs 0⟩
    | interrupted c =>
      rw [hstep] at hs
      rw [Inplace.runCfg_succ_interrupted hstep]
      exact ⟨hs.1, 0, cc, rfl, by rw [hs.2.2]; exact h.1.symm⟩
    | notOpened p c =>
      rw [hstep] at hs
      exact hs.elim

/-! ### Canonical runs are in-place runs -/

/-- What a canonical outcome from a related pair means for the in-place machine. -/
def FwdSim (code : List Kind) (limited : Bool) (ic : Inplace.Cfg w) : Bf.Outcome w → Prop
  | .done s => ∃ f' c, Inplace.runCfg code.toArray limited f' ic = .finished c ∧ c.st = s
  | .stopped s => ∃ f' c, Inplace.runCfg code.toArray limited f' ic = .stopped c ∧ c.st = s
  | .outOfFuel cfg => ∃ f' c, Inplace.runCfg code.toArray limited f' ic = .outOfFuel c ∧
      c.st = cfg.st

theorem FwdSim.of_step {code : List Kind} {limited : Bool} {ic ic' : Inplace.Cfg w}
    (hs : Inplace.step code.toArray limited ic = .next ic') {r : Bf.Outcome w}
    (h : FwdSim code limited ic' r) : FwdSim code limited ic r := by
  cases r with
  | done s =>
    obtain ⟨f', c, hf, hc⟩ := h
    exact ⟨f' + 1, c, by rw [Inplace.runCfg_succ_next hs]; exact hf, hc⟩
  | stopped s =>
    obtain ⟨f', c, hf, hc⟩ := h
    exact ⟨f' + 1, c, by rw [Inplace.runCfg_succ_next hs]; exact hf, hc⟩
  | outOfFuel cfg =>
    obtain ⟨f', c, hf, hc⟩ := h
    exact ⟨f' + 1, c, by rw [Inplace.runCfg_succ_next hs]; exact hf, hc⟩

/-- Every canonical run of `f` steps from a related pair is matched by an in-place run; in limited
mode a budget of at least `f` is enough. (Lexicographic induction on `f` and the distance of the
program counter to the end of the text: comments take an in-place step only.) -/
theorem fwd_sim {code : List Kind} {limited : Bool} (f : Nat) :
    ∀ (m : Nat) {ic : Inplace.Cfg w} {cc : Bf.Config w}, Rel code ic cc →
      code.length - ic.pc = m → (limited = true → f ≤ ic.budget) →
      FwdSim code limited ic (Bf.runCfg f cc) := by
  induction f using Nat.strongRecOn with
  | _ f IHf =>
  intro m
  induction m using Nat.strongRecOn with
  | _ m IHm =>
  intro ic cc h hm hb
  rcases f with _ | f
  · exact ⟨0, ic, rfl, h.1⟩
  · have hs := step_sim (limited := limited) h
    cases hstep : Inplace.step code.toArray limited ic with
    | next ic' =>
      rw [hstep] at hs
      obtain ⟨n, cc', ha, hrel, hcase⟩ := hs
      have hpc' := hrel.pc_le
      rcases hcase with ⟨hn, hpc, hbud⟩ | ⟨rfl, hbud, hpos⟩
      · apply FwdSim.of_step hstep
        cases ha with
        | zero e =>
          subst e
          exact IHm (code.length - ic'.pc) (by omega) hrel rfl (by rw [hbud]; exact hb)
        | one h1 =>
          rw [Bf.runCfg_succ_next h1]
          exact IHf f (Nat.lt_succ_self _) _ hrel rfl (by
            intro hl; have := hb hl; omega)
        | two _ _ _ => omega
      · rcases f with _ | f
        · obtain ⟨c, hc, hcst⟩ := ha.runCfg_lt (m := 1) (by omega)
          rw [hc]
          exact ⟨0, ic, rfl, by rw [hcst]; exact h.1⟩
        · apply FwdSim.of_step hstep
          rw [ha.runCfg_add f]
          exact IHf f (by omega) _ hrel rfl (by
            intro hl; have := hb hl; have := hpos hl; rw [hbud, if_pos hl]; omega)
    | finished c =>
      rw [hstep] at hs
      obtain ⟨rfl, hh⟩ := hs
      rw [Bf.runCfg_succ_halt hh]
      exact ⟨1, c, Inplace.runCfg_succ_finished hstep 0, rfl⟩
    | stopped c =>
      rw [hstep] at hs
      rw [Bf.runCfg_succ_stop hs]
      exact ⟨1, c, Inplace.runCfg_succ_stopped hstep 0, rfl⟩
    | interrupted c =>
      rw [hstep] at hs
      obtain ⟨hl, hb0, _⟩ := hs
      have := hb hl
      omega
    | notOpened p c =>
      rw [hstep] at hs
      exact hs.elim

/-! ### Termination in limited mode -/

/-- In limited mode every `]` consumes budget, and between two `]` the program counter strictly
increases and stays within the text: the run returns within
`budget * (length + 2) + (length + 1 - pc) + 1` steps. -/
theorem limited_fuel {code : List Kind} (f : Nat) :
    ∀ {ic : Inplace.Cfg w} {cc : Bf.Config w}, Rel code ic cc →
      ic.budget * (code.length + 2) + (code.length + 1 - ic.pc) < f →
      (Inplace.runCfg code.toArray true f ic).Halted := by
  induction f with
  | zero => intro ic cc _ h; omega
  | succ f ih =>
    intro ic cc h hf
    have hs := step_sim (limited := true) h
    cases hstep : Inplace.step code.toArray true ic with
    | next ic' =>
      rw [hstep] at hs
      obtain ⟨n, cc', ha, hrel, hcase⟩ := hs
      rw [Inplace.runCfg_succ_next hstep]
      apply ih hrel
      have h1 := hrel.pc_le
      have h2 := h.pc_le
      rcases hcase with ⟨_, hpc, hbud⟩ | ⟨_, hbud, hpos⟩
      · rw [hbud]
        generalize ic.budget * (code.length + 2) = X at hf ⊢
        omega
      · have hp := hpos rfl
        obtain ⟨b', hb'⟩ : ∃ b', ic.budget = b' + 1 := ⟨ic.budget - 1, by omega⟩
        simp only [if_true] at hbud
        rw [hb'] at hbud hf
        rw [hbud, Nat.add_sub_cancel]
        rw [Nat.succ_mul] at hf
        generalize b' * (code.length + 2) = X at hf ⊢
        omega
    | finished c => rw [Inplace.runCfg_succ_finished hstep]; trivial
    | stopped c => rw [Inplace.runCfg_succ_stopped hstep]; trivial
    | interrupted c => rw [Inplace.runCfg_succ_interrupted hstep]; trivial
    | notOpened p c => rw [Inplace.runCfg_succ_notOpened hstep]; trivial

/-! ### Whole runs from the initial configurations -/

section Runs
variable {code : Array Kind} {p : Prog}

/-- `back_sim` for `Inplace.run` on a balanced program. -/
theorem back_run (h : Bf.tree code.toList = some p) (limited : Bool) (b f' : Nat) (env : Env) :
    BackSim (w := w) code.toList limited { cur := p, conts := [], st := State.init env }
      (Inplace.run code limited b f' env) := by
  have := back_sim (limited := limited) f' (Rel.init (w := w) h b env)
  simpa [Inplace.run] using this

/-- `FwdSim` phrased with `Inplace.run`. -/
def FwdRun (code : Array Kind) (limited : Bool) (b : Nat) (env : Env) : Bf.Outcome w → Prop
  | .done s => ∃ f' c, Inplace.run code limited b f' env = .finished c ∧ c.st = s
  | .stopped s => ∃ f' c, Inplace.run code limited b f' env = .stopped c ∧ c.st = s
  | .outOfFuel cfg => ∃ f' c, Inplace.run code limited b f' env = .outOfFuel c ∧ c.st = cfg.st

/-- `fwd_sim` for `Bf.run` on a balanced program. -/
theorem fwd_run (h : Bf.tree code.toList = some p) (limited : Bool) (b f : Nat) (env : Env)
    (hb : limited = true → f ≤ b) :
    FwdRun (w := w) code limited b env (Bf.run f p env) := by
  have := fwd_sim (limited := limited) f _ (Rel.init (w := w) h b env) rfl hb
  unfold Bf.run
  cases hr : Bf.runCfg f { cur := p, conts := [], st := State.init (w := w) env } with
  | done s => rw [hr] at this; simpa [FwdSim, FwdRun, Inplace.run] using this
  | stopped s => rw [hr] at this; simpa [FwdSim, FwdRun, Inplace.run] using this
  | outOfFuel c => rw [hr] at this; simpa [FwdSim, FwdRun, Inplace.run] using this

/-- `limited_fuel` for `Inplace.run` on a balanced program. -/
theorem limited_run_halted (h : Bf.tree code.toList = some p) (b f' : Nat) (env : Env)
    (hf : (b + 1) * (code.size + 2) ≤ f') :
    (Inplace.run (w := w) code true b f' env).Halted := by
  have := limited_fuel (w := w) f' (Rel.init (w := w) h b env) (by
    simp only [Array.length_toList]
    rw [Nat.succ_mul] at hf
    generalize b * (code.size + 2) = X at hf ⊢
    omega)
  simpa [Inplace.run] using this

end Runs

end C04
end Hpbf
