/-
Totality of the optimizer model, part 4: the structured part of a round: `loopOrIf`, `inline`, `loopInsideIf`,
and `finishLoop` (the `Loop`/`If` arm of `rebuild_block` after the body has been rebuilt), which contains
* `constants_among` (`depends_on.get_mut(..).unwrap()`, `*v -= 1`, the work-list fuel): total because the list of
  variables handed to it is duplicate-free (`OptLoop.nodup_constVars`: `reads` strictly ascending, pending keys
  distinct);
* `remove_pending(var).unwrap()`: `var` ranges over the (distinct) pending keys, and the loop removes only `var`.
-/
import Hpbf.Proofs.OptTotalEmit
import Hpbf.Proofs.OptTotalConst
import Hpbf.Proofs.OptRbReads

namespace Hpbf
namespace OptTotal
open Opt OptProof

variable {w : Nat}

/-- Finish a goal that consists of `pure` steps only. -/
macro "safe_pure" : tactic =>
  `(tactic| repeat (first | exact Safe.pure _ | refine Safe.bind (Safe.pure _) (fun _ _ _ _ => ?_)))

/-! ### `inline` -/

theorem inlineRest_safe {s : Rebuild w} {ps : List (Rebuild w)} {sub : Rebuild w} (hwf : Wf s)
    (hc : CanonSt s) (hsub : Child sub) : Safe (inlineRest s ps sub) := by
  unfold inlineRest
  dsimp only
  have r1' := foldl_remove_cstep (fun (acc : Rebuild w × List (Int × Bool)) (vk : Int × OptWrite w) =>
    if vk.2.isMaybe then (acc.1, acc.2 ++ [(vk.1, true)])
    else ((removePending acc.1 vk.1).1, acc.2 ++ [(vk.1, false)]))
    (by intro acc x; split
        · exact Or.inl rfl
        · exact Or.inr ⟨_, rfl⟩) sub.written (s, []) (CStep.refl hwf hc)
  refine (clobberAll_safe ps _ r1'.wf r1'.canon).bind (fun s2 os2 os2' h5 => ?_)
  have r2 : CStep s s2 := r1'.trans (clobberAll_canon ps _ h5 r1'.wf r1'.canon)
  have r2' : CStep s ({ s2 with insts := s2.insts ++ sub.insts } : Rebuild w) :=
    r2.push (r2.wf.pushInsts _) (r2.canon.pushInsts _) rfl hsub.good
  have r3 := r2'.writtenCalcs ps hsub.written_calcs
  split
  · safe_pure
  · refine (takeInlineOrder_safe _).bind (fun pend _ _ _ => ?_)
    refine (performAll_safe ps 0 pend r3.wf r3.canon).bind (fun s4 _ _ _ => ?_)
    safe_pure

theorem inline_safe {s : Rebuild w} {ps : List (Rebuild w)} {sub : Rebuild w} (hwf : Wf s)
    (hc : CanonSt s) (hsub : Child sub) : Safe (Opt.inline s ps sub) := by
  rw [inline_eq]
  split
  · refine (emitAll_safe ps _ hwf hc).bind (fun s1 os1 os1' h1 => ?_)
    have r1 := (emitAll_canon ps _ h1 hwf hc).uncertainShift
    refine (Safe.pure _).bind (fun s2 os2 os2' h2 => ?_)
    rw [run_pure] at h2
    cases h2
    exact inlineRest_safe r1.wf r1.canon hsub
  · refine (emitReadAll_safe ps _ hwf hc).bind (fun s1 os1 os1' h1 => ?_)
    have r1 := emitReadAll_canon ps _ h1 hwf hc
    exact inlineRest_safe r1.wf r1.canon hsub

/-! ### `loopOrIf` -/

theorem loopOrIf_safe {s : Rebuild w} {ps : List (Rebuild w)} {sub : Rebuild w} {cond : Int}
    {isLoop : Bool} {L : OptLoop w} {C : List Int} (hwf : Wf s) (hc : CanonSt s) (hsub : Child sub) :
    Safe (loopOrIf s ps sub cond isLoop L C) := by
  unfold loopOrIf
  dsimp only
  split
  all_goals
    refine Safe.bind (by first | exact emitAll_safe [] _ hsub.wf hsub.canon | exact Safe.pure _)
      (fun sub1 _ _ _ => ?_)
    split
    · refine (emitAll_safe ps _ hwf hc).bind (fun s1 _ _ _ => ?_)
      safe_pure
    · refine (emitReadAll_safe ps _ hwf hc).bind (fun s1 os1 os1' h1 => ?_)
      have r1 := emitReadAll_canon ps _ h1 hwf hc
      refine (emitReadAll_safe ps _ r1.wf r1.canon).bind (fun s2 os2 os2' h2 => ?_)
      have r2 := emitReadAll_canon ps _ h2 r1.wf r1.canon
      split
      · have r3 := foldl_remove_cstep (fun (acc : Rebuild w × List (Int × Bool)) (vk : Int × OptWrite w) =>
          if !C.contains vk.1 then
            if vk.2.isMaybe || !L.atLeastOnce then (acc.1, acc.2 ++ [(vk.1, true)])
            else ((removePending acc.1 vk.1).1, acc.2 ++ [(vk.1, false)])
          else acc)
          (by intro acc x; split
              · split
                · exact Or.inl rfl
                · exact Or.inr ⟨_, rfl⟩
              · exact Or.inl rfl) sub1.written (s2, []) (CStep.refl r2.wf r2.canon)
        refine (clobberAll_safe ps _ r3.wf r3.canon).bind (fun s3 _ _ _ => ?_)
        safe_pure
      · safe_pure

/-! ### `loopInsideIf` -/

theorem loopInsideIf_safe {s : Rebuild w} {ps : List (Rebuild w)} {sub : Rebuild w} {cond : Int}
    {L : OptLoop w} {after : List (Int × Expr w)} {C : List Int} (hwf : Wf s) (hc : CanonSt s)
    (hsub : Child sub) : Safe (loopInsideIf s ps sub cond L after C) := by
  unfold loopInsideIf
  dsimp only
  split
  · refine (inline_safe hwf hc hsub).bind (fun s1 os1 os1' h1 => ?_)
    have r1 := inline_canon h1 hwf hc hsub
    exact performAll_safe ps 0 after r1.wf r1.canon
  · split
    · refine (performAll_safe ps 0 _ hwf hc).bind (fun s1 os1 os1' h1 => ?_)
      have r1 := performAll_canon h1 hwf hc (calcs := [(cond, Expr.val 0#w)]) (by
        intro ve hve
        simp only [List.mem_singleton] at hve
        subst hve; exact Expr.canon_val (0#w))
      exact performAll_safe ps 0 after r1.wf r1.canon
    · refine (loopOrIf_safe hwf hc hsub).bind (fun s1 os1 os1' h1 => ?_)
      have r1 := loopOrIf_canon h1 hwf hc hsub
      exact performAll_safe ps 0 after r1.wf r1.canon

/-! ### `finishLoop` -/

theorem finishEnd_safe {s : Rebuild w} {ps : List (Rebuild w)} {cond : Int} {L : OptLoop w} {r : MidRes w}
    (hwf : Wf s) (hc : CanonSt s) (hsub : Child r.1) (hbefore : CanonCalcs r.2.1)
    (hafter : CanonCalcs r.2.2.1) : Safe (finishEnd s ps cond L r) := by
  obtain ⟨sub, before, after, constant⟩ := r
  unfold finishEnd
  dsimp only
  refine (performAll_safe ps 0 before hwf hc).bind (fun s1 os1 os1' h1 => ?_)
  have r1 := performAll_canon h1 hwf hc hbefore
  split
  · exact loopInsideIf_safe r1.wf r1.canon hsub.forgetParent
  · refine (loopInsideIf_safe (wf_new _ _ _ _) (canonSt_new _ _ _ _) hsub.forgetParent).bind
      (fun ifS os2 os2' h3 => ?_)
    have r2 := loopInsideIf_canon h3 (wf_new _ _ _ _) (canonSt_new _ _ _ _) hsub.forgetParent hafter
    have hif : Child ifS := (child_new s1.shift (some cond) .unknown none).step r2
    exact loopOrIf_safe r1.wf r1.canon hif

/-- One step of the loop over the pending variables: `remove_pending(var).unwrap()` succeeds for a pending key. -/
theorem motionStepM_safe (s : Rebuild w) (ps : List (Rebuild w)) (R C : List Int)
    (lin : List (Int × Expr w)) (pset : List Int) (L : OptLoop w)
    (acc : Rebuild w × List (Int × Expr w) × List (Int × Expr w) × List (Int × Expr w)) (var : Int)
    (hk : mHas acc.1.pending var = true) : Safe (OptLoop.motionStepM s ps R C lin pset L acc var) := by
  obtain ⟨sub, B, D, A⟩ := acc
  unfold OptLoop.motionStepM
  dsimp only
  obtain ⟨p, hp⟩ := (mHas_iff _ _).1 hk
  have hrm : (removePending sub var).2 = some p := by rw [removePending_snd]; exact hp
  rcases hrp : removePending sub var with ⟨sub', o⟩
  rw [hrp] at hrm
  dsimp only at hrm
  subst hrm
  dsimp only
  refine (Safe.monadLift (loopMotion_ok s ps var p _ R C lin pset L)).bind (fun x _ _ _ => ?_)
  obtain ⟨b, d, a⟩ := x
  exact Safe.pure _

/-- The loop over the pending variables. -/
theorem motionFold_safe (s : Rebuild w) (ps : List (Rebuild w)) (R C : List Int)
    (lin : List (Int × Expr w)) (pset : List Int) (L : OptLoop w) :
    ∀ (l : List Int) (acc : Rebuild w × List (Int × Expr w) × List (Int × Expr w) × List (Int × Expr w)),
      l.Nodup → Wf acc.1 → (∀ v ∈ l, mHas acc.1.pending v = true) →
      Safe (l.foldlM (OptLoop.motionStepM s ps R C lin pset L) acc) := by
  intro l
  induction l with
  | nil => intro acc _ _ _; rw [List.foldlM_nil]; exact Safe.pure _
  | cons v l ih =>
    intro acc hnd hwf hkeys
    rw [List.foldlM_cons]
    refine (motionStepM_safe s ps R C lin pset L acc v (hkeys v (by simp))).bind
      (fun acc' os os' h => ?_)
    obtain ⟨sub, B, D, A⟩ := acc
    obtain ⟨_, sub', p, b, d, a, hrm, _, hres⟩ :=
      OptLoop.motionStepM_ok s ps R C lin pset L sub B D A v os os' acc' h
    subst hres
    have e1 : sub' = (removePending sub v).1 := by rw [hrm]
    rw [List.nodup_cons] at hnd
    refine ih _ hnd.2 (by rw [e1]; exact removePending_wf hwf v) (fun u hu => ?_)
    show mHas sub'.pending u = true
    have hne : u ≠ v := fun h => hnd.1 (h ▸ hu)
    have hu' := hkeys u (List.mem_cons_of_mem _ hu)
    obtain ⟨e, he⟩ := (mHas_iff _ _).1 hu'
    rw [mHas_iff]
    refine ⟨e, ?_⟩
    rw [e1, removePending_pending hwf v, mGet_mErase hwf.pend, if_neg (fun h => hne h.symm)]
    exact he

theorem finishMotionK_safe {s : Rebuild w} {ps : List (Rebuild w)} {sub : Rebuild w} {cond : Int}
    {L : OptLoop w} {k : MidRes w → M (Rebuild w)} (hsub : Child sub) (hsasc : OptLoop.SAsc sub.reads)
    (hL : LoopCanon L)
    (hk : ∀ r : MidRes w, Child r.1 → CanonCalcs r.2.1 → CanonCalcs r.2.2.1 → Safe (k r)) :
    Safe (finishMotionK s ps sub cond L k) := by
  unfold finishMotionK
  dsimp only
  refine (Safe.monadLift (constantsAmong_ok s ps sub _
    (OptLoop.nodup_constVars sub cond hsasc hsub.wf.pend) (compare_ok ps s))).bind
    (fun constant _ _ _ => ?_)
  have hnd : (pendingSorted sub sub).Nodup := OptLoop.nodup_pendingSorted sub sub hsub.wf.pend
  refine (motionFold_safe s ps _ constant _ _ L (pendingSorted sub sub) (sub, [], [], []) hnd hsub.wf
    (fun v hv => ?_)).bind (fun acc os2 os2' h3 => ?_)
  · have := (OptLoop.mem_pendingSorted sub sub v).1 hv
    unfold mHas
    exact (mGet_isSome_iff _ _).2 this
  · obtain ⟨sub1, B, D, A⟩ := acc
    dsimp only
    have hinv : MotionInv (sub1, B, D, A) := by
      refine foldlM_inv (fun acc _ => MotionInv acc) _ (pendingSorted sub sub) ?_
        (b := (sub, [], [], [])) (os := os2) ?_ h3
      · intro acc x os acc' os' _ hi hstep
        exact motionStepM_canon (fun v l h => linearAmong_canon_get hsub.canon _ _ h) hL hi hstep
      · exact ⟨hsub, canonCalcs_nil, canonCalcs_nil, canonCalcs_nil⟩
    obtain ⟨hch, hB, hD, hA⟩ := hinv
    refine (performAll_safe (s :: ps) 0 D hch.wf hch.canon).bind (fun sub2 os3 os3' h5 => ?_)
    refine (Safe.pure _).bind (fun x os4 os4' hx => ?_)
    rw [run_pure] at hx
    cases hx
    exact hk _ (hch.step (performAll_canon h5 hch.wf hch.canon hD)) hB hA

/-- **`finishLoop`** is `Safe`. -/
theorem finishLoop_safe {s : Rebuild w} {ps : List (Rebuild w)} {sub : Rebuild w} {cond : Int}
    {isLoop : Bool} (hwf : Wf s) (hc : CanonSt s) (hsub : Child sub) (hsasc : OptLoop.SAsc sub.reads) :
    Safe (finishLoop s ps sub cond isLoop) := by
  rw [finishLoop_cut]
  split
  · exact Safe.pure _
  · split
    · refine (Safe.pure _).bind (fun x os os' hx => ?_)
      rw [run_pure] at hx
      cases hx
      exact finishEnd_safe hwf hc hsub canonCalcs_nil canonCalcs_nil
    · exact finishMotionK_safe hsub hsasc (fun e he => analyzeLoop_canon s ps sub cond isLoop he)
        (fun r a b c => finishEnd_safe hwf hc a b c)

#print axioms finishLoop_safe

end OptTotal
end Hpbf
