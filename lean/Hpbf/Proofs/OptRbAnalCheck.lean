/-
Rebuild-round proofs, stage 4: an EXECUTABLE test for the semantic hypothesis `AnalInL` (`OptRbAnalIn.lean`) on one
run, and its soundness.

* `checkAnalIn N b anal env : Bool` runs `b` from `State.init env` with a BIG-STEP evaluator with fuel `N`
  (`evalL` / `evalLoop`; every instruction and every loop iteration costs one unit of recursion depth, so a run of
  `K` machine steps needs `N ≈ K`), pairing the nested blocks with the nodes of `anal.subBlocks` exactly as
  `AnalInL` does (nodes are popped in order; a missing node means "no claim" for that block and whatever follows in
  the same list).  At every head of a loop whose node says `atMostOnce = false ∧ hasShift = false` it checks that
  the pointer equals the pointer at loop entry and that every cell of the two (finite) tapes whose offset is not in
  `clobbered` has its entry value (`sameOutside`); at every re-test of a loop whose node says `atMostOnce` it checks
  that the condition is zero.  The result is `false` if a claim fails or the run does not end (normally, or at a
  failing I/O operation) within the fuel.
* `analIn_of_check : checkAnalIn N b anal env = true → AnalInL (· = State.init env) b.insts anal.subBlocks`.
  Key facts: `AnalInL` is determined state by state (`analInL_cover`, `analInL_pointwise`), and the run is
  deterministic (`exec_fin_det`), so every state satisfying one of the nested guards is a state the evaluator visits.
-/
import Hpbf.Proofs.OptRbAnalIn

namespace Hpbf
namespace OptProof
open Opt OptSem Ir

variable {w : Nat}

/-! ### unfolding `AnalInI` / `AnalInL` -/

theorem analInL_nil (G : State w → Prop) (subs : List (OptAnalysis w)) : AnalInL G [] subs := by
  rw [AnalInL]; trivial

theorem analInL_cons_nonblock (G : State w → Prop) {i : Instr w} (hb : C01Dse.isBlock i = false)
    (rest : List (Instr w)) (subs : List (OptAnalysis w)) :
    AnalInL G (i :: rest) subs ↔ AnalInL (AfterG G [i]) rest subs := by
  cases subs <;> (rw [AnalInL, hb]; simp)

theorem analInL_cons_block_nil (G : State w → Prop) {i : Instr w} (hb : C01Dse.isBlock i = true)
    (rest : List (Instr w)) : AnalInL G (i :: rest) [] := by
  rw [AnalInL, hb]; simp

theorem analInL_cons_block (G : State w → Prop) {i : Instr w} (hb : C01Dse.isBlock i = true)
    (rest : List (Instr w)) (A : OptAnalysis w) (subs : List (OptAnalysis w)) :
    AnalInL G (i :: rest) (A :: subs) ↔ AnalInI G i A ∧ AnalInL (AfterG G [i]) rest subs := by
  rw [AnalInL, hb]; simp

theorem analInI_loop (G : State w → Prop) (c sh : Int) (body : List (Instr w)) (o : Bool) (A : OptAnalysis w) :
    AnalInI G (.loop c sh body o) A ↔
      BlockIn G true c sh body A ∧ AnalInL (HeadG G true c sh body) body A.subBlocks := by
  rw [AnalInI]

theorem analInI_ifnz (G : State w → Prop) (c sh : Int) (body : List (Instr w)) (A : OptAnalysis w) :
    AnalInI G (.ifnz c sh body) A ↔
      BlockIn G false c sh body A ∧ AnalInL (HeadG G false c sh body) body A.subBlocks := by
  rw [AnalInI]

/-! ### `AnalInL` is determined state by state

If every guarded state is covered by SOME guard for which the nodes are sound, they are sound for the guard. -/

theorem blockIn_cover {G : State w → Prop} {isLoop : Bool} {c sh : Int} {body : List (Instr w)}
    {A : OptAnalysis w} (h : ∀ σ, G σ → ∃ G' : State w → Prop, G' σ ∧ BlockIn G' isLoop c sh body A) :
    BlockIn G isLoop c sh body A where
  amo := fun h1 h2 σ hσ => by
    obtain ⟨G', hG', hb⟩ := h σ hσ
    exact hb.amo h1 h2 σ hG'
  clob := fun h1 h2 h3 σ hσ => by
    obtain ⟨G', hG', hb⟩ := h σ hσ
    exact hb.clob h1 h2 h3 σ hG'

mutual
theorem analInI_cover : ∀ (i : Instr w) (A : OptAnalysis w) (G : State w → Prop),
    (∀ σ, G σ → ∃ G' : State w → Prop, G' σ ∧ AnalInI G' i A) → AnalInI G i A
  | .output _, _, _, _ => by rw [AnalInI] <;> simp
  | .input _, _, _, _ => by rw [AnalInI] <;> simp
  | .calc _, _, _, _ => by rw [AnalInI] <;> simp
  | .loop c sh body o, A, G, h => by
    rw [analInI_loop]
    refine ⟨blockIn_cover (fun σ hσ => ?_), analInL_cover body A.subBlocks _ (fun σ' hσ' => ?_)⟩
    · obtain ⟨G', hG', hi⟩ := h σ hσ
      exact ⟨G', hG', ((analInI_loop ..).1 hi).1⟩
    · obtain ⟨hnz, σ, hσ, hh⟩ := hσ'
      obtain ⟨G', hG', hi⟩ := h σ hσ
      exact ⟨HeadG G' true c sh body, ⟨hnz, σ, hG', hh⟩, ((analInI_loop ..).1 hi).2⟩
  | .ifnz c sh body, A, G, h => by
    rw [analInI_ifnz]
    refine ⟨blockIn_cover (fun σ hσ => ?_), analInL_cover body A.subBlocks _ (fun σ' hσ' => ?_)⟩
    · obtain ⟨G', hG', hi⟩ := h σ hσ
      exact ⟨G', hG', ((analInI_ifnz ..).1 hi).1⟩
    · obtain ⟨hnz, σ, hσ, hh⟩ := hσ'
      obtain ⟨G', hG', hi⟩ := h σ hσ
      exact ⟨HeadG G' false c sh body, ⟨hnz, σ, hG', hh⟩, ((analInI_ifnz ..).1 hi).2⟩
theorem analInL_cover : ∀ (l : List (Instr w)) (subs : List (OptAnalysis w)) (G : State w → Prop),
    (∀ σ, G σ → ∃ G' : State w → Prop, G' σ ∧ AnalInL G' l subs) → AnalInL G l subs
  | [], subs, G, _ => analInL_nil G subs
  | i :: rest, subs, G, h => by
    have hafter : ∀ subs', (∀ σ, G σ → ∃ G' : State w → Prop, G' σ ∧ AnalInL (AfterG G' [i]) rest subs') →
        AnalInL (AfterG G [i]) rest subs' := by
      intro subs' h'
      refine analInL_cover rest subs' _ (fun σ' hσ' => ?_)
      obtain ⟨σ, hσ, hex⟩ := hσ'
      obtain ⟨G', hG', hr⟩ := h' σ hσ
      exact ⟨AfterG G' [i], ⟨σ, hG', hex⟩, hr⟩
    cases hb : C01Dse.isBlock i with
    | false =>
      rw [analInL_cons_nonblock G hb]
      refine hafter subs (fun σ hσ => ?_)
      obtain ⟨G', hG', hl⟩ := h σ hσ
      exact ⟨G', hG', (analInL_cons_nonblock G' hb rest subs).1 hl⟩
    | true =>
      cases subs with
      | nil => exact analInL_cons_block_nil G hb rest
      | cons A subs' =>
        rw [analInL_cons_block G hb]
        refine ⟨analInI_cover i A G (fun σ hσ => ?_), hafter subs' (fun σ hσ => ?_)⟩
        · obtain ⟨G', hG', hl⟩ := h σ hσ
          exact ⟨G', hG', ((analInL_cons_block G' hb rest A subs').1 hl).1⟩
        · obtain ⟨G', hG', hl⟩ := h σ hσ
          exact ⟨G', hG', ((analInL_cons_block G' hb rest A subs').1 hl).2⟩
end

/-- The nodes are sound for a guard as soon as they are sound for every single guarded state. -/
theorem analInL_pointwise {G : State w → Prop} {l : List (Instr w)} {subs : List (OptAnalysis w)}
    (h : ∀ σ, G σ → AnalInL (fun σ' => σ' = σ) l subs) : AnalInL G l subs :=
  analInL_cover l subs G (fun σ hσ => ⟨fun σ' => σ' = σ, rfl, h σ hσ⟩)

/-- No guarded state: nothing to check. -/
theorem analInL_empty {G : State w → Prop} {l : List (Instr w)} {subs : List (OptAnalysis w)}
    (h : ∀ σ, ¬ G σ) : AnalInL G l subs :=
  analInL_pointwise (fun σ hσ => (h σ hσ).elim)

/-! ### comparing two finite tapes -/

theorem lookup_notin (l : List (Int × BitVec w)) (i : Int) (h : ∀ kv ∈ l, kv.1 ≠ i) : Tape.lookup l i = 0#w := by
  induction l with
  | nil => rfl
  | cons kv l ih =>
    obtain ⟨k, v⟩ := kv
    have hk : k ≠ i := h (k, v) (by simp)
    simp only [Tape.lookup, hk, if_false]
    exact ih (fun kv' hkv' => h kv' (by simp [hkv']))

/-- Same pointer, and same value in every cell whose offset (from the pointer) is not in `cl`.  Cells that occur in
neither association list are `0` in both tapes. -/
def sameOutside (cl : List Int) (σ0 σk : State w) : Bool :=
  σk.ptr == σ0.ptr &&
    (σ0.tape.cells ++ σk.tape.cells).all
      (fun kv => cl.contains (kv.1 - σ0.ptr) || σk.tape.get kv.1 == σ0.tape.get kv.1)

theorem sameOutside_sound {cl : List Int} {σ0 σk : State w} (h : sameOutside cl σ0 σk = true) :
    σk.ptr = σ0.ptr ∧ ∀ x, cl.contains x = false → σk.rd x = σ0.rd x := by
  unfold sameOutside at h
  simp only [Bool.and_eq_true, beq_iff_eq, List.all_eq_true, Bool.or_eq_true] at h
  obtain ⟨hp, hall⟩ := h
  refine ⟨hp, fun x hx => ?_⟩
  show σk.tape.get (σk.ptr + x) = σ0.tape.get (σ0.ptr + x)
  rw [hp]
  by_cases hm : ∃ kv ∈ σ0.tape.cells ++ σk.tape.cells, kv.1 = σ0.ptr + x
  · obtain ⟨kv, hkv, e⟩ := hm
    have := hall kv hkv
    rw [e] at this
    have e' : σ0.ptr + x - σ0.ptr = x := by omega
    rw [e', hx] at this
    simpa using this
  · have h0 : ∀ kv ∈ σ0.tape.cells, kv.1 ≠ σ0.ptr + x :=
      fun kv hkv e => hm ⟨kv, List.mem_append_left _ hkv, e⟩
    have hk : ∀ kv ∈ σk.tape.cells, kv.1 ≠ σ0.ptr + x :=
      fun kv hkv e => hm ⟨kv, List.mem_append_right _ hkv, e⟩
    show Tape.lookup _ _ = Tape.lookup _ _
    rw [lookup_notin _ _ h0, lookup_notin _ _ hk]

/-! ### the heads of a loop, from the front -/

theorem head_zero_inv {c sh : Int} {body : List (Instr w)} {σ x : State w} (h : Head c sh body σ 0 x) :
    x = σ := by
  cases h; rfl

theorem head_uncons {c sh : Int} {body : List (Instr w)} {σ x : State w} {j : Nat}
    (h : Head c sh body σ (j + 1) x) :
    σ.rd c ≠ 0#w ∧ ∃ σ1, Exec body σ (.fin σ1) ∧ Head c sh body (σ1.mov sh) j x := by
  generalize hn : j + 1 = n at h
  induction h generalizing j with
  | zero => omega
  | @succ k σk σ' hh hnz hb ih =>
    have hk : k = j := by omega
    subst hk
    cases k with
    | zero =>
      cases head_zero_inv hh
      exact ⟨hnz, σ', hb, .zero⟩
    | succ k' =>
      obtain ⟨h1, σ1, hb1, hh1⟩ := ih rfl
      exact ⟨h1, σ1, hb1, .succ hh1 hnz hb⟩

/-! ### the checker -/

/-- Result of the checking evaluator. -/
inductive Res (w : Nat) where
  | oof                    -- out of fuel
  | fail                   -- a claim of a node is violated
  | stop                   -- the run stopped at a failing I/O operation (all claims checked so far hold)
  | fin (σ : State w)      -- the list ran to its end (all claims hold)

def Res.ok : Res w → Bool
  | .stop => true
  | .fin _ => true
  | _ => false

/-- The node used when the recorded tree has no node for a block: it claims nothing. -/
def noClaim : OptAnalysis w :=
  .mk { never := false, finite := false, noEffect := false, noContinue := false, atLeastOnce := false,
        atMostOnce := false, expr := none } true [] [] []

def headNode (subs : List (OptAnalysis w)) : OptAnalysis w := subs.headD noClaim

/-- The `clob` claim at the head `σ` of a loop entered in `σ0`. -/
def clobOk (A : OptAnalysis w) (σ0 σ : State w) : Bool :=
  A.loopAnal.atMostOnce || A.hasShift || sameOutside A.clobbered σ0 σ

/-- The `amo` claim at the re-test in state `σ'`. -/
def amoOk (A : OptAnalysis w) (c : Int) (σ' : State w) : Bool :=
  !A.loopAnal.atMostOnce || σ'.rd c == 0#w

mutual
/-- Big-step evaluator with fuel (every instruction and every loop iteration costs one unit of recursion depth)
that checks the claims of the nodes `subs` paired (in order) with the nested blocks of the list. -/
def evalL : Nat → List (Instr w) → List (OptAnalysis w) → State w → Res w
  | 0, _, _, _ => .oof
  | _ + 1, [], _, σ => .fin σ
  | f + 1, .output src :: rest, subs, σ =>
    match σ.output src with
    | (true, σ1) => evalL f rest subs σ1
    | (false, _) => .stop
  | f + 1, .input dst :: rest, subs, σ =>
    match σ.input dst with
    | (true, σ1) => evalL f rest subs σ1
    | (false, _) => .stop
  | f + 1, .calc g :: rest, subs, σ => evalL f rest subs (doCalc σ g)
  | f + 1, .loop c sh body _ :: rest, subs, σ =>
    match evalLoop f c sh body (headNode subs) σ σ with
    | .fin σ' => evalL f rest subs.tail σ'
    | r => r
  | f + 1, .ifnz c sh body :: rest, subs, σ =>
    if σ.rd c = 0#w then evalL f rest subs.tail σ
    else
      match evalL f body (headNode subs).subBlocks σ with
      | .fin σ1 => evalL f rest subs.tail (σ1.mov sh)
      | r => r
/-- The loop `loop c sh body` with node `A`, entered in `σ0`, at the head `σ`. -/
def evalLoop : Nat → Int → Int → List (Instr w) → OptAnalysis w → State w → State w → Res w
  | 0, _, _, _, _, _, _ => .oof
  | f + 1, c, sh, body, A, σ0, σ =>
    if clobOk A σ0 σ then
      if σ.rd c = 0#w then .fin σ
      else
        match evalL f body A.subBlocks σ with
        | .fin σ1 =>
          if amoOk A c (σ1.mov sh) then evalLoop f c sh body A σ0 (σ1.mov sh) else .fail
        | r => r
    else .fail
end

/-- **The test**: run the block from the initial state with fuel `N`, checking every claim of the recorded tree
on the way; `false` if a claim fails or the run does not end within the fuel. -/
def checkAnalIn (N : Nat) (b : Block w) (anal : OptAnalysis w) (env : Env) : Bool :=
  (evalL N b.insts anal.subBlocks (State.init env)).ok

/-! ### soundness of the checker -/

/-- What a successful result says about the big-step semantics. -/
def Res.Good (r : Res w) (l : List (Instr w)) (σ : State w) : Prop :=
  match r with
  | .fin σ' => Exec l σ (.fin σ')
  | .stop => ∃ x, Exec l σ (.stop x)
  | _ => False

theorem Res.Good.map {r : Res w} {l1 l2 : List (Instr w)} {σ1 σ2 : State w}
    (f : ∀ out, Exec l1 σ1 out → Exec l2 σ2 out) (h : r.Good l1 σ1) : r.Good l2 σ2 := by
  cases r with
  | oof => exact h
  | fail => exact h
  | stop => obtain ⟨x, hx⟩ := h; exact ⟨x, f _ hx⟩
  | fin σ' => exact f _ h

theorem good_seq {r : Res w} {i : Instr w} {rest : List (Instr w)} {σ σ1 : State w}
    (h1 : Exec [i] σ (.fin σ1)) (h : r.Good rest σ1) : r.Good (i :: rest) σ :=
  h.map (fun _ hx => exec_append (a := [i]).2 (Or.inr ⟨σ1, h1, hx⟩))

theorem good_stop {i : Instr w} {rest : List (Instr w)} {σ x : State w} (h1 : Exec [i] σ (.stop x)) :
    (Res.stop : Res w).Good (i :: rest) σ :=
  ⟨x, exec_append (a := [i]).2 (Or.inl ⟨rfl, h1⟩)⟩

theorem afterG_single {i : Instr w} {rest : List (Instr w)} {subs : List (OptAnalysis w)} {σ σ1 : State w}
    (h1 : Exec [i] σ (.fin σ1)) (h : AnalInL (fun s => s = σ1) rest subs) :
    AnalInL (AfterG (fun s => s = σ) [i]) rest subs := by
  refine analInL_pointwise (fun σ' hσ' => ?_)
  obtain ⟨σ0, rfl, hex⟩ := hσ'
  cases exec_fin_det hex h1
  exact h

theorem afterG_stop {i : Instr w} {rest : List (Instr w)} {subs : List (OptAnalysis w)} {σ x : State w}
    (h1 : Exec [i] σ (.stop x)) : AnalInL (AfterG (fun s => s = σ) [i]) rest subs := by
  refine analInL_empty (fun σ' hσ' => ?_)
  obtain ⟨σ0, rfl, hex⟩ := hσ'
  exact exec_fin_stop_excl hex h1

theorem nb_fin {r : Res w} {i : Instr w} {rest : List (Instr w)} {subs : List (OptAnalysis w)} {σ σ1 : State w}
    (hb : C01Dse.isBlock i = false) (h1 : Exec [i] σ (.fin σ1))
    (h : r.Good rest σ1 ∧ AnalInL (fun s => s = σ1) rest subs) :
    r.Good (i :: rest) σ ∧ AnalInL (fun s => s = σ) (i :: rest) subs :=
  ⟨good_seq h1 h.1, (analInL_cons_nonblock _ hb rest subs).2 (afterG_single h1 h.2)⟩

theorem nb_stop {i : Instr w} {rest : List (Instr w)} {subs : List (OptAnalysis w)} {σ x : State w}
    (hb : C01Dse.isBlock i = false) (h1 : Exec [i] σ (.stop x)) :
    (Res.stop : Res w).Good (i :: rest) σ ∧ AnalInL (fun s => s = σ) (i :: rest) subs :=
  ⟨good_stop h1, (analInL_cons_nonblock _ hb rest subs).2 (afterG_stop h1)⟩

theorem blk_fin {r : Res w} {i : Instr w} {rest : List (Instr w)} {subs : List (OptAnalysis w)} {σ σ1 : State w}
    (hb : C01Dse.isBlock i = true) (h1 : Exec [i] σ (.fin σ1))
    (hI : AnalInI (fun s => s = σ) i (headNode subs))
    (h : r.Good rest σ1 ∧ AnalInL (fun s => s = σ1) rest subs.tail) :
    r.Good (i :: rest) σ ∧ AnalInL (fun s => s = σ) (i :: rest) subs := by
  refine ⟨good_seq h1 h.1, ?_⟩
  cases subs with
  | nil => exact analInL_cons_block_nil _ hb rest
  | cons A subs' => exact (analInL_cons_block _ hb rest A subs').2 ⟨hI, afterG_single h1 h.2⟩

theorem blk_stop {i : Instr w} {rest : List (Instr w)} {subs : List (OptAnalysis w)} {σ x : State w}
    (hb : C01Dse.isBlock i = true) (h1 : Exec [i] σ (.stop x))
    (hI : AnalInI (fun s => s = σ) i (headNode subs)) :
    (Res.stop : Res w).Good (i :: rest) σ ∧ AnalInL (fun s => s = σ) (i :: rest) subs := by
  refine ⟨good_stop h1, ?_⟩
  cases subs with
  | nil => exact analInL_cons_block_nil _ hb rest
  | cons A subs' => exact (analInL_cons_block _ hb rest A subs').2 ⟨hI, afterG_stop h1⟩

/-- What a successful `evalLoop` at the head `σ` establishes: the claims at every later head. -/
def LoopOk (A : OptAnalysis w) (c sh : Int) (body : List (Instr w)) (σ0 σ : State w) : Prop :=
  ∀ j σj, Head c sh body σ j σj →
    (A.loopAnal.atMostOnce = false → A.hasShift = false →
      σj.ptr = σ0.ptr ∧ ∀ x, A.clobbered.contains x = false → σj.rd x = σ0.rd x) ∧
    (σj.rd c ≠ 0#w → AnalInL (fun s => s = σj) body A.subBlocks ∧
      (A.loopAnal.atMostOnce = true → ∀ a, Exec body σj (.fin a) → (a.mov sh).rd c = 0#w))

theorem analInI_of_loopOk {A : OptAnalysis w} {c sh : Int} {body : List (Instr w)} {σ : State w} (o : Bool)
    (h : LoopOk A c sh body σ σ) : AnalInI (fun s => s = σ) (.loop c sh body o) A := by
  rw [analInI_loop]
  refine ⟨⟨?_, ?_⟩, analInL_pointwise (fun σ' hσ' => ?_)⟩
  · intro hamo _ σ' hσ' hnz a ha
    cases hσ'
    exact ((h 0 _ .zero).2 hnz).2 hamo a ha
  · intro h1 h2 _ σ' hσ' k σk hh
    cases hσ'
    exact (h k σk hh).1 h1 h2
  · obtain ⟨hnz, σ0, rfl, hh⟩ := hσ'
    simp only [if_true] at hh
    obtain ⟨k, hh⟩ := hh
    exact ((h k σ' hh).2 hnz).1

theorem analInI_ifnz_zero {A : OptAnalysis w} {c sh : Int} {body : List (Instr w)} {σ : State w}
    (hz : σ.rd c = 0#w) : AnalInI (fun s => s = σ) (.ifnz c sh body) A := by
  rw [analInI_ifnz]
  refine ⟨⟨fun _ h => (by cases h), fun _ _ h => (by cases h)⟩, analInL_empty (fun σ' hσ' => ?_)⟩
  obtain ⟨hnz, σ0, rfl, hh⟩ := hσ'
  simp only [Bool.false_eq_true, if_false] at hh
  subst hh
  exact hnz hz

theorem analInI_ifnz_nz {A : OptAnalysis w} {c sh : Int} {body : List (Instr w)} {σ : State w}
    (h : AnalInL (fun s => s = σ) body A.subBlocks) : AnalInI (fun s => s = σ) (.ifnz c sh body) A := by
  rw [analInI_ifnz]
  refine ⟨⟨fun _ h => (by cases h), fun _ _ h => (by cases h)⟩, analInL_pointwise (fun σ' hσ' => ?_)⟩
  obtain ⟨_, σ0, rfl, hh⟩ := hσ'
  simp only [Bool.false_eq_true, if_false] at hh
  subst hh
  exact h

theorem clobOk_sound {A : OptAnalysis w} {σ0 σ : State w} (h : clobOk A σ0 σ = true)
    (h1 : A.loopAnal.atMostOnce = false) (h2 : A.hasShift = false) :
    σ.ptr = σ0.ptr ∧ ∀ x, A.clobbered.contains x = false → σ.rd x = σ0.rd x := by
  unfold clobOk at h
  rw [h1, h2] at h
  exact sameOutside_sound (by simpa using h)

theorem amoOk_sound {A : OptAnalysis w} {c : Int} {σ' : State w} (h : amoOk A c σ' = true)
    (h1 : A.loopAnal.atMostOnce = true) : σ'.rd c = 0#w := by
  unfold amoOk at h
  rw [h1] at h
  simpa using h

theorem eval_sound : ∀ f : Nat,
    (∀ (l : List (Instr w)) (subs : List (OptAnalysis w)) (σ : State w), (evalL f l subs σ).ok = true →
      (evalL f l subs σ).Good l σ ∧ AnalInL (fun s => s = σ) l subs) ∧
    (∀ (c sh : Int) (body : List (Instr w)) (A : OptAnalysis w) (σ0 σ : State w) (o : Bool),
      (evalLoop f c sh body A σ0 σ).ok = true →
      (evalLoop f c sh body A σ0 σ).Good [.loop c sh body o] σ ∧ LoopOk A c sh body σ0 σ) := by
  intro f
  induction f with
  | zero =>
    refine ⟨fun l subs σ h => ?_, fun c sh body A σ0 σ o h => ?_⟩
    · simp [evalL, Res.ok] at h
    · simp [evalLoop, Res.ok] at h
  | succ f ih =>
    obtain ⟨ihL, ihLoop⟩ := ih
    refine ⟨fun l subs σ hok => ?_, fun c sh body A σ0 σ o hok => ?_⟩
    · cases l with
      | nil =>
        simp only [evalL]
        exact ⟨.nil σ, analInL_nil _ _⟩
      | cons i rest =>
        cases i with
        | output src =>
          simp only [evalL] at hok ⊢
          cases ho : σ.output src with
          | mk b σ1 =>
            rw [ho] at hok
            cases b with
            | true => exact nb_fin rfl (.outOk ho (.nil _)) (ihL rest subs σ1 hok)
            | false => exact nb_stop rfl (.outFail ho)
        | input dst =>
          simp only [evalL] at hok ⊢
          cases ho : σ.input dst with
          | mk b σ1 =>
            rw [ho] at hok
            cases b with
            | true => exact nb_fin rfl (.inOk ho (.nil _)) (ihL rest subs σ1 hok)
            | false => exact nb_stop rfl (.inFail ho)
        | «calc» g =>
          simp only [evalL] at hok ⊢
          exact nb_fin rfl (.calc (.nil _)) (ihL rest subs _ hok)
        | loop c sh body once =>
          simp only [evalL] at hok ⊢
          cases hr : evalLoop f c sh body (headNode subs) σ σ with
          | oof => (try rw [hr] at hok); simp [Res.ok] at hok
          | fail => (try rw [hr] at hok); simp [Res.ok] at hok
          | stop =>
            have := ihLoop c sh body (headNode subs) σ σ once (by rw [hr]; rfl)
            rw [hr] at this
            obtain ⟨⟨x, hx⟩, lo⟩ := this
            exact blk_stop rfl hx (analInI_of_loopOk once lo)
          | fin σ' =>
            rw [hr] at hok
            have := ihLoop c sh body (headNode subs) σ σ once (by rw [hr]; rfl)
            rw [hr] at this
            obtain ⟨g, lo⟩ := this
            exact blk_fin rfl g (analInI_of_loopOk once lo) (ihL rest subs.tail σ' hok)
        | ifnz c sh body =>
          simp only [evalL] at hok ⊢
          by_cases hz : σ.rd c = 0#w
          · rw [if_pos hz] at hok ⊢
            exact blk_fin rfl (.ifSkip hz (.nil _)) (analInI_ifnz_zero hz) (ihL rest subs.tail σ hok)
          · rw [if_neg hz] at hok ⊢
            cases hr : evalL f body (headNode subs).subBlocks σ with
            | oof => (try rw [hr] at hok); simp [Res.ok] at hok
            | fail => (try rw [hr] at hok); simp [Res.ok] at hok
            | stop =>
              have := ihL body (headNode subs).subBlocks σ (by rw [hr]; rfl)
              rw [hr] at this
              obtain ⟨⟨x, hx⟩, ab⟩ := this
              exact blk_stop rfl (.ifIn hz hx rfl) (analInI_ifnz_nz ab)
            | fin σ1 =>
              rw [hr] at hok
              have := ihL body (headNode subs).subBlocks σ (by rw [hr]; rfl)
              rw [hr] at this
              obtain ⟨g, ab⟩ := this
              exact blk_fin rfl (.ifIter hz g (.nil _)) (analInI_ifnz_nz ab)
                (ihL rest subs.tail (σ1.mov sh) hok)
    · simp only [evalLoop] at hok ⊢
      by_cases hc : clobOk A σ0 σ = true
      · rw [if_pos hc] at hok ⊢
        have hclob := clobOk_sound hc
        by_cases hz : σ.rd c = 0#w
        · rw [if_pos hz]
          refine ⟨.loopSkip hz (.nil _), fun j σj hh => ?_⟩
          cases j with
          | zero =>
            cases head_zero_inv hh
            exact ⟨hclob, fun hnz => absurd hz hnz⟩
          | succ j => exact absurd hz (head_uncons hh).1
        · rw [if_neg hz] at hok ⊢
          cases hr : evalL f body A.subBlocks σ with
          | oof => (try rw [hr] at hok); simp [Res.ok] at hok
          | fail => (try rw [hr] at hok); simp [Res.ok] at hok
          | stop =>
            have := ihL body A.subBlocks σ (by rw [hr]; rfl)
            rw [hr] at this
            obtain ⟨⟨x, hx⟩, ab⟩ := this
            refine ⟨⟨x, .loopIn hz hx rfl⟩, fun j σj hh => ?_⟩
            cases j with
            | zero =>
              cases head_zero_inv hh
              exact ⟨hclob, fun _ => ⟨ab, fun _ a ha => (exec_fin_stop_excl ha hx).elim⟩⟩
            | succ j =>
              obtain ⟨_, σ1, hb1, _⟩ := head_uncons hh
              exact (exec_fin_stop_excl hb1 hx).elim
          | fin σ1 =>
            rw [hr] at hok
            have := ihL body A.subBlocks σ (by rw [hr]; rfl)
            rw [hr] at this
            obtain ⟨gb, ab⟩ := this
            have gb : Exec body σ (.fin σ1) := gb
            by_cases ha : amoOk A c (σ1.mov sh) = true
            · simp only [ha, ↓reduceIte] at hok ⊢
              obtain ⟨g', lo'⟩ := ihLoop c sh body A σ0 (σ1.mov sh) o hok
              refine ⟨g'.map (fun _ hx => .loopIter hz gb hx), fun j σj hh => ?_⟩
              cases j with
              | zero =>
                cases head_zero_inv hh
                refine ⟨hclob, fun _ => ⟨ab, fun hamo a hx => ?_⟩⟩
                cases exec_fin_det hx gb
                exact amoOk_sound ha hamo
              | succ j =>
                obtain ⟨_, σ1', hb1, hh1⟩ := head_uncons hh
                cases exec_fin_det hb1 gb
                exact lo' j σj hh1
            · simp [ha, Res.ok] at hok
      · rw [if_neg hc] at hok; simp [Res.ok] at hok

/-- **Soundness of the test.** -/
theorem analIn_of_check (N : Nat) {b : Block w} {anal : OptAnalysis w} {env : Env}
    (h : checkAnalIn N b anal env = true) :
    AnalInL (fun σ => σ = State.init env) b.insts anal.subBlocks :=
  ((eval_sound N).1 b.insts anal.subBlocks (State.init env) h).2

/-- The run the test followed, in big-step form. -/
theorem exec_of_check (N : Nat) {b : Block w} {anal : OptAnalysis w} {env : Env}
    (h : checkAnalIn N b anal env = true) :
    (∃ σ', Exec b.insts (State.init env) (.fin σ')) ∨ ∃ x, Exec b.insts (State.init env) (.stop x) := by
  have := ((eval_sound N).1 b.insts anal.subBlocks (State.init env) h).1
  cases hr : evalL N b.insts anal.subBlocks (State.init env) with
  | oof => rw [hr] at this; exact this.elim
  | fail => rw [hr] at this; exact this.elim
  | stop => rw [hr] at this; exact Or.inr this
  | fin σ' => rw [hr] at this; exact Or.inl ⟨σ', this⟩

/-! ### examples -/

namespace AnalCheckEx

def envAB : Env := { input := some [.byte 65, .byte 66, .eof], sink := true, outOk := none }

/-- an `OptLoop` with the two flags the test looks at -/
def lp (amo alo : Bool) : OptLoop 8 :=
  { never := false, finite := false, noEffect := false, noContinue := false, atLeastOnce := alo,
    atMostOnce := amo, expr := none }

/-- `,[.,]` (already in the form round 1 emits) -/
def echo : Block 8 := { shift := 0, insts := [.input 0, .loop 0 0 [.output 0, .input 0] false] }

/-- the tree round 1 records for `echo`: the loop keeps the pointer and clobbers only cell 0 -/
def echoAnal : OptAnalysis 8 := .mk (lp true true) false [] [] [.mk (lp false false) false [0] [0] []]

/-- a wrong tree: the loop is claimed to clobber nothing -/
def echoBad1 : OptAnalysis 8 := .mk (lp true true) false [] [] [.mk (lp false false) false [0] [] []]

/-- a wrong tree: the loop is claimed to run at most once (it runs twice on `envAB`) -/
def echoBad2 : OptAnalysis 8 := .mk (lp true true) false [] [] [.mk (lp true false) false [0] [0] []]

/-- a nested example: `,[ x1 := 3; [ . x1 -= 1 ] , ]` with the tree round 1 records -/
def nest : Block 8 :=
  { shift := 0,
    insts := [.input 0,
      .loop 0 0 [.calc [(1, [⟨3#8, []⟩])],
        .loop 1 0 [.output 0, .calc [(1, [⟨0xff#8, []⟩, ⟨1#8, [1]⟩])]] true,
        .input 0] false] }

def nestAnal : OptAnalysis 8 :=
  .mk (lp true true) false [] []
    [.mk (lp false false) false [0] [0, 1] [.mk (lp false true) false [0, 1] [1] []]]

example : checkAnalIn 100 echo echoAnal envAB = true := by decide +kernel
example : checkAnalIn 100 echo echoBad1 envAB = false := by decide +kernel
example : checkAnalIn 100 echo echoBad2 envAB = false := by decide +kernel
example : checkAnalIn 100 nest nestAnal envAB = true := by decide +kernel
/-- too little fuel -/
example : checkAnalIn 5 nest nestAnal envAB = false := by decide +kernel

/-- the test applied to what a round produces (program and tree computed by `optimizeOnce`) -/
example :
    (match (optimizeOnce nest (topAnalysis [] [])).run [] with
     | .ok ((b', a'), _) => checkAnalIn 100 b' a' envAB
     | .error _ => false) = true := by decide +kernel

example : AnalInL (fun σ => σ = State.init envAB) nest.insts nestAnal.subBlocks :=
  analIn_of_check 100 (by decide +kernel)

end AnalCheckEx

/-! ### axioms -/

#print axioms analInL_pointwise
#print axioms sameOutside_sound
#print axioms eval_sound
#print axioms analIn_of_check

end OptProof
end Hpbf
