/-
Rebuild-round proofs, stage 4: `loopOrIf` with a non-moving child: EVERY head of the emitted loop (in a run started
from a state of the emitted program that is related to a guarded source state) has its head of the source loop, and
the source head, re-coordinated, is a valid start state for the child that agrees with the emitted head on
everything the child reads.  (The simulation theorem `loopOrIf_stay_ok'` hides this correspondence; the footprint
lemmas need it when the child's guard is not trivial.)
-/
import Hpbf.Proofs.OptRbFoot9
import Hpbf.Proofs.OptRbAnal

namespace Hpbf
namespace OptProof
open Opt OptSem Ir

variable {w : Nat}

/-- What is known at a pair (source head, emitted head) of the same round number. -/
structure HeadCtx (Gc : State w → Prop) (shP cS : Int) (pc : List (Rebuild w)) (sub0 sub1 : Rebuild w)
    (L : OptLoop w) (σk b : State w) : Prop where
  cond : b.rd (cS + shP) = σk.rd cS
  valid : σk.rd cS ≠ 0#w → Gc σk → ValidG Gc shP sub0 pc (σk.mov (-shP)) ∧ ¬ Bad sub1.insts (σk.mov (-shP))
  ptr : (σk.mov (-shP)).ptr = b.ptr
  env : (σk.mov (-shP)).env = b.env
  tr : (σk.mov (-shP)).trace = b.trace
  reads : ∀ v ∈ sub1.reads, memE (σk.mov (-shP)) v = memE b v
  maybe : L.noEffect = false → ∀ v k, (v, k) ∈ sub1.written → k.isMaybe = true →
    memE (σk.mov (-shP)) v = memE b v

theorem loopOrIf_stay_heads {shP shC shS cS : Int} {bodyS : List (Instr w)}
    {s : Rebuild w} {ps : List (Rebuild w)} {sub : Rebuild w} {cond : Int} {isLoop : Bool} {L : OptLoop w}
    {C : List Int} {pc : List (Rebuild w)} {sub0 : Rebuild w} {os os' : Orders} {s' : Rebuild w}
    {G Gc : State w → Prop}
    (hr : (loopOrIf s ps sub cond isLoop L C).run os = .ok (s', os'))
    (hwf : Wf s) (hpre : ChildPre Gc shP shC pc sub0 sub cS bodyS)
    (hns : (sub.subShift || sub.shift != s.shift) = false)
    (hcond : cond = cS + shP) (hsh : shC + shS = shP)
    (hGc : ∀ M0 σE σS, RelAt shP s ps M0 σE σS → G σS → ∀ k σk, Head cS shS bodyS σS k σk →
      (isLoop = false → k = 0) → σk.rd cS ≠ 0#w → Gc σk) :
    ∃ (sub1 : Rebuild w) (comps : List (List (Int × Expr w))), ChildOk Gc shP shC pc sub0 sub1 cS bodyS ∧ Wf sub1 ∧
      s'.insts = s.insts ++ (comps.map Instr.calc ++ [if isLoop then Instr.loop (cS + shP) 0 sub1.insts L.atLeastOnce
        else Instr.ifnz (cS + shP) 0 sub1.insts]) ∧
      ∀ M0 σ1 σS, RelAt shP s ps M0 σ1 σS → G σS →
        ∀ k b, Head (cS + shP) 0 sub1.insts (comps.foldl doCalc σ1) k b → (isLoop = false → k = 0) →
          ∃ σk, Head cS shS bodyS σS k σk ∧ HeadCtx Gc shP cS pc sub0 sub1 L σk b := by
  subst hcond
  obtain ⟨sub1, os1, r, h1, h2, rfl⟩ := loopOrIf_run hr
  obtain ⟨hc, hwf1, hshift1⟩ := hpre.emit h1
  have hshEq : sub.shift = s.shift := by
    have := hns
    simp only [Bool.or_eq_false_iff, bne_eq_false_iff_eq] at this
    exact this.2
  have hns1 : (sub1.subShift || sub1.shift != s.shift) = false := by
    rw [hc.noShift, hshift1, hshEq]; simp
  obtain ⟨s3, comps, Dx, hreq, hclob, hdrop, hreads, hconstP, hdead, hminvx⟩ := loopPrep_stay hwf hns1 h2
  subst hreq
  simp only
  obtain ⟨t1, t2, t3, t4, t5, t6, t7⟩ := loopTail_fields (condZero s3 { sub1 with reads := sIns sub1.reads (cS + shP) } (cS + shP))
    { sub1 with reads := sIns sub1.reads (cS + shP) } (cS + shP) isLoop L
    (sub1.subShift || sub1.shift != s.shift) ((mKeys sub1.written).filter (fun var => !C.contains var))
  have hcz := condZero_same s3 { sub1 with reads := sIns sub1.reads (cS + shP) } (cS + shP)
  have hbs : ({ sub1 with reads := sIns sub1.reads (cS + shP) } : Rebuild w).shift -
      (condZero s3 { sub1 with reads := sIns sub1.reads (cS + shP) } (cS + shP)).shift = 0 := by
    rw [hcz.2.2.1, hclob.hdr.2.2.1]
    show sub1.shift - s.shift = 0
    rw [hshift1, hshEq]; omega
  rw [hbs] at t7
  refine ⟨sub1, comps, hc, hwf1, ?_, ?_⟩
  · rw [t7, hcz.2.2.2.2.2.2.2.2.2.1, hclob.insts, List.append_assoc]
  intro M0 σE σS hrel hG
  obtain ⟨m1, m2, m3⟩ := foldl_doCalc_meta comps σE
  have hX : MInvX Dx s3 ps M0 (memE (comps.foldl doCalc σE)) (memS (comps.foldl doCalc σE) σS) := by
    rw [memE_foldl_doCalc σE comps hclob.nodup, memS_foldl_doCalc]
    exact hminvx M0 _ _ hrel.inv
  have hJ0 : StayJ shP cS shS bodyS sub1 s3 Dx σS (comps.foldl doCalc σE) 0 σS (comps.foldl doCalc σE) :=
    stayJ_init hX (by rw [m3]; exact hrel.tr) (by rw [m2]; exact hrel.env) (by rw [m1]; exact hrel.ptr)
  have hread' : ∀ v, v ∈ sub1.reads ∨ v = cS + shP → mGet s3.pending v = none ∧ ¬ Dx v := by
    intro v hv
    refine ⟨hreads v hv, fun hd => ?_⟩
    obtain ⟨n1, n2⟩ := hdrop.notRead v hd
    rcases hv with h | h
    · exact n1 h
    · exact n2 h
  have hDx' : ∀ v, Dx v → DefW sub1 v := by
    intro v hd
    obtain ⟨kk, hkk, hm⟩ := hdrop.written v hd
    exact ⟨kk, mGet_of_mem hwf1.writ hkk, hm⟩
  have hcondrd : ∀ (k : Nat) (a b : State w),
      StayJ shP cS shS bodyS sub1 s3 Dx σS (comps.foldl doCalc σE) k a b → a.rd cS = b.rd (cS + shP) := by
    intro k a b hJ
    obtain ⟨p1, p2⟩ := hread' (cS + shP) (Or.inr rfl)
    have := hJ.agree (cS + shP) p1 p2
    show a.tape.get (a.ptr + cS) = b.tape.get (b.ptr + (cS + shP))
    rw [hJ.ptr]
    have e : b.ptr + shP + cS = b.ptr + (cS + shP) := by omega
    rw [e]; exact this
  -- every emitted head has its source head
  have hheads : ∀ k b, Head (cS + shP) 0 sub1.insts (comps.foldl doCalc σE) k b → (isLoop = false → k = 0) →
      ∃ σk, StayJ shP cS shS bodyS sub1 s3 Dx σS (comps.foldl doCalc σE) k σk b := by
    intro k b hh
    induction hh with
    | zero => intro _; exact ⟨σS, hJ0⟩
    | @succ k' bk b' hprev hne hex ih =>
      intro hk
      have hil : isLoop = true := by
        cases h : isLoop with
        | true => rfl
        | false => have := hk h; omega
      obtain ⟨σk, hJ⟩ := ih (fun h => by rw [hil] at h; cases h)
      have hneS : σk.rd cS ≠ 0#w := by rw [hcondrd k' σk bk hJ]; exact hne
      have hg := hGc M0 σE σS hrel hG k' σk hJ.head (fun h => by rw [hil] at h; cases h) hneS
      obtain ⟨hs, _⟩ := stayJ_round hc hsh hread' hDx' hJ hneS hg
      obtain ⟨a', _, hq⟩ := hs.finR b' hex
      exact ⟨a'.mov shS, hq⟩
  intro k b hh hk
  obtain ⟨σk, hJ⟩ := hheads k b hh hk
  refine ⟨σk, hJ.head, ?_⟩
  have hXptr : (σk.mov (-shP)).ptr = b.ptr := by
    show σk.ptr + -shP = b.ptr
    rw [hJ.ptr]; omega
  have hXS : ∀ v, memE (σk.mov (-shP)) v = memS b σk v := by
    intro v
    show σk.tape.get ((σk.mov (-shP)).ptr + v) = σk.tape.get (b.ptr + v)
    rw [hXptr]
  have hR : ∀ v, (v ∈ sub1.reads ∨ v = cS + shP) → memS b σk v = memE b v := by
    intro v hv
    obtain ⟨p1, p2⟩ := hread' v hv
    exact hJ.agree v p1 p2
  refine ⟨(hcondrd k σk b hJ).symm, ?_, hXptr, hJ.env, hJ.tr, ?_, ?_⟩
  · intro hne hg
    obtain ⟨M0c, hre⟩ := hc.entry (σk.mov (-shP)) σk (sameMem_movNeg shP σk) hne hg
    exact ⟨⟨M0c, σk, hre, hg⟩, (hc.rep M0c _ σk hre hg).2⟩
  · intro v hv
    rw [hXS v]; exact hR v (Or.inl hv)
  · intro hnev v kk hvk hm
    rw [hXS v]
    have hkey : v ∈ mKeys sub1.written := List.mem_map.2 ⟨(v, kk), hvk, rfl⟩
    have hnd : ¬ Dx v := by
      intro hd
      obtain ⟨k', hk', hm'⟩ := hdrop.written v hd
      have g1 := mGet_of_mem hwf1.writ hvk
      have g2 := mGet_of_mem hwf1.writ hk'
      rw [g1] at g2
      cases g2
      rw [hm] at hm'
      cases hm'
    cases hC : C.contains v with
    | true => exact hJ.agree v (hconstP v hkey hC) hnd
    | false => exact hJ.agree v (hdead hnev (v, kk) hvk hC).1 hnd

end OptProof
end Hpbf
