/-
Rebuild-round proofs: extensionality of the big-step semantics.  `Tape` is an association list, so two states
can have the same contents without being equal; `StEq` is equality of states up to the representation of the
tape, and `Exec` / `Bad` / `Head` cannot tell `StEq` states apart.
-/
import Hpbf.Proofs.OptRbLoopSem

namespace Hpbf
namespace OptProof
open Opt OptSem Ir

variable {w : Nat}

/-- Equality of states up to the representation of the tape. -/
def StEq (σ σ' : State w) : Prop :=
  σ.ptr = σ'.ptr ∧ σ.env = σ'.env ∧ σ.trace = σ'.trace ∧ ∀ i : Int, σ.tape.get i = σ'.tape.get i

theorem StEq.refl (σ : State w) : StEq σ σ := ⟨rfl, rfl, rfl, fun _ => rfl⟩

theorem StEq.symm {σ σ' : State w} (h : StEq σ σ') : StEq σ' σ :=
  ⟨h.1.symm, h.2.1.symm, h.2.2.1.symm, fun i => (h.2.2.2 i).symm⟩

theorem StEq.trans {a b c : State w} (h : StEq a b) (h' : StEq b c) : StEq a c :=
  ⟨h.1.trans h'.1, h.2.1.trans h'.2.1, h.2.2.1.trans h'.2.2.1, fun i => (h.2.2.2 i).trans (h'.2.2.2 i)⟩

theorem StEq.of_eq {σ σ' : State w} (h : σ = σ') : StEq σ σ' := h ▸ StEq.refl σ

theorem StEq.ptr_eq {σ σ' : State w} (h : StEq σ σ') : σ.ptr = σ'.ptr := h.1
theorem StEq.env_eq {σ σ' : State w} (h : StEq σ σ') : σ.env = σ'.env := h.2.1
theorem StEq.trace_eq {σ σ' : State w} (h : StEq σ σ') : σ.trace = σ'.trace := h.2.2.1
theorem StEq.get_eq {σ σ' : State w} (h : StEq σ σ') (i : Int) : σ.tape.get i = σ'.tape.get i := h.2.2.2 i

theorem StEq.mov {σ σ' : State w} (h : StEq σ σ') (d : Int) : StEq (σ.mov d) (σ'.mov d) :=
  ⟨by show σ.ptr + d = σ'.ptr + d; rw [h.1], h.2.1, h.2.2.1, h.2.2.2⟩

theorem StEq.rd {σ σ' : State w} (h : StEq σ σ') (v : Int) : σ.rd v = σ'.rd v := by
  show σ.tape.get (σ.ptr + v) = σ'.tape.get (σ'.ptr + v)
  rw [h.1, h.2.2.2]

theorem StEq.wr {σ σ' : State w} (h : StEq σ σ') (v : Int) (x : BitVec w) : StEq (σ.wr v x) (σ'.wr v x) := by
  refine ⟨h.1, h.2.1, h.2.2.1, fun i => ?_⟩
  show (σ.tape.set (σ.ptr + v) x).get i = (σ'.tape.set (σ'.ptr + v) x).get i
  rw [Tape.get_set, Tape.get_set, h.1, h.2.2.2]

theorem StEq.wrAll {σ σ' : State w} (h : StEq σ σ') (vals : List (Int × BitVec w)) :
    StEq (C01Dse.wrAll σ vals) (C01Dse.wrAll σ' vals) := by
  induction vals generalizing σ σ' with
  | nil => exact h
  | cons vv vals ih => exact ih (h.wr vv.1 vv.2)

theorem StEq.doCalc {σ σ' : State w} (h : StEq σ σ') (g : List (Int × Expr w)) :
    StEq (doCalc σ g) (doCalc σ' g) := by
  rw [C01Dse.doCalc_eq, C01Dse.doCalc_eq]
  have : (fun off => σ.rd off) = (fun off => σ'.rd off) := funext (fun off => h.rd off)
  rw [this]
  exact h.wrAll _

theorem StEq.foldl_doCalc {σ σ' : State w} (h : StEq σ σ') (gs : List (List (Int × Expr w))) :
    StEq (gs.foldl Ir.doCalc σ) (gs.foldl Ir.doCalc σ') := by
  induction gs generalizing σ σ' with
  | nil => exact h
  | cons g gs ih => exact ih (h.doCalc g)

theorem StEq.memOf {σ σ' : State w} (h : StEq σ σ') (o : Int) : memOf σ o = memOf σ' o :=
  funext (fun v => h.2.2.2 (o + v))

theorem StEq.memE {σ σ' : State w} (h : StEq σ σ') : memE σ = memE σ' := by
  show OptSem.memOf σ σ.ptr = OptSem.memOf σ' σ'.ptr
  rw [h.1, h.memOf]

/-- `memS` depends on its second argument only up to `StEq` … -/
theorem StEq.memS {σ σ' : State w} (h : StEq σ σ') (σE : State w) : memS σE σ = memS σE σ' :=
  h.memOf σE.ptr

/-- … and on its first argument only through the pointer. -/
theorem StEq.memS_left {σE σE' : State w} (h : StEq σE σE') (σS : State w) :
    Hpbf.OptProof.memS σE σS = Hpbf.OptProof.memS σE' σS := by
  show OptSem.memOf σS σE.ptr = OptSem.memOf σS σE'.ptr
  rw [h.1]

theorem StEq.output {σ σ' : State w} (h : StEq σ σ') (src : Int) :
    (σ.output src).1 = (σ'.output src).1 ∧ StEq (σ.output src).2 (σ'.output src).2 := by
  have hrd := h.rd src
  obtain ⟨hp, he, ht, hg⟩ := h
  unfold State.output
  rw [hrd, he]
  by_cases hs : σ'.env.sink = true
  · simp only [hs, if_true]
    rcases hw : σ'.env.writeByte with ⟨ok, e⟩
    cases ok
    · exact ⟨rfl, hp, rfl, by simp [ht], hg⟩
    · exact ⟨rfl, hp, rfl, by simp [ht], hg⟩
  · simp only [hs]
    exact ⟨rfl, hp, he, ht, hg⟩

theorem StEq.input {σ σ' : State w} (h : StEq σ σ') (dst : Int) :
    (σ.input dst).1 = (σ'.input dst).1 ∧ StEq (σ.input dst).2 (σ'.input dst).2 := by
  unfold State.input
  rw [h.env_eq]
  cases hr : σ'.env.readByte with
  | got b e =>
    obtain ⟨hp, _, ht, hg⟩ := h.wr dst (Cell.fromU8 (BitVec.ofNat 8 b.toNat))
    exact ⟨rfl, hp, rfl, by simp [h.trace_eq], hg⟩
  | failed e => exact ⟨rfl, h.1, rfl, by simp [h.trace_eq], h.2.2.2⟩
  | absent => exact ⟨rfl, h⟩

theorem StEq.output_eq {σ σ' σ1 : State w} {b : Bool} {src : Int} (he : StEq σ σ')
    (h : σ.output src = (b, σ1)) : ∃ σ1', σ'.output src = (b, σ1') ∧ StEq σ1 σ1' := by
  obtain ⟨h1, h2⟩ := he.output src
  rw [h] at h1 h2
  cases hx : σ'.output src with
  | mk b' s' =>
    rw [hx] at h1 h2
    cases (h1 : b = b')
    exact ⟨s', rfl, h2⟩

theorem StEq.input_eq {σ σ' σ1 : State w} {b : Bool} {dst : Int} (he : StEq σ σ')
    (h : σ.input dst = (b, σ1)) : ∃ σ1', σ'.input dst = (b, σ1') ∧ StEq σ1 σ1' := by
  obtain ⟨h1, h2⟩ := he.input dst
  rw [h] at h1 h2
  cases hx : σ'.input dst with
  | mk b' s' =>
    rw [hx] at h1 h2
    cases (h1 : b = b')
    exact ⟨s', rfl, h2⟩

/-- Equality of observations up to `StEq`. -/
def OutEq : Out w → Out w → Prop
  | .fin a, .fin b => StEq a b
  | .stop a, .stop b => StEq a b
  | .part t, .part t' => t = t'
  | _, _ => False

theorem OutEq.refl (o : Out w) : OutEq o o := by
  cases o with
  | fin a => exact StEq.refl a
  | stop a => exact StEq.refl a
  | part t => exact rfl

theorem OutEq.symm {o o' : Out w} (h : OutEq o o') : OutEq o' o := by
  cases o <;> cases o' <;> simp only [OutEq] at h ⊢
  · exact h.symm
  · exact h.symm
  · exact h.symm

theorem OutEq.fin_left {a : State w} {o' : Out w} (h : OutEq (.fin a) o') : ∃ b, o' = .fin b ∧ StEq a b := by
  cases o' with
  | fin b => exact ⟨b, rfl, h⟩
  | stop _ => exact h.elim
  | part _ => exact h.elim

theorem OutEq.stop_left {a : State w} {o' : Out w} (h : OutEq (.stop a) o') :
    ∃ b, o' = .stop b ∧ StEq a b := by
  cases o' with
  | fin _ => exact h.elim
  | stop b => exact ⟨b, rfl, h⟩
  | part _ => exact h.elim

theorem OutEq.part_left {t : List Ev} {o' : Out w} (h : OutEq (.part t) o') : o' = .part t := by
  cases o' with
  | fin _ => exact h.elim
  | stop _ => exact h.elim
  | part t' => cases (h : t = t'); rfl

theorem OutEq.isFin_eq {o o' : Out w} (h : OutEq o o') : o'.isFin = o.isFin := by
  cases o <;> cases o' <;> first | rfl | exact h.elim

theorem OutEq.trace_eq {o o' : Out w} (h : OutEq o o') : o.trace = o'.trace := by
  cases o <;> cases o' <;> first | exact h.elim | exact StEq.trace_eq h | exact h

/-- (1) the big-step semantics respects `StEq` -/
theorem exec_ext {is : List (Instr w)} {σ σ' : State w} {o : Out w} (h : Exec is σ o) (he : StEq σ σ') :
    ∃ o', Exec is σ' o' ∧ OutEq o o' := by
  induction h generalizing σ' with
  | cut => exact ⟨_, .cut _ _, he.trace_eq⟩
  | nil => exact ⟨_, .nil _, he⟩
  | outOk h _ ih =>
    obtain ⟨σ1', h', he1⟩ := he.output_eq h
    obtain ⟨o', ho', hq⟩ := ih he1
    exact ⟨o', .outOk h' ho', hq⟩
  | outFail h =>
    obtain ⟨σ1', h', he1⟩ := he.output_eq h
    exact ⟨_, .outFail h', he1⟩
  | inOk h _ ih =>
    obtain ⟨σ1', h', he1⟩ := he.input_eq h
    obtain ⟨o', ho', hq⟩ := ih he1
    exact ⟨o', .inOk h' ho', hq⟩
  | inFail h =>
    obtain ⟨σ1', h', he1⟩ := he.input_eq h
    exact ⟨_, .inFail h', he1⟩
  | «calc» _ ih =>
    obtain ⟨o', ho', hq⟩ := ih (he.doCalc _)
    exact ⟨o', .calc ho', hq⟩
  | loopSkip hz _ ih =>
    obtain ⟨o', ho', hq⟩ := ih he
    exact ⟨o', .loopSkip (he.rd _ ▸ hz) ho', hq⟩
  | loopIter hnz _ _ ihb ihl =>
    obtain ⟨o1, hb', hq1⟩ := ihb he
    obtain ⟨σ1', rfl, he1⟩ := hq1.fin_left
    obtain ⟨o', ho', hq⟩ := ihl (he1.mov _)
    exact ⟨o', .loopIter (he.rd _ ▸ hnz) hb' ho', hq⟩
  | loopIn hnz _ hnf ihb =>
    obtain ⟨o', hb', hq⟩ := ihb he
    exact ⟨o', .loopIn (he.rd _ ▸ hnz) hb' (hq.isFin_eq.trans hnf), hq⟩
  | ifSkip hz _ ih =>
    obtain ⟨o', ho', hq⟩ := ih he
    exact ⟨o', .ifSkip (he.rd _ ▸ hz) ho', hq⟩
  | ifIter hnz _ _ ihb ihr =>
    obtain ⟨o1, hb', hq1⟩ := ihb he
    obtain ⟨σ1', rfl, he1⟩ := hq1.fin_left
    obtain ⟨o', ho', hq⟩ := ihr (he1.mov _)
    exact ⟨o', .ifIter (he.rd _ ▸ hnz) hb' ho', hq⟩
  | ifIn hnz _ hnf ihb =>
    obtain ⟨o', hb', hq⟩ := ihb he
    exact ⟨o', .ifIn (he.rd _ ▸ hnz) hb' (hq.isFin_eq.trans hnf), hq⟩

theorem exec_ext_fin {is : List (Instr w)} {σ σ' a : State w} (h : Exec is σ (.fin a)) (he : StEq σ σ') :
    ∃ b, Exec is σ' (.fin b) ∧ StEq a b := by
  obtain ⟨o', ho', hq⟩ := exec_ext h he
  obtain ⟨b, rfl, hb⟩ := hq.fin_left
  exact ⟨b, ho', hb⟩

theorem exec_ext_stop {is : List (Instr w)} {σ σ' a : State w} (h : Exec is σ (.stop a)) (he : StEq σ σ') :
    ∃ b, Exec is σ' (.stop b) ∧ StEq a b := by
  obtain ⟨o', ho', hq⟩ := exec_ext h he
  obtain ⟨b, rfl, hb⟩ := hq.stop_left
  exact ⟨b, ho', hb⟩

theorem exec_ext_part {is : List (Instr w)} {σ σ' : State w} {t : List Ev} (h : Exec is σ (.part t))
    (he : StEq σ σ') : Exec is σ' (.part t) := by
  obtain ⟨o', ho', hq⟩ := exec_ext h he
  cases hq.part_left
  exact ho'

/-- (2) so does `Bad` -/
theorem bad_ext {is : List (Instr w)} {σ σ' : State w} (h : Bad is σ) (he : StEq σ σ') : Bad is σ' := by
  induction h generalizing σ' with
  | here hz => exact .here (he.rd _ ▸ hz)
  | outOk h _ ih =>
    obtain ⟨σ1', h', he1⟩ := he.output_eq h
    exact .outOk h' (ih he1)
  | inOk h _ ih =>
    obtain ⟨σ1', h', he1⟩ := he.input_eq h
    exact .inOk h' (ih he1)
  | «calc» _ ih => exact .calc (ih (he.doCalc _))
  | loopSkip hz _ ih => exact .loopSkip (he.rd _ ▸ hz) (ih he)
  | loopIter hnz hb _ ihl =>
    obtain ⟨σ1', hb', he1⟩ := exec_ext_fin hb he
    exact .loopIter (he.rd _ ▸ hnz) hb' (ihl (he1.mov _))
  | loopIn hnz _ ihb => exact .loopIn (he.rd _ ▸ hnz) (ihb he)
  | ifSkip hz _ ih => exact .ifSkip (he.rd _ ▸ hz) (ih he)
  | ifIter hnz hb _ ihr =>
    obtain ⟨σ1', hb', he1⟩ := exec_ext_fin hb he
    exact .ifIter (he.rd _ ▸ hnz) hb' (ihr (he1.mov _))
  | ifIn hnz _ ihb => exact .ifIn (he.rd _ ▸ hnz) (ihb he)

/-- (3) the same program from `StEq` states -/
theorem Sim.of_stEq {is : List (Instr w)} {σ σ' : State w} (he : StEq σ σ') :
    Sim (fun a b => StEq a b) is is σ σ' where
  finL := fun _ hx => exec_ext_fin hx he
  stopL := fun _ hx => by
    obtain ⟨y, hy, hq⟩ := exec_ext_stop hx he
    exact ⟨y, hy, hq.trace_eq.symm, hq.env_eq.symm⟩
  partL := fun _ ht => exec_ext_part ht he
  finR := fun _ hy => by
    obtain ⟨x, hx, hq⟩ := exec_ext_fin hy he.symm
    exact ⟨x, hx, hq.symm⟩
  stopR := fun _ hy => by
    obtain ⟨x, hx, hq⟩ := exec_ext_stop hy he.symm
    exact ⟨x, hx, hq.trace_eq, hq.env_eq⟩
  partR := fun _ ht => exec_ext_part ht he.symm

/-- (4) the heads of a loop -/
theorem head_ext {c sh : Int} {body : List (Instr w)} {σ σ' σk : State w} {k : Nat}
    (h : Head c sh body σ k σk) (he : StEq σ σ') : ∃ σk', Head c sh body σ' k σk' ∧ StEq σk σk' := by
  induction h with
  | zero => exact ⟨σ', .zero, he⟩
  | succ _ hnz hb ih =>
    obtain ⟨σk', hh', hek⟩ := ih
    obtain ⟨σ1', hb', he1⟩ := exec_ext_fin hb hek
    exact ⟨σ1'.mov sh, .succ hh' (hek.rd _ ▸ hnz) hb', he1.mov sh⟩

/-! ### axioms -/

#print axioms StEq.doCalc
#print axioms StEq.memE
#print axioms StEq.memS
#print axioms exec_ext
#print axioms bad_ext
#print axioms Sim.of_stEq
#print axioms head_ext

end OptProof
end Hpbf
