/-
Rebuild-round proofs, stage 2: `loopInsideIf` — the three ways a loop is emitted (`inline` when it runs exactly
once, `cond := 0` for a pure counting loop, `loopOrIf` otherwise), followed by the `after` operations.
-/
import Hpbf.Proofs.OptRbInline2
import Hpbf.Proofs.OptRbLoopSem

namespace Hpbf
namespace OptProof
open Opt OptSem Ir

variable {w : Nat}

/-! ### `performAll` as a step -/

theorem performAll_nil (s : Rebuild w) (ps : List (Rebuild w)) (sh : Int) :
    performAll s ps sh [] = pure s := by
  rw [performAll_eq]
  unfold performCheck performEval
  simp only [List.foldlM_nil, List.mapM_nil, pure_bind, List.foldl_nil]

/-- `performAll s ps sh calcs` simulates the source instruction `calc calcs` when the source pointer is `sh` cells
to the right of the emitted program's pointer. -/
theorem performAll_stepN {s : Rebuild w} {ps : List (Rebuild w)} {sh : Int} {calcs : List (Int × Expr w)}
    (hwf : Wf s) {os os' : Orders} {s' : Rebuild w}
    (hr : (performAll s ps sh calcs).run os = .ok (s', os')) :
    Wf s' ∧ SameHdr s s' ∧ s'.noReturn = s.noReturn ∧
    ∃ new, s'.insts = s.insts ++ new ∧ (∀ i ∈ new, C01Dse.isBlock i = false) ∧
      (s'.subShift = false → s.subShift = false) ∧
      ∀ M0 σE σS, RelAt sh s ps M0 σE σS →
        Sim (StepQ sh ps s' M0 σE) [.calc calcs] new σS σE ∧ ¬ Bad new σE := by
  obtain ⟨comps, s1, res, hwf', hsame, hminv⟩ := performAll_spec hwf hr
  refine ⟨hwf', res.hdr.trans hsame.hdr, by rw [hsame.2.2.2.2.2.1, res.noRet], comps.map Instr.calc, ?_,
    noBlocks_calcs comps, fun h => (res.hdr.trans hsame.hdr).2.2.2.2.symm.trans h, ?_⟩
  · rw [hsame.2.2.2.2.2.2.2.2.1, res.insts]
  · intro M0 σE σS hrel
    obtain ⟨m1, m2, m3⟩ := foldl_doCalc_meta comps σE
    obtain ⟨d1, d2, d3⟩ := C01Dse.doCalc_meta σS calcs
    have hsrc : Atomic [Instr.calc calcs] (fun σ : State w => (true, [calcs].foldl doCalc σ)) :=
      atomic_calcs [calcs]
    refine ⟨?_, not_bad_of_noBlocks (noBlocks_calcs comps) _⟩
    refine Sim.of_atomic hsrc (atomic_calcs comps) hrel.tr.symm rfl ?_ ?_ ?_
    · show (comps.foldl doCalc σE).trace = (doCalc σS calcs).trace
      rw [m3, d3]; exact hrel.tr.symm
    · show (comps.foldl doCalc σE).env = (doCalc σS calcs).env
      rw [m2, d2]; exact hrel.env.symm
    · intro _
      refine ⟨M0, ⟨?_, ?_, ?_, by rw [hsame.2.2.2.2.2.1, res.noRet]; exact hrel.nr, ?_⟩, fun _ => ⟨rfl, m1⟩⟩
      · show (doCalc σS calcs).trace = (comps.foldl doCalc σE).trace
        rw [m3, d3]; exact hrel.tr
      · show (doCalc σS calcs).env = (comps.foldl doCalc σE).env
        rw [m2, d2]; exact hrel.env
      · show (doCalc σS calcs).ptr = (comps.foldl doCalc σE).ptr + sh
        rw [m1, d1]; exact hrel.ptr
      · show MInv s' ps M0 (memE (comps.foldl doCalc σE)) (memS (comps.foldl doCalc σE) (doCalc σS calcs))
        rw [memE_foldl_doCalc σE comps res.nodup]
        have : memS (comps.foldl doCalc σE) (doCalc σS calcs) = assignS sh calcs (memS σE σS) := by
          rw [← memS_doCalc hrel calcs]
          show memOf _ (comps.foldl doCalc σE).ptr = memOf _ σE.ptr
          rw [m1]
        rw [this]
        exact hminv M0 _ _ hrel.inv

/-! ### the `cond := 0` shortcut -/

/-- What is known at every head of a loop whose body only changes the condition cell. -/
structure CountJ (cond : Int) (σE σS : State w) (σk : State w) : Prop where
  tr : σk.trace = σS.trace
  env : σk.env = σS.env
  ptr : σk.ptr = σS.ptr
  mem : ∀ v, v ≠ cond → memS σE σk v = memS σE σS v

/-- A finite loop whose body emits nothing and whose only pending operation is on the condition cell is
replaced by `cond := 0`. -/
theorem cond_zero_ok {shP shC shS cS : Int} {bodyS : List (Instr w)} {oS : Bool}
    {s : Rebuild w} {ps : List (Rebuild w)} {sub : Rebuild w} {cond : Int}
    {pc : List (Rebuild w)} {sub0 : Rebuild w} {os os' : Orders} {s' : Rebuild w} {G Gc : State w → Prop}
    (hr : (performAll s ps 0 [(cond, Expr.val 0#w)]).run os = .ok (s', os'))
    (hwf : Wf s) (hins : sub.insts = []) (hlen : sub.pending.length = 1) (hhas : mHas sub.pending cond = true)
    (hrep : ChildRep Gc shP shC pc sub0 [] sub bodyS)
    (hentry : ∀ σE σS : State w, SameMem shP σS σE → σS.rd cS ≠ 0#w → Gc σS →
      ∃ M0, RelAt shP sub0 pc M0 σE σS)
    (hGc : ∀ M0 σE σS, RelAt shP s ps M0 σE σS → G σS → ∀ k σk, Head cS shS bodyS σS k σk →
      σk.rd cS ≠ 0#w → Gc σk)
    (hcond : cond = cS + shP) (hsh : shC + shS = shP)
    (hfin : ∀ M0 σE σS, RelAt shP s ps M0 σE σS → G σS →
      (∀ k σk, Head cS shS bodyS σS k σk → σk.rd cS ≠ 0#w → ∃ σ', Exec bodyS σk (.fin σ')) →
      ∃ k σk, Head cS shS bodyS σS k σk ∧ σk.rd cS = 0#w) :
    Wf s' ∧ SameHdr s s' ∧
    ∃ new, s'.insts = s.insts ++ new ∧ StepNG G shP shP ps s s' [.loop cS shS bodyS oS] new := by
  obtain ⟨comps, s1, res, hwf', hsame, hminv⟩ := performAll_spec hwf hr
  -- the only pending operation of the body
  obtain ⟨e, hP⟩ : ∃ e, sub.pending = [(cond, e)] := by
    cases hp : sub.pending with
    | nil => rw [hp] at hlen; simp at hlen
    | cons kv rest =>
      cases rest with
      | nil =>
        obtain ⟨k, e⟩ := kv
        rw [hp] at hhas
        simp only [mHas, mGet] at hhas
        by_cases hk : k = cond
        · exact ⟨e, by rw [hk]⟩
        · simp [hk] at hhas
      | cons kv2 rest2 => rw [hp] at hlen; simp at hlen
  refine ⟨hwf', res.hdr.trans hsame.hdr, comps.map Instr.calc, by rw [hsame.2.2.2.2.2.2.2.2.1, res.insts],
    fun h => (res.hdr.trans hsame.hdr).2.2.2.2.symm.trans h, ?_⟩
  intro M0 σE σS hrel hG
  obtain ⟨m1, m2, m3⟩ := foldl_doCalc_meta comps σE
  -- one round from a head
  have hround : ∀ σk : State w, CountJ cond σE σS σk → Gc σk → σk.rd cS ≠ 0#w →
      (∃ a, Exec bodyS σk (.fin a) ∧ CountJ cond σE σS (a.mov shS)) ∧
      (∀ x, ¬ Exec bodyS σk (.stop x)) ∧ (∀ t, Exec bodyS σk (.part t) → t = σS.trace) := by
    intro σk hJ hg hne
    have hX : ∃ σX : State w, σX = σk.mov (-shP) := ⟨_, rfl⟩
    obtain ⟨σX, hσX⟩ := hX
    have hXptr : σX.ptr = σE.ptr := by
      rw [hσX]; show σk.ptr + -shP = σE.ptr; rw [hJ.ptr, hrel.ptr]; omega
    have hXtape : σX.tape = σk.tape := by rw [hσX]; rfl
    have hsm : SameMem shP σk σX := by
      refine ⟨by rw [hσX]; rfl, by rw [hσX]; rfl, by rw [hXptr, hJ.ptr]; exact hrel.ptr, ?_⟩
      funext v
      show σk.tape.get (σX.ptr + v) = σX.tape.get (σX.ptr + v)
      rw [hXtape]
    obtain ⟨M0c, hre⟩ := hentry σX σk hsm hne hg
    obtain ⟨hs, _⟩ := hrep M0c σX σk hre hg
    rw [hins] at hs
    refine ⟨?_, ?_, ?_⟩
    · obtain ⟨a, ha, M0', hr', _⟩ := hs.finR σX (Exec.nil σX)
      refine ⟨a, ha, ?_, ?_, ?_, ?_⟩
      · show a.trace = σS.trace
        rw [hr'.tr]; show σX.trace = _; rw [hσX]; exact hJ.tr
      · show a.env = σS.env
        rw [hr'.env]; show σX.env = _; rw [hσX]; exact hJ.env
      · show a.ptr + shS = σS.ptr
        rw [hr'.ptr, hXptr, hrel.ptr]; omega
      · intro v hv
        show a.tape.get (σE.ptr + v) = _
        have h1 : memS σX a v = Mem.par sub.pending (memE σX) v := by rw [hr'.inv.pend]
        rw [hP] at h1
        have h2 : Mem.par [(cond, e)] (memE σX) v = memE σX v := by
          apply par_of_not_mem
          simp only [mGet]
          rw [if_neg (fun h => hv h.symm)]
        rw [h2] at h1
        have h3 : memS σX a v = a.tape.get (σE.ptr + v) := by
          show a.tape.get (σX.ptr + v) = _; rw [hXptr]
        rw [← h3, h1]
        show σX.tape.get (σX.ptr + v) = _
        rw [hXtape, hXptr]
        exact hJ.mem v hv
    · intro x hx
      obtain ⟨y, hy, _⟩ := hs.stopL x hx
      cases hy
    · intro t ht
      have := hs.partL t ht
      cases this
      show σX.trace = _
      rw [hσX]; exact hJ.tr
  have hJ0 : CountJ cond σE σS σS := ⟨rfl, rfl, rfl, fun _ _ => rfl⟩
  -- every head is of this kind
  have hheads : ∀ k σk, Head cS shS bodyS σS k σk → CountJ cond σE σS σk := by
    intro k σk hh
    induction hh with
    | zero => exact hJ0
    | succ hprev hne hex ih =>
      obtain ⟨⟨a, ha, hJa⟩, _, _⟩ := hround _ ih (hGc M0 σE σS hrel hG _ _ hprev hne) hne
      rw [exec_fin_det hex ha]; exact hJa
  -- the relation at an exit head
  have hexit : ∀ k σk, Head cS shS bodyS σS k σk → σk.rd cS = 0#w →
      StepQ shP ps s' M0 σE σk (comps.foldl doCalc σE) := by
    intro k σk hh hz
    have hJ := hheads k σk hh
    refine ⟨M0, ⟨hJ.tr.trans (hrel.tr.trans m3.symm), hJ.env.trans (hrel.env.trans m2.symm), ?_, ?_, ?_⟩,
      fun _ => ⟨rfl, m1⟩⟩
    · rw [hJ.ptr, m1]; exact hrel.ptr
    · rw [hsame.2.2.2.2.2.1, res.noRet]; exact hrel.nr
    · have hmS : memS (comps.foldl doCalc σE) σk = assignS 0 [(cond, Expr.val 0#w)] (memS σE σS) := by
        funext v
        show σk.tape.get ((comps.foldl doCalc σE).ptr + v) = _
        rw [m1]
        unfold assignS
        simp only [List.map_cons, List.map_nil, List.foldl_cons, List.foldl_nil]
        by_cases hv : v = cond
        · rw [hv, show (0 : Int) + cond = cond by omega, upd_same]
          have : σk.rd cS = σk.tape.get (σE.ptr + cond) := by
            show σk.tape.get (σk.ptr + cS) = _
            rw [hJ.ptr, hrel.ptr, hcond]; congr 1; omega
          rw [← this, hz]
          exact (Expr.eval_val 0#w _).symm
        · rw [show (0 : Int) + cond = cond by omega, upd_ne _ _ _ _ hv]
          exact hJ.mem v hv
      rw [hmS, memE_foldl_doCalc σE comps res.nodup]
      exact hminv M0 _ _ hrel.inv
  have hterm : ∃ k σk, Head cS shS bodyS σS k σk ∧ σk.rd cS = 0#w :=
    hfin M0 σE σS hrel hG (fun k σk hh hne => by
      obtain ⟨⟨a, ha, _⟩, _, _⟩ := hround σk (hheads k σk hh) (hGc M0 σE σS hrel hG k σk hh hne) hne
      exact ⟨a, ha⟩)
  have hcalcs := atomic_calcs comps (w := w)
  refine ⟨⟨?_, ?_, ?_, ?_, ?_, ?_⟩, not_bad_of_noBlocks (noBlocks_calcs comps) _⟩
  · intro x hx
    obtain ⟨k, hh, hz⟩ := exec_loop_fin_head hx
    exact ⟨comps.foldl doCalc σE, (hcalcs σE _).2 (Or.inr (Or.inl ⟨rfl, Or.inl rfl⟩)), hexit k x hh hz⟩
  · intro x hx
    obtain ⟨k, σk, hh, hne, hb⟩ := exec_loop_stop_head hx
    exact absurd hb ((hround σk (hheads k σk hh) (hGc M0 σE σS hrel hG k σk hh hne) hne).2.1 x)
  · intro t ht
    have ht' : t = σS.trace := by
      obtain ⟨k, σk, hh, h | ⟨hne, hb⟩⟩ := exec_loop_part_head ht
      · rw [h]; exact (hheads k σk hh).tr
      · exact (hround σk (hheads k σk hh) (hGc M0 σE σS hrel hG k σk hh hne) hne).2.2 t hb
    rw [ht', hrel.tr]
    exact Exec.cut _ _
  · intro y hy
    rcases (hcalcs σE _).1 hy with h | ⟨_, h | h⟩ | ⟨h, _⟩
    · cases h
    · cases h
      obtain ⟨k, σk, hh, hz⟩ := hterm
      exact ⟨σk, head_exec_fin hh hz, hexit k σk hh hz⟩
    · cases h
    · cases h
  · intro y hy
    rcases (hcalcs σE _).1 hy with h | ⟨_, h | h⟩ | ⟨h, _⟩
    · cases h
    · cases h
    · cases h
    · cases h
  · intro t ht
    have ht' : t = σE.trace := by
      rcases (hcalcs σE _).1 ht with h | ⟨_, h | h⟩ | ⟨_, h⟩
      · cases h; rfl
      · cases h
      · cases h; exact m3
      · cases h
    rw [ht', ← hrel.tr]
    exact Exec.cut _ _

/-! ### `loopInsideIf` -/

/-- Semantic meaning of the flags of `L` and of the constant set `C` for the source block
`blockInstr isLoop cS shS bodyS oS`, at the source states related through `s` that satisfy `G`. -/
structure LoopFacts (G : State w → Prop) (shP : Int) (s : Rebuild w) (ps : List (Rebuild w))
    (isLoop : Bool) (cS shS : Int) (bodyS : List (Instr w)) (oS : Bool) (L : OptLoop w) (C : List Int) :
    Prop where
  alo : L.atLeastOnce = true → ∀ M0 σE σS, RelAt shP s ps M0 σE σS → G σS → σS.rd cS ≠ 0#w
  amo : L.atMostOnce = true → isLoop = true → ∀ M0 σE σS, RelAt shP s ps M0 σE σS → G σS → σS.rd cS ≠ 0#w →
    ∀ σ1, Exec bodyS σS (.fin σ1) → (σ1.mov shS).rd cS = 0#w
  ifamo : isLoop = false → L.atMostOnce = true
  nc : L.noContinue = true → ∀ M0 σE σS, RelAt shP s ps M0 σE σS → G σS →
    ∀ x, ¬ Exec [blockInstr isLoop cS shS bodyS oS] σS (.fin x)
  ne : L.noEffect = true → ∀ M0 σE σS, RelAt shP s ps M0 σE σS → G σS →
    σS.rd cS = 0#w ∨ ∀ x, ¬ Exec [blockInstr isLoop cS shS bodyS oS] σS (.fin x)
  const : ∀ M0 σE σS, RelAt shP s ps M0 σE σS → G σS → ∀ k σk, Head cS shS bodyS σS k σk →
    (isLoop = false → k ≤ 1) → ∀ x, C.contains x = true → memS σE σk x = memS σE σS x
  fin : L.finite = true → L.atMostOnce = false → ∀ M0 σE σS, RelAt shP s ps M0 σE σS → G σS →
    (∀ k σk, Head cS shS bodyS σS k σk → σk.rd cS ≠ 0#w → ∃ σ', Exec bodyS σk (.fin σ')) →
    ∃ k σk, Head cS shS bodyS σS k σk ∧ σk.rd cS = 0#w

theorem StepNG.trans_un {G : State w → Prop} {sh1 sh2 sh3 : Int} {ps : List (Rebuild w)} {a b c : Rebuild w}
    {l1 l2 n1 n2 : List (Instr w)} (h1 : StepNG G sh1 sh2 ps a b l1 n1)
    (h2 : StepNG (fun _ => True) sh2 sh3 ps b c l2 n2) : StepNG G sh1 sh3 ps a c (l1 ++ l2) (n1 ++ n2) := by
  refine ⟨fun h => h1.1 (h2.1 h), ?_⟩
  intro M0 σE σS h hG
  obtain ⟨hs1, hb1⟩ := h1.2 M0 σE σS h hG
  refine ⟨Sim.append hs1 ?_, ?_⟩
  · rintro σS' σE' ⟨M0', h', hk'⟩
    refine (h2.2 M0' σE' σS' h' trivial).1.mono ?_
    rintro x y ⟨M0'', h'', hk''⟩
    refine ⟨M0'', h'', fun hc => ?_⟩
    obtain ⟨k1, k2⟩ := hk'' hc
    obtain ⟨k3, k4⟩ := hk' (h2.1 hc)
    exact ⟨k1.trans k3, k2.trans k4⟩
  · intro hb
    rcases bad_append.1 hb with hb | ⟨σ1, he, hb⟩
    · exact hb1 hb
    · obtain ⟨σS', _, M0', h', _⟩ := hs1.finR σ1 he
      exact (h2.2 M0' σ1 σS' h' trivial).2 hb

/-- The first half of `loopInsideIf`: the block itself. -/
theorem loopInsideIf_first {shP shC shS cS : Int} {bodyS : List (Instr w)} {oS : Bool} {isLoop : Bool}
    {s : Rebuild w} {ps : List (Rebuild w)} {sub : Rebuild w} {cond : Int} {L : OptLoop w}
    {C : List Int} {pc : List (Rebuild w)} {sub0 : Rebuild w} {os os' : Orders} {s' : Rebuild w}
    {G Gc : State w → Prop}
    (hr : ((if L.atMostOnce then Opt.inline s ps sub
      else if L.finite && sub.shift == s.shift && sub.insts.isEmpty && sub.pending.length == 1
          && mHas sub.pending cond then performAll s ps 0 [(cond, Expr.val 0#w)]
      else loopOrIf s ps sub cond true L C : M (Rebuild w))).run os = .ok (s', os'))
    (hwf : Wf s) (hsf : ShiftFree s) (hcond : cond = cS + shP)
    (hsh : shC + shS = (sub.shift - s.shift) + shP)
    (hrep : ChildRep Gc shP shC pc sub0 [] sub bodyS)
    (hentry : ∀ σE σS : State w, SameMem shP σS σE → σS.rd cS ≠ 0#w → Gc σS →
      ∃ M0, RelAt shP sub0 pc M0 σE σS)
    (hGc : ∀ M0 σE σS, RelAt shP s ps M0 σE σS → G σS → ∀ k σk, Head cS shS bodyS σS k σk →
      (L.atMostOnce = true → k = 0) → σk.rd cS ≠ 0#w → Gc σk)
    (hwfc : Wf sub)
    (hpre : sub.subShift = false → ChildPre Gc shP shC pc sub0 sub cS bodyS)
    (hkv : sub.subShift = false →
      ∀ v e, mGet sub.written v = some (.known e) → ∀ x ∈ Expr.variables e, x ∈ sub.reads)
    (hF : LoopFacts G shP s ps isLoop cS shS bodyS oS L C)
    (hamoalo : L.atMostOnce = true → L.atLeastOnce = true) :
    Wf s' ∧ s'.anal = s.anal ∧ s'.cond = s.cond ∧
    ∃ shE new, (shE = shP ∨ shE = shC + shS) ∧ (s'.noReturn = false → shE = shP + (s'.shift - s.shift)) ∧
      s'.insts = s.insts ++ new ∧ StepNG G shP shE ps s s' [blockInstr isLoop cS shS bodyS oS] new := by
  split at hr
  · -- inlined
    rename_i hamo
    have hne : ∀ M0 σE σS, RelAt shP s ps M0 σE σS → G σS → σS.rd cS ≠ 0#w := hF.alo (hamoalo hamo)
    have hconv : ∀ {s1 : Rebuild w} {new : List (Instr w)} {M0 : Mem w} {σE σS : State w},
        RelAt shP s ps M0 σE σS → G σS →
        Sim (fun a b => StepQ (shC + shS) ps s1 M0 σE (a.mov shS) b) bodyS new σS σE →
        Sim (StepQ (shC + shS) ps s1 M0 σE) [blockInstr isLoop cS shS bodyS oS] new σS σE := by
      intro s1 new M0 σE σS hrel hG hs
      cases hil : isLoop with
      | true =>
        simp only [blockInstr, if_true]
        exact Sim.of_loop_once (hne M0 σE σS hrel hG)
          (hF.amo hamo hil M0 σE σS hrel hG (hne M0 σE σS hrel hG)) hs
      | false =>
        simp only [blockInstr, Bool.false_eq_true, if_false]
        exact Sim.of_ifnz_once (hne M0 σE σS hrel hG) hs
    cases hss : sub.subShift with
    | true =>
      obtain ⟨w1, w2, w3, w4, w5, w6, new, hi, hcore⟩ := inline_shift_ok (shS := shS) hr hwf hwfc hss hrep hentry hne
        (fun M0 σE σS hrel hG => hGc M0 σE σS hrel hG 0 σS Head.zero (fun _ => rfl) (hne M0 σE σS hrel hG))
      refine ⟨w1, w3, w4, shC + shS, new, Or.inr rfl, ?_, hi, fun h => absurd (w2.symm.trans h) (by simp), ?_⟩
      · intro hnr
        cases hsn : sub.noReturn with
        | true => rw [w5 hsn] at hnr; cases hnr
        | false => rw [w6 hsn, hsh]; omega
      · intro M0 σE σS hrel hG
        obtain ⟨hs, hb⟩ := hcore M0 σE σS hrel hG
        exact ⟨hconv hrel hG hs, hb⟩
    | false =>
      obtain ⟨w1, w2, _, w3, w4, w5, w6, new, hi, hcore⟩ :=
        inline_stay_ok (shS := shS) hr hwf (hpre hss) hsf (hkv hss) hne
          (fun M0 σE σS hrel hG => hGc M0 σE σS hrel hG 0 σS Head.zero (fun _ => rfl) (hne M0 σE σS hrel hG))
      refine ⟨w1, w3, w4, shC + shS, new, Or.inr rfl, ?_, hi, fun h => w2.symm.trans h, ?_⟩
      · intro hnr
        cases hsn : sub.noReturn with
        | true => rw [w5 hsn] at hnr; cases hnr
        | false => rw [w6 hsn, hsh]; omega
      · intro M0 σE σS hrel hG
        obtain ⟨hs, hb⟩ := hcore M0 σE σS hrel hG
        exact ⟨hconv hrel hG hs, hb⟩
  · rename_i hamo
    have hil : isLoop = true := by
      cases h : isLoop with
      | true => rfl
      | false => exact absurd (hF.ifamo h) hamo
    subst hil
    split at hr
    · -- `cond := 0`
      rename_i hc0
      simp only [Bool.and_eq_true, beq_iff_eq, List.isEmpty_iff] at hc0
      obtain ⟨⟨⟨⟨hfin, hshift⟩, hins⟩, hlen⟩, hhas⟩ := hc0
      obtain ⟨w1, w2, new, hi, hst⟩ := cond_zero_ok (shS := shS) (oS := oS) (G := G) hr hwf hins hlen hhas hrep hentry
        (fun M0 σE σS hrel hG k σk hh => hGc M0 σE σS hrel hG k σk hh (fun h => absurd h hamo)) hcond
        (by rw [hsh, hshift]; omega) (hF.fin hfin (by simpa using hamo))
      refine ⟨w1, w2.2.1, w2.2.2.2.1, shP, new, Or.inl rfl, fun _ => by rw [w2.2.2.1]; omega, hi, ?_⟩
      simpa only [blockInstr, if_true] using hst
    · cases hns : (sub.subShift || sub.shift != s.shift) with
      | true =>
        obtain ⟨w1, w2, w3, w4, w5, new, hi, hst⟩ := loopOrIf_shift_ok (oS := oS) hr hwf hwfc hns hcond hsh hrep hentry
          (fun M0 σE σS hrel hG k σk hh _ => hGc M0 σE σS hrel hG k σk hh (fun h => absurd h hamo)) hF.alo hF.nc
        exact ⟨w1, w3, w4, shP, new, Or.inl rfl, fun _ => by rw [w5]; omega, hi, hst⟩
      | false =>
        have hss : sub.subShift = false := by
          simp only [Bool.or_eq_false_iff] at hns; exact hns.1
        have hse : sub.shift = s.shift := by
          simp only [Bool.or_eq_false_iff, bne_eq_false_iff_eq] at hns; exact hns.2
        obtain ⟨w1, w2, new, hi, hst⟩ := loopOrIf_stay_ok' (oS := oS) hr hwf (hpre hss) hns hcond
          (by rw [hsh, hse]; omega)
          (fun M0 σE σS hrel hG k σk hh _ => hGc M0 σE σS hrel hG k σk hh (fun h => absurd h hamo))
          hF.alo hF.nc hF.ne hF.const
        exact ⟨w1, w2.2.1, w2.2.2.2.1, shP, new, Or.inl rfl, fun _ => by rw [w2.2.2.1]; omega, hi, hst⟩

theorem loopInsideIf_run {s : Rebuild w} {ps : List (Rebuild w)} {sub : Rebuild w} {cond : Int} {L : OptLoop w}
    {after : List (Int × Expr w)} {C : List Int} {os os' : Orders} {s' : Rebuild w}
    (hr : (loopInsideIf s ps sub cond L after C).run os = .ok (s', os')) :
    ∃ s1 os1, ((if L.atMostOnce then Opt.inline s ps sub
      else if L.finite && sub.shift == s.shift && sub.insts.isEmpty && sub.pending.length == 1
          && mHas sub.pending cond then performAll s ps 0 [(cond, Expr.val 0#w)]
      else loopOrIf s ps sub cond true L C : M (Rebuild w))).run os = .ok (s1, os1) ∧
      (performAll s1 ps 0 after).run os1 = .ok (s', os') := by
  unfold loopInsideIf at hr
  dsimp only at hr
  split at hr
  · rename_i h
    rw [run_bind_ok] at hr
    obtain ⟨s1, os1, h1, h2⟩ := hr
    exact ⟨s1, os1, by rw [if_pos h]; exact h1, h2⟩
  · rename_i h
    split at hr
    · rename_i h'
      rw [run_bind_ok] at hr
      obtain ⟨s1, os1, h1, h2⟩ := hr
      exact ⟨s1, os1, by rw [if_neg h, if_pos h']; exact h1, h2⟩
    · rename_i h'
      rw [run_bind_ok] at hr
      obtain ⟨s1, os1, h1, h2⟩ := hr
      exact ⟨s1, os1, by rw [if_neg h, if_neg h']; exact h1, h2⟩

/-- `loopInsideIf`: the block, then the operations moved behind it. -/
theorem loopInsideIf_ok {shP shC shS cS : Int} {bodyS : List (Instr w)} {oS : Bool} {isLoop : Bool}
    {s : Rebuild w} {ps : List (Rebuild w)} {sub : Rebuild w} {cond : Int} {L : OptLoop w}
    {after : List (Int × Expr w)}
    {C : List Int} {pc : List (Rebuild w)} {sub0 : Rebuild w} {os os' : Orders} {s' : Rebuild w}
    {G Gc : State w → Prop}
    (hr : (loopInsideIf s ps sub cond L after C).run os = .ok (s', os'))
    (hwf : Wf s) (hsf : ShiftFree s) (hcond : cond = cS + shP)
    (hsh : shC + shS = (sub.shift - s.shift) + shP)
    (hrep : ChildRep Gc shP shC pc sub0 [] sub bodyS)
    (hentry : ∀ σE σS : State w, SameMem shP σS σE → σS.rd cS ≠ 0#w → Gc σS →
      ∃ M0, RelAt shP sub0 pc M0 σE σS)
    (hGc : ∀ M0 σE σS, RelAt shP s ps M0 σE σS → G σS → ∀ k σk, Head cS shS bodyS σS k σk →
      (L.atMostOnce = true → k = 0) → σk.rd cS ≠ 0#w → Gc σk)
    (hwfc : Wf sub)
    (hpre : sub.subShift = false → ChildPre Gc shP shC pc sub0 sub cS bodyS)
    (hkv : sub.subShift = false →
      ∀ v e, mGet sub.written v = some (.known e) → ∀ x ∈ Expr.variables e, x ∈ sub.reads)
    (hF : LoopFacts G shP s ps isLoop cS shS bodyS oS L C)
    (hamoalo : L.atMostOnce = true → L.atLeastOnce = true)
    (hafter : after ≠ [] → shP = 0 ∧ sub.shift = s.shift) :
    Wf s' ∧ s'.anal = s.anal ∧ s'.cond = s.cond ∧
    ∃ shE new, (s'.noReturn = false → shE = shP + (s'.shift - s.shift)) ∧
      s'.insts = s.insts ++ new ∧
      StepNG G shP shE ps s s' ([blockInstr isLoop cS shS bodyS oS] ++ [.calc after]) new := by
  obtain ⟨s1, os1, h1, h2⟩ := loopInsideIf_run hr
  obtain ⟨w1, w2, w3, shE, new1, hE, hEs, hi1, hst1⟩ :=
    loopInsideIf_first h1 hwf hsf hcond hsh hrep hentry hGc hwfc hpre hkv hF hamoalo
  have hE0 : after ≠ [] → shE = 0 := by
    intro ha
    obtain ⟨a1, a2⟩ := hafter ha
    rcases hE with h | h
    · rw [h, a1]
    · rw [h, hsh, a1, a2]; omega
  by_cases ha : after = []
  · subst ha
    rw [performAll_nil, run_pure] at h2
    cases h2
    have h2' : (performAll s' ps shE []).run os' = .ok (s', os') := by rw [performAll_nil]; rfl
    obtain ⟨_, _, _, new2, hi2, _, hsub2, hst2⟩ := performAll_stepN w1 h2'
    refine ⟨w1, w2, w3, shE, new1 ++ new2, hEs, by rw [← List.append_assoc, ← hi1, ← hi2], ?_⟩
    exact hst1.trans_un ⟨hsub2, fun M0 σE σS hrel _ => hst2 M0 σE σS hrel⟩
  · have h0 := hE0 ha
    subst h0
    obtain ⟨v1, v2, v3, new2, hi2, _, hsub2, hst2⟩ := performAll_stepN w1 h2
    refine ⟨v1, v2.2.1.trans w2, v2.2.2.2.1.trans w3, 0, new1 ++ new2,
      fun hn => by rw [v2.2.2.1]; exact hEs (v3 ▸ hn), by rw [hi2, hi1, List.append_assoc], ?_⟩
    exact hst1.trans_un ⟨hsub2, fun M0 σE σS hrel _ => hst2 M0 σE σS hrel⟩

end OptProof
end Hpbf
