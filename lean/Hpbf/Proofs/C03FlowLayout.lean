/-
C03 (control flow), stage 1: layout and relocation of `JitGen.compileX86`.

Pure arithmetic on the definitions of `Hpbf/JitGen.lean` and `Hpbf/Asm.lean`; no machine semantics.
* `sizeAll` / `itemsSize` are additive; `locations` lists the partial sums.
* `resolve` keeps the size an `Item` was laid out with (`resolve_size`), so the offsets `locations`
  computed before relocation are the offsets of the final code (`resolveItems_size`).
* `compileX86_some` decomposes a successful compilation; `layout_at` locates the resolved code of one
  bytecode instruction in the final code.
* `layout_jcc_target`, `layout_term_target`: the `rel32` displacements are exact.
* `skip8_body_le`: the body of the only `skip8` the selector produces (bounds-checked `mov`) has at most
  76 bytes for every live bitmap, address and operand, so its `rel8` displacement is exact.
-/
import Hpbf.Proofs.C03Base

namespace Hpbf
namespace C03

open Asm JitGen

/-! ### Sizes are additive -/

theorem foldl_size_acc (xs : List X86) (a : Nat) :
    xs.foldl (fun n x => n + x.size) a = a + sizeAll xs := by
  induction xs generalizing a with
  | nil => simp [sizeAll]
  | cons x xs ih =>
    simp only [List.foldl_cons, sizeAll]
    rw [ih, ih (0 + x.size)]; omega

@[simp] theorem sizeAll_nil : sizeAll [] = 0 := rfl

@[simp] theorem sizeAll_cons (x : X86) (xs : List X86) : sizeAll (x :: xs) = x.size + sizeAll xs := by
  simp only [sizeAll, List.foldl_cons]
  rw [foldl_size_acc]; simp [sizeAll]

@[simp] theorem sizeAll_append (xs ys : List X86) : sizeAll (xs ++ ys) = sizeAll xs + sizeAll ys := by
  induction xs with
  | nil => simp
  | cons x xs ih => simp [ih]; omega

theorem foldl_isize_acc (its : List Item) (a : Nat) :
    its.foldl (fun n it => n + it.size) a = a + itemsSize its := by
  induction its generalizing a with
  | nil => simp [itemsSize]
  | cons x xs ih =>
    simp only [List.foldl_cons, itemsSize]
    rw [ih, ih (0 + x.size)]; omega

@[simp] theorem itemsSize_nil : itemsSize [] = 0 := rfl

@[simp] theorem itemsSize_cons (it : Item) (its : List Item) :
    itemsSize (it :: its) = it.size + itemsSize its := by
  simp only [itemsSize, List.foldl_cons]
  rw [foldl_isize_acc]; simp [itemsSize]

@[simp] theorem itemsSize_append (xs ys : List Item) :
    itemsSize (xs ++ ys) = itemsSize xs + itemsSize ys := by
  induction xs with
  | nil => simp
  | cons x xs ih => simp [ih]; omega

theorem itemsSize_plains (xs : List X86) : itemsSize (plains xs) = sizeAll xs := by
  induction xs with
  | nil => rfl
  | cons x xs ih => simp only [plains, List.map_cons] at ih ⊢; simp [ih, Item.size]

/-! ### Encoded lengths -/

theorem leNat_length (n v : Nat) : (leNat n v).length = n := by
  induction n generalizing v with
  | zero => rfl
  | succ n ih => simp [leNat, ih]

@[simp] theorem le_length (n : Nat) (v : Int) : (le n v).length = n := leNat_length _ _

@[simp] theorem size_jccRel32 (p : JmpPred) (d : Int) : (X86.jccRel32 p d).size = 6 := by
  simp [X86.size, encode]

@[simp] theorem size_jccRel8 (p : JmpPred) (d : Int) : (X86.jccRel8 p d).size = 2 := by
  simp [X86.size, encode]

@[simp] theorem size_jmpRel8 (d : Int) : (X86.jmpRel8 d).size = 2 := by
  simp [X86.size, encode]

theorem rex_length_le (wide isb : Bool) (reg : Option Reg) (rm : RegMem) :
    (rex wide isb reg rm).length ≤ 1 := by
  have h : ∀ (c : Prop) [Decidable c] (b : UInt8), (if c then [b] else ([] : List UInt8)).length ≤ 1 := by
    intro c _ b; split <;> simp
  unfold rex; exact h _ _

theorem modrm_length_le (reg : Option Reg) (op : Nat) (rm : RegMem) : (modrm reg op rm).length ≤ 6 := by
  unfold modrm
  cases rm with
  | reg r => simp
  | mem base idx mul disp =>
    simp only
    rw [List.length_append]
    have h1 : ∀ (c : Prop) [Decidable c] (c' : Prop) [Decidable c'],
        (if c then ([] : List UInt8) else if c' then [u8 disp] else le 4 disp).length ≤ 4 := by
      intro c _ c' _; split
      · simp
      · split <;> simp
    have h2 := h1 ((disp == 0 && (match base with | some b => b.enc != 5 | none => false)) = true)
      ((isSmall disp && base.isSome) = true)
    have h3 : ∀ (l : List UInt8) (k : Nat), l.length ≤ 2 → k ≤ 4 → l.length + k ≤ 6 := by
      intro l k h h'; omega
    refine h3 _ _ ?_ h2
    split
    · split <;> simp
    · simp

theorem size_push_le (r : Reg) : (X86.push r).size ≤ 2 := by
  cases r <;> decide

theorem size_pop_le (r : Reg) : (X86.pop r).size ≤ 2 := by
  cases r <;> decide

theorem size_movRImm64_le (r : Reg) (v : Int) : (X86.movRImm64 r v).size ≤ 10 := by
  simp only [X86.size, encode, List.length_append]
  have := rex_length_le (!(decide (0 ≤ v) && decide (v ≤ 4294967295))) false none (.reg r)
  split
  · simp only [modrm, List.length_append, List.length_cons, List.length_nil, le_length]; omega
  · simp only [List.length_append, List.length_cons, List.length_nil, le_length]; omega

theorem size_lea_le (r : Reg) (a : RegMem) : (X86.lea r a).size ≤ 8 := by
  simp only [X86.size, encode, ins, List.length_append]
  have := rex_length_le true false (some r) a
  have := modrm_length_le (some r) 0 a
  simp only [List.length_cons, List.length_nil]; omega

/-! ### `locations` -/

/-- Byte offset of the code of instruction `i` when the body starts at `start`. -/
def offAt (start : Nat) (body : List (List Item)) (i : Nat) : Nat :=
  start + itemsSize (body.take i).flatten

theorem locations_getElem? (start : Nat) (body : List (List Item)) (i : Nat) :
    (locations start body)[i]? = if i ≤ body.length then some (offAt start body i) else none := by
  induction body generalizing start i with
  | nil =>
    cases i with
    | zero => simp [locations, offAt]
    | succ i => simp [locations]
  | cons its rest ih =>
    cases i with
    | zero => simp [locations, offAt]
    | succ i =>
      simp only [locations, List.getElem?_cons_succ, ih, List.length_cons, Nat.add_le_add_iff_right]
      split
      · simp [offAt, Nat.add_assoc]
      · rfl

theorem locations_length (start : Nat) (body : List (List Item)) :
    (locations start body).length = body.length + 1 := by
  induction body generalizing start with
  | nil => rfl
  | cons its rest ih => simp [locations, ih]

theorem locations_getLast? (start : Nat) (body : List (List Item)) :
    (locations start body).getLast? = some (offAt start body body.length) := by
  rw [List.getLast?_eq_getElem?, locations_length, Nat.add_sub_cancel, locations_getElem?]
  simp

theorem offAt_mono (start : Nat) (body : List (List Item)) {i : Nat} (h : i ≤ body.length) :
    offAt start body i ≤ offAt start body body.length := by
  unfold offAt
  have : body = body.take i ++ body.drop i := (List.take_append_drop i body).symm
  rw [List.take_length]
  conv => rhs; rw [this]
  simp only [List.flatten_append, itemsSize_append]; omega

theorem offAt_succ (start : Nat) (body : List (List Item)) {i : Nat} {its : List Item}
    (h : body[i]? = some its) : offAt start body (i + 1) = offAt start body i + itemsSize its := by
  unfold offAt
  rw [List.take_add_one, h]; simp; omega

/-! ### `resolve` keeps sizes -/

theorem resolve_size {locs : Array Nat} {term pos : Nat} {it : Item} {xs : List X86}
    (h : resolve locs term pos it = some xs) : sizeAll xs = it.size := by
  cases it with
  | plain x => simp [resolve] at h; subst h; simp [Item.size]
  | jccInstr p t =>
    simp only [resolve] at h
    split at h
    · cases h
    · split at h
      · cases h; simp [Item.size]
      · cases h
  | jccTerm p => simp [resolve] at h; subst h; simp [Item.size]
  | skip8 p body => simp [resolve] at h; subst h; simp [Item.size]

theorem resolveItems_append {locs : Array Nat} {term : Nat} (pre post : List Item) (pos : Nat)
    {code : List X86} (h : resolveItems locs term pos (pre ++ post) = some code) :
      ∃ a b, resolveItems locs term pos pre = some a ∧
        resolveItems locs term (pos + itemsSize pre) post = some b ∧ code = a ++ b := by
  induction pre generalizing pos code with
  | nil => exact ⟨[], code, rfl, by simpa using h, rfl⟩
  | cons it pre ih =>
    simp only [List.cons_append, resolveItems] at h
    cases hr : resolve locs term pos it with
    | none => simp [hr] at h
    | some xs =>
      cases hrest : resolveItems locs term (pos + it.size) (pre ++ post) with
      | none => simp [hr, hrest] at h
      | some ys =>
        simp [hr, hrest] at h; subst h
        obtain ⟨a, b, h1, h2, h3⟩ := ih (pos + it.size) hrest
        refine ⟨xs ++ a, b, ?_, ?_, by simp [h3]⟩
        · simp [resolveItems, hr, h1]
        · rw [itemsSize_cons, ← Nat.add_assoc]; exact h2

theorem resolveItems_cons {locs : Array Nat} {term : Nat} (it : Item) (post : List Item) (pos : Nat)
    {code : List X86} (h : resolveItems locs term pos (it :: post) = some code) :
      ∃ a b, resolve locs term pos it = some a ∧
        resolveItems locs term (pos + it.size) post = some b ∧ code = a ++ b := by
  simp only [resolveItems] at h
  cases hr : resolve locs term pos it with
  | none => simp [hr] at h
  | some xs =>
    cases hrest : resolveItems locs term (pos + it.size) post with
    | none => simp [hr, hrest] at h
    | some ys => simp [hr, hrest] at h; exact ⟨xs, ys, rfl, rfl, h.symm⟩

theorem resolveItems_size {locs : Array Nat} {term : Nat} {its : List Item} {pos : Nat} {code : List X86}
    (h : resolveItems locs term pos its = some code) : sizeAll code = itemsSize its := by
  induction its generalizing pos code with
  | nil => simp [resolveItems] at h; subst h; rfl
  | cons it its ih =>
    simp only [resolveItems] at h
    cases hr : resolve locs term pos it with
    | none => simp [hr] at h
    | some xs =>
      cases hrest : resolveItems locs term (pos + it.size) its with
      | none => simp [hr, hrest] at h
      | some ys =>
        simp [hr, hrest] at h; subst h
        simp [resolve_size hr, ih hrest]


/-! ### `compileX86` decomposed -/

variable {w : Nat}

/-- Byte offset of the first body instruction (= size of the prologue). -/
def startOf (p : Bc.Program w) : Nat := sizeAll (prologue p.temps)

/-- `self.locations[i]`: byte offset of the code of bytecode instruction `i`. -/
def locOf (p : Bc.Program w) (body : List (List Item)) (i : Nat) : Nat := offAt (startOf p) body i

/-- `self.term`: byte offset of the termination label (first instruction of `epilogueTail`). -/
def termOf (p : Bc.Program w) (body : List (List Item)) : Nat :=
  locOf p body body.length + sizeAll epilogueHead

/-- `self.locations` as the array `fix_relocations` indexes. -/
def locsOf (p : Bc.Program w) (body : List (List Item)) : Array Nat := (locations (startOf p) body).toArray

theorem locsOf_getElem? (p : Bc.Program w) (body : List (List Item)) (i : Nat) :
    (locsOf p body)[i]? = if i ≤ body.length then some (locOf p body i) else none := by
  simp [locsOf, locations_getElem?, locOf]

/-- The facts `compileX86 … = some code` consists of. -/
structure Compiled (p : Bc.Program w) (limited safe : Bool) (aE aI aO : Nat) (code : List X86) where
  sz : Size
  hsz : Size.ofBits? w = some sz
  body : List (List Item)
  hbody : emitProgram sz p limited safe aE aI aO = some body
  rcode : List X86
  hres : resolveItems (locsOf p body) (termOf p body) (startOf p) body.flatten = some rcode
  hcode : code = prologue p.temps ++ rcode ++ epilogueHead ++ epilogueTail p.temps

theorem compileX86_some {p : Bc.Program w} {limited safe : Bool} {aE aI aO : Nat} {code : List X86}
    (h : compileX86 w p limited safe aE aI aO = some code) :
    Nonempty (Compiled p limited safe aE aI aO code) := by
  unfold compileX86 at h
  cases hsz : Size.ofBits? w with
  | none => simp [hsz] at h
  | some sz =>
    cases hb : emitProgram sz p limited safe aE aI aO with
    | none => simp [hsz, hb] at h
    | some body =>
      simp only [hsz, hb, Option.bind_eq_bind, Option.bind_some, locations_getLast?,
        Option.getD_some] at h
      cases hr : resolveItems (locations (sizeAll (prologue p.temps)) body).toArray
          (offAt (sizeAll (prologue p.temps)) body body.length + sizeAll epilogueHead)
          (sizeAll (prologue p.temps)) body.flatten with
      | none => simp [hr] at h
      | some rcode =>
        simp only [hr, Option.bind_some, Option.some.injEq] at h
        exact ⟨{ sz := sz, hsz := hsz, body := body, hbody := hb, rcode := rcode, hres := hr,
                 hcode := h.symm }⟩

theorem compileX86_of {p : Bc.Program w} {limited safe : Bool} {aE aI aO : Nat} {code : List X86}
    (C : Compiled p limited safe aE aI aO code) : compileX86 w p limited safe aE aI aO = some code := by
  unfold compileX86
  simp only [C.hsz, C.hbody, Option.bind_eq_bind, Option.bind_some, locations_getLast?, Option.getD_some]
  have := C.hres
  simp only [locsOf, termOf, locOf, startOf] at this
  simp [this, C.hcode]


theorem mapM_opt_length {α β : Type} (f : α → Option β) : ∀ (l : List α) (r : List β),
    l.mapM f = some r → r.length = l.length
  | [], r, h => by simp at h; subst h; rfl
  | a :: l, r, h => by
    rw [List.mapM_cons] at h
    cases hfa : f a with
    | none => simp [hfa] at h
    | some b =>
      cases hl : l.mapM f with
      | none => simp [hfa, hl] at h
      | some bs =>
        simp [hfa, hl] at h; subst h
        simp [mapM_opt_length f l bs hl]

theorem mapM_opt_getElem? {α β : Type} (f : α → Option β) : ∀ (l : List α) (r : List β),
    l.mapM f = some r → ∀ (i : Nat) (a : α), l[i]? = some a → ∃ b, r[i]? = some b ∧ f a = some b
  | [], r, h, i, a, ha => by simp at ha
  | a' :: l, r, h, i, a, ha => by
    rw [List.mapM_cons] at h
    cases hfa : f a' with
    | none => simp [hfa] at h
    | some b =>
      cases hl : l.mapM f with
      | none => simp [hfa, hl] at h
      | some bs =>
        simp [hfa, hl] at h; subst h
        cases i with
        | zero => simp at ha; subst ha; exact ⟨b, by simp, hfa⟩
        | succ i =>
          simp at ha
          obtain ⟨b', h1, h2⟩ := mapM_opt_getElem? f l bs hl i a ha
          exact ⟨b', by simpa using h1, h2⟩

variable {w : Nat}

theorem emitProgram_getElem? {sz : Size} {p : Bc.Program w} {limited safe : Bool} {aE aI aO : Nat}
    {body : List (List Item)} (h : emitProgram sz p limited safe aE aI aO = some body)
    {i : Nat} {ins : Bc.Instr w} {lv : Nat} (hi : p.insts[i]? = some ins) (hl : p.live[i]? = some lv) :
    ∃ its, body[i]? = some its ∧
      emitInstr sz limited safe p.minAcc p.maxAcc aE aI aO i lv ins = some its := by
  unfold emitProgram at h
  have hz : ((p.insts.toList.zip p.live.toList).zipIdx)[i]? = some ((ins, lv), i) := by
    rw [List.getElem?_zipIdx]
    have : (p.insts.toList.zip p.live.toList)[i]? = some (ins, lv) := by
      rw [List.getElem?_zip_eq_some]; simp [hi, hl]
    simp [this]
  obtain ⟨b, h1, h2⟩ := mapM_opt_getElem? _ _ _ h i _ hz
  exact ⟨b, h1, h2⟩

theorem emitProgram_length {sz : Size} {p : Bc.Program w} {limited safe : Bool} {aE aI aO : Nat}
    {body : List (List Item)} (h : emitProgram sz p limited safe aE aI aO = some body)
    (hlive : p.live.size = p.insts.size) : body.length = p.insts.size := by
  unfold emitProgram at h
  have := mapM_opt_length _ _ _ h
  simp [hlive] at this; exact this


/-- The resolved code of bytecode instruction `i` sits at byte offset `locOf p body i` of the final code. -/
theorem layout_at {p : Bc.Program w} {limited safe : Bool} {aE aI aO : Nat} {code : List X86}
    (C : Compiled p limited safe aE aI aO code) {i : Nat} {its : List Item} (hi : C.body[i]? = some its) :
    ∃ cpre xs cpost, code = cpre ++ xs ++ cpost ∧ sizeAll cpre = locOf p C.body i ∧
      resolveItems (locsOf p C.body) (termOf p C.body) (locOf p C.body i) its = some xs := by
  have hlt : i < C.body.length := by
    rcases Nat.lt_or_ge i C.body.length with h | h
    · exact h
    · rw [List.getElem?_eq_none h] at hi; cases hi
  have hsplit : C.body.flatten = (C.body.take i).flatten ++ (its ++ (C.body.drop (i + 1)).flatten) := by
    have h1 : C.body = C.body.take i ++ its :: C.body.drop (i + 1) := by
      have := List.getElem?_eq_some_iff.1 hi
      obtain ⟨h', e⟩ := this
      rw [← e, List.getElem_cons_drop, List.take_append_drop]
    conv => lhs; rw [h1]
    simp
  have hres := C.hres
  rw [hsplit] at hres
  obtain ⟨a, b, h1, h2, h3⟩ := resolveItems_append _ _ _ hres
  obtain ⟨xs, c, h4, h5, h6⟩ := resolveItems_append _ _ _ h2
  refine ⟨prologue p.temps ++ a, xs, c ++ epilogueHead ++ epilogueTail p.temps, ?_, ?_, ?_⟩
  · have := C.hcode
    rw [h3, h6] at this; rw [this]; simp
  · rw [sizeAll_append, resolveItems_size h1]; rfl
  · exact h4

/-- After the last instruction come `epilogueHead` and `epilogueTail`. -/
theorem layout_end {p : Bc.Program w} {limited safe : Bool} {aE aI aO : Nat} {code : List X86}
    (C : Compiled p limited safe aE aI aO code) :
    ∃ cpre, code = cpre ++ epilogueHead ++ epilogueTail p.temps ∧
      sizeAll cpre = locOf p C.body C.body.length := by
  refine ⟨prologue p.temps ++ C.rcode, ?_, ?_⟩
  · exact C.hcode
  · rw [sizeAll_append, resolveItems_size C.hres, locOf, offAt, List.take_length]; rfl

theorem code_size {p : Bc.Program w} {limited safe : Bool} {aE aI aO : Nat} {code : List X86}
    (C : Compiled p limited safe aE aI aO code) :
    sizeAll code = termOf p C.body + sizeAll (epilogueTail p.temps) := by
  obtain ⟨cpre, h1, h2⟩ := layout_end C
  have := congrArg sizeAll h1
  rw [this]; simp [termOf, h2]; omega

theorem locOf_le {p : Bc.Program w} (body : List (List Item)) {i : Nat} (h : i ≤ body.length) :
    locOf p body i ≤ locOf p body body.length := offAt_mono _ _ h

/-- One item inside the code of instruction `i`. -/
theorem layout_item {p : Bc.Program w} {limited safe : Bool} {aE aI aO : Nat} {code : List X86}
    (C : Compiled p limited safe aE aI aO code) {i : Nat} {pre post : List Item} {it : Item}
    (hi : C.body[i]? = some (pre ++ it :: post)) :
    ∃ cpre xs cpost, code = cpre ++ xs ++ cpost ∧
      sizeAll cpre = locOf p C.body i + itemsSize pre ∧
      resolve (locsOf p C.body) (termOf p C.body) (locOf p C.body i + itemsSize pre) it = some xs ∧
      locOf p C.body i + itemsSize pre + it.size ≤ locOf p C.body C.body.length := by
  obtain ⟨cpre, xs, cpost, h1, h2, h3⟩ := layout_at C hi
  obtain ⟨a, b, h4, h5, h6⟩ := resolveItems_append _ _ _ h3
  obtain ⟨c, d, h7, h8, h9⟩ := resolveItems_cons _ _ _ h5
  refine ⟨cpre ++ a, c, d ++ cpost, ?_, ?_, h7, ?_⟩
  · rw [h1, h6, h9]; simp
  · rw [sizeAll_append, h2, resolveItems_size h4]
  · have hlt : i < C.body.length := by
      rcases Nat.lt_or_ge i C.body.length with h | h
      · exact h
      · rw [List.getElem?_eq_none h] at hi; cases hi
    have := locOf_le (p := p) C.body (i := i + 1) hlt
    have e : locOf p C.body (i + 1) = locOf p C.body i + itemsSize (pre ++ it :: post) := offAt_succ _ _ hi
    rw [e] at this
    simp at this; omega

/-- (a) A branch item `jccInstr pr target` laid out at byte offset `pos` becomes `jccRel32 pr d` whose
displacement leads, counted from the end of the instruction (`pos + 6`), exactly to the code of bytecode
instruction `target` – as integers, no `i32` wrap – provided the whole code is shorter than `2^31` bytes.
`target` is in range because relocation succeeded. -/
theorem layout_jcc_target' {p : Bc.Program w} {limited safe : Bool} {aE aI aO : Nat} {code : List X86}
    (C : Compiled p limited safe aE aI aO code) (hsmall : sizeAll code < 2 ^ 31)
    {i : Nat} {pre post : List Item} {pr : JmpPred} {target : Int}
    (hi : C.body[i]? = some (pre ++ .jccInstr pr target :: post)) :
    ∃ cpre cpost d, code = cpre ++ .jccRel32 pr d :: cpost ∧
      sizeAll cpre = locOf p C.body i + itemsSize pre ∧
      0 ≤ target ∧ target ≤ C.body.length ∧
      (sizeAll cpre : Int) + 6 + d = locOf p C.body target.toNat := by
  obtain ⟨cpre, xs, cpost, h1, h2, h3, h4⟩ := layout_item C hi
  simp only [resolve] at h3
  split at h3
  · cases h3
  · rename_i hneg
    rw [locsOf_getElem?] at h3
    by_cases hle : target.toNat ≤ C.body.length
    · simp only [hle, if_true, Option.some.injEq] at h3
      subst h3
      have hsz := code_size C
      have hl := locOf_le (p := p) C.body hle
      simp only [Item.size] at h4
      have hT : termOf p C.body = locOf p C.body C.body.length + sizeAll epilogueHead := rfl
      refine ⟨cpre, cpost, _, by rw [h1, List.append_assoc]; rfl, h2, by omega, by omega, ?_⟩
      rw [i32_eq (by push_cast; omega) (by push_cast; omega), h2]
      omega
    · simp [hle] at h3

/-- (a') Likewise for an exit item `jccTerm pr`: the displacement leads to the termination label. -/
theorem layout_term_target' {p : Bc.Program w} {limited safe : Bool} {aE aI aO : Nat} {code : List X86}
    (C : Compiled p limited safe aE aI aO code) (hsmall : sizeAll code < 2 ^ 31)
    {i : Nat} {pre post : List Item} {pr : JmpPred}
    (hi : C.body[i]? = some (pre ++ .jccTerm pr :: post)) :
    ∃ cpre cpost d, code = cpre ++ .jccRel32 pr d :: cpost ∧
      sizeAll cpre = locOf p C.body i + itemsSize pre ∧
      (sizeAll cpre : Int) + 6 + d = termOf p C.body := by
  obtain ⟨cpre, xs, cpost, h1, h2, h3, h4⟩ := layout_item C hi
  simp only [resolve, Option.some.injEq] at h3
  subst h3
  have hsz := code_size C
  simp only [Item.size] at h4
  have hT : termOf p C.body = locOf p C.body C.body.length + sizeAll epilogueHead := rfl
  refine ⟨cpre, cpost, _, by rw [h1, List.append_assoc]; rfl, h2, ?_⟩
  rw [i32_eq (by push_cast; omega) (by push_cast; omega), h2]
  omega


/-! ### (b) the `skip8` body -/

theorem sizeAll_reverse (xs : List X86) : sizeAll xs.reverse = sizeAll xs := by
  induction xs with
  | nil => rfl
  | cons x xs ih => simp [ih]; omega

theorem mapM_tmpReg_lt : ∀ (l : List Nat) (rs : List Reg), l.mapM tmpReg = some rs → ∀ x ∈ l, x < 11
  | [], _, _, x, hx => by simp at hx
  | a :: l, rs, h, x, hx => by
    rw [List.mapM_cons] at h
    cases ha : tmpReg a with
    | none => simp [ha] at h
    | some b =>
      cases hl : l.mapM tmpReg with
      | none => simp [ha, hl] at h
      | some bs =>
        rcases List.mem_cons.1 hx with rfl | hx
        · exact (tmpReg_eq_some.1 ha).1
        · exact mapM_tmpReg_lt l bs hl x hx

/-- Bytes of `push`/`pop` of the register of temporary `l`. -/
def pushW (l : Nat) : Nat := match tmpReg l with | some r => (X86.push r).size | none => 0
def popW (l : Nat) : Nat := match tmpReg l with | some r => (X86.pop r).size | none => 0

theorem mapM_push_size : ∀ (L : List Nat) (rs : List Reg), L.mapM tmpReg = some rs →
    sizeAll (rs.map .push) = (L.map pushW).sum ∧ sizeAll (rs.map .pop) = (L.map popW).sum
  | [], rs, h => by simp at h; subst h; simp
  | a :: l, rs, h => by
    rw [List.mapM_cons] at h
    cases ha : tmpReg a with
    | none => simp [ha] at h
    | some b =>
      cases hl : l.mapM tmpReg with
      | none => simp [ha, hl] at h
      | some bs =>
        simp [ha, hl] at h; subst h
        have := mapM_push_size l bs hl
        simp [pushW, popW, ha, this.1, this.2]

theorem sum_filter_mono (g : Nat → Nat) (q r : Nat → Bool) :
    ∀ (l : List Nat), (∀ x ∈ l, q x = true → r x = true) →
      ((l.filter q).map g).sum ≤ ((l.filter r).map g).sum
  | [], _ => by simp
  | a :: l, h => by
    have ih := sum_filter_mono g q r l (fun x hx => h x (List.mem_cons_of_mem _ hx))
    have ha := h a (List.mem_cons_self)
    simp only [List.filter_cons]
    cases hq : q a with
    | true => simp [ha hq]; omega
    | false =>
      cases hr : r a with
      | true => simp; omega
      | false => simpa using ih

/-- The saved registers are among `rsi rdi rdx r8 r9 r10 r11` (temporaries 4..10): at most seven, whose
pushes (pops) take at most 11 bytes. -/
theorem savedRegs_bounds {live : Nat} {rs : List Reg} (h : savedRegs live = some rs) :
    rs.length ≤ 7 ∧ sizeAll (rs.map .push) ≤ 11 ∧ sizeAll (rs.map .pop) ≤ 11 := by
  unfold savedRegs at h
  have hlen := mapM_opt_length _ _ _ h
  have hlt := mapM_tmpReg_lt _ _ h
  have hsz := mapM_push_size _ _ h
  have hmono : ∀ x ∈ List.range 16, (decide (4 ≤ x) && live.testBit x) = true →
      (decide (4 ≤ x) && decide (x < 11)) = true := by
    intro x hx hp
    have := hlt x (List.mem_filter.2 ⟨hx, hp⟩)
    simp only [Bool.and_eq_true, decide_eq_true_eq] at hp ⊢
    exact ⟨hp.1, this⟩
  refine ⟨?_, ?_, ?_⟩
  · rw [hlen]
    have h1 := sum_filter_mono (fun _ => 1) _ _ _ hmono
    have e : ∀ l : List Nat, (l.map (fun _ => 1)).sum = l.length := by
      intro l; induction l with
      | nil => rfl
      | cons a l ih => simp [ih]; omega
    rw [e, e] at h1
    exact Nat.le_trans h1 (by decide)
  · rw [hsz.1]; exact Nat.le_trans (sum_filter_mono pushW _ _ _ hmono) (by decide)
  · rw [hsz.2]; exact Nat.le_trans (sum_filter_mono popW _ _ _ hmono) (by decide)

theorem size_st64_cxt16 : (st64 (.mem (some cxt) none 1 16) scr0).size = 4 := by decide
theorem size_mov_rdi_cxt : (st64 (.reg .rdi) cxt).size = 3 := by decide
theorem size_mov_rsi_0 : (X86.movRImm64 .rsi 0).size = 6 := by decide
theorem size_mov_rdx_1 : (X86.movRImm64 .rdx 1).size = 6 := by decide
theorem size_call_scr0 : (X86.callInd (.reg scr0)).size = 2 := by decide
theorem size_ld_memr : (mov64 memr (.mem (some cxt) none 1 0)).size = 3 := by decide
theorem size_ld_scr0_16 : (mov64 scr0 (.mem (some cxt) none 1 16)).size = 4 := by decide
theorem size_sub_rsp_8 : (X86.subRmImm (.reg .rsp) 8).size = 4 := by decide
theorem size_add_rsp_8 : (addImm64 (.reg .rsp) 8).size = 4 := by decide

theorem preCall_size_le {live : Nat} {xs : List X86} (h : preCall live = some xs) : sizeAll xs ≤ 15 := by
  unfold preCall at h
  cases hs : savedRegs live with
  | none => simp [hs] at h
  | some rs =>
    simp only [hs, Option.bind_eq_bind, Option.bind_some, Option.some.injEq] at h; subst h
    have := savedRegs_bounds hs
    rw [sizeAll_append]
    split
    · simp [size_sub_rsp_8]; omega
    · simp; omega

theorem postCall_size_le {live : Nat} {xs : List X86} (h : postCall live = some xs) : sizeAll xs ≤ 15 := by
  unfold postCall at h
  cases hs : savedRegs live with
  | none => simp [hs] at h
  | some rs =>
    simp only [hs, Option.bind_eq_bind, Option.bind_some, Option.some.injEq] at h; subst h
    have := savedRegs_bounds hs
    rw [sizeAll_append, List.map_reverse, sizeAll_reverse]
    split
    · simp [size_add_rsp_8]; omega
    · simp; omega

/-- The body the bounds-checked `mov` jumps over. -/
def movBody (sz : Size) (aE : Nat) (probe : Int) (pre post : List X86) : List X86 :=
  [st64 (.mem (some cxt) none 1 16) scr0] ++ pre ++
    [st64 (.reg .rdi) cxt, .movRImm64 .rsi 0, .movRImm64 .rdx 1,
     .movRImm64 scr0 (BitVec.ofNat 64 aE).toInt, .callInd (.reg scr0)] ++ post ++
    [mov64 memr (.mem (some cxt) none 1 0), mov64 scr0 (.mem (some cxt) none 1 16),
     .lea memr (.mem (some memr) (some scr0) sz.bytes ((sz.bytes : Int) * i32 (-probe)))]

theorem movBody_size_le (sz : Size) (aE : Nat) (probe : Int) {live : Nat} {pre post : List X86}
    (hpre : preCall live = some pre) (hpost : postCall live = some post) :
    sizeAll (movBody sz aE probe pre post) ≤ 76 := by
  have h1 := preCall_size_le hpre
  have h2 := postCall_size_le hpost
  have h3 := size_movRImm64_le scr0 (BitVec.ofNat 64 aE).toInt
  have h4 := size_lea_le memr (.mem (some memr) (some scr0) sz.bytes ((sz.bytes : Int) * i32 (-probe)))
  simp only [movBody, sizeAll_append, sizeAll_cons, sizeAll_nil, size_st64_cxt16, size_mov_rdi_cxt,
    size_mov_rsi_0, size_mov_rdx_1, size_call_scr0, size_ld_memr, size_ld_scr0_16]
  omega

theorem not_mem_plains_skip8 (xs : List X86) (p : JmpPred) (b : List X86) : Item.skip8 p b ∉ plains xs := by
  simp [plains]

/-- Shape of the items of a bounds-checked `mov`. -/
theorem emitInstrRaw_skip8 {sz : Size} {limited safe : Bool} {minAcc maxAcc : Int} {aE aI aO i live : Nat}
    {ins : Bc.Instr w} {its : List Item}
    (h : emitInstrRaw sz limited safe minAcc maxAcc aE aI aO i live ins = some its)
    {pr : JmpPred} {body : List X86} (hm : Item.skip8 pr body ∈ its) :
    ∃ shift pre post, ins = .mov shift ∧ safe = true ∧ pr = .below ∧ preCall live = some pre ∧
      postCall live = some post ∧
      body = movBody sz aE (if shift < 0 then minAcc else maxAcc) pre post := by
  cases ins with
  | noop => simp [emitInstrRaw] at h; subst h; simp at hm
  | scan c s => simp [emitInstrRaw] at h
  | mov shift =>
    simp only [emitInstrRaw] at h
    cases safe with
    | false => simp at h; subst h; simp at hm
    | true =>
      simp only [if_true] at h
      cases hpre : preCall live with
      | none => simp [hpre] at h
      | some pre =>
        cases hpost : postCall live with
        | none => simp [hpre, hpost] at h
        | some post =>
          simp only [hpre, hpost, Option.bind_eq_bind, Option.bind_some, Option.some.injEq] at h
          subst h
          rcases List.mem_append.1 hm with hm | hm
          · exact absurd hm (not_mem_plains_skip8 _ _ _)
          · simp only [List.mem_singleton, Item.skip8.injEq] at hm
            exact ⟨shift, pre, post, rfl, rfl, hm.1, rfl, rfl, by rw [hm.2]; simp [movBody]⟩
  | inp dst =>
    simp only [emitInstrRaw] at h
    cases hpre : preCall live with
    | none => simp [hpre] at h
    | some pre =>
      cases hpost : postCall live with
      | none => simp [hpre, hpost] at h
      | some post =>
        simp only [hpre, hpost, Option.bind_eq_bind, Option.bind_some, Option.some.injEq] at h
        subst h
        rcases List.mem_append.1 hm with hm | hm
        · exact absurd hm (not_mem_plains_skip8 _ _ _)
        · simp at hm
  | out src =>
    simp only [emitInstrRaw] at h
    cases hpre : preCall live with
    | none => simp [hpre] at h
    | some pre =>
      cases hpost : postCall live with
      | none => simp [hpre, hpost] at h
      | some post =>
        simp only [hpre, hpost, Option.bind_eq_bind, Option.bind_some, Option.some.injEq] at h
        subst h
        rcases List.mem_append.1 hm with hm | hm
        · exact absurd hm (not_mem_plains_skip8 _ _ _)
        · simp at hm
  | brz c o =>
    simp only [emitInstrRaw, Option.some.injEq] at h; subst h
    rcases List.mem_append.1 hm with hm | hm
    · split at hm <;> simp [limitCheck] at hm
    · simp at hm
  | brnz c o =>
    simp only [emitInstrRaw, Option.some.injEq] at h; subst h
    rcases List.mem_append.1 hm with hm | hm
    · split at hm <;> simp [limitCheck] at hm
    · simp at hm
  | add d a b =>
    simp only [emitInstrRaw, Option.map_eq_some_iff] at h
    obtain ⟨xs, -, rfl⟩ := h; exact absurd hm (not_mem_plains_skip8 _ _ _)
  | sub d a b =>
    simp only [emitInstrRaw, Option.map_eq_some_iff] at h
    obtain ⟨xs, -, rfl⟩ := h; exact absurd hm (not_mem_plains_skip8 _ _ _)
  | mul d a b =>
    simp only [emitInstrRaw, Option.map_eq_some_iff] at h
    obtain ⟨xs, -, rfl⟩ := h; exact absurd hm (not_mem_plains_skip8 _ _ _)
  | copy d s =>
    simp only [emitInstrRaw, Option.map_eq_some_iff] at h
    obtain ⟨xs, -, rfl⟩ := h; exact absurd hm (not_mem_plains_skip8 _ _ _)

theorem emitInstr_raw {sz : Size} {limited safe : Bool} {minAcc maxAcc : Int} {aE aI aO i live : Nat}
    {ins : Bc.Instr w} {its : List Item}
    (h : emitInstr sz limited safe minAcc maxAcc aE aI aO i live ins = some its) :
    emitInstrRaw sz limited safe minAcc maxAcc aE aI aO i live ins = some its ∧
      its.all Item.fits = true := by
  unfold emitInstr at h
  split at h
  · split at h
    · cases h; exact ⟨by assumption, by assumption⟩
    · cases h
  · cases h

theorem i8_small {n : Nat} (h : n ≤ 127) : i8 (n : Int) = n := by
  unfold i8; exact wrapS_eq (by omega) (by omega)

/-- (b) Every `skip8 pr body` the selector produces – for EVERY live bitmap for which the register saving
code exists, every width, address of the runtime function, shift and probe – has a body of at most 76
bytes; its `rel8` displacement `(len - jmp_start) as u8` is therefore exact. -/
theorem skip8_body_le {sz : Size} {limited safe : Bool} {minAcc maxAcc : Int} {aE aI aO i live : Nat}
    {ins : Bc.Instr w} {its : List Item}
    (h : emitInstr sz limited safe minAcc maxAcc aE aI aO i live ins = some its)
    {pr : JmpPred} {body : List X86} (hm : Item.skip8 pr body ∈ its) :
    sizeAll body ≤ 76 ∧ i8 (sizeAll body) = sizeAll body := by
  obtain ⟨shift, pre, post, -, -, -, hpre, hpost, rfl⟩ := emitInstrRaw_skip8 (emitInstr_raw h).1 hm
  have := movBody_size_le sz aE (if shift < 0 then minAcc else maxAcc) hpre hpost
  exact ⟨this, i8_small (by omega)⟩

/-- The bound is attained: all seven caller-saved temporaries live, a 64-bit runtime address, 64-bit
cells and a probe displacement that needs four bytes. -/
example : sizeAll (movBody .b64 0x7f0000000000 (-100)
    ((preCall 2032).getD []) ((postCall 2032).getD [])) = 76 := by decide

/-! ### The epilogue -/

/-- The normal exit sets `rax = 1` and jumps over exactly the `mov rax, 0` the termination label starts
with. -/
theorem epilogueHead_eq : epilogueHead = [.movRImm64 .rax 1, .jmpRel8 6] := by decide

theorem epilogueHead_skips (temps : Nat) :
    ∃ rest, epilogueTail temps = .movRImm64 .rax 0 :: rest ∧ (X86.movRImm64 .rax 0).size = 6 :=
  ⟨_, rfl, by decide⟩

end C03
end Hpbf
