/-
Rebuild-round proofs, part 0: the association-list maps (`mGet`/`mSet`/`mErase`) and sets (`sIns`/`sRem`)
of `Hpbf/Opt.lean`.  `Sorted m` = keys strictly ascending (the canonical representation; needed for
`mErase`).
-/
import Hpbf.Proofs.OptSem
import Hpbf.Proofs.C01DseSem
import Hpbf.Proofs.C15

namespace Hpbf
namespace OptProof
open Opt OptSem

variable {w : Nat} {ν : Type}

/-- Keys strictly ascending. -/
def Sorted (m : List (Int × ν)) : Prop := (m.map (·.1)).Pairwise (· < ·)

theorem sorted_nil : Sorted ([] : List (Int × ν)) := by simp [Sorted]

theorem sorted_cons {k : Int} {v : ν} {m : List (Int × ν)} :
    Sorted ((k, v) :: m) ↔ (∀ kv ∈ m, k < kv.1) ∧ Sorted m := by
  simp [Sorted, List.pairwise_cons]

theorem mGet_nil (k : Int) : mGet ([] : List (Int × ν)) k = none := rfl

theorem mGet_cons (k' : Int) (v : ν) (m : List (Int × ν)) (k : Int) :
    mGet ((k', v) :: m) k = if k' = k then some v else mGet m k := rfl

theorem mGet_mSet (m : List (Int × ν)) (k : Int) (v : ν) (k' : Int) :
    mGet (mSet m k v) k' = if k = k' then some v else mGet m k' := by
  induction m with
  | nil => simp [mSet, mGet]
  | cons kv m ih =>
    obtain ⟨a, b⟩ := kv
    simp only [mSet]
    by_cases h1 : a = k
    · subst h1; simp only [if_true, mGet]; split <;> simp_all
    · simp only [h1, if_false]
      by_cases h2 : k < a
      · simp only [h2, if_true, mGet]
      · simp only [h2, if_false, mGet, ih]
        by_cases h3 : a = k'
        · subst h3
          have : ¬ k = a := fun e => h1 e.symm
          simp [this]
        · simp [h3]

theorem mGet_mSet_same (m : List (Int × ν)) (k : Int) (v : ν) : mGet (mSet m k v) k = some v := by
  simp [mGet_mSet]

theorem mGet_mSet_ne (m : List (Int × ν)) (k : Int) (v : ν) (k' : Int) (h : k ≠ k') :
    mGet (mSet m k v) k' = mGet m k' := by
  simp [mGet_mSet, h]

theorem mem_keys_mSet (m : List (Int × ν)) (k : Int) (v : ν) (x : Int) :
    x ∈ (mSet m k v).map (·.1) ↔ x = k ∨ x ∈ m.map (·.1) := by
  induction m with
  | nil => simp [mSet]
  | cons kv m ih =>
    obtain ⟨a, b⟩ := kv
    simp only [mSet]
    by_cases h1 : a = k
    · subst h1; simp
    · simp only [h1, if_false]
      by_cases h2 : k < a
      · simp [h2]
      · simp only [h2, if_false, List.map_cons, List.mem_cons, ih]
        constructor
        · rintro (h | h | h)
          · exact Or.inr (Or.inl h)
          · exact Or.inl h
          · exact Or.inr (Or.inr h)
        · rintro (h | h | h)
          · exact Or.inr (Or.inl h)
          · exact Or.inl h
          · exact Or.inr (Or.inr h)

theorem sorted_mSet {m : List (Int × ν)} (h : Sorted m) (k : Int) (v : ν) : Sorted (mSet m k v) := by
  induction m with
  | nil => simp [mSet, Sorted]
  | cons kv m ih =>
    obtain ⟨a, b⟩ := kv
    rw [sorted_cons] at h
    simp only [mSet]
    by_cases h1 : a = k
    · subst h1; simp only [if_true]; rw [sorted_cons]; exact h
    · simp only [h1, if_false]
      by_cases h2 : k < a
      · simp only [h2, if_true]
        rw [sorted_cons]
        refine ⟨?_, sorted_cons.2 h⟩
        intro kv hkv
        rcases List.mem_cons.1 hkv with e | e
        · subst e; exact h2
        · exact Int.lt_trans h2 (h.1 kv e)
      · simp only [h2, if_false]
        rw [sorted_cons]
        refine ⟨?_, ih h.2⟩
        intro kv hkv
        have : kv.1 ∈ (mSet m k v).map (·.1) := List.mem_map.2 ⟨kv, hkv, rfl⟩
        rw [mem_keys_mSet] at this
        rcases this with e | e
        · rw [e]; omega
        · obtain ⟨kv', hkv', e'⟩ := List.mem_map.1 e
          rw [← e']; exact h.1 kv' hkv'

theorem mGet_none_of_lt {m : List (Int × ν)} {k : Int} (h : ∀ kv ∈ m, k < kv.1) : mGet m k = none := by
  induction m with
  | nil => rfl
  | cons kv m ih =>
    obtain ⟨a, b⟩ := kv
    have h1 : k < a := h (a, b) (by simp)
    have : ¬ a = k := by omega
    simp only [mGet, this, if_false]
    exact ih (fun kv hkv => h kv (by simp [hkv]))

theorem mGet_mErase {m : List (Int × ν)} (h : Sorted m) (k k' : Int) :
    mGet (mErase m k) k' = if k = k' then none else mGet m k' := by
  induction m with
  | nil => simp [mErase, mGet]
  | cons kv m ih =>
    obtain ⟨a, b⟩ := kv
    rw [sorted_cons] at h
    simp only [mErase]
    by_cases h1 : a = k
    · subst h1
      simp only [if_true, mGet]
      by_cases h2 : a = k'
      · subst h2; simp only [if_true]; exact mGet_none_of_lt h.1
      · simp [h2]
    · simp only [h1, if_false, mGet, ih h.2]
      by_cases h3 : a = k'
      · subst h3
        have : ¬ k = a := fun e => h1 e.symm
        simp [this]
      · simp [h3]

theorem mem_keys_mErase_sub (m : List (Int × ν)) (k : Int) (kv : Int × ν) (h : kv ∈ mErase m k) : kv ∈ m := by
  induction m with
  | nil => simp [mErase] at h
  | cons ab m ih =>
    obtain ⟨a, b⟩ := ab
    simp only [mErase] at h
    by_cases h1 : a = k
    · simp only [h1, if_true] at h; exact List.mem_cons_of_mem _ h
    · simp only [h1, if_false] at h
      rcases List.mem_cons.1 h with e | e
      · rw [e]; simp
      · exact List.mem_cons_of_mem _ (ih e)

theorem sorted_mErase {m : List (Int × ν)} (h : Sorted m) (k : Int) : Sorted (mErase m k) := by
  induction m with
  | nil => simp [mErase, Sorted]
  | cons kv m ih =>
    obtain ⟨a, b⟩ := kv
    rw [sorted_cons] at h
    simp only [mErase]
    by_cases h1 : a = k
    · simp only [h1, if_true]; exact h.2
    · simp only [h1, if_false]
      rw [sorted_cons]
      exact ⟨fun kv hkv => h.1 kv (mem_keys_mErase_sub m k kv hkv), ih h.2⟩

theorem mGet_some_mem {m : List (Int × ν)} {k : Int} {v : ν} (h : mGet m k = some v) : (k, v) ∈ m := by
  induction m with
  | nil => simp [mGet] at h
  | cons kv m ih =>
    obtain ⟨a, b⟩ := kv
    simp only [mGet] at h
    by_cases h1 : a = k
    · simp only [h1, if_true, Option.some.injEq] at h; subst h1; subst h; simp
    · simp only [h1, if_false] at h; exact List.mem_cons_of_mem _ (ih h)

theorem mGet_of_mem {m : List (Int × ν)} (hs : Sorted m) {k : Int} {v : ν} (h : (k, v) ∈ m) :
    mGet m k = some v := by
  induction m with
  | nil => simp at h
  | cons kv m ih =>
    obtain ⟨a, b⟩ := kv
    rw [sorted_cons] at hs
    simp only [mGet]
    rcases List.mem_cons.1 h with e | e
    · cases e; simp
    · have : a < k := hs.1 (k, v) e
      have h1 : ¬ a = k := by omega
      simp only [h1, if_false]; exact ih hs.2 e

theorem mGet_isSome_iff (m : List (Int × ν)) (k : Int) : (mGet m k).isSome ↔ k ∈ mKeys m := by
  induction m with
  | nil => simp [mGet, mKeys]
  | cons kv m ih =>
    obtain ⟨a, b⟩ := kv
    simp only [mGet, mKeys, List.map_cons, List.mem_cons]
    by_cases h1 : a = k
    · simp [h1]
    · simp only [h1, if_false]
      have : ¬ k = a := fun e => h1 e.symm
      simp only [this, false_or]
      exact ih

theorem mHas_iff (m : List (Int × ν)) (k : Int) : mHas m k = true ↔ ∃ v, mGet m k = some v := by
  unfold mHas; cases mGet m k <;> simp

theorem mHas_false_iff (m : List (Int × ν)) (k : Int) : mHas m k = false ↔ mGet m k = none := by
  unfold mHas; cases mGet m k <;> simp

theorem mGet_none_iff (m : List (Int × ν)) (k : Int) : mGet m k = none ↔ k ∉ mKeys m := by
  rw [← mGet_isSome_iff]; cases mGet m k <;> simp

theorem nodup_keys_of_sorted {m : List (Int × ν)} (h : Sorted m) : (mKeys m).Nodup := by
  unfold Sorted at h
  unfold mKeys
  exact h.imp (fun hab => by omega)

/-! ### sets -/

theorem mem_sIns {s : List Int} {k x : Int} : x ∈ sIns s k ↔ x = k ∨ x ∈ s := by
  induction s with
  | nil => simp [sIns]
  | cons a s ih =>
    simp only [sIns]
    by_cases h1 : a = k
    · subst h1; simp
    · simp only [h1, if_false]
      by_cases h2 : k < a
      · simp [h2]
      · simp only [h2, if_false, List.mem_cons, ih]
        constructor
        · rintro (h | h | h)
          · exact Or.inr (Or.inl h)
          · exact Or.inl h
          · exact Or.inr (Or.inr h)
        · rintro (h | h | h)
          · exact Or.inr (Or.inl h)
          · exact Or.inl h
          · exact Or.inr (Or.inr h)

theorem mem_sRem {s : List Int} {k x : Int} : x ∈ sRem s k ↔ x ∈ s ∧ x ≠ k := by
  simp [sRem]

theorem contains_iff {s : List Int} {v : Int} : s.contains v = true ↔ v ∈ s := by simp

theorem isEmpty_iff_nil {α : Type} (l : List α) : l.isEmpty = true ↔ l = [] := by
  cases l <;> simp

/-! ### `Mem` helpers -/

/-- Point update of a memory. -/
def upd (m : Mem w) (k : Int) (x : BitVec w) : Mem w := fun v => if v = k then x else m v

theorem upd_same (m : Mem w) (k : Int) (x : BitVec w) : upd m k x k = x := by simp [upd]

theorem upd_ne (m : Mem w) (k : Int) (x : BitVec w) (v : Int) (h : v ≠ k) : upd m k x v = m v := by
  simp [upd, h]

theorem ev_congr (e : Expr w) (f g : Mem w) (h : ∀ v ∈ Expr.variables e, f v = g v) : ev e f = ev e g :=
  C01Dse.evaluate_congr f g e h

end OptProof
end Hpbf
