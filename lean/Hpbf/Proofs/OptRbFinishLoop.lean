/-
Rebuild-round proofs, stage 3: `finishLoop` (the `Loop` / `If` arm of `rebuild_block` after the body has been
rebuilt) simulates the source block: `finishLoop_ok`.  Three cases: the block is known never to be entered; the
child moves the pointer (no loop motion); balanced child (loop motion, through the bridge to the loop pack).
-/
import Hpbf.Proofs.OptRbMotion5
import Hpbf.Proofs.OptRbFoot9

namespace Hpbf
namespace OptProof
open Opt OptSem Ir

variable {w : Nat}

/-! ### without loop motion the program of `finishEnd` is the block itself -/

theorem exec_calc_nil_fin {σ σ' : State w} (h : Exec [(.calc [] : Instr w)] σ (.fin σ')) : σ' = σ := by
  rw [exec_calc_iff] at h
  rcases (exec_nil_iff _ _).1 h with h' | h'
  · cases h'
  · cases h'; rfl

theorem endSrc_nil_sim (isLoop : Bool) (cS shS : Int) (bodyS : List (Instr w)) (oS : Bool) (L : OptLoop w)
    (σ : State w) :
    Sim (fun a b => a = b) [blockInstr isLoop cS shS bodyS oS] (endSrc isLoop cS shS bodyS oS L [] []) σ σ := by
  unfold endSrc
  have hcalc : ([Instr.calc []] : List (Instr w)) = ([[]] : List (List (Int × Expr w))).map Instr.calc := rfl
  rw [hcalc]
  refine Sim.calcs_right [[]] ?_
  show Sim _ _ _ σ σ
  split
  · have : Sim (fun a b => a = b) ([blockInstr isLoop cS shS bodyS oS] ++ [])
        ([blockInstr isLoop cS shS bodyS oS] ++ [.calc []]) σ σ := by
      refine Sim.append (Sim.refl_of _ σ (Q := fun a b => a = b) (fun _ => rfl)) ?_
      rintro a b rfl
      exact Sim.of_atomic (atomic_calcs ([] : List (List (Int × Expr w))))
        (atomic_calcs ([[]] : List (List (Int × Expr w)))) rfl rfl rfl rfl (fun _ => rfl)
    rwa [List.append_nil] at this
  · by_cases hz : σ.rd cS = 0#w
    · exact Sim.both_skip (isLoop' := false) (o' := oS) hz hz rfl rfl
    · refine Sim.tgt_ifnz_once hz ?_
      have : Sim (fun a b => a = b.mov 0) ([blockInstr isLoop cS shS bodyS oS] ++ [])
          ([blockInstr isLoop cS shS bodyS oS] ++ [.calc []]) σ σ := by
        refine Sim.append (Sim.refl_of _ σ (Q := fun a b => a = b) (fun _ => rfl)) ?_
        rintro a b rfl
        exact Sim.of_atomic (atomic_calcs ([] : List (List (Int × Expr w))))
          (atomic_calcs ([[]] : List (List (Int × Expr w)))) rfl rfl rfl rfl (fun _ => (mov_zero _).symm)
      rwa [List.append_nil] at this

/-- The child's representation, with the parent forgotten. -/
theorem childRep_forget {Gc : State w → Prop} {shP shC : Int} {s : Rebuild w} {ps : List (Rebuild w)}
    {sub0 sub : Rebuild w} {bodyS : List (Instr w)}
    (hall : StepAll Gc shP shC (s :: ps) sub0 sub bodyS sub.insts) :
    ChildRep Gc shP shC (s :: ps) sub0 [] (forgetParent sub) bodyS := by
  intro M0 σE σS hrel hg
  obtain ⟨hs, hb⟩ := hall.step.2 M0 σE σS hrel hg
  refine ⟨hs.mono ?_, hb⟩
  rintro a b ⟨M0', hr', hk'⟩
  exact ⟨M0', hr'.forget, hk'⟩

/-! ### the loop-motion phase, cut -/

theorem finishMotionK_cut {s : Rebuild w} {ps : List (Rebuild w)} {sub : Rebuild w} {cond : Int}
    {L : OptLoop w} {k : MidRes w → M (Rebuild w)} {os os' : Orders} {s' : Rebuild w}
    (hr : (finishMotionK s ps sub cond L k).run os = .ok (s', os')) :
    ∃ C sub1 B D A os2 sub' os3,
      constantsAmong s ps sub (sIns (possibleReads sub) cond ++
        (pendingSorted sub sub).filter (fun x => !(sIns (possibleReads sub) cond).contains x)) = .ok C ∧
      ((pendingSorted sub sub).foldlM
        (OptLoop.motionStepM s ps (sIns (possibleReads sub) cond) C
          (linearAmong s ps sub C (sIns (possibleReads sub) cond ++ pendingSorted sub sub))
          ((pendingSorted sub sub).filter (fun x => !C.contains x)) L) (sub, [], [], [])).run os
        = .ok ((sub1, B, D, A), os2) ∧
      (performAll sub1 (s :: ps) 0 D).run os2 = .ok (sub', os3) ∧
      (k (sub', B, A, C)).run os3 = .ok (s', os') := by
  unfold finishMotionK at hr
  dsimp only at hr
  rw [run_bind_ok] at hr
  obtain ⟨constant, os1, h1, h2⟩ := hr
  obtain ⟨hC, hos⟩ := run_monadLift_ok.1 h1
  simp only at hC hos
  subst hos
  rw [run_bind_ok] at h2
  obtain ⟨⟨sub1, B, D, A⟩, os2, h3, h4⟩ := h2
  dsimp only at h4
  rw [run_bind_ok] at h4
  obtain ⟨sub2, os3, h5, h6⟩ := h4
  rw [run_bind_ok] at h6
  obtain ⟨x, os4, h7, h8⟩ := h6
  rw [run_pure] at h7
  cases h7
  exact ⟨constant, sub1, B, D, A, os2, sub2, os3, hC, h3, h5, h8⟩

/-! ### `finishLoop` -/

section FinishLoop
variable {G Gc : State w → Prop} {shP shC shS cS : Int} {bodyS : List (Instr w)} {isLoop oS : Bool}
  {s : Rebuild w} {ps : List (Rebuild w)} {sub0 sub : Rebuild w} {cond : Int} {os os' : Orders} {s' : Rebuild w}

theorem finishLoop_ok (hw : 0 < w)
    (hr : (finishLoop s ps sub cond isLoop).run os = .ok (s', os'))
    (hwf : Wf s) (hcs : CanonSt s) (hsf : ShiftFree s) (hcond : cond = cS + shP)
    (hsh : shC + shS = (sub.shift - s.shift) + shP)
    (hall : StepAll Gc shP shC (s :: ps) sub0 sub bodyS sub.insts)
    (hi0 : sub0.insts = []) (hw0 : sub0.written = []) (hp0 : sub0.pending = [])
    (hentry : ∀ σE σS : State w, SameMem shP σS σE → σS.rd cS ≠ 0#w → Gc σS →
      ∃ M0, RelAt shP sub0 (s :: ps) M0 σE σS)
    (hGcAll : ∀ σ, Gc σ)
    (hcsub : CanonSt sub) (hkvs : KnownVars sub) (hreads : OptLoop.SAsc sub.reads) :
    Wf s' ∧ s'.anal = s.anal ∧ s'.cond = s.cond ∧
    ∃ shE new, (s'.noReturn = false → shE = shP + (s'.shift - s.shift)) ∧ s'.insts = s.insts ++ new ∧
      StepNG G shP shE ps s s' [blockInstr isLoop cS shS bodyS oS] new ∧
      FootAll (ValidG G shP s ps) s s' new := by
  have hrepC : ChildRep Gc shP shC (s :: ps) sub0 (s :: ps) sub bodyS := hall.step.2
  have hGcH : ∀ (σS : State w) k σk, Head cS shS bodyS σS k σk → σk.rd cS ≠ 0#w → Gc σk :=
    fun _ _ σk _ _ => hGcAll σk
  have hfacts : ∀ M0 σE σS, RelAt shP s ps M0 σE σS →
      FactsAt isLoop cS shS bodyS oS (analyzeLoop s ps sub cond isLoop) σS :=
    fun M0 σE σS hrel => factsAt_real hw hrel hcond hsh hrepC hentry hw0 (hGcH σS)
  have hwfsub : Wf sub := hall.wf
  rw [finishLoop_cut] at hr
  split at hr
  · -- never entered
    rename_i hnever
    rw [run_pure] at hr
    cases hr
    refine ⟨hwf, rfl, rfl, shP, [], fun _ => by omega, by simp, ⟨fun h => h, ?_⟩, ?_⟩
    · intro M0 σE σS hrel _
      refine ⟨Sim.src_block_skip ((hfacts M0 σE σS hrel).never hnever) ⟨M0, hrel, fun _ => ⟨rfl, rfl⟩⟩
        hrel.tr.symm, fun hb => by cases hb⟩
    · have := StepAll.refl G shP ps hwf
      exact ⟨this.foot, this.bad, this.frame, this.mono, this.keys⟩
  · split at hr
    · -- the child moves the pointer: no loop motion
      rename_i hnever hshift
      rw [run_bind_ok] at hr
      obtain ⟨x, os1, h1, h2⟩ := hr
      rw [run_pure] at h1
      cases h1
      have hLF : ∀ s1 os1, (performAll s ps 0 []).run os = .ok (s1, os1) →
          LoopFacts G shP s1 ps isLoop cS shS bodyS oS (analyzeLoop s ps sub cond isLoop) [] := by
        intro s1 os1 hp
        rw [performAll_nil, run_pure] at hp
        cases hp
        refine ⟨fun h M0 σE σS hrel _ => (hfacts M0 σE σS hrel).alo h,
          fun h hi M0 σE σS hrel _ => (hfacts M0 σE σS hrel).amo h hi,
          fun hi => ?_,
          fun h M0 σE σS hrel _ => (hfacts M0 σE σS hrel).nc h,
          fun h M0 σE σS hrel _ => (hfacts M0 σE σS hrel).ne h,
          fun _ _ _ _ _ _ _ _ _ x hx => by simp at hx,
          fun h ha M0 σE σS hrel _ => (hfacts M0 σE σS hrel).fin h ha⟩
        -- `ifamo` needs one state; it is a property of the flags alone
        cases hi
        cases hnr : sub.noReturn with
        | true =>
          rcases OptLoop.analyzeLoop_noReturn s ps sub cond false hnr with ⟨_, heq⟩ | ⟨_, heq⟩
          · rw [heq]; exact ofExpr_zero_amo
          · rw [heq]; rfl
        | false =>
          rcases analyzeLoop_if s ps sub cond hnr with ⟨_, heq⟩ | heq
          · rw [heq]; exact ofExpr_zero_amo
          · rw [heq]; exact atMostOnceOf_amo _
      obtain ⟨w1, w2, w3, shE, new, hEs, hi, hst⟩ :=
        finishEnd_ok (G := G) (G1 := G) (oS := oS) h2 hwf hsf hcond hsh (childRep_forget hall) hentry hwfsub
          (fun hns => childPre_of_stepAll hall hi0 hw0 hns hentry) hkvs
          (fun h => absurd rfl h) (fun h => absurd rfl h)
          (fun M0 σE σS σS' _ hG hex => by rw [exec_calc_nil_fin hex]; exact hG)
          hLF (fun _ _ _ _ _ _ _ σk _ _ _ => hGcAll σk)
          (fun _ _ _ _ _ _ _ _ _ x hx => by simp at hx) (fun _ σ => hGcAll σ)
      obtain ⟨newF, hiF, hfootF⟩ :=
        finishEnd_foot (G := G) (G1 := G) (oS := oS) h2 hwf hsf hcond hsh (childRep_forget hall) hentry hwfsub
          (fun hns => childPre_of_stepAll hall hi0 hw0 hns hentry) hkvs
          (fun h => absurd rfl h) (fun h => absurd rfl h)
          (fun M0 σE σS σS' _ hG hex => by rw [exec_calc_nil_fin hex]; exact hG)
          hLF (fun _ _ _ _ _ _ _ σk _ _ _ => hGcAll σk)
          (fun _ _ _ _ _ _ _ _ _ x hx => by simp at hx) (fun _ σ => hGcAll σ)
      have hnewF : newF = new := List.append_cancel_left (hiF.symm.trans hi)
      subst hnewF
      refine ⟨w1, w2, w3, shE, newF, hEs, hi, ⟨hst.1, ?_⟩, hfootF⟩
      intro M0 σE σS hrel hG
      obtain ⟨hs, hb⟩ := hst.2 M0 σE σS hrel hG
      refine ⟨((endSrc_nil_sim isLoop cS shS bodyS oS _ σS).trans hs).mono ?_, hb⟩
      rintro a b ⟨y, rfl, hq⟩
      exact hq
    · -- balanced child: loop motion
      rename_i hnever hshift
      have hns : sub.subShift = false := by
        cases h : sub.subShift with
        | false => rfl
        | true => rw [h] at hshift; simp at hshift
      have hse : sub.shift = s.shift := by
        rw [hns] at hshift
        simpa using hshift
      have hshB : shC + shS = shP := by rw [hsh, hse]; omega
      obtain ⟨C, sub1, B, D, A, os2, sub', os3, hC, hfold, h5, h6⟩ := finishMotionK_cut hr
      obtain ⟨hwf1, hsame1, hpend1⟩ := motionFold_sub_all hfold hwfsub
      have md : MotionData s ps sub sub1 (cS + shP) (analyzeLoop s ps sub cond isLoop) C B D A os os2 := by
        rw [← hcond]
        exact ⟨hC, hfold, hreads, hwfsub, hcsub, hcs⟩
      have hall' : StepAll Gc shP shC (s :: ps) sub0 sub bodyS sub.insts := hall
      have hc : BalChild Gc shP shC shS cS bodyS s ps sub0 sub := ⟨hall, hw0, hp0, hns, hshB, hentry⟩
      obtain ⟨hpre', hwf', hsh', hss', hnr', hkv'⟩ :=
        childPre_motion (cS := cS) hall' hi0 hw0 hp0 hns hkvs hentry hwf1 hsame1 hpend1 h5
      -- everything at one source state
      have hAt : ∀ M0 σE σS, RelAt shP s ps M0 σE σS → G σS →
          MAt Gc shP shC shS cS bodyS isLoop oS s ps sub0 sub sub1 (analyzeLoop s ps sub cond isLoop) C B D A
            os os2 M0 σE σS (doCalc (σS.mov (-shP)) B) := by
        intro M0 σE σS hrel _
        refine ⟨md, hc, hGcH σS, hrel, rfl, hfacts M0 σE σS hrel, ?_⟩
        intro n ht
        have := tripFacts_real hw hrel hcond hsh hrepC hentry hw0 (hGcH σS) ht
        rw [← memE_movNeg hrel] at this
        exact this
      obtain ⟨w1, w2, w3, shE, new, hEs, hi, hst⟩ :=
        finishEnd_ok (shP := 0) (shC := 0) (shS := 0) (cS := cS + shP)
          (bodyS := sub.insts ++ [.calc D]) (oS := oS)
          (isLoop := !(analyzeLoop s ps sub cond isLoop).atMostOnce)
          (G := fun σ0 => ∃ σS M0 σE, RelAt shP s ps M0 σE σS ∧ G σS ∧ σ0 = σS.mov (-shP))
          (G1 := G1M G shP s ps B) (Gc := fun σ => Gc (σ.mov shP))
          h6 hwf hsf (by rw [hcond]; omega) (by rw [hsh', hse]; omega) hpre'.rep hpre'.entry hwf'
          (fun _ => hpre') (fun _ => hkv') (fun _ => rfl) (fun _ => ⟨rfl, by rw [hsh', hse]⟩)
          (by
            rintro M0 σE σ0 σ' _ ⟨σS, M0', σE', hrel, hG, rfl⟩ hex
            refine ⟨σS, M0', σE', hrel, hG, ?_⟩
            rw [exec_calc_iff] at hex
            rcases (exec_nil_iff _ _).1 hex with h' | h'
            · cases h'
            · cases h'; rfl)
          (fun s1 _ _ => loopFacts₂ hAt s1)
          (fun _ _ _ _ _ _ _ σk _ _ _ => hGcAll (σk.mov shP))
          (fun s1 M0' σE' τ hrel' hg hne σ1 hex x hx => constW₂ hw hAt s1 M0' σE' τ hrel' hg hne σ1 hex x hx)
          (fun _ σ => hGcAll (σ.mov shP))
      obtain ⟨newF, hiF, hfootF⟩ :=
        finishEnd_foot (shP := 0) (shC := 0) (shS := 0) (cS := cS + shP)
          (bodyS := sub.insts ++ [.calc D]) (oS := oS)
          (isLoop := !(analyzeLoop s ps sub cond isLoop).atMostOnce)
          (G := fun σ0 => ∃ σS M0 σE, RelAt shP s ps M0 σE σS ∧ G σS ∧ σ0 = σS.mov (-shP))
          (G1 := G1M G shP s ps B) (Gc := fun σ => Gc (σ.mov shP))
          h6 hwf hsf (by rw [hcond]; omega) (by rw [hsh', hse]; omega) hpre'.rep hpre'.entry hwf'
          (fun _ => hpre') (fun _ => hkv') (fun _ => rfl) (fun _ => ⟨rfl, by rw [hsh', hse]⟩)
          (by
            rintro M0 σE σ0 σ' _ ⟨σS, M0', σE', hrel, hG, rfl⟩ hex
            refine ⟨σS, M0', σE', hrel, hG, ?_⟩
            rw [exec_calc_iff] at hex
            rcases (exec_nil_iff _ _).1 hex with h' | h'
            · cases h'
            · cases h'; rfl)
          (fun s1 _ _ => loopFacts₂ hAt s1)
          (fun _ _ _ _ _ _ _ σk _ _ _ => hGcAll (σk.mov shP))
          (fun s1 M0' σE' τ hrel' hg hne σ1 hex x hx => constW₂ hw hAt s1 M0' σE' τ hrel' hg hne σ1 hex x hx)
          (fun _ σ => hGcAll (σ.mov shP))
      have hnewF : newF = new := List.append_cancel_left (hiF.symm.trans hi)
      subst hnewF
      have hfootG : FootAll (ValidG G shP s ps) s s' newF := by
        refine hfootF.weaken ?_
        rintro σ ⟨M0, σS, hrel, hG⟩
        exact ⟨M0, σS.mov (-shP), relAt_unshift_coord hrel, σS, M0, σ, hrel, hG, rfl⟩
      refine ⟨w1, w2, w3, shE + shP, newF, fun hn => by rw [hEs hn]; omega, hi, ⟨hst.1, ?_⟩, hfootG⟩
      intro M0 σE σS hrel hG
      have hrel0 : RelAt 0 s ps M0 σE (σS.mov (-shP)) := relAt_unshift_coord hrel
      obtain ⟨hs, hb⟩ := hst.2 M0 σE _ hrel0 ⟨σS, M0, σE, hrel, hG, rfl⟩
      refine ⟨(((hAt M0 σE σS hrel hG).sim hw).trans hs).mono ?_, hb⟩
      rintro a b ⟨y, ⟨q1, q2, q3, q4, _, _⟩, M0', hr', hk'⟩
      refine ⟨M0', ⟨q1.trans hr'.tr, q2.trans hr'.env, by rw [q3, hr'.ptr]; omega, hr'.nr, ?_⟩, hk'⟩
      have hmem : memS b a = memS b y := by
        funext v
        show a.tape.get (b.ptr + v) = y.tape.get (b.ptr + v)
        have := congrFun q4 (b.ptr + v - y.ptr)
        have e1 : memE (a.mov (-shP)) (b.ptr + v - y.ptr) = a.tape.get (b.ptr + v) := by
          show a.tape.get (a.ptr + -shP + (b.ptr + v - y.ptr)) = _
          congr 1; omega
        have e2 : memE y (b.ptr + v - y.ptr) = y.tape.get (b.ptr + v) := by
          show y.tape.get (y.ptr + (b.ptr + v - y.ptr)) = _
          congr 1; omega
        rw [← e1, ← e2]; exact this
      rw [hmem]; exact hr'.inv

end FinishLoop

end OptProof
end Hpbf
