/-
Rebuild-round proofs: READ-BEFORE-WRITE footprint (the unary twin of `FootStepV`), part 1: the big-step trace
predicates `Thru a` (the list runs to its end without reading or writing the absolute address `a`) and
`Exposes a` (some finite prefix of the run reads `a` with no earlier write of `a`), their composition lemmas, the
special case of lists of `calc` groups, and the pairing `RdOkL` of emitted code with analysis nodes.

Reads and writes are counted as `C01Dse.stepReads` / `stepWrites` count them: `output src` reads `ptr + src`;
`calc g` reads `ptr + v` for every variable of every right-hand side (before the writes of the same `calc`) and
writes the targets; `input dst` writes `ptr + dst`; `loop c …` / `ifnz c …` read `ptr + c` at every test
(including the re-test of a loop after an iteration, at the moved pointer).
-/
import Hpbf.Proofs.OptRbFoot9

namespace Hpbf
namespace OptProof
open Opt OptSem Ir

variable {w : Nat}

/-! ### the trace predicates -/

/-- The list runs to its end, from `σ` to `σ'`, without reading or writing the address `a`. -/
inductive Thru (a : Int) : List (Instr w) → State w → State w → Prop
  | nil (σ : State w) : Thru a [] σ σ
  | outOk {src : Int} {rest : List (Instr w)} {σ σ1 σ' : State w} :
      σ.output src = (true, σ1) → σ.ptr + src ≠ a → Thru a rest σ1 σ' → Thru a (.output src :: rest) σ σ'
  | inOk {dst : Int} {rest : List (Instr w)} {σ σ1 σ' : State w} :
      σ.input dst = (true, σ1) → σ.ptr + dst ≠ a → Thru a rest σ1 σ' → Thru a (.input dst :: rest) σ σ'
  | calc {g : List (Int × Expr w)} {rest : List (Instr w)} {σ σ' : State w} :
      (∀ ve ∈ g, σ.ptr + ve.1 ≠ a) → (∀ ve ∈ g, ∀ v ∈ Expr.variables ve.2, σ.ptr + v ≠ a) →
      Thru a rest (doCalc σ g) σ' → Thru a (.calc g :: rest) σ σ'
  | loopSkip {c sh : Int} {body : List (Instr w)} {once : Bool} {rest : List (Instr w)} {σ σ' : State w} :
      σ.rd c = 0#w → σ.ptr + c ≠ a → Thru a rest σ σ' → Thru a (.loop c sh body once :: rest) σ σ'
  | loopIter {c sh : Int} {body : List (Instr w)} {once : Bool} {rest : List (Instr w)} {σ σ1 σ' : State w} :
      σ.rd c ≠ 0#w → σ.ptr + c ≠ a → Thru a body σ σ1 →
      Thru a (.loop c sh body once :: rest) (σ1.mov sh) σ' → Thru a (.loop c sh body once :: rest) σ σ'
  | ifSkip {c sh : Int} {body : List (Instr w)} {rest : List (Instr w)} {σ σ' : State w} :
      σ.rd c = 0#w → σ.ptr + c ≠ a → Thru a rest σ σ' → Thru a (.ifnz c sh body :: rest) σ σ'
  | ifIter {c sh : Int} {body : List (Instr w)} {rest : List (Instr w)} {σ σ1 σ' : State w} :
      σ.rd c ≠ 0#w → σ.ptr + c ≠ a → Thru a body σ σ1 → Thru a rest (σ1.mov sh) σ' →
      Thru a (.ifnz c sh body :: rest) σ σ'

/-- Some finite prefix of the run of the list from `σ` reads the address `a`, and no earlier step of the run
writes `a`. -/
inductive Exposes (a : Int) : List (Instr w) → State w → Prop
  | outHere {src : Int} {rest : List (Instr w)} {σ : State w} :
      σ.ptr + src = a → Exposes a (.output src :: rest) σ
  | outNext {src : Int} {rest : List (Instr w)} {σ σ1 : State w} :
      σ.output src = (true, σ1) → Exposes a rest σ1 → Exposes a (.output src :: rest) σ
  | inNext {dst : Int} {rest : List (Instr w)} {σ σ1 : State w} :
      σ.input dst = (true, σ1) → σ.ptr + dst ≠ a → Exposes a rest σ1 → Exposes a (.input dst :: rest) σ
  | calcHere {g : List (Int × Expr w)} {rest : List (Instr w)} {σ : State w} :
      (∃ ve ∈ g, ∃ v ∈ Expr.variables ve.2, σ.ptr + v = a) → Exposes a (.calc g :: rest) σ
  | calcNext {g : List (Int × Expr w)} {rest : List (Instr w)} {σ : State w} :
      (∀ ve ∈ g, σ.ptr + ve.1 ≠ a) → Exposes a rest (doCalc σ g) → Exposes a (.calc g :: rest) σ
  | loopHere {c sh : Int} {body : List (Instr w)} {once : Bool} {rest : List (Instr w)} {σ : State w} :
      σ.ptr + c = a → Exposes a (.loop c sh body once :: rest) σ
  | loopSkip {c sh : Int} {body : List (Instr w)} {once : Bool} {rest : List (Instr w)} {σ : State w} :
      σ.rd c = 0#w → Exposes a rest σ → Exposes a (.loop c sh body once :: rest) σ
  | loopIn {c sh : Int} {body : List (Instr w)} {once : Bool} {rest : List (Instr w)} {σ : State w} :
      σ.rd c ≠ 0#w → Exposes a body σ → Exposes a (.loop c sh body once :: rest) σ
  | loopIter {c sh : Int} {body : List (Instr w)} {once : Bool} {rest : List (Instr w)} {σ σ1 : State w} :
      σ.rd c ≠ 0#w → Thru a body σ σ1 → Exposes a (.loop c sh body once :: rest) (σ1.mov sh) →
      Exposes a (.loop c sh body once :: rest) σ
  | ifHere {c sh : Int} {body : List (Instr w)} {rest : List (Instr w)} {σ : State w} :
      σ.ptr + c = a → Exposes a (.ifnz c sh body :: rest) σ
  | ifSkip {c sh : Int} {body : List (Instr w)} {rest : List (Instr w)} {σ : State w} :
      σ.rd c = 0#w → Exposes a rest σ → Exposes a (.ifnz c sh body :: rest) σ
  | ifIn {c sh : Int} {body : List (Instr w)} {rest : List (Instr w)} {σ : State w} :
      σ.rd c ≠ 0#w → Exposes a body σ → Exposes a (.ifnz c sh body :: rest) σ
  | ifIter {c sh : Int} {body : List (Instr w)} {rest : List (Instr w)} {σ σ1 : State w} :
      σ.rd c ≠ 0#w → Thru a body σ σ1 → Exposes a rest (σ1.mov sh) → Exposes a (.ifnz c sh body :: rest) σ

theorem not_exposes_nil (a : Int) (σ : State w) : ¬ Exposes a ([] : List (Instr w)) σ := by
  intro h; cases h

/-! ### `Thru` is a terminating run -/

theorem thru_exec {a : Int} {l : List (Instr w)} {σ σ' : State w} (h : Thru a l σ σ') : Exec l σ (.fin σ') := by
  induction h with
  | nil σ => exact .nil σ
  | outOk h1 _ _ ih => exact .outOk h1 ih
  | inOk h1 _ _ ih => exact .inOk h1 ih
  | «calc» _ _ _ ih => exact .calc ih
  | loopSkip hz _ _ ih => exact .loopSkip hz ih
  | loopIter hnz _ _ _ ih1 ih2 => exact .loopIter hnz ih1 ih2
  | ifSkip hz _ _ ih => exact .ifSkip hz ih
  | ifIter hnz _ _ _ ih1 ih2 => exact .ifIter hnz ih1 ih2

/-- Code without pointer movement comes back to the same pointer. -/
theorem thru_ptr {a : Int} {l : List (Instr w)} {σ σ' : State w} (h : Thru a l σ σ') (hns : nsL l) :
    σ'.ptr = σ.ptr := (phys_frame (thru_exec h) σ' rfl hns).1

/-! ### decomposition along `++` -/

theorem thru_cons_append {a : Int} {l : List (Instr w)} {σ σ' : State w} (h : Thru a l σ σ') :
    ∀ (i : Instr w) (l1 l2 : List (Instr w)), l = i :: (l1 ++ l2) →
      ∃ σ1, Thru a (i :: l1) σ σ1 ∧ Thru a l2 σ1 σ' := by
  induction h with
  | nil σ => intro i l1 l2 e; cases e
  | @outOk src rest σ σ1 σ' ho hp hrest ih =>
    intro i l1 l2 e
    injection e with e1 e2
    subst e1
    cases l1 with
    | nil =>
      simp only [List.nil_append] at e2
      subst e2
      exact ⟨σ1, .outOk ho hp (.nil _), hrest⟩
    | cons j l1' =>
      obtain ⟨σm, h1, h2⟩ := ih j l1' l2 e2
      exact ⟨σm, .outOk ho hp h1, h2⟩
  | @inOk dst rest σ σ1 σ' ho hp hrest ih =>
    intro i l1 l2 e
    injection e with e1 e2
    subst e1
    cases l1 with
    | nil =>
      simp only [List.nil_append] at e2
      subst e2
      exact ⟨σ1, .inOk ho hp (.nil _), hrest⟩
    | cons j l1' =>
      obtain ⟨σm, h1, h2⟩ := ih j l1' l2 e2
      exact ⟨σm, .inOk ho hp h1, h2⟩
  | @«calc» g rest σ σ' hw hr hrest ih =>
    intro i l1 l2 e
    injection e with e1 e2
    subst e1
    cases l1 with
    | nil =>
      simp only [List.nil_append] at e2
      subst e2
      exact ⟨_, .calc hw hr (.nil _), hrest⟩
    | cons j l1' =>
      obtain ⟨σm, h1, h2⟩ := ih j l1' l2 e2
      exact ⟨σm, .calc hw hr h1, h2⟩
  | @loopSkip c sh body once rest σ σ' hz hp hrest ih =>
    intro i l1 l2 e
    injection e with e1 e2
    subst e1
    cases l1 with
    | nil =>
      simp only [List.nil_append] at e2
      subst e2
      exact ⟨σ, .loopSkip hz hp (.nil _), hrest⟩
    | cons j l1' =>
      obtain ⟨σm, h1, h2⟩ := ih j l1' l2 e2
      exact ⟨σm, .loopSkip hz hp h1, h2⟩
  | @loopIter c sh body once rest σ σ1 σ' hnz hp hb _ _ ih2 =>
    intro i l1 l2 e
    injection e with e1 e2
    subst e1
    subst e2
    obtain ⟨σm, h1, h2⟩ := ih2 _ l1 l2 rfl
    exact ⟨σm, .loopIter hnz hp hb h1, h2⟩
  | @ifSkip c sh body rest σ σ' hz hp hrest ih =>
    intro i l1 l2 e
    injection e with e1 e2
    subst e1
    cases l1 with
    | nil =>
      simp only [List.nil_append] at e2
      subst e2
      exact ⟨σ, .ifSkip hz hp (.nil _), hrest⟩
    | cons j l1' =>
      obtain ⟨σm, h1, h2⟩ := ih j l1' l2 e2
      exact ⟨σm, .ifSkip hz hp h1, h2⟩
  | @ifIter c sh body rest σ σ1 σ' hnz hp hb hrest _ ih2 =>
    intro i l1 l2 e
    injection e with e1 e2
    subst e1
    cases l1 with
    | nil =>
      simp only [List.nil_append] at e2
      subst e2
      exact ⟨_, .ifIter hnz hp hb (.nil _), hrest⟩
    | cons j l1' =>
      obtain ⟨σm, h1, h2⟩ := ih2 j l1' l2 e2
      exact ⟨σm, .ifIter hnz hp hb h1, h2⟩

/-- A run through `l1 ++ l2` is a run through `l1` followed by a run through `l2`. -/
theorem thru_append {a : Int} {l1 l2 : List (Instr w)} {σ σ' : State w} (h : Thru a (l1 ++ l2) σ σ') :
    ∃ σ1, Thru a l1 σ σ1 ∧ Thru a l2 σ1 σ' := by
  cases l1 with
  | nil => exact ⟨σ, .nil σ, h⟩
  | cons i l1' => exact thru_cons_append h i l1' l2 rfl

theorem exposes_cons_append {a : Int} {l : List (Instr w)} {σ : State w} (h : Exposes a l σ) :
    ∀ (i : Instr w) (l1 l2 : List (Instr w)), l = i :: (l1 ++ l2) →
      Exposes a (i :: l1) σ ∨ ∃ σ1, Thru a (i :: l1) σ σ1 ∧ Exposes a l2 σ1 := by
  induction h with
  | @outHere src rest σ hp =>
    intro i l1 l2 e
    injection e with e1 e2
    subst e1
    exact Or.inl (.outHere hp)
  | @outNext src rest σ σ1 ho hrest ih =>
    intro i l1 l2 e
    injection e with e1 e2
    subst e1
    by_cases hp : σ.ptr + src = a
    · exact Or.inl (.outHere hp)
    · cases l1 with
      | nil =>
        simp only [List.nil_append] at e2
        subst e2
        exact Or.inr ⟨σ1, .outOk ho hp (.nil _), hrest⟩
      | cons j l1' =>
        rcases ih j l1' l2 e2 with h | ⟨σm, h1, h2⟩
        · exact Or.inl (.outNext ho h)
        · exact Or.inr ⟨σm, .outOk ho hp h1, h2⟩
  | @inNext dst rest σ σ1 ho hp hrest ih =>
    intro i l1 l2 e
    injection e with e1 e2
    subst e1
    cases l1 with
    | nil =>
      simp only [List.nil_append] at e2
      subst e2
      exact Or.inr ⟨σ1, .inOk ho hp (.nil _), hrest⟩
    | cons j l1' =>
      rcases ih j l1' l2 e2 with h | ⟨σm, h1, h2⟩
      · exact Or.inl (.inNext ho hp h)
      · exact Or.inr ⟨σm, .inOk ho hp h1, h2⟩
  | @calcHere g rest σ hr =>
    intro i l1 l2 e
    injection e with e1 e2
    subst e1
    exact Or.inl (.calcHere hr)
  | @calcNext g rest σ hw hrest ih =>
    intro i l1 l2 e
    injection e with e1 e2
    subst e1
    by_cases hr : ∃ ve ∈ g, ∃ v ∈ Expr.variables ve.2, σ.ptr + v = a
    · exact Or.inl (.calcHere hr)
    · have hr' : ∀ ve ∈ g, ∀ v ∈ Expr.variables ve.2, σ.ptr + v ≠ a :=
        fun ve hve v hv hh => hr ⟨ve, hve, v, hv, hh⟩
      cases l1 with
      | nil =>
        simp only [List.nil_append] at e2
        subst e2
        exact Or.inr ⟨_, .calc hw hr' (.nil _), hrest⟩
      | cons j l1' =>
        rcases ih j l1' l2 e2 with h | ⟨σm, h1, h2⟩
        · exact Or.inl (.calcNext hw h)
        · exact Or.inr ⟨σm, .calc hw hr' h1, h2⟩
  | @loopHere c sh body once rest σ hp =>
    intro i l1 l2 e
    injection e with e1 e2
    subst e1
    exact Or.inl (.loopHere hp)
  | @loopSkip c sh body once rest σ hz hrest ih =>
    intro i l1 l2 e
    injection e with e1 e2
    subst e1
    by_cases hp : σ.ptr + c = a
    · exact Or.inl (.loopHere hp)
    · cases l1 with
      | nil =>
        simp only [List.nil_append] at e2
        subst e2
        exact Or.inr ⟨σ, .loopSkip hz hp (.nil _), hrest⟩
      | cons j l1' =>
        rcases ih j l1' l2 e2 with h | ⟨σm, h1, h2⟩
        · exact Or.inl (.loopSkip hz h)
        · exact Or.inr ⟨σm, .loopSkip hz hp h1, h2⟩
  | @loopIn c sh body once rest σ hnz hb _ =>
    intro i l1 l2 e
    injection e with e1 e2
    subst e1
    exact Or.inl (.loopIn hnz hb)
  | @loopIter c sh body once rest σ σ1 hnz hb _ ih =>
    intro i l1 l2 e
    injection e with e1 e2
    subst e1
    subst e2
    by_cases hp : σ.ptr + c = a
    · exact Or.inl (.loopHere hp)
    · rcases ih _ l1 l2 rfl with h | ⟨σm, h1, h2⟩
      · exact Or.inl (.loopIter hnz hb h)
      · exact Or.inr ⟨σm, .loopIter hnz hp hb h1, h2⟩
  | @ifHere c sh body rest σ hp =>
    intro i l1 l2 e
    injection e with e1 e2
    subst e1
    exact Or.inl (.ifHere hp)
  | @ifSkip c sh body rest σ hz hrest ih =>
    intro i l1 l2 e
    injection e with e1 e2
    subst e1
    by_cases hp : σ.ptr + c = a
    · exact Or.inl (.ifHere hp)
    · cases l1 with
      | nil =>
        simp only [List.nil_append] at e2
        subst e2
        exact Or.inr ⟨σ, .ifSkip hz hp (.nil _), hrest⟩
      | cons j l1' =>
        rcases ih j l1' l2 e2 with h | ⟨σm, h1, h2⟩
        · exact Or.inl (.ifSkip hz h)
        · exact Or.inr ⟨σm, .ifSkip hz hp h1, h2⟩
  | @ifIn c sh body rest σ hnz hb _ =>
    intro i l1 l2 e
    injection e with e1 e2
    subst e1
    exact Or.inl (.ifIn hnz hb)
  | @ifIter c sh body rest σ σ1 hnz hb hrest ih =>
    intro i l1 l2 e
    injection e with e1 e2
    subst e1
    by_cases hp : σ.ptr + c = a
    · exact Or.inl (.ifHere hp)
    · cases l1 with
      | nil =>
        simp only [List.nil_append] at e2
        subst e2
        exact Or.inr ⟨_, .ifIter hnz hp hb (.nil _), hrest⟩
      | cons j l1' =>
        rcases ih j l1' l2 e2 with h | ⟨σm, h1, h2⟩
        · exact Or.inl (.ifIter hnz hb h)
        · exact Or.inr ⟨σm, .ifIter hnz hp hb h1, h2⟩

/-- An exposure in `l1 ++ l2` is an exposure in `l1`, or `l1` is run through and the exposure is in `l2`. -/
theorem exposes_append {a : Int} {l1 l2 : List (Instr w)} {σ : State w} (h : Exposes a (l1 ++ l2) σ) :
    Exposes a l1 σ ∨ ∃ σ1, Thru a l1 σ σ1 ∧ Exposes a l2 σ1 := by
  cases l1 with
  | nil => exact Or.inr ⟨σ, .nil σ, h⟩
  | cons i l1' => exact exposes_cons_append h i l1' l2 rfl

/-! ### lists of `calc` groups -/

/-- The offset `v` is neither read nor written by the groups. -/
def ThruC (v : Int) (comps : List (List (Int × Expr w))) : Prop :=
  ∀ g ∈ comps, v ∉ g.map (·.1) ∧ ∀ ve ∈ g, v ∉ Expr.variables ve.2

/-- Some group reads the offset `v`, and no earlier group writes it. -/
def ExposesC (v : Int) : List (List (Int × Expr w)) → Prop
  | [] => False
  | g :: rest => (∃ ve ∈ g, v ∈ Expr.variables ve.2) ∨ (v ∉ g.map (·.1) ∧ ExposesC v rest)

theorem thruC_nil (v : Int) : ThruC v ([] : List (List (Int × Expr w))) := fun _ h => by cases h

theorem thruC_append {v : Int} {c1 c2 : List (List (Int × Expr w))} :
    ThruC v (c1 ++ c2) ↔ ThruC v c1 ∧ ThruC v c2 := by
  unfold ThruC
  constructor
  · intro h
    exact ⟨fun g hg => h g (List.mem_append_left _ hg), fun g hg => h g (List.mem_append_right _ hg)⟩
  · rintro ⟨h1, h2⟩ g hg
    rcases List.mem_append.1 hg with h | h
    · exact h1 g h
    · exact h2 g h

theorem exposesC_append {v : Int} {c1 c2 : List (List (Int × Expr w))} :
    ExposesC v (c1 ++ c2) ↔ ExposesC v c1 ∨ ((∀ g ∈ c1, v ∉ g.map (·.1)) ∧ ExposesC v c2) := by
  induction c1 with
  | nil => simp [ExposesC]
  | cons g c1 ih =>
    simp only [List.cons_append, ExposesC, ih, List.mem_cons, forall_eq_or_imp]
    constructor
    · rintro (h | ⟨h1, h2 | ⟨h2, h3⟩⟩)
      · exact Or.inl (Or.inl h)
      · exact Or.inl (Or.inr ⟨h1, h2⟩)
      · exact Or.inr ⟨⟨h1, h2⟩, h3⟩
    · rintro ((h | ⟨h1, h2⟩) | ⟨⟨h1, h2⟩, h3⟩)
      · exact Or.inl h
      · exact Or.inr ⟨h1, Or.inl h2⟩
      · exact Or.inr ⟨h1, Or.inr ⟨h2, h3⟩⟩

/-- Not written and not exposed means not touched at all. -/
theorem thruC_of_not_exposesC {v : Int} {comps : List (List (Int × Expr w))}
    (hw : ∀ g ∈ comps, v ∉ g.map (·.1)) (he : ¬ ExposesC v comps) : ThruC v comps := by
  induction comps with
  | nil => exact thruC_nil v
  | cons g comps ih =>
    have hg := hw g (by simp)
    have h1 : ¬ ∃ ve ∈ g, v ∈ Expr.variables ve.2 := fun h => he (Or.inl h)
    have h2 : ¬ ExposesC v comps := fun h => he (Or.inr ⟨hg, h⟩)
    intro g' hg'
    rcases List.mem_cons.1 hg' with e | e
    · subst e
      exact ⟨hg, fun ve hve hv => h1 ⟨ve, hve, hv⟩⟩
    · exact ih (fun g'' h'' => hw g'' (List.mem_cons_of_mem _ h'')) h2 g' e

theorem thruC_not_written {v : Int} {comps : List (List (Int × Expr w))} (h : ThruC v comps) :
    ∀ g ∈ comps, v ∉ g.map (·.1) := fun g hg => (h g hg).1

theorem thruC_not_exposesC {v : Int} {comps : List (List (Int × Expr w))} (h : ThruC v comps) :
    ¬ ExposesC v comps := by
  induction comps with
  | nil => exact fun h' => h'
  | cons g comps ih =>
    rintro (⟨ve, hve, hv⟩ | ⟨_, h'⟩)
    · exact (h g (by simp)).2 ve hve hv
    · exact ih (fun g' hg' => h g' (List.mem_cons_of_mem _ hg')) h'

theorem ptr_add_inj {p v x : Int} : p + x = p + v ↔ x = v := by omega

/-- `Thru` on a list of `calc` groups. -/
theorem thru_calcs_iff (comps : List (List (Int × Expr w))) (σ σ' : State w) (v : Int) :
    Thru (σ.ptr + v) (comps.map Instr.calc) σ σ' ↔ ThruC v comps ∧ σ' = comps.foldl doCalc σ := by
  induction comps generalizing σ with
  | nil =>
    constructor
    · intro h; cases h; exact ⟨thruC_nil v, rfl⟩
    · rintro ⟨_, rfl⟩; exact .nil _
  | cons g comps ih =>
    have hp : (doCalc σ g).ptr = σ.ptr := (C01Dse.doCalc_meta σ g).1
    simp only [List.map_cons, List.foldl_cons]
    constructor
    · intro h
      cases h with
      | «calc» hw hr hrest =>
        rw [← hp] at hrest
        obtain ⟨h1, h2⟩ := (ih (doCalc σ g)).1 hrest
        refine ⟨?_, h2⟩
        intro g' hg'
        rcases List.mem_cons.1 hg' with e | e
        · subst e
          refine ⟨fun hm => ?_, fun ve hve hv => hr ve hve v hv rfl⟩
          obtain ⟨ve, hve, e'⟩ := List.mem_map.1 hm
          exact hw ve hve (by rw [e'])
        · exact h1 g' e
    · rintro ⟨h1, h2⟩
      have hg := h1 g (by simp)
      refine .calc ?_ ?_ ?_
      · intro ve hve hh
        exact hg.1 (List.mem_map.2 ⟨ve, hve, ptr_add_inj.1 hh⟩)
      · intro ve hve x hx hh
        exact hg.2 ve hve (by rw [← ptr_add_inj.1 hh]; exact hx)
      · have := (ih (doCalc σ g)).2 ⟨fun g' hg' => h1 g' (List.mem_cons_of_mem _ hg'), h2⟩
        rw [hp] at this
        exact this

/-- `Exposes` on a list of `calc` groups. -/
theorem exposes_calcs_iff (comps : List (List (Int × Expr w))) (σ : State w) (v : Int) :
    Exposes (σ.ptr + v) (comps.map Instr.calc) σ ↔ ExposesC v comps := by
  induction comps generalizing σ with
  | nil =>
    constructor
    · intro h; cases h
    · intro h; exact h.elim
  | cons g comps ih =>
    have hp : (doCalc σ g).ptr = σ.ptr := (C01Dse.doCalc_meta σ g).1
    simp only [List.map_cons, ExposesC]
    constructor
    · intro h
      cases h with
      | calcHere hr =>
        obtain ⟨ve, hve, x, hx, hh⟩ := hr
        exact Or.inl ⟨ve, hve, by rw [← ptr_add_inj.1 hh]; exact hx⟩
      | calcNext hw hrest =>
        rw [← hp] at hrest
        refine Or.inr ⟨fun hm => ?_, (ih (doCalc σ g)).1 hrest⟩
        obtain ⟨ve, hve, e'⟩ := List.mem_map.1 hm
        exact hw ve hve (by rw [e'])
    · rintro (⟨ve, hve, hv⟩ | ⟨hw, hrest⟩)
      · exact .calcHere ⟨ve, hve, v, hv, rfl⟩
      · refine .calcNext ?_ ?_
        · intro ve hve hh
          exact hw (List.mem_map.2 ⟨ve, hve, ptr_add_inj.1 hh⟩)
        · have := (ih (doCalc σ g)).2 hrest
          rw [hp] at this
          exact this

/-! ### the pairing of emitted code with analysis nodes -/

mutual
/-- The `reads` of the node of a non-moving loop bound what an iteration of its body exposes (in runs that do not
reach a `once` loop with a zero condition), recursively. -/
def RdOkI : Instr w → OptAnalysis w → Prop
  | .loop c _ body _, .mk _ hs reads _ subs =>
      (hs = false → ∀ σ : State w, σ.rd c ≠ 0#w → ¬ Bad body σ →
        ∀ v, v ∉ reads → ¬ Exposes (σ.ptr + v) body σ) ∧ RdOkL body subs
  | .ifnz _ _ body, .mk _ _ _ _ subs => RdOkL body subs
  | .output _, _ => False
  | .input _, _ => False
  | .calc _, _ => False
/-- The nested blocks of the list, in order, are paired with the nodes (as `ShapeL`). -/
def RdOkL : List (Instr w) → List (OptAnalysis w) → Prop
  | [], subs => subs = []
  | i :: rest, subs =>
    if C01Dse.isBlock i then ∃ a subs', subs = a :: subs' ∧ RdOkI i a ∧ RdOkL rest subs'
    else RdOkL rest subs
end

theorem rdOkL_nil : RdOkL ([] : List (Instr w)) [] := by rw [RdOkL]

theorem rdOkL_nil_iff {subs : List (OptAnalysis w)} : RdOkL ([] : List (Instr w)) subs ↔ subs = [] := by
  rw [RdOkL]

theorem rdOkL_cons_nonblock {i : Instr w} (h : C01Dse.isBlock i = false) {rest : List (Instr w)}
    {subs : List (OptAnalysis w)} : RdOkL (i :: rest) subs ↔ RdOkL rest subs := by
  rw [RdOkL, h]; simp

theorem rdOkL_cons_block {i : Instr w} (h : C01Dse.isBlock i = true) {rest : List (Instr w)}
    {subs : List (OptAnalysis w)} :
    RdOkL (i :: rest) subs ↔ ∃ a subs', subs = a :: subs' ∧ RdOkI i a ∧ RdOkL rest subs' := by
  rw [RdOkL, h]; simp

theorem rdOkI_isBlock {i : Instr w} {a : OptAnalysis w} (h : RdOkI i a) : C01Dse.isBlock i = true := by
  cases i with
  | output _ => rw [RdOkI] at h; exact h.elim
  | input _ => rw [RdOkI] at h; exact h.elim
  | «calc» _ => rw [RdOkI] at h; exact h.elim
  | loop _ _ _ _ => rfl
  | ifnz _ _ _ => rfl

theorem rdOkL_append {l1 l2 : List (Instr w)} {s1 s2 : List (OptAnalysis w)} (h1 : RdOkL l1 s1)
    (h2 : RdOkL l2 s2) : RdOkL (l1 ++ l2) (s1 ++ s2) := by
  induction l1 generalizing s1 with
  | nil =>
    rw [rdOkL_nil_iff] at h1
    subst h1; exact h2
  | cons i l1 ih =>
    rw [List.cons_append]
    cases hb : C01Dse.isBlock i with
    | false =>
      rw [rdOkL_cons_nonblock hb] at h1 ⊢
      exact ih h1
    | true =>
      rw [rdOkL_cons_block hb] at h1 ⊢
      obtain ⟨a, subs', rfl, ha, hr⟩ := h1
      exact ⟨a, subs' ++ s2, rfl, ha, ih hr⟩

theorem rdOkL_nonblocks {l : List (Instr w)} (h : ∀ i ∈ l, C01Dse.isBlock i = false) : RdOkL l [] := by
  induction l with
  | nil => exact rdOkL_nil
  | cons i l ih =>
    rw [rdOkL_cons_nonblock (h i (by simp))]
    exact ih (fun j hj => h j (by simp [hj]))

theorem rdOkL_single {i : Instr w} {a : OptAnalysis w} (h : RdOkI i a) : RdOkL [i] [a] := by
  rw [rdOkL_cons_block (rdOkI_isBlock h)]
  exact ⟨a, [], rfl, h, rdOkL_nil⟩

end OptProof
end Hpbf
