/-
Rebuild-round proofs, stage 5 (the fix for F13, Hpbf/OptFix.lean): the syntactic facts.
(1) `fixClob` only changes `clobbered`; (2) the fixed analysis satisfies `TgtOkL` for the emitted program;
(3) `TgtOkL` survives dead store elimination; (4) unfolding lemmas for the fixed pipeline.
-/
import Hpbf.Proofs.OptRbFixDefs
import Hpbf.Proofs.OptRbDseShape
import Hpbf.Proofs.OptRbRounds

namespace Hpbf
namespace OptProof
open Opt OptSem Ir

variable {w : Nat}

/-! ### (1) `fixClob` leaves everything but `clobbered` alone -/

theorem isBlk_eq (i : Instr w) : OptFix.isBlk i = C01Dse.isBlock i := by
  cases i <;> rfl

theorem fixSubs_nil (subs : List (OptAnalysis w)) : OptFix.fixSubs ([] : List (Instr w)) subs = subs := by
  simp [OptFix.fixSubs]

theorem fixSubs_cons_nonblock {i : Instr w} (hb : C01Dse.isBlock i = false) (rest : List (Instr w))
    (subs : List (OptAnalysis w)) : OptFix.fixSubs (i :: rest) subs = OptFix.fixSubs rest subs := by
  cases subs <;> simp [OptFix.fixSubs, isBlk_eq, hb]

theorem fixSubs_cons_block {i : Instr w} (hb : C01Dse.isBlock i = true) (rest : List (Instr w))
    (a : OptAnalysis w) (subs : List (OptAnalysis w)) :
    OptFix.fixSubs (i :: rest) (a :: subs) = OptFix.fixNode i a :: OptFix.fixSubs rest subs := by
  rw [OptFix.fixSubs, isBlk_eq, hb]; simp

theorem fixSubs_cons_block_nil {i : Instr w} (hb : C01Dse.isBlock i = true) (rest : List (Instr w)) :
    OptFix.fixSubs (i :: rest) ([] : List (OptAnalysis w)) = [] := by
  rw [OptFix.fixSubs, isBlk_eq, hb]; simp

theorem fixNode_hasShift (i : Instr w) (a : OptAnalysis w) : (OptFix.fixNode i a).hasShift = a.hasShift := by
  cases a with
  | mk la hs rd cl subs => cases i <;> simp [OptFix.fixNode, OptAnalysis.hasShift]

theorem fixNode_loopAnal (i : Instr w) (a : OptAnalysis w) : (OptFix.fixNode i a).loopAnal = a.loopAnal := by
  cases a with
  | mk la hs rd cl subs => cases i <;> simp [OptFix.fixNode, OptAnalysis.loopAnal]

theorem fixSubs_hasShift (l : List (Instr w)) (subs : List (OptAnalysis w))
    (h : ∀ a ∈ subs, a.hasShift = false) : ∀ a ∈ OptFix.fixSubs l subs, a.hasShift = false := by
  induction l generalizing subs with
  | nil => rw [fixSubs_nil]; exact h
  | cons i rest ih =>
    cases hb : C01Dse.isBlock i with
    | false => rw [fixSubs_cons_nonblock hb]; exact ih subs h
    | true =>
      cases subs with
      | nil => rw [fixSubs_cons_block_nil hb]; intro a ha; cases ha
      | cons a0 subs' =>
        rw [fixSubs_cons_block hb]
        intro a ha
        rcases List.mem_cons.1 ha with rfl | ha
        · rw [fixNode_hasShift]; exact h a0 (by simp)
        · exact ih subs' (fun a' h' => h a' (by simp [h'])) a ha

mutual
theorem fixNode_toDAnal : ∀ (i : Instr w) (a : OptAnalysis w), (OptFix.fixNode i a).toDAnal = a.toDAnal
  | .output _, a => by simp [OptFix.fixNode]
  | .input _, a => by simp [OptFix.fixNode]
  | .calc _, a => by simp [OptFix.fixNode]
  | .loop c sh body o, .mk la hs rd cl subs => by
    rw [OptFix.fixNode, toDAnal_mk, toDAnal_mk, fixSubs_toDAnals body subs]
  | .ifnz c sh body, .mk la hs rd cl subs => by
    rw [OptFix.fixNode, toDAnal_mk, toDAnal_mk, fixSubs_toDAnals body subs]
theorem fixSubs_toDAnals : ∀ (l : List (Instr w)) (subs : List (OptAnalysis w)),
    OptAnalysis.toDAnals (OptFix.fixSubs l subs) = OptAnalysis.toDAnals subs
  | [], subs => by rw [fixSubs_nil]
  | .output x :: rest, subs => by rw [fixSubs_cons_nonblock rfl]; exact fixSubs_toDAnals rest subs
  | .input x :: rest, subs => by rw [fixSubs_cons_nonblock rfl]; exact fixSubs_toDAnals rest subs
  | .calc x :: rest, subs => by rw [fixSubs_cons_nonblock rfl]; exact fixSubs_toDAnals rest subs
  | .loop c sh body o :: rest, [] => by rw [fixSubs_cons_block_nil rfl]
  | .loop c sh body o :: rest, a :: subs => by
    rw [fixSubs_cons_block rfl, toDAnals_eq_map, toDAnals_eq_map, List.map_cons, List.map_cons,
      fixNode_toDAnal (.loop c sh body o) a, ← toDAnals_eq_map, ← toDAnals_eq_map, fixSubs_toDAnals rest subs]
  | .ifnz c sh body :: rest, [] => by rw [fixSubs_cons_block_nil rfl]
  | .ifnz c sh body :: rest, a :: subs => by
    rw [fixSubs_cons_block rfl, toDAnals_eq_map, toDAnals_eq_map, List.map_cons, List.map_cons,
      fixNode_toDAnal (.ifnz c sh body) a, ← toDAnals_eq_map, ← toDAnals_eq_map, fixSubs_toDAnals rest subs]
end

theorem fixClob_subBlocks (b : Block w) (a : OptAnalysis w) :
    (OptFix.fixClob b a).subBlocks = OptFix.fixSubs b.insts a.subBlocks := by
  cases a with
  | mk la hs rd cl subs => rfl

theorem fixClob_loopAnal (b : Block w) (a : OptAnalysis w) : (OptFix.fixClob b a).loopAnal = a.loopAnal := by
  cases a with
  | mk la hs rd cl subs => rfl

theorem fixClob_hasShift (b : Block w) (a : OptAnalysis w) : (OptFix.fixClob b a).hasShift = a.hasShift := by
  cases a with
  | mk la hs rd cl subs => rfl

theorem fixClob_reads (b : Block w) (a : OptAnalysis w) : (OptFix.fixClob b a).reads = a.reads := by
  cases a with
  | mk la hs rd cl subs => rfl

/-- Dead store elimination does not see the fix. -/
theorem fixClob_toDAnal (b : Block w) (a : OptAnalysis w) : (OptFix.fixClob b a).toDAnal = a.toDAnal := by
  cases a with
  | mk la hs rd cl subs =>
    show (OptAnalysis.mk la hs rd cl (OptFix.fixSubs b.insts subs)).toDAnal = _
    rw [toDAnal_mk, toDAnal_mk, fixSubs_toDAnals]

theorem dse_fixClob (b b0 : Block w) (a : OptAnalysis w) :
    deadStoreElimination b (OptFix.fixClob b0 a) = deadStoreElimination b a := by
  unfold deadStoreElimination
  rw [fixClob_toDAnal]

mutual
theorem shapeI_fixNode : ∀ (i : Instr w) (a : OptAnalysis w), ShapeI i a → ShapeI i (OptFix.fixNode i a)
  | .output _, _, h => by rw [ShapeI] at h; exact h.elim
  | .input _, _, h => by rw [ShapeI] at h; exact h.elim
  | .calc _, _, h => by rw [ShapeI] at h; exact h.elim
  | .loop c sh body o, .mk la hs rd cl subs, h => by
    rw [ShapeI] at h
    rw [OptFix.fixNode, ShapeI]
    exact ⟨h.1, h.2.1, fun hh => ⟨(h.2.2.1 hh).1, fixSubs_hasShift body subs (h.2.2.1 hh).2⟩,
      shapeL_fixSubs body subs h.2.2.2⟩
  | .ifnz c sh body, .mk la hs rd cl subs, h => by
    rw [ShapeI] at h
    rw [OptFix.fixNode, ShapeI]
    exact ⟨h.1, fun hh => ⟨(h.2.1 hh).1, fixSubs_hasShift body subs (h.2.1 hh).2⟩,
      shapeL_fixSubs body subs h.2.2⟩
/-- The fixed nodes fit the same code. -/
theorem shapeL_fixSubs : ∀ (l : List (Instr w)) (subs : List (OptAnalysis w)), ShapeL l subs →
    ShapeL l (OptFix.fixSubs l subs)
  | [], subs, h => by rw [fixSubs_nil]; exact h
  | .output x :: rest, subs, h => by
    rw [shapeL_cons_nonblock rfl] at h ⊢
    rw [fixSubs_cons_nonblock rfl]; exact shapeL_fixSubs rest subs h
  | .input x :: rest, subs, h => by
    rw [shapeL_cons_nonblock rfl] at h ⊢
    rw [fixSubs_cons_nonblock rfl]; exact shapeL_fixSubs rest subs h
  | .calc x :: rest, subs, h => by
    rw [shapeL_cons_nonblock rfl] at h ⊢
    rw [fixSubs_cons_nonblock rfl]; exact shapeL_fixSubs rest subs h
  | .loop c sh body o :: rest, subs, h => by
    rw [shapeL_cons_block rfl] at h ⊢
    obtain ⟨a, subs', rfl, ha, hr⟩ := h
    rw [fixSubs_cons_block rfl]
    exact ⟨_, _, rfl, shapeI_fixNode _ a ha, shapeL_fixSubs rest subs' hr⟩
  | .ifnz c sh body :: rest, subs, h => by
    rw [shapeL_cons_block rfl] at h ⊢
    obtain ⟨a, subs', rfl, ha, hr⟩ := h
    rw [fixSubs_cons_block rfl]
    exact ⟨_, _, rfl, shapeI_fixNode _ a ha, shapeL_fixSubs rest subs' hr⟩
end

/-! ### (2) the fixed analysis satisfies `TgtOkL` -/

theorem tgtOkL_nil (subs : List (OptAnalysis w)) : TgtOkL ([] : List (Instr w)) subs := by
  simp [TgtOkL]

theorem tgtOkL_cons_nonblock {i : Instr w} (hb : C01Dse.isBlock i = false) (rest : List (Instr w))
    (subs : List (OptAnalysis w)) : TgtOkL (i :: rest) subs ↔ TgtOkL rest subs := by
  cases subs <;> simp [TgtOkL, hb]

theorem tgtOkL_cons_block {i : Instr w} (hb : C01Dse.isBlock i = true) (rest : List (Instr w))
    (a : OptAnalysis w) (subs : List (OptAnalysis w)) :
    TgtOkL (i :: rest) (a :: subs) ↔ TgtOkI i a ∧ TgtOkL rest subs := by
  rw [TgtOkL, hb]; simp

theorem tgtOkL_cons_block_nil {i : Instr w} (hb : C01Dse.isBlock i = true) (rest : List (Instr w)) :
    TgtOkL (i :: rest) ([] : List (OptAnalysis w)) := by
  rw [TgtOkL, hb]; simp

mutual
theorem tgtOkI_fixNode : ∀ (i : Instr w) (a : OptAnalysis w), ShapeI i a → TgtOkI i (OptFix.fixNode i a)
  | .output _, _, h => by rw [ShapeI] at h; exact h.elim
  | .input _, _, h => by rw [ShapeI] at h; exact h.elim
  | .calc _, _, h => by rw [ShapeI] at h; exact h.elim
  | .loop c sh body o, .mk la hs rd cl subs, h => by
    rw [ShapeI] at h
    rw [OptFix.fixNode, TgtOkI]
    refine ⟨h.2.1, ?_, tgtOkL_fixSubs body subs h.2.2.2⟩
    intro hh
    obtain ⟨e1, e2⟩ := h.2.2.1 hh
    refine ⟨e1, noShiftL_of_shapeL body subs h.2.2.2 e2, ?_⟩
    intro x hx
    rw [hh]
    simpa using hx
  | .ifnz c sh body, .mk la hs rd cl subs, h => by
    rw [ShapeI] at h
    rw [OptFix.fixNode, TgtOkI]
    exact tgtOkL_fixSubs body subs h.2.2
/-- **The fixed analysis records every write of the non-moving loops of the code it fits.** -/
theorem tgtOkL_fixSubs : ∀ (l : List (Instr w)) (subs : List (OptAnalysis w)), ShapeL l subs →
    TgtOkL l (OptFix.fixSubs l subs)
  | [], subs, _ => tgtOkL_nil _
  | .output x :: rest, subs, h => by
    rw [shapeL_cons_nonblock rfl] at h
    rw [tgtOkL_cons_nonblock rfl, fixSubs_cons_nonblock rfl]; exact tgtOkL_fixSubs rest subs h
  | .input x :: rest, subs, h => by
    rw [shapeL_cons_nonblock rfl] at h
    rw [tgtOkL_cons_nonblock rfl, fixSubs_cons_nonblock rfl]; exact tgtOkL_fixSubs rest subs h
  | .calc x :: rest, subs, h => by
    rw [shapeL_cons_nonblock rfl] at h
    rw [tgtOkL_cons_nonblock rfl, fixSubs_cons_nonblock rfl]; exact tgtOkL_fixSubs rest subs h
  | .loop c sh body o :: rest, subs, h => by
    rw [shapeL_cons_block rfl] at h
    obtain ⟨a, subs', rfl, ha, hr⟩ := h
    rw [fixSubs_cons_block rfl, tgtOkL_cons_block rfl]
    exact ⟨tgtOkI_fixNode _ a ha, tgtOkL_fixSubs rest subs' hr⟩
  | .ifnz c sh body :: rest, subs, h => by
    rw [shapeL_cons_block rfl] at h
    obtain ⟨a, subs', rfl, ha, hr⟩ := h
    rw [fixSubs_cons_block rfl, tgtOkL_cons_block rfl]
    exact ⟨tgtOkI_fixNode _ a ha, tgtOkL_fixSubs rest subs' hr⟩
end

/-! ### (3) `TgtOkL` survives dead store elimination -/

mutual
theorem targetsI_sub : ∀ (i i' : Instr w), C01Dse.SubI i i' → ∀ x ∈ OptFix.targetsI i', x ∈ OptFix.targetsI i
  | .output _, _, h => by cases h; exact fun _ hx => hx
  | .input _, _, h => by cases h; exact fun _ hx => hx
  | .calc g, _, h => by
    cases h with
    | «calc» hs =>
      intro x hx
      rw [OptFix.targetsI] at hx ⊢
      exact (hs.map _).subset hx
  | .loop c sh body o, _, h => by
    cases h with
    | loop _ _ _ hb =>
      intro x hx
      rw [OptFix.targetsI] at hx ⊢
      exact targetsL_sub body _ hb x hx
  | .ifnz c sh body, _, h => by
    cases h with
    | ifnz _ _ hb =>
      intro x hx
      rw [OptFix.targetsI] at hx ⊢
      exact targetsL_sub body _ hb x hx
/-- Dead store elimination does not add write targets. -/
theorem targetsL_sub : ∀ (l l' : List (Instr w)), C01Dse.SubL l l' →
    ∀ x ∈ OptFix.targetsL l', x ∈ OptFix.targetsL l
  | [], _, h => by cases h; exact fun _ hx => hx
  | i :: rest, _, h => by
    cases h with
    | cons hi hr =>
      intro x hx
      rw [OptFix.targetsL] at hx ⊢
      rcases List.mem_append.1 hx with hx | hx
      · exact List.mem_append.2 (Or.inl (targetsI_sub i _ hi x hx))
      · exact List.mem_append.2 (Or.inr (targetsL_sub rest _ hr x hx))
end

mutual
theorem tgtOkI_sub : ∀ (i i' : Instr w) (a : OptAnalysis w), C01Dse.SubI i i' → TgtOkI i a → TgtOkI i' a
  | .output _, _, _, h, _ => by cases h; simp [TgtOkI]
  | .input _, _, _, h, _ => by cases h; simp [TgtOkI]
  | .calc _, _, _, h, _ => by cases h; simp [TgtOkI]
  | .loop c sh body o, _, .mk la hs rd cl subs, h, ht => by
    cases h with
    | loop _ _ _ hb =>
      rw [TgtOkI] at ht ⊢
      refine ⟨ht.1, ?_, tgtOkL_sub body _ subs hb ht.2.2⟩
      intro hh
      obtain ⟨e1, e2, e3⟩ := ht.2.1 hh
      exact ⟨e1, by rw [noShiftL_sub body _ hb]; exact e2, fun x hx => e3 x (targetsL_sub body _ hb x hx)⟩
  | .ifnz c sh body, _, .mk la hs rd cl subs, h, ht => by
    cases h with
    | ifnz _ _ hb =>
      rw [TgtOkI] at ht ⊢
      exact tgtOkL_sub body _ subs hb ht
theorem tgtOkL_sub : ∀ (l l' : List (Instr w)) (subs : List (OptAnalysis w)), C01Dse.SubL l l' →
    TgtOkL l subs → TgtOkL l' subs
  | [], _, _, h, _ => by cases h; exact tgtOkL_nil _
  | i :: rest, _, subs, h, ht => by
    cases h with
    | cons hi hr =>
      cases hb : C01Dse.isBlock i with
      | false =>
        rw [tgtOkL_cons_nonblock hb] at ht
        rw [tgtOkL_cons_nonblock (by rw [isBlock_sub hi]; exact hb)]
        exact tgtOkL_sub rest _ subs hr ht
      | true =>
        have hb' := (isBlock_sub hi).trans hb
        cases subs with
        | nil => exact tgtOkL_cons_block_nil hb' _
        | cons a subs' =>
          rw [tgtOkL_cons_block hb] at ht
          rw [tgtOkL_cons_block hb']
          exact ⟨tgtOkI_sub i _ a hi ht.1, tgtOkL_sub rest _ subs' hr ht.2⟩
end

/-- After a round (with the fix) and dead store elimination: the input of the next round. -/
theorem tgtOkL_dse {b b2 : Block w} {a : OptAnalysis w} (hs : ShapeL b.insts a.subBlocks)
    (hcl : CanonL b.insts) (hd : deadStoreElimination b (OptFix.fixClob b a) = .ok b2) :
    TgtOkL b2.insts (OptFix.fixClob b a).subBlocks ∧ ShapeL b2.insts (OptFix.fixClob b a).subBlocks ∧
    CanonL b2.insts := by
  obtain ⟨_, hsub⟩ := deadStoreElimination_sub hd
  rw [fixClob_subBlocks]
  exact ⟨tgtOkL_sub _ _ _ hsub (tgtOkL_fixSubs _ _ hs), shapeL_sub _ _ _ hsub (shapeL_fixSubs _ _ hs),
    canonL_sub _ _ hsub hcl⟩

/-- The fixed analysis of a round's output: `TgtOkL` and `ShapeL`. -/
theorem tgtOkL_round {b : Block w} {prevAnal : OptAnalysis w} {os os' : Orders} {b1 : Block w}
    {anal1 : OptAnalysis w} (hr : (optimizeOnce b prevAnal).run os = .ok ((b1, anal1), os'))
    (hcl : CanonL b.insts) :
    TgtOkL b1.insts (OptFix.fixClob b1 anal1).subBlocks ∧ ShapeL b1.insts (OptFix.fixClob b1 anal1).subBlocks ∧
    GoodL b1.insts := by
  have hs := optimizeOnce_shape hr hcl
  rw [fixClob_subBlocks]
  exact ⟨tgtOkL_fixSubs _ _ hs, shapeL_fixSubs _ _ hs, optimizeOnce_good hr hcl⟩

/-! ### (4) unfolding of the fixed pipeline -/

theorem optimizeOnceF_ok {b b' : Block w} {prev a' : OptAnalysis w} {os os' : Orders} :
    (OptFix.optimizeOnceF b prev).run os = .ok ((b', a'), os') ↔
      ∃ a0, (optimizeOnce b prev).run os = .ok ((b', a0), os') ∧ a' = OptFix.fixClob b' a0 := by
  unfold OptFix.optimizeOnceF
  rw [run_bind_ok]
  constructor
  · rintro ⟨⟨p, a0⟩, os1, h1, h2⟩
    rw [run_pure] at h2
    cases h2
    exact ⟨a0, h1, rfl⟩
  · rintro ⟨a0, h1, rfl⟩
    exact ⟨(b', a0), os', h1, rfl⟩

theorem optimizeRoundsF_succ_ok {n : Nat} {prog b' : Block w} {anal : OptAnalysis w} {os os' : Orders} :
    (OptFix.optimizeRoundsF (n + 1) prog anal).run os = .ok (b', os') ↔
      ∃ prog1 prog2 anal2 os2, deadStoreElimination prog anal = .ok prog1 ∧
        (OptFix.optimizeOnceF prog1 anal).run os = .ok ((prog2, anal2), os2) ∧
        (OptFix.optimizeRoundsF n prog2 anal2).run os2 = .ok (b', os') := by
  rw [OptFix.optimizeRoundsF, run_bind_ok]
  constructor
  · rintro ⟨prog1, os1, h1, h2⟩
    obtain ⟨hd, ho⟩ := run_monadLift_ok.1 h1
    simp only at hd ho
    subst ho
    rw [run_bind_ok] at h2
    obtain ⟨⟨prog2, anal2⟩, os2, h3, h4⟩ := h2
    exact ⟨prog1, prog2, anal2, os2, hd, h3, h4⟩
  · rintro ⟨prog1, prog2, anal2, os2, hd, h3, h4⟩
    refine ⟨prog1, os, run_monadLift_ok.2 ⟨hd, rfl⟩, ?_⟩
    rw [run_bind_ok]
    exact ⟨(prog2, anal2), os2, h3, h4⟩

theorem optimizeRoundsF_zero_ok {prog b' : Block w} {anal : OptAnalysis w} {os os' : Orders} :
    (OptFix.optimizeRoundsF 0 prog anal).run os = .ok (b', os') ↔ b' = prog ∧ os' = os := by
  rw [OptFix.optimizeRoundsF, run_pure]
  constructor
  · intro h; cases h; exact ⟨rfl, rfl⟩
  · rintro ⟨rfl, rfl⟩; rfl

theorem optimizeF_ok_iff {b b' : Block w} {level : Nat} {orders : Orders} :
    OptFix.optimizeF b level orders = .ok b' ↔ (OptFix.optimizeMF b level).run orders = .ok (b', []) := by
  unfold OptFix.optimizeF
  cases h : (OptFix.optimizeMF b level).run orders with
  | error e => simp
  | ok v =>
    obtain ⟨prog, os⟩ := v
    cases os with
    | nil => simp
    | cons o os => simp

theorem optimizeMF_zero (b : Block w) : OptFix.optimizeMF b 0 = pure b := rfl

theorem optimizeMF_succ (b : Block w) (n : Nat) :
    OptFix.optimizeMF b (n + 1) = (do
      let (prog, anal) ← OptFix.optimizeOnceF b (topAnalysis [] [])
      OptFix.optimizeRoundsF (min (n + 1) 3 - 1) prog anal) := by
  unfold OptFix.optimizeMF
  simp

#print axioms fixClob_toDAnal
#print axioms tgtOkL_fixSubs
#print axioms tgtOkL_dse
#print axioms optimizeRoundsF_succ_ok

end OptProof
end Hpbf
