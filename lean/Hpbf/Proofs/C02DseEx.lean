/-
C02, `dead_store_elim`, part 3: the precondition is decidable; non-vacuity; witnesses that
* the strong observation `ObsEq'` fails (a run that STOPS between a removed store and the overwriting one),
* the structural precondition (no `memZero`) is necessary,
* the bookkeeping precondition (`num_uses` not smaller than the number of reads) is necessary,
all by `decide`.
-/
import Hpbf.Proofs.C02DsePass
import Hpbf.Proofs.C02EmitBase

namespace Hpbf
namespace C02

open Bc BcWf BcGen C11

variable {w : Nat}

/-! ### a boolean test equivalent to `DsePre` -/

def dseDstTmpOk (n : Nat) (ins : Instr w) : Bool :=
  match arith? ins with
  | some (_, .tmp t, _, _) => decide (t < n)
  | _ => true

def dsePreCheck (s : St w) : Bool :=
  s.insts.all noMemZero &&
  (List.range s.ranges.size).all (fun t => decide (dseUseCount s.insts t ≤ dseNuse s.ranges t)) &&
  s.insts.all (fun ins => (uses ins).all (fun t => decide (t < s.ranges.size)) && dseDstTmpOk s.ranges.size ins)

theorem dse_list_sum_zero {α : Type} (f : α → Nat) : ∀ (l : List α), (∀ x ∈ l, f x = 0) → (l.map f).sum = 0 := by
  intro l
  induction l with
  | nil => intro _; rfl
  | cons a l ih =>
    intro h
    simp only [List.map_cons, List.sum_cons]
    rw [h a (by simp), ih (fun x hx => h x (by simp [hx]))]

theorem dse_useCount_zero_of_not_uses {I : Array (Instr w)} {t : Nat} (h : ∀ ins ∈ I, t ∉ uses ins) :
    dseUseCount I t = 0 := by
  unfold dseUseCount
  apply dse_list_sum_zero
  intro x hx
  exact List.count_eq_zero_of_not_mem (h x (by simpa using hx))

theorem dse_nuse_pos_lt {rs : Array RangeInfo} {t : Nat} (h : 0 < dseNuse rs t) : t < rs.size := by
  unfold dseNuse at h
  cases hr : rs[t]? with
  | none => rw [hr] at h; simp at h
  | some r => exact C07_lt hr

theorem dse_dstTmpOk_mkArith (n : Nat) (op : BcGen.Op) (t : Nat) (a b : Loc w) :
    dseDstTmpOk n (mkArith op (.tmp t) a b) = decide (t < n) := by
  cases op <;> rfl

theorem dsePre_iff_check (s : St w) : DsePre s ↔ dsePreCheck s = true := by
  unfold dsePreCheck
  simp only [Bool.and_eq_true, Array.all_eq_true', List.all_eq_true, List.mem_range, decide_eq_true_eq]
  constructor
  · intro h
    refine ⟨⟨fun ins hins => h.noZero ins hins, fun t _ => h.uses t⟩, fun ins hins => ⟨fun t ht => ?_, ?_⟩⟩
    · have h1 : 0 < dseCnt t ins := List.count_pos_iff.mpr ht
      have h2 := dse_cnt_le_useCount hins t
      have h3 := h.uses t
      exact dse_nuse_pos_lt (by omega)
    · obtain ⟨i, hi⟩ := Array.getElem?_of_mem hins
      cases ins <;> try rfl
      all_goals (rename_i d a b; cases d <;> try rfl)
      · simpa [dseDstTmpOk, arith?] using h.dst i .add _ _ _ hi
      · simpa [dseDstTmpOk, arith?] using h.dst i .sub _ _ _ hi
      · simpa [dseDstTmpOk, arith?] using h.dst i .mul _ _ _ hi
  · rintro ⟨⟨h1, h2⟩, h3⟩
    refine ⟨h1, fun t => ?_, fun i op t a b hi => ?_⟩
    · by_cases ht : t < s.ranges.size
      · exact h2 t ht
      · rw [dse_useCount_zero_of_not_uses]
        · exact Nat.zero_le _
        · intro ins hins hm
          exact ht ((h3 ins hins).1 t hm)
    · have := (h3 _ (Array.mem_of_getElem? hi)).2
      rw [dse_dstTmpOk_mkArith] at this
      simpa using this

instance (s : St w) : Decidable (DsePre s) := decidable_of_iff _ (dsePre_iff_check s).symm

/-! ### non-vacuity -/

def dseR (n : Nat) : RangeInfo := { created := 0, firstUse := none, lastUse := none, numUses := n }

/-- A dead store (index 1, its source temporary becomes unused), then dead code for a temporary (index 0 after
the decrement); the store at index 4 is the overwriting one; the store at index 3 is kept (cell 1 is read by
`out`); the last store is kept (the end of the program does not make stores dead). -/
def exDse : St 8 :=
  { insts := #[.add (.tmp 0) (.imm 1#8) (.imm 2#8), .copy (.mem 0) (.tmp 0), .copy (.tmp 1) (.imm 5#8),
               .copy (.mem 1) (.tmp 1), .copy (.mem 0) (.tmp 1), .out 1, .copy (.mem 2) (.imm 9#8)],
    ranges := #[dseR 1, dseR 2], live := #[] }

theorem exDse_pre : DsePre exDse := by decide +kernel

theorem exDse_result :
    (deadStoreElim exDse).toOption.map (fun s => (s.insts, s.ranges.toList.map (·.numUses))) =
      some (#[.noop, .noop, .copy (.tmp 1) (.imm 5#8), .copy (.mem 1) (.tmp 1), .copy (.mem 0) (.tmp 1), .out 1,
              .copy (.mem 2) (.imm 9#8)], [0, 2]) := by decide +kernel

/-! ### the strong observation fails -/

def dseEnvRefuse : Env := { input := none, sink := true, outOk := some 0 }
def dseEnvSink : Env := { input := none, sink := true, outOk := none }

/-- `out 1` reads another cell, so the first store is dead; if the sink refuses the byte the run stops with
cell 0 still holding 7 in the original and 0 after the pass. -/
def exDseStop : St 8 :=
  { insts := #[.copy (.mem 0) (.imm 7#8), .out 1, .copy (.mem 0) (.imm 3#8)], live := #[] }

theorem dse_stopped_tape_differs :
    DsePre exDseStop ∧
    (deadStoreElim exDseStop).toOption.map (·.insts) = some #[.noop, .out 1, .copy (.mem 0) (.imm 3#8)] ∧
    (let o1 := Bc.run (progOf exDseStop 0 0 1) false 0 10 dseEnvRefuse
     let o2 := Bc.run ({ temps := 0, minAcc := 0, maxAcc := 1, live := #[],
                         insts := #[.noop, .out 1, .copy (.mem 0) (.imm 3#8)] } : Program 8) false 0 10
                  dseEnvRefuse
     o1.tag = 1 ∧ o2.tag = 1 ∧ o1.cfg.st.trace = [Ev.outFail 0] ∧ o2.cfg.st.trace = [Ev.outFail 0] ∧
     o1.cfg.st.tape.get 0 = 7#8 ∧ o2.cfg.st.tape.get 0 = 0#8) := by decide +kernel

theorem dse_runCfg_add (p : Program w) (limited : Bool) : ∀ (f g : Nat) (c : Cfg w),
    (runCfg p limited f c).tag ≠ 4 → runCfg p limited (f + g) c = runCfg p limited f c := by
  intro f
  induction f with
  | zero => intro g c h; exact absurd rfl h
  | succ f ih =>
    intro g c h
    rw [show f + 1 + g = (f + g) + 1 by omega]
    simp only [runCfg] at h ⊢
    cases hs : step p limited c with
    | next c' => rw [hs] at h; exact ih g c' h
    | halt c' => rfl
    | stop c' => rfl
    | interrupted c' => rfl
    | bad c' => rfl

theorem dse_obsEq'_stopped_tape {o1 o2 : Outcome w} (h : ObsEq' o1 o2) (ht : o1.tag = 1) (x : Int) :
    o1.cfg.st.tape.get x = o2.cfg.st.tape.get x := by
  cases o1 <;> cases o2 <;> simp only [ObsEq', OutRel] at h <;> simp only [Outcome.tag] at ht <;> try omega
  exact h.1.tape x

def exDseStopQ : Program 8 :=
  { temps := 0, minAcc := 0, maxAcc := 1, live := #[], insts := #[.noop, .out 1, .copy (.mem 0) (.imm 3#8)] }

/-- Hence `ObsEq'` (which compares the tape of `stopped` outcomes) does not hold, whatever the fuel given to the
transformed program: `BehEq` fails for this state. -/
theorem dse_not_obsEq' : ¬ ∃ fuel',
    ObsEq' (Bc.run (progOf exDseStop 0 0 1) false 0 10 dseEnvRefuse) (Bc.run exDseStopQ false 0 fuel' dseEnvRefuse) := by
  rintro ⟨fuel', h⟩
  have h1 : (Bc.run (progOf exDseStop 0 0 1) false 0 10 dseEnvRefuse).tag = 1 := by decide +kernel
  have h7 : (Bc.run (progOf exDseStop 0 0 1) false 0 10 dseEnvRefuse).cfg.st.tape.get 0 = 7#8 := by
    decide +kernel
  have h2 : (Bc.run exDseStopQ false 0 fuel' dseEnvRefuse).cfg.st.tape.get 0 = 0#8 := by
    rcases Nat.lt_or_ge fuel' 2 with hlt | hge
    · have : fuel' = 0 ∨ fuel' = 1 := by omega
      rcases this with rfl | rfl <;> decide +kernel
    · obtain ⟨g, rfl⟩ : ∃ g, fuel' = 2 + g := ⟨fuel' - 2, by omega⟩
      have e : Bc.run exDseStopQ false 0 (2 + g) dseEnvRefuse = Bc.run exDseStopQ false 0 2 dseEnvRefuse :=
        dse_runCfg_add exDseStopQ false 2 g _ (by decide +kernel)
      rw [e]
      decide +kernel
  have := dse_obsEq'_stopped_tape h h1 0
  rw [h7, h2] at this
  exact absurd this (by decide)

/-- The same phenomenon on a state REACHABLE from emission: the IR program `[0] := 7; output [1]; [0] := 3`.
The pass removes the first store; with a sink that refuses the byte both programs stop with the same events
(`outFail 0`), but cell 0 holds 7 before the pass and 0 after it.  (Only the tape of a run that stopped at a
failing I/O operation differs; the event trace never does, see `deadStoreElim_preserves`.) -/
def exDseIr : Ir.Block 8 := { shift := 0, insts := [.load 0 7#8, .output 1, .load 0 3#8] }

def exDseIrP : Array (Instr 8) :=
  #[.copy (.tmp 0) (.imm 7#8), .copy (.mem 0) (.tmp 0), .out 1, .copy (.tmp 1) (.imm 3#8), .copy (.mem 0) (.tmp 1)]
def exDseIrQ : Array (Instr 8) :=
  #[.copy (.tmp 0) (.imm 7#8), .noop, .out 1, .copy (.tmp 1) (.imm 3#8), .copy (.mem 0) (.tmp 1)]

theorem dse_stopped_tape_differs_reachable :
    (emitState exDseIr false).toOption.map (·.insts) = some exDseIrP ∧
    ((emitState exDseIr false).toOption.bind (fun s => (deadStoreElim s).toOption)).map (·.insts)
      = some exDseIrQ ∧
    (let o1 := Bc.run ({ temps := 2, minAcc := 0, maxAcc := 1, live := #[], insts := exDseIrP } : Program 8)
        false 0 10 dseEnvRefuse
     let o2 := Bc.run ({ temps := 2, minAcc := 0, maxAcc := 1, live := #[], insts := exDseIrQ } : Program 8)
        false 0 10 dseEnvRefuse
     o1.tag = 1 ∧ o2.tag = 1 ∧ o1.cfg.st.trace = [Ev.outFail 0] ∧ o2.cfg.st.trace = [Ev.outFail 0] ∧
     o1.cfg.st.tape.get 0 = 7#8 ∧ o2.cfg.st.tape.get 0 = 0#8) := by decide +kernel

/-! ### necessity of the preconditions -/

/-- Without "no `memZero`": the scan does not see that `memZero 0` is a READ of cell 0 (`remMem` only looks at
`mem`), so the store of 7 is removed and the program prints 0 instead of 7. -/
def exDseZero : St 8 :=
  { insts := #[.copy (.mem 0) (.imm 7#8), .copy (.mem 1) (.memZero 0), .copy (.mem 0) (.imm 3#8), .out 1],
    live := #[] }

theorem dse_noMemZero_necessary :
    ¬ DsePre exDseZero ∧
    (deadStoreElim exDseZero).toOption.map (·.insts) =
      some #[.noop, .copy (.mem 1) (.memZero 0), .copy (.mem 0) (.imm 3#8), .out 1] ∧
    (Bc.run (progOf exDseZero 0 0 1) false 0 10 dseEnvSink).cfg.st.trace = [Ev.out 7] ∧
    (Bc.run ({ temps := 0, minAcc := 0, maxAcc := 1, live := #[],
               insts := #[.noop, .copy (.mem 1) (.memZero 0), .copy (.mem 0) (.imm 3#8), .out 1] } : Program 8)
      false 0 10 dseEnvSink).cfg.st.trace = [Ev.out 0] := by decide +kernel

def dseErr {α : Type} : Except String α → Option String
  | .error e => some e
  | .ok _ => none

/-- Without the bookkeeping: `num_uses = 0` for a temporary that IS read removes its definition (prints 0
instead of 3); an empty `ranges` makes the pass fail (the Rust would panic on the index). -/
def exDseBook : St 8 :=
  { insts := #[.add (.tmp 0) (.imm 1#8) (.imm 2#8), .copy (.mem 0) (.tmp 0), .out 0],
    ranges := #[dseR 0], live := #[] }

theorem dse_bookkeeping_necessary :
    ¬ DsePre exDseBook ∧
    (deadStoreElim exDseBook).toOption.map (·.insts) = some #[.noop, .copy (.mem 0) (.tmp 0), .out 0] ∧
    (Bc.run (progOf exDseBook 1 0 0) false 0 10 dseEnvSink).cfg.st.trace = [Ev.out 3] ∧
    (Bc.run ({ temps := 1, minAcc := 0, maxAcc := 0, live := #[],
               insts := #[.noop, .copy (.mem 0) (.tmp 0), .out 0] } : Program 8)
      false 0 10 dseEnvSink).cfg.st.trace = [Ev.out 0] ∧
    dseErr (deadStoreElim { exDseBook with ranges := #[] }) = some "dead_store_elim:ranges-index" ∧
    -- a dead store whose source has `num_uses = 0`: the decrement underflows
    dseErr (deadStoreElim
      ({ insts := #[.copy (.mem 0) (.tmp 0), .copy (.mem 0) (.imm 1#8)], ranges := #[dseR 0] } : St 8))
      = some "dead_store_elim:num_uses-underflow" := by decide +kernel

end C02
end Hpbf
