/-
The liveness invariant of the soundness proof: which cells may differ between the run of the original
program and the run of the program after dead store elimination (`DeadI` / `DeadK`), that
`willBeOverwritten` certifies it, and how it is transported through the instructions of a block.
-/
import Hpbf.Proofs.C01DseSem

namespace Hpbf
namespace C01Dse
open Ir OptDse

variable {w : Nat}

/-- Pass data of a nested block that is being executed. -/
structure Frame where
  /-- pass state at the START of the block body -/
  sub : DState
  /-- pass state of the enclosing block right after the nested block (including `read cond`) -/
  par : DState

/-- `v` (offset from the current pointer) is dead at a point of a block where the pass state is `s`, given
that `K` describes deadness once the block body has finished. -/
def DeadI (s : DState) (K : Int → Prop) (v : Int) : Prop :=
  v ∈ s.written ∨ (v ∉ s.reads ∧ s.hadShift = false ∧ K v)

/-- The back edge of the block of `fr` keeps `v` dead. -/
def LoopOK (fr : Frame) (v : Int) : Prop :=
  fr.sub.anal.atMostOnce = true ∨
    (fr.sub.anal.hasShift = false ∧ (v ∉ fr.sub.anal.reads ∨ (v ∉ fr.sub.reads ∧ fr.sub.hadShift = false)))

/-- `v` (offset from the pointer at the end of the innermost body, before its `shift`) is dead when the
innermost body finishes. -/
def DeadK : List Frame → Int → Prop
  | [], _ => True
  | fr :: frs, v => LoopOK fr v ∧ DeadI fr.par (DeadK frs) (v - fr.sub.shift)

/-- The `anal` / `shift` fields along the chain are those of the blocks. -/
def ChainOk : DState → List Frame → Prop
  | _, [] => True
  | s, fr :: frs => s.anal = fr.sub.anal ∧ s.shift = fr.sub.shift ∧ ChainOk fr.par frs

theorem ChainOk.of_eq {s s' : DState} {frs : List Frame} (h : ChainOk s frs) (ha : s'.anal = s.anal)
    (hs : s'.shift = s.shift) : ChainOk s' frs := by
  cases frs with
  | nil => trivial
  | cons fr frs => exact ⟨ha.trans h.1, hs.trans h.2.1, h.2.2⟩

/-- `willBeOverwritten` certifies deadness. -/
theorem wbo_dead : ∀ (frs : List Frame) (s : DState) (v : Int), ChainOk s frs →
    willBeOverwritten s (frs.map Frame.par) v = true → DeadI s (DeadK frs) v
  | [], s, v, _, h => by
    rw [List.map_nil, wbo_nil] at h
    rcases h with h | ⟨h1, h2⟩
    · exact Or.inl h
    · exact Or.inr ⟨h1, h2, trivial⟩
  | fr :: frs, s, v, hc, h => by
    rw [List.map_cons, wbo_cons] at h
    rcases h with h | ⟨h1, h2, h3, h4⟩
    · exact Or.inl h
    · refine Or.inr ⟨h1, h2, ?_, ?_⟩
      · rw [hc.1] at h3
        rcases h3 with h3 | ⟨h3, h3'⟩
        · exact Or.inl h3
        · exact Or.inr ⟨h3, Or.inl h3'⟩
      · rw [hc.2.1] at h4
        exact wbo_dead frs fr.par _ hc.2.2 h4

/-! ### transport through reads and writes -/

theorem DeadI.of_readAll {s : DState} {K : Int → Prop} {v : Int} {vs : List Int}
    (h : DeadI (readAll s vs) K v) : DeadI s K v ∧ v ∉ vs := by
  rcases h with h | ⟨h1, h2, h3⟩
  · rw [mem_readAll_written] at h
    exact ⟨Or.inl h.1, h.2⟩
  · rw [mem_readAll_reads] at h1
    rw [readAll_hadShift] at h2
    exact ⟨Or.inr ⟨fun h => h1 (Or.inr h), h2, h3⟩, fun h => h1 (Or.inl h)⟩

theorem DeadI.of_read {s : DState} {K : Int → Prop} {v x : Int}
    (h : DeadI (s.read x) K v) : DeadI s K v ∧ v ≠ x := by
  have := DeadI.of_readAll (s := s) (vs := [x]) h
  exact ⟨this.1, fun e => this.2 (by simp [e])⟩

theorem DeadI.of_writeAll {s : DState} {K : Int → Prop} {v : Int} {ws : List Int}
    (h : DeadI (writeAll s ws) K v) (hv : v ∉ ws) : DeadI s K v := by
  rcases h with h | ⟨h1, h2, h3⟩
  · rw [mem_writeAll_written] at h
    rcases h with h | h
    · exact absurd h hv
    · exact Or.inl h
  · rw [mem_writeAll_reads] at h1
    rw [writeAll_hadShift] at h2
    exact Or.inr ⟨fun h => h1 ⟨h, hv⟩, h2, h3⟩

theorem DeadI.of_write {s : DState} {K : Int → Prop} {v x : Int}
    (h : DeadI (s.write x) K v) (hv : v ≠ x) : DeadI s K v :=
  DeadI.of_writeAll (s := s) (ws := [x]) h (by simp [hv])

/-- The end of a body: the pass state is the initial one. -/
theorem DeadI.of_new {shift : Int} {A : DAnal} {K : Int → Prop} {v : Int}
    (h : DeadI (DState.new shift A) K v) : K v := by
  rcases h with h | ⟨_, _, h⟩
  · simp [DState.new] at h
  · exact h

theorem DeadI.new {shift : Int} {A : DAnal} {K : Int → Prop} {v : Int} (h : K v) :
    DeadI (DState.new shift A) K v :=
  Or.inr ⟨by simp [DState.new], rfl, h⟩

/-! ### a `calc` -/

/-- Not a target of the original `calc`: deadness before implies deadness after. -/
theorem dead_calc_other {P : List DState} {calcs : List (Int × Expr w)} {s : DState} {K : Int → Prop} {v : Int}
    (h : DeadI (readAll (calcScan P calcs s []).1
      ((keptCalcs P calcs s).flatMap (fun c => Expr.variables c.2))) K v)
    (hv : v ∉ calcs.map Prod.fst) : DeadI s K v := by
  obtain ⟨ws, hws, hsub⟩ := calcScan_state P calcs s []
  rw [hws] at h
  exact (DeadI.of_readAll h).1.of_writeAll (fun hm => hv (hsub v hm))

/-- Dead before a `calc` of the new program: not read by it. -/
theorem dead_calc_noread {P : List DState} {calcs : List (Int × Expr w)} {s : DState} {K : Int → Prop} {v : Int}
    (h : DeadI (readAll (calcScan P calcs s []).1
      ((keptCalcs P calcs s).flatMap (fun c => Expr.variables c.2))) K v) :
    v ∉ (keptCalcs P calcs s).flatMap (fun c => Expr.variables c.2) :=
  (DeadI.of_readAll h).2

theorem mem_keptCalcs {P : List DState} {calcs : List (Int × Expr w)} {s : DState} {ve : Int × Expr w} :
    ve ∈ keptCalcs P calcs s ↔ ve ∈ calcs ∧ ve.1 ∉ (calcScan P calcs s []).2 := by
  unfold keptCalcs
  simp

/-- A deleted target is dead after the `calc`. -/
theorem dead_calc_removed {frs : List Frame} {calcs : List (Int × Expr w)} {s : DState} {v : Int}
    (hc : ChainOk s frs) (hnd : (calcs.map Prod.fst).Nodup)
    (hv : v ∈ (calcScan (frs.map Frame.par) calcs s []).2) : DeadI s (DeadK frs) v := by
  rcases calcScan_rem (frs.map Frame.par) calcs s [] v hv with h | ⟨_, ws, _, h2, h3⟩
  · simp at h
  · have := wbo_dead frs (writeAll s ws) v (hc.of_eq (by simp) (by simp)) h3
    exact this.of_writeAll (h2 hnd)

/-! ### a nested block -/

/-- The nested block is skipped (its condition is zero): dead before it implies dead after it, unless the
analysis claims `at_least_once`. -/
theorem dead_skip {s sub : DState} {A1 : DAnal} {cond v : Int} {K : Int → Prop}
    (h : DeadI (absorbSub (s.read cond) sub A1 cond) K v) (hlo : A1.atLeastOnce = false) : DeadI s K v := by
  rcases h with h | ⟨h1, h2, h3⟩
  · rw [mem_absorb_written] at h
    obtain ⟨_, _, h | h⟩ := h
    · rw [hlo] at h; exact absurd h.1 (by simp)
    · have := h.2
      rw [read_written, mem_srem] at this
      exact Or.inl this.1
  · rw [mem_absorb_reads] at h1
    rw [absorb_hadShift, read_hadShift] at h2
    have hA : A1.hasShift = false := by
      cases hh : A1.hasShift
      · rfl
      · rw [hh] at h2; simp at h2
    have hs : s.hadShift = false := by
      cases hh : s.hadShift
      · rfl
      · rw [hh] at h2; simp at h2
    refine Or.inr ⟨fun hr => h1 (Or.inr (Or.inr ⟨hA, ?_, ?_⟩)), hs, h3⟩
    · rw [read_reads, mem_sins]; exact Or.inr hr
    · rw [hlo]; simp

/-- The nested block is entered: dead before it implies dead at the start of its body. `hst`: the static facts
about a block marked `has_shift = false`. -/
theorem dead_enter {s sub : DState} {A1 : DAnal} {cond v : Int} {frs : List Frame}
    (h : DeadI (absorbSub (s.read cond) sub A1 cond) (DeadK frs) v)
    (hsa : sub.anal = A1) (hst : A1.hasShift = false → sub.shift = 0 ∧ sub.hadShift = false) :
    DeadI sub (DeadK (⟨sub, s.read cond⟩ :: frs)) v := by
  rcases h with h | ⟨h1, h2, h3⟩
  · rw [mem_absorb_written] at h
    obtain ⟨_, hnr, h | h⟩ := h
    · exact Or.inl h.2
    · obtain ⟨hsh, hhs⟩ := hst h.1
      refine Or.inr ⟨hnr, hhs, ?_, ?_⟩
      · exact Or.inr ⟨by rw [hsa]; exact h.1, Or.inr ⟨hnr, hhs⟩⟩
      · show DeadI (s.read cond) (DeadK frs) (v - sub.shift)
        rw [hsh, Int.sub_zero]
        exact Or.inl h.2
  · rw [mem_absorb_reads] at h1
    rw [absorb_hadShift, read_hadShift] at h2
    have hA : A1.hasShift = false := by
      cases hh : A1.hasShift
      · rfl
      · rw [hh] at h2; simp at h2
    have hs : s.hadShift = false := by
      cases hh : s.hadShift
      · rfl
      · rw [hh] at h2; simp at h2
    obtain ⟨hsh, hhs⟩ := hst hA
    have hnr : v ∉ sub.reads := fun hr => h1 (Or.inr (Or.inl hr))
    by_cases hw : v ∈ sub.written
    · exact Or.inl hw
    · refine Or.inr ⟨hnr, hhs, ?_, ?_⟩
      · exact Or.inr ⟨by rw [hsa]; exact hA, Or.inr ⟨hnr, hhs⟩⟩
      · show DeadI (s.read cond) (DeadK frs) (v - sub.shift)
        rw [hsh, Int.sub_zero]
        refine Or.inr ⟨fun hr => h1 (Or.inr (Or.inr ⟨hA, hr, fun hh => hw hh.2⟩)), hs, h3⟩

/-- Dead before a nested block of the new program: its condition is not the dead cell. -/
theorem dead_head_ne_cond {s sub : DState} {A1 : DAnal} {cond v : Int} {K : Int → Prop}
    (h : DeadI (absorbSub (s.read cond) sub A1 cond) K v) : v ≠ cond := by
  rcases h with h | ⟨h1, _, _⟩
  · rw [mem_absorb_written] at h
    exact h.1
  · rw [mem_absorb_reads] at h1
    exact fun e => h1 (Or.inl e)

end C01Dse
end Hpbf
