/-
C11 for the output of `allocate_temps`, part 3: the set of physical temporaries that hold a needed value.

`Held s tr k r`: before instruction `k`, the replacement table maps some virtual temporary that is still needed
(`LiveAt`) to the physical temporary `r`.  For the output code (`q` = final instruction `k`):
* `held_uses`  – `q` reads only held temporaries;
* `held_succ`  – what is held at `k + 1` was held at `k` or is written by `q`;
* `held_jump`  – what is held at the target of a branch was held at the branch;
* `held_zero`  – nothing is held at `0`;
* `held_mask`  – a register held at `k + 1` and not written by `q` has its bit set in the bitmap of round `k`.
-/
import Hpbf.Proofs.C02AllocSim2
import Hpbf.Proofs.C11AllocMask
set_option linter.unusedSimpArgs false

namespace Hpbf
namespace C02
namespace Alloc

open Bc BcWf BcGen C11

variable {w : Nat} {s : St w} {numRegs : Nat} {tr : Nat → ASt w}

def Held (s : St w) (tr : Nat → ASt w) (k r : Nat) : Prop :=
  ∃ t, alGet (tr k).repl t = some (.tmp r) ∧ LiveAt s k (tr k) t

/-! ### instructions -/

theorem uses_of_not_plain {x : Instr w} (h : plain x = false) : BcWf.uses x = [] := by
  cases x <;> first | rfl | cases h

theorem defs_of_not_plain {x : Instr w} (h : plain x = false) : BcWf.defs x = [] := by
  cases x <;> first | rfl | cases h

theorem uses_setDst (x : Instr w) (d : Loc w) : BcWf.uses (setDst x d) = BcWf.uses x := by
  cases x <;> rfl

theorem defs_setDst {x : Instr w} {t : Nat} (h : dstTmp? x = some t) (r : Nat) :
    BcWf.defs (setDst x (.tmp r)) = [r] := by
  cases x <;> first | rfl | (simp [dstTmp?] at h)

/-- A temporary read by a rewritten instruction is the location of a temporary read by the original. -/
theorem uses_rwInst {repl : List (Nat × Loc w)} {cur new : Instr w} (h : rwInst repl cur = .ok new) {r : Nat}
    (hr : r ∈ BcWf.uses new) : ∃ u, u ∈ BcWf.uses cur ∧ alGet repl u = some (.tmp r) := by
  have key : ∀ {l l' : Loc w}, replSrc repl l = .ok l' → r ∈ locTmp l' →
      ∃ u, u ∈ locTmp l ∧ alGet repl u = some (.tmp r) := by
    intro l l' hl hm
    rcases replSrc_ok hl with ⟨u, rfl, hu⟩ | ⟨hnt, rfl⟩
    · cases l' with
      | tmp r' =>
        simp only [locTmp, List.mem_singleton] at hm
        subst hm
        exact ⟨u, by simp [locTmp], hu⟩
      | _ => simp [locTmp] at hm
    · cases l' with
      | tmp i => exact absurd rfl (hnt i)
      | _ => simp [locTmp] at hm
  rcases rwInst_cases h with ⟨d, src, src', rfl, g, rfl⟩ | ⟨op, d, s0, s1, s0', s1', rfl, g0, g1, rfl⟩ |
      ⟨hc, rfl⟩ | ⟨rfl, rfl⟩
  · exact key g hr
  · rw [uses_mkArith] at hr ⊢
    rcases List.mem_append.1 hr with h0 | h1
    · obtain ⟨u, hu, hg⟩ := key g0 h0
      exact ⟨u, List.mem_append_left _ hu, hg⟩
    · obtain ⟨u, hu, hg⟩ := key g1 h1
      exact ⟨u, List.mem_append_right _ hu, hg⟩
  · rw [uses_of_not_plain hc] at hr; cases hr
  · cases hr

/-! ### liveness across one round -/

theorem liveAt_back (hp : AllocPre s) {k : Nat} {a a' : ASt w} (K : StepKind s k a a') {t : Nat}
    (h : LiveAt s (k + 1) a' t) : LiveAt s k a t := by
  rcases h with ⟨r, L, g1, g2, g3⟩ | ⟨f, op, m, t'', s0, s1, hf, hs⟩
  · exact Or.inl ⟨r, L, g1, g2, by omega⟩
  · rcases stepKind_fused_back K hf with h | ⟨hPk, _, _⟩
    · exact Or.inr ⟨f, op, m, t'', s0, s1, h, hs⟩
    · obtain ⟨r, L, g1, g2, _, g4⟩ := hp.uses k _ t hPk (by
        rw [uses_mkArith]; rcases hs with rfl | rfl <;> simp [locTmp])
      exact Or.inl ⟨r, L, g1, g2, g4⟩

section
variable (hp : AllocPre s) (T : Trace s numRegs tr)
include hp T

/-- The final instruction `k` is the one left by round `k`. -/
theorem final_inst {k : Nat} (hk : k < s.insts.size) :
    (tr s.insts.size).st.insts[k]? = (tr (k + 1)).st.insts[k]? :=
  trace_insts_final hp T s.insts.size (by omega) (Nat.le_refl _)

omit hp in
theorem held_zero (r : Nat) : ¬ Held s tr 0 r := by
  rintro ⟨t, h, _⟩
  rw [T.init] at h
  simp [initASt, alGet] at h

theorem held_uses {k : Nat} (hk : k < s.insts.size) {q : Instr w} (hq : (tr (k + 1)).st.insts[k]? = some q)
    {r : Nat} (hr : r ∈ BcWf.uses q) : Held s tr k r := by
  have hI := trace_inv hp T k (by omega)
  have K := (trace_sum hp T hk).kind
  cases K with
  | other x hx hpl hq' hi hr' =>
    rw [hq] at hq'; cases hq'
    rw [uses_of_not_plain hpl] at hr; cases hr
  | fuse op t s0 s1 f m hx hPk hkf hPf hfa hq' hf hi hnone hr' =>
    rw [hq] at hq'; cases hq'
    cases hr
  | rw cur new q' hx hpl hn hq' hi hd =>
    rw [hq] at hq'; cases hq'
    have hrn : r ∈ BcWf.uses new := by
      rcases hd with ⟨_, e, _⟩ | ⟨t, _, _, _, ⟨e, _⟩ | ⟨_, _, _, e, _⟩ | ⟨r0, e, _⟩⟩
      · rw [e] at hr; exact hr
      · rw [e] at hr; cases hr
      · rw [e] at hr; cases hr
      · rw [e, uses_setDst] at hr; exact hr
    obtain ⟨u, hu, hg⟩ := uses_rwInst hn hrn
    refine ⟨u, hg, ?_⟩
    rcases hI.fut k (Nat.le_refl _) with hsame | ⟨op, m, t, s0, s1, hF⟩
    · have hx' : s.insts[k]? = some cur := by rw [← hsame]; exact hx
      exact (opnd_live_a hp hI hx' hx hu).1
    · have h2 := hF.2.2
      rw [hx] at h2; cases h2
      rw [uses_mkArith] at hu
      refine (opnd_live_b hp hI hF (u := u) ?_).1
      rcases List.mem_append.1 hu with h0 | h1
      · left
        cases s0 with
        | tmp i => simp only [locTmp, List.mem_singleton] at h0; rw [h0]
        | _ => simp [locTmp] at h0
      · right
        cases s1 with
        | tmp i => simp only [locTmp, List.mem_singleton] at h1; rw [h1]
        | _ => simp [locTmp] at h1

theorem held_succ {k : Nat} (hk : k < s.insts.size) {q : Instr w} (hq : (tr (k + 1)).st.insts[k]? = some q)
    {r : Nat} (h : Held s tr (k + 1) r) : Held s tr k r ∨ r ∈ BcWf.defs q := by
  have K := (trace_sum hp T hk).kind
  obtain ⟨t, hv, hlive⟩ := h
  rcases stepKind_repl K hv with hold | hnone
  · exact Or.inl ⟨t, hold, liveAt_back hp K hlive⟩
  · right
    cases K with
    | other x hx hpl hq' hi hr' =>
      rw [hr' t _ hv] at hnone; cases hnone
    | fuse op t0 s0 s1 f m hx hPk hkf hPf hfa hq' hf hi hnone' hr' =>
      rcases hr'.2 t _ hv with ⟨_, e⟩ | h
      · cases e
      · rw [h] at hnone; cases hnone
    | rw cur new q' hx hpl hn hq' hi hd =>
      rw [hq] at hq'; cases hq'
      rcases hd with ⟨_, _, h⟩ | ⟨t0, ht0, _, _, ⟨_, h⟩ | ⟨src, _, hsrc, _, h⟩ | ⟨r0, e, h⟩⟩
      · rw [h t _ hv] at hnone; cases hnone
      · rw [h t _ hv] at hnone; cases hnone
      · rcases h.2 t _ hv with ⟨_, e⟩ | h'
        · rcases hsrc with ⟨c, hc⟩ | ⟨m, hm⟩
          · rw [hc] at e; cases e
          · rw [hm] at e; cases e
        · rw [h'] at hnone; cases hnone
      · rcases h.2 t _ hv with ⟨_, e'⟩ | h'
        · cases e'
          rw [e, defs_setDst ht0]; simp
        · rw [h'] at hnone; cases hnone

theorem held_jump {k k' : Nat} (hk : k < s.insts.size) (hk' : k' ≤ s.insts.size) {x : Instr w} {off : Int}
    (hx : s.insts[k]? = some x) (hoff : branchOff? x = some off) (hkk : (k : Int) + off = (k' : Int))
    {r : Nat} (h : Held s tr k' r) : Held s tr k r := by
  have hI' := trace_inv hp T k' hk'
  obtain ⟨t, hv, hlive⟩ := h
  rcases hlive with ⟨r0, L, g1, g2, g3⟩ | ⟨f, op, m, t', s0, s1, hf, _⟩
  · obtain ⟨_, r', q1, q2⟩ := hI'.replDom t _ hv
    rw [g1] at q1; cases q1
    obtain ⟨r1, L1, p1, p2, p3, p4⟩ := hp.flow k x off k' hx hoff hkk t ⟨r0, L, g1, g2, q2, g3⟩
    rw [g1] at p1; cases p1
    rw [g2] at p2; cases p2
    have hv' : alGet (tr k).repl t = some (.tmp r) := by
      by_cases hle : k ≤ k'
      · rw [← repl_stable hp T g1 g2 p3 k' hle g3 hk']; exact hv
      · rw [repl_stable hp T g1 g2 q2 k (by omega) p4 (by omega)]; exact hv
    exact ⟨t, hv', Or.inl ⟨r0, L, g1, g2, p4⟩⟩
  · exact (fused_nojump hp hI' hf hx hoff hkk).elim

/-- The bitmap recorded in round `k`. -/
theorem live_final {k : Nat} (hk : k < s.insts.size) :
    ∀ n, k < n → n ≤ s.insts.size → (tr n).st.live[k]? = (tr (k + 1)).st.live[k]? := by
  intro n
  induction n with
  | zero => intro h; omega
  | succ n ih =>
    intro h1 h2
    by_cases e : n = k
    · subst e; rfl
    · obtain ⟨u, hs⟩ := T.step n (by omega)
      obtain ⟨c, live, e1, _⟩ := alloc_step_mask hp (trace_inv hp T n (by omega)) hs
      rw [e1, Array.getElem?_push]
      have hsz := trace_live_size hp T n (by omega)
      have : ¬ k = (tr n).st.live.size := by omega
      simp only [this, if_false]
      exact ih (by omega) (by omega)

theorem held_mask {k : Nat} (hk : k < s.insts.size) {q : Instr w} (hq : (tr (k + 1)).st.insts[k]? = some q)
    {r : Nat} (h : Held s tr (k + 1) r) (h1 : r < numRegs) (h2 : r < 16) :
    r ∈ BcWf.defs q ∨ (((tr s.insts.size).st.live[k]?).getD 0).testBit r = true := by
  obtain ⟨u, hs⟩ := T.step k hk
  obtain ⟨c, live, e1, e2, e3, e4⟩ := alloc_step_mask hp (trace_inv hp T k (by omega)) hs
  obtain ⟨t, hv, _⟩ := h
  rcases e4 t r hv with hc | ⟨new, hd, hq'⟩
  · right
    rw [live_final hp T hk s.insts.size hk (Nat.le_refl _), e1, Array.getElem?_push]
    have hsz := trace_live_size hp T k (by omega)
    simp only [hsz, if_true, Option.getD_some]
    exact liveMask_testBit e2 e3.freeRegsNodup h1 h2 (e3.notFree t r hc).1
  · left
    rw [hq] at hq'; cases hq'
    rw [defs_setDst hd]; simp

end

end Alloc
end C02
end Hpbf
