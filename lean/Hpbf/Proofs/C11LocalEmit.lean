/-
C11 (local clauses) for `translate`, part 1: the access window computed by `Analysis::analyze` covers every tape
operand of the code emitted by `emit_block`, and every destination of that code is a cell or a temporary.

* `irOffsL l`: all tape offsets mentioned by the IR instructions `l` (operands of `output`/`input`, targets and
  variables of `calc`, conditions of loops and `if`s, recursively);
* `analyze_covers`: they all lie in `[minAcc, maxAcc]` of `analyze`, and that window contains `0`;
* `emit_allGood`: every instruction emitted for `prog` has its tape operands among `irOffsL prog.insts`
  (bytecode operands are, like IR offsets, relative to the current pointer, so no translation is involved).
-/
import Hpbf.Proofs.C02AllocEmitX
import Hpbf.Proofs.C02EmitExpr
set_option linter.unusedSimpArgs false

namespace Hpbf
namespace C02

open Bc BcWf BcGen C11 C02Emit AEmit

variable {w : Nat}

namespace Local

/-! ### offsets of the IR -/

mutual
def irOffs : Ir.Instr w → List Int
  | .output src => [src]
  | .input dst => [dst]
  | .calc calcs => calcs.flatMap (fun c => c.1 :: Expr.variables c.2)
  | .loop cond _ body _ => cond :: irOffsL body
  | .ifnz cond _ body => cond :: irOffsL body
def irOffsL : List (Ir.Instr w) → List Int
  | [] => []
  | i :: rest => irOffs i ++ irOffsL rest
end

/-! ### the window of the analysis -/

def Cov (a : Analysis) (o : Int) : Prop := a.minAcc ≤ o ∧ o ≤ a.maxAcc
def LeW (a b : Analysis) : Prop := b.minAcc ≤ a.minAcc ∧ a.maxAcc ≤ b.maxAcc

theorem LeW.refl (a : Analysis) : LeW a a := ⟨Int.le_refl _, Int.le_refl _⟩
theorem LeW.trans {a b c : Analysis} (h1 : LeW a b) (h2 : LeW b c) : LeW a c :=
  ⟨Int.le_trans h2.1 h1.1, Int.le_trans h1.2 h2.2⟩
theorem Cov.mono {a b : Analysis} {o : Int} (h : Cov a o) (hl : LeW a b) : Cov b o :=
  ⟨Int.le_trans hl.1 h.1, Int.le_trans h.2 hl.2⟩

theorem accessed_spec (a : Analysis) (v : Int) : LeW a (a.accessed v) ∧ Cov (a.accessed v) v := by
  unfold LeW Cov
  by_cases h1 : a.minAcc > v <;> by_cases h2 : a.maxAcc < v <;>
    simp only [Analysis.accessed, h1, h2, if_true, if_false] <;> omega

theorem written_spec (a : Analysis) (v : Int) : LeW a (a.written v) ∧ Cov (a.written v) v := by
  obtain ⟨h1, h2⟩ := accessed_spec a v
  unfold Analysis.written
  dsimp only
  split
  · exact ⟨h1, h2⟩
  · exact ⟨h1, h2⟩

theorem foldl_accessed_spec : ∀ (vs : List Int) (a : Analysis),
    LeW a (vs.foldl Analysis.accessed a) ∧ ∀ v ∈ vs, Cov (vs.foldl Analysis.accessed a) v := by
  intro vs
  induction vs with
  | nil => intro a; exact ⟨LeW.refl _, fun v hv => by cases hv⟩
  | cons x xs ih =>
    intro a
    obtain ⟨h1, h2⟩ := ih (a.accessed x)
    obtain ⟨g1, g2⟩ := accessed_spec a x
    refine ⟨g1.trans h1, ?_⟩
    intro v hv
    rcases List.mem_cons.1 hv with rfl | hv
    · exact g2.mono h1
    · exact h2 v hv

theorem foldl_written_leW : ∀ (vs : List Int) (a : Analysis), LeW a (vs.foldl Analysis.written a) := by
  intro vs
  induction vs with
  | nil => intro a; exact LeW.refl _
  | cons x xs ih => intro a; exact (written_spec a x).1.trans (ih _)

theorem calc_spec : ∀ (calcs : List (Int × Expr w)) (a : Analysis),
    LeW a (a.calc calcs) ∧ ∀ o ∈ calcs.flatMap (fun c => c.1 :: Expr.variables c.2), Cov (a.calc calcs) o := by
  intro calcs
  induction calcs with
  | nil => intro a; exact ⟨LeW.refl _, fun o ho => by cases ho⟩
  | cons c cs ih =>
    intro a
    obtain ⟨f1, f2⟩ := foldl_accessed_spec (Expr.variables c.2) a
    obtain ⟨w1, w2⟩ := written_spec ((Expr.variables c.2).foldl Analysis.accessed a) c.1
    obtain ⟨i1, i2⟩ := ih (((Expr.variables c.2).foldl Analysis.accessed a).written c.1)
    have e : a.calc (c :: cs) =
        Analysis.calc (((Expr.variables c.2).foldl Analysis.accessed a).written c.1) cs := rfl
    rw [e]
    refine ⟨(f1.trans w1).trans i1, ?_⟩
    intro o ho
    simp only [List.flatMap_cons, List.mem_append, List.mem_cons] at ho
    rcases ho with (rfl | ho) | ho
    · exact w2.mono i1
    · exact ((f2 o ho).mono w1).mono i1
    · exact i2 o ho

theorem absorb_spec (a : Analysis) (cond : Int) (sub : Analysis) :
    LeW a (a.absorb cond sub) ∧ Cov (a.absorb cond sub) cond ∧ LeW sub (a.absorb cond sub) ∨ sub.maxAcc < sub.minAcc := by
  left
  obtain ⟨a1, a2⟩ := accessed_spec a cond
  obtain ⟨b1, b2⟩ := accessed_spec (a.accessed cond) sub.minAcc
  obtain ⟨c1, c2⟩ := accessed_spec ((a.accessed cond).accessed sub.minAcc) sub.maxAcc
  -- the last step keeps or widens the window
  have hlast : LeW (((a.accessed cond).accessed sub.minAcc).accessed sub.maxAcc) (a.absorb cond sub) := by
    unfold Analysis.absorb
    dsimp only
    split
    · exact LeW.refl _
    · split
      · exact foldl_written_leW _ _
      · exact LeW.refl _
  refine ⟨((a1.trans b1).trans c1).trans hlast, ((a2.mono b1).mono c1).mono hlast, ?_⟩
  have h1 := (b2.mono c1).mono hlast
  have h2 := c2.mono hlast
  exact ⟨h1.1, h2.2⟩

theorem close_window (a : Analysis) (shift : Int) :
    (a.close shift).minAcc = a.minAcc ∧ (a.close shift).maxAcc = a.maxAcc := by
  unfold Analysis.close; split <;> exact ⟨rfl, rfl⟩

theorem analyzeInsts_spec : ∀ (n : Nat) (l : List (Ir.Instr w)), iszL l ≤ n → ∀ a : Analysis,
    LeW a (analyzeInsts l a) ∧ ∀ o ∈ irOffsL l, Cov (analyzeInsts l a) o := by
  intro n
  induction n with
  | zero =>
    intro l hl a
    cases l with
    | nil => simp only [analyzeInsts, irOffsL]; exact ⟨LeW.refl _, fun o ho => by cases ho⟩
    | cons i rest => cases i <;> simp [iszL, isz] at hl <;> omega
  | succ n ih =>
    intro l hl a
    cases l with
    | nil => simp only [analyzeInsts, irOffsL]; exact ⟨LeW.refl _, fun o ho => by cases ho⟩
    | cons i rest =>
      rw [analyzeInsts, irOffsL]
      have hblock : ∀ (cond shift : Int) (body : List (Ir.Instr w)), iszL body ≤ n →
          LeW a (a.absorb cond ((analyzeInsts body Analysis.empty).close shift)) ∧
          ∀ o ∈ cond :: irOffsL body, Cov (a.absorb cond ((analyzeInsts body Analysis.empty).close shift)) o := by
        intro cond shift body hb
        obtain ⟨_, hbody⟩ := ih body hb Analysis.empty
        obtain ⟨cm, cM⟩ := close_window (analyzeInsts body Analysis.empty) shift
        rcases absorb_spec a cond ((analyzeInsts body Analysis.empty).close shift) with ⟨h1, h2, h3⟩ | h
        · refine ⟨h1, ?_⟩
          intro o ho
          rcases List.mem_cons.1 ho with rfl | ho
          · exact h2
          · have := hbody o ho
            exact Cov.mono (a := (analyzeInsts body Analysis.empty).close shift) ⟨by rw [cm]; exact this.1,
              by rw [cM]; exact this.2⟩ h3
        · exact absurd h (by
            have := (ih body hb Analysis.empty).1
            rw [cm, cM]
            have e1 : (Analysis.empty).minAcc = 0 := rfl
            have e2 : (Analysis.empty).maxAcc = 0 := rfl
            unfold LeW at this
            rw [e1, e2] at this
            omega)
      have hi : LeW a (analyzeInstr i a) ∧ ∀ o ∈ irOffs i, Cov (analyzeInstr i a) o := by
        cases i with
        | output src =>
          simp only [analyzeInstr, irOffs, List.mem_singleton]
          exact ⟨(accessed_spec a src).1, fun o ho => ho ▸ (accessed_spec a src).2⟩
        | input dst =>
          simp only [analyzeInstr, irOffs, List.mem_singleton]
          exact ⟨(written_spec a dst).1, fun o ho => ho ▸ (written_spec a dst).2⟩
        | «calc» calcs =>
          simp only [analyzeInstr, irOffs]
          exact calc_spec calcs a
        | loop cond shift body once =>
          simp only [analyzeInstr, irOffs]
          simp only [iszL, isz] at hl
          exact hblock cond shift body (by omega)
        | ifnz cond shift body =>
          simp only [analyzeInstr, irOffs]
          simp only [iszL, isz] at hl
          exact hblock cond shift body (by omega)
      have hrest := ih rest (by
        have : 0 < isz i := by cases i <;> simp [isz] <;> omega
        simp only [iszL] at hl; omega) (analyzeInstr i a)
      refine ⟨hi.1.trans hrest.1, ?_⟩
      intro o ho
      rcases List.mem_append.1 ho with h | h
      · exact (hi.2 o h).mono hrest.1
      · exact hrest.2 o h

/-- **The window of `analyze` contains `0` and every offset of the program.** -/
theorem analyze_covers (prog : Ir.Block w) :
    (analyze prog).minAcc ≤ 0 ∧ 0 ≤ (analyze prog).maxAcc ∧ ∀ o ∈ irOffsL prog.insts, Cov (analyze prog) o := by
  obtain ⟨h1, h2⟩ := analyzeInsts_spec _ prog.insts (Nat.le_refl _) Analysis.empty
  obtain ⟨cm, cM⟩ := close_window (analyzeInsts prog.insts Analysis.empty) prog.shift
  unfold analyze Cov
  rw [cm, cM]
  exact ⟨h1.1, h1.2, h2⟩

/-! ### good instructions -/

/-- The tape operands satisfy `P` and the destination is a cell or a temporary. -/
def GoodI (P : Int → Prop) (x : Instr w) : Prop := (∀ o ∈ memOps x, P o) ∧ dstOk x = true

def AllGood (P : Int → Prop) (insts : Array (Instr w)) : Prop :=
  ∀ (i : Nat) (x : Instr w), insts[i]? = some x → GoodI P x

theorem allGood_mono {P Q : Int → Prop} (h : ∀ o, P o → Q o) {insts : Array (Instr w)} (hg : AllGood P insts) :
    AllGood Q insts := fun i x hx => ⟨fun o ho => h o ((hg i x hx).1 o ho), (hg i x hx).2⟩

theorem allGood_push {P : Int → Prop} {insts : Array (Instr w)} {x : Instr w} (h : AllGood P insts)
    (hx : GoodI P x) : AllGood P (insts.push x) := by
  intro i y hy
  rcases getElem?_push_cases hy with ⟨_, g⟩ | ⟨_, g⟩
  · exact h i y g
  · rw [g]; exact hx

theorem allGood_set {P : Int → Prop} {insts : Array (Instr w)} {x : Instr w} (h : AllGood P insts)
    (hx : GoodI P x) (j : Nat) : AllGood P (insts.setIfInBounds j x) := by
  intro i y hy
  rw [Array.getElem?_setIfInBounds] at hy
  by_cases e : j = i
  · simp only [e, if_true] at hy
    split at hy
    · cases hy; exact hx
    · cases hy
  · simp only [e, if_false] at hy
    exact h i y hy

theorem goodI_noop (P : Int → Prop) : GoodI P (.noop : Instr w) := ⟨(fun o ho => by cases ho), rfl⟩
theorem goodI_mov (P : Int → Prop) (sh : Int) : GoodI P (.mov sh : Instr w) := ⟨(fun o ho => by cases ho), rfl⟩

/-! ### the expression code generator -/

section codegen
variable {P : Int → Prop}

theorem good_getValue {e : GvnExpr w} {s s' : St w} {v : Nat} (h : AllGood P s.insts)
    (he : ∀ m, e = .mem m → P m) (hg : getValue e s = .ok (v, s')) : AllGood P s'.insts := by
  rcases getValue_spec hg with ⟨_, rfl⟩ | ⟨_, N⟩
  · exact h
  · obtain ⟨s2, h2, rfl⟩ := N.reads
    have hi := readsSpec_insts _ h2
    simp only at hi ⊢
    rw [hi]
    apply allGood_push h
    cases e with
    | mem m =>
      refine ⟨?_, rfl⟩
      intro o ho
      simp only [instOf, memOps, locMem, List.nil_append, List.mem_singleton] at ho
      rw [ho]; exact he m rfl
    | imm c => exact ⟨fun o ho => by simp [instOf, memOps, locMem] at ho, rfl⟩
    | add a b => exact ⟨fun o ho => by simp [instOf, memOps, locMem] at ho, rfl⟩
    | sub a b => exact ⟨fun o ho => by simp [instOf, memOps, locMem] at ho, rfl⟩
    | mul a b => exact ⟨fun o ho => by simp [instOf, memOps, locMem] at ho, rfl⟩

theorem good_codegenVars : ∀ (vs : List Int) (result : Nat) {s s' : St w} {r : Nat},
    codegenVars result vs s = .ok (r, s') → (∀ v ∈ vs, P v) → AllGood P s.insts → AllGood P s'.insts
  | [], result, s, s', r, h, _, hk => by
    simp only [codegenVars, pure_ok] at h
    rw [h.2]; exact hk
  | v :: vs, result, s, s', r, h, hv, hk => by
    simp only [codegenVars, bind_ok] at h
    obtain ⟨m, s1, h1, r1, s2, h2, h3⟩ := h
    have k1 := good_getValue hk (fun m' e => by cases e; exact hv v List.mem_cons_self) h1
    have k2 := good_getValue k1 (fun m' e => by cases e) h2
    exact good_codegenVars vs r1 h3 (fun v' hv' => hv v' (List.mem_cons_of_mem _ hv')) k2

theorem good_codegenPart (var : Int) (p : Part w) {s s' : St w} {r : Nat}
    (h : codegenPart var p s = .ok (r, s')) (hv : ∀ v ∈ p.vars, P v) (hk : AllGood P s.insts) :
    AllGood P s'.insts := by
  unfold codegenPart at h
  have hperm := Expr.stableSort_perm (fun a b => decide (ordering var a ≤ ordering var b)) p.vars
  generalize Expr.stableSort (fun a b => decide (ordering var a ≤ ordering var b)) p.vars = sorted at h hperm
  have hvs : ∀ v ∈ sorted, P v := fun v hm => hv v (hperm.mem_iff.1 hm)
  cases sorted with
  | nil => exact good_getValue hk (fun m e => by cases e) h
  | cons v0 vs =>
    simp only [bind_ok] at h
    obtain ⟨r0, s1, h1, r1, s2, h2, h3⟩ := h
    have k1 := good_getValue hk (fun m e => by cases e; exact hvs v0 List.mem_cons_self) h1
    have k2 := good_codegenVars vs r0 h2 (fun v hm => hvs v (List.mem_cons_of_mem _ hm)) k1
    split at h3
    · rw [pure_ok] at h3; rw [h3.2]; exact k2
    · simp only [bind_ok] at h3
      obtain ⟨i, s3, h4, h5⟩ := h3
      exact good_getValue (good_getValue k2 (fun m e => by cases e) h4) (fun m e => by cases e) h5

theorem good_codegenRest (var : Int) : ∀ (ps : List (Part w)) (result : Nat) {s s' : St w} {r : Nat},
    codegenRest var result ps s = .ok (r, s') → (∀ p ∈ ps, ∀ v ∈ p.vars, P v) → AllGood P s.insts →
    AllGood P s'.insts
  | [], result, s, s', r, h, _, hk => by
    simp only [codegenRest, pure_ok] at h
    rw [h.2]; exact hk
  | p :: ps, result, s, s', r, h, hv, hk => by
    simp only [codegenRest, bind_ok] at h
    obtain ⟨pr, s1, h1, h⟩ := h
    have k1 := good_codegenPart var p h1 (hv p List.mem_cons_self) hk
    cases hn : isNegVar p with
    | true =>
      simp only [hn, if_true, bind_ok] at h
      obtain ⟨r1, s2, h2, h3⟩ := h
      exact good_codegenRest var ps r1 h3 (fun p' hp' => hv p' (List.mem_cons_of_mem _ hp'))
        (good_getValue k1 (fun m e => by cases e) h2)
    | false =>
      simp only [hn, Bool.false_eq_true, if_false, bind_ok] at h
      obtain ⟨r1, s2, h2, h3⟩ := h
      exact good_codegenRest var ps r1 h3 (fun p' hp' => hv p' (List.mem_cons_of_mem _ hp'))
        (good_getValue k1 (fun m e => by cases e) h2)

theorem good_getExprValue (e : Expr w) (var : Int) {s s' : St w} {r : Nat}
    (h : getExprValue e var s = .ok (r, s')) (hv : ∀ v ∈ Expr.variables e, P v) (hk : AllGood P s.insts) :
    AllGood P s'.insts := by
  unfold getExprValue at h
  have hperm := orderParts_perm var e
  have hvp : ∀ p ∈ orderParts var e, ∀ v ∈ p.vars, P v := by
    intro p hp v hvm
    apply hv
    simp only [Expr.variables, List.mem_flatMap]
    exact ⟨p, hperm.mem_iff.1 hp, hvm⟩
  generalize orderParts var e = parts at h hvp
  cases parts with
  | nil => exact good_getValue hk (fun m e => by cases e) h
  | cons p0 ps =>
    simp only [bind_ok] at h
    obtain ⟨r0, s1, h1, h⟩ := h
    have k1 := good_codegenPart var p0 h1 (hvp p0 List.mem_cons_self) hk
    cases hn : isNegVar p0 with
    | true =>
      simp only [hn, if_true, bind_ok] at h
      obtain ⟨z, s3, h4, r1, s2, h5, h3⟩ := h
      exact good_codegenRest var ps r1 h3 (fun p hp => hvp p (List.mem_cons_of_mem _ hp))
        (good_getValue (good_getValue k1 (fun m e => by cases e) h4) (fun m e => by cases e) h5)
    | false =>
      simp only [hn, Bool.false_eq_true, if_false, pure_bind'] at h
      exact good_codegenRest var ps r0 h (fun p hp => hvp p (List.mem_cons_of_mem _ hp)) k1

theorem good_calcValues : ∀ (calcs : List (Int × Expr w)) {s s' : St w} {vals : List (Int × Nat)},
    calcValues calcs s = .ok (vals, s') → (∀ c ∈ calcs, ∀ v ∈ Expr.variables c.2, P v) → AllGood P s.insts →
    AllGood P s'.insts ∧ vals.map (·.1) = calcs.map (·.1)
  | [], s, s', vals, h, _, hk => by
    simp only [calcValues, pure_ok] at h
    rw [h.1, h.2]; exact ⟨hk, rfl⟩
  | (v, e) :: rest, s, s', vals, h, hv, hk => by
    simp only [calcValues, bind_ok, pure_ok] at h
    obtain ⟨x, s1, h1, r, s2, h2, rfl, rfl⟩ := h
    have k1 := good_getExprValue e v h1 (hv (v, e) List.mem_cons_self) hk
    obtain ⟨k2, e2⟩ := good_calcValues rest h2 (fun c hc => hv c (List.mem_cons_of_mem _ hc)) k1
    exact ⟨k2, by simp [e2]⟩

theorem good_memWrites : ∀ (vals : List (Int × Nat)) {s s' : St w} {u : Unit},
    memWrites vals s = .ok (u, s') → (∀ p ∈ vals, P p.1) → AllGood P s.insts → AllGood P s'.insts
  | [], s, s', u, h, _, hk => by
    simp only [memWrites, pure_ok] at h
    rw [h.2]; exact hk
  | (v, x) :: rest, s, s', u, h, hv, hk => by
    simp only [memWrites, bind_ok] at h
    obtain ⟨_, s1, h1, h2⟩ := h
    have k1 : AllGood P s1.insts := by
      obtain ⟨s0, e0, rfl⟩ := memWrite_spec h1
      simp only
      rw [e0.insts]
      apply allGood_push hk
      refine ⟨?_, rfl⟩
      intro o ho
      simp only [memOps, locMem, List.append_nil, List.mem_singleton] at ho
      rw [ho]; exact hv (v, x) List.mem_cons_self
    exact good_memWrites rest h2 (fun p hp => hv p (List.mem_cons_of_mem _ hp)) k1

end codegen

/-! ### the induction over the program -/

/-- The emitted code is good, and so are the offsets of the IR still to be translated. -/
def GJ (P : Int → Prop) (_c : Unit) (_ps : Nat) (_a : Analysis) (l : List (Ir.Instr w)) (s : St w) : Prop :=
  AllGood P s.insts ∧ ∀ o ∈ irOffsL l, P o

theorem gj_tail {P : Int → Prop} {i : Ir.Instr w} {rest : List (Ir.Instr w)}
    (h : ∀ o ∈ irOffsL (i :: rest), P o) : (∀ o ∈ irOffs i, P o) ∧ ∀ o ∈ irOffsL rest, P o := by
  rw [irOffsL] at h
  exact ⟨fun o ho => h o (List.mem_append_left _ ho), fun o ho => h o (List.mem_append_right _ ho)⟩

theorem closedI_good (fuse : Bool) (P : Int → Prop) : ClosedI fuse (GJ (w := w) P) where
  out := fun c ps a src rest s h => by
    obtain ⟨h1, h2⟩ := gj_tail h.2
    exact ⟨allGood_push h.1 ⟨fun o ho => by
      simp only [memOps, List.mem_singleton] at ho; rw [ho]; exact h1 src (by simp [irOffs]), rfl⟩, h2⟩
  inp := fun c ps a dst rest s h => by
    obtain ⟨h1, h2⟩ := gj_tail h.2
    exact ⟨allGood_push h.1 ⟨fun o ho => by
      simp only [memOps, List.mem_singleton] at ho; rw [ho]; exact h1 dst (by simp [irOffs]), rfl⟩, h2⟩
  calcR := fun c ps a calcs rest s vals s1 s' u h hc hm => by
    obtain ⟨h1, h2⟩ := gj_tail h.2
    have hmem : ∀ c ∈ calcs, P c.1 ∧ ∀ v ∈ Expr.variables c.2, P v := by
      intro c hc
      have hsub : ∀ o ∈ c.1 :: Expr.variables c.2, o ∈ irOffs (.calc calcs : Ir.Instr w) := by
        intro o ho
        simp only [irOffs, List.mem_flatMap]
        exact ⟨c, hc, ho⟩
      exact ⟨h1 _ (hsub _ List.mem_cons_self), fun v hv => h1 _ (hsub _ (List.mem_cons_of_mem _ hv))⟩
    obtain ⟨k1, e1⟩ := good_calcValues calcs hc (fun c hc => (hmem c hc).2) h.1
    refine ⟨good_memWrites vals hm ?_ k1, h2⟩
    intro p hp
    have : p.1 ∈ vals.map (·.1) := List.mem_map.2 ⟨p, hp, rfl⟩
    rw [e1] at this
    obtain ⟨c, hc, e⟩ := List.mem_map.1 this
    rw [← e]; exact (hmem c hc).1
  scan := fun c ps a cond shift once rest s _ h => by
    obtain ⟨h1, h2⟩ := gj_tail h.2
    refine ⟨?_, h2⟩
    rw [lhExit_eq]
    show AllGood P ((lhHead true _ s).insts.push _)
    rw [lhHead_eq]
    exact allGood_push h.1 ⟨fun o ho => by
      simp only [memOps, List.mem_singleton] at ho; rw [ho]; exact h1 cond (by simp [irOffs]), rfl⟩
  loop := fun c ps a cond shift body once rest s _ h => by
    obtain ⟨h1, h2⟩ := gj_tail h.2
    have hbody : ∀ o ∈ irOffsL body, P o := fun o ho => h1 o (by simp [irOffs, ho])
    have hcond : P cond := h1 cond (by simp [irOffs])
    obtain ⟨hs1i, _, _⟩ := lhPro_true_insts once (subOf shift body) s
    refine ⟨(), ⟨?_, hbody⟩, ?_⟩
    · rw [hs1i]
      cases once
      · exact allGood_push h.1 (goodI_noop P)
      · exact h.1
    · intro sb so u1 u2 fuel _ hb _ ho
      refine ⟨?_, h2⟩
      have hso : so.insts = (lhMov shift sb).insts := by
        have := (outerLoop_core ps fuel _ ho).1
        exact congrArg G.insts this
      have hm : AllGood P (lhMov shift sb).insts := by
        unfold lhMov
        split
        · exact hb.1
        · exact allGood_push hb.1 (goodI_mov P shift)
      obtain ⟨_, _, _, o1, o2, hfi⟩ := loopEnd_fields once cond (subOf shift body) ps s
        (lhPro true once (lhHead true (subOf shift body) s)) so
      rw [hfi, hso]
      have hbr : ∀ off, GoodI P (.brnz cond off : Instr w) := fun off =>
        ⟨fun o ho => by simp only [memOps, List.mem_singleton] at ho; rw [ho]; exact hcond, rfl⟩
      have hbz : ∀ off, GoodI P (.brz cond off : Instr w) := fun off =>
        ⟨fun o ho => by simp only [memOps, List.mem_singleton] at ho; rw [ho]; exact hcond, rfl⟩
      cases once
      · exact allGood_set (allGood_push hm (hbr _)) (hbz _) _
      · exact allGood_push hm (hbr _)
  ifz := fun c ps a cond shift body rest s h => by
    obtain ⟨h1, h2⟩ := gj_tail h.2
    have hbody : ∀ o ∈ irOffsL body, P o := fun o ho => h1 o (by simp [irOffs, ho])
    have hcond : P cond := h1 cond (by simp [irOffs])
    refine ⟨(), ⟨allGood_push h.1 (goodI_noop P), hbody⟩, ?_⟩
    intro sb u1 _ hb _
    refine ⟨?_, h2⟩
    have hm : AllGood P (lhMov shift sb).insts := by
      unfold lhMov
      split
      · exact hb.1
      · exact allGood_push hb.1 (goodI_mov P shift)
    obtain ⟨_, o2, hfi⟩ := ifEnd_fields cond shift (subOf shift body) ps s (lhPro false false s) sb
    rw [hfi]
    exact allGood_set hm
      ⟨fun o ho => by simp only [memOps, List.mem_singleton] at ho; rw [ho]; exact hcond, rfl⟩ _

/-- **Every tape operand of the emitted code is an offset of the IR program**, and every destination is a cell
or a temporary. -/
theorem emit_allGood {prog : Ir.Block w} {fuse : Bool} {s : St w} (h : emitState prog fuse = .ok s) :
    AllGood (fun o => o ∈ irOffsL prog.insts) s.insts :=
  (closedI_emitState (closedI_good fuse _) h () ⟨fun i x hx => by simp at hx, fun o ho => ho⟩).1

end Local
end C02
end Hpbf
