/-
C02 (`allocate_temps`), part 6: the loop invariant `PassInv` is preserved by one round `allocStep`.
The round is followed phase by phase; after the source rewrite the state already satisfies the invariant
for `k + 1`.
-/
import Hpbf.Proofs.C02AllocRegs
set_option linter.unusedSimpArgs false

namespace Hpbf
namespace C02
namespace Alloc

open Bc BcWf BcGen C11

variable {w : Nat} {s : St w}

/-! ### small facts -/

theorem getElem?_setI (a : ASt w) (i j : Nat) (x : Instr w) :
    (a.setI i x).st.insts[j]? = if i = j ∧ i < a.st.insts.size then some x else a.st.insts[j]? := by
  simp only [ASt.setI, Array.getElem?_setIfInBounds]
  by_cases h : i = j
  · subst h
    by_cases h2 : i < a.st.insts.size
    · simp [h2]
    · simp [h2]
  · simp [h]

theorem setI_size (a : ASt w) (i : Nat) (x : Instr w) : (a.setI i x).st.insts.size = a.st.insts.size := by
  simp [ASt.setI]

theorem lt_of_getElem? {α : Type} {a : Array α} {i : Nat} {x : α} (h : a[i]? = some x) : i < a.size := by
  by_cases hi : i < a.size
  · exact hi
  · rw [Array.getElem?_eq_none (Nat.le_of_not_lt hi)] at h; cases h

theorem mkArith_inj {op op' : BcGen.Op} {d d' a a' b b' : Loc w}
    (h : mkArith op d a b = mkArith op' d' a' b') : op = op' ∧ d = d' ∧ a = a' ∧ b = b' := by
  cases op <;> cases op' <;> simp [mkArith] at h <;> exact ⟨rfl, h.1, h.2.1, h.2.2⟩

theorem mkArith_ne_copy (op : BcGen.Op) (d a b d' s' : Loc w) : mkArith op d a b ≠ .copy d' s' := by
  cases op <;> simp [mkArith]

theorem noMemZero_mkArith {op : BcGen.Op} {d a b : Loc w} :
    NoMemZero (mkArith op d a b) ↔ (locNoZero d = true ∧ locNoZero a = true ∧ locNoZero b = true) := by
  cases op <;> simp [mkArith, NoMemZero, noMemZero, Bool.and_eq_true, and_assoc]

theorem uses_mkArith (op : BcGen.Op) (d a b : Loc w) : BcWf.uses (mkArith op d a b) = locTmp a ++ locTmp b := by
  cases op <;> rfl
theorem defs_mkArith (op : BcGen.Op) (d a b : Loc w) : BcWf.defs (mkArith op d a b) = locTmp d := by
  cases op <;> rfl
theorem branchOff?_mkArith (op : BcGen.Op) (d a b : Loc w) : branchOff? (mkArith op d a b) = none := by
  cases op <;> rfl
theorem dstTmp?_mkArith (op : BcGen.Op) (d a b : Loc w) :
    dstTmp? (mkArith op d a b) = (match d with | .tmp t => some t | _ => none) := by
  cases op <;> cases d <;> rfl
theorem plain_mkArith (op : BcGen.Op) (d a b : Loc w) : plain (mkArith op d a b) = true := by
  cases op <;> rfl

/-- Invariance of `Fused` under changes that keep the instruction at `f`. -/
theorem fused_mono {k k' : Nat} {a a' : ASt w} {f : Nat} {op : BcGen.Op} {m : Int} {t : Nat} {s0 s1 : Loc w}
    (h : Fused s k a f op m t s0 s1) (hk : k' ≤ f) (hi : a'.st.insts[f]? = a.st.insts[f]?) :
    Fused s k' a' f op m t s0 s1 := ⟨hk, h.2.1, by rw [hi]; exact h.2.2⟩

theorem srcFacts_congr {a a' : ASt w} {i f : Nat} {l : Loc w} (h : SrcFacts s a i f l)
    (h0 : ∀ u v, alGet a'.repl u = some v → alGet a.repl u = some v) : SrcFacts s a' i f l := by
  cases l with
  | tmp u => intro m' hm; exact h m' (h0 _ _ hm)
  | mem m => exact h
  | memZero m => trivial
  | imm c => trivial

/-! ### phase 1: the ranges that have ended -/

/-- A temporary whose range has been taken off the heap in round `k` is past its recorded last use. -/
def DeadAt (s : St w) (k : Nat) (t : Nat) : Prop :=
  ∀ (r : RangeInfo) (L : Nat), s.ranges[t]? = some r → r.lastUse = some L → L ≤ k

theorem passInv_drain {k : Nat} {a a1 : ASt w} {atf0 : List Nat} (hI : PassInv s k a)
    (h1 : NreOnly a a1) (h2 : ∀ x ∈ a1.nre, Ent a x)
    (h3 : ∀ t ∈ atf0, ∃ e r L, Ent a (e, t) ∧ e ≤ k ∧ a.st.ranges[t]? = some r ∧ r.lastUse = some L ∧ L ≤ e) :
    PassInv s k a1 ∧ ∀ t ∈ atf0, DeadAt s k t := by
  obtain ⟨e1, e2, e3, e4, e5⟩ := h1
  have hfu : ∀ {f op m t s0 s1}, Fused s k a1 f op m t s0 s1 ↔ Fused s k a f op m t s0 s1 := by
    intro f op m t s0 s1; unfold Fused; rw [e1]
  -- entries of the new heap
  have hheap : ∀ e t, Ent a (e, t) → ∃ r : RangeInfo, s.ranges[t]? = some r ∧ r.created < k ∧
      ∀ L, r.lastUse = some L → L ≤ e := by
    intro e t he
    rcases he with he | ⟨e0, r0, g1, g2, g3, g4⟩
    · exact hI.heap e t he
    · obtain ⟨r, q1, q2, q3⟩ := hI.heap e0 t g1
      exact ⟨r, q1, q2, fun L hL => Nat.le_trans (q3 L hL) (Nat.le_of_lt g4)⟩
  have hsrc : ∀ i f l, SrcFacts s a i f l → SrcFacts s a1 i f l :=
    fun i f l h => srcFacts_congr h (fun u v g => by rw [e5] at g; exact g)
  refine ⟨⟨by rw [e1]; exact hI.writes, by rw [e1]; exact hI.isize, ?_, ?_, ?_, regsInv_congr hI.regs e5 e3 e4 e2, ?_,
    ?_, ?_, ?_⟩, ?_⟩
  · rw [e1]; exact hI.rkeep
  · intro j hj
    rcases hI.fut j hj with h | ⟨op, m, t, s0, s1, h⟩
    · exact Or.inl (by rw [e1]; exact h)
    · exact Or.inr ⟨op, m, t, s0, s1, hfu.2 h⟩
  · rw [e1]; exact hI.skel
  · rw [e5]; exact hI.replDom
  · intro t m h
    rw [e5] at h
    rcases hI.fwdMem t m h with ⟨f, op, s0, s1, g⟩ | g
    · exact Or.inl ⟨f, op, s0, s1, hfu.2 g⟩
    · exact Or.inr g
  · intro e t he
    exact hheap e t (h2 _ he)
  · intro f op m t s0 s1 h
    obtain ⟨i, r, L, g1, g2, g3, g4, g5, g6, g7, g8, g9, g10⟩ := hI.fused f op m t s0 s1 (hfu.1 h)
    exact ⟨i, r, L, g1, g2, g3, g4, g5, g6, by rw [e5]; exact g7, g8, hsrc _ _ _ g9, hsrc _ _ _ g10⟩
  · intro t ht r0 L0 hr0 hL0
    obtain ⟨e, r, L, he, hek, hr, hL, hLe⟩ := h3 t ht
    obtain ⟨r1, q1, q2, q3⟩ := hheap e t he
    rw [hr0] at q1; cases q1
    exact Nat.le_trans (q3 L0 hL0) hek

/-! ### phase 4: the sources -/

theorem replSrc_ok {repl : List (Nat × Loc w)} {l l' : Loc w} (h : replSrc repl l = .ok l') :
    (∃ t, l = .tmp t ∧ alGet repl t = some l') ∨ ((∀ t, l ≠ .tmp t) ∧ l' = l) := by
  cases l with
  | tmp t =>
    simp only [replSrc] at h
    cases hg : alGet repl t with
    | none => simp [hg] at h
    | some v => simp only [hg, Except.ok.injEq] at h; subst h; exact Or.inl ⟨t, rfl, hg⟩
  | mem m => simp only [replSrc, Except.ok.injEq] at h; exact Or.inr ⟨fun t => by simp, h.symm⟩
  | memZero m => simp only [replSrc, Except.ok.injEq] at h; exact Or.inr ⟨fun t => by simp, h.symm⟩
  | imm c => simp only [replSrc, Except.ok.injEq] at h; exact Or.inr ⟨fun t => by simp, h.symm⟩

theorem replSrc_noZero {repl : List (Nat × Loc w)} {l l' : Loc w} (h : replSrc repl l = .ok l')
    (hr : ∀ t v, alGet repl t = some v → locNoZero v = true) (hl : locNoZero l = true) : locNoZero l' = true := by
  rcases replSrc_ok h with ⟨t, _, g⟩ | ⟨_, rfl⟩
  · exact hr t l' g
  · exact hl

/-- The three shapes of `rwInst`. -/
theorem rwInst_cases {repl : List (Nat × Loc w)} {cur new : Instr w} (h : rwInst repl cur = .ok new) :
    (∃ d s s', cur = .copy d s ∧ replSrc repl s = .ok s' ∧ new = .copy d s') ∨
    (∃ op d s0 s1 s0' s1', cur = mkArith op d s0 s1 ∧ replSrc repl s0 = .ok s0' ∧ replSrc repl s1 = .ok s1' ∧
      new = mkArith op d s0' s1') ∨
    (plain cur = false ∧ new = cur) ∨ (cur = .noop ∧ new = .noop) := by
  have harith : ∀ op d s0 s1, cur = mkArith op d s0 s1 →
      (match replSrc repl s0 with
        | .error e => .error e
        | .ok s0' =>
          match replSrc repl s1 with
          | .error e => .error e
          | .ok s1' => .ok (mkArith op d s0' s1') : Except String (Instr w)) = .ok new →
      ∃ op d s0 s1 s0' s1', cur = mkArith op d s0 s1 ∧ replSrc repl s0 = .ok s0' ∧
        replSrc repl s1 = .ok s1' ∧ new = mkArith op d s0' s1' := by
    intro op d s0 s1 hc h
    cases h0 : replSrc repl s0 with
    | error e => simp [h0] at h
    | ok s0' =>
      cases h1 : replSrc repl s1 with
      | error e => simp [h0, h1] at h
      | ok s1' =>
        simp only [h0, h1, Except.ok.injEq] at h
        exact ⟨op, d, s0, s1, s0', s1', hc, h0, h1, h.symm⟩
  cases cur with
  | copy d s =>
    simp only [rwInst] at h
    cases h0 : replSrc repl s with
    | error e => simp [h0] at h
    | ok s' =>
      simp only [h0, Except.ok.injEq] at h
      exact Or.inl ⟨d, s, s', rfl, h0, h.symm⟩
  | add d s0 s1 => exact Or.inr (Or.inl (harith .add d s0 s1 rfl h))
  | sub d s0 s1 => exact Or.inr (Or.inl (harith .sub d s0 s1 rfl h))
  | mul d s0 s1 => exact Or.inr (Or.inl (harith .mul d s0 s1 rfl h))
  | noop => simp only [rwInst, arith?, Except.ok.injEq] at h; exact Or.inr (Or.inr (Or.inr ⟨rfl, h.symm⟩))
  | _ => simp only [rwInst, arith?, Except.ok.injEq] at h; exact Or.inr (Or.inr (Or.inl ⟨rfl, h.symm⟩))

theorem rwInst_facts {repl : List (Nat × Loc w)} {cur new : Instr w} (h : rwInst repl cur = .ok new)
    (hr : ∀ t v, alGet repl t = some v → locNoZero v = true) (hz : NoMemZero cur) :
    NoMemZero new ∧ branchOff? new = branchOff? cur ∧ dstTmp? new = dstTmp? cur := by
  rcases rwInst_cases h with ⟨d, s, s', rfl, g, rfl⟩ | ⟨op, d, s0, s1, s0', s1', rfl, g0, g1, rfl⟩ |
      ⟨_, rfl⟩ | ⟨rfl, rfl⟩
  · simp only [NoMemZero, noMemZero, Bool.and_eq_true] at hz ⊢
    exact ⟨⟨hz.1, replSrc_noZero g hr hz.2⟩, rfl, by cases d <;> rfl⟩
  · rw [noMemZero_mkArith] at hz ⊢
    exact ⟨⟨hz.1, replSrc_noZero g0 hr hz.2.1, replSrc_noZero g1 hr hz.2.2⟩,
      by rw [branchOff?_mkArith, branchOff?_mkArith], by rw [dstTmp?_mkArith, dstTmp?_mkArith]⟩
  · exact ⟨hz, rfl, rfl⟩
  · exact ⟨hz, rfl, rfl⟩

theorem passInv_rewrite {k : Nat} {b : ASt w} {cur new : Instr w} (hb : PassInv s k b)
    (hc : b.st.insts[k]? = some cur) (hn : rwInst b.repl cur = .ok new) :
    PassInv s (k + 1) (b.setI k new) := by
  have hkb : k < b.st.insts.size := lt_of_getElem? hc
  have hins : ∀ j, j ≠ k → (b.setI k new).st.insts[j]? = b.st.insts[j]? := by
    intro j hj
    rw [getElem?_setI]
    have : ¬ (k = j ∧ k < b.st.insts.size) := fun h => hj h.1.symm
    simp [this]
  have hfu : ∀ {f op m t s0 s1}, Fused s (k + 1) (b.setI k new) f op m t s0 s1 → Fused s k b f op m t s0 s1 := by
    intro f op m t s0 s1 h
    exact fused_mono h (Nat.le_of_succ_le h.1) (hins f (Nat.ne_of_gt h.1)).symm
  have hfu' : ∀ {f op m t s0 s1}, Fused s k b f op m t s0 s1 → k + 1 ≤ f →
      Fused s (k + 1) (b.setI k new) f op m t s0 s1 := by
    intro f op m t s0 s1 h hf
    exact fused_mono h hf (hins f (Nat.ne_of_gt hf))
  have hsrc : ∀ i f l, SrcFacts s b i f l → SrcFacts s (b.setI k new) i f l :=
    fun i f l h => srcFacts_congr h (fun u v g => g)
  refine ⟨hb.writes, by rw [setI_size]; exact hb.isize, ?_, ?_, ?_, regsInv_congr hb.regs rfl rfl rfl rfl, ?_, ?_,
    ?_, ?_⟩
  · intro t r hr
    obtain ⟨r', g1, g2, g3, g4⟩ := hb.rkeep t r hr
    exact ⟨r', g1, g2, g3, fun h => g4 (Nat.le_of_succ_le h)⟩
  · intro j hj
    rw [hins j (Nat.ne_of_gt hj)]
    rcases hb.fut j (Nat.le_of_succ_le hj) with h | ⟨op, m, t, s0, s1, h⟩
    · exact Or.inl h
    · exact Or.inr ⟨op, m, t, s0, s1, hfu' h hj⟩
  · intro j x hx
    by_cases hj : j = k
    · subst hj
      rw [getElem?_setI] at hx
      simp only [hkb, and_self, if_true, Option.some.injEq] at hx
      subst hx
      obtain ⟨hz, y, hy, hbr⟩ := hb.skel j cur hc
      obtain ⟨q1, q2, _⟩ := rwInst_facts hn (fun t v g => (hb.replDom t v g).1) hz
      exact ⟨q1, y, hy, by rw [q2, hbr]⟩
    · rw [hins j hj] at hx
      exact hb.skel j x hx
  · intro t l h
    obtain ⟨g1, r, g2, g3⟩ := hb.replDom t l h
    exact ⟨g1, r, g2, Nat.lt_succ_of_lt g3⟩
  · intro t m h
    rcases hb.fwdMem t m h with ⟨f, op, s0, s1, g⟩ | ⟨r, L, lo, g1, g2, g3, g4⟩
    · by_cases hf : f = k
      · subst hf
        obtain ⟨i, r, L, q1, q2, q3, q4, q5, q6, q7, q8, _, _⟩ := hb.fused _ _ _ _ _ _ g
        exact Or.inr ⟨r, L, f + 1, q2, q6, Nat.le_refl _, q8⟩
      · exact Or.inl ⟨f, op, s0, s1, hfu' g (Nat.lt_of_le_of_ne g.1 (Ne.symm hf))⟩
    · exact Or.inr ⟨r, L, lo, g1, g2, Nat.le_succ_of_le g3, g4⟩
  · intro e t he
    obtain ⟨r, g1, g2, g3⟩ := hb.heap e t he
    exact ⟨r, g1, Nat.lt_succ_of_lt g2, g3⟩
  · intro f op m t s0 s1 h
    obtain ⟨i, r, L, g1, g2, g3, g4, g5, g6, g7, g8, g9, g10⟩ := hb.fused f op m t s0 s1 (hfu h)
    exact ⟨i, r, L, g1, g2, g3, Nat.lt_succ_of_lt g4, g5, g6, g7, g8, hsrc _ _ _ g9, hsrc _ _ _ g10⟩

/-! ### phase 5: releasing the ended ranges -/

theorem passInv_free {k1 numRegs : Nat} {c : ASt w} {atf : List Nat} (hc : PassInv s k1 c) :
    PassInv s k1 (freeList numRegs atf c) := by
  have hst := freeList_st numRegs atf c
  have hnre := freeList_nre numRegs atf c
  have hget := alGet_freeList numRegs atf hc.regs
  have hsub : ∀ t l, alGet (freeList numRegs atf c).repl t = some l → alGet c.repl t = some l := by
    intro t l h
    rw [hget] at h
    split at h
    · cases h
    · exact h
  have hfu : ∀ {f op m t s0 s1}, Fused s k1 (freeList numRegs atf c) f op m t s0 s1 ↔
      Fused s k1 c f op m t s0 s1 := by
    intro f op m t s0 s1; unfold Fused; rw [hst]
  refine ⟨by rw [hst]; exact hc.writes, by rw [hst]; exact hc.isize, by rw [hst]; exact hc.rkeep, ?_,
    by rw [hst]; exact hc.skel, regs_freeList numRegs atf hc.regs, ?_, ?_, ?_, ?_⟩
  · intro j hj
    rcases hc.fut j hj with h | ⟨op, m, t, s0, s1, h⟩
    · exact Or.inl (by rw [hst]; exact h)
    · exact Or.inr ⟨op, m, t, s0, s1, hfu.2 h⟩
  · intro t l h; exact hc.replDom t l (hsub t l h)
  · intro t m h
    rcases hc.fwdMem t m (hsub _ _ h) with ⟨f, op, s0, s1, g⟩ | g
    · exact Or.inl ⟨f, op, s0, s1, hfu.2 g⟩
    · exact Or.inr g
  · intro e t he; rw [hnre] at he; exact hc.heap e t he
  · intro f op m t s0 s1 h
    obtain ⟨i, r, L, g1, g2, g3, g4, g5, g6, g7, g8, g9, g10⟩ := hc.fused f op m t s0 s1 (hfu.1 h)
    exact ⟨i, r, L, g1, g2, g3, g4, g5, g6, fun v hv => g7 v (hsub _ _ hv), g8, srcFacts_congr g9 hsub,
      srcFacts_congr g10 hsub⟩

theorem passInv_pushLive {k1 : Nat} {c : ASt w} (hc : PassInv s k1 c) (live : Nat) :
    PassInv s k1 (pushLive c live) := by
  have hfu : ∀ {f op m t s0 s1}, Fused s k1 (pushLive c live) f op m t s0 s1 ↔
      Fused s k1 c f op m t s0 s1 := Iff.rfl
  exact ⟨hc.writes, hc.isize, hc.rkeep, hc.fut, hc.skel, regsInv_congr hc.regs rfl rfl rfl rfl, hc.replDom,
    hc.fwdMem, hc.heap, hc.fused⟩

/-! ### phase 7: the destination -/

theorem passInv_setI_done {k : Nat} {c : ASt w} {x fin : Instr w} (hc : PassInv s (k + 1) c)
    (hx : c.st.insts[k]? = some x) (hbx : branchOff? x = none) (hfin : NoMemZero fin)
    (hbf : branchOff? fin = none) : PassInv s (k + 1) (c.setI k fin) := by
  have hkb : k < c.st.insts.size := lt_of_getElem? hx
  have hins : ∀ j, j ≠ k → (c.setI k fin).st.insts[j]? = c.st.insts[j]? := by
    intro j hj
    rw [getElem?_setI]
    have : ¬ (k = j ∧ k < c.st.insts.size) := fun h => hj h.1.symm
    simp [this]
  have hfu : ∀ {f op m t s0 s1}, Fused s (k + 1) (c.setI k fin) f op m t s0 s1 ↔
      Fused s (k + 1) c f op m t s0 s1 := by
    intro f op m t s0 s1
    constructor
    · intro h; exact fused_mono h h.1 (hins f (Nat.ne_of_gt h.1)).symm
    · intro h; exact fused_mono h h.1 (hins f (Nat.ne_of_gt h.1))
  have hsrc : ∀ i f l, SrcFacts s c i f l → SrcFacts s (c.setI k fin) i f l :=
    fun i f l h => srcFacts_congr h (fun u v g => g)
  refine ⟨hc.writes, by rw [setI_size]; exact hc.isize, hc.rkeep, ?_, ?_, regsInv_congr hc.regs rfl rfl rfl rfl,
    hc.replDom, ?_, hc.heap, ?_⟩
  · intro j hj
    rw [hins j (Nat.ne_of_gt hj)]
    rcases hc.fut j hj with h | ⟨op, m, t, s0, s1, h⟩
    · exact Or.inl h
    · exact Or.inr ⟨op, m, t, s0, s1, hfu.2 h⟩
  · intro j y hy
    by_cases hj : j = k
    · subst hj
      rw [getElem?_setI] at hy
      simp only [hkb, and_self, if_true, Option.some.injEq] at hy
      subst hy
      obtain ⟨_, y, hy, hbr⟩ := hc.skel j x hx
      exact ⟨hfin, y, hy, by rw [hbf, ← hbr, hbx]⟩
    · rw [hins j hj] at hy
      exact hc.skel j y hy
  · intro t m h
    rcases hc.fwdMem t m h with ⟨f, op, s0, s1, g⟩ | g
    · exact Or.inl ⟨f, op, s0, s1, hfu.2 g⟩
    · exact Or.inr g
  · intro f op m t s0 s1 h
    obtain ⟨i, r, L, g1, g2, g3, g4, g5, g6, g7, g8, g9, g10⟩ := hc.fused f op m t s0 s1 (hfu.1 h)
    exact ⟨i, r, L, g1, g2, g3, g4, g5, g6, g7, g8, hsrc _ _ _ g9, hsrc _ _ _ g10⟩

/-- Operands of a waiting computation were created before it. -/
theorem fused_src_created (hp : AllocPre s) {k : Nat} {a : ASt w} (hI : PassInv s k a) {f : Nat} {op : BcGen.Op}
    {m : Int} {t : Nat} {s0 s1 : Loc w} (h : Fused s k a f op m t s0 s1) {u : Nat}
    (hu : s0 = .tmp u ∨ s1 = .tmp u) : ∃ r : RangeInfo, s.ranges[u]? = some r ∧ r.created + 1 < k := by
  obtain ⟨i, r, L, g1, g2, g3, g4, _⟩ := hI.fused _ _ _ _ _ _ h
  obtain ⟨ru, Lu, gu, _, gc, _⟩ := hp.uses i _ u g1 (by
    rw [uses_mkArith]; rcases hu with rfl | rfl <;> simp [locTmp])
  exact ⟨ru, gu, by omega⟩

/-- A value created by instruction `k` gets its location `l` and its heap entry. -/
theorem passInv_newEntry (hp : AllocPre s) {k : Nat} {c a' : ASt w} {t L : Nat} {l : Loc w} {r : RangeInfo}
    (hc : PassInv s (k + 1) c) (hst : a'.st = c.st) (hrepl : a'.repl = alSet c.repl t l)
    (hnre : a'.nre = nrePush (L, t) c.nre) (hregs : RegsInv a')
    (hnoF : ∀ f op m s0 s1, ¬ Fused s (k + 1) c f op m t s0 s1)
    (hr : s.ranges[t]? = some r) (hcr : r.created = k) (hL : r.lastUse = some L) (hl : locNoZero l = true)
    (hmem : ∀ m, l = .mem m → hasWriteInRange s m k L = false) : PassInv s (k + 1) a' := by
  have hfu : ∀ {f op m t s0 s1}, Fused s (k + 1) a' f op m t s0 s1 ↔ Fused s (k + 1) c f op m t s0 s1 := by
    intro f op m t s0 s1; unfold Fused; rw [hst]
  have hold : ∀ u v, u ≠ t → alGet a'.repl u = some v → alGet c.repl u = some v := by
    intro u v hne h
    rw [hrepl, alGet_alSet_ne _ _ (Ne.symm hne)] at h; exact h
  have hsrc : ∀ f op m t' s0 s1, Fused s (k + 1) c f op m t' s0 s1 → ∀ i l', (l' = s0 ∨ l' = s1) →
      SrcFacts s c i f l' → SrcFacts s a' i f l' := by
    intro f op m t' s0 s1 hF i l' hl' h
    cases l' with
    | tmp u =>
      intro m' hm
      obtain ⟨ru, gu, gc⟩ := fused_src_created hp hc hF (u := u) (by
        rcases hl' with e | e
        · exact Or.inl e.symm
        · exact Or.inr e.symm)
      have hne : u ≠ t := by
        intro e; subst e
        rw [hr] at gu; cases gu
        omega
      exact h m' (hold u _ hne hm)
    | mem m' => exact h
    | memZero m' => trivial
    | imm c' => trivial
  refine ⟨by rw [hst]; exact hc.writes, by rw [hst]; exact hc.isize, by rw [hst]; exact hc.rkeep, ?_,
    by rw [hst]; exact hc.skel, hregs, ?_, ?_, ?_, ?_⟩
  · intro j hj
    rcases hc.fut j hj with h | ⟨op, m, t, s0, s1, h⟩
    · exact Or.inl (by rw [hst]; exact h)
    · exact Or.inr ⟨op, m, t, s0, s1, hfu.2 h⟩
  · intro t' v h
    rw [hrepl, alGet_alSet] at h
    split at h
    · rename_i e; subst e; cases h
      exact ⟨hl, r, hr, by rw [hcr]; exact Nat.lt_succ_self _⟩
    · exact hc.replDom t' v h
  · intro t' m h
    rw [hrepl, alGet_alSet] at h
    split at h
    · rename_i e; subst e; cases h
      exact Or.inr ⟨r, L, k, hr, hL, Nat.le_succ _, hmem m rfl⟩
    · rcases hc.fwdMem t' m h with ⟨f, op, s0, s1, g⟩ | g
      · exact Or.inl ⟨f, op, s0, s1, hfu.2 g⟩
      · exact Or.inr g
  · intro e t' he
    rw [hnre, mem_nrePush] at he
    rcases he with he | he
    · simp only [Prod.mk.injEq] at he
      obtain ⟨rfl, rfl⟩ := he
      refine ⟨r, hr, by rw [hcr]; exact Nat.lt_succ_self _, ?_⟩
      intro L' hL'
      rw [hL] at hL'; cases hL'; exact Nat.le_refl _
    · exact hc.heap e t' he
  · intro f op m t' s0 s1 h
    have h' := hfu.1 h
    obtain ⟨i, r', L', g1, g2, g3, g4, g5, g6, g7, g8, g9, g10⟩ := hc.fused f op m t' s0 s1 h'
    have hne : t' ≠ t := by intro e; subst e; exact hnoF _ _ _ _ _ h'
    exact ⟨i, r', L', g1, g2, g3, g4, g5, g6, fun v hv => g7 v (hold _ _ hne hv), g8,
      hsrc _ _ _ _ _ _ h' _ _ (Or.inl rfl) g9, hsrc _ _ _ _ _ _ h' _ _ (Or.inr rfl) g10⟩

theorem branchOff?_of_dstTmp? {x : Instr w} {t : Nat} (h : dstTmp? x = some t) : branchOff? x = none := by
  cases x <;> first | rfl | (simp [dstTmp?] at h)

theorem noMemZero_setDst {x : Instr w} (hx : NoMemZero x) (r : Nat) : NoMemZero (setDst x (.tmp r)) := by
  cases x <;> simp_all [setDst, NoMemZero, noMemZero, locNoZero]

theorem branchOff?_setDst {x : Instr w} {t : Nat} (h : dstTmp? x = some t) (d : Loc w) :
    branchOff? (setDst x d) = none := by
  cases x <;> first | rfl | (simp [dstTmp?] at h)

theorem passInv_dst (hp : AllocPre s) {k : Nat} {can : Bool} {c a' : ASt w} {x : Instr w} {u : Unit}
    (hc : PassInv s (k + 1) c) (hD : phDst k can c = .ok (u, a')) (hx : c.st.insts[k]? = some x)
    (hxz : NoMemZero x)
    (hdst : ∀ t, dstTmp? x = some t → (∀ f op m s0 s1, ¬ Fused s (k + 1) c f op m t s0 s1) ∧
      ∃ r : RangeInfo, s.ranges[t]? = some r ∧ r.created = k ∧ c.st.ranges[t]? = some r) :
    PassInv s (k + 1) a' := by
  obtain ⟨x', hx', h⟩ := phDst_ok hD
  rw [hx] at hx'; cases hx'
  rcases h with ⟨_, rfl⟩ | ⟨t, ht, r', hr', h⟩
  · exact hc
  obtain ⟨hnoF, r, hr, hcr, hrc⟩ := hdst t ht
  rw [hrc] at hr'; cases hr'
  have hbx := branchOff?_of_dstTmp? ht
  have hwr : ∀ m lo hi, hasWriteInRange c.st m lo hi = hasWriteInRange s m lo hi :=
    fun m lo hi => hasWriteInRange_congr hc.writes m lo hi
  rcases h with ⟨_, rfl⟩ | ⟨src, L, rfl, hL, hnu, hsrc, rfl⟩ | ⟨hnu, u', hA⟩
  · exact passInv_setI_done hc hx hbx rfl rfl
  · have h1 := passInv_setI_done hc hx hbx (fin := .noop) rfl rfl
    have hsz : locNoZero src = true := by
      rcases hsrc with ⟨c', rfl⟩ | ⟨m, rfl, _⟩ <;> rfl
    have hnoF1 : ∀ f op m s0 s1, ¬ Fused s (k + 1) (c.setI k .noop) f op m t s0 s1 := by
      intro f op m s0 s1 h
      refine hnoF f op m s0 s1 (fused_mono h h.1 ?_)
      rw [getElem?_setI]
      have : ¬ (k = f ∧ k < c.st.insts.size) := fun e => Nat.ne_of_gt h.1 e.1.symm
      simp [this]
    refine passInv_newEntry hp (c := c.setI k .noop) (l := src) h1 rfl rfl rfl ?_ hnoF1 hr hcr hL hsz ?_
    · refine regsInv_congr (regs_setRepl_nontmp hc.regs t src ?_) rfl rfl rfl rfl
      rcases hsrc with ⟨c', rfl⟩ | ⟨m, rfl, _⟩ <;> (intro r e; cases e)
    · intro m e
      rcases hsrc with ⟨c', rfl⟩ | ⟨m', rfl, hw⟩
      · cases e
      · cases e; rw [← hwr]; exact hw
  · obtain ⟨r2, L, x2, q1, q2, q3, q4, q5⟩ := allocTemp_ok hA
    rw [hrc] at q1; cases q1
    rw [hx] at q4; cases q4
    have h1 := passInv_setI_done hc hx hbx (fin := setDst x (.tmp (pickTemp c (L - k)).1))
      (noMemZero_setDst hxz _) (branchOff?_setDst ht _)
    have hnoF1 : ∀ f op m s0 s1,
        ¬ Fused s (k + 1) (c.setI k (setDst x (.tmp (pickTemp c (L - k)).1))) f op m t s0 s1 := by
      intro f op m s0 s1 h
      refine hnoF f op m s0 s1 (fused_mono h h.1 ?_)
      rw [getElem?_setI]
      have : ¬ (k = f ∧ k < c.st.insts.size) := fun e => Nat.ne_of_gt h.1 e.1.symm
      simp [this]
    subst q5
    refine passInv_newEntry hp (c := c.setI k (setDst x (.tmp (pickTemp c (L - k)).1)))
      (l := .tmp (pickTemp c (L - k)).1) h1 rfl rfl rfl ?_ hnoF1 hr hcr q2 rfl ?_
    · exact regsInv_congr (regs_pick hc.regs (L - k) t) rfl rfl rfl rfl
    · intro m e; cases e

/-! ### phase 3: moving a computation to its first use -/

structure FuseSrcSpec (f : Nat) (atf : List Nat) (l : Loc w) (a : ASt w) (atf' : List Nat) (a' : ASt w) : Prop where
  repl : a'.repl = a.repl
  freeRegs : a'.freeRegs = a.freeRegs
  freeTemps : a'.freeTemps = a.freeTemps
  nextFresh : a'.nextFresh = a.nextFresh
  insts : a'.st.insts = a.st.insts
  writes : a'.st.writes = a.st.writes
  live : a'.st.live = a.st.live
  ranges : ∀ (t' : Nat) (r0 : RangeInfo), a.st.ranges[t']? = some r0 →
    ∃ r1 : RangeInfo, a'.st.ranges[t']? = some r1 ∧ r1.created = r0.created ∧ r1.numUses = r0.numUses ∧
      (l ≠ .tmp t' → r1 = r0) ∧ (l = .tmp t' → r1.lastUse = some f)
  src : ∀ u, l = .tmp u → ∃ r0, a.st.ranges[u]? = some r0
  nre : ∀ x, x ∈ a'.nre → x ∈ a.nre ∨ ∃ u, l = .tmp u ∧ x = (f, u) ∧ u ∈ atf
  nreSub : ∀ x, x ∈ a.nre → x ∈ a'.nre
  atfMem : ∀ y, y ∈ atf' ↔ y ∈ atf ∧ l ≠ .tmp y

theorem fuseSrcP_spec {f : Nat} {atf atf' : List Nat} {l : Loc w} {a a' : ASt w}
    (h : fuseSrcP f atf l a = .ok (atf', a')) : FuseSrcSpec f atf l a atf' a' := by
  cases l with
  | tmp t =>
    simp only [fuseSrcP] at h
    cases he : extendTo a.st.ranges t f with
    | error e => simp [he] at h
    | ok rs =>
      simp only [he] at h
      unfold extendTo at he
      cases hr : a.st.ranges[t]? with
      | none => simp [hr] at he
      | some r0 =>
        simp only [hr, Except.ok.injEq] at he
        have hranges : ∀ (t' : Nat) (q : RangeInfo), a.st.ranges[t']? = some q →
            ∃ r1 : RangeInfo, rs[t']? = some r1 ∧ r1.created = q.created ∧ r1.numUses = q.numUses ∧
              (Loc.tmp t ≠ (Loc.tmp t' : Loc w) → r1 = q) ∧ ((Loc.tmp t : Loc w) = .tmp t' → r1.lastUse = some f) := by
          intro t' q hq
          have hlt : t' < a.st.ranges.size := lt_of_getElem? hq
          rw [← he, Array.getElem?_setIfInBounds]
          by_cases e : t = t'
          · subst e
            rw [hr] at hq; cases hq
            simp only [hlt, and_self, if_true]
            refine ⟨_, rfl, ?_, ?_, fun hne => absurd rfl hne, fun _ => rfl⟩
            · simp only; split <;> rfl
            · simp only; split <;> rfl
          · simp only [e, false_and, if_false]
            exact ⟨q, hq, rfl, rfl, fun _ => rfl, fun h' => absurd (Loc.tmp.inj h') e⟩
        by_cases hc : atf.contains t = true
        · simp only [hc, if_true, Except.ok.injEq, Prod.mk.injEq] at h
          obtain ⟨rfl, rfl⟩ := h
          refine ⟨rfl, rfl, rfl, rfl, rfl, rfl, rfl, hranges, fun u hu => ⟨r0, by cases hu; exact hr⟩, ?_, ?_, ?_⟩
          · intro x hx
            simp only [mem_nrePush] at hx
            rcases hx with rfl | hx
            · exact Or.inr ⟨t, rfl, rfl, by simpa using hc⟩
            · exact Or.inl hx
          · intro x hx
            simp only [mem_nrePush]
            exact Or.inr hx
          · intro y
            rw [mem_setErase]
            constructor
            · rintro ⟨g1, g2⟩; exact ⟨g1, fun e => g2 (Loc.tmp.inj e).symm⟩
            · rintro ⟨g1, g2⟩; exact ⟨g1, fun e => g2 (by rw [e])⟩
        · simp only [hc, Except.ok.injEq, Prod.mk.injEq] at h
          obtain ⟨rfl, rfl⟩ := h
          refine ⟨rfl, rfl, rfl, rfl, rfl, rfl, rfl, hranges, fun u hu => ⟨r0, by cases hu; exact hr⟩,
            fun x hx => Or.inl hx, fun x hx => hx, ?_⟩
          intro y
          constructor
          · intro g1
            refine ⟨g1, fun e => hc ?_⟩
            cases e
            simpa using g1
          · exact fun g => g.1
  | mem m =>
    simp only [fuseSrcP, Except.ok.injEq, Prod.mk.injEq] at h
    obtain ⟨rfl, rfl⟩ := h
    exact ⟨rfl, rfl, rfl, rfl, rfl, rfl, rfl, fun t' r0 h => ⟨r0, h, rfl, rfl, fun _ => rfl, fun e => (by cases e)⟩,
      fun u e => (by cases e), fun x hx => Or.inl hx, fun x hx => hx, fun y => ⟨fun g => ⟨g, by simp⟩, fun g => g.1⟩⟩
  | memZero m =>
    simp only [fuseSrcP, Except.ok.injEq, Prod.mk.injEq] at h
    obtain ⟨rfl, rfl⟩ := h
    exact ⟨rfl, rfl, rfl, rfl, rfl, rfl, rfl, fun t' r0 h => ⟨r0, h, rfl, rfl, fun _ => rfl, fun e => (by cases e)⟩,
      fun u e => (by cases e), fun x hx => Or.inl hx, fun x hx => hx, fun y => ⟨fun g => ⟨g, by simp⟩, fun g => g.1⟩⟩
  | imm c =>
    simp only [fuseSrcP, Except.ok.injEq, Prod.mk.injEq] at h
    obtain ⟨rfl, rfl⟩ := h
    exact ⟨rfl, rfl, rfl, rfl, rfl, rfl, rfl, fun t' r0 h => ⟨r0, h, rfl, rfl, fun _ => rfl, fun e => (by cases e)⟩,
      fun u e => (by cases e), fun x hx => Or.inl hx, fun x hx => hx, fun y => ⟨fun g => ⟨g, by simp⟩, fun g => g.1⟩⟩

theorem srcOk_true {a : ASt w} {i f : Nat} {l : Loc w} (h : srcOk a i f l = .ok true) :
    match l with
    | .mem m => hasWriteInRange a.st m i f = false
    | .tmp u => ∃ v, alGet a.repl u = some v ∧ ∀ m', v = .mem m' → hasWriteInRange a.st m' i f = false
    | _ => True := by
  cases l with
  | mem m => simpa [srcOk] using h
  | tmp u =>
    simp only [srcOk] at h
    cases hg : alGet a.repl u with
    | none => simp [hg] at h
    | some v =>
      refine ⟨v, hg, ?_⟩
      intro m' e
      subst e
      simpa [hg] using h
  | memZero m => trivial
  | imm c => trivial

theorem passInv_fuse (hp : AllocPre s) {k : Nat} {b : ASt w} (hb : PassInv s k b) {atf0 : List Nat}
    (hdead : ∀ t ∈ atf0, DeadAt s k t) {inst0 : Instr w} (hi0 : b.st.insts[k]? = some inst0)
    {op : BcGen.Op} {t : Nat} {s0 s1 : Loc w} {r : RangeInfo} {L f : Nat} {m : Int} {src : Loc w}
    {atf1 atf : List Nat} {a1 a2 : ASt w} {x : Instr w}
    (e1 : arith? inst0 = some (op, .tmp t, s0, s1)) (e2 : b.st.ranges[t]? = some r) (e3 : r.lastUse = some L)
    (e4 : r.firstUse = some f) (e5 : b.st.insts[f]? = some (.copy (.mem m) src))
    (e6 : hasWriteInRange b.st m (f + 1) L = false)
    (e7 : srcOk b k f s0 = .ok true) (e8 : srcOk b k f s1 = .ok true)
    (e9 : fuseSrcP f atf0 s0 b = .ok (atf1, a1)) (e10 : fuseSrcP f atf1 s1 a1 = .ok (atf, a2))
    (e11 : (fuseSt a2 k t L f m inst0).st.insts[f]? = some x) :
    let aF := retarget (fuseSt a2 k t L f m inst0) f m x
    PassInv s (k + 1) aF ∧ aF.st.insts[k]? = some .noop ∧
    -- summary for the simulation
    (s.insts[k]? = some (mkArith op (.tmp t) s0 s1) ∧ k < f ∧ s.insts[f]? = some (.copy (.mem m) (.tmp t)) ∧
      aF.repl = alSet b.repl t (.mem m) ∧ (∀ y, y ∈ atf → y ∈ atf0) ∧
      (∀ j, j ≠ k → j ≠ f → aF.st.insts[j]? = b.st.insts[j]?) ∧
      aF.st.insts[f]? = some (mkArith op (.mem m) s0 s1) ∧
      aF.freeRegs = b.freeRegs ∧ aF.freeTemps = b.freeTemps ∧ aF.nextFresh = b.nextFresh ∧
      aF.st.live = b.st.live ∧ b.st.insts[f]? = some (.copy (.mem m) (.tmp t))) := by
  intro aF
  have hinst0 : inst0 = mkArith op (.tmp t) s0 s1 := arith?_eq_some.1 e1
  subst hinst0
  -- the instruction is the input instruction
  have hPk : s.insts[k]? = some (mkArith op (.tmp t) s0 s1) := by
    rcases hb.fut k (Nat.le_refl _) with h | ⟨op', m', t', a', b', h⟩
    · rw [← h]; exact hi0
    · have := h.2.2
      rw [hi0] at this
      have := mkArith_inj (Option.some.inj this)
      cases this.2.1
  obtain ⟨r0, hr0, hcr0⟩ := hp.defs k _ t hPk (by rw [defs_mkArith]; simp [locTmp])
  obtain ⟨r', q1, _, _, q4⟩ := hb.rkeep t r0 hr0
  have hrr : r0 = r := by
    rw [q4 (by rw [hcr0]; exact Nat.le_refl _)] at q1
    rw [e2] at q1; exact (Option.some.inj q1).symm
  subst hrr
  have hkf : k < f := hp.firstLt k op t s0 s1 r0 f hPk hr0 e4
  have hPf : s.insts[f]? = some (.copy (.mem m) src) := by
    rcases hb.fut f (Nat.le_of_lt hkf) with h | ⟨op', m', t', a', b', h⟩
    · rw [← h]; exact e5
    · have := h.2.2
      rw [e5] at this
      exact absurd (Option.some.inj this).symm (mkArith_ne_copy _ _ _ _ _ _)
  have hcand : Cand s k op t s0 s1 f m src := ⟨hPk, ⟨r0, L, hr0, e4, e3⟩, hPf⟩
  obtain ⟨hsrc, hregion, hnojump⟩ := hp.fuse _ _ _ _ _ _ _ _ hcand
  subst hsrc
  have S0 := fuseSrcP_spec e9
  have S1 := fuseSrcP_spec e10
  have hkb : k < b.st.insts.size := lt_of_getElem? hi0
  have hfb : f < b.st.insts.size := lt_of_getElem? e5
  have ha2i : a2.st.insts = b.st.insts := by rw [S1.insts, S0.insts]
  -- the instruction array
  have hx : x = mkArith op (.tmp t) s0 s1 := by
    simp only [fuseSt, getElem?_setI, setI_size, ha2i] at e11
    have h1 : ¬ (k = f ∧ k < b.st.insts.size) := fun h => Nat.ne_of_lt hkf h.1
    simp only [h1, if_false, hfb, and_self, if_true, Option.some.injEq] at e11
    exact e11.symm
  subst hx
  have haF : aF = (fuseSt a2 k t L f m (mkArith op (.tmp t) s0 s1)).setI f (mkArith op (.mem m) s0 s1) := by
    show retarget _ f m _ = _
    unfold retarget
    rw [arith?_mkArith]
  have hins : ∀ j, aF.st.insts[j]? = if j = f then some (mkArith op (.mem m) s0 s1)
      else if j = k then some .noop else b.st.insts[j]? := by
    intro j
    rw [haF]
    simp only [fuseSt, getElem?_setI, setI_size, ha2i]
    by_cases hjf : j = f
    · subst hjf; simp [hfb]
    · by_cases hjk : j = k
      · subst hjk
        have : ¬ (f = j ∧ f < b.st.insts.size) := fun h => hjf h.1.symm
        simp [this, hjf, hkb]
      · have h1 : ¬ (f = j ∧ f < b.st.insts.size) := fun h => hjf h.1.symm
        have h2 : ¬ (k = j ∧ k < b.st.insts.size) := fun h => hjk h.1.symm
        simp [h1, h2, hjf, hjk]
  have hrepl : aF.repl = alSet b.repl t (.mem m) := by
    rw [haF]; simp only [ASt.setI, fuseSt]; rw [S1.repl, S0.repl]
  have hnre : aF.nre = nrePush (L, t) a2.nre := by rw [haF]; rfl
  have hranges : aF.st.ranges = a2.st.ranges := by rw [haF]; rfl
  have hwrites : aF.st.writes = b.st.writes := by
    rw [haF]; simp only [ASt.setI, fuseSt]; rw [S1.writes, S0.writes]
  have hfr : aF.freeRegs = b.freeRegs := by rw [haF]; simp only [ASt.setI, fuseSt]; rw [S1.freeRegs, S0.freeRegs]
  have hft : aF.freeTemps = b.freeTemps := by
    rw [haF]; simp only [ASt.setI, fuseSt]; rw [S1.freeTemps, S0.freeTemps]
  have hnf : aF.nextFresh = b.nextFresh := by
    rw [haF]; simp only [ASt.setI, fuseSt]; rw [S1.nextFresh, S0.nextFresh]
  have hsize : aF.st.insts.size = b.st.insts.size := by
    rw [haF]; simp only [setI_size, fuseSt, ha2i]
  -- `t` has no entry yet
  have htnone : alGet b.repl t = none := by
    cases hg : alGet b.repl t with
    | none => rfl
    | some v =>
      obtain ⟨_, r1, g1, g2⟩ := hb.replDom t v hg
      rw [hr0] at g1; cases g1
      omega
  have hold : ∀ u v, u ≠ t → alGet aF.repl u = some v → alGet b.repl u = some v := by
    intro u v hne h
    rw [hrepl, alGet_alSet_ne _ _ (Ne.symm hne)] at h; exact h
  -- operands of the moved instruction are in range at `k`
  have huse : ∀ u, (s0 = .tmp u ∨ s1 = .tmp u) → InRange s u k := by
    intro u hu
    apply hp.uses k _ u hPk
    rw [uses_mkArith]
    rcases hu with rfl | rfl <;> simp [locTmp]
  -- ranges of the final state
  have hrng : ∀ (t' : Nat) (q : RangeInfo), b.st.ranges[t']? = some q →
      ∃ r1 : RangeInfo, aF.st.ranges[t']? = some r1 ∧ r1.created = q.created ∧ r1.numUses = q.numUses ∧
        (s0 ≠ .tmp t' → s1 ≠ .tmp t' → r1 = q) := by
    intro t' q hq
    obtain ⟨r1, g1, g2, g3, g4, g5⟩ := S0.ranges t' q hq
    obtain ⟨r2, h1, h2, h3, h4, h5⟩ := S1.ranges t' r1 g1
    refine ⟨r2, by rw [hranges]; exact h1, by rw [h2, g2], by rw [h3, g3], ?_⟩
    intro n0 n1; rw [h4 n1, g4 n0]
  -- heap entries of the final state
  have hnreF : ∀ e u, (e, u) ∈ aF.nre → (e, u) = (L, t) ∨ (e, u) ∈ b.nre ∨
      (e = f ∧ u ∈ atf0 ∧ (s0 = .tmp u ∨ s1 = .tmp u)) := by
    intro e u he
    rw [hnre, mem_nrePush] at he
    rcases he with he | he
    · exact Or.inl he
    · rcases S1.nre _ he with he | ⟨u', hu', hx', hm'⟩
      · rcases S0.nre _ he with he | ⟨u', hu', hx', hm'⟩
        · exact Or.inr (Or.inl he)
        · simp only [Prod.mk.injEq] at hx'
          obtain ⟨rfl, rfl⟩ := hx'
          exact Or.inr (Or.inr ⟨rfl, hm', Or.inl hu'⟩)
      · simp only [Prod.mk.injEq] at hx'
        obtain ⟨rfl, rfl⟩ := hx'
        exact Or.inr (Or.inr ⟨rfl, ((S0.atfMem _).1 hm').1, Or.inr hu'⟩)
  -- old waiting computations
  have hfuOld : ∀ {f' op' m' t' a' b'}, Fused s (k + 1) aF f' op' m' t' a' b' → f' ≠ f →
      Fused s k b f' op' m' t' a' b' := by
    intro f' op' m' t' a' b' h hne
    refine ⟨Nat.le_of_succ_le h.1, h.2.1, ?_⟩
    have := h.2.2
    rw [hins] at this
    have hk' : f' ≠ k := Nat.ne_of_gt h.1
    simpa [hne, hk'] using this
  have hfuNew : ∀ {f' op' m' t' a' b'}, Fused s k b f' op' m' t' a' b' →
      k + 1 ≤ f' ∧ f' ≠ f ∧ Fused s (k + 1) aF f' op' m' t' a' b' := by
    intro f' op' m' t' a' b' h
    have hk' : f' ≠ k := by
      intro e; subst e
      have := h.2.2
      rw [hi0] at this
      have := mkArith_inj (Option.some.inj this)
      cases this.2.1
    have hf' : f' ≠ f := by
      intro e; subst e
      have := h.2.2
      rw [e5] at this
      exact absurd (Option.some.inj this).symm (mkArith_ne_copy _ _ _ _ _ _)
    have hlt : k + 1 ≤ f' := Nat.lt_of_le_of_ne h.1 (Ne.symm hk')
    refine ⟨hlt, hf', hlt, h.2.1, ?_⟩
    rw [hins]; simp only [hf', hk', if_false]; exact h.2.2
  have hfuF : Fused s (k + 1) aF f op m t s0 s1 := ⟨hkf, hPf, by rw [hins]; simp⟩
  have hsrcOld : ∀ {f' op' m' t' a' b'}, Fused s k b f' op' m' t' a' b' → ∀ i l, (l = a' ∨ l = b') →
      SrcFacts s b i f' l → SrcFacts s aF i f' l := by
    intro f' op' m' t' a' b' hF i l hl h
    cases l with
    | tmp u =>
      intro m'' hm
      obtain ⟨ru, gu, gc⟩ := fused_src_created hp hb hF (u := u) (by
        rcases hl with e | e
        · exact Or.inl e.symm
        · exact Or.inr e.symm)
      have hne : u ≠ t := by
        intro e; subst e
        rw [hr0] at gu; cases gu
        omega
      exact h m'' (hold u _ hne hm)
    | mem m'' => exact h
    | memZero m'' => trivial
    | imm c' => trivial
  -- the operands of the new waiting computation
  have hsrcNew : ∀ l, (l = s0 ∨ l = s1) → srcOk b k f l = .ok true → SrcFacts s aF k f l := by
    intro l hl hok
    have := srcOk_true hok
    cases l with
    | tmp u =>
      obtain ⟨v, g1, g2⟩ := this
      intro m' hm
      have hne : u ≠ t := by intro e; subst e; rw [htnone] at g1; cases g1
      have := hold u _ hne hm
      rw [g1] at this; cases this
      rw [← hasWriteInRange_congr hb.writes]; exact g2 m' rfl
    | mem m' =>
      show hasWriteInRange s m' k f = false
      rw [← hasWriteInRange_congr hb.writes]; exact this
    | memZero m' => trivial
    | imm c' => trivial
  have hnz : NoMemZero (mkArith op (.tmp t) s0 s1) := (hb.skel k _ hi0).1
  rw [noMemZero_mkArith] at hnz
  refine ⟨⟨?_, ?_, ?_, ?_, ?_, ?_, ?_, ?_, ?_, ?_⟩, ?_, hPk, hkf, hPf, hrepl, ?_, ?_, ?_, hfr, hft, hnf, ?_, e5⟩
  · rw [hwrites]; exact hb.writes
  · rw [hsize]; exact hb.isize
  · -- rkeep
    intro t' q hq
    obtain ⟨r', g1, g2, g3, g4⟩ := hb.rkeep t' q hq
    obtain ⟨r1, h1, h2, h3, h4⟩ := hrng t' r' g1
    refine ⟨r1, h1, by rw [h2, g2], by rw [h3, g3], ?_⟩
    intro hle
    have hn : ∀ l, (l = s0 ∨ l = s1) → l ≠ .tmp t' := by
      intro l hl e
      subst e
      obtain ⟨ru, Lu, gu, _, gc, _⟩ := huse t' (by rcases hl with h | h; exact Or.inl h.symm; exact Or.inr h.symm)
      rw [hq] at gu; cases gu
      omega
    rw [h4 (hn s0 (Or.inl rfl)) (hn s1 (Or.inr rfl))]
    exact g4 (Nat.le_of_succ_le hle)
  · -- fut
    intro j hj
    by_cases hjf : j = f
    · subst hjf; exact Or.inr ⟨op, m, t, s0, s1, hfuF⟩
    · rw [hins]
      have hjk : j ≠ k := Nat.ne_of_gt hj
      simp only [hjf, hjk, if_false]
      rcases hb.fut j (Nat.le_of_succ_le hj) with h | ⟨op', m', t', a', b', h⟩
      · exact Or.inl h
      · exact Or.inr ⟨op', m', t', a', b', (hfuNew h).2.2⟩
  · -- skel
    intro j y hy
    rw [hins] at hy
    by_cases hjf : j = f
    · subst hjf
      simp only [if_true, Option.some.injEq] at hy
      subst hy
      refine ⟨noMemZero_mkArith.2 ⟨rfl, hnz.2.1, hnz.2.2⟩, _, hPf, ?_⟩
      rw [branchOff?_mkArith]; rfl
    · by_cases hjk : j = k
      · subst hjk
        simp only [hjf, if_false, if_true, Option.some.injEq] at hy
        subst hy
        exact ⟨rfl, _, hPk, by rw [branchOff?_mkArith]; rfl⟩
      · simp only [hjf, hjk, if_false] at hy
        exact hb.skel j y hy
  · -- regs
    refine regsInv_congr (regs_setRepl_nontmp hb.regs t (.mem m) (fun r e => by cases e)) hrepl hfr hft hnf
  · -- replDom
    intro t' v h
    rw [hrepl, alGet_alSet] at h
    split at h
    · rename_i e; subst e; cases h
      exact ⟨rfl, r0, hr0, by omega⟩
    · obtain ⟨g1, r1, g2, g3⟩ := hb.replDom t' v h
      exact ⟨g1, r1, g2, Nat.lt_succ_of_lt g3⟩
  · -- fwdMem
    intro t' m' h
    rw [hrepl, alGet_alSet] at h
    split at h
    · rename_i e; subst e; cases h
      exact Or.inl ⟨f, op, s0, s1, hfuF⟩
    · rcases hb.fwdMem t' m' h with ⟨f', op', a', b', g⟩ | ⟨r1, L1, lo, g1, g2, g3, g4⟩
      · exact Or.inl ⟨f', op', a', b', (hfuNew g).2.2⟩
      · exact Or.inr ⟨r1, L1, lo, g1, g2, Nat.le_succ_of_le g3, g4⟩
  · -- heap
    intro e u he
    rcases hnreF e u he with he | he | ⟨rfl, hm, hsu⟩
    · simp only [Prod.mk.injEq] at he
      obtain ⟨rfl, rfl⟩ := he
      refine ⟨r0, hr0, by omega, ?_⟩
      intro L' hL'; rw [e3] at hL'; cases hL'; exact Nat.le_refl _
    · obtain ⟨r1, g1, g2, g3⟩ := hb.heap e u he
      exact ⟨r1, g1, Nat.lt_succ_of_lt g2, g3⟩
    · obtain ⟨ru, Lu, gu, gl, gc, _⟩ := huse u hsu
      refine ⟨ru, gu, Nat.lt_succ_of_lt gc, ?_⟩
      intro L' hL'
      have := hdead u hm ru L' gu hL'
      omega
  · -- fused
    intro f' op' m' t' a' b' h
    by_cases hf' : f' = f
    · subst hf'
      have h1 := h.2.1
      rw [hPf] at h1
      have h2 := h.2.2
      rw [hins] at h2
      simp only [if_true, Option.some.injEq] at h2
      obtain ⟨rfl, hm, rfl, rfl⟩ := mkArith_inj h2
      cases hm
      simp only [Option.some.injEq, Instr.copy.injEq, Loc.tmp.injEq, true_and] at h1
      subst h1
      refine ⟨k, r0, L, hPk, hr0, hcr0, Nat.lt_succ_self _, e4, e3, ?_, ?_, hsrcNew _ (Or.inl rfl) e7,
        hsrcNew _ (Or.inr rfl) e8⟩
      · intro v hv
        rw [hrepl, alGet_alSet_self] at hv
        exact (Option.some.inj hv).symm
      · rw [← hasWriteInRange_congr hb.writes]; exact e6
    · have hold' := hfuOld h hf'
      obtain ⟨i, r1, L1, g1, g2, g3, g4, g5, g6, g7, g8, g9, g10⟩ := hb.fused _ _ _ _ _ _ hold'
      have hne : t' ≠ t := by
        intro e; subst e
        rw [hr0] at g2; cases g2
        omega
      exact ⟨i, r1, L1, g1, g2, g3, Nat.lt_succ_of_lt g4, g5, g6, fun v hv => g7 v (hold _ _ hne hv), g8,
        hsrcOld hold' _ _ (Or.inl rfl) g9, hsrcOld hold' _ _ (Or.inr rfl) g10⟩
  · rw [hins]; simp [Nat.ne_of_lt hkf]
  · intro y hy
    exact ((S0.atfMem y).1 ((S1.atfMem y).1 hy).1).1
  · intro j hjk hjf
    rw [hins]; simp [hjk, hjf]
  · rw [hins]; simp
  · rw [haF]; simp only [ASt.setI, fuseSt]; rw [S1.live, S0.live]

end Alloc
end C02
end Hpbf
