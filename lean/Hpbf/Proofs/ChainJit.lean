/-
Chain, part 6: canonical Brainfuck semantics vs. the machine code of the x86-64 baseline JIT at optimisation
level 0 (source → `Program::parse` → `translate` → `JitGen.compileX86`, run by the program-level machine
`X86Prog`), by composing `bytecode_level0` with `C03.prog_run`.

`JitHyps` bundles the explicit hypotheses of `C03.prog_run` (they are NOT discharged here): compilation
succeeds (no `scan`: `fuse = false` in practice), code < 2^31 bytes, three distinct runtime addresses, the
contract checker accepts `p` with 11 registers, access window / temporaries / `mov` shifts inside `i32`, stack
alignment at entry, budget < 2^64, not (limited with budget 0), and – for bounds-checked code – no allocation
beyond 2^40 cells in any reached state.

What is stated, and what is not.
* forward (`jit_level0_forward`): canonical termination ⇒ the function returns (1 = ran off the end, 0 = stopped
  at a failing I/O operation) with exactly the canonical events;
* uniqueness (`jit_level0_unique`): the machine is deterministic, so under canonical termination EVERY return of
  the function is that one;
* prefix (`jit_level0_prefix`): every canonical event prefix is the trace of a state the machine reaches;
* limited mode (`jit_level0_limited`): the function always returns; result 1 ⇒ the events are the complete
  canonical sequence of a terminating canonical run; in every case the events are an initial part of the
  canonical sequence; (`jit_level0_limited_enough`) a large enough budget gives result 1 / the stop.
* NOT stated: "the function returns ⇒ the canonical run terminates" in unlimited mode.  `prog_run` matches
  every unfinished bytecode run with SOME machine state reached by `.next` steps, without a lower bound on the
  number of machine steps, so a divergent bytecode run is not shown to keep the machine from returning.
-/
import Hpbf.Proofs.ChainLevel0
import Hpbf.Props.C03Flow

namespace Hpbf
namespace Chain

open Asm JitGen X86Sem X86Prog C03 BcGen

variable {w : Nat}

/-! ### the machine is deterministic: returns are stable under more fuel -/

theorem x86_run_more (cfg : X86Prog.Cfg) : ∀ (n k : Nat) (s s' : PState w),
    X86Prog.run cfg n s = .ret s' → X86Prog.run cfg (n + k) s = .ret s' := by
  intro n
  induction n with
  | zero => intro k s s' h; simp [X86Prog.run] at h
  | succ n ih =>
    intro k s s' h
    have e : n + 1 + k = (n + k) + 1 := by omega
    rw [e]
    simp only [X86Prog.run] at h ⊢
    cases hs : X86Prog.step cfg s with
    | next s1 => rw [hs] at h; exact ih k s1 s' h
    | ret s1 => rw [hs] at h; exact h
    | fault f s1 => rw [hs] at h; cases h

theorem x86_ret_unique (cfg : X86Prog.Cfg) {n1 n2 : Nat} {s a b : PState w}
    (h1 : X86Prog.run cfg n1 s = .ret a) (h2 : X86Prog.run cfg n2 s = .ret b) : a = b := by
  have e1 := x86_run_more cfg n1 n2 s a h1
  have e2 := x86_run_more cfg n2 n1 s b h2
  rw [Nat.add_comm] at e2
  rw [e1] at e2
  cases e2; rfl

/-! ### the hypotheses of `C03.prog_run`, bundled -/

structure JitHyps (p : Bc.Program w) (limited safe : Bool) (cfg : X86Prog.Cfg) (code : List X86)
    (buf0 rsp0 ra : BitVec 64) (budget : Nat) (env : Env) : Prop where
  comp : compileX86 w p limited safe cfg.aE.toNat cfg.aI.toNat cfg.aO.toNat = some code
  fetch : cfg.fetch = fetchFast (fetchTable code)
  small : sizeAll code < 2 ^ 31
  addrIO : cfg.aI ≠ cfg.aO
  addrEI : cfg.aE ≠ cfg.aI
  addrEO : cfg.aE ≠ cfg.aO
  check : BcWf.check p 11 = true
  win : -2147483648 < p.minAcc ∧ p.maxAcc < 2147483648
  temps : alignedTemps p.temps * 8 < 2147483648
  shift : ∀ (i : Nat) (sh : Int), p.insts[i]? = some (Bc.Instr.mov sh) → -2147483648 ≤ sh ∧ sh < 2147483648
  rsp : rsp0.toNat % 16 = 8
  budgetLt : budget < 2 ^ 64
  lim : (limited && budget == 0) = false
  noOOM : safe = true → ∀ n s',
    steps cfg n (initState (w := w) cfg buf0 rsp0 ra p.minAcc p.maxAcc budget env) = some s' → Bnd s'

section Jit
variable {p : Bc.Program w} {limited safe : Bool} {cfg : X86Prog.Cfg} {code : List X86}
  {buf0 rsp0 ra : BitVec 64} {budget : Nat} {env : Env}

/-- `C03.prog_run` in elementary terms: what the compiled function does, given the outcome of the bytecode run
(`s0` is the state in which `enter_jit_code` calls the function). -/
theorem jit_of_bc (H : JitHyps p limited safe cfg code buf0 rsp0 ra budget env) (fuel : Nat) :
    let s0 : PState w := initState cfg buf0 rsp0 ra p.minAcc p.maxAcc budget env
    match Bc.run p limited budget fuel env with
    | .done c' => ∃ n s', X86Prog.run cfg n s0 = .ret s' ∧ s'.regs.rax = 1 ∧ s'.trace = c'.st.trace ∧
        s'.env = c'.st.env ∧ (∀ o, s'.tape.get (s'.lptr + o) = c'.st.rd o) ∧ s'.budget.toNat = c'.budget
    | .stopped c' => ∃ n s', X86Prog.run cfg n s0 = .ret s' ∧ s'.regs.rax = 0 ∧ s'.trace = c'.st.trace ∧
        s'.env = c'.st.env ∧ s'.budget.toNat = c'.budget
    | .interrupted c' => ∃ n s', X86Prog.run cfg n s0 = .ret s' ∧ s'.regs.rax = 0 ∧ s'.trace = c'.st.trace ∧
        s'.env = c'.st.env ∧ (∀ o, s'.tape.get (s'.lptr + o) = c'.st.rd o)
    | .bad _ => False
    | .outOfFuel c' => ∃ n s', steps cfg n s0 = some s' ∧ s'.trace = c'.st.trace ∧ s'.env = c'.st.env := by
  intro s0
  obtain ⟨K, _, hcfg, _, hrun⟩ := prog_run p limited safe cfg H.comp H.fetch H.small H.addrIO H.addrEI H.addrEO
    H.check H.win H.temps H.shift buf0 rsp0 ra H.rsp budget H.budgetLt H.lim env H.noOOM fuel
  simp only at hrun
  cases hr : Bc.run p limited budget fuel env with
  | done c' =>
    rw [hr] at hrun
    obtain ⟨n, s', h1, h2, h3, h4⟩ := hrun 0
    rw [hcfg] at h1
    exact ⟨n + 0, s', h1, h2, h3.trace, h3.env, h3.tape, h4⟩
  | stopped c' =>
    rw [hr] at hrun
    obtain ⟨n, s', h1, h2, h3, h4⟩ := hrun 0
    rw [hcfg] at h1
    exact ⟨n + 0, s', h1, h2, h3.trace, h3.env, h4⟩
  | interrupted c' =>
    rw [hr] at hrun
    obtain ⟨n, s', h1, h2, h3, _⟩ := hrun 0
    rw [hcfg] at h1
    exact ⟨n + 0, s', h1, h2, h3.trace, h3.env, h3.tape⟩
  | bad c' => rw [hr] at hrun; exact hrun
  | outOfFuel c' => rw [hr] at hrun; exact hrun

end Jit

section Level0
variable (hw : 0 < w) {src : List Kind} {prog : Prog} (hp : Bf.tree src = some prog)
  {blk : Ir.Block w} (hb : Ir.parse (w := w) src = .ok blk)
  {numRegs : Nat} {fuse : Bool} {p : Bc.Program w} (ht : translateE blk numRegs fuse = .ok p)
  {safe : Bool} {cfg : X86Prog.Cfg} {code : List X86} {buf0 rsp0 ra : BitVec 64} (env : Env)
include hw hp hb ht

/-! ### unlimited mode -/

/-- **Forward.** A terminating canonical run is reproduced by the machine code: the function returns 1 (ran off
the end) resp. 0 (stopped at a failing I/O operation) with exactly the canonical events. -/
theorem jit_level0_forward (H : JitHyps p false safe cfg code buf0 rsp0 ra 0 env) :
    let s0 : PState w := initState cfg buf0 rsp0 ra p.minAcc p.maxAcc 0 env
    (∀ f (s : State w), Bf.run f prog env = .done s →
      ∃ n s', X86Prog.run cfg n s0 = .ret s' ∧ s'.regs.rax = 1 ∧ s'.trace = s.trace) ∧
    (∀ f (s : State w), Bf.run f prog env = .stopped s →
      ∃ n s', X86Prog.run cfg n s0 = .ret s' ∧ s'.regs.rax = 0 ∧ s'.trace = s.trace) := by
  intro s0
  constructor
  · intro f s hs
    obtain ⟨f', c', hc', htr⟩ := (bytecode_level0_forward hw hp hb ht env).1 f s hs
    have := jit_of_bc H f'
    simp only [hc'] at this
    obtain ⟨n, s', h1, h2, h3, _⟩ := this
    exact ⟨n, s', h1, h2, h3.trans htr⟩
  · intro f s hs
    obtain ⟨f', c', hc', htr⟩ := (bytecode_level0_forward hw hp hb ht env).2 f s hs
    have := jit_of_bc H f'
    simp only [hc'] at this
    obtain ⟨n, s', h1, h2, h3, _⟩ := this
    exact ⟨n, s', h1, h2, h3.trans htr⟩

/-- **Uniqueness.** If the canonical run terminates, every return of the function is the one above. -/
theorem jit_level0_unique (H : JitHyps p false safe cfg code buf0 rsp0 ra 0 env) :
    let s0 : PState w := initState cfg buf0 rsp0 ra p.minAcc p.maxAcc 0 env
    (∀ f (s : State w), Bf.run f prog env = .done s →
      ∀ n s', X86Prog.run cfg n s0 = .ret s' → s'.regs.rax = 1 ∧ s'.trace = s.trace) ∧
    (∀ f (s : State w), Bf.run f prog env = .stopped s →
      ∀ n s', X86Prog.run cfg n s0 = .ret s' → s'.regs.rax = 0 ∧ s'.trace = s.trace) := by
  intro s0
  have F := jit_level0_forward hw hp hb ht env H
  constructor
  · intro f s hs n s' hr
    obtain ⟨n1, s1, h1, h2, h3⟩ := F.1 f s hs
    have := x86_ret_unique cfg hr h1
    subst this
    exact ⟨h2, h3⟩
  · intro f s hs n s' hr
    obtain ⟨n1, s1, h1, h2, h3⟩ := F.2 f s hs
    have := x86_ret_unique cfg hr h1
    subst this
    exact ⟨h2, h3⟩

/-- **Prefix.** Every canonical event prefix is the trace of a state the machine reaches (by `.next` steps, or
by returning). -/
theorem jit_level0_prefix (H : JitHyps p false safe cfg code buf0 rsp0 ra 0 env) :
    let s0 : PState w := initState cfg buf0 rsp0 ra p.minAcc p.maxAcc 0 env
    ∀ f, ∃ n s', (steps cfg n s0 = some s' ∨ X86Prog.run cfg n s0 = .ret s') ∧
      s'.trace = C01.traceOfBf (Bf.run (w := w) f prog env) := by
  intro s0 f
  obtain ⟨f', hf'⟩ := (bytecode_level0_prefix hw hp hb ht env).2 f
  have := jit_of_bc H f'
  cases hr : Bc.run p false 0 f' env with
  | done c' =>
    simp only [hr] at this
    obtain ⟨n, s', h1, _, h3, _⟩ := this
    exact ⟨n, s', Or.inr h1, by rw [← hf', hr]; exact h3⟩
  | stopped c' =>
    simp only [hr] at this
    obtain ⟨n, s', h1, _, h3, _⟩ := this
    exact ⟨n, s', Or.inr h1, by rw [← hf', hr]; exact h3⟩
  | interrupted c' =>
    simp only [hr] at this
    obtain ⟨n, s', h1, _, h3, _⟩ := this
    exact ⟨n, s', Or.inr h1, by rw [← hf', hr]; exact h3⟩
  | bad c' => simp only [hr] at this
  | outOfFuel c' =>
    simp only [hr] at this
    obtain ⟨n, s', h1, h3, _⟩ := this
    exact ⟨n, s', Or.inl h1, by rw [← hf', hr]; exact h3⟩

/-- **Divergence.** For a canonically divergent program the machine reaches, by `.next` steps only, states
carrying every canonical event prefix (the bytecode run never finishes, `bc_runs_forever`). -/
theorem jit_level0_divergent (H : JitHyps p false safe cfg code buf0 rsp0 ra 0 env)
    (hdiv : C05.BfDiverges w prog env) :
    let s0 : PState w := initState cfg buf0 rsp0 ra p.minAcc p.maxAcc 0 env
    ∀ f, ∃ n s', steps cfg n s0 = some s' ∧ s'.trace = C01.traceOfBf (Bf.run (w := w) f prog env) := by
  intro s0 f
  obtain ⟨f', hf'⟩ := (bytecode_level0_prefix hw hp hb ht env).2 f
  obtain ⟨c', hr⟩ := bc_runs_forever hw hp hb ht env hdiv H.check f'
  have := jit_of_bc H f'
  simp only [hr] at this
  obtain ⟨n, s', h1, h3, _⟩ := this
  exact ⟨n, s', h1, by rw [← hf', hr]; exact h3⟩

/-! ### limited mode -/

/-- **Limited mode.** With any budget `b ≠ 0` (`JitHyps.lim`) the function returns; the return is unique; the
result is 0 or 1; result 1 means: the canonical run terminates by running off the end and the events are its
complete event sequence; in every case the events are an initial part of the canonical event sequence. -/
theorem jit_level0_limited {b : Nat} (H : JitHyps p true safe cfg code buf0 rsp0 ra b env) :
    let s0 : PState w := initState cfg buf0 rsp0 ra p.minAcc p.maxAcc b env
    ∃ n s', X86Prog.run cfg n s0 = .ret s' ∧
      (∀ n2 s2, X86Prog.run cfg n2 s0 = .ret s2 → s2 = s') ∧
      (s'.regs.rax = 1 ∨ s'.regs.rax = 0) ∧
      (s'.regs.rax = 1 → ∃ (f : Nat) (s : State w), Bf.run f prog env = .done s ∧ s.trace = s'.trace) ∧
      (∃ f, ∀ g, f ≤ g → s'.trace <:+ C01.traceOfBf (Bf.run (w := w) g prog env)) := by
  intro s0
  obtain ⟨f', hf'⟩ := C07.bc_limited_terminates p env b
  obtain ⟨f0, hpre⟩ := bc_limited_is_prefix hw hp hb ht env b f'
  have := jit_of_bc H f'
  have h01 : ¬ ((0 : BitVec 64) = 1) := by decide
  cases hr : Bc.run p true b f' env with
  | done c' =>
    simp only [hr] at this
    obtain ⟨n, s', h1, h2, h3, _⟩ := this
    refine ⟨n, s', h1, fun n2 s2 h => x86_ret_unique cfg h h1, Or.inl h2, fun _ => ?_, f0, fun g hg => ?_⟩
    · obtain ⟨f, s, hs, hst⟩ := (bc_limited_finished hw hp hb ht env).1 b f' c' hr
      exact ⟨f, s, hs, by rw [hst, h3]⟩
    · have := hpre g hg
      rw [hr] at this
      rw [h3]; exact this
  | stopped c' =>
    simp only [hr] at this
    obtain ⟨n, s', h1, h2, h3, _⟩ := this
    refine ⟨n, s', h1, fun n2 s2 h => x86_ret_unique cfg h h1, Or.inr h2,
      fun h => absurd (h2.symm.trans h) h01, f0, fun g hg => ?_⟩
    have := hpre g hg
    rw [hr] at this
    rw [h3]; exact this
  | interrupted c' =>
    simp only [hr] at this
    obtain ⟨n, s', h1, h2, h3, _⟩ := this
    refine ⟨n, s', h1, fun n2 s2 h => x86_ret_unique cfg h h1, Or.inr h2,
      fun h => absurd (h2.symm.trans h) h01, f0, fun g hg => ?_⟩
    have := hpre g hg
    rw [hr] at this
    rw [h3]; exact this
  | bad c' => simp only [hr] at this
  | outOfFuel c' => exact (hf' c' hr).elim

/-- **Limited mode, enough budget.** If the canonical run terminates, there is a bound `g` such that with every
budget `b ≥ g` (for which the hypotheses hold) the function returns 1 resp. 0 with the complete canonical event
sequence. -/
theorem jit_level0_limited_enough :
    (∀ f (s : State w), Bf.run f prog env = .done s → ∃ g, ∀ b, g ≤ b →
      JitHyps p true safe cfg code buf0 rsp0 ra b env →
      ∃ n s', X86Prog.run cfg n (initState (w := w) cfg buf0 rsp0 ra p.minAcc p.maxAcc b env) = .ret s' ∧
        s'.regs.rax = 1 ∧ s'.trace = s.trace) ∧
    (∀ f (s : State w), Bf.run f prog env = .stopped s → ∃ g, ∀ b, g ≤ b →
      JitHyps p true safe cfg code buf0 rsp0 ra b env →
      ∃ n s', X86Prog.run cfg n (initState (w := w) cfg buf0 rsp0 ra p.minAcc p.maxAcc b env) = .ret s' ∧
        s'.regs.rax = 0 ∧ s'.trace = s.trace) := by
  constructor
  · intro f s hs
    obtain ⟨g, hg⟩ := (bc_limited_enough hw hp hb ht env).1 f s hs
    refine ⟨g, fun b hgb H => ?_⟩
    obtain ⟨f', c', hc', htr⟩ := hg b hgb
    have := jit_of_bc H f'
    simp only [hc'] at this
    obtain ⟨n, s', h1, h2, h3, _⟩ := this
    exact ⟨n, s', h1, h2, h3.trans htr⟩
  · intro f s hs
    obtain ⟨g, hg⟩ := (bc_limited_enough hw hp hb ht env).2 f s hs
    refine ⟨g, fun b hgb H => ?_⟩
    obtain ⟨f', c', hc', htr⟩ := hg b hgb
    have := jit_of_bc H f'
    simp only [hc'] at this
    obtain ⟨n, s', h1, h2, h3, _⟩ := this
    exact ⟨n, s', h1, h2, h3.trans htr⟩

end Level0

end Chain
end Hpbf
