/-
Loop optimisations of `Hpbf/Opt.lean`, additions requested by the prover of the rebuild round:

* `CondFacts'` / `analyzeLoop_sound'`: the `getBoth` fact is only required when the `getConstant` query on the
  body state fails and `sub.subShift = false` (that is the only place where `analyzeLoop` consults `getBoth`).
* the targets of the three assignments produced by the loop of `finishLoop`: `motionFold_keys` (sub-lists of the
  list of pending variables, hence duplicate-free), and what `MotionAllE` says about an entry of `B`, `D`, `A`
  (`motionAllE_B_facts`, `motionAllE_D_facts`, `motionAllE_A_facts`).
-/
import Hpbf.Proofs.OptLoopHTop

namespace Hpbf.OptLoop
open Hpbf Opt OptSem Expr

variable {w : Nat}

/-! ### `analyzeLoop` -/

/-- `CondFacts` with the `getBoth` fact only required when `getConstant` on the body state answers `none`. -/
structure CondFacts' (s : Rebuild w) (ps : List (Rebuild w)) (sub : Rebuild w) (cond : Int) (isLoop : Bool)
    (cv : Nat → BitVec w) : Prop where
  init : ∀ c, getConstant s ps cond = some c → cv 0 = c
  nz : isNonZero s ps cond = true → cv 0 ≠ 0#w
  ifOnce : isLoop = false → cv 0 ≠ 0#w → cv 1 = 0#w
  stored : ∀ c, getConstant sub (s :: ps) (cond + sub.shift - s.shift) = some c →
    ∀ k, Live cv k → cv (k + 1) = c
  both : ∀ e, getConstant sub (s :: ps) (cond + sub.shift - s.shift) = none → sub.subShift = false →
    getBoth sub (s :: ps) (cond + sub.shift - s.shift) = some e →
    ∀ k, Live cv k → ∃ f : Mem w, f cond = cv k ∧ cv (k + 1) = ev e f

theorem CondFacts.to' {s : Rebuild w} {ps : List (Rebuild w)} {sub : Rebuild w} {cond : Int}
    {isLoop : Bool} {cv : Nat → BitVec w} (h : CondFacts s ps sub cond isLoop cv) :
    CondFacts' s ps sub cond isLoop cv :=
  ⟨h.init, h.nz, h.ifOnce, h.stored, fun e _ _ => h.both e⟩

theorem analyzeLoop_sound' (hw : 0 < w) (s : Rebuild w) (ps : List (Rebuild w)) (sub : Rebuild w)
    (cond : Int) (isLoop : Bool) (cv : Nat → BitVec w) (hf : CondFacts' s ps sub cond isLoop cv)
    (hnr : sub.noReturn = false) :
    LoopMeaning (analyzeLoop s ps sub cond isLoop) cv cond := by
  have hnz : isNonZero s ps cond = true → cv 0 ≠ 0#w := hf.nz
  unfold analyzeLoop
  simp only
  split
  · rename_i h0
    have h0' : getConstant s ps cond = some 0#w := by simpa using h0
    have hz : cv 0 = 0#w := hf.init _ h0'
    apply ofExpr_val_meaning
    refine ⟨fun k hk => ?_, ?_⟩
    · simp at hk
    · simpa using hz
  · split
    · rename_i h; rw [hnr] at h; cases h
    · split
      · rename_i hl
        have hl' : isLoop = false := by simpa using hl
        exact atMostOnceOf_meaning hw cv cond _ hnz (hf.ifOnce hl')
      · split
        · rename_i storedCond hst
          split
          · rename_i hz
            have hz' : storedCond = 0#w := by simpa using hz
            subst hz'
            refine atMostOnceOf_meaning hw cv cond _ hnz (fun h0 => ?_)
            refine hf.stored _ hst 0 (fun j hj => ?_)
            have : j = 0 := by omega
            subst this; exact h0
          · rename_i hz
            have hz' : storedCond ≠ 0#w := by simpa using hz
            exact infinite_meaning cv cond _ hnz
              (fun h0 => stored_diverges cv storedCond hz' (hf.stored _ hst) h0)
        · rename_i hnone
          split
          · exact unknown_meaning cv cond _ hnz
          · rename_i hss
            have hss' : sub.subShift = false := by simpa using hss
            split
            · rename_i expr hgb
              split
              · rename_i inc hinc
                have hrec : ∀ k, Live cv k → cv (k + 1) = cv k + inc := by
                  intro k hk
                  obtain ⟨f, hfc, hfe⟩ := hf.both expr hnone hss' hgb k hk
                  rw [hfe]
                  show evaluate expr f = _
                  rw [C15.constIncOf_recompose expr cond inc f hinc, hfc, BitVec.add_comm]
                split
                · rename_i m hm
                  have hm0 : cv 0 = m := hf.init m hm
                  split
                  · rename_i n hn
                    rw [← hm0] at hn
                    exact ofExpr_val_meaning cv cond n (tripCount_runs hw cv inc n hrec hn)
                  · rename_i hn
                    rw [← hm0] at hn
                    exact infinite_meaning cv cond _ hnz
                      (fun _ => tripCount_diverges hw cv inc hrec hn)
                · split
                  · rename_i inv hinv
                    exact ofExpr_invvar_meaning hw cv cond inv (C01Opt.tripInv_some_odd inc inv hinv)
                      (tripInv_runs hw cv inc inv hrec hinv)
                  · split
                    · rename_i hz
                      have hz' : inc = 0#w := by simpa using hz
                      subst hz'
                      refine infinite_meaning cv cond _ hnz (fun h0 => ?_)
                      exact const_diverges cv (fun k hk => by rw [hrec k hk]; simp) h0
                    · exact unknown_meaning cv cond _ hnz
              · split
                · rename_i hid
                  have hid' : Expr.identity expr = some cond := by simpa using hid
                  refine infinite_meaning cv cond _ hnz (fun h0 => ?_)
                  refine const_diverges cv (fun k hk => ?_) h0
                  obtain ⟨f, hfc, hfe⟩ := hf.both expr hnone hss' hgb k hk
                  rw [hfe]
                  show evaluate expr f = _
                  rw [C15.identity_recompose expr cond f hid', hfc]
                · exact unknown_meaning cv cond _ hnz
            · exact unknown_meaning cv cond _ hnz

/-! ### the targets of `B`, `D`, `A` -/

/-- The key added by `pushOpt`. -/
def optKey (o : Option (Expr w)) (var : Int) : List Int :=
  match o with
  | some _ => [var]
  | none => []

theorem mKeys_pushOpt (l : List (Int × Expr w)) (var : Int) (o : Option (Expr w)) :
    mKeys (pushOpt l var o) = mKeys l ++ optKey o var := by
  cases o with
  | none => simp [pushOpt, optKey]
  | some e => simp [pushOpt, mKeys, optKey]

/-- The keys added by the loop over `vars` are sub-lists of `vars` (in order). -/
theorem motionFold_keys_aux (s : Rebuild w) (ps : List (Rebuild w)) (R C : List Int)
    (lin : List (Int × Expr w)) (pset : List Int) (L : OptLoop w) (vars : List Int)
    (acc res : Rebuild w × List (Int × Expr w) × List (Int × Expr w) × List (Int × Expr w))
    (os os' : Orders)
    (h : vars.foldlM (motionStepM s ps R C lin pset L) acc os = .ok (res, os')) :
    ∃ lb ld la : List Int, lb.Sublist vars ∧ ld.Sublist vars ∧ la.Sublist vars ∧
      mKeys res.2.1 = mKeys acc.2.1 ++ lb ∧ mKeys res.2.2.1 = mKeys acc.2.2.1 ++ ld ∧
      mKeys res.2.2.2 = mKeys acc.2.2.2 ++ la := by
  induction vars generalizing acc os with
  | nil =>
    simp only [List.foldlM_nil] at h
    cases h
    exact ⟨[], [], [], List.Sublist.refl _, List.Sublist.refl _, List.Sublist.refl _, by simp, by simp,
      by simp⟩
  | cons v vars ih =>
    rw [List.foldlM_cons] at h
    cases hstep : motionStepM s ps R C lin pset L acc v os with
    | error e =>
      have : (motionStepM s ps R C lin pset L acc v >>= fun a =>
          vars.foldlM (motionStepM s ps R C lin pset L) a) os = .error e := by
        show (motionStepM s ps R C lin pset L acc v os >>= _) = _
        rw [hstep]; rfl
      rw [this] at h; cases h
    | ok r1 =>
      obtain ⟨acc1, os1⟩ := r1
      have : (motionStepM s ps R C lin pset L acc v >>= fun a =>
          vars.foldlM (motionStepM s ps R C lin pset L) a) os
          = vars.foldlM (motionStepM s ps R C lin pset L) acc1 os1 := by
        show (motionStepM s ps R C lin pset L acc v os >>= _) = _
        rw [hstep]; rfl
      rw [this] at h
      obtain ⟨lb, ld, la, h1, h2, h3, k1, k2, k3⟩ := ih acc1 os1 h
      obtain ⟨sub, B, D, A⟩ := acc
      obtain ⟨_, sub', p, b, d, a, _, _, hres⟩ := motionStepM_ok s ps R C lin pset L sub B D A v os os1 acc1 hstep
      subst hres
      simp only at k1 k2 k3 ⊢
      refine ⟨optKey b v ++ lb, optKey d v ++ ld,
        (if !L.noEffect then optKey a v else []) ++ la, ?_, ?_, ?_, ?_, ?_, ?_⟩
      · cases b with
        | none => exact List.Sublist.cons _ h1
        | some _ => exact List.Sublist.cons_cons _ h1
      · cases d with
        | none => exact List.Sublist.cons _ h2
        | some _ => exact List.Sublist.cons_cons _ h2
      · split
        · cases a with
          | none => exact List.Sublist.cons _ h3
          | some _ => exact List.Sublist.cons_cons _ h3
        · exact List.Sublist.cons _ h3
      · rw [k1, mKeys_pushOpt, List.append_assoc]
      · rw [k2, mKeys_pushOpt, List.append_assoc]
      · rw [k3]
        split
        · rw [mKeys_pushOpt, List.append_assoc]
        · simp

/-- **The targets of `B`, `D`, `A`** are sub-lists of the list of pending variables the loop runs over; hence
duplicate-free if that list is. -/
theorem motionFold_keys (s : Rebuild w) (ps : List (Rebuild w)) (sub : Rebuild w) (R C : List Int)
    (lin : List (Int × Expr w)) (pset : List Int) (L : OptLoop w) (pending : List Int)
    (sub' : Rebuild w) (B D A : List (Int × Expr w)) (os os' : Orders)
    (h : pending.foldlM (motionStepM s ps R C lin pset L) (sub, [], [], []) os = .ok ((sub', B, D, A), os')) :
    (mKeys B).Sublist pending ∧ (mKeys D).Sublist pending ∧ (mKeys A).Sublist pending := by
  obtain ⟨lb, ld, la, h1, h2, h3, k1, k2, k3⟩ :=
    motionFold_keys_aux s ps R C lin pset L pending _ _ os os' h
  simp only [mKeys, List.map_nil, List.nil_append] at k1 k2 k3
  simp only [mKeys]
  rw [k1, k2, k3]
  exact ⟨h1, h2, h3⟩

theorem motionFold_keys_nodup (s : Rebuild w) (ps : List (Rebuild w)) (sub : Rebuild w) (R C : List Int)
    (lin : List (Int × Expr w)) (pset : List Int) (L : OptLoop w) (pending : List Int)
    (sub' : Rebuild w) (B D A : List (Int × Expr w)) (os os' : Orders) (hnd : pending.Nodup)
    (h : pending.foldlM (motionStepM s ps R C lin pset L) (sub, [], [], []) os = .ok ((sub', B, D, A), os')) :
    (B.map (·.1)).Nodup ∧ (D.map (·.1)).Nodup ∧ (A.map (·.1)).Nodup := by
  obtain ⟨h1, h2, h3⟩ := motionFold_keys s ps sub R C lin pset L pending sub' B D A os os' h
  exact ⟨h1.nodup hnd, h2.nodup hnd, h3.nodup hnd⟩

/-- With duplicate-free keys, membership and `mGet` coincide. -/
theorem mGet_of_mem {ν : Type} {l : List (Int × ν)} {k : Int} {x : ν} (hnd : (l.map (·.1)).Nodup)
    (h : (k, x) ∈ l) : mGet l k = some x := by
  induction l with
  | nil => cases h
  | cons kv l ih =>
    obtain ⟨k0, v0⟩ := kv
    simp only [List.map_cons, List.nodup_cons] at hnd
    simp only [mGet]
    rcases List.mem_cons.1 h with h | h
    · cases h; simp
    · have hne : k0 ≠ k := by
        rintro rfl
        exact hnd.1 (List.mem_map.2 ⟨(k0, x), h, rfl⟩)
      rw [if_neg hne]
      exact ih hnd.2 h

section
variable {s : Rebuild w} {ps : List (Rebuild w)} {sub : Rebuild w} {reads C : List Int}
  {lin : List (Int × Expr w)} {otherPending : List Int} {L : OptLoop w}
  {B D A : List (Int × Expr w)}

/-- An entry of `B`: the variable is pending, not read in the loop, not constant, not written by the emitted
instructions, and has no `after` entry. -/
theorem motionAllE_B_facts (h : MotionAllE s ps sub reads C lin otherPending L B D A) {v : Int} {b : Expr w}
    (hb : mGet B v = some b) :
    ∃ p, mGet sub.pending v = some p ∧ reads.contains v = false ∧ C.contains v = false ∧
      mGet sub.written v = none ∧ mGet A v = none := by
  cases hp : mGet sub.pending v with
  | none => rw [(h.nopend v hp).1] at hb; cases hb
  | some p =>
    obtain ⟨b', d, a, hcase, hB, _, hA⟩ := h.pend v p hp
    rw [hb] at hB
    subst hB
    obtain ⟨hr, hc, hcv⟩ := moved_facts hcase
    refine ⟨p, rfl, hr, hcv, written_none_of_complete hc, ?_⟩
    have ha : a = none := by
      generalize hr' : (some b, d, a) = r at hcase
      cases hcase with
      | gone _ _ => cases hr'
      | after p' _ _ _ => cases hr'
      | stay p' _ => cases hr'
      | tri p' expr inc cst other linears => simp only [Prod.mk.injEq] at hr'; exact hr'.2.2
      | geo0 p' expr inc mul c => simp only [Prod.mk.injEq] at hr'; exact hr'.2.2
      | geo p' expr inc mul c => simp only [Prod.mk.injEq] at hr'; exact hr'.2.2
    subst ha
    rcases hA with hA | hA
    · exact hA
    · exact hA.2

/-- An entry of `D` belongs to a pending variable. -/
theorem motionAllE_D_facts (h : MotionAllE s ps sub reads C lin otherPending L B D A) {v : Int} {d : Expr w}
    (hd : mGet D v = some d) : ∃ p, mGet sub.pending v = some p := by
  cases hp : mGet sub.pending v with
  | none => rw [(h.nopend v hp).2.1] at hd; cases hd
  | some p => exact ⟨p, rfl⟩

/-- An entry of `A`: the variable is pending, has no `before` and no `during` entry, the entry is the reduced
pending expression, the variable is not read in the loop unless the loop runs at most once, and the expression
only mentions constants and variables outside `otherPending`. -/
theorem motionAllE_A_facts (h : MotionAllE s ps sub reads C lin otherPending L B D A) {v : Int} {a : Expr w}
    (ha : mGet A v = some a) :
    ∃ p, mGet sub.pending v = some p ∧ mGet B v = none ∧ mGet D v = none ∧
      reduceConst s ps p C = .ok a ∧ (reads.contains v = false ∨ L.atMostOnce = true) ∧
      (∀ x ∈ Expr.variables a, otherPending.contains x = false ∨ C.contains x = true) := by
  cases hp : mGet sub.pending v with
  | none => rw [(h.nopend v hp).2.2] at ha; cases ha
  | some p =>
    obtain ⟨b, d, a', hcase, hB, hD, hA⟩ := h.pend v p hp
    have ha' : a' = some a := by
      rcases hA with hA | hA
      · rw [ha] at hA; exact hA.symm
      · rw [ha] at hA; cases hA.2
    subst ha'
    generalize hr : (b, d, some a) = r at hcase
    cases hcase with
    | gone _ _ => simp at hr
    | after p' hp' h1 h2 =>
      simp only [Prod.mk.injEq, Option.some.injEq] at hr
      obtain ⟨rfl, rfl, rfl⟩ := hr
      exact ⟨p, rfl, hB, hD, hp', h1, h2⟩
    | stay p' _ => simp at hr
    | tri p' expr inc cst other linears => simp at hr
    | geo0 p' expr inc mul c => simp at hr
    | geo p' expr inc mul c => simp at hr

end

end Hpbf.OptLoop
