/-
Rebuild-round proofs: READ-BEFORE-WRITE footprint, part 4: `loopOrIf` (both modes) and `inline` (both modes).
-/
import Hpbf.Proofs.OptRbRd3

namespace Hpbf
namespace OptProof
open Opt OptSem Ir

variable {w : Nat}

theorem rdOkL_nonblocks_left {pre l : List (Instr w)} {subs : List (OptAnalysis w)}
    (hpre : ∀ i ∈ pre, C01Dse.isBlock i = false) (h : RdOkL l subs) : RdOkL (pre ++ l) subs := by
  have := rdOkL_append (rdOkL_nonblocks hpre) h
  simpa using this

theorem rdOkL_nonblocks_right {post l : List (Instr w)} {subs : List (OptAnalysis w)}
    (h : RdOkL l subs) (hpost : ∀ i ∈ post, C01Dse.isBlock i = false) : RdOkL (l ++ post) subs := by
  have := rdOkL_append h (rdOkL_nonblocks hpost)
  simpa using this

/-! ### the parent's preparation for a non-moving child -/

theorem loopPrep_rd {s : Rebuild w} {ps : List (Rebuild w)} {sub1 : Rebuild w} {cond : Int}
    {L : OptLoop w} {C : List Int} (hwf : Wf s) (hwf1 : Wf sub1)
    (hns : (sub1.subShift || sub1.shift != s.shift) = false)
    {os os' : Orders} {r : Rebuild w × Rebuild w × List Int}
    (hr : (loopPrep s ps sub1 cond L C).run os = .ok (r, os')) :
    ∃ comps : List (List (Int × Expr w)), r.1.insts = s.insts ++ comps.map Instr.calc ∧
      RdC (fun _ => False) (fun v => ClobSet L C sub1 v ∨ v = cond) s r.1 comps ∧
      (r.1.subShift = false → ∀ v, (v ∈ sub1.reads ∨ v = cond) →
        v ∈ r.1.reads ∨ DefW s v ∨ ¬ ThruC v comps) := by
  obtain ⟨s1, s2, s3, os1, os2, e1, e2, e3, rfl⟩ := loopPrep_stay_cut hns hr
  obtain ⟨c1, x1⟩ := emitReadAll_rd ps _ hwf e1
  obtain ⟨_, _, k1⟩ := emitReadAll_reads ps _ hwf e1
  obtain ⟨c2, x2⟩ := emitReadAll_rd ps _ x1.1.wf e2
  obtain ⟨c3, i3, d3⟩ := clobberPhase_rd ps { sub1 with reads := sIns sub1.reads cond } L C x2.1.wf hwf1.writ e3
  obtain ⟨c3', y1, _, y3, _⟩ := clobberPhase_phys ps { sub1 with reads := sIns sub1.reads cond } L C x2.1.wf e3
  have hcz := condZero_same s3 { sub1 with reads := sIns sub1.reads cond } cond
  have hczr : (condZero s3 { sub1 with reads := sIns sub1.reads cond } cond).reads = s3.reads :=
    hcz.2.2.2.2.2.2.1
  have hczs : (condZero s3 { sub1 with reads := sIns sub1.reads cond } cond).subShift = s3.subShift :=
    hcz.2.2.2.2.1
  have d12 : RdC (fun _ => False) (fun _ => False) s s2 (c1 ++ c2) := x1.2.2.trans0 x2.2.2 x2.2.1.mono
  have d123 : RdC (fun _ => False) (ClobSet L C sub1) s s3 (c1 ++ c2 ++ c3) :=
    (d12.trans d3 y3 (fun v h => h.elim id id)).weaken (fun v h => h.elim False.elim id)
  have hmemR : ∀ v, (v ∈ sub1.reads ∨ v = cond) →
      v ∈ readsSorted { sub1 with reads := sIns sub1.reads cond } s := by
    intro v hv
    unfold readsSorted
    rw [(Expr.stableSort_perm _ _).mem_iff]
    show v ∈ sIns sub1.reads cond
    rw [mem_sIns]
    rcases hv with h | h
    · exact Or.inr h
    · exact Or.inl h
  refine ⟨c1 ++ c2 ++ c3, ?_, ?_, ?_⟩
  · show (condZero s3 _ cond).insts = _
    rw [hcz.2.2.2.2.2.2.2.2.2.1, i3, x2.1.insts, x1.1.insts]
    simp
  · intro hss
    have hs3 : s3.subShift = false := by rw [← hczs]; exact hss
    obtain ⟨rd, wq⟩ := d123 hs3
    refine ⟨fun v hv => rd v (by rw [← hczr]; exact hv), ?_⟩
    intro v hd' hd he
    have hvc : v ≠ cond := fun h => he (Or.inr h)
    exact wq v ((DefW.of_get_eq (condZero_written_ne _ _ _ v hvc)).1 hd') hd (fun h => he (Or.inl h))
  · intro hss v hv
    have hs3 : s3.subShift = false := by rw [← hczs]; exact hss
    have hs2 : s2.subShift = false := y3.2 hs3
    have hs1 : s1.subShift = false := x2.2.1.mono.2 hs2
    rcases k1 v (hmemR v hv) with h | h
    · left
      show v ∈ (condZero s3 _ cond).reads
      rw [hczr]
      exact y3.1 v (x2.2.1.mono.1 v h)
    · by_cases hd : DefW s v
      · exact Or.inr (Or.inl hd)
      · right; right
        intro ht
        have ht1 : ThruC v c1 := (thruC_append.1 (thruC_append.1 ht).1).1
        exact (x1.2.2 hs1).2 v h hd id ht1

/-! ### `loopOrIf` -/

/-- **`loopOrIf`**. For an `if` the analysis must not claim `atLeastOnce` (an `ifnz` carries no `once` flag). -/
theorem loopOrIf_rstep {s : Rebuild w} {ps : List (Rebuild w)} {sub : Rebuild w} {cond : Int}
    {isLoop : Bool} {L : OptLoop w} {C : List Int} {os os' : Orders} {s' : Rebuild w}
    (hr : (loopOrIf s ps sub cond isLoop L C).run os = .ok (s', os')) (hwf : Wf s) (hwsub : Wf sub)
    (hch : RdSt sub) (hflag : isLoop = false → L.atLeastOnce = false) : RStep s s' := by
  have hr0 := hr
  obtain ⟨sub1, os1, r, h1, h2, rfl⟩ := loopOrIf_run hr
  have hc1 : RdSt sub1 ∧ Wf sub1 ∧ SameHdr sub sub1 := by
    split at h1
    · obtain ⟨c, x⟩ := emitAll_rd [] _ hwsub h1
      exact ⟨x.rstep.rdSt hch, x.1.wf, x.1.hdr⟩
    · rw [run_pure] at h1
      cases h1
      exact ⟨hch, hwsub, SameHdr.refl _⟩
  obtain ⟨hch1, hwf1, hhdr1⟩ := hc1
  obtain ⟨n, ei, ea, es, _⟩ := loopPrep_nstep h2 hwf
  obtain ⟨pre, epre, hpre⟩ := n.insts
  obtain ⟨f1, f2, f3⟩ := loopTail_shapeFields r.1 r.2.1 cond isLoop L
    (sub1.subShift || sub1.shift != s.shift) r.2.2
  obtain ⟨_, _, _, t4, t5, _, _⟩ := loopTail_fields r.1 r.2.1 cond isLoop L
    (sub1.subShift || sub1.shift != s.shift) r.2.2
  -- the node of the pushed block
  have hI : RdOkI (if isLoop then Ir.Instr.loop cond (r.2.1.shift - r.1.shift) r.2.1.insts L.atLeastOnce
      else Ir.Instr.ifnz cond (r.2.1.shift - r.1.shift) r.2.1.insts)
      (OptAnalysis.mk L (sub1.subShift || sub1.shift != s.shift) r.2.1.reads r.2.2 r.2.1.subAnal) := by
    have hbody : RdOkL r.2.1.insts r.2.1.subAnal := by rw [ei, ea]; exact hch1.ok
    cases isLoop with
    | false =>
      simp only [Bool.false_eq_true, if_false]
      rw [RdOkI]
      exact hbody
    | true =>
      simp only [if_true]
      rw [RdOkI]
      refine ⟨?_, hbody⟩
      intro hhs σ _ hnb v hv
      have hss1 : sub1.subShift = false := by
        simp only [Bool.or_eq_false_iff] at hhs; exact hhs.1
      obtain ⟨_, hsubR, _⟩ := loopPrep_stay_foot hwf hwf1 hhs h2
      rw [ei] at hnb ⊢
      refine hch1.rd hss1 hnb ?_
      intro hm
      apply hv
      rw [hsubR]
      show v ∈ sIns sub1.reads cond
      exact mem_sIns.2 (Or.inr hm)
  refine ⟨pre ++ [if isLoop then Ir.Instr.loop cond (r.2.1.shift - r.1.shift) r.2.1.insts L.atLeastOnce
      else Ir.Instr.ifnz cond (r.2.1.shift - r.1.shift) r.2.1.insts],
    [OptAnalysis.mk L (sub1.subShift || sub1.shift != s.shift) r.2.1.reads r.2.2 r.2.1.subAnal],
    by rw [f1, epre, List.append_assoc], by rw [f2, n.subAnal],
    rdOkL_nonblocks_left hpre (rdOkL_single hI), ?_⟩
  cases hns : (sub1.subShift || sub1.shift != s.shift) with
  | true =>
    have hns0 : (sub.subShift || sub.shift != s.shift) = true := by
      rw [← hhdr1.2.2.2.2, ← hhdr1.2.2.1]; exact hns
    obtain ⟨g1, g2, _⟩ := loopOrIf_shift_foot hr0 hwf hwsub hns0
    rw [hns] at g1 g2
    exact RdAll.void g1 g2 _
  | false =>
    have hss1 : sub1.subShift = false := by
      simp only [Bool.or_eq_false_iff] at hns; exact hns.1
    have hse1 : sub1.shift = s.shift := by
      simp only [Bool.or_eq_false_iff, bne_eq_false_iff_eq] at hns; exact hns.2
    obtain ⟨compsF, hsubR, p1, _, p3, p4, _, p6, _⟩ := loopPrep_stay_foot hwf hwf1 hns h2
    obtain ⟨comps, e, d, pr⟩ := loopPrep_rd hwf hwf1 hns h2
    have hpreEq : pre = comps.map Instr.calc := List.append_cancel_left (epre.symm.trans e)
    have hbs : r.2.1.shift - r.1.shift = 0 := by
      rw [es, n.shift, hse1]; omega
    rw [hpreEq, hbs, ei]
    have hssEq : (loopTail r.1 r.2.1 cond isLoop L false r.2.2).subShift = r.1.subShift := by
      rw [← hns]; exact f3
    have hreadsEq : (loopTail r.1 r.2.1 cond isLoop L false r.2.2).reads = r.1.reads := by
      rw [← hns]; exact t4
    have hwrEq : (loopTail r.1 r.2.1 cond isLoop L false r.2.2).written =
        (if isLoop then mSet r.1.written cond (.known (Expr.normalize (Expr.val 0#w))) else r.1.written) := by
      rw [← hns]; exact t5
    have hwne : ∀ v, v ≠ cond →
        mGet (loopTail r.1 r.2.1 cond isLoop L false r.2.2).written v = mGet r.1.written v := by
      intro v hv
      rw [hwrEq]
      split
      · rw [mGet_mSet_ne _ _ _ _ (fun e' => hv e'.symm)]
      · rfl
    have hnsI : nsL sub1.insts := hch1.all.ns hss1
    refine RdAll.calcs_then d p4 ⟨fun v hv => by rw [hreadsEq]; exact hv, fun h => by rw [← hssEq]; exact h⟩
      ?_ ?_ ?_
    · intro _
      cases isLoop with
      | true => simp only [if_true]; simp [nsL, nsI, hnsI]
      | false => simp only [Bool.false_eq_true, if_false]; simp [nsL, nsI, hnsI]
    · -- nothing outside `reads` is exposed by the pushed block
      intro hss τ hnb v hv hd htc
      have hssP : r.1.subShift = false := by rw [← hssEq]; exact hss
      have hvR : ∀ x, (x ∈ sub1.reads ∨ x = cond) → x ≠ v := by
        rintro x hx rfl
        rcases pr hssP x hx with h | h | h
        · exact hv (by rw [hreadsEq]; exact h)
        · exact hd h
        · exact h htc
      have hcnd : τ.ptr + cond ≠ τ.ptr + v := fun h => hvR cond (Or.inr rfl) (ptr_add_inj.1 h)
      have hbody : ∀ σ : State w, σ.ptr = τ.ptr → ¬ Bad sub1.insts σ → ¬ Exposes (τ.ptr + v) sub1.insts σ := by
        intro σ hp hnbσ
        rw [← hp]
        exact hch1.rd hss1 hnbσ (fun hm => hvR v (Or.inl hm) rfl)
      cases isLoop with
      | true =>
        simp only [if_true] at hnb ⊢
        exact not_exposes_loop hcnd hbody hnsI hnb
      | false =>
        simp only [Bool.false_eq_true, if_false] at hnb ⊢
        exact not_exposes_ifnz hcnd (hbody τ rfl) hnb
    · -- what the block is recorded to write, it writes (or its test reads it)
      intro hss τ τ1 hnb v hd' hd hor htc ht
      by_cases hvc : v = cond
      · subst hvc
        cases isLoop with
        | true =>
          simp only [if_true] at ht
          exact thru_loop_cond ht rfl
        | false =>
          simp only [Bool.false_eq_true, if_false] at ht
          exact thru_ifnz_cond ht rfl
      · have hdP : DefW r.1 v := (DefW.of_get_eq (hwne v hvc)).1 hd'
        rcases hor with h | h
        · exact h hdP
        · rcases h with hcl | h
          · obtain ⟨hal, hdsub⟩ := p6 v hvc hcl hdP
            cases isLoop with
            | false => rw [hflag rfl] at hal; cases hal
            | true =>
              simp only [if_true] at ht hnb
              rw [hal] at ht hnb
              refine not_thru_loop_once hnb ?_ ht
              intro τ' hτ'
              exact hch1.wr hss1 (fun hb => hnb (.loopIn (fun hz => hnb (.here hz)) hb)) hdsub hτ'
          · exact hvc h

/-! ### `inline` -/

/-- The last phase of `inline`. -/
theorem inlineEnd_rd {s3 : Rebuild w} {ps : List (Rebuild w)} {sub : Rebuild w} {os os' : Orders}
    {s4 : Rebuild w} (hr : (inlineEnd s3 ps sub).run os = .ok (s4, os')) (hwf : Wf s3) :
    ∃ c3 : List (List (Int × Expr w)), s4.insts = s3.insts ++ c3.map Instr.calc ∧ s4.subAnal = s3.subAnal ∧
      EmitFoot s3 s4 c3 ∧ RdC (fun _ => False) (fun _ => False) s3 s4 c3 := by
  unfold inlineEnd at hr
  split at hr
  · rw [run_pure] at hr
    cases hr
    exact ⟨[], by simp, rfl, EmitFoot.congr_right (s1 := s3) rfl (fun _ h => h) rfl (EmitFoot.refl s3),
      RdC.congr_right (s1 := s3) rfl (fun _ h => h) rfl (RdC.refl _ _ s3)⟩
  · rw [run_bind_ok] at hr
    obtain ⟨l, os3, _, h6⟩ := hr
    rw [run_bind_ok] at h6
    obtain ⟨s5, os5, h7, h8⟩ := h6
    rw [run_pure] at h8
    cases h8
    obtain ⟨comps, _, hi, _, hf, d⟩ := performAll_rd h7 hwf
    have hn := performAll_nstep h7 hwf
    exact ⟨comps, hi, hn.subAnal, EmitFoot.congr_right (s1 := s5) rfl (fun _ h => h) rfl hf,
      RdC.congr_right (s1 := s5) rfl (fun _ h => h) rfl d⟩

/-- Bookkeeping of `inlineRest`: the child's nodes are appended. -/
theorem inlineRest_subAnal {s1 : Rebuild w} {ps : List (Rebuild w)} {sub : Rebuild w} {os os' : Orders}
    {s' : Rebuild w} (hr : (inlineRest s1 ps sub).run os = .ok (s', os')) (hwf : Wf s1) :
    s'.subAnal = s1.subAnal ++ sub.subAnal ∧
    ∃ pre post, (∀ i ∈ pre, C01Dse.isBlock i = false) ∧ (∀ i ∈ post, C01Dse.isBlock i = false) ∧
      s'.insts = s1.insts ++ (pre ++ (sub.insts ++ post)) := by
  obtain ⟨s2, os2, s4, h3, h4, rfl⟩ := inlineRest_run hr
  rw [ifold_eq] at h3
  obtain ⟨i1, i2, _⟩ := cfold_spec ps (OptLoop.unknown true) [] sub.written (s1, []) hwf
  have n2 := clobberAll_nstep ps _ h3 i1
  obtain ⟨pre, epre, hpre⟩ := n2.insts
  have hwf3 := writtenCalcs_insts_wf n2.wf ps (knownsOf sub) (s2.insts ++ sub.insts)
  obtain ⟨w1, _, _⟩ := writtenCalcs_eq ({ s2 with insts := s2.insts ++ sub.insts } : Rebuild w) ps (knownsOf sub)
  obtain ⟨c3, i3, a3, _, _⟩ := inlineEnd_rd h4 hwf3
  refine ⟨?_, pre, c3.map Instr.calc, hpre, noBlocks_calcs c3, ?_⟩
  · show s4.subAnal ++ sub.subAnal = _
    rw [a3, w1.2.2.2.2.2.2.2.2.2.2]
    show s2.subAnal ++ sub.subAnal = _
    rw [n2.subAnal, i2.2.2.2.2.2.2.2.2.2]
  · show s4.insts = _
    rw [i3, w1.2.2.2.2.2.2.2.2.2.1]
    show s2.insts ++ sub.insts ++ _ = _
    rw [epre, i2.2.2.2.2.2.2.2.2.1]
    simp only [List.append_assoc]

/-- **`inline`**: the child's code is spliced in once. -/
theorem inline_rstep {s : Rebuild w} {ps : List (Rebuild w)} {sub : Rebuild w} {os os' : Orders}
    {s' : Rebuild w} (hr : (Opt.inline s ps sub).run os = .ok (s', os')) (hwf : Wf s) (hwsub : Wf sub)
    (hch : RdSt sub) : RStep s s' := by
  have hr0 := hr
  rw [inline_eq] at hr
  split at hr
  · -- the child moves the pointer
    rename_i hss
    rw [run_bind_ok] at hr
    obtain ⟨s0, os0, h0, h1⟩ := hr
    rw [run_bind_ok] at h1
    obtain ⟨s1, os1, h1', h2⟩ := h1
    rw [run_pure] at h1'
    cases h1'
    obtain ⟨c, x⟩ := emitAll_rd ps (pendingSorted s s) hwf h0
    obtain ⟨ha, pre, post, hpre, hpost, hi⟩ := inlineRest_subAnal h2 (uncertainShift_wf x.1.wf)
    obtain ⟨g1, g2, _⟩ := inline_shift_void hr0 hwf hss
    refine ⟨c.map Instr.calc ++ (pre ++ (sub.insts ++ post)), sub.subAnal, ?_, ?_, ?_, RdAll.void g1 g2 _⟩
    · rw [hi]
      show s0.insts ++ _ = _
      rw [x.1.insts, List.append_assoc]
    · rw [ha]
      show s0.subAnal ++ _ = _
      rw [x.1.subAnal]
    · exact rdOkL_nonblocks_left (noBlocks_calcs c)
        (rdOkL_nonblocks_left hpre (rdOkL_nonblocks_right hch.ok hpost))
  · -- the child does not move the pointer
    rename_i hss'
    have hss : sub.subShift = false := by simpa using hss'
    rw [run_bind_ok] at hr
    obtain ⟨s1, os1, h1, h2⟩ := hr
    obtain ⟨c1, x1⟩ := emitReadAll_rd ps _ hwf h1
    obtain ⟨_, _, k1⟩ := emitReadAll_reads ps _ hwf h1
    obtain ⟨ha, _⟩ := inlineRest_subAnal h2 x1.1.wf
    obtain ⟨s2, os2, s4, h3, h4, rfl⟩ := inlineRest_run h2
    have hcp := inline_clobberPhase h3
    obtain ⟨compsF, p1, _, pwf, _, pmono, _, _, pdef, _, _⟩ := inline_prep_foot hwf hwsub h1 hcp
    obtain ⟨c2, i2, d2⟩ := clobberPhase_rd ps sub (OptLoop.unknown true) [] x1.1.wf hwsub.writ hcp
    obtain ⟨_, _, _, y3, _⟩ := clobberPhase_phys ps sub (OptLoop.unknown true) [] x1.1.wf hcp
    have d12 : RdC (fun _ => False) (fun v => v ∈ mKeys sub.written) s s2 (c1 ++ c2) :=
      (x1.2.2.trans d2 y3 (fun v h => h.elim id id)).weaken
        (fun v h => h.elim False.elim (fun h' => (clobSet_inline sub v).1 h'))
    have hi12 : s2.insts = s.insts ++ (c1 ++ c2).map Instr.calc := by
      rw [i2, x1.1.insts]; simp
    -- the recorded state
    have hwf3 := writtenCalcs_insts_wf pwf ps (knownsOf sub) (s2.insts ++ sub.insts)
    obtain ⟨w1, w2, w3, w4⟩ := writtenCalcs_fields ({ s2 with insts := s2.insts ++ sub.insts } : Rebuild w) ps
      (knownsOf sub) (nodup_knownsOf hwsub.writ)
    obtain ⟨S3, hS3⟩ : ∃ x, x = writtenCalcs ({ s2 with insts := s2.insts ++ sub.insts } : Rebuild w) ps
      (knownsOf sub) := ⟨_, rfl⟩
    rw [← hS3] at h4 hwf3 w1 w2 w3 w4
    have w2' : S3.reads = s2.reads := w2
    have w3' : ∀ v, v ∉ (knownsOf sub).map (·.1) → mGet S3.written v = mGet s2.written v := w3
    have wss : S3.subShift = s2.subShift := w1.2.2.2.2.1
    have wins : S3.insts = s2.insts ++ sub.insts := w1.2.2.2.2.2.2.2.2.2.1
    obtain ⟨c3, i3, _, f3, d3⟩ := inlineEnd_rd h4 hwf3
    -- a definitely written cell of the recorded state that was not so before: written by the groups, or
    -- definitely written by the child
    have hdef3 : ∀ v, DefW S3 v → DefW s2 v ∨ DefW sub v := by
      intro v hd
      by_cases hk : v ∈ (knownsOf sub).map (·.1)
      · obtain ⟨ve, hve, e⟩ := List.mem_map.1 hk
        have := (mem_knownsOf hwsub.writ ve.1 ve.2).1 hve
        rw [e] at this
        exact Or.inr ⟨_, this, rfl⟩
      · exact Or.inl ((DefW.of_get_eq (w3' v hk)).1 hd)
    have hnsI : nsL sub.insts := hch.all.ns hss
    have hmemR : ∀ v, v ∈ sub.reads → v ∈ readsSorted sub s := by
      intro v hv
      unfold readsSorted
      rw [(Expr.stableSort_perm _ _).mem_iff]; exact hv
    have hm2 : ReadsMono s2 ({ s4 with subAnal := s4.subAnal ++ sub.subAnal } : Rebuild w) := by
      refine ⟨fun v hv => ?_, fun h => ?_⟩
      · show v ∈ s4.reads
        exact f3.mono.1 v (by rw [w2']; exact hv)
      · have h3' : S3.subShift = false := f3.mono.2 h
        rw [← wss]; exact h3'
    refine ⟨(c1 ++ c2).map Instr.calc ++ (sub.insts ++ c3.map Instr.calc), sub.subAnal, ?_, ?_, ?_, ?_⟩
    · show s4.insts = _
      rw [i3, wins, hi12]
      simp only [List.append_assoc]
    · rw [ha, x1.1.subAnal]
    · exact rdOkL_nonblocks_left (noBlocks_calcs (c1 ++ c2))
        (rdOkL_nonblocks_right hch.ok (noBlocks_calcs c3))
    · refine RdAll.calcs_then d12 pmono hm2 ?_ ?_ ?_
      · intro _
        exact (nsL_append _ _).2 ⟨hnsI, nsL_calcs c3⟩
      · -- exposure by the spliced code, or by the groups of the final `performAll`
        intro hs4 τ hnb v hv hd htc hex
        have hs4' : s4.subShift = false := hs4
        have hs3 : S3.subShift = false := f3.mono.2 hs4'
        have hs2 : s2.subShift = false := by rw [← wss]; exact hs3
        have hs1 : s1.subShift = false := y3.2 hs2
        have hnbI : ¬ Bad sub.insts τ := fun hb => hnb (bad_append.2 (Or.inl hb))
        have hv4 : v ∉ s4.reads := hv
        rcases exposes_append hex with h | ⟨τ2, ht, he⟩
        · refine hch.rd hss hnbI ?_ h
          intro hm
          rcases k1 v (hmemR v hm) with h' | h'
          · exact hv4 (f3.mono.1 v (by rw [w2']; exact y3.1 v h'))
          · exact (x1.2.2 hs1).2 v h' hd id (thruC_append.1 htc).1
        · have hp := thru_ptr ht hnsI
          rw [← hp] at he
          have hec := (exposes_calcs_iff c3 τ2 v).1 he
          refine (d3 hs4').1 v hv4 (Or.inl ?_) hec
          intro hd3
          rcases hdef3 v hd3 with h' | h'
          · by_cases hk : v ∈ mKeys sub.written
            · exact hch.wr hss hnbI (pdef v hk h') ht
            · exact (d12 hs2).2 v h' hd hk htc
          · exact hch.wr hss hnbI h' ht
      · intro hs4 τ τ1 hnb v hd' hd hor htc ht
        have hs4' : s4.subShift = false := hs4
        have hs3 : S3.subShift = false := f3.mono.2 hs4'
        have hnbI : ¬ Bad sub.insts τ := fun hb => hnb (bad_append.2 (Or.inl hb))
        obtain ⟨τ2, t1, t2⟩ := thru_append ht
        have hp := thru_ptr t1 hnsI
        rw [← hp] at t2
        have htc3 := ((thru_calcs_iff c3 τ2 τ1 v).1 t2).1
        have hd4 : DefW s4 v := hd'
        by_cases hd3 : DefW S3 v
        · rcases hdef3 v hd3 with h' | h'
          · rcases hor with h'' | h''
            · exact h'' h'
            · exact hch.wr hss hnbI (pdef v h'' h') t1
          · exact hch.wr hss hnbI h' t1
        · exact (d3 hs4').2 v hd4 hd3 id htc3

end OptProof
end Hpbf
