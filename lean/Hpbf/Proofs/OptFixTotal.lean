/-
Totality / no panic for the FIXED optimizer pipeline (`OptFix.optimizeF`, Hpbf/OptFix.lean): the port of
`optimize_no_panic`, `optimize_total`, `optimize_canonL` (Hpbf/Proofs/OptTotalMain.lean), and the agreement of the
fixed pipeline with `Opt.optimize` at levels 0 and 1.
-/
import Hpbf.Proofs.OptTotalMain
import Hpbf.Proofs.OptRbFix1

namespace Hpbf
namespace OptTotal
open Opt OptProof Ir

variable {w : Nat}

/-- One round with the fix is `Safe` on code with canonical right-hand sides. -/
theorem optimizeOnceF_safe (b : Block w) (prev : OptAnalysis w) (hcl : CanonL b.insts) :
    Safe (OptFix.optimizeOnceF b prev) := by
  unfold OptFix.optimizeOnceF
  refine (optimizeOnce_safe b prev hcl).bind (fun r _ _ _ => ?_)
  obtain ⟨prog, anal⟩ := r
  exact Safe.pure _

/-- A (program, analysis) pair as returned by a fixed round on canonical code. -/
def RoundOutF (prog : Block w) (anal : OptAnalysis w) : Prop :=
  ∃ a0, RoundOut prog a0 ∧ anal = OptFix.fixClob prog a0

theorem roundOutF_of_run {b : Block w} {prev : OptAnalysis w} {os os' : Orders} {prog : Block w}
    {anal : OptAnalysis w} (hcl : CanonL b.insts)
    (h : (OptFix.optimizeOnceF b prev).run os = .ok ((prog, anal), os')) : RoundOutF prog anal := by
  obtain ⟨a0, h0, rfl⟩ := optimizeOnceF_ok.1 h
  exact ⟨a0, ⟨b, prev, os, os', hcl, h0⟩, rfl⟩

theorem optimizeOnceF_canonL {b : Block w} {prev : OptAnalysis w} {os os' : Orders} {prog : Block w}
    {anal : OptAnalysis w} (h : (OptFix.optimizeOnceF b prev).run os = .ok ((prog, anal), os'))
    (hcl : CanonL b.insts) : CanonL prog.insts := by
  obtain ⟨a0, h0, _⟩ := optimizeOnceF_ok.1 h
  exact optimizeOnce_canonL h0 hcl

/-- The rounds after the first one. -/
theorem optimizeRoundsF_safe : ∀ (n : Nat) (prog : Block w) (anal : OptAnalysis w), RoundOutF prog anal →
    Safe (OptFix.optimizeRoundsF n prog anal) := by
  intro n
  induction n with
  | zero => intro prog anal _; rw [OptFix.optimizeRoundsF]; exact Safe.pure _
  | succ n ih =>
    intro prog anal hro
    obtain ⟨a0, ⟨b, prev, os, os', hcl, hr⟩, rfl⟩ := hro
    rw [OptFix.optimizeRoundsF]
    have htot : Ok (deadStoreElimination prog (OptFix.fixClob prog a0)) := by
      rw [dse_fixClob]; exact dse_total_after_round hr hcl
    refine (Safe.monadLift htot).bind (fun prog1 os1 os1' h1 => ?_)
    have hd : deadStoreElimination prog (OptFix.fixClob prog a0) = .ok prog1 := (run_monadLift_ok.1 h1).1
    have hcl1 : CanonL prog1.insts :=
      OptTotal.deadStoreElimination_canonL hd (optimizeOnce_canonL hr hcl)
    refine (optimizeOnceF_safe prog1 _ hcl1).bind (fun r os2 os2' h2 => ?_)
    obtain ⟨prog2, anal2⟩ := r
    exact ih prog2 anal2 (roundOutF_of_run hcl1 h2)

theorem optimizeMF_safe (b : Block w) (level : Nat) (hcl : CanonL b.insts) :
    Safe (OptFix.optimizeMF b level) := by
  unfold OptFix.optimizeMF
  split
  · refine (optimizeOnceF_safe b _ hcl).bind (fun r os os' h => ?_)
    obtain ⟨prog, anal⟩ := r
    exact optimizeRoundsF_safe _ prog anal (roundOutF_of_run hcl h)
  · exact Safe.pure _

/-! ### the top theorems -/

/-- **No panic, no fuel error** for the fixed pipeline. -/
theorem optimizeF_no_panic (b : Block w) (level : Nat) (orders : Orders) (hcl : CanonL b.insts) :
    ∀ e, OptFix.optimizeF b level orders = .error e → isOracleError e = true := by
  intro e h
  unfold OptFix.optimizeF at h
  split at h
  · rename_i e' he'
    cases h
    exact (optimizeMF_safe b level hcl).noPanic orders _ he'
  · cases h
  · cases h
    repeat (first | decide | apply isOracle_append)

/-- In particular never a `panic: …` and never a `model: …` (fuel) error. -/
theorem optimizeF_never_panics (b : Block w) (level : Nat) (orders : Orders) (hcl : CanonL b.insts)
    (e : String) (h : OptFix.optimizeF b level orders = .error e) :
    "panic: ".toList.isPrefixOf e.toList = false ∧ "model: ".toList.isPrefixOf e.toList = false :=
  isOracle_not_panic e (optimizeF_no_panic b level orders hcl e h)

/-- **A fitting oracle exists** for the fixed pipeline. -/
theorem optimizeF_total (b : Block w) (level : Nat) (hcl : CanonL b.insts) :
    ∃ orders b', OptFix.optimizeF b level orders = .ok b' := by
  obtain ⟨pre, b', h⟩ := (optimizeMF_safe b level hcl).total
  refine ⟨pre, b', ?_⟩
  have h' := h []
  rw [List.append_nil] at h'
  unfold OptFix.optimizeF
  rw [h']

theorem optimizeRoundsF_canonL : ∀ (n : Nat) (prog : Block w) (anal : OptAnalysis w) (os os' : Orders)
    (b' : Block w), CanonL prog.insts → (OptFix.optimizeRoundsF n prog anal).run os = .ok (b', os') →
    CanonL b'.insts := by
  intro n
  induction n with
  | zero =>
    intro prog anal os os' b' hcl h
    obtain ⟨rfl, _⟩ := optimizeRoundsF_zero_ok.1 h
    exact hcl
  | succ n ih =>
    intro prog anal os os' b' hcl h
    obtain ⟨prog1, prog2, anal2, os2, hd, ho, hrest⟩ := optimizeRoundsF_succ_ok.1 h
    have hcl1 := OptTotal.deadStoreElimination_canonL hd hcl
    exact ih prog2 anal2 os2 os' b' (optimizeOnceF_canonL ho hcl1) hrest

/-- The fixed optimizer's output has canonical right-hand sides again. -/
theorem optimizeF_canonL {b b' : Block w} {level : Nat} {orders : Orders} (hcl : CanonL b.insts)
    (h : OptFix.optimizeF b level orders = .ok b') : CanonL b'.insts := by
  rw [optimizeF_ok_iff] at h
  unfold OptFix.optimizeMF at h
  split at h
  · rw [run_bind_ok] at h
    obtain ⟨⟨prog1, anal1⟩, os1, h1, h2⟩ := h
    exact optimizeRoundsF_canonL _ prog1 anal1 os1 [] _ (optimizeOnceF_canonL h1 hcl) h2
  · rw [run_pure] at h
    cases h
    exact hcl

/-! ### from Brainfuck source -/

theorem optimizeF_no_panic_parse {src : List Kind} {b : Block w} (hp : Ir.parse (w := w) src = .ok b)
    (level : Nat) (orders : Orders) :
    ∀ e, OptFix.optimizeF b level orders = .error e → isOracleError e = true :=
  optimizeF_no_panic b level orders (parse_canonL hp)

theorem optimizeF_never_panics_parse {src : List Kind} {b : Block w} (hp : Ir.parse (w := w) src = .ok b)
    (level : Nat) (orders : Orders) (e : String) (h : OptFix.optimizeF b level orders = .error e) :
    "panic: ".toList.isPrefixOf e.toList = false ∧ "model: ".toList.isPrefixOf e.toList = false :=
  optimizeF_never_panics b level orders (parse_canonL hp) e h

theorem optimizeF_total_parse {src : List Kind} {b : Block w} (hp : Ir.parse (w := w) src = .ok b)
    (level : Nat) : ∃ orders b', OptFix.optimizeF b level orders = .ok b' :=
  optimizeF_total b level (parse_canonL hp)

theorem optimizeF_canonL_parse {src : List Kind} {b b' : Block w} (hp : Ir.parse (w := w) src = .ok b)
    {level : Nat} {orders : Orders} (h : OptFix.optimizeF b level orders = .ok b') : CanonL b'.insts :=
  optimizeF_canonL (parse_canonL hp) h

/-! ### levels 0 and 1: the fix changes nothing -/

theorem optimizeMF_run_le_one (b : Block w) {level : Nat} (h : level ≤ 1) (orders : Orders) :
    (OptFix.optimizeMF b level).run orders = (optimizeM b level).run orders := by
  cases level with
  | zero => rfl
  | succ n =>
    have hn : n = 0 := by omega
    subst hn
    rw [optimizeMF_succ, optimizeM_succ, run_bind, run_bind]
    unfold OptFix.optimizeOnceF
    rw [run_bind]
    cases hr : (optimizeOnce b (topAnalysis [] [])).run orders with
    | error e => rfl
    | ok v =>
      obtain ⟨⟨p, a⟩, os1⟩ := v
      rfl

/-- At levels 0 and 1 the fixed pipeline IS `Opt.optimize` (only the discarded analysis differs). -/
theorem optimizeF_level_le_one (b : Block w) {level : Nat} (h : level ≤ 1) (orders : Orders) :
    OptFix.optimizeF b level orders = Opt.optimize b level orders := by
  unfold OptFix.optimizeF Opt.optimize
  rw [optimizeMF_run_le_one b h orders]
  cases (optimizeM b level).run orders with
  | error e => rfl
  | ok v =>
    obtain ⟨p, os⟩ := v
    cases os <;> rfl

#print axioms optimizeF_no_panic
#print axioms optimizeF_never_panics
#print axioms optimizeF_total
#print axioms optimizeF_canonL
#print axioms optimizeF_level_le_one

end OptTotal
end Hpbf
