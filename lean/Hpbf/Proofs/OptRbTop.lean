/-
Rebuild-round proofs: unfolding of `Opt.optimize` / `optimizeM` / `optimizeRounds`.
-/
import Hpbf.Proofs.OptRbStraight

namespace Hpbf
namespace OptProof
open Opt OptSem Ir

variable {w : Nat}

theorem optimize_ok_iff {b b' : Block w} {level : Nat} {orders : Orders} :
    Opt.optimize b level orders = .ok b' ↔ (optimizeM b level).run orders = .ok (b', []) := by
  unfold Opt.optimize
  cases h : (optimizeM b level).run orders with
  | error e => simp
  | ok v =>
    obtain ⟨prog, os⟩ := v
    cases os with
    | nil => simp
    | cons o os => simp

theorem optimizeM_zero (b : Block w) : optimizeM b 0 = pure b := rfl

theorem optimizeM_succ (b : Block w) (n : Nat) :
    optimizeM b (n + 1) = (do
      let (prog, anal) ← optimizeOnce b (topAnalysis [] [])
      optimizeRounds (min (n + 1) 3 - 1) prog anal) := by
  unfold optimizeM
  simp

theorem optimizeM_one_ok {b b' : Block w} {os os' : Orders} :
    (optimizeM b 1).run os = .ok (b', os') ↔
      ∃ anal, (optimizeOnce b (topAnalysis [] [])).run os = .ok ((b', anal), os') := by
  rw [optimizeM_succ, run_bind_ok]
  constructor
  · rintro ⟨⟨prog, anal⟩, os1, h1, h2⟩
    have : (optimizeRounds (min (0 + 1) 3 - 1) prog anal : M (Block w)) = pure prog := rfl
    simp only at h2
    rw [this, run_pure] at h2
    cases h2
    exact ⟨anal, h1⟩
  · rintro ⟨anal, h⟩
    exact ⟨(b', anal), os', h, rfl⟩

end OptProof
end Hpbf
