/-
JIT range, the `shift` field, part 2 (bytecode side): every `mov sh` of a program returned by `translateE` (any
register count, fusion on or off) carries the shift `sh` of a loop/if block nested in the IR (`sh ∈ shiftsL insts`;
the shift of the top-level block is never emitted).

The predicate `MovOk B x := ∀ sh, x = .mov sh → B sh` is pushed through the emission phase with the induction
principle `ClosedI` (the invariant also says that all shifts of the IR still to be translated satisfy `B`), and
through `dead_store_elim`, `allocate_temps`, `parameter_reordering`, `zeroing_move_detection`, `strip_noops` (none of
them creates or changes a `mov`) — the pattern of `Proofs/C11LocalEmit.lean` / `Proofs/C11LocalPasses.lean`.
-/
import Hpbf.Proofs.C11LocalTop
import Hpbf.Proofs.C03TotalShape
import Hpbf.Proofs.JitShiftIr
set_option linter.unusedSimpArgs false
set_option linter.unusedVariables false

namespace Hpbf
namespace C03
open Bc BcWf BcGen C11 C02 C02Emit C02.AEmit C02.Alloc C02.Local OptOffs
variable {w : Nat}

/-- Every `mov` carries a shift satisfying `B`. -/
def MovOk (B : Int → Prop) (x : Instr w) : Prop := ∀ sh, x = .mov sh → B sh

variable {B : Int → Prop}

theorem movOk_noop : MovOk B (.noop : Instr w) := by intro sh hh; cases hh

theorem movOk_mkArith (op : BcGen.Op) (d a b : Loc w) : MovOk B (mkArith op d a b) := by
  intro sh hh; cases op <;> cases hh

/-! ### emission -/

theorem movQ_getValue {e : GvnExpr w} {s s' : St w} {v : Nat} (h : AllQ (MovOk B) s.insts)
    (hg : getValue e s = .ok (v, s')) : AllQ (MovOk B) s'.insts := by
  rcases getValue_spec hg with ⟨_, rfl⟩ | ⟨_, N⟩
  · exact h
  · obtain ⟨s2, h2, rfl⟩ := N.reads
    have hi := readsSpec_insts _ h2
    simp only at hi ⊢
    rw [hi]
    apply allQ_push h
    cases e <;> (intro sh hh; cases hh)

theorem movQ_memWrite {var : Int} {x : Nat} {s s' : St w} {u : Unit} (h : AllQ (MovOk B) s.insts)
    (hm : memWrite var x s = .ok (u, s')) : AllQ (MovOk B) s'.insts := by
  obtain ⟨s0, e0, rfl⟩ := memWrite_spec hm
  simp only
  rw [e0.insts]
  exact allQ_push h (by intro sh hh; cases hh)

/-- The emitted code has good `mov`s, and so are the shifts of the IR still to be translated. -/
def MJ (B : Int → Prop) (_c : Unit) (_ps : Nat) (_a : Analysis) (l : List (Ir.Instr w)) (s : St w) : Prop :=
  AllQ (MovOk B) s.insts ∧ ∀ sh ∈ shiftsL l, B sh

theorem mj_tail {i : Ir.Instr w} {rest : List (Ir.Instr w)}
    (h : ∀ sh ∈ shiftsL (i :: rest), B sh) : (∀ sh ∈ shiftsI i, B sh) ∧ ∀ sh ∈ shiftsL rest, B sh := by
  rw [shiftsL] at h
  exact ⟨fun o ho => h o (List.mem_append_left _ ho), fun o ho => h o (List.mem_append_right _ ho)⟩

theorem movQ_lhMov {shift : Int} {sb : St w} (hb : AllQ (MovOk B) sb.insts) (hs : B shift) :
    AllQ (MovOk B) (lhMov shift sb).insts := by
  unfold lhMov
  split
  · exact hb
  · exact allQ_push hb (by intro sh hh; cases hh; exact hs)

theorem closedI_mov (fuse : Bool) (B : Int → Prop) : ClosedI fuse (MJ (w := w) B) where
  out := fun c ps a src rest s h => by
    obtain ⟨h1, h2⟩ := mj_tail h.2
    exact ⟨allQ_push h.1 (by intro sh hh; cases hh), h2⟩
  inp := fun c ps a dst rest s h => by
    obtain ⟨h1, h2⟩ := mj_tail h.2
    exact ⟨allQ_push h.1 (by intro sh hh; cases hh), h2⟩
  calcR := fun c ps a calcs rest s vals s1 s' u h hc hm => by
    obtain ⟨h1, h2⟩ := mj_tail h.2
    have k1 : AllQ (MovOk B) s1.insts :=
      calcValues_pres0 (K := fun a => AllQ (MovOk B) a.insts) (fun e a v a' hk hh => movQ_getValue hk hh) calcs hc h.1
    exact ⟨memWrites_pres0 (K := fun a => AllQ (MovOk B) a.insts) (fun var x a a' u hk hh => movQ_memWrite hk hh)
      vals hm k1, h2⟩
  scan := fun c ps a cond shift once rest s _ h => by
    obtain ⟨h1, h2⟩ := mj_tail h.2
    refine ⟨?_, h2⟩
    rw [lhExit_eq]
    show AllQ (MovOk B) ((lhHead true _ s).insts.push _)
    rw [lhHead_eq]
    exact allQ_push h.1 (by intro sh hh; cases hh)
  loop := fun c ps a cond shift body once rest s _ h => by
    obtain ⟨h1, h2⟩ := mj_tail h.2
    have hbody : ∀ sh ∈ shiftsL body, B sh := fun o ho => h1 o (by simp [shiftsI, ho])
    have hshift : B shift := h1 shift (by simp [shiftsI])
    obtain ⟨hs1i, _, _⟩ := lhPro_true_insts once (subOf shift body) s
    refine ⟨(), ⟨?_, hbody⟩, ?_⟩
    · rw [hs1i]
      cases once
      · exact allQ_push h.1 movOk_noop
      · exact h.1
    · intro sb so u1 u2 fuel _ hb _ ho
      refine ⟨?_, h2⟩
      have hso : so.insts = (lhMov shift sb).insts := by
        have := (outerLoop_core ps fuel _ ho).1
        exact congrArg G.insts this
      have hm : AllQ (MovOk B) (lhMov shift sb).insts := movQ_lhMov hb.1 hshift
      obtain ⟨_, _, _, o1, o2, hfi⟩ := loopEnd_fields once cond (subOf shift body) ps s
        (lhPro true once (lhHead true (subOf shift body) s)) so
      rw [hfi, hso]
      cases once
      · exact allQ_set (allQ_push hm (by intro sh hh; cases hh)) (by intro sh hh; cases hh) _
      · exact allQ_push hm (by intro sh hh; cases hh)
  ifz := fun c ps a cond shift body rest s h => by
    obtain ⟨h1, h2⟩ := mj_tail h.2
    have hbody : ∀ sh ∈ shiftsL body, B sh := fun o ho => h1 o (by simp [shiftsI, ho])
    have hshift : B shift := h1 shift (by simp [shiftsI])
    refine ⟨(), ⟨allQ_push h.1 movOk_noop, hbody⟩, ?_⟩
    intro sb u1 _ hb _
    refine ⟨?_, h2⟩
    have hm : AllQ (MovOk B) (lhMov shift sb).insts := movQ_lhMov hb.1 hshift
    obtain ⟨_, o2, hfi⟩ := ifEnd_fields cond shift (subOf shift body) ps s (lhPro false false s) sb
    rw [hfi]
    exact allQ_set hm (by intro sh hh; cases hh) _

/-- Every `mov` of the emitted code carries the shift of a nested block. -/
theorem emit_movOk {fuse : Bool} {prog : Ir.Block w} {s : St w} (h : emitState prog fuse = .ok s)
    (hB : ∀ sh ∈ shiftsL prog.insts, B sh) : AllQ (MovOk B) s.insts :=
  (closedI_emitState (closedI_mov fuse B) h () ⟨fun i x hx => by simp at hx, hB⟩).1

/-! ### `dead_store_elim` -/

theorem movQ_dseLike {s s' : St w} (h : DseLike s s') (hg : AllQ (MovOk B) s.insts) :
    AllQ (MovOk B) s'.insts := by
  intro j x hx
  rcases h.insts j with e | ⟨e, _⟩
  · exact hg j x (by rw [← e]; exact hx)
  · rw [hx] at e; cases e; exact movOk_noop

/-! ### `allocate_temps` -/

theorem movOk_rwInst {repl : List (Nat × Loc w)} {cur new : Instr w} (h : rwInst repl cur = .ok new)
    (hc : MovOk B cur) : MovOk B new := by
  unfold rwInst at h
  split at h
  · split at h
    · cases h
    · cases h; intro sh hh; cases hh
  · split at h
    · split at h
      · cases h
      · split at h
        · cases h
        · cases h; exact movOk_mkArith _ _ _ _
    · cases h; exact hc

theorem movOk_setDst {x : Instr w} {t : Nat} (h : dstTmp? x = some t) (r : Nat) :
    MovOk B (setDst x (.tmp r)) := by
  cases x <;> simp [dstTmp?] at h
  all_goals (intro sh hh; cases hh)

theorem movQ_step {s : St w} {k : Nat} {a a' : ASt w} (K : StepKind s k a a')
    (hg : AllQ (MovOk B) a.st.insts) : AllQ (MovOk B) a'.st.insts := by
  cases K with
  | other x hx hpl hq hi hr' =>
    intro j y hy
    by_cases e : j = k
    · subst e; rw [hq] at hy; cases hy; exact hg j x hx
    · exact hg j y (by rw [← hi j e]; exact hy)
  | fuse op t s0 s1 f m hx hPk hkf hPf hfa hq hf hi hnone hr' =>
    intro j y hy
    by_cases e : j = k
    · subst e; rw [hq] at hy; cases hy; exact movOk_noop
    · by_cases e' : j = f
      · subst e'
        rw [hf] at hy; cases hy
        exact movOk_mkArith _ _ _ _
      · exact hg j y (by rw [← hi j e e']; exact hy)
  | rw cur new q hx hpl hn hq hi hd =>
    have gnew : MovOk B new := movOk_rwInst hn (hg k cur hx)
    have hins : ∀ (q' : Instr w), a'.st.insts[k]? = some q' → MovOk B q' → AllQ (MovOk B) a'.st.insts := by
      intro q' hq' gq' j y hy
      by_cases e : j = k
      · subst e; rw [hq'] at hy; cases hy; exact gq'
      · exact hg j y (by rw [← hi j e]; exact hy)
    rcases hd with ⟨_, rfl, h⟩ | ⟨t, ht, _, _, ⟨rfl, h⟩ | ⟨src, rfl, _, rfl, h⟩ | ⟨r, rfl, h⟩⟩
    · exact hins _ hq gnew
    · exact hins _ hq movOk_noop
    · exact hins _ hq movOk_noop
    · exact hins _ hq (movOk_setDst ht r)

theorem movQ_allocateTemps {s s' : St w} {numRegs : Nat} (hp : AllocPre s)
    (h : allocateTemps numRegs s = .ok s') (hg : AllQ (MovOk B) s.insts) : AllQ (MovOk B) s'.insts := by
  obtain ⟨tr, T, rfl⟩ := trace_of_allocateTemps h
  have key : ∀ k, k ≤ s.insts.size → AllQ (MovOk B) (tr k).st.insts := by
    intro k
    induction k with
    | zero =>
      intro _
      rw [T.init]
      exact hg
    | succ k ih =>
      intro hk
      exact movQ_step (trace_sum hp T (by omega)).kind (ih (by omega))
  exact key _ (Nat.le_refl _)

/-! ### `parameter_reordering` -/

theorem movOk_reorderInst {x : Instr w} (hx : MovOk B x) : MovOk B (reorderInst x) := by
  cases x with
  | add d a b =>
    cases a <;> cases b <;> simp only [reorderInst] <;> (intro sh hh; cases hh)
  | mul d a b =>
    cases a <;> cases b <;> simp only [reorderInst] <;> (intro sh hh; cases hh)
  | sub d a b =>
    cases b with
    | imm c => cases a <;> simp only [reorderInst] <;> (intro sh hh; cases hh)
    | tmp i => cases a <;> exact hx
    | mem o => cases a <;> exact hx
    | memZero o => cases a <;> exact hx
  | _ => exact hx

theorem movQ_parameterReordering {s : St w} (hg : AllQ (MovOk B) s.insts) :
    AllQ (MovOk B) (parameterReordering s).insts := by
  intro i x' hx'
  simp only [parameterReordering, Array.getElem?_map, Option.map_eq_some_iff] at hx'
  obtain ⟨a, ha, rfl⟩ := hx'
  exact movOk_reorderInst (hg i a ha)

/-! ### `zeroing_move_detection` -/

theorem movQ_blank {A : Array (Instr w)} (h : AllQ (MovOk B) A) (jo : Option Nat) :
    AllQ (MovOk B) (blank A jo) := by
  cases jo with
  | none => exact h
  | some j => exact allQ_set h movOk_noop j

theorem movQ_zmdPair {A : Array (Instr w)} {i : Nat} {inst : Instr w} (Z : List (Int × Nat))
    (hg : AllQ (MovOk B) A) (hi : A[i]? = some inst) : AllQ (MovOk B) (zmdPair i A Z inst).1 := by
  cases inst with
  | copy d src =>
    simp only [zmdPair]
    exact movQ_blank (allQ_set hg (by intro sh hh; cases hh) i) _
  | add d s0 s1 =>
    simp only [zmdPair, arith?]
    exact movQ_blank (movQ_blank (allQ_set hg (movOk_mkArith .add _ _ _) i) _) _
  | sub d s0 s1 =>
    simp only [zmdPair, arith?]
    exact movQ_blank (movQ_blank (allQ_set hg (movOk_mkArith .sub _ _ _) i) _) _
  | mul d s0 s1 =>
    simp only [zmdPair, arith?]
    exact movQ_blank (movQ_blank (allQ_set hg (movOk_mkArith .mul _ _ _) i) _) _
  | _ => exact hg

theorem movQ_zmdLoop : ∀ (k : Nat) (s : St w) (Z : List (Int × Nat)) (s' : St w),
    zmdLoop k s Z = .ok s' → AllQ (MovOk B) s.insts → AllQ (MovOk B) s'.insts := by
  intro k
  induction k with
  | zero =>
    intro s Z s' h hg
    simp only [zmdLoop, Except.ok.injEq] at h
    subst h; exact hg
  | succ i ih =>
    intro s Z s' h hg
    rw [zmdLoop, zmdStep_eq] at h
    cases hi : s.insts[i]? with
    | none => simp [hi] at h
    | some inst =>
      cases ht : s.isTarget[i]? with
      | none => simp [hi, ht] at h
      | some t =>
        simp only [hi, ht] at h
        exact ih _ _ s' h (movQ_zmdPair Z hg hi)

theorem movQ_zeroingMoveDetection {s s' : St w} (h : zeroingMoveDetection s = .ok s')
    (hg : AllQ (MovOk B) s.insts) : AllQ (MovOk B) s'.insts :=
  movQ_zmdLoop _ s [] s' h hg

/-! ### `strip_noops`, the late passes -/

theorem movOk_fixInst (A : Array (Instr w)) (i : Nat) {x : Instr w} (hx : MovOk B x) :
    MovOk B (fixInst A i x) := by
  cases x <;> first | exact hx | (intro sh hh; cases hh)

theorem movQ_strip {p q : Program w} (R : StripRel p q) (hg : AllQ (MovOk B) p.insts) :
    AllQ (MovOk B) q.insts := by
  intro m y hy
  obtain ⟨i, x, g1, _, _, rfl⟩ := stripRel_inst R hy
  exact movOk_fixInst _ _ (hg i x g1)

theorem latePasses_movOk (s s4 : St w) (h : LatePre s) (fuse : Bool) (h4 : latePasses fuse s = .ok s4)
    (hg : AllQ (MovOk B) s.insts) : AllQ (MovOk B) s4.insts := by
  have hT1 := parameterReordering_targetsOk s h.targets
  have hZ1 := parameterReordering_noMemZero s h.noZero
  have hL1 : (parameterReordering s).live.size = (parameterReordering s).insts.size := by
    rw [parameterReordering_live, parameterReordering_size]; exact h.live
  have hg1 := movQ_parameterReordering hg
  have fin : ∀ sz : St w, AllQ (MovOk B) sz.insts → sz.live.size = sz.insts.size → TargetsOk sz.insts →
      stripNoops sz = .ok s4 → AllQ (MovOk B) s4.insts := by
    intro sz hgz h3 h5 h6
    have R := stripNoops_rel sz s4 h3 h5 h6 0 0 0 0 0 0
    exact movQ_strip (p := progOf sz 0 0 0) (q := progOf s4 0 0 0) R hgz
  cases fuse with
  | false =>
    simp only [latePasses, Bool.false_eq_true, if_false, pure_bind] at h4
    exact fin _ hg1 hL1 hT1 h4
  | true =>
    obtain ⟨tg, r1, r2⟩ := recordBranchTargets_spec (parameterReordering s) hT1
    obtain ⟨s3, z1, z2, _, z4, z5, _⟩ := zeroingMoveDetection_preserves_of_pre
      { parameterReordering s with isTarget := tg } ⟨r2, hZ1⟩
    simp only [latePasses, if_true, r1, bind, Except.bind, z1] at h4
    exact fin s3 (movQ_zeroingMoveDetection z1 hg1) (by rw [z2, z4]; exact hL1) z5 h4

/-! ### the whole generator -/

/-- **Every `mov sh` of a translated program carries the shift of a loop/if block nested in the IR.** -/
theorem translateE_movOk {prog : Ir.Block w} {numRegs : Nat} {fuse : Bool} {p : Program w}
    (h : translateE prog numRegs fuse = .ok p) (hB : ∀ sh ∈ shiftsL prog.insts, B sh) :
    ∀ (i : Nat) (sh : Int), p.insts[i]? = some (.mov sh) → B sh := by
  obtain ⟨s1, s2, s3, s4, h1, h2, h3, h4, rfl⟩ := Chain.translateE_phases h
  obtain ⟨s2', h2', _, _, _, hT, _⟩ := deadStoreElim_preserves_of_emit h1
  rw [h2] at h2'; cases h2'
  have hpre := AEmit.allocPre_of_emit h1 h2
  have hT2 := hT (Chain.emit_targetsOk h1)
  have hlate := allocateTemps_latePre s2 s3 numRegs hpre hT2 h3
  have g1 : AllQ (MovOk B) s1.insts := emit_movOk h1 hB
  have g2 := movQ_dseLike (deadStoreElim_dseLike h2) g1
  have g3 := movQ_allocateTemps hpre h3 g2
  have g4 := latePasses_movOk s3 s4 hlate fuse h4 g3
  intro i sh hi
  exact g4 i _ hi sh rfl

theorem translateE_mov_mem {prog : Ir.Block w} {numRegs : Nat} {fuse : Bool} {p : Program w}
    (h : translateE prog numRegs fuse = .ok p) :
    ∀ (i : Nat) (sh : Int), p.insts[i]? = some (.mov sh) → sh ∈ shiftsL prog.insts :=
  translateE_movOk (B := fun sh => sh ∈ shiftsL prog.insts) h (fun _ h => h)

end C03
end Hpbf
