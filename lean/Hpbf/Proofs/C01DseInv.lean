/-
The lockstep invariant between the run of a program and the run of its image under the dead store
elimination: matching continuation stacks (`MatchK`), the set of cells on which the two tapes may differ
(`DC`: certified by the pass data, `DeadI`, or protected by the `reads` fact during a re-entered loop
iteration, `Prot`), and the invariant `Inv`.
-/
import Hpbf.Proofs.C01DseDead

namespace Hpbf
namespace C01Dse
open Ir OptDse

variable {w : Nat}

/-! ### static facts -/

def Static (A : DAnal) (l : List (Instr w)) : Prop := shiftOkL A l = true ∧ noDupL l = true

theorem Static.tail {A : DAnal} {i : Instr w} {l : List (Instr w)} (h : Static A (i :: l)) : Static A l := by
  obtain ⟨h1, h2⟩ := h
  rw [shiftOkL, Bool.and_eq_true] at h1
  rw [noDupL, Bool.and_eq_true] at h2
  exact ⟨h1.2, h2.2⟩

theorem Static.calc_nodup {A : DAnal} {calcs : List (Int × Expr w)} {l : List (Instr w)}
    (h : Static A (.calc calcs :: l)) : (calcs.map Prod.fst).Nodup := by
  obtain ⟨_, h2⟩ := h
  rw [noDupL, Bool.and_eq_true, noDupI] at h2
  simpa using h2.1

theorem Static.loop {A A1 : DAnal} {cond shift : Int} {body : List (Instr w)} {once : Bool}
    {l : List (Instr w)} (h : Static A (.loop cond shift body once :: l))
    (hA : subAt A (nblocks l + 1) = some A1) :
    Static A1 body ∧ (A1.hasShift = false →
      shift = 0 ∧ (usedSubs A1 (nblocks body)).all (fun a => !a.hasShift) = true) := by
  obtain ⟨h1, h2⟩ := h
  rw [shiftOkL, Bool.and_eq_true, shiftOkI, hA] at h1
  rw [noDupL, Bool.and_eq_true, noDupI] at h2
  simp only [Bool.and_eq_true, Bool.or_eq_true, beq_iff_eq] at h1
  refine ⟨⟨h1.1.2, h2.1⟩, fun hs => ?_⟩
  rcases h1.1.1 with h | h
  · rw [hs] at h; exact absurd h (by simp)
  · exact h

theorem Static.ifnz {A A1 : DAnal} {cond shift : Int} {body : List (Instr w)}
    {l : List (Instr w)} (h : Static A (.ifnz cond shift body :: l))
    (hA : subAt A (nblocks l + 1) = some A1) :
    Static A1 body ∧ (A1.hasShift = false →
      shift = 0 ∧ (usedSubs A1 (nblocks body)).all (fun a => !a.hasShift) = true) := by
  obtain ⟨h1, h2⟩ := h
  rw [shiftOkL, Bool.and_eq_true, shiftOkI, hA] at h1
  rw [noDupL, Bool.and_eq_true, noDupI] at h2
  simp only [Bool.and_eq_true, Bool.or_eq_true, beq_iff_eq] at h1
  refine ⟨⟨h1.1.2, h2.1⟩, fun hs => ?_⟩
  rcases h1.1.1 with h | h
  · rw [hs] at h; exact absurd h (by simp)
  · exact h

/-- What the static facts give for a body marked `has_shift = false`. -/
theorem body_noShift {P : List DState} {body body' : List (Instr w)} {shift : Int} {A1 : DAnal}
    {sub : DState} {idx1 : Nat}
    (hb : elimInsts P body (DState.new shift A1) A1.subs.length = some (body', sub, idx1))
    (hst : Static A1 body) (hu : (usedSubs A1 (nblocks body)).all (fun a => !a.hasShift) = true) :
    sub.hadShift = false ∧ noShiftL body = true := by
  refine ⟨bodyStart_hadShift hb hu, ?_⟩
  have hshape := shape_of_elimInsts body P (DState.new shift A1) _ hb
  exact noShiftL_of body A1 (nblocks body) hshape hst.1 (Nat.le_refl _) hu

/-! ### matching continuation stacks -/

/-- `MatchK top ks ks' frs A sh`: `ks'` is the image of `ks` under the pass, `frs` the pass data of the blocks
being executed (innermost first), `A` / `sh` the analysis node / shift of the innermost one. -/
inductive MatchK (top : DAnal) : List (Cont w) → List (Cont w) → List Frame → DAnal → Int → Prop
  | nil : MatchK top [] [] [] top 0
  | loopEnd {ks ks' : List (Cont w)} {frs : List Frame} {A : DAnal} {sh cond shift : Int}
      {body body' rest rest' : List (Instr w)} {s : DState} {idx : Nat} {A1 : DAnal} {sub : DState}
      {idx1 : Nat} (once : Bool)
      (hk : MatchK top ks ks' frs A sh)
      (hrest : elimInsts (frs.map Frame.par) rest (DState.new sh A) A.subs.length = some (rest', s, idx))
      (hA1 : subAt A (nblocks rest + 1) = some A1)
      (hbody : elimInsts (s.read cond :: frs.map Frame.par) body (DState.new shift A1) A1.subs.length
        = some (body', sub, idx1))
      (hst : Static A (.loop cond shift body once :: rest)) :
      MatchK top (.loopEnd cond shift body rest :: ks) (.loopEnd cond shift body' rest' :: ks')
        (⟨sub, s.read cond⟩ :: frs) A1 shift
  | ifEnd {ks ks' : List (Cont w)} {frs : List Frame} {A : DAnal} {sh shift : Int}
      {body body' rest rest' : List (Instr w)} {s : DState} {idx : Nat} {A1 : DAnal} {sub : DState}
      {idx1 : Nat} (cond : Int)
      (hk : MatchK top ks ks' frs A sh)
      (hrest : elimInsts (frs.map Frame.par) rest (DState.new sh A) A.subs.length = some (rest', s, idx))
      (hA1 : subAt A (nblocks rest + 1) = some A1)
      (hbody : elimInsts (s.read cond :: frs.map Frame.par) body (DState.new shift A1) A1.subs.length
        = some (body', sub, idx1))
      (hst : Static A (.ifnz cond shift body :: rest)) :
      MatchK top (.ifEnd shift rest :: ks) (.ifEnd shift rest' :: ks') (⟨sub, s.read cond⟩ :: frs) A1 shift

theorem MatchK.length {top : DAnal} {ks ks' : List (Cont w)} {frs : List Frame} {A : DAnal} {sh : Int}
    (h : MatchK top ks ks' frs A sh) : ks.length = frs.length ∧ ks'.length = frs.length := by
  induction h with
  | nil => exact ⟨rfl, rfl⟩
  | loopEnd _ _ _ _ _ _ ih => simp [ih.1, ih.2]
  | ifEnd _ _ _ _ _ _ ih => simp [ih.1, ih.2]

theorem MatchK.analOf {top : DAnal} {ks ks' : List (Cont w)} {frs : List Frame} {A : DAnal} {sh : Int}
    (h : MatchK top ks ks' frs A sh) : analOf top ks = some A := by
  induction h with
  | nil => rfl
  | loopEnd _ _ _ hA1 _ _ ih => simp only [C01Dse.analOf, ih, contRest, hA1]
  | ifEnd _ _ _ hA1 _ _ ih => simp only [C01Dse.analOf, ih, contRest, hA1]

theorem MatchK.shifts {top : DAnal} {ks ks' : List (Cont w)} {frs : List Frame} {A : DAnal} {sh : Int}
    (h : MatchK top ks ks' frs A sh) : ks'.map Cont.shift = ks.map Cont.shift := by
  induction h with
  | nil => rfl
  | loopEnd _ _ _ _ _ _ ih => simp [ih, Cont.shift]
  | ifEnd _ _ _ _ _ _ ih => simp [ih, Cont.shift]

theorem MatchK.chain {top : DAnal} {ks ks' : List (Cont w)} {frs : List Frame} {A : DAnal} {sh : Int}
    (h : MatchK top ks ks' frs A sh) : ∀ s0 : DState, s0.anal = A → s0.shift = sh → ChainOk s0 frs := by
  induction h with
  | nil => intro _ _ _; trivial
  | loopEnd _ _ hrest _ hbody _ ih =>
    intro s0 h1 h2
    obtain ⟨a1, a2, _⟩ := elimInsts_meta hrest
    obtain ⟨b1, b2, _⟩ := elimInsts_meta hbody
    refine ⟨h1.trans b1.symm, h2.trans b2.symm, ih _ ?_ ?_⟩
    · rw [read_anal]; exact a1
    · rw [read_shift]; exact a2
  | ifEnd _ _ hrest _ hbody _ ih =>
    intro s0 h1 h2
    obtain ⟨a1, a2, _⟩ := elimInsts_meta hrest
    obtain ⟨b1, b2, _⟩ := elimInsts_meta hbody
    refine ⟨h1.trans b1.symm, h2.trans b2.symm, ih _ ?_ ?_⟩
    · rw [read_anal]; exact a1
    · rw [read_shift]; exact a2

/-! ### the cells on which the tapes may differ -/

/-- `a` is protected by the `reads` fact of the loop of `fr` (whose body has been re-entered and whose nested
blocks do not move the pointer; `frs`: the enclosing frames) until the running iteration is over, and dead
afterwards. -/
structure ProtW (lim : Bool) (c : Cfg w) (fr : Frame) (frs : List Frame) (a : Int) : Prop where
  cur : noShiftL c.cur = true
  conts : nsAbove c.conts (frs.length + 1) = true
  unexp : ∀ n, unexposedN lim (frs.length + 1) a n c = true
  noShift : fr.sub.anal.hasShift = false
  shift0 : fr.sub.shift = 0
  notRead : (a - c.st.ptr) ∉ fr.sub.anal.reads
  after : DeadI fr.par (DeadK frs) (a - c.st.ptr)

def Prot (lim : Bool) (c : Cfg w) (frames : List Frame) (a : Int) : Prop :=
  ∃ fr frs, (fr :: frs) <:+ frames ∧ ProtW lim c fr frs a

/-- The tapes of the two runs may differ at address `a`. -/
def DC (lim : Bool) (c : Cfg w) (frames : List Frame) (s : DState) (a : Int) : Prop :=
  DeadI s (DeadK frames) (a - c.st.ptr) ∨ Prot lim c frames a

theorem ProtW.noread {lim : Bool} {c : Cfg w} {fr : Frame} {frs : List Frame} {a : Int}
    (hp : ProtW lim c fr frs a) (hne : ¬ (c.cur = [] ∧ c.conts.length ≤ frs.length + 1)) :
    a ∉ stepReads c :=
  unexposed_noread hp.unexp hne

theorem ProtW.next {lim : Bool} {c c1 : Cfg w} {fr : Frame} {frs : List Frame} {a : Int}
    (hp : ProtW lim c fr frs a) (hd : frs.length + 1 ≤ c.conts.length)
    (hne : ¬ (c.cur = [] ∧ c.conts.length ≤ frs.length + 1))
    (hs : step lim c = .next c1) (hw : a ∉ stepWrites c) : ProtW lim c1 fr frs a := by
  obtain ⟨n1, n2, _, n4⟩ := noShift_step hp.cur hp.conts hd hne hs
  refine ⟨n1, n2, unexposed_next hp.unexp hne hs hw, hp.noShift, hp.shift0, ?_, ?_⟩
  · rw [n4]; exact hp.notRead
  · rw [n4]; exact hp.after

/-- When the protecting iteration is over: dead by the pass data. -/
theorem ProtW.ended {lim : Bool} {c : Cfg w} {fr : Frame} {frs : List Frame} {a : Int} (shift : Int)
    (A : DAnal) (hp : ProtW lim c fr frs a) :
    DeadI (DState.new shift A) (DeadK (fr :: frs)) (a - c.st.ptr) := by
  refine DeadI.new ⟨Or.inr ⟨hp.noShift, Or.inl hp.notRead⟩, ?_⟩
  rw [hp.shift0, Int.sub_zero]
  exact hp.after

/-- While instructions of a block are executed (`cur ≠ []`). -/
theorem Prot.noread {lim : Bool} {c : Cfg w} {frames : List Frame} {a : Int}
    (hp : Prot lim c frames a) (hcur : c.cur ≠ []) : a ∉ stepReads c := by
  obtain ⟨fr, frs, _, hw⟩ := hp
  exact hw.noread (fun h => hcur h.1)

theorem Prot.next {lim : Bool} {c c1 : Cfg w} {frames frames1 : List Frame} {a : Int}
    (hp : Prot lim c frames a) (hlen : c.conts.length = frames.length) (hcur : c.cur ≠ [])
    (hs : step lim c = .next c1) (hw : a ∉ stepWrites c)
    (hsuf : ∀ l : List Frame, l <:+ frames → l <:+ frames1) : Prot lim c1 frames1 a := by
  obtain ⟨fr, frs, hsf, hpw⟩ := hp
  have hd : frs.length + 1 ≤ c.conts.length := by
    have := hsf.length_le
    simp only [List.length_cons] at this
    omega
  exact ⟨fr, frs, hsuf _ hsf, hpw.next hd (fun h => hcur h.1) hs hw⟩

/-- At the end of a body (`cur = []`): either the protecting iteration is the one that ends, or the
protection continues. -/
theorem DC.at_end {lim : Bool} {c : Cfg w} {f0 : Frame} {frames : List Frame} {a : Int} {shift : Int}
    {A : DAnal} (h : DC lim c (f0 :: frames) (DState.new shift A) a)
    (hlen : c.conts.length = frames.length + 1) (_hcur : c.cur = []) :
    DeadK (f0 :: frames) (a - c.st.ptr) ∨
      (a ∉ stepReads c ∧ ∀ c1, step lim c = .next c1 → a ∉ stepWrites c →
        c1.conts.length = frames.length → Prot lim c1 frames a) ∧
      (a ∉ stepReads c ∧ ∀ c1, step lim c = .next c1 → a ∉ stepWrites c →
        c1.conts.length = frames.length + 1 → Prot lim c1 (f0 :: frames) a) := by
  rcases h with h | ⟨fr, frs, hsf, hpw⟩
  · exact Or.inl h.of_new
  · by_cases hl : frames.length ≤ frs.length
    · have heq : fr :: frs = f0 :: frames := hsf.eq_of_length_le (by simpa using hl)
      rw [← heq]
      exact Or.inl (hpw.ended shift A).of_new
    · have hd : frs.length + 1 ≤ c.conts.length := by omega
      have hne : ¬ (c.cur = [] ∧ c.conts.length ≤ frs.length + 1) := by
        rintro ⟨_, h2⟩; omega
      have hsf' : (fr :: frs) <:+ frames := by
        rcases List.suffix_cons_iff.1 hsf with h | h
        · have := congrArg List.length h
          simp only [List.length_cons] at this
          omega
        · exact h
      refine Or.inr ⟨⟨hpw.noread hne, fun c1 hs hw _ => ⟨fr, frs, hsf', hpw.next hd hne hs hw⟩⟩,
        ⟨hpw.noread hne, fun c1 hs hw _ => ⟨fr, frs, hsf, hpw.next hd hne hs hw⟩⟩⟩

/-! ### the invariant -/

structure Inv (lim : Bool) (bud : Nat) (b : Block w) (anal : DAnal) (env : Env) (c c' : Cfg w) : Prop where
  reach : Reach lim bud b env c
  ex : ∃ frs A sh s idx, MatchK anal c.conts c'.conts frs A sh ∧
      elimInsts (frs.map Frame.par) c.cur (DState.new sh A) A.subs.length = some (c'.cur, s, idx) ∧
      Static A c.cur ∧
      ∀ a, c.st.tape.get a = c'.st.tape.get a ∨ DC lim c frs s a
  budget : c'.budget = c.budget
  ptr : c'.st.ptr = c.st.ptr
  env : c'.st.env = c.st.env
  trace : c'.st.trace = c.st.trace

/-- Relation between the results of one step of the two machines. -/
def StepRel (lim : Bool) (bud : Nat) (b : Block w) (anal : DAnal) (env : Env) : StepRes w → StepRes w → Prop
  | .next c1, .next c1' => Inv lim bud b anal env c1 c1'
  | .halt c1, .halt c1' => Obs c1 c1'
  | .stop c1, .stop c1' => Obs c1 c1'
  | .interrupted c1, .interrupted c1' => Obs c1 c1'
  | _, _ => False

end C01Dse
end Hpbf
