/-
C02 (`allocate_temps`), part 2: what each phase of `allocStep` does on a successful run
(`phCanK_ok`, `phFuseK_ok`, `phRewriteK_ok`, `freeAll_eq`, `phLiveK_ok`, `phDst_ok`, `drainEnds_ok`,
`allocTemp_ok`) and their composition `allocStep_ok`.
-/
import Hpbf.Proofs.C02AllocMonad
set_option linter.unusedSimpArgs false

namespace Hpbf
namespace C02
namespace Alloc

open Bc BcGen

variable {w : Nat}


theorem phCanK_ok {numRegs i : Nat} {atf0 : List Nat} {inst0 : Instr w} {k : Bool → A w Unit}
    {a a' : ASt w} {u : Unit} (h : phCanK numRegs i atf0 inst0 k a = .ok (u, a')) :
    ∃ can, k can a = .ok (u, a') := by
  unfold phCanK at h
  cases hd : dstTmp? inst0 with
  | none => simp only [hd] at h; exact ⟨false, h⟩
  | some tmp =>
    simp only [hd] at h
    rw [bind_ok] at h
    obtain ⟨l, a1, h1, h2⟩ := h
    rw [lastUseOf_ok] at h1
    obtain ⟨_, rfl⟩ := h1
    split at h2
    · simp [throw_bind, throw_run] at h2
    · simp only [pure_bind', get_bind] at h2
      exact ⟨_, h2⟩

/-- Step 4 as a function of the instruction. -/
def rwInst (repl : List (Nat × Loc w)) (x : Instr w) : Except String (Instr w) :=
  match x with
  | .copy d s =>
    match replSrc repl s with
    | .error e => .error e
    | .ok s' => .ok (.copy d s')
  | _ =>
    match arith? x with
    | some (op, d, s0, s1) =>
      match replSrc repl s0 with
      | .error e => .error e
      | .ok s0' =>
        match replSrc repl s1 with
        | .error e => .error e
        | .ok s1' => .ok (mkArith op d s0' s1')
    | none => .ok x

theorem setI_self {a : ASt w} {i : Nat} {x : Instr w} (h : a.st.insts[i]? = some x) : a.setI i x = a := by
  have : a.st.insts.setIfInBounds i x = a.st.insts := by
    apply Array.ext_getElem?
    intro j
    by_cases hj : i = j
    · subst hj
      rw [h]
      have := Array.getElem?_eq_some_iff.1 h
      obtain ⟨hi, _⟩ := this
      simp [Array.getElem?_setIfInBounds, hi]
    · simp [Array.getElem?_setIfInBounds, hj]
  unfold ASt.setI
  rw [this]

theorem phRewriteK_ok {i : Nat} {k : Unit → A w Unit} {a a' : ASt w} {u : Unit}
    (h : phRewriteK i k a = .ok (u, a')) :
    ∃ cur new, a.st.insts[i]? = some cur ∧ rwInst a.repl cur = .ok new ∧
      k () (a.setI i new) = .ok (u, a') := by
  unfold phRewriteK at h
  rw [bind_ok] at h
  obtain ⟨cur, a1, h1, h2⟩ := h
  rw [instAt_ok] at h1
  obtain ⟨hc, rfl⟩ := h1
  simp only [get_bind] at h2
  refine ⟨cur, ?_⟩
  cases cur with
  | copy d s =>
    simp only [rwInst] at h2 ⊢
    cases hr : replSrc a1.repl s with
    | error e => simp [hr, throw_bind, throw_run] at h2
    | ok s' =>
      simp only [hr, setInst_bind] at h2
      exact ⟨_, hc, rfl, h2⟩
  | add d s0 s1 | sub d s0 s1 | mul d s0 s1 =>
    simp only [rwInst, arith?] at h2 ⊢
    cases hr0 : replSrc a1.repl s0 with
    | error e => simp [hr0, throw_bind, throw_run] at h2
    | ok s0' =>
      simp only [hr0] at h2 ⊢
      cases hr1 : replSrc a1.repl s1 with
      | error e => simp [hr1, throw_bind, throw_run] at h2
      | ok s1' =>
        simp only [hr1, setInst_bind] at h2 ⊢
        exact ⟨_, hc, rfl, h2⟩
  | _ =>
    simp only [rwInst, arith?] at h2 ⊢
    refine ⟨_, hc, rfl, ?_⟩
    rw [setI_self hc]; exact h2



theorem phLiveK_ok {numRegs : Nat} {k : Unit → A w Unit} {a a' : ASt w} {u : Unit}
    (h : phLiveK numRegs k a = .ok (u, a')) :
    ∃ live, liveMask numRegs a.freeRegs = .ok live ∧
      k () { a with st := { a.st with live := a.st.live.push live } } = .ok (u, a') := by
  unfold phLiveK at h
  simp only [get_bind] at h
  cases hl : liveMask numRegs a.freeRegs with
  | error e => simp [hl, throw_bind, throw_run] at h
  | ok live =>
    simp only [hl, modify_bind] at h
    exact ⟨live, rfl, h⟩

/-- `fuseSrc` as a function. -/
def fuseSrcP (firstUse : Nat) (atf : List Nat) (l : Loc w) (a : ASt w) : Except String (List Nat × ASt w) :=
  match l with
  | .tmp t =>
    match extendTo a.st.ranges t firstUse with
    | .error e => .error e
    | .ok rs =>
      let a1 : ASt w := { a with st := { a.st with ranges := rs } }
      if atf.contains t then
        .ok (setErase atf t, { a1 with nre := nrePush (firstUse, t) a1.nre })
      else .ok (atf, a1)
  | _ => .ok (atf, a)

theorem fuseSrc_eq (firstUse : Nat) (atf : List Nat) (l : Loc w) (a : ASt w) :
    fuseSrc firstUse atf l a = fuseSrcP firstUse atf l a := by
  cases l with
  | tmp t =>
    simp only [fuseSrc, fuseSrcP, get_bind]
    cases extendTo a.st.ranges t firstUse with
    | error e => rfl
    | ok rs =>
      simp only [set_bind]
      by_cases hc : atf.contains t = true
      · simp only [hc, if_true, modify_bind]; rfl
      · simp only [hc]; rfl
  | _ => rfl

/-- The location chosen by `alloc_temp` and the remaining free lists. -/
def pickTemp (a : ASt w) (live : Nat) : Nat × List Nat × List Nat × Nat :=
  if live < 16 ∨ a.freeRegs.length > 2 then
    match a.freeRegs with
    | r :: rs => (r, rs, a.freeTemps, a.nextFresh)
    | [] =>
      match a.freeTemps with
      | t :: ts => (t, [], ts, a.nextFresh)
      | [] => (a.nextFresh, [], [], a.nextFresh + 1)
  else
    match a.freeTemps with
    | t :: ts => (t, a.freeRegs, ts, a.nextFresh)
    | [] => (a.nextFresh, a.freeRegs, [], a.nextFresh + 1)

def setDst (x : Instr w) (d : Loc w) : Instr w :=
  match x with
  | .add _ s0 s1 => .add d s0 s1
  | .sub _ s0 s1 => .sub d s0 s1
  | .mul _ s0 s1 => .mul d s0 s1
  | .copy _ s => .copy d s
  | x => x

theorem allocTemp_ok {i old : Nat} {a a' : ASt w} {u : Unit}
    (h : allocTemp i old a = .ok (u, a')) :
    ∃ r L x, a.st.ranges[old]? = some r ∧ r.lastUse = some L ∧ i ≤ L ∧ a.st.insts[i]? = some x ∧
      a' = { a with
        freeRegs := (pickTemp a (L - i)).2.1, freeTemps := (pickTemp a (L - i)).2.2.1,
        nextFresh := (pickTemp a (L - i)).2.2.2,
        repl := alSet a.repl old (.tmp (pickTemp a (L - i)).1),
        nre := nrePush (L, old) a.nre,
        st := { a.st with insts := a.st.insts.setIfInBounds i (setDst x (.tmp (pickTemp a (L - i)).1)) } } := by
  unfold allocTemp at h
  rw [bind_ok] at h
  obtain ⟨L, a1, h1, h2⟩ := h
  rw [lastUseOf_ok] at h1
  obtain ⟨⟨r, hr, hL⟩, rfl⟩ := h1
  by_cases hlt : L < i
  · simp [hlt, throw_bind, throw_run] at h2
  · simp only [hlt, if_false, pure_bind', get_bind] at h2
    rw [bind_ok] at h2
    obtain ⟨x, a2, h3, h4⟩ := h2
    rw [instAt_ok] at h3
    obtain ⟨hx, rfl⟩ := h3
    rw [set_ok] at h4
    refine ⟨r, L, x, hr, hL, Nat.le_of_not_lt hlt, hx, ?_⟩
    subst h4
    unfold pickTemp setDst
    by_cases hc : L - i < 16 ∨ a2.freeRegs.length > 2
    · have hc' : (decide (L - i < 16) || decide (a2.freeRegs.length > 2)) = true := by simpa using hc
      simp only [hc', hc, if_true]
      cases hf : a2.freeRegs with
      | cons r rs => cases x <;> rfl
      | nil =>
        cases hft : a2.freeTemps with
        | cons t ts => cases x <;> rfl
        | nil => cases x <;> rfl
    · have hc' : (decide (L - i < 16) || decide (a2.freeRegs.length > 2)) = false := by simpa using hc
      simp only [hc', hc, if_false]
      cases hft : a2.freeTemps with
      | cons t ts => cases x <;> simp
      | nil => cases x <;> simp



def fwdSt (a : ASt w) (i tmp lastUse : Nat) (src : Loc w) : ASt w :=
  { a with repl := alSet a.repl tmp src, nre := nrePush (lastUse, tmp) a.nre,
           st := { a.st with insts := a.st.insts.setIfInBounds i .noop } }

theorem forward_ok {i tmp lastUse : Nat} {src : Loc w} {a a' : ASt w} {u : Unit} :
    forward i tmp lastUse src a = .ok (u, a') ↔ a' = fwdSt a i tmp lastUse src := by
  unfold forward; exact modify_ok _ _ _ _

/-- What step 7 does with an instruction whose destination is the temporary `t`. -/
def DstCase (i : Nat) (a : ASt w) (x : Instr w) (t : Nat) (a' : ASt w) : Prop :=
  ∃ r, a.st.ranges[t]? = some r ∧
    (((r.numUses = 0 ∨ r.lastUse = none) ∧ a' = a.setI i .noop) ∨
     (∃ src L, x = .copy (.tmp t) src ∧ r.lastUse = some L ∧ r.numUses ≠ 0 ∧
        ((∃ c, src = .imm c) ∨ ∃ m, src = .mem m ∧ hasWriteInRange a.st m i L = false) ∧
        a' = fwdSt a i t L src) ∨
     (r.numUses ≠ 0 ∧ ∃ u, allocTemp i t a = .ok (u, a')))

theorem phDst_ok {i : Nat} {can : Bool} {a a' : ASt w} {u : Unit} (h : phDst i can a = .ok (u, a')) :
    ∃ x, a.st.insts[i]? = some x ∧
      ((dstTmp? x = none ∧ a' = a) ∨ ∃ t, dstTmp? x = some t ∧ DstCase i a x t a') := by
  unfold phDst at h
  rw [bind_ok] at h
  obtain ⟨x, a1, h1, h2⟩ := h
  rw [instAt_ok] at h1
  obtain ⟨hx, rfl⟩ := h1
  refine ⟨x, hx, ?_⟩
  have harith : ∀ (d s0 s1 : Loc w) (y : Instr w), dstTmp? y = (match d with | .tmp t => some t | _ => none) →
      (match d with
        | .tmp tmp => (do
          let r ← rangeAt "allocate_temps:ranges-index" tmp
          if r.numUses != 0 then allocTemp i tmp else setInst i .noop : A w Unit)
        | _ => pure ()) a1 = .ok (u, a') →
      ((dstTmp? y = none ∧ a' = a1) ∨ ∃ t, dstTmp? y = some t ∧ DstCase i a1 y t a') := by
    intro d s0 s1 y hy h
    cases d with
    | tmp t =>
      simp only at h hy
      rw [bind_ok] at h
      obtain ⟨r, a2, h3, h4⟩ := h
      rw [rangeAt_ok] at h3
      obtain ⟨hr, rfl⟩ := h3
      refine Or.inr ⟨t, hy, r, hr, ?_⟩
      by_cases hn : r.numUses = 0
      · simp only [hn, bne_self_eq_false, Bool.false_eq_true, if_false] at h4
        rw [setInst_ok] at h4
        exact Or.inl ⟨Or.inl hn, h4⟩
      · have : (r.numUses != 0) = true := by simpa using hn
        simp only [this, if_true] at h4
        exact Or.inr (Or.inr ⟨hn, u, h4⟩)
    | _ =>
      simp only at h hy
      rw [pure_ok] at h
      exact Or.inl ⟨hy, h.2⟩
  cases x with
  | copy d s =>
    cases d with
    | tmp t =>
      simp only at h2
      rw [bind_ok] at h2
      obtain ⟨r, a2, h3, h4⟩ := h2
      rw [rangeAt_ok] at h3
      obtain ⟨hr, rfl⟩ := h3
      refine Or.inr ⟨t, rfl, r, hr, ?_⟩
      cases hL : r.lastUse with
      | none =>
        simp only [hL] at h4
        rw [setInst_ok] at h4
        exact Or.inl ⟨Or.inr rfl, h4⟩
      | some L =>
        simp only [hL] at h4
        by_cases hn : r.numUses = 0
        · simp only [hn, beq_self_eq_true, if_true] at h4
          rw [setInst_ok] at h4
          exact Or.inl ⟨Or.inl hn, h4⟩
        · have : (r.numUses == 0) = false := by simpa using hn
          simp only [this, Bool.false_eq_true, if_false] at h4
          cases s with
          | imm c =>
            simp only at h4
            rw [forward_ok] at h4
            exact Or.inr (Or.inl ⟨_, L, rfl, rfl, hn, Or.inl ⟨c, rfl⟩, h4⟩)
          | mem m =>
            simp only [get_bind] at h4
            by_cases hc : ((r.numUses == 1 || !can) && !hasWriteInRange a2.st m i L) = true
            · simp only [hc, if_true] at h4
              rw [forward_ok] at h4
              have hw : hasWriteInRange a2.st m i L = false := by
                simp only [Bool.and_eq_true, Bool.not_eq_true'] at hc
                exact hc.2
              exact Or.inr (Or.inl ⟨_, L, rfl, rfl, hn, Or.inr ⟨m, rfl, hw⟩, h4⟩)
            · simp only [hc, if_false] at h4
              exact Or.inr (Or.inr ⟨hn, u, h4⟩)
          | tmp t' => simp only at h4; exact Or.inr (Or.inr ⟨hn, u, h4⟩)
          | memZero m => simp only at h4; exact Or.inr (Or.inr ⟨hn, u, h4⟩)
    | mem m => simp only [arith?] at h2; rw [pure_ok] at h2; exact Or.inl ⟨rfl, h2.2⟩
    | memZero m => simp only [arith?] at h2; rw [pure_ok] at h2; exact Or.inl ⟨rfl, h2.2⟩
    | imm m => simp only [arith?] at h2; rw [pure_ok] at h2; exact Or.inl ⟨rfl, h2.2⟩
  | add d s0 s1 =>
    simp only [arith?] at h2
    refine harith d s0 s1 _ ?_ ?_
    · cases d <;> rfl
    · cases d <;> exact h2
  | sub d s0 s1 =>
    simp only [arith?] at h2
    refine harith d s0 s1 _ ?_ ?_
    · cases d <;> rfl
    · cases d <;> exact h2
  | mul d s0 s1 =>
    simp only [arith?] at h2
    refine harith d s0 s1 _ ?_ ?_
    · cases d <;> rfl
    · cases d <;> exact h2
  | _ => simp only [arith?] at h2; rw [pure_ok] at h2; exact Or.inl ⟨rfl, h2.2⟩



/-- State after a performed fusion (before the final retargeting of `insts[firstUse]`). -/
def fuseSt (a2 : ASt w) (i t L f : Nat) (m : Int) (inst0 : Instr w) : ASt w :=
  (({ a2 with repl := alSet a2.repl t (.mem m), nre := nrePush (L, t) a2.nre } : ASt w).setI f inst0).setI i .noop

def retarget (a5 : ASt w) (f : Nat) (m : Int) (x : Instr w) : ASt w :=
  match arith? x with
  | some (op, _, x0, x1) => a5.setI f (mkArith op (.mem m) x0 x1)
  | none => a5


theorem fuseBlock_ok {i t L f : Nat} {m : Int} {atf0 : List Nat} {inst0 : Instr w} {s0 s1 : Loc w}
    {k : List Nat → A w Unit} {a a' : ASt w} {u : Unit}
    (h : (do
        let atf ← fuseSrc f atf0 s0
        let atf ← fuseSrc f atf s1
        modify fun a =>
          { a with repl := alSet a.repl t (.mem m), nre := nrePush (L, t) a.nre }
        setInst f inst0
        setInst i .noop
        let x ← instAt "allocate_temps:insts[first_use]-index" f
        match arith? x with
          | some (op, _, x0, x1) => do
            setInst f (mkArith op (.mem m) x0 x1)
            k atf
          | none => k atf : A w Unit) a = .ok (u, a')) :
    ∃ atf1 a1 atf a2 x,
      fuseSrc f atf0 s0 a = .ok (atf1, a1) ∧ fuseSrc f atf1 s1 a1 = .ok (atf, a2) ∧
      (fuseSt a2 i t L f m inst0).st.insts[f]? = some x ∧
      k atf (retarget (fuseSt a2 i t L f m inst0) f m x) = .ok (u, a') := by
  rw [bind_ok] at h
  obtain ⟨atf1, a1, h1, h⟩ := h
  rw [bind_ok] at h
  obtain ⟨atf, a2, h2, h⟩ := h
  simp only [modify_bind, setInst_bind] at h
  rw [bind_ok] at h
  obtain ⟨x, a3, h3, h⟩ := h
  rw [instAt_ok] at h3
  obtain ⟨hx, rfl⟩ := h3
  refine ⟨atf1, a1, atf, a2, x, h1, h2, hx, ?_⟩
  unfold retarget
  cases hax : arith? x with
  | none => simp only [hax] at h; exact h
  | some q =>
    obtain ⟨op, d, x0, x1⟩ := q
    simp only [hax, setInst_bind] at h
    exact h

theorem phFuseK_ok {i : Nat} {can : Bool} {atf0 : List Nat} {inst0 : Instr w} {k : List Nat → A w Unit}
    {a a' : ASt w} {u : Unit} (h : phFuseK i can atf0 inst0 k a = .ok (u, a')) :
    k atf0 a = .ok (u, a') ∨
    ∃ op t s0 s1 r L f m src atf1 a1 atf a2 x,
      arith? inst0 = some (op, .tmp t, s0, s1) ∧ a.st.ranges[t]? = some r ∧ r.lastUse = some L ∧
      r.firstUse = some f ∧ a.st.insts[f]? = some (.copy (.mem m) src) ∧
      hasWriteInRange a.st m (f + 1) L = false ∧
      srcOk a i f s0 = .ok true ∧ srcOk a i f s1 = .ok true ∧
      fuseSrc f atf0 s0 a = .ok (atf1, a1) ∧ fuseSrc f atf1 s1 a1 = .ok (atf, a2) ∧
      (fuseSt a2 i t L f m inst0).st.insts[f]? = some x ∧
      k atf (retarget (fuseSt a2 i t L f m inst0) f m x) = .ok (u, a') := by
  unfold phFuseK at h
  simp only at h
  cases har : arith? inst0 with
  | none => simp only [har, pure_bind'] at h; exact Or.inl h
  | some q =>
    obtain ⟨op, d, s0, s1⟩ := q
    cases d with
    | tmp t =>
      simp only [har] at h
      rw [bind_ok] at h
      obtain ⟨r, a1, h1, h2⟩ := h
      rw [rangeAt_ok] at h1
      obtain ⟨hr, rfl⟩ := h1
      cases hL : r.lastUse with
      | none => simp only [hL, pure_bind'] at h2; exact Or.inl h2
      | some L =>
        simp only [hL] at h2
        cases hf : r.firstUse with
        | none => simp [hf, throw_bind, throw_run] at h2
        | some f =>
          simp only [hf, pure_bind'] at h2
          rw [bind_ok] at h2
          obtain ⟨fi, a2, h3, h4⟩ := h2
          rw [instAt_ok] at h3
          obtain ⟨hfi, rfl⟩ := h3
          cases fi with
          | copy d src =>
            cases d with
            | mem m =>
              simp only [get_bind] at h4
              by_cases hc : ((r.numUses == 1 || !can) && !hasWriteInRange a2.st m (f + 1) L) = true
              · simp only [hc, if_true] at h4
                have hw : hasWriteInRange a2.st m (f + 1) L = false := by
                  simp only [Bool.and_eq_true, Bool.not_eq_true'] at hc
                  exact hc.2
                cases hs0 : srcOk a2 i f s0 with
                | error e => simp [hs0, throw_bind, throw_run] at h4
                | ok b0 =>
                  cases b0 with
                  | false =>
                    simp only [hs0, pure_bind', Bool.false_eq_true, if_false] at h4
                    exact Or.inl h4
                  | true =>
                    simp only [hs0] at h4
                    cases hs1 : srcOk a2 i f s1 with
                    | error e => simp [hs1, throw_bind, throw_run] at h4
                    | ok b1 =>
                      cases b1 with
                      | false =>
                        simp only [hs1, pure_bind', Bool.false_eq_true, if_false] at h4
                        exact Or.inl h4
                      | true =>
                        simp only [hs1, pure_bind', if_true] at h4
                        obtain ⟨atf1, a1, atf, a2', x, e1, e2, e3, e4⟩ := fuseBlock_ok h4
                        exact Or.inr ⟨op, t, s0, s1, r, L, f, m, src, atf1, a1, atf, a2', x, rfl, hr, hL, hf,
                          hfi, hw, hs0, hs1, e1, e2, e3, e4⟩
              · simp only [hc, pure_bind', Bool.false_eq_true, if_false] at h4
                exact Or.inl h4
            | _ => exact Or.inl h4
          | _ => exact Or.inl h4
    | _ => simp only [har, pure_bind'] at h; exact Or.inl h



def freeOne (numRegs : Nat) (a : ASt w) (t : Nat) : ASt w :=
  match alGet a.repl t with
  | some (.tmp r) =>
    if r < numRegs then { a with repl := alErase a.repl t, freeRegs := minPush r a.freeRegs }
    else { a with repl := alErase a.repl t, freeTemps := minPush r a.freeTemps }
  | _ => { a with repl := alErase a.repl t }

theorem freeAll_eq (numRegs : Nat) (ts : List Nat) (a : ASt w) :
    freeAll numRegs ts a = .ok ((), ts.foldl (freeOne numRegs) a) := by
  induction ts generalizing a with
  | nil => rfl
  | cons t ts ih =>
    simp only [freeAll, get_bind, List.foldl_cons]
    unfold freeOne
    cases hg : alGet a.repl t with
    | none => simp only [set_bind]; exact ih _
    | some l =>
      cases l with
      | tmp r =>
        simp only
        by_cases hr : r < numRegs
        · simp only [hr, if_true, set_bind]; exact ih _
        · simp only [hr, if_false, set_bind]; exact ih _
      | _ => simp only [set_bind]; exact ih _

/-- Heap entries after some rounds of `drainEnds`: an original entry, or the re-insertion of an original entry
with the (larger) current `last_use`. -/
def Ent (a : ASt w) (x : Nat × Nat) : Prop :=
  x ∈ a.nre ∨ ∃ e r, (e, x.2) ∈ a.nre ∧ a.st.ranges[x.2]? = some r ∧ r.lastUse = some x.1 ∧ e < x.1

theorem mem_nrePush {x y : Nat × Nat} {l : List (Nat × Nat)} : y ∈ nrePush x l ↔ y = x ∨ y ∈ l := by
  induction l with
  | nil => simp [nrePush]
  | cons z zs ih =>
    simp only [nrePush]
    split
    · simp only [List.mem_cons, ih]
      constructor
      · rintro (h | h | h)
        · exact Or.inr (Or.inl h)
        · exact Or.inl h
        · exact Or.inr (Or.inr h)
      · rintro (h | h | h)
        · exact Or.inr (Or.inl h)
        · exact Or.inl h
        · exact Or.inr (Or.inr h)
    · simp only [List.mem_cons]

/-- Only the heap of range ends differs. -/
structure NreOnly (a a' : ASt w) : Prop where
  st : a'.st = a.st
  nextFresh : a'.nextFresh = a.nextFresh
  freeRegs : a'.freeRegs = a.freeRegs
  freeTemps : a'.freeTemps = a.freeTemps
  repl : a'.repl = a.repl

theorem drainEnds_ok {i : Nat} : ∀ (fuel : Nat) {atf atf' : List Nat} {a a' : ASt w},
    drainEnds i fuel atf a = .ok (atf', a') →
    NreOnly a a' ∧ (∀ x ∈ a'.nre, Ent a x) ∧
    (∀ t ∈ atf', t ∈ atf ∨ ∃ e r L, Ent a (e, t) ∧ e ≤ i ∧ a.st.ranges[t]? = some r ∧ r.lastUse = some L ∧ L ≤ e)
  | 0, _, _, _, _, h => by simp [drainEnds, throw_run] at h
  | fuel + 1, atf, atf', a, a', h => by
    simp only [drainEnds, get_bind] at h
    cases hn : a.nre with
    | nil =>
      simp only [hn] at h
      rw [pure_ok] at h
      obtain ⟨rfl, rfl⟩ := h
      exact ⟨⟨rfl, rfl, rfl, rfl, rfl⟩, fun x hx => Or.inl hx, fun t ht => Or.inl ht⟩
    | cons hd tl =>
      obtain ⟨e, tmp⟩ := hd
      simp only [hn] at h
      by_cases hle : e ≤ i
      · simp only [hle, if_true] at h
        rw [bind_ok] at h
        obtain ⟨L, a1, h1, h2⟩ := h
        rw [lastUseOf_ok] at h1
        obtain ⟨⟨r, hr, hL⟩, rfl⟩ := h1
        simp only [modify_bind] at h2
        have ih := drainEnds_ok fuel h2
        obtain ⟨ih1, ih2, ih3⟩ := ih
        have hmem : (e, tmp) ∈ a1.nre := by rw [hn]; exact List.mem_cons_self
        by_cases hge : e ≥ L
        · simp only [hge, if_true, List.drop_succ_cons, List.drop_zero] at ih1 ih2 ih3
          refine ⟨⟨ih1.1, ih1.2, ih1.3, ih1.4, ih1.5⟩, ?_, ?_⟩
          · intro x hx
            rcases ih2 x hx with h | ⟨e', r', h1, h2, h3, h4⟩
            · exact Or.inl (by rw [hn]; exact List.mem_cons_of_mem _ h)
            · exact Or.inr ⟨e', r', by rw [hn]; exact List.mem_cons_of_mem _ h1, h2, h3, h4⟩
          · intro t ht
            rcases ih3 t ht with h | ⟨e', r', L', h1, h2, h3, h4, h5⟩
            · simp only [setInsert] at h
              split at h
              · exact Or.inl h
              · rw [List.mem_append, List.mem_singleton] at h
                rcases h with h | rfl
                · exact Or.inl h
                · exact Or.inr ⟨e, r, L, Or.inl hmem, hle, hr, hL, hge⟩
            · refine Or.inr ⟨e', r', L', ?_, h2, h3, h4, h5⟩
              rcases h1 with h | ⟨e'', r'', g1, g2, g3, g4⟩
              · exact Or.inl (by rw [hn]; exact List.mem_cons_of_mem _ h)
              · exact Or.inr ⟨e'', r'', by rw [hn]; exact List.mem_cons_of_mem _ g1, g2, g3, g4⟩
        · simp only [hge, if_false] at ih1 ih2 ih3
          have hlt : e < L := Nat.lt_of_not_ge hge
          have hsub : ∀ x, x ∈ (nrePush (L, tmp) (a1.nre)).drop 1 → Ent a1 x := by
            intro x hx
            have := List.mem_of_mem_drop hx
            rw [mem_nrePush] at this
            rcases this with rfl | h
            · exact Or.inr ⟨e, r, hmem, hr, hL, hlt⟩
            · exact Or.inl h
          rw [← hn] at ih2 ih3
          have hent : ∀ x, Ent ({ a1 with nre := (nrePush (L, tmp) a1.nre).drop 1 } : ASt w) x → Ent a1 x := by
            intro x hx
            rcases hx with h | ⟨e', r', h1, h2, h3, h4⟩
            · exact hsub x h
            · rcases hsub _ h1 with g | ⟨e'', r'', g1, g2, g3, g4⟩
              · exact Or.inr ⟨e', r', g, h2, h3, h4⟩
              · simp only at g2 g3 h2 h3
                rw [h2] at g2
                cases g2
                rw [h3] at g3
                cases g3
                exact absurd h4 (Nat.lt_irrefl _)
          refine ⟨⟨ih1.1, ih1.2, ih1.3, ih1.4, ih1.5⟩, fun x hx => hent x (ih2 x hx), ?_⟩
          intro t ht
          rcases ih3 t ht with h | ⟨e', r', L', h1, h2, h3, h4, h5⟩
          · exact Or.inl h
          · exact Or.inr ⟨e', r', L', hent _ h1, h2, h3, h4, h5⟩
      · simp only [hle, if_false] at h
        rw [pure_ok] at h
        obtain ⟨rfl, rfl⟩ := h
        exact ⟨⟨rfl, rfl, rfl, rfl, rfl⟩, fun x hx => Or.inl hx, fun t ht => Or.inl ht⟩


/-- Step 3 as a relation: either nothing happens, or the computation `inst0 = op (tmp t) s0 s1` is moved to its
first use `f` (a store `mem[m] = tmp t`). -/
def FusePhase (i : Nat) (atf0 : List Nat) (inst0 : Instr w) (a : ASt w) (atf : List Nat) (aF : ASt w) : Prop :=
  (atf = atf0 ∧ aF = a) ∨
  ∃ op t s0 s1 r L f m src atf1 a1 a2 x,
    arith? inst0 = some (op, .tmp t, s0, s1) ∧ a.st.ranges[t]? = some r ∧ r.lastUse = some L ∧
    r.firstUse = some f ∧ a.st.insts[f]? = some (.copy (.mem m) src) ∧
    hasWriteInRange a.st m (f + 1) L = false ∧
    srcOk a i f s0 = .ok true ∧ srcOk a i f s1 = .ok true ∧
    fuseSrcP f atf0 s0 a = .ok (atf1, a1) ∧ fuseSrcP f atf1 s1 a1 = .ok (atf, a2) ∧
    (fuseSt a2 i t L f m inst0).st.insts[f]? = some x ∧
    aF = retarget (fuseSt a2 i t L f m inst0) f m x

def pushLive (a : ASt w) (live : Nat) : ASt w :=
  { a with st := { a.st with live := a.st.live.push live } }

theorem allocStep_ok {numRegs i : Nat} {a a' : ASt w} {u : Unit}
    (h : allocStep numRegs i a = .ok (u, a')) :
    ∃ atf0 a1 inst0 can atf aF cur new live,
      drainEnds i (2 * a.nre.length + 2) [] a = .ok (atf0, a1) ∧
      a1.st.insts[i]? = some inst0 ∧
      FusePhase i atf0 inst0 a1 atf aF ∧
      aF.st.insts[i]? = some cur ∧ rwInst aF.repl cur = .ok new ∧
      liveMask numRegs (atf.foldl (freeOne numRegs) (aF.setI i new)).freeRegs = .ok live ∧
      phDst i can (pushLive (atf.foldl (freeOne numRegs) (aF.setI i new)) live) = .ok (u, a') := by
  rw [allocStep_eqK] at h
  simp only [get_bind] at h
  rw [bind_ok] at h
  obtain ⟨atf0, a1, h1, h⟩ := h
  rw [bind_ok] at h
  obtain ⟨inst0, a1', h2, h⟩ := h
  rw [instAt_ok] at h2
  obtain ⟨hi0, rfl⟩ := h2
  obtain ⟨can, h⟩ := phCanK_ok h
  have key : ∀ atf aF, FusePhase i atf0 inst0 a1' atf aF →
      (phRewriteK i fun _ => do
            freeAll numRegs atf
            phLiveK numRegs fun _ => phDst i can) aF = .ok (u, a') →
      ∃ atf0 a1 inst0 can atf aF cur new live,
      drainEnds i (2 * a.nre.length + 2) [] a = .ok (atf0, a1) ∧
      a1.st.insts[i]? = some inst0 ∧
      FusePhase i atf0 inst0 a1 atf aF ∧
      aF.st.insts[i]? = some cur ∧ rwInst aF.repl cur = .ok new ∧
      liveMask numRegs (atf.foldl (freeOne numRegs) (aF.setI i new)).freeRegs = .ok live ∧
      phDst i can (pushLive (atf.foldl (freeOne numRegs) (aF.setI i new)) live) = .ok (u, a') := by
    intro atf aF hF h
    obtain ⟨cur, new, hc, hn, h⟩ := phRewriteK_ok h
    rw [bind_ok] at h
    obtain ⟨_, a5, h5, h⟩ := h
    rw [freeAll_eq] at h5
    cases h5
    obtain ⟨live, hl, h⟩ := phLiveK_ok h
    exact ⟨atf0, a1', inst0, can, atf, aF, cur, new, live, h1, hi0, hF, hc, hn, hl, h⟩
  rcases phFuseK_ok h with h | ⟨op, t, s0, s1, r, L, f, m, src, atf1, a1, atf, a2, x, e1, e2, e3, e4, e5, e6, e7, e8,
      e9, e10, e11, e12⟩
  · exact key atf0 a1' (Or.inl ⟨rfl, rfl⟩) h
  · rw [fuseSrc_eq] at e9 e10
    exact key atf _ (Or.inr ⟨op, t, s0, s1, r, L, f, m, src, atf1, a1, a2, x, e1, e2, e3, e4, e5, e6, e7, e8,
      e9, e10, e11, rfl⟩) e12

end Alloc
end C02
end Hpbf
