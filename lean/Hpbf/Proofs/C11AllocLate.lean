/-
C11 for the output of `allocate_temps`, part 5: the initialisation and liveness clauses survive the late passes
that keep the instruction positions (`parameter_reordering`, `zeroing_move_detection`).

`TmpSim x x'`: the instruction `x'` reads a subset of the temporaries `x` reads, writes the same temporaries and
has the same successors.  If every instruction of `p'` is `TmpSim` to the instruction of `p` at the same position
(and the `live` arrays agree), every solution accepted by `initOk` / `liveOk` for `p` is accepted for `p'`.
-/
import Hpbf.Proofs.C11AllocOk
import Hpbf.Proofs.C02Passes
set_option linter.unusedSimpArgs false

namespace Hpbf
namespace C02

open Bc BcWf BcGen C11

variable {w : Nat}

namespace Alloc

structure TmpSim (x x' : Instr w) : Prop where
  uses : ∀ t, t ∈ BcWf.uses x' → t ∈ BcWf.uses x
  defs : ∀ t, t ∈ BcWf.defs x' ↔ t ∈ BcWf.defs x
  branch : isBranch x' = isBranch x
  succs : ∀ n i, BcWf.succs n i x' = BcWf.succs n i x

theorem TmpSim.refl (x : Instr w) : TmpSim x x := ⟨fun _ h => h, fun _ => Iff.rfl, rfl, fun _ _ => rfl⟩

theorem TmpSim.trans {x y z : Instr w} (h1 : TmpSim x y) (h2 : TmpSim y z) : TmpSim x z :=
  ⟨fun t h => h1.uses t (h2.uses t h), fun t => (h2.defs t).trans (h1.defs t), h2.branch.trans h1.branch,
    fun n i => (h2.succs n i).trans (h1.succs n i)⟩

/-- Position-wise `TmpSim`. -/
def InstsSim (B B' : Array (Instr w)) : Prop :=
  B'.size = B.size ∧ ∀ (i : Nat) (x' : Instr w), B'[i]? = some x' → ∃ x, B[i]? = some x ∧ TmpSim x x'

theorem InstsSim.refl (B : Array (Instr w)) : InstsSim B B := ⟨rfl, fun _ x h => ⟨x, h, TmpSim.refl x⟩⟩

theorem InstsSim.trans {B1 B2 B3 : Array (Instr w)} (h1 : InstsSim B1 B2) (h2 : InstsSim B2 B3) :
    InstsSim B1 B3 := by
  refine ⟨h2.1.trans h1.1, ?_⟩
  intro i z hz
  obtain ⟨y, hy, s2⟩ := h2.2 i z hz
  obtain ⟨x, hx, s1⟩ := h1.2 i y hy
  exact ⟨x, hx, s1.trans s2⟩

theorem initFacts_of_sim {p p' : Program w} {I : Array (List Nat)} (h : InitFacts p I)
    (hs : InstsSim p.insts p'.insts) : InitFacts p' I := by
  refine ⟨h.size.trans hs.1.symm, h.entry, ?_, ?_⟩
  · intro i ins hi t ht
    obtain ⟨x, hx, sim⟩ := hs.2 i ins hi
    exact h.uses hx t (sim.uses t ht)
  · intro i ins hi
    obtain ⟨x, hx, sim⟩ := hs.2 i ins hi
    obtain ⟨ss, e, hf⟩ := h.flow hx
    refine ⟨ss, by rw [hs.1, sim.succs]; exact e, ?_⟩
    intro j hj t ht
    rcases hf j hj t ht with g | g
    · exact Or.inl g
    · exact Or.inr ((sim.defs t).2 g)

theorem liveFacts_of_sim {p p' : Program w} {numRegs : Nat} {O : Array (List Nat)} (h : LiveFacts p numRegs O)
    (hs : InstsSim p.insts p'.insts) (hl : p'.live = p.live) : LiveFacts p' numRegs O := by
  refine ⟨h.size.trans hs.1.symm, ?_, ?_⟩
  · intro i ins hi
    obtain ⟨x, hx, sim⟩ := hs.2 i ins hi
    obtain ⟨ss, e, hf⟩ := h.flow hx
    refine ⟨ss, by rw [hs.1, sim.succs]; exact e, ?_⟩
    intro j hj ij hij t ht
    obtain ⟨y, hy, simj⟩ := hs.2 j ij hij
    apply hf j hj y hy t
    rcases mem_liveIn.1 ht with g | ⟨g1, g2⟩
    · exact mem_liveIn.2 (Or.inl (simj.uses t g))
    · exact mem_liveIn.2 (Or.inr ⟨g1, fun hd => g2 ((simj.defs t).2 hd)⟩)
  · intro i ins hi hb t ht h1 h2
    obtain ⟨x, hx, sim⟩ := hs.2 i ins hi
    rw [hl]
    rcases h.declared hx (by rw [← sim.branch]; exact hb) t ht h1 h2 with g | g
    · exact Or.inl ((sim.defs t).2 g)
    · exact Or.inr g

theorem tempsBelow_of_sim {B B' : Array (Instr w)} {Tn : Nat} (h : TempsBelow B Tn) (hs : InstsSim B B') :
    TempsBelow B' Tn := by
  intro i q hq t ht
  obtain ⟨x, hx, sim⟩ := hs.2 i q hq
  exact h i x hx t (sim.uses t ht)

/-! ### `parameter_reordering` -/

theorem comm_uses (d a b : Loc w) {a' b' : Loc w} (h : reorderComm d a b = (a', b')) :
    ∀ t, t ∈ locTmp a' ++ locTmp b' → t ∈ locTmp a ++ locTmp b := by
  intro t ht
  rcases reorderComm_cases d a b with e | e <;> rw [e] at h <;> cases h
  · exact ht
  · simp only [List.mem_append] at ht ⊢; exact ht.symm

theorem tmpSim_reorderInst (x : Instr w) : TmpSim x (reorderInst x) := by
  cases x with
  | add d a b =>
    cases a <;> cases b <;> simp only [reorderInst] <;> (try split) <;>
      first
        | exact ⟨fun t h => comm_uses d _ _ rfl t h, fun t => Iff.rfl, rfl, fun _ _ => rfl⟩
        | exact ⟨fun t h => by simp [BcWf.uses, locTmp] at h, fun t => Iff.rfl, rfl, fun _ _ => rfl⟩
  | mul d a b =>
    cases a <;> cases b <;> simp only [reorderInst] <;> (try split) <;>
      first
        | exact ⟨fun t h => comm_uses d _ _ rfl t h, fun t => Iff.rfl, rfl, fun _ _ => rfl⟩
        | exact ⟨fun t h => by simp [BcWf.uses, locTmp] at h, fun t => Iff.rfl, rfl, fun _ _ => rfl⟩
  | sub d a b =>
    cases b with
    | imm c =>
      have key : ∀ a : Loc w, isImm a = false →
          TmpSim (.sub d a (.imm c)) (.add d (reorderComm d a (.imm (-c))).1 (reorderComm d a (.imm (-c))).2) := by
        intro a _
        refine ⟨fun t h => ?_, fun t => Iff.rfl, rfl, fun _ _ => rfl⟩
        have := comm_uses d a (.imm (-c)) rfl t h
        simp only [locTmp, List.append_nil] at this
        simp only [BcWf.uses, locTmp, List.append_nil]
        exact this
      cases a with
      | imm a0 =>
        simp only [reorderInst]
        exact ⟨fun t h => by simp [BcWf.uses, locTmp] at h, fun t => Iff.rfl, rfl, fun _ _ => rfl⟩
      | tmp i => simp only [reorderInst]; exact key _ rfl
      | mem o => simp only [reorderInst]; exact key _ rfl
      | memZero o => simp only [reorderInst]; exact key _ rfl
    | tmp i => cases a <;> exact TmpSim.refl _
    | mem o => cases a <;> exact TmpSim.refl _
    | memZero o => cases a <;> exact TmpSim.refl _
  | _ => exact TmpSim.refl _

theorem instsSim_parameterReordering (s : St w) : InstsSim s.insts (parameterReordering s).insts := by
  refine ⟨by simp [parameterReordering], ?_⟩
  intro i x' hx'
  simp only [parameterReordering, Array.getElem?_map, Option.map_eq_some_iff] at hx'
  obtain ⟨a, ha, rfl⟩ := hx'
  exact ⟨a, ha, tmpSim_reorderInst a⟩

/-! ### `zeroing_move_detection` -/

/-- The entries of `zerod` point to zeroing copies behind `i`. -/
def GoodZ (B : Array (Instr w)) (i : Nat) (Z : List (Int × Nat)) : Prop :=
  (Keys Z).Nodup ∧ ∀ m j, alGet Z m = some j → i < j ∧ B[j]? = some (.copy (.mem m) (.imm 0#w))

theorem GoodZ.erase {B : Array (Instr w)} {i : Nat} {Z : List (Int × Nat)} (h : GoodZ B i Z) (m : Int) :
    GoodZ B i (alErase Z m) :=
  ⟨nodup_alErase h.1 m, fun m' j hg => h.2 m' j (alGet_alErase_some h.1 hg).2⟩

theorem GoodZ.dstErase {B : Array (Instr w)} {i : Nat} {Z : List (Int × Nat)} (h : GoodZ B i Z) (d : Loc w) :
    GoodZ B i (dstErase Z d) := by
  cases d <;> first | exact h.erase _ | exact h

theorem zeroSrc_spec {B : Array (Instr w)} {i : Nat} {Z : List (Int × Nat)} (h : GoodZ B i Z) (l : Loc w) :
    locTmp (zeroSrc Z l).1 = locTmp l ∧ GoodZ B i (zeroSrc Z l).2.1 ∧
    ∀ j, (zeroSrc Z l).2.2 = some j → ∃ m, i < j ∧ B[j]? = some (.copy (.mem m) (.imm 0#w)) := by
  cases l with
  | mem m =>
    simp only [zeroSrc]
    cases hg : alGet Z m with
    | none => exact ⟨rfl, h, fun j hj => by cases hj⟩
    | some j0 =>
      refine ⟨rfl, h.erase m, ?_⟩
      intro j hj
      cases hj
      exact ⟨m, h.2 m j0 hg⟩
  | _ => exact ⟨rfl, h, fun j hj => by cases hj⟩

theorem tmpSim_zeroCopy (m : Int) (c : BitVec w) : TmpSim (.copy (.mem m) (.imm c) : Instr w) .noop :=
  ⟨(fun t h => by cases h), fun t => Iff.rfl, rfl, fun _ _ => rfl⟩

theorem tmpSim_copy (d : Loc w) {a a' : Loc w} (h : locTmp a' = locTmp a) : TmpSim (.copy d a) (.copy d a') :=
  ⟨fun t ht => by simp only [BcWf.uses] at ht ⊢; rw [← h]; exact ht, fun t => Iff.rfl, rfl, fun _ _ => rfl⟩

theorem tmpSim_mkArith (op : BcGen.Op) (d : Loc w) {a a' b b' : Loc w} (ha : locTmp a' = locTmp a)
    (hb : locTmp b' = locTmp b) : TmpSim (mkArith op d a b) (mkArith op d a' b') := by
  refine ⟨fun t ht => ?_, fun t => ?_, ?_, fun _ _ => ?_⟩
  · rw [uses_mkArith] at ht ⊢; rw [← ha, ← hb]; exact ht
  · rw [defs_mkArith, defs_mkArith]
  · cases op <;> rfl
  · cases op <;> rfl

theorem instsSim_set {B : Array (Instr w)} {i : Nat} {x x' : Instr w} (hi : B[i]? = some x) (h : TmpSim x x') :
    InstsSim B (B.setIfInBounds i x') := by
  refine ⟨by simp, ?_⟩
  intro k y hy
  rw [Array.getElem?_setIfInBounds] at hy
  by_cases e : i = k
  · subst e
    simp only [if_true] at hy
    split at hy
    · cases hy; exact ⟨x, hi, h⟩
    · cases hy
  · simp only [e, if_false] at hy
    exact ⟨y, hy, TmpSim.refl y⟩

theorem instsSim_blank {A : Array (Instr w)} {jo : Option Nat}
    (h : ∀ j, jo = some j → (∃ m c, A[j]? = some (.copy (.mem m) (.imm c))) ∨ A[j]? = some .noop) :
    InstsSim A (blank A jo) := by
  cases jo with
  | none => exact InstsSim.refl A
  | some j =>
    rw [blank_some]
    rcases h j rfl with ⟨m, c, hj⟩ | hj
    · exact instsSim_set hj (tmpSim_zeroCopy m c)
    · exact instsSim_set hj (TmpSim.refl _)

theorem getElem?_set_ne {A : Array (Instr w)} {i j : Nat} (x : Instr w) (h : i ≠ j) :
    (A.setIfInBounds i x)[j]? = A[j]? := by
  rw [Array.getElem?_setIfInBounds]; simp [h]

/-- One round of the pass keeps the temporaries of every position. -/
theorem zmdPair_sim {B : Array (Instr w)} {Z : List (Int × Nat)} {i : Nat} (hZ : GoodZ B i Z) {inst : Instr w}
    (hi : B[i]? = some inst) : InstsSim B (zmdPair i B Z inst).1 := by
  -- the array after rewriting `i` and blanking up to two remembered copies
  have two : ∀ (x' : Instr w) (j1 j0 : Option Nat), TmpSim inst x' →
      (∀ j, j1 = some j → ∃ m, i < j ∧ B[j]? = some (.copy (.mem m) (.imm 0#w))) →
      (∀ j, j0 = some j → ∃ m, i < j ∧ B[j]? = some (.copy (.mem m) (.imm 0#w))) →
      InstsSim B (blank (blank (B.setIfInBounds i x') j1) j0) := by
    intro x' j1 j0 hs h1 h0
    refine (instsSim_set hi hs).trans ((instsSim_blank ?_).trans (instsSim_blank ?_))
    · intro j hj
      obtain ⟨m, hlt, hb⟩ := h1 j hj
      left
      exact ⟨m, _, by rw [getElem?_set_ne _ (by omega)]; exact hb⟩
    · intro j hj
      obtain ⟨m, hlt, hb⟩ := h0 j hj
      cases j1 with
      | none =>
        left
        exact ⟨m, _, by rw [blank_none, getElem?_set_ne _ (by omega)]; exact hb⟩
      | some j1' =>
        rw [blank_some]
        by_cases e : j1' = j
        · right
          subst e
          rw [Array.getElem?_setIfInBounds]
          have hlt' : j1' < B.size := lt_of_getElem? hb
          simp [hlt']
        · left
          exact ⟨m, _, by rw [getElem?_set_ne _ e, getElem?_set_ne _ (by omega)]; exact hb⟩
  have one : ∀ (x' : Instr w) (j1 : Option Nat), TmpSim inst x' →
      (∀ j, j1 = some j → ∃ m, i < j ∧ B[j]? = some (.copy (.mem m) (.imm 0#w))) →
      InstsSim B (blank (B.setIfInBounds i x') j1) :=
    fun x' j1 hs h1 => two x' j1 none hs h1 (fun j hj => by cases hj)
  have arith : ∀ (op : BcGen.Op) (d s0 s1 : Loc w), inst = mkArith op d s0 s1 →
      InstsSim B (blank (blank (B.setIfInBounds i (mkArith op d
          (zeroSrc (zeroSrc (dstErase Z d) s1).2.1 s0).1 (zeroSrc (dstErase Z d) s1).1))
        (zeroSrc (dstErase Z d) s1).2.2) (zeroSrc (zeroSrc (dstErase Z d) s1).2.1 s0).2.2) := by
    intro op d s0 s1 e
    obtain ⟨a1, a2, a3⟩ := zeroSrc_spec (hZ.dstErase d) s1
    obtain ⟨b1, b2, b3⟩ := zeroSrc_spec a2 s0
    exact two _ _ _ (by rw [e]; exact tmpSim_mkArith op d b1 a1) a3 b3
  cases inst with
  | noop => exact InstsSim.refl B
  | brz c off => exact InstsSim.refl B
  | brnz c off => exact InstsSim.refl B
  | mov sh => exact InstsSim.refl B
  | scan c sh => exact InstsSim.refl B
  | out o => exact InstsSim.refl B
  | inp o => exact InstsSim.refl B
  | copy d src =>
    cases src with
    | imm c =>
      have : (zmdPair i B Z (.copy d (.imm c))).1 = blank (B.setIfInBounds i (.copy d (.imm c))) none := by
        simp only [zmdPair, zeroSrc]
      rw [this]
      exact one _ none (TmpSim.refl _) (fun j hj => by cases hj)
    | tmp ts =>
      have : (zmdPair i B Z (.copy d (.tmp ts))).1 = blank (B.setIfInBounds i (.copy d (.tmp ts))) none := by
        simp only [zmdPair, zeroSrc]
      rw [this]
      exact one _ none (TmpSim.refl _) (fun j hj => by cases hj)
    | memZero o =>
      have : (zmdPair i B Z (.copy d (.memZero o))).1 = blank (B.setIfInBounds i (.copy d (.memZero o))) none := by
        simp only [zmdPair, zeroSrc]
      rw [this]
      exact one _ none (TmpSim.refl _) (fun j hj => by cases hj)
    | mem o =>
      have hform : (zmdPair i B Z (.copy d (.mem o))).1 =
          blank (B.setIfInBounds i (.copy d (zeroSrc (dstErase Z d) (.mem o : Loc w)).1))
            (zeroSrc (dstErase Z d) (.mem o : Loc w)).2.2 := by
        simp only [zmdPair]
        cases d <;> rfl
      rw [hform]
      obtain ⟨a1, a2, a3⟩ := zeroSrc_spec (hZ.dstErase d) (.mem o)
      exact one _ _ (tmpSim_copy d a1) a3
  | add d s0 s1 =>
    have hform : (zmdPair i B Z (.add d s0 s1)).1 = blank (blank (B.setIfInBounds i (mkArith .add d
          (zeroSrc (zeroSrc (dstErase Z d) s1).2.1 s0).1 (zeroSrc (dstErase Z d) s1).1))
        (zeroSrc (dstErase Z d) s1).2.2) (zeroSrc (zeroSrc (dstErase Z d) s1).2.1 s0).2.2 := by
      simp only [zmdPair, arith?]
      cases d <;> rfl
    rw [hform]
    exact arith .add d s0 s1 rfl
  | sub d s0 s1 =>
    have hform : (zmdPair i B Z (.sub d s0 s1)).1 = blank (blank (B.setIfInBounds i (mkArith .sub d
          (zeroSrc (zeroSrc (dstErase Z d) s1).2.1 s0).1 (zeroSrc (dstErase Z d) s1).1))
        (zeroSrc (dstErase Z d) s1).2.2) (zeroSrc (zeroSrc (dstErase Z d) s1).2.1 s0).2.2 := by
      simp only [zmdPair, arith?]
      cases d <;> rfl
    rw [hform]
    exact arith .sub d s0 s1 rfl
  | mul d s0 s1 =>
    have hform : (zmdPair i B Z (.mul d s0 s1)).1 = blank (blank (B.setIfInBounds i (mkArith .mul d
          (zeroSrc (zeroSrc (dstErase Z d) s1).2.1 s0).1 (zeroSrc (dstErase Z d) s1).1))
        (zeroSrc (dstErase Z d) s1).2.2) (zeroSrc (zeroSrc (dstErase Z d) s1).2.1 s0).2.2 := by
      simp only [zmdPair, arith?]
      cases d <;> rfl
    rw [hform]
    exact arith .mul d s0 s1 rfl

theorem goodZ_of_sound {tg : Array Bool} {B : Array (Instr w)} {Z : List (Int × Nat)} {i : Nat}
    (h : ZSound tg (i + 1) B Z) : GoodZ B i Z :=
  ⟨h.nodup, fun m j hg => by
    obtain ⟨h1, h2, _⟩ := h.sound m j hg
    exact ⟨h1, h2⟩⟩

theorem zmdLoop_sim : ∀ (k : Nat) (s : St w) (Z : List (Int × Nat)), k ≤ s.insts.size →
    ZState s.isTarget k s.insts Z → ∀ s', zmdLoop k s Z = .ok s' → InstsSim s.insts s'.insts := by
  intro k
  induction k with
  | zero =>
    intro s Z _ _ s' h
    simp only [zmdLoop, Except.ok.injEq] at h
    subst h
    exact InstsSim.refl _
  | succ i ih =>
    intro s Z hk hI s' h
    have hilt : i < s.insts.size := by omega
    have hi : s.insts[i]? = some s.insts[i] := Array.getElem?_eq_getElem hilt
    have htlt : i < s.isTarget.size := by rw [hI.glob.tgsize]; omega
    have ht : s.isTarget[i]? = some s.isTarget[i] := Array.getElem?_eq_getElem htlt
    obtain ⟨_, hI'⟩ := zmdPair_spec hI hi ht
    have hsim := zmdPair_sim (goodZ_of_sound hI.sound) hi
    have hstep : zmdStep i s Z = .ok ({ s with insts := (zmdPair i s.insts Z s.insts[i]).1 },
        if s.isTarget[i] then [] else (zmdPair i s.insts Z s.insts[i]).2) := by
      rw [zmdStep_eq]
      simp only [hi, ht]
    rw [zmdLoop, hstep] at h
    have := ih { s with insts := (zmdPair i s.insts Z s.insts[i]).1 } _
      (by show i ≤ (zmdPair i s.insts Z s.insts[i]).1.size; rw [hsim.1]; omega) hI' s' h
    exact hsim.trans this

/-- `zeroing_move_detection` keeps, at every position, the temporaries read and written. -/
theorem zeroingMoveDetection_sim (s : St w) (h : ZmdPre s) {s' : St w} (hz : zeroingMoveDetection s = .ok s') :
    InstsSim s.insts s'.insts ∧ s'.live = s.live := by
  have hI : ZState s.isTarget s.insts.size s.insts [] :=
    ⟨h.glob, ZSound.nil _ _ _, fun x ins _ hx => h.noZero ins (Array.mem_of_getElem? hx)⟩
  refine ⟨zmdLoop_sim s.insts.size s [] (Nat.le_refl _) hI s' hz, ?_⟩
  obtain ⟨s'', h1, h2, _⟩ := zeroingMoveDetection_preserves_of_pre s h
  rw [hz] at h1
  cases h1
  exact h2

end Alloc
end C02
end Hpbf
