/-
Totality of the optimizer model, part: `gatherForEmit` (the DFS over the `reverse` edges).

`gatherForEmit_safe`: on a well-formed state, `gatherForEmit` never fails with a panic or a fuel error (for EVERY
oracle), and some oracle makes it succeed.

The fuel argument: fix the universe `K` of visitable variables (pending keys and the roots); every recursive call
visits a variable of `K` not visited before, so the number `mu K visited` of unvisited elements of `K` strictly
decreases along the recursion; it is at most `K.length`, which is below the fuel.
-/
import Hpbf.Proofs.OptTotalDefs
import Hpbf.Proofs.OptRbDfs

namespace Hpbf
namespace OptTotal
open Opt OptProof OptSem

variable {w : Nat} {α β γ : Type}

/-! ### general rules -/

/-- `Safe.foldlM` and `foldlM_post` together. -/
theorem foldlM_safe_post (Inv : β → Prop) (f : β → γ → M β) (l : List γ)
    (hstep : ∀ b x, x ∈ l → Inv b →
      Safe (f b x) ∧ ∀ os b' os', (f b x).run os = .ok (b', os') → Inv b') {b : β} (h0 : Inv b) :
    Safe (l.foldlM f b) ∧ ∀ os b' os', (l.foldlM f b).run os = .ok (b', os') → Inv b' :=
  ⟨Safe.foldlM Inv f l hstep h0,
   fun _ _ _ hr => foldlM_post Inv f l (fun b x hx hi => (hstep b x hx hi).2) h0 hr⟩

/-- A successfully taken order consists of elements of `next`. -/
theorem takeOrder_sub {var : Int} {next : List Int} {os : Orders} {order : List Int} {os' : Orders}
    (h : (takeOrder var next).run os = .ok (order, os')) : ∀ u ∈ order, u ∈ next := by
  simp only [takeOrder, StateT.run] at h
  split at h
  · cases h
  · split at h
    · cases h
    · split at h
      · rename_i hc
        cases h
        simp only [Bool.and_eq_true, List.all_eq_true, List.contains_iff_mem] at hc
        exact hc.2
      · cases h

/-! ### the measure -/

/-- The number of not yet visited elements of `K`. -/
def mu (K : List Int) (vis : List (Int × Nat)) : Nat := (K.filter (fun k => (mGet vis k).isNone)).length

theorem mu_le_length (K : List Int) (vis : List (Int × Nat)) : mu K vis ≤ K.length :=
  List.length_filter_le _ _

theorem mu_mono (K : List Int) {v v' : List (Int × Nat)}
    (h : ∀ k, (mGet v k).isSome → (mGet v' k).isSome) : mu K v' ≤ mu K v := by
  unfold mu
  induction K with
  | nil => simp
  | cons a K ih =>
    simp only [List.filter_cons]
    cases h1 : mGet v a with
    | none =>
      cases h2 : mGet v' a with
      | none => simp only [Option.isNone_none, if_true, List.length_cons]; omega
      | some x => simp only [Option.isNone_none, Option.isNone_some, if_true, List.length_cons]; simp; omega
    | some y =>
      have := h a (by rw [h1]; rfl)
      cases h2 : mGet v' a with
      | none => rw [h2] at this; cases this
      | some x => simpa using ih

theorem mu_visit (K : List Int) {v v' : List (Int × Nat)} {var : Int} (hK : var ∈ K)
    (h0 : mGet v var = none) (h : ∀ k, (mGet v k).isSome → (mGet v' k).isSome)
    (h1 : (mGet v' var).isSome) : mu K v' + 1 ≤ mu K v := by
  induction K with
  | nil => cases hK
  | cons a K ih =>
    by_cases ha : a = var
    · subst ha
      have hm := mu_mono K h
      unfold mu at hm ⊢
      simp only [List.filter_cons, h0, Option.isNone_none, if_true, List.length_cons]
      cases h2 : mGet v' a with
      | none => rw [h2] at h1; cases h1
      | some x => simp; omega
    · have hK' : var ∈ K := by
        rcases List.mem_cons.1 hK with e | e
        · exact absurd e.symm ha
        · exact e
      have := ih hK'
      unfold mu at this ⊢
      simp only [List.filter_cons]
      cases h3 : mGet v a with
      | none =>
        cases h2 : mGet v' a with
        | none => simp only [Option.isNone_none, if_true, List.length_cons]; omega
        | some x => simp only [Option.isNone_none, Option.isNone_some, if_true, List.length_cons]; simp; omega
      | some y =>
        have h4 := h a (by rw [h3]; rfl)
        cases h2 : mGet v' a with
        | none => rw [h2] at h4; cases h4
        | some x => simpa using this

/-! ### the invariant and the step relation -/

/-- The state is well-formed and its pending keys are in the universe. -/
def DInv (K : List Int) (d : Dfs w) : Prop := Wf d.s ∧ ∀ k, k ∈ mKeys d.s.pending → k ∈ K

/-- What a piece of the DFS does to the record. -/
def DStep (K : List Int) (d d' : Dfs w) : Prop :=
  DInv K d' ∧ (∀ k, (mGet d.visited k).isSome → (mGet d'.visited k).isSome) ∧ d.stack.length ≤ d'.stack.length

theorem DStep.refl {K : List Int} {d : Dfs w} (h : DInv K d) : DStep K d d :=
  ⟨h, fun _ h => h, Nat.le_refl _⟩

theorem DStep.trans {K : List Int} {a b c : Dfs w} (h1 : DStep K a b) (h2 : DStep K b c) : DStep K a c :=
  ⟨h2.1, fun k h => h2.2.1 k (h1.2.1 k h), Nat.le_trans h1.2.2 h2.2.2⟩

theorem dfsEnter_vis (d : Dfs w) (var : Int) (k : Int) (h : (mGet d.visited k).isSome) :
    (mGet (dfsEnter d var).visited k).isSome := by
  show (mGet (mSet d.visited var d.index) k).isSome
  rw [mGet_mSet]
  split
  · rfl
  · exact h

theorem dfsEnter_self (d : Dfs w) (var : Int) : (mGet (dfsEnter d var).visited var).isSome := by
  show (mGet (mSet d.visited var d.index) var).isSome
  rw [mGet_mSet_same]; rfl

/-- The users of a variable are pending keys. -/
theorem users_in_K {K : List Int} {d : Dfs w} (h : DInv K d) {var : Int} {next : List Int}
    (hr : mGet d.s.reverse var = some next) {n : Int} (hn : n ∈ next) : n ∈ K := by
  obtain ⟨_, e, he, _⟩ := (h.1.revOk var n).1 ⟨next, hr, hn⟩
  apply h.2
  rw [← mGet_isSome_iff, he]; rfl

/-! ### `popComp` -/

theorem popComp_total (stackLen : Nat) : ∀ (stack : List Int) (s : Rebuild w) (comp : List (Int × Expr w)),
    stackLen ≤ stack.length → Wf s →
    ∃ s' stack' comp', popComp stackLen stack s comp = .ok (s', stack', comp') ∧ Wf s' ∧
      (∀ k, k ∈ mKeys s'.pending → k ∈ mKeys s.pending) ∧ stack'.length = stackLen := by
  intro stack
  induction stack with
  | nil =>
    intro s comp hl hwf
    have h0 : stackLen = 0 := by simpa using hl
    subst h0
    exact ⟨s, [], comp, by rw [popComp]; rfl, hwf, fun k h => h, rfl⟩
  | cons var rest ih =>
    intro s comp hl hwf
    rw [popComp]
    by_cases h0 : ((var :: rest).length == stackLen) = true
    · rw [if_pos h0]
      exact ⟨s, var :: rest, comp, rfl, hwf, fun k h => h, by simpa using h0⟩
    · rw [if_neg h0]
      have hl' : stackLen ≤ rest.length := by
        simp only [List.length_cons, beq_iff_eq] at h0 hl
        omega
      have hwf1 := removePending_wf hwf var
      have hp := removePending_pending hwf var
      have hsub : ∀ k, k ∈ mKeys (removePending s var).1.pending → k ∈ mKeys s.pending := by
        intro k hk
        rw [hp] at hk
        obtain ⟨kv, hkv, e⟩ := List.mem_map.1 hk
        exact List.mem_map.2 ⟨kv, mem_keys_mErase_sub _ _ _ hkv, e⟩
      cases hrp : removePending s var with
      | mk s1 o =>
        rw [hrp] at hwf1 hsub
        cases o with
        | none =>
          obtain ⟨s', st', c', h1, h2, h3, h4⟩ := ih s1 comp hl' hwf1
          exact ⟨s', st', c', h1, h2, fun k hk => hsub k (h3 k hk), h4⟩
        | some ex =>
          obtain ⟨s', st', c', h1, h2, h3, h4⟩ := ih s1 (comp ++ [(var, ex)]) hl' hwf1
          exact ⟨s', st', c', h1, h2, fun k hk => hsub k (h3 k hk), h4⟩

/-! ### one call of `gatherToEmitDfs` -/

/-- The statement proved by induction on the fuel. -/
def DfsOk (K : List Int) (fuel : Nat) : Prop :=
  ∀ (d : Dfs w) (var : Int), DInv K d → var ∈ K → mGet d.visited var = none → mu K d.visited ≤ fuel →
    Safe (gatherToEmitDfs fuel d var) ∧
    ∀ os r os', (gatherToEmitDfs fuel d var).run os = .ok (r, os') →
      DStep K d r.1 ∧ (mGet r.1.visited var).isSome

theorem dfsStep_ok {K : List Int} {fuel : Nat} (ih : DfsOk (w := w) K fuel) {d0 : Dfs w} {acc : Dfs w × Nat}
    {n : Int} (hI : DStep K d0 acc.1) (hn : n ∈ K) (hmu : mu K d0.visited ≤ fuel) :
    Safe (dfsStep fuel acc n) ∧
    ∀ os r os', (dfsStep fuel acc n).run os = .ok (r, os') → DStep K d0 r.1 := by
  unfold dfsStep
  cases hv : mGet acc.1.visited n with
  | some v =>
    simp only
    refine ⟨Safe.pure _, fun os r os' h => ?_⟩
    rw [run_pure] at h
    cases h
    exact hI
  | none =>
    simp only
    obtain ⟨hs, hp⟩ := ih acc.1 n hI.1 hn hv (Nat.le_trans (mu_mono K hI.2.1) hmu)
    refine ⟨hs.bind (fun _ _ _ _ => Safe.pure _), fun os r os' h => ?_⟩
    rw [run_bind_ok] at h
    obtain ⟨a, os1, h1, h2⟩ := h
    rw [run_pure] at h2
    cases h2
    exact hI.trans (hp os a _ h1).1

theorem dfsLoop_ok {K : List Int} {fuel : Nat} (ih : DfsOk (w := w) K fuel) {d : Dfs w} {var : Int}
    (hd : DInv K d) (hK : var ∈ K) (h0 : mGet d.visited var = none) (hmu : mu K d.visited ≤ fuel + 1) :
    Safe (dfsLoop fuel d var) ∧
    ∀ os p os', (dfsLoop fuel d var).run os = .ok (p, os') → DStep K (dfsEnter d var) p.1 := by
  have hd0 : DInv K (dfsEnter d var) := hd
  have hmu0 : mu K (dfsEnter d var).visited ≤ fuel := by
    have := mu_visit K hK h0 (dfsEnter_vis d var) (dfsEnter_self d var)
    omega
  unfold dfsLoop
  cases hr : mGet d.s.reverse var with
  | none =>
    simp only
    refine ⟨Safe.pure _, fun os p os' h => ?_⟩
    rw [run_pure] at h
    cases h
    exact DStep.refl hd0
  | some next =>
    simp only
    have hfold : ∀ order : List Int, (∀ u ∈ order, u ∈ next) →
        Safe (order.foldlM (dfsStep fuel) (dfsEnter d var, d.index)) ∧
        ∀ os b' os', (order.foldlM (dfsStep fuel) (dfsEnter d var, d.index)).run os = .ok (b', os') →
          DStep K (dfsEnter d var) b'.1 := by
      intro order hsub
      exact foldlM_safe_post (fun acc : Dfs w × Nat => DStep K (dfsEnter d var) acc.1) (dfsStep fuel) order
        (fun b x hx hi => dfsStep_ok ih hi (users_in_K hd hr (hsub x hx)) hmu0) (DStep.refl hd0)
    refine ⟨(takeOrder_safe var next).bind (fun order os os' h => (hfold order (takeOrder_sub h)).1),
      fun os p os' h => ?_⟩
    rw [run_bind_ok] at h
    obtain ⟨order, os1, h1, h2⟩ := h
    exact (hfold order (takeOrder_sub h1)).2 os1 p os' h2

theorem dfsFinish_ok {K : List Int} {d : Dfs w} {var : Int} {p : Dfs w × Nat}
    (hp : DStep K (dfsEnter d var) p.1) :
    Safe (dfsFinish d.stack.length d.index var p) ∧
    ∀ os r os', (dfsFinish d.stack.length d.index var p).run os = .ok (r, os') →
      DStep K d r.1 ∧ (mGet r.1.visited var).isSome := by
  have hvis : ∀ k, (mGet d.visited k).isSome → (mGet p.1.visited k).isSome :=
    fun k h => hp.2.1 k (dfsEnter_vis d var k h)
  have hself : (mGet p.1.visited var).isSome := hp.2.1 var (dfsEnter_self d var)
  have hlen : d.stack.length ≤ p.1.stack.length := hp.2.2
  unfold dfsFinish
  split
  · obtain ⟨s', st', c', h1, h2, h3, h4⟩ :=
      popComp_total d.stack.length (var :: p.1.stack) p.1.s [] (by simp only [List.length_cons]; omega) hp.1.1
    refine ⟨(Safe.liftM ⟨_, h1⟩).bind (fun _ _ _ _ => Safe.pure _), fun os r os' h => ?_⟩
    rw [run_bind_ok] at h
    obtain ⟨a, os1, ha, hb⟩ := h
    rw [h1, run_lift] at ha
    cases ha
    rw [run_pure] at hb
    cases hb
    exact ⟨⟨⟨h2, fun k hk => hp.1.2 k (h3 k hk)⟩, hvis, Nat.le_of_eq h4.symm⟩, hself⟩
  · refine ⟨Safe.pure _, fun os r os' h => ?_⟩
    rw [run_pure] at h
    cases h
    exact ⟨⟨hp.1, hvis, by simp only [List.length_cons]; omega⟩, hself⟩

theorem dfs_ok (K : List Int) : ∀ fuel, DfsOk (w := w) K fuel := by
  intro fuel
  induction fuel with
  | zero =>
    intro d var _ hK h0 hmu
    have := mu_visit K hK h0 (dfsEnter_vis d var) (dfsEnter_self d var)
    omega
  | succ fuel ih =>
    intro d var hd hK h0 hmu
    obtain ⟨hs, hp⟩ := dfsLoop_ok ih hd hK h0 hmu
    rw [dfs_unfold]
    refine ⟨hs.bind (fun p os os' h => (dfsFinish_ok (hp os p os' h)).1), fun os r os' h => ?_⟩
    rw [run_bind_ok] at h
    obtain ⟨p, os1, h1, h2⟩ := h
    exact (dfsFinish_ok (hp os p os1 h1)).2 os1 r os' h2

/-! ### `gatherForEmit` -/

theorem gatherForEmit_safe {w : Nat} {s : Rebuild w} (hwf : Wf s) (emit : List Int) :
    Safe (gatherForEmit s emit) := by
  unfold gatherForEmit
  split
  · exact Safe.pure _
  · simp only
    have hfuel : ∀ vis : List (Int × Nat),
        mu (mKeys s.pending ++ emit) vis ≤ s.pending.length + s.reverse.length + emit.length + 1 := by
      intro vis
      have h1 := mu_le_length (mKeys s.pending ++ emit) vis
      have h2 : (mKeys s.pending ++ emit).length = s.pending.length + emit.length := by
        simp only [List.length_append, mKeys, List.length_map]
      omega
    refine Safe.bind (Safe.foldlM (fun d : Dfs w => DInv (mKeys s.pending ++ emit) d) _ emit ?_
      (b := { s := s, index := 0, visited := [], stack := [], comps := [] }) ?_) (fun _ _ _ _ => Safe.pure _)
    · intro d var hvar hd
      split
      · rename_i hc
        have h0 : mGet d.visited var = none := by
          rw [← mHas_false_iff]; simpa using hc
        have hd' : DInv (mKeys s.pending ++ emit) { d with index := 0 } := hd
        obtain ⟨hs, hp⟩ := dfs_ok (w := w) (mKeys s.pending ++ emit) _ { d with index := 0 } var hd'
          (List.mem_append_right _ hvar) h0 (hfuel _)
        refine ⟨hs.bind (fun a _ _ _ => ?_), fun os b' os' h => ?_⟩
        · obtain ⟨d', r⟩ := a
          exact Safe.pure _
        · rw [run_bind_ok] at h
          obtain ⟨a, os1, h1, h2⟩ := h
          obtain ⟨d', r⟩ := a
          rw [run_pure] at h2
          cases h2
          exact (hp os _ _ h1).1.1
      · refine ⟨Safe.pure _, fun os b' os' h => ?_⟩
        rw [run_pure] at h
        cases h
        exact hd
    · exact ⟨hwf, fun k hk => List.mem_append_left _ hk⟩

end OptTotal
end Hpbf

#print axioms Hpbf.OptTotal.gatherForEmit_safe
