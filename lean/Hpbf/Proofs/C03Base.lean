/-
C03, shared toolkit: the simulation relation between bytecode configurations and machine states, the
"temporaries view" of a machine state (`tmpVal` / `setTmp`), and the rewrite rules that execute the
instruction forms of `JitGen` symbolically.
-/
import Hpbf.X86Sem
import Hpbf.JitGen

namespace Hpbf
namespace C03

open Asm JitGen X86Sem

variable {w : Nat}

/-! ### The relation -/

/-- The low `w` bits of a 64-bit value. -/
def lo (v : BitVec 64) : BitVec w := v.setWidth w

/-- Bytecode configuration `c` and machine state `m` agree: every register temporary (low `w` bits of
its register), every stack temporary (low `w` bits of its slot), every tape cell (offsets relative to the
pointer = indices relative to `rbp`). -/
def Rel (c : Bc.Cfg w) (m : MState w) : Prop :=
  (∀ t r, tmpReg t = some r → lo (m.regs r) = Bc.tget c.temps t) ∧
  (∀ t, 11 ≤ t → lo (m.stack t) = Bc.tget c.temps t) ∧
  (∀ o, m.tape o = c.st.rd o)

/-- Agreement after an instruction with live bitmap `live` and destination `d`: as `Rel`, except that a
REGISTER temporary that is neither declared live nor the destination may hold anything (the selector may
have used it as scratch: `canScratch`). -/
def Rel' (live : Nat) (d : Bc.Loc w) (c : Bc.Cfg w) (m : MState w) : Prop :=
  (∀ t r, tmpReg t = some r → (live.testBit t = true ∨ d = .tmp t) →
    lo (m.regs r) = Bc.tget c.temps t) ∧
  (∀ t, 11 ≤ t → lo (m.stack t) = Bc.tget c.temps t) ∧
  (∀ o, m.tape o = c.st.rd o)

/-- Operand ranges: offsets and temporary numbers are values of `i32` (so that `idx as i32`, `tmp as i32`
in `mem_param`/`tmp_param` do not wrap). -/
def LocOk : Bc.Loc w → Prop
  | .mem idx => -2147483648 ≤ idx ∧ idx < 2147483648
  | .memZero _ => True
  | .tmp t => t < 2147483648
  | .imm _ => True

/-- Value of a source operand that is not `memZero`. -/
def rv (c : Bc.Cfg w) : Bc.Loc w → BitVec w
  | .mem off => c.st.rd off
  | .memZero off => c.st.rd off
  | .tmp i => Bc.tget c.temps i
  | .imm v => v

/-- The code `xs` run from `m` ends in a state related to `c'`, with the frame registers intact. -/
def Sim (live : Nat) (d : Bc.Loc w) (c' : Bc.Cfg w) (m : MState w) (xs : List X86) : Prop :=
  ∃ m', execAll xs m = some m' ∧ Rel' live d c' m' ∧
    m'.regs .rbx = m.regs .rbx ∧ m'.regs .rbp = m.regs .rbp ∧ m'.regs .rsp = m.regs .rsp

/-! ### Integers -/

theorem i32_eq {x : Int} (h1 : -2147483648 ≤ x) (h2 : x < 2147483648) : i32 x = x := by
  have e : (2 : Int) ^ 32 = 4294967296 := by decide
  simp only [i32, wrapS, e]
  split <;> omega

theorem i32_nat {t : Nat} (h : t < 2147483648) : i32 (t : Int) = t :=
  i32_eq (by omega) (by omega)

/-! ### Registers of temporaries -/

/-- The register of a register temporary (`rax` for the others). -/
def treg (t : Nat) : Reg := (tmpReg t).getD .rax

theorem tmpReg_lt {t : Nat} (h : t < 11) : tmpReg t = some (treg t) := by
  have : t = 0 ∨ t = 1 ∨ t = 2 ∨ t = 3 ∨ t = 4 ∨ t = 5 ∨ t = 6 ∨ t = 7 ∨ t = 8 ∨ t = 9 ∨ t = 10 := by
    omega
  rcases this with h | h | h | h | h | h | h | h | h | h | h <;> subst h <;> rfl

theorem tmpReg_ge {t : Nat} (h : 11 ≤ t) : tmpReg t = none := by
  unfold tmpReg
  split <;> first | omega | rfl

theorem tmpReg_eq_none {t : Nat} : tmpReg t = none ↔ 11 ≤ t := by
  constructor
  · intro h
    by_cases h' : t < 11
    · rw [tmpReg_lt h'] at h; cases h
    · omega
  · exact tmpReg_ge

theorem tmpReg_eq_some {t : Nat} {r : Reg} : tmpReg t = some r ↔ t < 11 ∧ r = treg t := by
  constructor
  · intro h
    by_cases h' : t < 11
    · rw [tmpReg_lt h'] at h; cases h; exact ⟨h', rfl⟩
    · rw [tmpReg_ge (by omega)] at h; cases h
  · rintro ⟨h, rfl⟩; exact tmpReg_lt h

theorem treg_inj {t t' : Nat} (h : t < 11) (h' : t' < 11) : treg t = treg t' ↔ t = t' := by
  constructor
  · intro e
    have : t = 0 ∨ t = 1 ∨ t = 2 ∨ t = 3 ∨ t = 4 ∨ t = 5 ∨ t = 6 ∨ t = 7 ∨ t = 8 ∨ t = 9 ∨ t = 10 := by
      omega
    have : t' = 0 ∨ t' = 1 ∨ t' = 2 ∨ t' = 3 ∨ t' = 4 ∨ t' = 5 ∨ t' = 6 ∨ t' = 7 ∨ t' = 8 ∨ t' = 9 ∨
        t' = 10 := by omega
    rcases ‹t = 0 ∨ _› with h | h | h | h | h | h | h | h | h | h | h <;> subst h <;>
    rcases ‹t' = 0 ∨ _› with h | h | h | h | h | h | h | h | h | h | h <;> subst h <;>
    first | rfl | (exact absurd e (by decide))
  · rintro rfl; rfl

theorem treg_ne {t : Nat} (h : t < 11) :
    treg t ≠ .rax ∧ treg t ≠ .rcx ∧ treg t ≠ .rbx ∧ treg t ≠ .rsp ∧ treg t ≠ .rbp := by
  have : t = 0 ∨ t = 1 ∨ t = 2 ∨ t = 3 ∨ t = 4 ∨ t = 5 ∨ t = 6 ∨ t = 7 ∨ t = 8 ∨ t = 9 ∨ t = 10 := by
    omega
  rcases this with h | h | h | h | h | h | h | h | h | h | h <;> subst h <;> decide

/-! ### The temporaries view of a machine state -/

def tmpPlace (t : Nat) : Place :=
  match tmpReg t with | some r => .reg r | none => .slot t

def tmpVal (m : MState w) (t : Nat) : BitVec 64 :=
  match tmpReg t with | some r => m.regs r | none => m.stack t

def setTmp (m : MState w) (t : Nat) (v : BitVec 64) : MState w :=
  match tmpReg t with | some r => m.setReg r v | none => m.setSlot t v

theorem regs_treg (m : MState w) {t : Nat} (h : t < 11) : m.regs (treg t) = tmpVal m t := by
  simp [tmpVal, tmpReg_lt h]

theorem setReg_treg (m : MState w) {t : Nat} (h : t < 11) (v : BitVec 64) :
    m.setReg (treg t) v = setTmp m t v := by
  simp [setTmp, tmpReg_lt h]

theorem tmpVal_setTmp (m : MState w) (t t' : Nat) (v : BitVec 64) :
    tmpVal (setTmp m t v) t' = if t' = t then v else tmpVal m t' := by
  unfold tmpVal setTmp
  by_cases h : t < 11 <;> by_cases h' : t' < 11
  · simp only [tmpReg_lt h, tmpReg_lt h', MState.setReg, treg_inj h' h]
  · simp only [tmpReg_lt h, tmpReg_ge (Nat.le_of_not_lt h'), MState.setReg]
    split
    · omega
    · rfl
  · simp only [tmpReg_lt h', tmpReg_ge (Nat.le_of_not_lt h), MState.setSlot]
    split
    · omega
    · rfl
  · simp only [tmpReg_ge (Nat.le_of_not_lt h), tmpReg_ge (Nat.le_of_not_lt h'), MState.setSlot]

theorem tmpVal_setReg_rax (m : MState w) (t : Nat) (v : BitVec 64) :
    tmpVal (m.setReg .rax v) t = tmpVal m t := by
  unfold tmpVal
  by_cases h : t < 11
  · simp only [tmpReg_lt h, MState.setReg, (treg_ne h).1, if_false]
  · simp only [tmpReg_ge (Nat.le_of_not_lt h), MState.setReg]

theorem tmpVal_setReg_rcx (m : MState w) (t : Nat) (v : BitVec 64) :
    tmpVal (m.setReg .rcx v) t = tmpVal m t := by
  unfold tmpVal
  by_cases h : t < 11
  · simp only [tmpReg_lt h, MState.setReg, (treg_ne h).2.1, if_false]
  · simp only [tmpReg_ge (Nat.le_of_not_lt h), MState.setReg]

@[simp] theorem tmpVal_setCell (m : MState w) (t : Nat) (i : Int) (v : BitVec w) :
    tmpVal (m.setCell i v) t = tmpVal m t := rfl
@[simp] theorem tmpVal_setFlags (m : MState w) (t : Nat) (z c : Option Bool) :
    tmpVal (m.setFlags z c) t = tmpVal m t := rfl

theorem regs_setTmp (m : MState w) (t : Nat) (v : BitVec 64) {r : Reg}
    (hr : r = .rax ∨ r = .rcx ∨ r = .rbx ∨ r = .rsp ∨ r = .rbp) :
    (setTmp m t v).regs r = m.regs r := by
  unfold setTmp
  by_cases h : t < 11
  · have := treg_ne h
    simp only [tmpReg_lt h, MState.setReg]
    split
    · rename_i e; subst e; simp_all
    · rfl
  · simp only [tmpReg_ge (Nat.le_of_not_lt h), MState.setSlot]

@[simp] theorem tape_setTmp (m : MState w) (t : Nat) (v : BitVec 64) : (setTmp m t v).tape = m.tape := by
  unfold setTmp; split <;> rfl

@[simp] theorem regs_setReg (m : MState w) (r r' : Reg) (v : BitVec 64) :
    (m.setReg r v).regs r' = if r' = r then v else m.regs r' := rfl
@[simp] theorem tape_setReg (m : MState w) (r : Reg) (v : BitVec 64) : (m.setReg r v).tape = m.tape := rfl
@[simp] theorem stack_setReg (m : MState w) (r : Reg) (v : BitVec 64) : (m.setReg r v).stack = m.stack := rfl
@[simp] theorem regs_setCell (m : MState w) (i : Int) (v : BitVec w) : (m.setCell i v).regs = m.regs := rfl
@[simp] theorem tape_setCell (m : MState w) (i j : Int) (v : BitVec w) :
    (m.setCell i v).tape j = if j = i then v else m.tape j := rfl
@[simp] theorem regs_setFlags (m : MState w) (z c : Option Bool) : (m.setFlags z c).regs = m.regs := rfl
@[simp] theorem tape_setFlags (m : MState w) (z c : Option Bool) : (m.setFlags z c).tape = m.tape := rfl
@[simp] theorem stack_setFlags (m : MState w) (z c : Option Bool) : (m.setFlags z c).stack = m.stack := rfl

end C03
end Hpbf
