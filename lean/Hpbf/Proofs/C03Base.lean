/-
C03, shared toolkit: the simulation relation between bytecode configurations and machine states, the
"temporaries view" of a machine state (`tmpVal` / `setTmp`), and the rewrite rules that execute the
instruction forms of `JitGen` symbolically.
-/
import Hpbf.X86Sem
import Hpbf.JitGen

namespace Hpbf
namespace C03

open Asm JitGen X86Sem

variable {w : Nat}

/-! ### The relation -/

/-- The low `w` bits of a 64-bit value. -/
def lo (v : BitVec 64) : BitVec w := v.setWidth w

/-- Bytecode configuration `c` and machine state `m` agree: every register temporary (low `w` bits of
its register), every stack temporary (low `w` bits of its slot), every tape cell (offsets relative to the
pointer = indices relative to `rbp`). -/
def Rel (c : Bc.Cfg w) (m : MState w) : Prop :=
  (∀ t r, tmpReg t = some r → lo (m.regs r) = Bc.tget c.temps t) ∧
  (∀ t, 11 ≤ t → lo (m.stack t) = Bc.tget c.temps t) ∧
  (∀ o, m.tape o = c.st.rd o)

/-- Agreement after an instruction with live bitmap `live` and destination `d`: as `Rel`, except that a
REGISTER temporary that is neither declared live nor the destination may hold anything (the selector may
have used it as scratch: `canScratch`). -/
def Rel' (live : Nat) (d : Bc.Loc w) (c : Bc.Cfg w) (m : MState w) : Prop :=
  (∀ t r, tmpReg t = some r → (live.testBit t = true ∨ d = .tmp t) →
    lo (m.regs r) = Bc.tget c.temps t) ∧
  (∀ t, 11 ≤ t → lo (m.stack t) = Bc.tget c.temps t) ∧
  (∀ o, m.tape o = c.st.rd o)

/-- Agreement restricted to the register temporaries in `S` (all stack temporaries, the whole tape):
the form that composes along a program. `Rel` is `RelOn (fun _ => True)`, `Rel' live d` is
`RelOn (fun t => live.testBit t ∨ d = .tmp t)`. -/
def RelOn (S : Nat → Prop) (c : Bc.Cfg w) (m : MState w) : Prop :=
  (∀ t r, tmpReg t = some r → S t → lo (m.regs r) = Bc.tget c.temps t) ∧
  (∀ t, 11 ≤ t → lo (m.stack t) = Bc.tget c.temps t) ∧
  (∀ o, m.tape o = c.st.rd o)

/-- A source operand that is a register temporary belongs to `S`. -/
def SrcOk (S : Nat → Prop) : Bc.Loc w → Prop
  | .tmp t => t < 11 → S t
  | _ => True

/-- Operand ranges: offsets and temporary numbers are values of `i32` (so that `idx as i32`, `tmp as i32`
in `mem_param`/`tmp_param` do not wrap). -/
def LocOk : Bc.Loc w → Prop
  | .mem idx => -2147483648 ≤ idx ∧ idx < 2147483648
  | .memZero _ => True
  | .tmp t => t < 2147483648
  | .imm _ => True

/-- Value of a source operand that is not `memZero`. -/
def rv (c : Bc.Cfg w) : Bc.Loc w → BitVec w
  | .mem off => c.st.rd off
  | .memZero off => c.st.rd off
  | .tmp i => Bc.tget c.temps i
  | .imm v => v

/-- The code `xs` run from `m` ends in a state related to `c'`, with the frame registers intact. -/
def Sim (live : Nat) (d : Bc.Loc w) (c' : Bc.Cfg w) (m : MState w) (xs : List X86) : Prop :=
  ∃ m', execAll xs m = some m' ∧ Rel' live d c' m' ∧
    m'.regs .rbx = m.regs .rbx ∧ m'.regs .rbp = m.regs .rbp ∧ m'.regs .rsp = m.regs .rsp

/-- The register temporaries known to agree after an instruction with live bitmap `live` and destination
`d`, when those in `S` agreed before: the live ones of `S`, and the destination. -/
def Post (S : Nat → Prop) (live : Nat) (d : Bc.Loc w) (t : Nat) : Prop :=
  (S t ∧ live.testBit t = true) ∨ d = .tmp t

/-- `Sim` with the precondition `RelOn S`: afterwards the register temporaries of `S` that are declared
live, and the destination, agree. -/
def SimOn (S : Nat → Prop) (live : Nat) (d : Bc.Loc w) (c' : Bc.Cfg w) (m : MState w) (xs : List X86) :
    Prop :=
  ∃ m', execAll xs m = some m' ∧ RelOn (Post S live d) c' m' ∧
    m'.regs .rbx = m.regs .rbx ∧ m'.regs .rbp = m.regs .rbp ∧ m'.regs .rsp = m.regs .rsp

/-! ### Integers -/

theorem i32_eq {x : Int} (h1 : -2147483648 ≤ x) (h2 : x < 2147483648) : i32 x = x := by
  have e : (2 : Int) ^ 32 = 4294967296 := by decide
  simp only [i32, wrapS, e]
  split <;> omega

theorem i32_nat {t : Nat} (h : t < 2147483648) : i32 (t : Int) = t :=
  i32_eq (by omega) (by omega)

/-! ### Registers of temporaries -/

/-- The register of a register temporary (`rax` for the others). -/
def treg (t : Nat) : Reg := (tmpReg t).getD .rax

theorem tmpReg_lt {t : Nat} (h : t < 11) : tmpReg t = some (treg t) := by
  have : t = 0 ∨ t = 1 ∨ t = 2 ∨ t = 3 ∨ t = 4 ∨ t = 5 ∨ t = 6 ∨ t = 7 ∨ t = 8 ∨ t = 9 ∨ t = 10 := by
    omega
  rcases this with h | h | h | h | h | h | h | h | h | h | h <;> subst h <;> rfl

theorem tmpReg_ge {t : Nat} (h : 11 ≤ t) : tmpReg t = none := by
  unfold tmpReg
  split <;> first | omega | rfl

theorem tmpReg_eq_none {t : Nat} : tmpReg t = none ↔ 11 ≤ t := by
  constructor
  · intro h
    by_cases h' : t < 11
    · rw [tmpReg_lt h'] at h; cases h
    · omega
  · exact tmpReg_ge

theorem tmpReg_eq_some {t : Nat} {r : Reg} : tmpReg t = some r ↔ t < 11 ∧ r = treg t := by
  constructor
  · intro h
    by_cases h' : t < 11
    · rw [tmpReg_lt h'] at h; cases h; exact ⟨h', rfl⟩
    · rw [tmpReg_ge (by omega)] at h; cases h
  · rintro ⟨h, rfl⟩; exact tmpReg_lt h

theorem treg_inj {t t' : Nat} (h : t < 11) (h' : t' < 11) : treg t = treg t' ↔ t = t' := by
  constructor
  · intro e
    have : t = 0 ∨ t = 1 ∨ t = 2 ∨ t = 3 ∨ t = 4 ∨ t = 5 ∨ t = 6 ∨ t = 7 ∨ t = 8 ∨ t = 9 ∨ t = 10 := by
      omega
    have : t' = 0 ∨ t' = 1 ∨ t' = 2 ∨ t' = 3 ∨ t' = 4 ∨ t' = 5 ∨ t' = 6 ∨ t' = 7 ∨ t' = 8 ∨ t' = 9 ∨
        t' = 10 := by omega
    rcases ‹t = 0 ∨ _› with h | h | h | h | h | h | h | h | h | h | h <;> subst h <;>
    rcases ‹t' = 0 ∨ _› with h | h | h | h | h | h | h | h | h | h | h <;> subst h <;>
    first | rfl | (exact absurd e (by decide))
  · rintro rfl; rfl

theorem treg_ne {t : Nat} (h : t < 11) :
    treg t ≠ .rax ∧ treg t ≠ .rcx ∧ treg t ≠ .rbx ∧ treg t ≠ .rsp ∧ treg t ≠ .rbp := by
  have : t = 0 ∨ t = 1 ∨ t = 2 ∨ t = 3 ∨ t = 4 ∨ t = 5 ∨ t = 6 ∨ t = 7 ∨ t = 8 ∨ t = 9 ∨ t = 10 := by
    omega
  rcases this with h | h | h | h | h | h | h | h | h | h | h <;> subst h <;> decide

/-! ### The temporaries view of a machine state -/

def tmpPlace (t : Nat) : Place :=
  match tmpReg t with | some r => .reg r | none => .slot t

def tmpVal (m : MState w) (t : Nat) : BitVec 64 :=
  match tmpReg t with | some r => m.regs r | none => m.stack t

def setTmp (m : MState w) (t : Nat) (v : BitVec 64) : MState w :=
  match tmpReg t with | some r => m.setReg r v | none => m.setSlot t v

theorem regs_treg (m : MState w) {t : Nat} (h : t < 11) : m.regs (treg t) = tmpVal m t := by
  simp [tmpVal, tmpReg_lt h]

theorem setReg_treg (m : MState w) {t : Nat} (h : t < 11) (v : BitVec 64) :
    m.setReg (treg t) v = setTmp m t v := by
  simp [setTmp, tmpReg_lt h]

theorem tmpVal_setTmp (m : MState w) (t t' : Nat) (v : BitVec 64) :
    tmpVal (setTmp m t v) t' = if t' = t then v else tmpVal m t' := by
  unfold tmpVal setTmp
  by_cases h : t < 11 <;> by_cases h' : t' < 11
  · simp only [tmpReg_lt h, tmpReg_lt h', MState.setReg, treg_inj h' h]
  · simp only [tmpReg_lt h, tmpReg_ge (Nat.le_of_not_lt h'), MState.setReg]
    split
    · omega
    · rfl
  · simp only [tmpReg_lt h', tmpReg_ge (Nat.le_of_not_lt h), MState.setSlot]
    split
    · omega
    · rfl
  · simp only [tmpReg_ge (Nat.le_of_not_lt h), tmpReg_ge (Nat.le_of_not_lt h'), MState.setSlot]

theorem tmpVal_setReg_rax (m : MState w) (t : Nat) (v : BitVec 64) :
    tmpVal (m.setReg .rax v) t = tmpVal m t := by
  unfold tmpVal
  by_cases h : t < 11
  · simp only [tmpReg_lt h, MState.setReg, (treg_ne h).1, if_false]
  · simp only [tmpReg_ge (Nat.le_of_not_lt h), MState.setReg]

theorem tmpVal_setReg_rcx (m : MState w) (t : Nat) (v : BitVec 64) :
    tmpVal (m.setReg .rcx v) t = tmpVal m t := by
  unfold tmpVal
  by_cases h : t < 11
  · simp only [tmpReg_lt h, MState.setReg, (treg_ne h).2.1, if_false]
  · simp only [tmpReg_ge (Nat.le_of_not_lt h), MState.setReg]

@[simp] theorem tmpVal_setCell (m : MState w) (t : Nat) (i : Int) (v : BitVec w) :
    tmpVal (m.setCell i v) t = tmpVal m t := rfl
@[simp] theorem tmpVal_setFlags (m : MState w) (t : Nat) (z c : Option Bool) :
    tmpVal (m.setFlags z c) t = tmpVal m t := rfl

theorem regs_setTmp (m : MState w) (t : Nat) (v : BitVec 64) {r : Reg}
    (hr : r = .rax ∨ r = .rcx ∨ r = .rbx ∨ r = .rsp ∨ r = .rbp) :
    (setTmp m t v).regs r = m.regs r := by
  unfold setTmp
  by_cases h : t < 11
  · have := treg_ne h
    simp only [tmpReg_lt h, MState.setReg]
    split
    · rename_i e; subst e; simp_all
    · rfl
  · simp only [tmpReg_ge (Nat.le_of_not_lt h), MState.setSlot]

@[simp] theorem tape_setTmp (m : MState w) (t : Nat) (v : BitVec 64) : (setTmp m t v).tape = m.tape := by
  unfold setTmp; split <;> rfl

@[simp] theorem regs_setReg (m : MState w) (r r' : Reg) (v : BitVec 64) :
    (m.setReg r v).regs r' = if r' = r then v else m.regs r' := rfl
@[simp] theorem tape_setReg (m : MState w) (r : Reg) (v : BitVec 64) : (m.setReg r v).tape = m.tape := rfl
@[simp] theorem stack_setReg (m : MState w) (r : Reg) (v : BitVec 64) : (m.setReg r v).stack = m.stack := rfl
@[simp] theorem regs_setCell (m : MState w) (i : Int) (v : BitVec w) : (m.setCell i v).regs = m.regs := rfl
@[simp] theorem tape_setCell (m : MState w) (i j : Int) (v : BitVec w) :
    (m.setCell i v).tape j = if j = i then v else m.tape j := rfl
@[simp] theorem regs_setFlags (m : MState w) (z c : Option Bool) : (m.setFlags z c).regs = m.regs := rfl
@[simp] theorem tape_setFlags (m : MState w) (z c : Option Bool) : (m.setFlags z c).tape = m.tape := rfl
@[simp] theorem stack_setFlags (m : MState w) (z c : Option Bool) : (m.setFlags z c).stack = m.stack := rfl

/-! ### Low bits -/

theorem lo_add (hw : w ≤ 64) (a b : BitVec 64) : (lo (a + b) : BitVec w) = lo a + lo b :=
  BitVec.setWidth_add a b hw

theorem lo_mul (hw : w ≤ 64) (a b : BitVec 64) : (lo (a * b) : BitVec w) = lo a * lo b :=
  BitVec.setWidth_mul a b hw

theorem lo_neg (hw : w ≤ 64) (a : BitVec 64) : (lo (-a) : BitVec w) = -lo a := by
  unfold lo
  rw [BitVec.neg_eq_not_add, BitVec.setWidth_add _ _ hw, BitVec.setWidth_not hw, BitVec.neg_eq_not_add]
  congr 1
  apply BitVec.eq_of_toNat_eq
  simp

theorem lo_sub (hw : w ≤ 64) (a b : BitVec 64) : (lo (a - b) : BitVec w) = lo a + -lo b := by
  rw [BitVec.sub_eq_add_neg, lo_add hw, lo_neg hw]

theorem lo_ext (hw : w ≤ 64) (x : BitVec w) : (lo (x.setWidth 64) : BitVec w) = x := by
  unfold lo
  rw [BitVec.setWidth_setWidth_of_le x hw, BitVec.setWidth_eq]

theorem lo_trunc {n : Nat} (hn : w ≤ n) (v : BitVec 64) : (lo (trunc n v) : BitVec w) = lo v := by
  unfold lo trunc
  ext i hi
  have : i < n := by omega
  simp [*]
  exact fun h => BitVec.lt_of_getLsbD h

theorem lo_mergeLow {n : Nat} (hn : w ≤ n) (hn' : n ≤ 64) (old v : BitVec 64) :
    (lo (mergeLow n old v) : BitVec w) = lo v := by
  unfold lo mergeLow
  ext i hi
  have : i < n := by omega
  have : i < 64 := by omega
  simp [lowMask, *]

theorem lo_sizedWrite {sz : Size} (hsz : sz.bits = w) (old v : BitVec 64) :
    (lo (sizedWrite sz old v) : BitVec w) = lo v := by
  cases sz <;> simp only [Size.bits] at hsz <;> subst hsz <;> simp only [sizedWrite]
  · exact lo_mergeLow (Nat.le_refl _) (by decide) _ _
  · exact lo_mergeLow (Nat.le_refl _) (by decide) _ _
  · exact lo_trunc (Nat.le_refl _) _

/-- The result of the ALU at `n ≥ w` bits, seen through `lo`. -/
theorem lo_alu_add {n : Nat} (hn : w ≤ n) (hn' : n ≤ 64) (a b : BitVec 64) :
    (lo (alu .add n a b).1 : BitVec w) = lo a + lo b := by
  have hw : w ≤ 64 := by omega
  simp only [alu, lo_trunc hn, lo_add hw]

theorem lo_alu_sub {n : Nat} (hn : w ≤ n) (hn' : n ≤ 64) (a b : BitVec 64) :
    (lo (alu .sub n a b).1 : BitVec w) = lo a + -lo b := by
  have hw : w ≤ 64 := by omega
  simp only [alu, lo_trunc hn, lo_sub hw]

theorem immVal_immI64 (c : BitVec w) : immVal (immI64 c) = c.signExtend 64 := by
  simp only [immVal, immI64, Cell.intoI64, BitVec.ofInt_toInt]

theorem lo_immI64 (hw : w ≤ 64) (c : BitVec w) : (lo (immVal (immI64 c)) : BitVec w) = c := by
  rw [immVal_immI64]
  unfold lo
  ext i hi
  have : i < 64 := by omega
  simp [BitVec.getElem_signExtend, *]

theorem wrapS_eq {bits : Nat} {x : Int} (h1 : -(2 ^ bits) ≤ 2 * x) (h2 : 2 * x < 2 ^ bits) :
    wrapS bits x = x := by
  simp only [wrapS]
  have hp : (0 : Int) < 2 ^ bits := Int.pow_pos (by decide)
  by_cases hx : 0 ≤ x
  · have : x % 2 ^ bits = x := Int.emod_eq_of_lt hx (by omega)
    rw [this]; split <;> omega
  · have : x % 2 ^ bits = x + 2 ^ bits := by
      rw [← Int.add_emod_right, Int.emod_eq_of_lt (by omega) (by omega)]
    rw [this]; split <;> omega

theorem truncImm_immI64 {sz : Size} (hsz : sz.bits = w) (c : BitVec w) :
    truncImm sz (immI64 c) = immI64 c := by
  cases sz <;> simp only [Size.bits] at hsz <;> subst hsz <;> simp only [truncImm]
  · have := BitVec.two_mul_toInt_lt (x := c); have := BitVec.le_two_mul_toInt (x := c)
    simp only [immI64, Cell.intoI64, BitVec.toInt_signExtend_of_le (show 8 ≤ 64 by decide), i8]
    exact wrapS_eq (by omega) (by omega)
  · have := BitVec.two_mul_toInt_lt (x := c); have := BitVec.le_two_mul_toInt (x := c)
    simp only [immI64, Cell.intoI64, BitVec.toInt_signExtend_of_le (show 16 ≤ 64 by decide), i16]
    exact wrapS_eq (by omega) (by omega)

/-! ### Bytecode side -/

theorem tget_tset (ts : Bc.Temps w) (i j : Nat) (v : BitVec w) :
    Bc.tget (Bc.tset ts i v) j = if j = i then v else Bc.tget ts j := by
  induction ts with
  | nil => simp only [Bc.tset, Bc.tget]; split <;> split <;> first | rfl | omega
  | cons kv rest ih =>
    obtain ⟨k, v'⟩ := kv
    simp only [Bc.tset]
    by_cases hk : k = i
    · subst hk
      simp only [if_true, Bc.tget]
      split <;> split <;> first | rfl | omega
    · simp only [hk, if_false, Bc.tget, ih]
      by_cases hj : j = i
      · subst hj; simp [hk]
      · simp [hj]

theorem rd_wr (s : State w) (i j : Int) (v : BitVec w) :
    (s.wr i v).rd j = if j = i then v else s.rd j := by
  simp only [State.rd, State.wr, Tape.get_set]
  split <;> split <;> first | rfl | omega

/-- Without `memZero` operands reads have no effect, and the two-operand form (`sameDst`) computes the
same value as the three-operand form. -/
theorem binop_eq (f : BitVec w → BitVec w → BitVec w) (c : Bc.Cfg w) (d a b : Bc.Loc w)
    (ha : ∀ o, a ≠ .memZero o) (hb : ∀ o, b ≠ .memZero o) :
    Bc.binop f c d a b = Bc.writeLoc c (f (rv c a) (rv c b)) d := by
  have rd : ∀ l : Bc.Loc w, (∀ o, l ≠ .memZero o) → Bc.readLoc c l = (rv c l, c) := by
    intro l hl; cases l <;> simp_all [Bc.readLoc, rv]
  unfold Bc.binop
  split
  · rename_i hs
    have hda : d = a := by
      cases d <;> cases a <;> simp_all [Bc.sameDst]
    subst hda
    simp only [rd b hb, rd d ha]
  · simp only [rd a ha, rd b hb]

/-! ### The relation in the temporaries view -/

theorem relOn_iff (S : Nat → Prop) (c : Bc.Cfg w) (m : MState w) :
    RelOn S c m ↔
      (∀ t, (11 ≤ t ∨ S t) → lo (tmpVal m t) = Bc.tget c.temps t) ∧ (∀ o, m.tape o = c.st.rd o) := by
  unfold RelOn tmpVal
  constructor
  · rintro ⟨h1, h2, h3⟩
    refine ⟨fun t hk => ?_, h3⟩
    by_cases h : t < 11
    · simp only [tmpReg_lt h]
      refine h1 t _ (tmpReg_lt h) ?_
      rcases hk with hk | hk
      · omega
      · exact hk
    · simp only [tmpReg_ge (Nat.le_of_not_lt h)]; exact h2 t (Nat.le_of_not_lt h)
  · rintro ⟨h1, h3⟩
    refine ⟨fun t r htr hk => ?_, fun t ht => ?_, h3⟩
    · have := h1 t (Or.inr hk)
      simpa only [htr] using this
    · have := h1 t (Or.inl ht)
      simpa only [tmpReg_ge ht] using this

theorem relOn_post_iff (S : Nat → Prop) (live : Nat) (d : Bc.Loc w) (c : Bc.Cfg w) (m : MState w) :
    RelOn (Post S live d) c m ↔
      (∀ t, 11 ≤ t → lo (tmpVal m t) = Bc.tget c.temps t) ∧
      (∀ t, S t → live.testBit t = true → lo (tmpVal m t) = Bc.tget c.temps t) ∧
      (∀ t, d = .tmp t → lo (tmpVal m t) = Bc.tget c.temps t) ∧
      (∀ o, m.tape o = c.st.rd o) := by
  rw [relOn_iff]
  unfold Post
  constructor
  · rintro ⟨h1, h2⟩
    exact ⟨fun t h => h1 t (Or.inl h), fun t h h' => h1 t (Or.inr (Or.inl ⟨h, h'⟩)),
      fun t h => h1 t (Or.inr (Or.inr h)), h2⟩
  · rintro ⟨h1, h2, h3, h4⟩
    refine ⟨fun t h => ?_, h4⟩
    rcases h with h | ⟨h, h'⟩ | h
    · exact h1 t h
    · exact h2 t h h'
    · exact h3 t h

theorem relOn_mono {S S' : Nat → Prop} {c : Bc.Cfg w} {m : MState w} (h : RelOn S c m)
    (hs : ∀ t, S' t → S t) : RelOn S' c m :=
  ⟨fun t r htr hk => h.1 t r htr (hs t hk), h.2.1, h.2.2⟩

theorem rel_iff_relOn (c : Bc.Cfg w) (m : MState w) : Rel c m ↔ RelOn (fun _ => True) c m :=
  ⟨fun h => ⟨fun t r htr _ => h.1 t r htr, h.2.1, h.2.2⟩, fun h => ⟨fun t r htr => h.1 t r htr trivial, h.2.1, h.2.2⟩⟩

theorem rel'_iff_relOn (live : Nat) (d : Bc.Loc w) (c : Bc.Cfg w) (m : MState w) :
    Rel' live d c m ↔ RelOn (fun t => live.testBit t = true ∨ d = .tmp t) c m := Iff.rfl

theorem sim_of_simOn {live : Nat} {d : Bc.Loc w} {c' : Bc.Cfg w} {m : MState w} {xs : List X86}
    (h : SimOn (fun _ => True) live d c' m xs) : Sim live d c' m xs := by
  obtain ⟨m', hx, hr, hf⟩ := h
  refine ⟨m', hx, (rel'_iff_relOn ..).2 (relOn_mono hr ?_), hf⟩
  intro t ht
  rcases ht with ht | ht
  · exact Or.inl ⟨trivial, ht⟩
  · exact Or.inr ht

/-! ### Operands -/

theorem resolve_reg (r : Reg) : X86Sem.resolve w (.reg r) = some (.reg r) := rfl

theorem resolve_tmpParam {t : Nat} (h : t < 2147483648) : X86Sem.resolve w (tmpParam t) = some (tmpPlace t) := by
  unfold tmpParam tmpPlace
  cases tmpReg t with
  | some r => rfl
  | none =>
    simp only [i32_nat h, X86Sem.resolve]
    have : (0 : Int) ≤ 8 * (t : Int) ∧ 8 * (t : Int) % 8 = 0 := by omega
    rw [if_pos this]
    congr 2
    omega

theorem resolve_memParam {sz : Size} (hsz : sz.bits = w) {idx : Int} (h1 : -2147483648 ≤ idx)
    (h2 : idx < 2147483648) : X86Sem.resolve w (memParam sz idx) = some (.cell idx) := by
  unfold memParam
  rw [i32_eq h1 h2]
  cases sz <;> simp only [Size.bits] at hsz <;> subst hsz <;>
    simp [memr, X86Sem.resolve, Size.bytes, Int.mul_emod_right, Int.mul_ediv_cancel_left]

theorem readPlace_tmpPlace (m : MState w) (t : Nat) : readPlace m .b64 (tmpPlace t) = some (tmpVal m t) := by
  unfold tmpPlace tmpVal
  cases tmpReg t <;> simp [readPlace]

theorem readPlace_reg (m : MState w) (r : Reg) : readPlace m .b64 (.reg r) = some (m.regs r) := by
  simp [readPlace]

theorem readPlace_cell (m : MState w) {sz : Size} (hsz : sz.bits = w) (i : Int) :
    readPlace m sz (.cell i) = some ((m.tape i).setWidth 64) := by
  simp [readPlace, hsz]

theorem writeReg_rax (m : MState w) (sz : Size) (v : BitVec 64) :
    writeReg m sz .rax v = some (m.setReg .rax (sizedWrite sz (m.regs .rax) v)) := by
  simp [writeReg]

theorem writeReg_rcx (m : MState w) (sz : Size) (v : BitVec 64) :
    writeReg m sz .rcx v = some (m.setReg .rcx (sizedWrite sz (m.regs .rcx) v)) := by
  simp [writeReg]

theorem writeReg_treg (m : MState w) (sz : Size) {t : Nat} (h : t < 11) (v : BitVec 64) :
    writeReg m sz (treg t) v = some (setTmp m t (sizedWrite sz (tmpVal m t) v)) := by
  have := treg_ne h
  simp [writeReg, this, setReg_treg m h, regs_treg m h]

theorem writePlace_tmpPlace (m : MState w) (t : Nat) (v : BitVec 64) :
    writePlace m .b64 v (tmpPlace t) = some (setTmp m t v) := by
  unfold tmpPlace setTmp
  by_cases h : t < 11
  · have := treg_ne h
    simp [tmpReg_lt h, writePlace, writeReg, this, sizedWrite]
  · simp [tmpReg_ge (Nat.le_of_not_lt h), writePlace]

theorem writePlace_reg (m : MState w) (r : Reg) (v : BitVec 64) :
    writePlace m .b64 v (.reg r) = writeReg m .b64 r v := by
  simp [writePlace]

theorem writePlace_cell (m : MState w) {sz : Size} (hsz : sz.bits = w) (i : Int) (v : BitVec 64) :
    writePlace m sz v (.cell i) = some (m.setCell i (lo v)) := by
  simp [writePlace, hsz, lo]

@[simp] theorem sizedWrite_b64 (old v : BitVec 64) : sizedWrite .b64 old v = v := rfl

/-! ### Execution without the `fits` tests -/

def execAllCore : List X86 → MState w → Option (MState w)
  | [], m => some m
  | x :: xs, m => (execCore x m).bind (execAllCore xs)

theorem execAll_eq_core (xs : List X86) (m : MState w) (h : xs.all X86.fits = true) :
    execAll xs m = execAllCore xs m := by
  induction xs generalizing m with
  | nil => rfl
  | cons x xs ih =>
    simp only [List.all_cons, Bool.and_eq_true] at h
    simp only [execAll, exec, h.1, if_true, execAllCore]
    cases execCore x m with
    | none => rfl
    | some m' => exact ih m' h.2

/-! ### Tactics -/

theorem canScratch_ge {live t : Nat} (h : 11 ≤ t) : canScratch live t = false := by
  simp [canScratch]; omega

theorem canScratch_lt {live t : Nat} (h : canScratch live t = true) : t < 11 := by
  simp [canScratch] at h; exact h.1

theorem sz_le {sz : Size} (hsz : sz.bits = w) : w ≤ 64 := by
  cases sz <;> simp [Size.bits] at hsz <;> omega

@[simp] theorem immVal_zero : immVal 0 = 0#64 := by decide
@[simp] theorem lo_zero : (lo 0#64 : BitVec w) = 0#w := by simp [lo]

/-- Case split on the kind of a temporary (register / stack), leaving the facts the symbolic execution
needs in the context. -/
macro "tkind " t:term : tactic =>
  `(tactic| rcases Nat.lt_or_ge $t 11 with hk | hk <;>
      first
      | (have := tmpReg_lt hk; have := treg_ne hk)
      | (have := tmpReg_ge hk; have := fun live => canScratch_ge (live := live) hk))

/-- Case split on `canScratch live t`, then on the kind of `t` where that is still open. -/
macro "tscr " live:term:max t:term:max : tactic =>
  `(tactic| by_cases hs : canScratch $live $t = true <;>
      first
      | (have hk := canScratch_lt hs; have := tmpReg_lt hk; have := treg_ne hk)
      | tkind $t)

/-- Case split on the equality of two temporaries / offsets; the equation is substituted, the
disequation kept in both orientations. -/
macro "teq " a:term:max b:term:max : tactic =>
  `(tactic| by_cases heq : $a = $b <;>
      first
      | subst heq
      | have := fun e : $b = $a => heq e.symm)

/-- Symbolic execution of the emitted instruction list. -/
macro "c03_run" : tactic =>
  `(tactic| simp [execAllCore, execCore, aluRm, aluR, leaAddr, load, storeReg, storeI32, addReg, addToReg,
      addI32, subReg, subToReg, mov64, st64, add64, sub64, addImm64, scr0, scr1, resolve_memParam,
      resolve_tmpParam, resolve_reg, readPlace_tmpPlace, readPlace_reg, readPlace_cell, writeReg_rax,
      writeReg_rcx, writeReg_treg, writePlace_tmpPlace, writePlace_reg, writePlace_cell,
      regs_treg, setReg_treg, tmpVal_setTmp, tmpVal_setReg_rax, tmpVal_setReg_rcx, regs_setTmp,
      truncImm_immI64, *])

macro "c03_leaf" : tactic =>
  `(tactic| ((try simp_all [lo_alu_add, lo_alu_sub, lo_add, lo_mul, lo_ext, lo_immI64, lo_sizedWrite,
      canScratch]) <;> first | done | ac_rfl | omega))

macro "c03_tmp" : tactic =>
  `(tactic| (
    simp [tmpVal_setTmp, tmpVal_setReg_rax, tmpVal_setReg_rcx, tget_tset, rv, Size.bits]
    try ((repeat' split) <;> c03_leaf)))

/-- The final state is related to the bytecode result. -/
macro "c03_fin" : tactic =>
  `(tactic| (
    rw [relOn_post_iff]
    refine ⟨fun t hk => ?_, fun t hk hl => ?_, fun t hk => ?_, fun o => ?_⟩
    · c03_tmp
    · c03_tmp
    · cases hk <;> c03_tmp
    · simp [rd_wr, rv, Size.bits, *]
      try ((repeat' split) <;> c03_leaf)))

/-- One leaf of the case analysis of a selector: `h : emit… = some xs` with all tests decided. -/
macro "c03_arm " h:ident : tactic =>
  `(tactic| (simp [emitAdd, emitCopy, emitSub, emitMul, *] at $h:ident <;> (subst $h:ident; c03_run; c03_fin)))

/- Common prelude of the per-family lemmas (fixed hypothesis names). -/
set_option hygiene false in
macro "c03_pre" : tactic =>
  `(tactic| (
    have hw : w ≤ 64 := sz_le hsz
    rw [relOn_iff] at hrel
    obtain ⟨hT, hM⟩ := hrel
    try simp only [SrcOk] at hsa
    try simp only [SrcOk] at hsb
    try simp only [LocOk] at hd
    try simp only [LocOk] at ha
    try simp only [LocOk] at hb
    simp only [Bc.writeLoc, Option.some.injEq] at hc
    subst hc
    unfold SimOn
    rw [execAll_eq_core _ _ hfit]
    clear hfit))

end C03
end Hpbf
