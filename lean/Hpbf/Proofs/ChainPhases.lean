/-
Chain, part 1: the phases of `BcGen.translateE` composed.

* `emit_targetsOk`      – every branch of the code produced by the emission phase lands in `[0, n]`
                          (from the two structural invariants of the emission that the `allocate_temps`
                          work established: `FCore.backLe` for `brnz`, `VG.fw` for `brz`);
* `translateE_phases`   – `translateE … = .ok p` splits into the four successful phases;
* `translate_behEqIO`   – the program after the emission phase (`emitOnly`) and the final program are
                          `BehEqIO`.  The strong `BehEq` is not available for either value of `fuse`:
                          `dead_store_elim` (always) and `zeroing_move_detection` (`fuse`) only give `BehEqIO`
                          (the tape after a run that STOPS at a failing I/O operation may differ).
-/
import Hpbf.Proofs.C02EmitRun
import Hpbf.Proofs.C02DseEmit
import Hpbf.Proofs.C02AllocEmitAll
import Hpbf.Proofs.C02Passes

namespace Hpbf
namespace Chain

open Bc BcWf BcGen C11 C02 C02Emit

variable {w : Nat}

/-! ### 1. the emission phase produces branches that land inside the code -/

/-- Loop back edges: a `brnz` at `j` jumps backwards, not before the first instruction. -/
theorem emit_brnz_target {prog : Ir.Block w} {fuse : Bool} {s : St w} (h : emitState prog fuse = .ok s)
    {j : Nat} {cnd off : Int} (hj : s.insts[j]? = some (.brnz cnd off)) :
    0 ≤ (j : Int) + off ∧ off ≤ 0 := by
  have hF : AEmit.FInv [((0 : Nat), (0 : Nat))] 0 s :=
    AEmit.closedI_emitState (AEmit.closedI_finv fuse) h _ AEmit.finv_init
  exact hF.core.backLe j cnd off hj

/-- Forward edges: a `brz` at `j` jumps forwards, at most to the end of the code. -/
theorem emit_brz_target {prog : Ir.Block w} {fuse : Bool} {s : St w} (h : emitState prog fuse = .ok s)
    {j : Nat} {cnd off : Int} (hj : s.insts[j]? = some (.brz cnd off)) :
    0 < off ∧ (j : Int) + off ≤ s.insts.size := by
  have hV := (AEmit.vinv_of_emit h).vk.vg
  obtain ⟨q1, q2, _⟩ := hV.fw j cnd off hj
  exact ⟨q1, q2⟩

/-- **The output of the emission phase satisfies `TargetsOk`.** -/
theorem emit_targetsOk {prog : Ir.Block w} {fuse : Bool} {s : St w} (h : emitState prog fuse = .ok s) :
    TargetsOk s.insts := by
  intro i ins off hi hoff
  have hlt : i < s.insts.size := lt_of_get hi
  cases ins with
  | brz cnd o =>
    simp only [branchOff?, Option.some.injEq] at hoff
    subst hoff
    obtain ⟨q1, q2⟩ := emit_brz_target h hi
    exact ⟨by omega, q2⟩
  | brnz cnd o =>
    simp only [branchOff?, Option.some.injEq] at hoff
    subst hoff
    obtain ⟨q1, q2⟩ := emit_brnz_target h hi
    exact ⟨q1, by omega⟩
  | _ => simp [branchOff?] at hoff

/-- The emission phase records no `live` bitmaps. -/
theorem emit_live0 {prog : Ir.Block w} {fuse : Bool} {s : St w} (h : emitState prog fuse = .ok s) :
    s.live.size = 0 := (AEmit.allocPre_of_emitState h).live0

/-! ### 2. the `.ok` chain -/

/-- The packaging step at the end of `translateE`. -/
def package (prog : Ir.Block w) (s : St w) : Bc.Program w :=
  { temps := countTemps s.insts, minAcc := (analyze prog).minAcc, maxAcc := (analyze prog).maxAcc,
    live := s.live, insts := s.insts }

theorem package_eq_progOf (prog : Ir.Block w) (s : St w) :
    package prog s = progOf s (countTemps s.insts) (analyze prog).minAcc (analyze prog).maxAcc := rfl

/-- `translateE` in terms of the four phases. -/
theorem translateE_chain (prog : Ir.Block w) (numRegs : Nat) (fuse : Bool) :
    translateE prog numRegs fuse = (do
      let s ← emitState prog fuse
      let s ← deadStoreElim s
      let s ← allocateTemps numRegs s
      let s ← latePasses fuse s
      pure (package prog s)) := by
  rw [BcGen.translateE_factors]
  unfold latePasses package
  cases fuse <;> simp only [bind_assoc, pure_bind, if_true, Bool.false_eq_true, if_false]

/-- A successful translation is a successful run of each phase. -/
theorem translateE_phases {prog : Ir.Block w} {numRegs : Nat} {fuse : Bool} {p : Bc.Program w}
    (h : translateE prog numRegs fuse = .ok p) :
    ∃ s1 s2 s3 s4, emitState prog fuse = .ok s1 ∧ deadStoreElim s1 = .ok s2 ∧
      allocateTemps numRegs s2 = .ok s3 ∧ latePasses fuse s3 = .ok s4 ∧ p = package prog s4 := by
  rw [translateE_chain] at h
  cases h1 : emitState prog fuse with
  | error e => rw [h1] at h; cases h
  | ok s1 =>
    cases h2 : deadStoreElim s1 with
    | error e => rw [h1] at h; simp only [bind, Except.bind, h2] at h; cases h
    | ok s2 =>
      cases h3 : allocateTemps numRegs s2 with
      | error e => rw [h1] at h; simp only [bind, Except.bind, h2, h3] at h; cases h
      | ok s3 =>
        cases h4 : latePasses fuse s3 with
        | error e => rw [h1] at h; simp only [bind, Except.bind, h2, h3, h4] at h; cases h
        | ok s4 =>
          rw [h1] at h
          simp only [bind, Except.bind, h2, h3, h4, pure, Except.pure, Except.ok.injEq] at h
          exact ⟨s1, s2, s3, s4, rfl, h2, h3, h4, h.symm⟩

/-- Conversely the only phase that can fail once the emission succeeded is the register allocation
(`allocate_temps`, whose modelled panic sites are not excluded by any theorem): `dead_store_elim` and the late
passes succeed on generator output. -/
theorem translateE_ok_of_alloc {prog : Ir.Block w} {numRegs : Nat} {fuse : Bool} {s1 : St w}
    (h1 : emitState prog fuse = .ok s1) :
    ∃ s2, deadStoreElim s1 = .ok s2 ∧
      ∀ s3, allocateTemps numRegs s2 = .ok s3 → ∃ p, translateE prog numRegs fuse = .ok p := by
  obtain ⟨s2, h2, _, _, _, hT, _⟩ := deadStoreElim_preserves_of_emit h1
  refine ⟨s2, h2, fun s3 h3 => ?_⟩
  have hpre := AEmit.allocPre_of_emit h1 h2
  have hlate := allocateTemps_latePre s2 s3 numRegs hpre (hT (emit_targetsOk h1)) h3
  obtain ⟨s4, h4, _⟩ := late_passes_preserve s3 hlate fuse
  refine ⟨package prog s4, ?_⟩
  rw [translateE_chain, h1]
  simp only [bind, Except.bind, h2, h3, h4, pure, Except.pure]

/-! ### 3. the phases after the emission preserve behaviour -/

/-- What the chain of passes after the emission gives, for the generator states. -/
theorem passes_behEqIO {prog : Ir.Block w} {numRegs : Nat} {fuse : Bool} {s1 s2 s3 s4 : St w}
    (h1 : emitState prog fuse = .ok s1) (h2 : deadStoreElim s1 = .ok s2)
    (h3 : allocateTemps numRegs s2 = .ok s3) (h4 : latePasses fuse s3 = .ok s4) :
    LatePre s3 ∧ s4.live.size = s4.insts.size ∧ (∀ x ∈ s4.insts, isNoop x = false) ∧
    ∀ (t t' : Nat) (mn mx : Int), BehEqIO (progOf s1 t mn mx) (progOf s4 t' mn mx) := by
  obtain ⟨s2', h2', _, _, _, hT, hB12⟩ := deadStoreElim_preserves_of_emit h1
  rw [h2] at h2'; cases h2'
  have hpre := AEmit.allocPre_of_emit h1 h2
  have hT2 := hT (emit_targetsOk h1)
  have hlate := allocateTemps_latePre s2 s3 numRegs hpre hT2 h3
  obtain ⟨_, _, _, _, hB23⟩ := allocateTemps_preserves s2 s3 numRegs hpre h3
  obtain ⟨s4', h4', e1, e2, hB34, _⟩ := late_passes_preserve s3 hlate fuse
  rw [h4] at h4'; cases h4'
  exact ⟨hlate, e1, e2, fun t t' mn mx =>
    ((hB12 t mn mx).trans (hB23 t t' mn mx).io).trans (hB34 t' mn mx)⟩

/-- **Emission output vs. final program**: same behaviour up to the tape after an error ending. -/
theorem translate_behEqIO {prog : Ir.Block w} {numRegs : Nat} {fuse : Bool} {p : Bc.Program w}
    (h : translateE prog numRegs fuse = .ok p) :
    ∃ p0, emitOnly prog fuse = .ok p0 ∧ BehEqIO p0 p := by
  obtain ⟨s1, s2, s3, s4, h1, h2, h3, h4, rfl⟩ := translateE_phases h
  refine ⟨_, by unfold emitOnly; rw [h1], ?_⟩
  have hB := (passes_behEqIO h1 h2 h3 h4).2.2.2 s1.ranges.size (countTemps s4.insts)
    (analyze prog).minAcc (analyze prog).maxAcc
  refine BehEqIO.trans (behEq_of_insts_eq ?_).io hB
  rfl

/-- Structural facts about the final program: `live` has one bitmap per instruction, there is no `noop`. -/
theorem translate_shape {prog : Ir.Block w} {numRegs : Nat} {fuse : Bool} {p : Bc.Program w}
    (h : translateE prog numRegs fuse = .ok p) :
    p.live.size = p.insts.size ∧ (∀ x ∈ p.insts, isNoop x = false) ∧
    p.minAcc = (analyze prog).minAcc ∧ p.maxAcc = (analyze prog).maxAcc ∧ p.temps = countTemps p.insts := by
  obtain ⟨s1, s2, s3, s4, h1, h2, h3, h4, rfl⟩ := translateE_phases h
  obtain ⟨_, e1, e2, _⟩ := passes_behEqIO h1 h2 h3 h4
  exact ⟨e1, e2, rfl, rfl, rfl⟩

end Chain
end Hpbf
