/-
Rebuild-round proofs, stage 5 (the analysis a round records is sound for the code it emits): the block-free steps.
A step that emits no nested block records no node, so `AStep` holds trivially (`AStep.of_noBlocks`); the shape
facts come from the `NStep` lemmas of `OptRbShape2.lean` / `OptRbShape3.lean`.
-/
import Hpbf.Proofs.OptRbAnKit

namespace Hpbf
namespace OptProof
open Opt OptSem Ir

variable {w : Nat}

/-- Every step that emits no nested block. -/
theorem AStep.of_nstep {V : State w → Prop} {s s' : Rebuild w} (h : NStep s s') :
    ∃ new, s'.insts = s.insts ++ new ∧ (∀ i ∈ new, C01Dse.isBlock i = false) ∧ AStep V s s' new := by
  obtain ⟨new, e, hb⟩ := h.insts
  exact ⟨new, e, hb, AStep.of_noBlocks hb h.subAnal⟩

theorem emit_an {V : State w → Prop} {s : Rebuild w} (ps : List (Rebuild w)) (var : Int) {os os' : Orders}
    {s' : Rebuild w} (hr : (emit s ps var).run os = .ok (s', os')) (hwf : Wf s) :
    ∃ new, s'.insts = s.insts ++ new ∧ (∀ i ∈ new, C01Dse.isBlock i = false) ∧ AStep V s s' new :=
  AStep.of_nstep (emit_nstep ps var hr hwf)

theorem emitAll_an {V : State w → Prop} (ps : List (Rebuild w)) (vars : List Int) {s : Rebuild w}
    {os os' : Orders} {s' : Rebuild w} (hr : (emitAll ps vars s).run os = .ok (s', os')) (hwf : Wf s) :
    ∃ new, s'.insts = s.insts ++ new ∧ (∀ i ∈ new, C01Dse.isBlock i = false) ∧ AStep V s s' new :=
  AStep.of_nstep (emitAll_nstep ps vars hr hwf)

theorem emitReadAll_an {V : State w → Prop} (ps : List (Rebuild w)) (vars : List Int) {s : Rebuild w}
    {os os' : Orders} {s' : Rebuild w} (hr : (emitReadAll ps vars s).run os = .ok (s', os')) (hwf : Wf s) :
    ∃ new, s'.insts = s.insts ++ new ∧ (∀ i ∈ new, C01Dse.isBlock i = false) ∧ AStep V s s' new :=
  AStep.of_nstep (emitReadAll_nstep ps vars hr hwf)

theorem clobber_an {V : State w → Prop} {s : Rebuild w} (ps : List (Rebuild w)) (var : Int) (maybe : Bool)
    {os os' : Orders} {s' : Rebuild w} (hr : (clobber s ps var maybe).run os = .ok (s', os')) (hwf : Wf s) :
    ∃ new, s'.insts = s.insts ++ new ∧ (∀ i ∈ new, C01Dse.isBlock i = false) ∧ AStep V s s' new :=
  AStep.of_nstep (clobber_nstep ps var maybe hr hwf)

theorem clobberAll_an {V : State w → Prop} (ps : List (Rebuild w)) (vars : List (Int × Bool)) {s : Rebuild w}
    {os os' : Orders} {s' : Rebuild w} (hr : (clobberAll ps vars s).run os = .ok (s', os')) (hwf : Wf s) :
    ∃ new, s'.insts = s.insts ++ new ∧ (∀ i ∈ new, C01Dse.isBlock i = false) ∧ AStep V s s' new :=
  AStep.of_nstep (clobberAll_nstep ps vars hr hwf)

theorem clobberPhase_an {V : State w → Prop} {s : Rebuild w} {ps : List (Rebuild w)} {sub : Rebuild w}
    {L : OptLoop w} {C : List Int} {os os' : Orders} {s' : Rebuild w}
    (hr : (clobberPhase s ps sub L C).run os = .ok (s', os')) (hwf : Wf s) :
    ∃ new, s'.insts = s.insts ++ new ∧ (∀ i ∈ new, C01Dse.isBlock i = false) ∧ AStep V s s' new :=
  AStep.of_nstep (clobberPhase_nstep hr hwf)

theorem performAll_an {V : State w → Prop} {s : Rebuild w} {ps : List (Rebuild w)} {shift : Int}
    {calcs : List (Int × Expr w)} {os os' : Orders} {s' : Rebuild w}
    (hr : (performAll s ps shift calcs).run os = .ok (s', os')) (hwf : Wf s) :
    ∃ new, s'.insts = s.insts ++ new ∧ (∀ i ∈ new, C01Dse.isBlock i = false) ∧ AStep V s s' new :=
  AStep.of_nstep (performAll_nstep hr hwf)

/-- The non-loop arms of `rebuildInstr`. -/
theorem rebuildInstr_straight_an {V : State w → Prop} {ps : List (Rebuild w)} {s : Rebuild w} {i : Instr w}
    {os os' : Orders} {s' : Rebuild w} (hr : (rebuildInstr ps s i).run os = .ok (s', os')) (hwf : Wf s)
    (hb : C01Dse.isBlock i = false) :
    ∃ new, s'.insts = s.insts ++ new ∧ (∀ i ∈ new, C01Dse.isBlock i = false) ∧ AStep V s s' new :=
  AStep.of_nstep (rebuildInstr_nstep hr hwf hb)

/-- The parent's preparation in `loopOrIf` (both modes). -/
theorem loopPrep_an {V : State w → Prop} {s : Rebuild w} {ps : List (Rebuild w)} {sub : Rebuild w} {cond : Int}
    {L : OptLoop w} {C : List Int} {os os' : Orders} {r : Rebuild w × Rebuild w × List Int}
    (hr : (loopPrep s ps sub cond L C).run os = .ok (r, os')) (hwf : Wf s) :
    ∃ new, r.1.insts = s.insts ++ new ∧ (∀ i ∈ new, C01Dse.isBlock i = false) ∧ AStep V s r.1 new :=
  AStep.of_nstep (loopPrep_nstep hr hwf).1

end OptProof
end Hpbf

#print axioms Hpbf.OptProof.rebuildInstr_straight_an
