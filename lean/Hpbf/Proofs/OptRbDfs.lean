/-
Rebuild-round proofs: `gatherForEmit` (the Tarjan-style DFS over the `reverse` edges that decides which pending
calculations must be emitted, in which groups and in which order).

Main results
* `par_split`            – splitting a reader-closed group off a simultaneous assignment;
* `popComp_spec`         – the `while stack.len() != stack_len` loop;
* `dfs_spec`             – specification of one call of `gatherToEmitDfs` (for every oracle);
* `gatherForEmit_spec`   – the theorem used by the rebuild proofs.
-/
import Hpbf.Proofs.OptRbInv

namespace Hpbf
namespace OptProof
open Opt OptSem
variable {w : Nat}

theorem dfsM_bind_ok {α β : Type} (x : M α) (f : α → M β) (os : Orders) (r : β × Orders) :
    (x >>= f).run os = .ok r ↔ ∃ a os1, x.run os = .ok (a, os1) ∧ (f a).run os1 = .ok r := by
  rw [StateT.run_bind]
  cases h : x.run os with
  | error e => simp [bind, Except.bind]
  | ok p =>
    obtain ⟨a, o⟩ := p
    simp only [bind, Except.bind]
    constructor
    · intro h; exact ⟨a, o, rfl, h⟩
    · rintro ⟨a', o', h1, h2⟩; cases h1; exact h2

theorem dfsM_pure_ok {α : Type} (a : α) (os : Orders) (r : α × Orders) :
    (pure a : M α).run os = .ok r ↔ r = (a, os) := by
  show Except.ok (a, os) = Except.ok r ↔ _
  constructor
  · intro h; cases h; rfl
  · intro h; rw [h]

theorem dfsM_lift_ok {α : Type} (x : Except String α) (os : Orders) (r : α × Orders) :
    (liftM x : M α).run os = .ok r ↔ ∃ a, x = .ok a ∧ r = (a, os) := by
  cases x with
  | error e => 
    show Except.error e = Except.ok r ↔ _
    simp
  | ok a =>
    show Except.ok (a, os) = Except.ok r ↔ _
    constructor
    · intro h; cases h; exact ⟨a, rfl, rfl⟩
    · rintro ⟨a', h1, h2⟩; cases h1; rw [h2]

/-- One step of the loop over `order`. -/
def dfsStep (fuel : Nat) (acc : Dfs w × Nat) (n : Int) : M (Dfs w × Nat) :=
  match mGet acc.1.visited n with
  | some v => pure (acc.1, min acc.2 v)
  | none => gatherToEmitDfs fuel acc.1 n >>= fun r => pure (r.1, min acc.2 r.2)

def dfsEnter (d : Dfs w) (var : Int) : Dfs w :=
  { d with index := d.index + 1, visited := mSet d.visited var d.index }

def dfsLoop (fuel : Nat) (d : Dfs w) (var : Int) : M (Dfs w × Nat) :=
  match mGet d.s.reverse var with
  | none => pure (dfsEnter d var, d.index)
  | some next => takeOrder var next >>= fun order => order.foldlM (dfsStep fuel) (dfsEnter d var, d.index)

def dfsFinish (stackLen curIndex : Nat) (var : Int) (p : Dfs w × Nat) : M (Dfs w × Nat) :=
  if p.2 == curIndex then
    (liftM (popComp stackLen (var :: p.1.stack) p.1.s []) : M _) >>= fun r =>
      pure ({ s := r.1, index := p.1.index, visited := p.1.visited, stack := r.2.1,
                comps := if r.2.2.isEmpty then p.1.comps else p.1.comps ++ [r.2.2] }, p.2)
  else pure ({ s := p.1.s, index := p.1.index, visited := p.1.visited, stack := var :: p.1.stack,
               comps := p.1.comps }, p.2)

theorem dfs_unfold (fuel : Nat) (d : Dfs w) (var : Int) :
    gatherToEmitDfs (fuel + 1) d var = dfsLoop fuel d var >>= dfsFinish d.stack.length d.index var := by
  simp only [gatherToEmitDfs, dfsLoop, dfsEnter]
  cases mGet d.s.reverse var with
  | none => simp only [pure_bind]; rfl
  | some next => simp only [bind_assoc]; rfl


theorem dfs_zero (d : Dfs w) (var : Int) (os : Orders) (r : (Dfs w × Nat) × Orders) :
    (gatherToEmitDfs 0 d var).run os ≠ .ok r := by
  intro h; cases h

/-- Induction principle for `List.foldlM` in `M`: the invariant is indexed by the processed prefix. -/
theorem dfsM_foldlM_inv {α β : Type} (f : β → α → M β) (Inv : List α → β → Prop) (l0 : List α)
    (hstep : ∀ pre n b1 os1 b2 os2, n ∈ l0 → Inv pre b1 → (f b1 n).run os1 = .ok (b2, os2) →
      Inv (pre ++ [n]) b2) :
    ∀ (l : List α), (∀ n ∈ l, n ∈ l0) → ∀ (pre : List α) (a : β) (os : Orders) (b : β) (os' : Orders),
      Inv pre a → (l.foldlM f a).run os = .ok (b, os') → Inv (pre ++ l) b := by
  intro l
  induction l with
  | nil =>
    intro _ pre a os b os' h0 hr
    rw [List.foldlM_nil, dfsM_pure_ok] at hr
    cases hr
    simpa using h0
  | cons n l ih =>
    intro hl pre a os b os' h0 hr
    rw [List.foldlM_cons, dfsM_bind_ok] at hr
    obtain ⟨b1, os1, h1, h2⟩ := hr
    have := ih (fun m hm => hl m (List.mem_cons_of_mem _ hm)) (pre ++ [n]) b1 os1 b os'
      (hstep pre n a os b1 os1 (hl n (by simp)) h0 h1) h2
    simpa using this

/-! ### the semantic lemma: splitting a reader-closed group off a simultaneous assignment -/

/-- `P'` is `P` without the keys of the group `G` (whose entries are entries of `P`), and no remaining entry
reads a target of `G`: the simultaneous assignment `P` is `G` followed by `P'`. -/
theorem par_split (P P' G : List (Int × Expr w))
    (hG : ∀ ke ∈ G, mGet P ke.1 = some ke.2)
    (hP' : ∀ k, mGet P' k = if k ∈ G.map (·.1) then none else mGet P k)
    (hcl : ∀ u e, mGet P' u = some e → ∀ k ∈ G.map (·.1), k ∉ Expr.variables e)
    (E : Mem w) : Mem.par P E = Mem.par P' (Mem.par G E) := by
  funext v
  by_cases hv : v ∈ G.map (·.1)
  · have h1 : mGet P' v = none := by rw [hP', if_pos hv]
    cases hg : mGet G v with
    | none => exact absurd hv ((mGet_none_iff G v).1 hg)
    | some e =>
      have h2 : mGet P v = some e := hG (v, e) (mGet_some_mem hg)
      rw [par_of_get P E v e h2, par_of_not_mem P' _ v h1, par_of_get G E v e hg]
  · have h1 : mGet P' v = mGet P v := by rw [hP', if_neg hv]
    have hg : mGet G v = none := (mGet_none_iff G v).2 hv
    cases hp : mGet P v with
    | none =>
      rw [par_of_not_mem P E v hp, par_of_not_mem P' _ v (h1.trans hp), par_of_not_mem G E v hg]
    | some e =>
      rw [par_of_get P E v e hp, par_of_get P' _ v e (h1.trans hp)]
      apply ev_congr
      intro x hx
      have : x ∉ G.map (·.1) := fun hxg => hcl v e (h1.trans hp) x hxg hx
      exact (par_of_not_mem G E x ((mGet_none_iff G x).2 this)).symm

/-- The same with `P'` given literally as `P` with the keys of `G` erased. -/
theorem mGet_foldl_mErase {ν : Type} (ks : List Int) : ∀ {P : List (Int × ν)}, Sorted P → ∀ k,
    Sorted (ks.foldl mErase P) ∧ mGet (ks.foldl mErase P) k = if k ∈ ks then none else mGet P k := by
  induction ks with
  | nil => intro P h k; simpa using h
  | cons a ks ih =>
    intro P h k
    have := ih (sorted_mErase h a) k
    refine ⟨this.1, ?_⟩
    rw [List.foldl_cons, this.2, mGet_mErase h]
    by_cases h1 : k ∈ ks
    · simp [h1]
    · by_cases h2 : a = k
      · simp [h2]
      · have : ¬ k = a := fun e => h2 e.symm
        simp [h1, h2, this]

theorem par_split_erase (P G : List (Int × Expr w)) (hs : Sorted P)
    (hG : ∀ ke ∈ G, mGet P ke.1 = some ke.2)
    (hcl : ∀ u e, mGet ((G.map (·.1)).foldl mErase P) u = some e → ∀ k ∈ G.map (·.1), k ∉ Expr.variables e)
    (E : Mem w) : Mem.par P E = Mem.par ((G.map (·.1)).foldl mErase P) (Mem.par G E) :=
  par_split P _ G hG (fun k => (mGet_foldl_mErase (G.map (·.1)) hs k).2) hcl E

/-! ### `popComp` -/

theorem popComp_spec (stackLen : Nat) : ∀ (stack : List Int) (s : Rebuild w) (comp : List (Int × Expr w))
    (s' : Rebuild w) (stack' : List Int) (comp' : List (Int × Expr w)),
    Wf s → popComp stackLen stack s comp = .ok (s', stack', comp') →
    ∃ popped new, stack = popped ++ stack' ∧ stack'.length = stackLen ∧ comp' = comp ++ new ∧ Wf s' ∧
      SameButPend s s' ∧
      (∀ k, mGet s'.pending k = if k ∈ popped then none else mGet s.pending k) ∧
      (new.map (·.1)).Nodup ∧ (∀ ke ∈ new, ke.1 ∈ popped ∧ mGet s.pending ke.1 = some ke.2) ∧
      (∀ k ∈ popped, mGet s.pending k ≠ none → k ∈ new.map (·.1)) := by
  intro stack
  induction stack with
  | nil =>
    intro s comp s' stack' comp' hwf h
    rw [popComp] at h
    split at h
    · rename_i h0
      cases h
      refine ⟨[], [], rfl, ?_, by simp, hwf, SameButPend.refl s, by simp, by simp, by simp, by simp⟩
      simpa using h0
    · cases h
  | cons var rest ih =>
    intro s comp s' stack' comp' hwf h
    rw [popComp] at h
    split at h
    · rename_i h0
      cases h
      refine ⟨[], [], rfl, ?_, by simp, hwf, SameButPend.refl s, by simp, by simp, by simp, by simp⟩
      simpa using h0
    · have hsnd := removePending_snd s var
      have hget := removePending_get hwf var
      have hwf1 := removePending_wf hwf var
      have hsame := removePending_same s var
      cases hrp : removePending s var with
      | mk s1 o =>
        rw [hrp] at hsnd hget hwf1 hsame h
        simp only at hsnd hget hwf1 hsame
        cases o with
        | none =>
          simp only at h
          obtain ⟨popped, new, e1, e2, e3, w', sm, g', nd, src, cov⟩ := ih s1 comp s' stack' comp' hwf1 h
          refine ⟨var :: popped, new, by rw [e1]; rfl, e2, e3, w', hsame.trans sm, ?_, nd, ?_, ?_⟩
          · intro k
            rw [g', hget]
            by_cases hk : var = k
            · subst hk; simp
            · have : ¬ k = var := fun e => hk e.symm
              simp [hk, this]
          · intro ke hke
            obtain ⟨a, b⟩ := src ke hke
            refine ⟨List.mem_cons_of_mem _ a, ?_⟩
            rw [hget] at b
            by_cases hk : var = ke.1
            · simp [hk] at b
            · simpa [hk] using b
          · intro k hk hp
            rcases List.mem_cons.1 hk with e | e
            · subst e; exact absurd hsnd.symm hp
            · apply cov k e
              rw [hget]
              by_cases hk : var = k
              · subst hk; exact absurd hsnd.symm hp
              · simpa [hk] using hp
        | some ex =>
          simp only at h
          obtain ⟨popped, new, e1, e2, e3, w', sm, g', nd, src, cov⟩ :=
            ih s1 (comp ++ [(var, ex)]) s' stack' comp' hwf1 h
          refine ⟨var :: popped, (var, ex) :: new, by rw [e1]; rfl, e2, by rw [e3]; simp, w',
            hsame.trans sm, ?_, ?_, ?_, ?_⟩
          · intro k
            rw [g', hget]
            by_cases hk : var = k
            · subst hk; simp
            · have : ¬ k = var := fun e => hk e.symm
              simp [hk, this]
          · rw [List.map_cons, List.nodup_cons]
            refine ⟨?_, nd⟩
            intro hm
            obtain ⟨ke, hke, e⟩ := List.mem_map.1 hm
            have := (src ke hke).2
            rw [hget, e] at this
            simp at this
          · intro ke hke
            rcases List.mem_cons.1 hke with e | e
            · subst e; exact ⟨by simp, hsnd.symm⟩
            · obtain ⟨a, b⟩ := src ke e
              refine ⟨List.mem_cons_of_mem _ a, ?_⟩
              rw [hget] at b
              by_cases hk : var = ke.1
              · simp [hk] at b
              · simpa [hk] using b
          · intro k hk hp
            rw [List.map_cons, List.mem_cons]
            by_cases hkv : k = var
            · exact Or.inl hkv
            · right
              rcases List.mem_cons.1 hk with e | e
              · exact absurd e hkv
              · apply cov k e
                rw [hget]
                have : ¬ var = k := fun e => hkv e.symm
                simpa [this] using hp

/-! ### what a sequence of pops does to a state -/

/-- `s'` is `s` after emitting the groups `new` (in this order). -/
structure EmitStep (s s' : Rebuild w) (new : List (List (Int × Expr w))) : Prop where
  wf : Wf s'
  same : SameButPend s s'
  sub : ∀ k e, mGet s'.pending k = some e → mGet s.pending k = some e
  nodup : ∀ g ∈ new, (g.map (·.1)).Nodup ∧ g ≠ []
  src : ∀ g ∈ new, ∀ ve ∈ g, mGet s.pending ve.1 = some ve.2
  cover : ∀ k, mGet s'.pending k = none → mGet s.pending k ≠ none → ∃ g ∈ new, k ∈ g.map (·.1)
  sem : ∀ E : Mem w, Mem.par s.pending E = Mem.par s'.pending (Mem.seq new E)

theorem EmitStep.refl {s : Rebuild w} (h : Wf s) : EmitStep s s [] :=
  ⟨h, SameButPend.refl s, fun _ _ h => h, by simp, by simp, fun k h1 h2 => absurd h1 h2, fun E => rfl⟩

theorem EmitStep.pend_none {s s' : Rebuild w} {new : List (List (Int × Expr w))} (h : EmitStep s s' new) {k : Int}
    (hk : mGet s.pending k = none) : mGet s'.pending k = none := by
  cases h' : mGet s'.pending k with
  | none => rfl
  | some e => rw [h.sub k e h'] at hk; cases hk

theorem EmitStep.trans {a b c : Rebuild w} {n1 n2 : List (List (Int × Expr w))} (h1 : EmitStep a b n1)
    (h2 : EmitStep b c n2) : EmitStep a c (n1 ++ n2) := by
  refine ⟨h2.wf, h1.same.trans h2.same, fun k e h => h1.sub k e (h2.sub k e h), ?_, ?_, ?_, ?_⟩
  · intro g hg
    rcases List.mem_append.1 hg with h | h
    · exact h1.nodup g h
    · exact h2.nodup g h
  · intro g hg ve hve
    rcases List.mem_append.1 hg with h | h
    · exact h1.src g h ve hve
    · exact h1.sub _ _ (h2.src g h ve hve)
  · intro k hc ha
    cases hb : mGet b.pending k with
    | none =>
      obtain ⟨g, hg, hk⟩ := h1.cover k hb ha
      exact ⟨g, List.mem_append_left _ hg, hk⟩
    | some e =>
      obtain ⟨g, hg, hk⟩ := h2.cover k hc (by rw [hb]; simp)
      exact ⟨g, List.mem_append_right _ hg, hk⟩
  · intro E
    rw [h1.sem E, h2.sem, seq_append]

/-- Readers are never added. -/
theorem EmitStep.readers_mono {s s' : Rebuild w} {new : List (List (Int × Expr w))} (hwf : Wf s) (h : EmitStep s s' new)
    {v u : Int} (hm : memR s'.reverse v u) : memR s.reverse v u := by
  rw [hwf.revOk v u]
  obtain ⟨h1, e, h2, h3⟩ := (h.wf.revOk v u).1 hm
  exact ⟨h1, e, h.sub u e h2, h3⟩

/-- One pop: the popped keys `popped`, the collected group `comp`, no remaining entry reads a key of `comp`. -/
theorem EmitStep.pop {s s' : Rebuild w} {popped : List Int} {comp : List (Int × Expr w)}
    (hwf' : Wf s') (hsame : SameButPend s s')
    (hget : ∀ k, mGet s'.pending k = if k ∈ popped then none else mGet s.pending k)
    (hnd : (comp.map (·.1)).Nodup) (hsrc : ∀ ke ∈ comp, ke.1 ∈ popped ∧ mGet s.pending ke.1 = some ke.2)
    (hcov : ∀ k ∈ popped, mGet s.pending k ≠ none → k ∈ comp.map (·.1))
    (hcl : ∀ u e, mGet s'.pending u = some e → ∀ k ∈ comp.map (·.1), k ∉ Expr.variables e) :
    EmitStep s s' (if comp.isEmpty then [] else [comp]) := by
  have hP' : ∀ k, mGet s'.pending k = if k ∈ comp.map (·.1) then none else mGet s.pending k := by
    intro k
    rw [hget]
    by_cases h1 : k ∈ popped
    · by_cases h2 : k ∈ comp.map (·.1)
      · simp [h1, h2]
      · have : mGet s.pending k = none := by
          cases h3 : mGet s.pending k with
          | none => rfl
          | some e => exact absurd (hcov k h1 (by rw [h3]; simp)) h2
        simp [h1, h2, this]
    · have h2 : k ∉ comp.map (·.1) := by
        intro h2
        obtain ⟨ke, hke, e⟩ := List.mem_map.1 h2
        exact h1 (e ▸ (hsrc ke hke).1)
      simp [h1, h2]
  have key : ∀ E : Mem w, Mem.par s.pending E = Mem.par s'.pending (Mem.par comp E) :=
    par_split _ _ comp (fun ke h => (hsrc ke h).2) hP' hcl
  have hsub : ∀ k e, mGet s'.pending k = some e → mGet s.pending k = some e := by
    intro k e h
    rw [hget] at h
    split at h
    · cases h
    · exact h
  have hcover : ∀ k, mGet s'.pending k = none → mGet s.pending k ≠ none → k ∈ comp.map (·.1) := by
    intro k h1 h2
    rw [hP'] at h1
    split at h1
    · assumption
    · exact absurd h1 h2
  cases comp with
  | nil =>
    refine ⟨hwf', hsame, hsub, by simp, by simp, ?_, ?_⟩
    · intro k h1 h2
      have := hcover k h1 h2
      simp at this
    · intro E
      have := key E
      simpa using this
  | cons c cs =>
    refine ⟨hwf', hsame, hsub, ?_, ?_, ?_, ?_⟩
    · intro g hg
      simp only [List.isEmpty_cons, Bool.false_eq_true, if_false, List.mem_singleton] at hg
      subst hg
      exact ⟨hnd, by simp⟩
    · intro g hg ve hve
      simp only [List.isEmpty_cons, Bool.false_eq_true, if_false, List.mem_singleton] at hg
      subst hg
      exact (hsrc ve hve).2
    · intro k h1 h2
      exact ⟨c :: cs, by simp, hcover k h1 h2⟩
    · intro E
      simpa using key E

/-! ### the specification of one call of `gatherToEmitDfs` -/

/-- Precondition of a call on `x`. -/
structure DfsPre (d : Dfs w) (x : Int) : Prop where
  wf : Wf d.s
  fresh : mGet d.visited x = none
  bound : ∀ n i, mGet d.visited n = some i → i < d.index

/-- Postcondition of a call on `x` that returned `(d', low)`; `seg` = what the call left on the stack,
`new` = the groups it emitted. -/
structure DfsPost (d : Dfs w) (x : Int) (d' : Dfs w) (low : Nat) (seg : List Int)
    (new : List (List (Int × Expr w))) : Prop where
  old : ∀ n i, mGet d.visited n = some i → mGet d'.visited n = some i
  self : mGet d'.visited x = some d.index
  newge : ∀ n i, mGet d'.visited n = some i → mGet d.visited n = none → d.index ≤ i
  bound : ∀ n i, mGet d'.visited n = some i → i < d'.index
  stack : d'.stack = seg ++ d.stack
  newpend : ∀ n, mGet d.visited n = none → mGet d'.visited n ≠ none → n ∈ seg ∨ mGet d'.s.pending n = none
  lowle : low ≤ d.index
  readers : ∀ y ∈ seg, ∀ u, memR d'.s.reverse y u →
    ∃ i, mGet d'.visited u = some i ∧ (mGet d.visited u ≠ none → low ≤ i)
  rootr : ∀ u, memR d.s.reverse x u → mGet d'.visited u ≠ none
  popped : low = d.index → seg = []
  step : EmitStep d.s d'.s new
  comps : d'.comps = d.comps ++ new

/-- Invariant of the loop over `order` inside the call on `x` started in `d`: `pre` = the processed prefix,
`(dl, low)` = the loop state. -/
structure DfsLoopI (d : Dfs w) (x : Int) (pre : List Int) (dl : Dfs w) (low : Nat) (seg : List Int)
    (new : List (List (Int × Expr w))) : Prop where
  old : ∀ n i, mGet d.visited n = some i → mGet dl.visited n = some i
  self : mGet dl.visited x = some d.index
  newge : ∀ n i, mGet dl.visited n = some i → mGet d.visited n = none → d.index ≤ i
  bound : ∀ n i, mGet dl.visited n = some i → i < dl.index
  stack : dl.stack = seg ++ d.stack
  newpend : ∀ n, mGet d.visited n = none → n ≠ x → mGet dl.visited n ≠ none →
    n ∈ seg ∨ mGet dl.s.pending n = none
  lowle : low ≤ d.index
  readers : ∀ y ∈ seg, ∀ u, memR dl.s.reverse y u →
    ∃ i, mGet dl.visited u = some i ∧ (mGet d.visited u ≠ none → low ≤ i)
  done : ∀ n ∈ pre, ∃ i, mGet dl.visited n = some i ∧ (mGet d.visited n ≠ none → low ≤ i)
  step : EmitStep d.s dl.s new
  comps : dl.comps = d.comps ++ new

theorem dfsLoop_init {d : Dfs w} {x : Int} (h : DfsPre d x) :
    DfsLoopI d x [] (dfsEnter d x) d.index [] [] := by
  refine ⟨?_, ?_, ?_, ?_, rfl, ?_, Nat.le_refl _, by simp, by simp, EmitStep.refl h.wf, by simp [dfsEnter]⟩
  · intro n i hn
    show mGet (mSet d.visited x d.index) n = some i
    rw [mGet_mSet]
    by_cases hx : x = n
    · subst hx; rw [h.fresh] at hn; cases hn
    · simp [hx, hn]
  · exact mGet_mSet_same _ _ _
  · intro n i hn h0
    change mGet (mSet d.visited x d.index) n = some i at hn
    rw [mGet_mSet] at hn
    by_cases hx : x = n
    · simp [hx] at hn; omega
    · simp [hx, h0] at hn
  · intro n i hn
    change mGet (mSet d.visited x d.index) n = some i at hn
    show i < d.index + 1
    rw [mGet_mSet] at hn
    by_cases hx : x = n
    · simp [hx] at hn; omega
    · simp only [hx, if_false] at hn
      have := h.bound n i hn; omega
  · intro n h0 hx hv
    change mGet (mSet d.visited x d.index) n ≠ none at hv
    rw [mGet_mSet] at hv
    have : ¬ x = n := fun e => hx e.symm
    simp [this, h0] at hv

theorem DfsLoopI.visit {d : Dfs w} {x : Int} {pre : List Int} {dl : Dfs w} {low : Nat} {seg : List Int}
    {new : List (List (Int × Expr w))} (h : DfsLoopI d x pre dl low seg new) {n : Int} {v : Nat}
    (hv : mGet dl.visited n = some v) : DfsLoopI d x (pre ++ [n]) dl (min low v) seg new := by
  refine ⟨h.old, h.self, h.newge, h.bound, h.stack, h.newpend, Nat.le_trans (Nat.min_le_left _ _) h.lowle,
    ?_, ?_, h.step, h.comps⟩
  · intro y hy u hu
    obtain ⟨i, hi, hl⟩ := h.readers y hy u hu
    exact ⟨i, hi, fun h0 => Nat.le_trans (Nat.min_le_left _ _) (hl h0)⟩
  · intro m hm
    rcases List.mem_append.1 hm with hm | hm
    · obtain ⟨i, hi, hl⟩ := h.done m hm
      exact ⟨i, hi, fun h0 => Nat.le_trans (Nat.min_le_left _ _) (hl h0)⟩
    · rw [List.mem_singleton] at hm
      subst hm
      exact ⟨v, hv, fun _ => Nat.min_le_right _ _⟩

theorem DfsLoopI.child_pre {d : Dfs w} {x : Int} {pre : List Int} {dl : Dfs w} {low : Nat} {seg : List Int}
    {new : List (List (Int × Expr w))} (h : DfsLoopI d x pre dl low seg new) {n : Int}
    (hn : mGet dl.visited n = none) : DfsPre dl n :=
  ⟨h.step.wf, hn, h.bound⟩

theorem DfsLoopI.call {d : Dfs w} {x : Int} {pre : List Int} {dl : Dfs w} {low : Nat} {seg : List Int}
    {new : List (List (Int × Expr w))} (h : DfsLoopI d x pre dl low seg new) {n : Int}
    (hn : mGet dl.visited n = none) {d2 : Dfs w} {reached : Nat} {segc : List Int}
    {newc : List (List (Int × Expr w))} (hc : DfsPost dl n d2 reached segc newc) :
    DfsLoopI d x (pre ++ [n]) d2 (min low reached) (segc ++ seg) (new ++ newc) := by
  have hvis : ∀ u, mGet d.visited u ≠ none → mGet dl.visited u ≠ none := by
    intro u h0
    cases hd : mGet d.visited u with
    | none => exact absurd hd h0
    | some j => rw [h.old u j hd]; simp
  refine ⟨fun m i hm => hc.old m i (h.old m i hm), hc.old x _ h.self, ?_, hc.bound, ?_, ?_,
    Nat.le_trans (Nat.min_le_left _ _) h.lowle, ?_, ?_, h.step.trans hc.step, ?_⟩
  · intro m i hm h0
    cases hl : mGet dl.visited m with
    | some j =>
      have := hc.old m j hl
      rw [hm] at this; cases this
      exact h.newge m i hl h0
    | none =>
      have h1 := hc.newge m i hm hl
      have h2 := h.bound x _ h.self
      omega
  · rw [hc.stack, h.stack, List.append_assoc]
  · intro m h0 hmx hv
    cases hl : mGet dl.visited m with
    | none =>
      rcases hc.newpend m hl hv with a | a
      · exact Or.inl (List.mem_append_left _ a)
      · exact Or.inr a
    | some j =>
      rcases h.newpend m h0 hmx (by rw [hl]; simp) with a | a
      · exact Or.inl (List.mem_append_right _ a)
      · exact Or.inr (hc.step.pend_none a)
  · intro y hy u hu
    rcases List.mem_append.1 hy with hy | hy
    · obtain ⟨i, hi, hl⟩ := hc.readers y hy u hu
      exact ⟨i, hi, fun h0 => Nat.le_trans (Nat.min_le_right _ _) (hl (hvis u h0))⟩
    · obtain ⟨i, hi, hl⟩ := h.readers y hy u (hc.step.readers_mono h.step.wf hu)
      exact ⟨i, hc.old u i hi, fun h0 => Nat.le_trans (Nat.min_le_left _ _) (hl h0)⟩
  · intro m hm
    rcases List.mem_append.1 hm with hm | hm
    · obtain ⟨i, hi, hl⟩ := h.done m hm
      exact ⟨i, hc.old m i hi, fun h0 => Nat.le_trans (Nat.min_le_left _ _) (hl h0)⟩
    · rw [List.mem_singleton] at hm
      subst hm
      exact ⟨dl.index, hc.self, fun h0 => absurd hn (hvis m h0)⟩
  · rw [hc.comps, h.comps, List.append_assoc]

theorem DfsLoopI.finish_nopop {d : Dfs w} {x : Int} {pre : List Int} {d2 : Dfs w} {low : Nat} {seg : List Int}
    {new : List (List (Int × Expr w))} (hpre : DfsPre d x) (h : DfsLoopI d x pre d2 low seg new)
    (hall : ∀ u, memR d.s.reverse x u → u ∈ pre) (hne : low ≠ d.index) :
    DfsPost d x { s := d2.s, index := d2.index, visited := d2.visited, stack := x :: d2.stack,
                   comps := d2.comps } low (x :: seg) new := by
  refine ⟨h.old, h.self, h.newge, h.bound, ?_, ?_, h.lowle, ?_, ?_, fun e => absurd e hne, h.step, h.comps⟩
  · show x :: d2.stack = (x :: seg) ++ d.stack
    rw [h.stack]; rfl
  · intro n h0 hv
    by_cases hx : n = x
    · left; simp [hx]
    · rcases h.newpend n h0 hx hv with a | a
      · exact Or.inl (List.mem_cons_of_mem _ a)
      · exact Or.inr a
  · intro y hy u hu
    rcases List.mem_cons.1 hy with e | e
    · rw [e] at hu
      exact h.done u (hall u (h.step.readers_mono hpre.wf hu))
    · exact h.readers y e u hu
  · intro u hu
    obtain ⟨i, hi, _⟩ := h.done u (hall u hu)
    show mGet d2.visited u ≠ none
    rw [hi]; simp

theorem DfsLoopI.finish_pop {d : Dfs w} {x : Int} {pre : List Int} {d2 : Dfs w} {low : Nat} {seg : List Int}
    {new : List (List (Int × Expr w))} (hpre : DfsPre d x) (h : DfsLoopI d x pre d2 low seg new)
    (hall : ∀ u, memR d.s.reverse x u → u ∈ pre) (heq : low = d.index)
    {s' : Rebuild w} {stack' : List Int} {comp : List (Int × Expr w)}
    (hp : popComp d.stack.length (x :: d2.stack) d2.s [] = .ok (s', stack', comp)) :
    DfsPost d x { s := s', index := d2.index, visited := d2.visited, stack := stack',
                   comps := if comp.isEmpty then d2.comps else d2.comps ++ [comp] } low []
      (new ++ if comp.isEmpty then [] else [comp]) := by
  obtain ⟨popped, newg, e1, e2, e3, wf', same, get, nd, src, cov⟩ := popComp_spec _ _ _ _ _ _ _ h.step.wf hp
  rw [h.stack] at e1
  obtain ⟨ea, eb⟩ := List.append_inj' (s₁ := x :: seg) e1 e2.symm
  subst ea; subst eb
  simp only [List.nil_append] at e3
  subst e3
  have hcl : ∀ u e, mGet s'.pending u = some e → ∀ k ∈ comp.map (·.1), k ∉ Expr.variables e := by
    intro u e hu k hk hkv
    obtain ⟨ke, hke, rfl⟩ := List.mem_map.1 hk
    have hkp := (src ke hke).1
    have hu2 : mGet d2.s.pending u = some e ∧ u ∉ x :: seg := by
      have := get u
      rw [hu] at this
      by_cases hup : u ∈ x :: seg
      · simp [hup] at this
      · simp only [hup, if_false] at this
        exact ⟨this.symm, hup⟩
    have hne : u ≠ ke.1 := fun e => hu2.2 (e ▸ hkp)
    have hm : memR d2.s.reverse ke.1 u := (h.step.wf.revOk ke.1 u).2 ⟨hne, e, hu2.1, hkv⟩
    have hvis : ∃ i, mGet d2.visited u = some i ∧ (mGet d.visited u ≠ none → low ≤ i) := by
      rcases List.mem_cons.1 hkp with e | e
      · rw [e] at hm
        exact h.done u (hall u (h.step.readers_mono hpre.wf hm))
      · exact h.readers _ e u hm
    obtain ⟨i, hi, hl⟩ := hvis
    cases h0 : mGet d.visited u with
    | some j =>
      have h1 := h.old u j h0
      rw [hi] at h1; cases h1
      have h2 := hpre.bound u i h0
      have h3 := hl (by rw [h0]; simp)
      omega
    | none =>
      have hux : u ≠ x := fun e => hu2.2 (by simp [e])
      rcases h.newpend u h0 hux (by rw [hi]; simp) with a | a
      · exact hu2.2 (List.mem_cons_of_mem _ a)
      · rw [hu2.1] at a; cases a
  have hstep := EmitStep.pop wf' same get nd src cov hcl
  refine ⟨h.old, h.self, h.newge, h.bound, rfl, ?_, h.lowle, by simp, ?_, fun _ => rfl, h.step.trans hstep, ?_⟩
  · intro n h0 hv
    right
    show mGet s'.pending n = none
    rw [get]
    by_cases hx : n = x
    · simp [hx]
    · rcases h.newpend n h0 hx hv with a | a
      · simp [a]
      · split
        · rfl
        · exact a
  · intro u hu
    obtain ⟨i, hi, _⟩ := h.done u (hall u hu)
    show mGet d2.visited u ≠ none
    rw [hi]; simp
  · show (if comp.isEmpty then d2.comps else d2.comps ++ [comp]) = _
    rw [h.comps]
    cases comp <;> simp

theorem takeOrder_mem {var : Int} {next : List Int} {os : Orders} {order : List Int} {os' : Orders}
    (h : (takeOrder var next).run os = .ok (order, os')) : ∀ u ∈ next, u ∈ order := by
  simp only [takeOrder, StateT.run] at h
  split at h
  · cases h
  · split at h
    · cases h
    · split at h
      · rename_i hc
        cases h
        simp only [Bool.and_eq_true, List.all_eq_true, List.contains_iff_mem] at hc
        exact hc.1.2
      · cases h

/-- Specification of one call of `gatherToEmitDfs`, for every oracle. -/
theorem dfs_spec : ∀ (fuel : Nat) (d : Dfs w) (x : Int) (os : Orders) (d' : Dfs w) (low : Nat) (os' : Orders),
    DfsPre d x → (gatherToEmitDfs fuel d x).run os = .ok ((d', low), os') →
    ∃ seg new, DfsPost d x d' low seg new := by
  intro fuel
  induction fuel with
  | zero => intro d x os d' low os' _ h; exact absurd h (dfs_zero d x os _)
  | succ fuel ih =>
    intro d x os d' low os' hpre h
    rw [dfs_unfold, dfsM_bind_ok] at h
    obtain ⟨⟨d2, low2⟩, os1, hloop, hfin⟩ := h
    have hL : ∃ pre seg new, DfsLoopI d x pre d2 low2 seg new ∧ ∀ u, memR d.s.reverse x u → u ∈ pre := by
      unfold dfsLoop at hloop
      cases hr : mGet d.s.reverse x with
      | none =>
        rw [hr] at hloop
        simp only at hloop
        rw [dfsM_pure_ok] at hloop
        cases hloop
        refine ⟨[], [], [], dfsLoop_init hpre, ?_⟩
        rintro u ⟨us, h1, _⟩
        rw [hr] at h1; cases h1
      | some next =>
        rw [hr] at hloop
        simp only at hloop
        rw [dfsM_bind_ok] at hloop
        obtain ⟨order, os2, hto, hfold⟩ := hloop
        have hstep : ∀ (pre : List Int) (n : Int) (b1 : Dfs w × Nat) (o1 : Orders) (b2 : Dfs w × Nat)
            (o2 : Orders), n ∈ order → (∃ seg new, DfsLoopI d x pre b1.1 b1.2 seg new) →
            (dfsStep fuel b1 n).run o1 = .ok (b2, o2) →
            ∃ seg new, DfsLoopI d x (pre ++ [n]) b2.1 b2.2 seg new := by
          rintro pre n b1 o1 b2 o2 _ ⟨seg, new, hI⟩ hrun
          unfold dfsStep at hrun
          cases hv : mGet b1.1.visited n with
          | some v =>
            rw [hv] at hrun
            simp only at hrun
            rw [dfsM_pure_ok] at hrun
            cases hrun
            exact ⟨seg, new, hI.visit hv⟩
          | none =>
            rw [hv] at hrun
            simp only at hrun
            rw [dfsM_bind_ok] at hrun
            obtain ⟨⟨d3, reached⟩, o3, hcall, hp⟩ := hrun
            rw [dfsM_pure_ok] at hp
            cases hp
            obtain ⟨segc, newc, hc⟩ := ih b1.1 n o1 d3 reached _ (hI.child_pre hv) hcall
            exact ⟨_, _, hI.call hv hc⟩
        have := dfsM_foldlM_inv (dfsStep fuel) (fun pre acc => ∃ seg new, DfsLoopI d x pre acc.1 acc.2 seg new)
          order hstep order (fun _ h => h) [] _ _ _ _ ⟨[], [], dfsLoop_init hpre⟩ hfold
        obtain ⟨seg, new, hI⟩ := this
        refine ⟨_, seg, new, hI, ?_⟩
        rintro u ⟨us, h1, h2⟩
        rw [hr] at h1; cases h1
        simpa using takeOrder_mem hto u h2
    obtain ⟨pre, seg, new, hI, hall⟩ := hL
    unfold dfsFinish at hfin
    split at hfin
    · rename_i h0
      have heq : low2 = d.index := by simpa using h0
      rw [dfsM_bind_ok] at hfin
      obtain ⟨⟨s', stack', comp⟩, os2, hpop, hp⟩ := hfin
      rw [dfsM_lift_ok] at hpop
      obtain ⟨a, ha, e⟩ := hpop
      cases e
      rw [dfsM_pure_ok] at hp
      cases hp
      exact ⟨_, _, hI.finish_pop hpre hall heq ha⟩
    · rename_i h0
      have hne : low2 ≠ d.index := by simpa using h0
      rw [dfsM_pure_ok] at hfin
      cases hfin
      exact ⟨_, _, hI.finish_nopop hpre hall hne⟩

/-! ### `gatherForEmit` on one variable -/

/-- The DFS branch of `gatherForEmit s [var]` is one root call. -/
theorem gatherForEmit_dfs_eq (s : Rebuild w) (var : Int)
    (h : ¬ ([var].all (fun v => !mHas s.reverse v)) = true) :
    gatherForEmit s [var] =
      gatherToEmitDfs (s.pending.length + s.reverse.length + [var].length + 1)
        { s := s, index := 0, visited := [], stack := [], comps := [] } var >>= fun r =>
          pure (r.1.s, r.1.comps) := by
  unfold gatherForEmit
  rw [if_neg h]
  simp only [List.foldlM_cons, List.foldlM_nil, mHas, mGet, Option.isSome_none, Bool.not_false, if_true,
    bind_assoc, pure_bind]

/-- What the callers need, from a `EmitStep` whose result has no entry for `var` and no reader of `var`. -/
theorem gatherForEmit_concl {s s' : Rebuild w} {comps : List (List (Int × Expr w))} (var : Int)
    (hs : EmitStep s s' comps) (h1 : mGet s'.pending var = none)
    (h2 : ∀ u e, mGet s'.pending u = some e → var ∉ Expr.variables e) :
    Wf s' ∧ SameButPend s s' ∧
    (∀ k e, mGet s'.pending k = some e → mGet s.pending k = some e) ∧
    mGet s'.pending var = none ∧
    (∀ u e, mGet s'.pending u = some e → var ∉ Expr.variables e) ∧
    (∀ g ∈ comps, (g.map (·.1)).Nodup ∧ g ≠ []) ∧
    (∀ g ∈ comps, ∀ ve ∈ g, mGet s.pending ve.1 = some ve.2) ∧
    (∀ k, mGet s'.pending k = none → mGet s.pending k ≠ none → ∃ g ∈ comps, k ∈ g.map (·.1)) ∧
    (∀ E : Mem w, Mem.par s.pending E = Mem.par s'.pending (Mem.seq comps E)) :=
  ⟨hs.wf, hs.same, hs.sub, h1, h2, hs.nodup, hs.src, hs.cover, hs.sem⟩

theorem gatherForEmit_spec {s : Rebuild w} (h : Wf s) (var : Int) {os os' : Orders} {s' : Rebuild w}
    {comps : List (List (Int × Expr w))}
    (hr : (gatherForEmit s [var]).run os = .ok ((s', comps), os')) :
    Wf s' ∧ SameButPend s s' ∧
    (∀ k e, mGet s'.pending k = some e → mGet s.pending k = some e) ∧
    mGet s'.pending var = none ∧
    (∀ u e, mGet s'.pending u = some e → var ∉ Expr.variables e) ∧
    (∀ g ∈ comps, (g.map (·.1)).Nodup ∧ g ≠ []) ∧
    (∀ g ∈ comps, ∀ ve ∈ g, mGet s.pending ve.1 = some ve.2) ∧
    (∀ k, mGet s'.pending k = none → mGet s.pending k ≠ none → ∃ g ∈ comps, k ∈ g.map (·.1)) ∧
    (∀ E : Mem w, Mem.par s.pending E = Mem.par s'.pending (Mem.seq comps E)) := by
  by_cases hc : ([var].all (fun v => !mHas s.reverse v)) = true
  · -- nobody reads `var`: just remove its entry
    have hrev : mGet s.reverse var = none := by
      rw [← mHas_false_iff]; simpa using hc
    have hnor : ∀ u e, mGet s.pending u = some e → var ∈ Expr.variables e → u = var := by
      intro u e hu hv
      apply Classical.byContradiction
      intro hne
      obtain ⟨us, h1, _⟩ := (h.revOk var u).2 ⟨hne, e, hu, hv⟩
      rw [hrev] at h1; cases h1
    unfold gatherForEmit at hr
    rw [if_pos hc, dfsM_pure_ok] at hr
    simp only [List.foldl_cons, List.foldl_nil] at hr
    have hsnd := removePending_snd s var
    have hget := removePending_get h var
    have hwf1 := removePending_wf h var
    have hsame := removePending_same s var
    have hnor' : ∀ u e, mGet (removePending s var).1.pending u = some e → var ∉ Expr.variables e := by
      intro u e hu hv
      rw [hget] at hu
      by_cases hk : var = u
      · simp [hk] at hu
      · simp only [hk, if_false] at hu
        exact hk (hnor u e hu hv).symm
    have hvn : mGet (removePending s var).1.pending var = none := by rw [hget]; simp
    cases hrp : removePending s var with
    | mk s1 o =>
      rw [hrp] at hsnd hget hwf1 hsame hr hnor' hvn
      simp only at hsnd hget hwf1 hsame hnor' hvn
      have hget' : ∀ k, mGet s1.pending k = if k ∈ [var] then none else mGet s.pending k := by
        intro k
        rw [hget]
        by_cases hk : var = k
        · subst hk; simp
        · have : ¬ k = var := fun e => hk e.symm
          simp [hk, this]
      cases o with
      | none =>
        simp only at hr
        cases hr
        have := EmitStep.pop (comp := []) hwf1 hsame hget' (by simp) (by simp)
          (by intro k hk hp; simp at hk; subst hk; exact absurd hsnd.symm hp) (by simp)
        exact gatherForEmit_concl var this hvn hnor'
      | some ex =>
        simp only [List.nil_append] at hr
        cases hr
        have := EmitStep.pop (comp := [(var, ex)]) hwf1 hsame hget' (by simp)
          (by intro ke hke; simp at hke; subst hke; exact ⟨by simp, hsnd.symm⟩)
          (by intro k hk _; simpa using hk)
          (by intro u e hu k hk; simp at hk; subst hk; exact hnor' u e hu)
        exact gatherForEmit_concl var this hvn hnor'
  · -- the DFS from the root `var`
    rw [gatherForEmit_dfs_eq s var hc, dfsM_bind_ok] at hr
    obtain ⟨⟨d', low⟩, os1, hcall, hp⟩ := hr
    rw [dfsM_pure_ok] at hp
    cases hp
    have hpre : DfsPre ({ s := s, index := 0, visited := [], stack := [], comps := [] } : Dfs w) var :=
      ⟨h, rfl, fun n i hn => by cases hn⟩
    obtain ⟨seg, new, hpost⟩ := dfs_spec _ _ _ _ _ _ _ hpre hcall
    have hlow : low = 0 := Nat.le_zero.1 hpost.lowle
    have hseg : seg = [] := hpost.popped hlow
    subst hseg
    have hcomps : d'.comps = new := by rw [hpost.comps]; rfl
    rw [hcomps]
    have hnp : ∀ n, mGet d'.visited n ≠ none → mGet d'.s.pending n = none := by
      intro n hn
      rcases hpost.newpend n rfl hn with a | a
      · cases a
      · exact a
    have hvn : mGet d'.s.pending var = none := hnp var (by rw [hpost.self]; simp)
    refine gatherForEmit_concl var hpost.step hvn ?_
    intro u e hu hv
    by_cases hux : u = var
    · subst hux; rw [hvn] at hu; cases hu
    · have hm : memR d'.s.reverse var u := (hpost.step.wf.revOk var u).2 ⟨hux, e, hu, hv⟩
      have := hnp u (hpost.rootr u (hpost.step.readers_mono h hm))
      rw [hu] at this; cases this

end OptProof
end Hpbf

#print axioms Hpbf.OptProof.gatherForEmit_spec
