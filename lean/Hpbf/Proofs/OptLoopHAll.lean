/-
Loop optimisations of `Hpbf/Opt.lean`, HORIZON variants (part C, all variables).

* `loopMotion_prefix_sound`: NO trip count.  For any `N' ≤ N` (only the rounds `k < N` are real) the original run
  `M k = run body P m0 k` and the new run `M' k = run body D (Mem.par B m0) k` agree, at the start of every round
  `k < N'`, on everything in `reads`, and for `k ≤ N'` on every cell outside `Differ'` (moved cells, and
  non-constant pending cells that the new loop does not perform).  Usable for incomplete and infinite runs.
* `loopMotion_all_sound_h`: `loopMotion_all_sound` for a trip count `n ≤ N`.
-/
import Hpbf.Proofs.OptLoopHMotion

namespace Hpbf.OptLoop
open Hpbf Opt OptSem Expr

variable {w : Nat}

/-- The `before` and `during` assignments agree with `loopMotion`, variable by variable. -/
structure MotionBD (s : Rebuild w) (ps : List (Rebuild w)) (sub : Rebuild w) (reads C : List Int)
    (lin : List (Int × Expr w)) (otherPending : List Int) (L : OptLoop w)
    (B D : List (Int × Expr w)) : Prop where
  pend : ∀ var p, mGet sub.pending var = some p →
    ∃ b d a, MotionCase s ps var p (!mHas sub.written var) reads C lin otherPending L (b, d, a) ∧
      mGet B var = b ∧ mGet D var = d
  nopend : ∀ var, mGet sub.pending var = none → mGet B var = none ∧ mGet D var = none

/-- `MotionAll` without a trip count: the `after` entry is the one of `loopMotion`, or it has been dropped
because the analysis says `noEffect`. -/
structure MotionAllE (s : Rebuild w) (ps : List (Rebuild w)) (sub : Rebuild w) (reads C : List Int)
    (lin : List (Int × Expr w)) (otherPending : List Int) (L : OptLoop w)
    (B D A : List (Int × Expr w)) : Prop where
  pend : ∀ var p, mGet sub.pending var = some p →
    ∃ b d a, MotionCase s ps var p (!mHas sub.written var) reads C lin otherPending L (b, d, a) ∧
      mGet B var = b ∧ mGet D var = d ∧ (mGet A var = a ∨ (L.noEffect = true ∧ mGet A var = none))
  nopend : ∀ var, mGet sub.pending var = none →
    mGet B var = none ∧ mGet D var = none ∧ mGet A var = none

theorem MotionAllE.toBD {s : Rebuild w} {ps : List (Rebuild w)} {sub : Rebuild w} {reads C : List Int}
    {lin : List (Int × Expr w)} {otherPending : List Int} {L : OptLoop w} {B D A : List (Int × Expr w)}
    (h : MotionAllE s ps sub reads C lin otherPending L B D A) :
    MotionBD s ps sub reads C lin otherPending L B D :=
  ⟨fun var p hp => let ⟨b, d, a, h1, h2, h3, _⟩ := h.pend var p hp; ⟨b, d, a, h1, h2, h3⟩,
   fun var hp => let ⟨h1, h2, _⟩ := h.nopend var hp; ⟨h1, h2⟩⟩

theorem MotionAllE.toAll {s : Rebuild w} {ps : List (Rebuild w)} {sub : Rebuild w} {reads C : List Int}
    {lin : List (Int × Expr w)} {otherPending : List Int} {L : OptLoop w} {B D A : List (Int × Expr w)}
    (h : MotionAllE s ps sub reads C lin otherPending L B D A) (n : Nat)
    (hne : L.noEffect = true → n = 0) : MotionAll s ps sub reads C lin otherPending L n B D A :=
  ⟨fun var p hp =>
    let ⟨b, d, a, h1, h2, h3, h4⟩ := h.pend var p hp
    ⟨b, d, a, h1, h2, h3, h4.imp id (fun h5 => ⟨hne h5.1, h5.2⟩)⟩,
   h.nopend⟩

theorem MotionAll.toBD {s : Rebuild w} {ps : List (Rebuild w)} {sub : Rebuild w} {reads C : List Int}
    {lin : List (Int × Expr w)} {otherPending : List Int} {L : OptLoop w} {n : Nat}
    {B D A : List (Int × Expr w)}
    (h : MotionAll s ps sub reads C lin otherPending L n B D A) :
    MotionBD s ps sub reads C lin otherPending L B D :=
  ⟨fun var p hp => let ⟨b, d, a, h1, h2, h3, _⟩ := h.pend var p hp; ⟨b, d, a, h1, h2, h3⟩,
   fun var hp => let ⟨h1, h2, _⟩ := h.nopend var hp; ⟨h1, h2⟩⟩

/-- `ReadFacts` for the rounds `k < N`. -/
structure ReadFactsH (sub : Rebuild w) (reads : List Int) (body : Nat → Mem w → Mem w) (M : Nat → Mem w)
    (N : Nat) : Prop where
  pendReads : ∀ v p x, mGet sub.pending v = some p → x ∈ Expr.variables p → x ≠ v →
    reads.contains x = true
  bodyNI : ∀ k, k < N → ∀ (m' : Mem w) (Z : Int → Prop), (∀ z, Z z → reads.contains z = false) →
    (∀ v, ¬ Z v → m' v = M k v) → ∀ v, ¬ Z v → body k m' v = body k (M k) v
  frame : ∀ k, k < N → ∀ (m' : Mem w) v, mGet sub.written v = none → body k m' v = m' v

theorem ReadFacts.toH {sub : Rebuild w} {reads : List Int} {body : Nat → Mem w → Mem w} {M : Nat → Mem w}
    (h : ReadFacts sub reads body M) (N : Nat) : ReadFactsH sub reads body M N :=
  ⟨h.pendReads, fun k _ => h.bodyNI k, fun k _ => h.frame k⟩

/-- The cells on which the two runs may differ during the loop: the moved ones, and the non-constant pending
ones that the new loop does not perform (assigned after the loop, or dropped under `noEffect`). -/
def Differ' (C : List Int) (B D P : List (Int × Expr w)) (v : Int) : Prop :=
  mGet B v ≠ none ∨ (mGet P v ≠ none ∧ mGet D v = none ∧ C.contains v = false)

section
variable {s : Rebuild w} {ps : List (Rebuild w)} {sub : Rebuild w} {reads C : List Int}
  {lin : List (Int × Expr w)} {otherPending : List Int} {L : OptLoop w}
  {B D A : List (Int × Expr w)} {m0 : Mem w} {body : Nat → Mem w → Mem w} {N : Nat}

/-- Per-variable summary of `MotionBD` (no semantics). -/
inductive VarBD (s : Rebuild w) (ps : List (Rebuild w)) (sub : Rebuild w) (reads C : List Int)
    (L : OptLoop w) (B D : List (Int × Expr w)) (v : Int) : Prop
  | nopend : mGet sub.pending v = none → mGet B v = none → mGet D v = none → VarBD s ps sub reads C L B D v
  | gone (p : Expr w) : mGet sub.pending v = some p → mGet B v = none → mGet D v = none →
      C.contains v = true → mGet sub.written v = none → VarBD s ps sub reads C L B D v
  | after (p p' : Expr w) : mGet sub.pending v = some p → mGet B v = none → mGet D v = none →
      reduceConst s ps p C = .ok p' → (reads.contains v = false ∨ L.atMostOnce = true) →
      VarBD s ps sub reads C L B D v
  | moved (p b : Expr w) : mGet sub.pending v = some p → mGet B v = some b →
      reads.contains v = false → mGet sub.written v = none → C.contains v = false →
      VarBD s ps sub reads C L B D v
  | stay (p p' : Expr w) : mGet sub.pending v = some p → mGet B v = none → mGet D v = some p' →
      reduceConst s ps p C = .ok p' → VarBD s ps sub reads C L B D v

theorem varBD (hbd : MotionBD s ps sub reads C lin otherPending L B D) (v : Int) :
    VarBD s ps sub reads C L B D v := by
  cases hp : mGet sub.pending v with
  | none =>
    obtain ⟨h1, h2⟩ := hbd.nopend v hp
    exact .nopend hp h1 h2
  | some p =>
    obtain ⟨b, d, a, hcase, hB, hD⟩ := hbd.pend v p hp
    cases b with
    | some b =>
      obtain ⟨hr, hc, hcv⟩ := moved_facts hcase
      exact .moved p b hp hB hr (written_none_of_complete hc) hcv
    | none =>
      generalize hr : ((none : Option (Expr w)), d, a) = r at hcase
      cases hcase with
      | gone h1 h2 =>
        simp only [Prod.mk.injEq, true_and] at hr
        obtain ⟨rfl, rfl⟩ := hr
        exact .gone p hp hB hD h1 (written_none_of_complete h2)
      | after p' hp' h1 h2 =>
        simp only [Prod.mk.injEq, true_and] at hr
        obtain ⟨rfl, rfl⟩ := hr
        exact .after p p' hp hB hD hp' h1
      | stay p' hp' =>
        simp only [Prod.mk.injEq, true_and] at hr
        obtain ⟨rfl, rfl⟩ := hr
        exact .stay p p' hp hB hD hp'
      | tri p' expr inc cst other linears => simp at hr
      | geo0 p' expr inc mul c => simp at hr
      | geo p' expr inc mul c => simp at hr

/-- **Prefix theorem (no trip count).** -/
theorem loopMotion_prefix_sound (ctx : MotionCtxH s ps sub C lin m0 body N)
    (hbd : MotionBD s ps sub reads C lin otherPending L B D)
    (hrf : ReadFactsH sub reads body (run body sub.pending m0) N)
    (N' : Nat) (hN' : N' ≤ N) (hamo : L.atMostOnce = true → N' ≤ 1) :
    (∀ k, k < N' → ∀ r, reads.contains r = true →
      run body D (Mem.par B m0) k r = run body sub.pending m0 k r) ∧
    (∀ k, k ≤ N' → ∀ v, ¬ Differ' C B D sub.pending v →
      run body D (Mem.par B m0) k v = run body sub.pending m0 k v) ∧
    (∀ k, k < N' →
      (∀ v, run body D (Mem.par B m0) k v = run body sub.pending m0 k v →
        mid body D (Mem.par B m0) k v = mid body sub.pending m0 k v) ∧
      (∀ r, reads.contains r = true →
        mid body D (Mem.par B m0) k r = mid body sub.pending m0 k r)) := by
  have hvs := varBD hbd
  have hinv0 : ∀ v, mGet B v = none → run body D (Mem.par B m0) 0 v = run body sub.pending m0 0 v :=
    fun v hv => par_of_not_mem B m0 v hv
  have hreads : ∀ k, k < N' →
      (∀ v, ¬ Differ' C B D sub.pending v →
        run body D (Mem.par B m0) k v = run body sub.pending m0 k v) →
      ∀ r, reads.contains r = true → run body D (Mem.par B m0) k r = run body sub.pending m0 k r := by
    intro k hk hI r hr
    by_cases hd : Differ' C B D sub.pending r
    · rcases hvs r with ⟨hP, hB, _⟩ | ⟨_, _, hB, _, hC, _⟩ | ⟨p, p', _, hB, _, _, hro⟩ |
        ⟨_, _, _, _, hrd, _, _⟩ | ⟨_, _, _, hB, hD, _⟩
      · rcases hd with h | h
        · exact absurd hB h
        · exact absurd hP h.1
      · rcases hd with h | h
        · exact absurd hB h
        · rw [hC] at h; cases h.2.2
      · rcases hro with hro | hro
        · rw [hr] at hro; cases hro
        · have : k = 0 := by have := hamo hro; omega
          subst this
          exact hinv0 r hB
      · rw [hr] at hrd; cases hrd
      · rcases hd with h | h
        · exact absurd hB h
        · rw [hD] at h; cases h.2.1
    · exact hI r hd
  have hmid : ∀ k, k < N' →
      (∀ v, ¬ Differ' C B D sub.pending v →
        run body D (Mem.par B m0) k v = run body sub.pending m0 k v) →
      (∀ v, run body D (Mem.par B m0) k v = run body sub.pending m0 k v →
        mid body D (Mem.par B m0) k v = mid body sub.pending m0 k v) ∧
      (∀ r, reads.contains r = true →
        mid body D (Mem.par B m0) k r = mid body sub.pending m0 k r) := by
    intro k hk hI
    have hrd := hreads k hk hI
    have h1 : ∀ v, run body D (Mem.par B m0) k v = run body sub.pending m0 k v →
        mid body D (Mem.par B m0) k v = mid body sub.pending m0 k v := by
      intro v hv
      refine hrf.bodyNI k (by omega) (run body D (Mem.par B m0) k)
        (fun z => run body D (Mem.par B m0) k z ≠ run body sub.pending m0 k z) ?_ ?_ v ?_
      · intro z hz
        cases hc : reads.contains z with
        | false => rfl
        | true => exact absurd (hrd z hc) hz
      · intro z hz
        exact Classical.not_not.1 hz
      · exact fun h => h hv
    exact ⟨h1, fun r hr => h1 r (hrd r hr)⟩
  have hstep : ∀ k, k < N' →
      (∀ v, ¬ Differ' C B D sub.pending v →
        run body D (Mem.par B m0) k v = run body sub.pending m0 k v) →
      ∀ v, ¬ Differ' C B D sub.pending v →
        run body D (Mem.par B m0) (k + 1) v = run body sub.pending m0 (k + 1) v := by
    intro k hk hI v hnd
    obtain ⟨hm1, hm2⟩ := hmid k hk hI
    have hEv := hm1 v (hI v hnd)
    have hconstv : C.contains v = true → mGet D v = none →
        run body D (Mem.par B m0) (k + 1) v = run body sub.pending m0 (k + 1) v := by
      intro hC hD
      rw [run_not_pending hD, hEv, ctx.constMid k (by omega) v hC, ctx.constRun (k + 1) (by omega) v hC]
    rcases hvs v with ⟨hP, _, hD⟩ | ⟨p, hP, _, hD, hC, _⟩ | ⟨p, p', hP, hB, hD, _, _⟩ |
      ⟨_, _, _, hB, _, _, _⟩ | ⟨p, p', hP, _, hD, hp'⟩
    · rw [run_not_pending hD, run_not_pending hP, hEv]
    · exact hconstv hC hD
    · have hC : C.contains v = true := by
        cases hc : C.contains v with
        | true => rfl
        | false => exact absurd (Or.inr ⟨by rw [hP]; simp, hD, hc⟩) hnd
      exact hconstv hC hD
    · exact absurd (Or.inl (by rw [hB]; simp)) hnd
    · rw [run_pending hD, run_pending hP, ← reduce_mid_h ctx hp' k (by omega)]
      apply ev_congr
      intro x hx
      by_cases hxv : x = v
      · rw [hxv]; exact hEv
      · exact hm2 x (hrf.pendReads v p x hP (reduceConst_varsIn s ps p p' C hp' x hx) hxv)
  have hI : ∀ k, k ≤ N' → ∀ v, ¬ Differ' C B D sub.pending v →
      run body D (Mem.par B m0) k v = run body sub.pending m0 k v := by
    intro k
    induction k with
    | zero =>
      intro _ v hnd
      apply hinv0
      cases hb : mGet B v with
      | none => rfl
      | some b => exact absurd (Or.inl (by rw [hb]; simp)) hnd
    | succ k ih =>
      intro hk v hnd
      exact hstep k (by omega) (ih (by omega)) v hnd
  exact ⟨fun k hk => hreads k hk (hI k (by omega)), hI, fun k hk => hmid k hk (hI k (by omega))⟩

theorem varSem_h (hw : 0 < w) (ctx : MotionCtxH s ps sub C lin m0 body N) {n : Nat} (hnN : n ≤ N)
    (htrip : TripFacts L n m0)
    (hcanon : ∀ v p, mGet sub.pending v = some p → Canon p)
    (hall : MotionAll s ps sub reads C lin otherPending L n B D A) (v : Int) :
    VarSem s ps sub reads C otherPending L n B D A m0 body v := by
  cases hp : mGet sub.pending v with
  | none =>
    obtain ⟨h1, h2, h3⟩ := hall.nopend v hp
    exact .nopend hp h1 h2 h3
  | some p =>
    obtain ⟨b, d, a, hcase, hB, hD, hA⟩ := hall.pend v p hp
    cases b with
    | some b =>
      obtain ⟨ha, hr, hc, hcv, hsem⟩ := loopMotion_moved_sound_h hw ctx hnN hp written_none_of_complete
        (hcanon v p hp) htrip hcase
      subst ha
      have hA' : mGet A v = none := by
        rcases hA with h | h
        · exact h
        · exact h.2
      exact .moved p b d hp hB hD hA' hr (written_none_of_complete hc) hcv hsem
    | none =>
      generalize hr : ((none : Option (Expr w)), d, a) = r at hcase
      cases hcase with
      | gone h1 h2 =>
        simp only [Prod.mk.injEq, true_and] at hr
        obtain ⟨rfl, rfl⟩ := hr
        have hA' : mGet A v = none := by
          rcases hA with h | h
          · exact h
          · exact h.2
        exact .gone p hp hB hD hA' h1 (written_none_of_complete h2)
      | after p' hp' h1 h2 =>
        simp only [Prod.mk.injEq, true_and] at hr
        obtain ⟨rfl, rfl⟩ := hr
        exact .after p p' hp hB hD hA hp' h1 h2
      | stay p' hp' =>
        simp only [Prod.mk.injEq, true_and] at hr
        obtain ⟨rfl, rfl⟩ := hr
        have hA' : mGet A v = none := by
          rcases hA with h | h
          · exact h
          · exact h.2
        exact .stay p p' hp hB hD hA' hp'
      | tri p' expr inc cst other linears => simp at hr
      | geo0 p' expr inc mul c => simp at hr
      | geo p' expr inc mul c => simp at hr

/-- **`loopMotion_all_sound` with a horizon**: trip count `n ≤ N`, per-round hypotheses for `k < N` only. -/
theorem loopMotion_all_sound_h (hw : 0 < w) (ctx : MotionCtxH s ps sub C lin m0 body N) {n : Nat}
    (hnN : n ≤ N) (htrip : TripFacts L n m0)
    (hcanon : ∀ v p, mGet sub.pending v = some p → Canon p)
    (hall : MotionAll s ps sub reads C lin otherPending L n B D A)
    (hrf : ReadFactsH sub reads body (run body sub.pending m0) N)
    (hop : ∀ x, otherPending.contains x = false → mGet sub.pending x = none ∨ C.contains x = true)
    (hamo : L.atMostOnce = true → n ≤ 1) :
    (∀ k, k < n → ∀ r, reads.contains r = true →
      run body D (Mem.par B m0) k r = run body sub.pending m0 k r) ∧
    (∀ k, k ≤ n → ∀ v, ¬ Differ C B A v →
      run body D (Mem.par B m0) k v = run body sub.pending m0 k v) ∧
    (∀ k, k ≤ n → ∀ v, ¬ Differ' C B D sub.pending v →
      run body D (Mem.par B m0) k v = run body sub.pending m0 k v) ∧
    (∀ v, mGet A v = none → run body D (Mem.par B m0) n v = run body sub.pending m0 n v) ∧
    (0 < n → Mem.par A (run body D (Mem.par B m0) n) = run body sub.pending m0 n) ∧
    (n = 0 → Mem.par B m0 = m0) := by
  obtain ⟨hreads, hI, hmid⟩ := loopMotion_prefix_sound ctx hall.toBD hrf n hnN hamo
  have hvs := varSem_h hw ctx hnN htrip hcanon hall
  have hinv0 : ∀ v, mGet B v = none → run body D (Mem.par B m0) 0 v = run body sub.pending m0 0 v :=
    fun v hv => par_of_not_mem B m0 v hv
  -- agreement off the old `Differ`
  have hIold : ∀ k, k ≤ n → ∀ v, ¬ Differ C B A v →
      run body D (Mem.par B m0) k v = run body sub.pending m0 k v := by
    intro k hk v hnd
    by_cases hd' : Differ' C B D sub.pending v
    · rcases hvs v with ⟨hP, hB, _, _⟩ | ⟨_, _, hB, _, _, hC, _⟩ | ⟨_, _, _, hB, _, hA, _, _, _⟩ |
        ⟨_, _, _, _, hB, _, _, _, _, _, _⟩ | ⟨_, _, _, hB, hD, _, _⟩
      · rcases hd' with h | h
        · exact absurd hB h
        · exact absurd hP h.1
      · rcases hd' with h | h
        · exact absurd hB h
        · rw [hC] at h; cases h.2.2
      · rcases hA with hA | hA
        · rcases hd' with h | h
          · exact absurd hB h
          · exact absurd (Or.inr ⟨by rw [hA]; simp, h.2.2⟩) hnd
        · have : k = 0 := by omega
          subst this
          exact hinv0 v hB
      · exact absurd (Or.inl (by rw [hB]; simp)) hnd
      · rcases hd' with h | h
        · exact absurd hB h
        · rw [hD] at h; cases h.2.1
    · exact hI k hk v hd'
  -- moved variables
  have hmoved : ∀ v b, mGet B v = some b →
      run body D (Mem.par B m0) n v = run body sub.pending m0 n v := by
    intro v b hb
    rcases hvs v with ⟨_, hB, _, _⟩ | ⟨_, _, hB, _, _, _, _⟩ | ⟨_, _, _, hB, _, _, _, _, _⟩ |
      ⟨p, b', d, hP, hB, hD, _, _, hW, _, dinc, hd, hdv, hsum⟩ | ⟨_, _, _, hB, _, _, _⟩
    · rw [hB] at hb; cases hb
    · rw [hB] at hb; cases hb
    · rw [hB] at hb; cases hb
    · rw [hB] at hb
      cases hb
      have hacc := accN_run (fun k => run body D (Mem.par B m0) k v)
        (fun k => ev dinc (mid body sub.pending m0 k)) n (by
          intro k hk
          obtain ⟨_, hm2⟩ := hmid k hk
          have hfr : mid body D (Mem.par B m0) k v = run body D (Mem.par B m0) k v :=
            hrf.frame k (by omega) _ v hW
          rcases hd with hd | ⟨hd, hdn⟩
          · rw [hd] at hD
            rw [run_pending hD, ev_add, ev_var, hfr]
            congr 1
            apply ev_congr
            intro x hx
            exact hm2 x (hrf.pendReads v p x hP (hdv x hx).1 (hdv x hx).2)
          · rw [hd] at hD
            rw [run_not_pending hD, hfr, hdn]
            simp)
      simp only [run_zero] at hacc
      rw [hacc, par_of_get B m0 v b hB, hsum]
    · rw [hB] at hb; cases hb
  have hnoA : ∀ v, mGet A v = none →
      run body D (Mem.par B m0) n v = run body sub.pending m0 n v := by
    intro v hA
    cases hb : mGet B v with
    | some b => exact hmoved v b hb
    | none =>
      apply hIold n (Nat.le_refl n) v
      rintro (h | h)
      · exact h hb
      · exact h.1 hA
  refine ⟨hreads, hIold, hI, hnoA, ?_, ?_⟩
  · intro hn
    funext v
    cases hA : mGet A v with
    | none => rw [par_of_not_mem A _ v hA]; exact hnoA v hA
    | some a =>
      rw [par_of_get A _ v a hA]
      rcases hvs v with ⟨_, _, _, hA'⟩ | ⟨_, _, _, _, hA', _, _⟩ | ⟨p, p', hP, hB, hD, hA', hp', _, huse⟩ |
        ⟨_, _, _, _, _, _, hA', _, _, _, _⟩ | ⟨_, _, _, _, _, hA', _⟩
      · rw [hA'] at hA; cases hA
      · rw [hA'] at hA; cases hA
      · rcases hA' with hA' | hA'
        · rw [hA'] at hA
          cases hA
          obtain ⟨k, rfl⟩ : ∃ k, n = k + 1 := ⟨n - 1, by omega⟩
          obtain ⟨hm1, _⟩ := hmid k (by omega)
          rw [run_pending hP, ← reduce_mid_h ctx hp' k (by omega)]
          apply ev_congr
          intro x hx
          have hconstx : C.contains x = true →
              run body D (Mem.par B m0) (k + 1) x = mid body sub.pending m0 k x := by
            intro hc
            have hnd : ¬ Differ' C B D sub.pending x := by
              rintro (h | h)
              · rcases hvs x with ⟨_, hB, _, _⟩ | ⟨_, _, hB, _, _, _, _⟩ | ⟨_, _, _, hB, _, _, _, _, _⟩ |
                  ⟨_, _, _, _, _, _, _, _, _, hcf, _⟩ | ⟨_, _, _, hB, _, _, _⟩
                · exact h hB
                · exact h hB
                · exact h hB
                · rw [hc] at hcf; cases hcf
                · exact h hB
              · rw [hc] at h; cases h.2.2
            rw [hI (k + 1) (Nat.le_refl _) x hnd, ctx.constRun (k + 1) (by omega) x hc,
              ctx.constMid k (by omega) x hc]
          rcases huse x hx with hu | hu
          · rcases hop x hu with hpx | hcx
            · obtain ⟨hBx, hDx, _⟩ := hall.nopend x hpx
              have hnd : ¬ Differ' C B D sub.pending x := by
                rintro (h | h)
                · exact h hBx
                · exact h.1 hpx
              rw [run_not_pending hDx]
              exact hm1 x (hI k (by omega) x hnd)
            · exact hconstx hcx
          · exact hconstx hu
        · omega
      · rw [hA'] at hA; cases hA
      · rw [hA'] at hA; cases hA
  · intro hn
    subst hn
    funext v
    cases hb : mGet B v with
    | none => exact par_of_not_mem B m0 v hb
    | some b => exact hmoved v b hb

end

end Hpbf.OptLoop
