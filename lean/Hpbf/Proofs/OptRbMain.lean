/-
Rebuild-round proofs, stage 3: the induction over `rebuildInstr` / `rebuildInsts` at level 1 (no previous
analysis): every instruction list is simulated by the code the rebuild emits for it (`rebuildInsts_all`).
-/
import Hpbf.Proofs.OptRbFinishLoop
import Hpbf.Proofs.OptRbEntry
import Hpbf.Proofs.OptRbReads

namespace Hpbf
namespace OptProof
open Opt OptSem Ir

variable {w : Nat}

/-- The static invariants of a state at level 1. -/
structure Inv1 (s : Rebuild w) : Prop where
  wf : Wf s
  canon : CanonSt s
  anal : AnalL1 s
  known : KnownVars s
  reads : OptLoop.SAsc s.reads

theorem inv1_fresh (sh cond : Int) : Inv1 (freshChild sh cond : Rebuild w) := by
  have hch : Child (freshChild sh cond : Rebuild w) := (child_new _ _ _ _).reverseSubBlocks
  refine ⟨hch.wf, hch.canon, Or.inl rfl, ?_, ?_⟩
  · intro _ v e hv
    have : (freshChild sh cond : Rebuild w).written = [] := rfl
    rw [this] at hv; simp [mGet] at hv
  · show OptLoop.SAsc ([] : List Int)
    exact List.Pairwise.nil

/-- The invariants after one instruction (from the structural passes). -/
theorem Inv1.instr {ps : List (Rebuild w)} {s s' : Rebuild w} (h : Inv1 s) (i : Instr w) {os os' : Orders}
    (hr : (rebuildInstr ps s i).run os = .ok (s', os')) (hci : CanonL [i]) (hanal : s'.anal = s.anal) :
    Inv1 s' := by
  have c := rebuildInstr_cstep_all i hr h.wf h.canon hci
  refine ⟨c.wf, c.canon, ?_, (rebuildInstr_wk_all i hr h.wf h.canon hci).known h.known,
    rebuildInstr_sasc_all i hr h.wf h.canon hci h.reads⟩
  unfold AnalL1
  rw [hanal]; exact h.anal

/-! ### generic facts about `StepAll` -/

/-- After a step that never returns, more source code changes nothing. -/
theorem StepAll.extend_nofin {G : State w → Prop} {sh sh' : Int} {ps : List (Rebuild w)} {a b : Rebuild w}
    {src new : List (Instr w)} (h : StepAll G sh sh' ps a b src new) (hnr : b.noReturn = true)
    (rest : List (Instr w)) (sh'' : Int) : StepAll G sh sh'' ps a b (src ++ rest) new := by
  refine ⟨h.insts, h.wf, ⟨h.step.1, ?_⟩, h.foot, h.bad, h.frame, h.mono, h.keys⟩
  intro M0 σE σS hrel hG
  obtain ⟨hs, hb⟩ := h.step.2 M0 σE σS hrel hG
  have hq : ∀ x y, ¬ StepQ sh' ps b M0 σE x y := by
    rintro x y ⟨M0', hr', _⟩
    have := hr'.nr
    rw [hnr] at this; cases this
  refine ⟨⟨?_, ?_, ?_, ?_, ?_, ?_⟩, hb⟩
  · intro x hx
    rcases exec_append.1 hx with ⟨hnf, _⟩ | ⟨σ1, h1, _⟩
    · cases hnf
    · obtain ⟨y, _, hq'⟩ := hs.finL σ1 h1
      exact absurd hq' (hq σ1 y)
  · intro x hx
    rcases exec_append.1 hx with ⟨_, h1⟩ | ⟨σ1, h1, _⟩
    · exact hs.stopL x h1
    · obtain ⟨y, _, hq'⟩ := hs.finL σ1 h1
      exact absurd hq' (hq σ1 y)
  · intro t ht
    rcases exec_append.1 ht with ⟨_, h1⟩ | ⟨σ1, h1, _⟩
    · exact hs.partL t h1
    · obtain ⟨y, _, hq'⟩ := hs.finL σ1 h1
      exact absurd hq' (hq σ1 y)
  · intro y hy
    obtain ⟨x, _, hq'⟩ := hs.finR y hy
    exact absurd hq' (hq x y)
  · intro y hy
    obtain ⟨x, hx, hq'⟩ := hs.stopR y hy
    exact ⟨x, exec_append.2 (Or.inl ⟨rfl, hx⟩), hq'⟩
  · intro t ht
    exact exec_append.2 (Or.inl ⟨rfl, hs.partR t ht⟩)

/-- The end state with another `shift`, the end offset adjusted (it only matters when the code returns). -/
theorem StepAll.retarget {G : State w → Prop} {sh shE shE' : Int} {ps : List (Rebuild w)} {a b b' : Rebuild w}
    {src new : List (Instr w)} (h : StepAll G sh shE ps a b src new) (hsf : ShiftFree b)
    (hb' : b' = b ∨ ∃ x, b' = { b with shift := x }) (hoff : b.noReturn = false → shE' = shE) :
    StepAll G sh shE' ps a b' src new := by
  have hpk : ∀ M0, PK b ps M0 → PK b' ps M0 := by
    intro M0 hp
    rcases hb' with rfl | ⟨x, rfl⟩
    · exact hp
    · exact hp.shift hsf x
  have f1 : b'.insts = b.insts := by rcases hb' with rfl | ⟨x, rfl⟩ <;> rfl
  have f2 : b'.subShift = b.subShift := by rcases hb' with rfl | ⟨x, rfl⟩ <;> rfl
  have f3 : b'.reads = b.reads := by rcases hb' with rfl | ⟨x, rfl⟩ <;> rfl
  have f4 : b'.written = b.written := by rcases hb' with rfl | ⟨x, rfl⟩ <;> rfl
  have f5 : b'.pending = b.pending := by rcases hb' with rfl | ⟨x, rfl⟩ <;> rfl
  have f6 : b'.noReturn = b.noReturn := by rcases hb' with rfl | ⟨x, rfl⟩ <;> rfl
  have f7 : b'.reverse = b.reverse := by rcases hb' with rfl | ⟨x, rfl⟩ <;> rfl
  have hfa : FootAll (ValidG G sh a ps) a b' new :=
    (FootAll.congr (V := ValidG G sh a ps) ⟨h.foot, h.bad, h.frame, h.mono, h.keys⟩ rfl rfl rfl f2 f3 f4)
  refine ⟨by rw [f1]; exact h.insts, ⟨by rw [f5]; exact h.wf.pend, by rw [f4]; exact h.wf.writ,
    by rw [f7]; exact h.wf.rev, by rw [f5, f7]; exact h.wf.revOk⟩, ⟨by rw [f2]; exact h.step.1, ?_⟩,
    hfa.1, hfa.2.1, hfa.2.2.1, hfa.2.2.2.1, hfa.2.2.2.2⟩
  intro M0 σE σS hrel hG
  obtain ⟨hs, hb⟩ := h.step.2 M0 σE σS hrel hG
  refine ⟨hs.mono ?_, hb⟩
  rintro x y ⟨M0', hr', hk'⟩
  have := hoff hr'.nr
  subst this
  refine ⟨M0', ⟨hr'.tr, hr'.env, hr'.ptr, by rw [f6]; exact hr'.nr, ?_⟩, by rw [f2]; exact hk'⟩
  exact ⟨by rw [f5]; exact hr'.inv.pend, hr'.inv.writ.of_written_eq f4, hpk M0' hr'.inv.pk⟩

/-- A straight-line instruction. -/
theorem stepAll_straight {G : State w → Prop} {ps : List (Rebuild w)} {s : Rebuild w} (hwf : Wf s)
    {i : Instr w} (hi : C01Dse.isBlock i = false) {os os' : Orders} {s' : Rebuild w}
    (hr : (rebuildInstr ps s i).run os = .ok (s', os')) :
    s'.noReturn = s.noReturn ∧ SameHdr s s' ∧
    ∃ new, StepAll G s.shift s'.shift ps s s' [i] new := by
  obtain ⟨a1, a2, a3, _, new, hn, hsub, hst⟩ := rebuildInstr_straight hwf hi hr
  obtain ⟨n1, e1, f1, _, m1⟩ := rebuildInstr_straight_foot hwf hi hr
  obtain ⟨n2, e2, g1, g2, g3, _⟩ := rebuildInstr_straight_frameBad hwf hi hr
  have h1 : n1 = new := List.append_cancel_left (e1.symm.trans hn)
  have h2 : n2 = new := List.append_cancel_left (e2.symm.trans hn)
  subst h1
  subst h2
  exact ⟨a2, a3, _, hn, a1, ⟨hsub, fun M0 σE σS hrel _ => hst M0 σE σS hrel⟩, f1.toV _, g2 _, g1 _, m1, g3⟩

/-! ### the induction -/

/-- What the rebuild of an instruction list achieves. -/
def ListRes (ps : List (Rebuild w)) (s s' : Rebuild w) (done : Bool) (l : List (Instr w)) : Prop :=
  s'.anal = s.anal ∧
  ∃ shE new, StepAll (fun _ => True) s.shift shE ps s s' l new ∧
    (s'.noReturn = false → shE = s'.shift ∧ done = true)

/-- The statement for all lists up to a size. -/
def ListStmt1 (l : List (Instr w)) : Prop :=
  ∀ (ps : List (Rebuild w)) (s : Rebuild w) (os os' : Orders) (s' : Rebuild w) (done : Bool),
    (rebuildInsts ps s l).run os = .ok ((s', done), os') → Inv1 s → CanonL l → s.noReturn = false →
    ListRes ps s s' done l

/-- The `Loop` / `If` arm. -/
theorem blockArm_ok (hw : 0 < w) {ps : List (Rebuild w)} {s : Rebuild w} {c shS : Int} {body : List (Instr w)}
    {isLoop oS : Bool} (IH : ListStmt1 body) {os os' : Orders} {s' : Rebuild w}
    (hr : (do
      let cond := c + s.shift
      let (s, subAnal) := popSubAnal s
      let sub : Rebuild w := reverseSubBlocks (Rebuild.new s.shift (some cond) .parent subAnal)
      let (sub, completed) ← rebuildInsts (s :: ps) sub body
      let sub := if completed then { sub with shift := sub.shift + shS } else sub
      finishLoop s ps sub cond isLoop : M (Rebuild w)).run os = .ok (s', os'))
    (hinv : Inv1 s) (hcb : CanonL body) :
    s'.anal = s.anal ∧ ∃ shE new, StepAll (fun _ => True) s.shift shE ps s s' [blockInstr isLoop c shS body oS] new ∧
      (s'.noReturn = false → shE = s'.shift) := by
  rw [popSubAnal_l1 hinv.anal] at hr
  dsimp only at hr
  rw [run_bind_ok] at hr
  obtain ⟨⟨subR, completed⟩, os1, h1, h2⟩ := hr
  dsimp only at h2
  have hfresh : (reverseSubBlocks (Rebuild.new s.shift (some (c + s.shift)) .parent none) : Rebuild w) =
      freshChild s.shift (c + s.shift) := rfl
  rw [hfresh] at h1
  have hinv0 := inv1_fresh (w := w) s.shift (c + s.shift)
  obtain ⟨hanalR, shE, newC, hallR, hoffR⟩ := IH (s :: ps) _ os os1 subR completed h1 hinv0 hcb rfl
  -- the static invariants of the child
  have hcstep := rebuildInsts_cstep_all body h1 hinv0.wf hinv0.canon hcb
  have hkvR : KnownVars subR := (rebuildInsts_wk_all body h1 hinv0.wf hinv0.canon hcb).known hinv0.known
  have hrdR : OptLoop.SAsc subR.reads := rebuildInsts_sasc_all body h1 hinv0.wf hinv0.canon hcb hinv0.reads
  have hsfR : ShiftFree subR := Or.inl (hanalR.trans rfl)
  -- the child as `finishLoop` sees it
  have hsubEq : (if completed = true then { subR with shift := subR.shift + shS } else subR) = subR ∨
      ∃ x, (if completed = true then { subR with shift := subR.shift + shS } else subR) =
        { subR with shift := x } := by
    split
    · exact Or.inr ⟨_, rfl⟩
    · exact Or.inl rfl
  have hshC : ∃ shC : Int, shC = (if completed = true then { subR with shift := subR.shift + shS } else subR).shift
      - shS := ⟨_, rfl⟩
  obtain ⟨shC, hshC'⟩ := hshC
  have hall : StepAll (fun _ => True) s.shift shC (s :: ps) (freshChild s.shift (c + s.shift))
      (if completed = true then { subR with shift := subR.shift + shS } else subR) body newC := by
    refine hallR.retarget hsfR hsubEq ?_
    intro hnr
    obtain ⟨e1, e2⟩ := hoffR hnr
    rw [hshC', e2, e1]
    show subR.shift + shS - shS = subR.shift
    omega
  have hinstsC : (if completed = true then { subR with shift := subR.shift + shS } else subR).insts = newC := by
    rw [hall.insts]; rfl
  rw [← hinstsC] at hall
  have hfieldsR : ∀ (P : Rebuild w → Prop), P subR → (∀ x, P { subR with shift := x }) →
      P (if completed = true then { subR with shift := subR.shift + shS } else subR) := by
    intro P h1' h2'
    split
    · exact h2' _
    · exact h1'
  obtain ⟨w1, w2, _, shE', new, hEs, hi, hst, hfoot⟩ :=
    finishLoop_ok (G := fun _ => True) (Gc := fun _ => True) (cS := c) (shP := s.shift) (shC := shC)
      (shS := shS) (bodyS := body) (oS := oS) hw h2 hinv.wf hinv.canon hinv.anal.shiftFree rfl
      (by rw [hshC']; omega) hall rfl rfl rfl
      (fun σE σS hm hne _ => entry_l1' s ps s.shift c σE σS hm hne) (fun _ => trivial)
      (hfieldsR CanonSt hcstep.canon (fun _ => hcstep.canon))
      (hfieldsR KnownVars hkvR (fun _ => hkvR))
      (hfieldsR (fun r => OptLoop.SAsc r.reads) hrdR (fun _ => hrdR))
  refine ⟨w2, shE', new, ⟨hi, w1, hst, hfoot.1, hfoot.2.1, hfoot.2.2.1, hfoot.2.2.2.1, hfoot.2.2.2.2⟩, ?_⟩
  intro hn
  rw [hEs hn]; omega

/-- One instruction, given the statement for the lists inside it. -/
theorem rebuildInstr_of_lists1 (hw : 0 < w) (n : Nat) (IH : ∀ l : List (Instr w), sizeL l ≤ n → ListStmt1 l)
    (i : Instr w) (hi : sizeI i ≤ n + 1) {ps : List (Rebuild w)} {s : Rebuild w} {os os' : Orders}
    {s' : Rebuild w} (hr : (rebuildInstr ps s i).run os = .ok (s', os')) (hinv : Inv1 s)
    (hci : CanonL [i]) :
    s'.anal = s.anal ∧ ∃ shE new, StepAll (fun _ => True) s.shift shE ps s s' [i] new ∧
      (s'.noReturn = false → shE = s'.shift) := by
  cases i with
  | output src =>
    obtain ⟨_, hdr, new, hst⟩ := stepAll_straight (G := fun _ => True) hinv.wf (i := .output src) rfl hr
    exact ⟨hdr.2.1, s'.shift, new, hst, fun _ => rfl⟩
  | input dst =>
    obtain ⟨_, hdr, new, hst⟩ := stepAll_straight (G := fun _ => True) hinv.wf (i := .input dst) rfl hr
    exact ⟨hdr.2.1, s'.shift, new, hst, fun _ => rfl⟩
  | «calc» calcs =>
    obtain ⟨_, hdr, new, hst⟩ := stepAll_straight (G := fun _ => True) hinv.wf (i := .calc calcs) rfl hr
    exact ⟨hdr.2.1, s'.shift, new, hst, fun _ => rfl⟩
  | loop c sh body o =>
    have hsz : sizeL body ≤ n := by rw [sizeI] at hi; omega
    have hcb : CanonL body := by
      rw [CanonL, CanonI] at hci; exact hci.1
    rw [rebuildInstr] at hr
    have := blockArm_ok (isLoop := true) (oS := o) hw (IH body hsz) hr hinv hcb
    simpa [blockInstr] using this
  | ifnz c sh body =>
    have hsz : sizeL body ≤ n := by rw [sizeI] at hi; omega
    have hcb : CanonL body := by
      rw [CanonL, CanonI] at hci; exact hci.1
    rw [rebuildInstr] at hr
    have := blockArm_ok (isLoop := false) (oS := false) hw (IH body hsz) hr hinv hcb
    simpa [blockInstr] using this

theorem rebuildInsts_size1 (hw : 0 < w) (n : Nat) : ∀ l : List (Instr w), sizeL l ≤ n → ListStmt1 l := by
  induction n with
  | zero =>
    intro l hl
    cases l with
    | nil =>
      intro ps s os os' s' done hr hinv _ _
      rw [rebuildInsts, run_pure] at hr
      cases hr
      exact ⟨rfl, s.shift, [], StepAll.refl _ _ ps hinv.wf, fun _ => ⟨rfl, rfl⟩⟩
    | cons i rest =>
      rw [sizeL] at hl
      have := sizeI_pos i
      omega
  | succ n ih =>
    intro l
    induction l with
    | nil =>
      intro _ ps s os os' s' done hr hinv _ _
      rw [rebuildInsts, run_pure] at hr
      cases hr
      exact ⟨rfl, s.shift, [], StepAll.refl _ _ ps hinv.wf, fun _ => ⟨rfl, rfl⟩⟩
    | cons i rest ihl =>
      intro hl ps s os os' s' done hr hinv hcl hnr
      rw [sizeL] at hl
      have hpos := sizeI_pos i
      have hci : CanonL [i] := by
        rw [CanonL] at hcl ⊢
        exact ⟨hcl.1, by rw [CanonL]; trivial⟩
      have hcr : CanonL rest := by rw [CanonL] at hcl; exact hcl.2
      rw [rebuildInsts, hnr] at hr
      simp only [Bool.false_eq_true, if_false] at hr
      rw [run_bind_ok] at hr
      obtain ⟨s1, os1, h1, h2⟩ := hr
      obtain ⟨ha1, shE1, new1, hst1, hoff1⟩ :=
        rebuildInstr_of_lists1 hw n ih i (by omega) h1 hinv hci
      have hinv1 : Inv1 s1 := hinv.instr i h1 hci ha1
      cases hnr1 : s1.noReturn with
      | true =>
        -- the rest is never reached
        have hs' : s' = s1 := by
          cases rest with
          | nil =>
            rw [rebuildInsts, run_pure] at h2
            cases h2; rfl
          | cons j rest' =>
            rw [rebuildInsts, hnr1] at h2
            simp only [if_true] at h2
            rw [run_pure] at h2
            cases h2; rfl
        subst hs'
        refine ⟨ha1, shE1, new1, ?_, fun h => by rw [hnr1] at h; cases h⟩
        have := hst1.extend_nofin hnr1 rest shE1
        simpa using this
      | false =>
        obtain ⟨e1⟩ := hoff1 hnr1
        obtain ⟨ha2, shE2, new2, hst2, hoff2⟩ := ihl (by omega) ps s1 os1 os' s' done h2 hinv1 hcr hnr1
        refine ⟨ha2.trans ha1, shE2, new1 ++ new2, ?_, hoff2⟩
        have := hst1.trans hst2 (fun _ _ _ _ _ _ _ => trivial)
        simpa using this

/-- **Level 1: every instruction list is simulated by the code the rebuild emits for it.** -/
theorem rebuildInsts_all (hw : 0 < w) (l : List (Instr w)) : ListStmt1 l :=
  rebuildInsts_size1 hw (sizeL l) l (Nat.le_refl _)

end OptProof
end Hpbf
