/-
Totality of the optimizer model (`Hpbf/Opt.lean`): `constantsAmong` never reports any of its three errors
(`unwrap` on a missing `depends_on` entry, counter underflow, fuel) when the variable list is duplicate-free
and `compare` does not fail.

* `cnt o var`: the counter of `var` in `depends_on` (0 when absent).  The counting invariant in the "total"
  direction is `rest.count var + occ d var ≤ cnt o var`: a variable that occurs in a `dependents` list (or in
  the list being walked) has an entry with a positive counter.
* `pos o`: the number of entries of `depends_on` with a positive counter; `stack.length + pos o` never grows in
  `constDeps` and every iteration of `constLoop` pops one element, so it bounds the number of iterations.
-/
import Hpbf.Proofs.OptTotalDefs
import Hpbf.Proofs.OptLoopConstFix

namespace Hpbf
namespace OptTotal
open Opt OptLoop

variable {w : Nat}

/-- The counter of `var` in `depends_on`, `0` when there is no entry. -/
def cnt (o : List (Int × Nat)) (var : Int) : Nat := (mGet o var).getD 0

/-- Number of entries of `depends_on` with a positive counter. -/
def pos : List (Int × Nat) → Nat
  | [] => 0
  | kv :: rest => (if 0 < kv.2 then 1 else 0) + pos rest

theorem pos_eq_filter (o : List (Int × Nat)) :
    pos o = (o.filter (fun kv => decide (0 < kv.2))).length := by
  induction o with
  | nil => rfl
  | cons kv o ih =>
    simp only [pos, List.filter_cons, ih]
    by_cases h : 0 < kv.2
    · simp [h]; omega
    · simp [h]

theorem pos_le_length (o : List (Int × Nat)) : pos o ≤ o.length := by
  induction o with
  | nil => exact Nat.le_refl _
  | cons kv o ih =>
    simp only [pos, List.length_cons]
    split <;> omega

theorem cnt_mSet (o : List (Int × Nat)) (k : Int) (v : Nat) (u : Int) :
    cnt (mSet o k v) u = if k = u then v else cnt o u := by
  unfold cnt
  rw [mGet_mSet]
  split <;> rfl

/-- Decrementing a positive counter in place: the number of positive entries drops exactly when the counter
reaches zero. -/
theorem pos_mSet_dec (o : List (Int × Nat)) (k : Int) (v : Nat) (h : KeysAsc o)
    (hg : mGet o k = some (v + 1)) :
    pos (mSet o k v) + (if v = 0 then 1 else 0) = pos o := by
  induction o with
  | nil => cases hg
  | cons kv o ih =>
    obtain ⟨k0, v0⟩ := kv
    simp only [mGet] at hg
    simp only [mSet]
    split
    · rename_i he
      rw [if_pos he] at hg
      cases hg
      simp only [pos]
      by_cases hv : v = 0
      · subst hv; simp; omega
      · have : 0 < v := Nat.pos_of_ne_zero hv
        simp [hv, this]
    · rename_i hne
      rw [if_neg hne] at hg
      split
      · rename_i hlt
        have hnone := mGet_none_of_lt o k (fun kv hkv => Int.lt_trans hlt (h.head_lt hkv))
        rw [hnone] at hg
        cases hg
      · have := ih h.tail hg
        simp only [pos]
        omega

/-! ### the second loop -/

/-- The `for dep in deps` loop succeeds, keeps the counting invariant and does not increase the potential. -/
theorem constDeps_ok (d : List (Int × List Int)) (deps : List Int) (stack constant : List Int)
    (o : List (Int × Nat)) (ha : KeysAsc o) (hT : ∀ var, deps.count var + occ d var ≤ cnt o var) :
    ∃ stack' constant' o', constDeps deps (stack, constant, o) = .ok (stack', constant', o') ∧
      KeysAsc o' ∧ (∀ var, occ d var ≤ cnt o' var) ∧
      stack'.length + pos o' ≤ stack.length + pos o := by
  induction deps generalizing stack constant o with
  | nil =>
    exact ⟨stack, constant, o, rfl, ha, fun var => by simpa using hT var, Nat.le_refl _⟩
  | cons dep rest ih =>
    have h1 := hT dep
    simp only [List.count_cons_self] at h1
    cases hg : mGet o dep with
    | none =>
      simp only [cnt, hg, Option.getD_none] at h1
      omega
    | some k =>
      cases k with
      | zero =>
        simp only [cnt, hg, Option.getD_some] at h1
        omega
      | succ v =>
        have hpos := pos_mSet_dec o dep v ha hg
        have ha' : KeysAsc (mSet o dep v) := keysAsc_mSet o dep v ha
        have hT' : ∀ var, rest.count var + occ d var ≤ cnt (mSet o dep v) var := by
          intro var
          rw [cnt_mSet]
          have h2 := hT var
          split
          · rename_i he
            subst he
            simp only [List.count_cons_self, cnt, hg, Option.getD_some] at h2
            omega
          · rename_i hne
            rw [List.count_cons_of_ne hne] at h2
            exact h2
        simp only [constDeps, hg]
        by_cases hv : v = 0
        · subst hv
          obtain ⟨stack', constant', o', hr, hk, ht, hp⟩ :=
            ih (dep :: stack) (sIns constant dep) (mSet o dep 0) ha' hT'
          refine ⟨stack', constant', o', ?_, hk, ht, ?_⟩
          · simpa using hr
          · simp only [List.length_cons, if_true] at hp hpos
            omega
        · obtain ⟨stack', constant', o', hr, hk, ht, hp⟩ :=
            ih stack constant (mSet o dep v) ha' hT'
          refine ⟨stack', constant', o', ?_, hk, ht, ?_⟩
          · simpa [hv] using hr
          · rw [if_neg hv] at hpos
            omega

/-- The work-list loop succeeds when the fuel exceeds the potential. -/
theorem constLoop_ok (fuel : Nat) (stack constant : List Int) (d : List (Int × List Int))
    (o : List (Int × Nat)) (ha : KeysAsc o) (hT : ∀ var, occ d var ≤ cnt o var)
    (hfuel : stack.length + pos o < fuel) : Ok (constLoop fuel stack constant d o) := by
  induction fuel generalizing stack constant d o with
  | zero => omega
  | succ fuel ih =>
    cases stack with
    | nil => exact Ok.pure constant
    | cons c stack =>
      simp only [List.length_cons] at hfuel
      simp only [constLoop]
      cases hdeps : mGet d c with
      | none =>
        simp only []
        exact ih stack constant d o ha hT (by omega)
      | some deps =>
        have hT2 : ∀ var, deps.count var + occ (mErase d c) var ≤ cnt o var := by
          intro var
          have h1 := occ_mErase d c var
          rw [hdeps] at h1
          simp only [Option.getD_some] at h1
          have h2 := hT var
          omega
        obtain ⟨stack', constant', o', hr, hk, ht, hp⟩ :=
          constDeps_ok (mErase d c) deps stack constant o ha hT2
        simp only [hr, bind, Except.bind]
        exact ih stack' constant' (mErase d c) o' hk ht (by omega)

/-! ### the first loop -/

/-- Invariant of the first loop (`done`: the variables handled so far). -/
structure I1 (done : List Int) (st : CState) : Prop where
  ascD : KeysAsc st.2.1
  ascO : KeysAsc st.2.2
  fresh : ∀ u, u ∉ done → occ st.2.1 u = 0
  tot : ∀ var, occ st.2.1 var ≤ cnt st.2.2 var

theorem i1_skip {done : List Int} {st : CState} (h : I1 done st) (var : Int) : I1 (var :: done) st :=
  ⟨h.ascD, h.ascO, fun u hu => h.fresh u (fun hd => hu (List.mem_cons_of_mem _ hd)), h.tot⟩

theorem i1_checkConstant {done : List Int} {st : CState} (h : I1 done st) (var : Int)
    (hnd : var ∉ done) (vs : List Int) : I1 (var :: done) (checkConstant var vs st) := by
  rw [checkConstant_eq]
  split
  · exact i1_skip (st := (sIns st.1 var, st.2.1, st.2.2)) ⟨h.ascD, h.ascO, h.fresh, h.tot⟩ var
  · obtain ⟨hk, hocc, _, _⟩ := pushDeps_spec var (vs.filter (fun x => !(x == var))) st.2.1 h.ascD
    constructor
    · exact hk
    · exact keysAsc_mSet _ _ _ h.ascO
    · intro u hu
      show occ (pushDeps var _ st.2.1) u = 0
      have hne : u ≠ var := fun he => hu (by rw [he]; exact List.mem_cons_self)
      rw [hocc u, if_neg hne, h.fresh u (fun hd => hu (List.mem_cons_of_mem _ hd))]
    · intro u
      show occ (pushDeps var _ st.2.1) u ≤ cnt (mSet st.2.2 var _) u
      rw [hocc u, cnt_mSet]
      by_cases hu : u = var
      · subst hu
        rw [if_pos rfl, if_pos rfl, h.fresh u hnd]
        omega
      · rw [if_neg hu, if_neg (fun he => hu he.symm)]
        have := h.tot u
        omega

theorem checkConstant_nil (var : Int) (st : CState) :
    checkConstant var [] st = (sIns st.1 var, st.2.1, st.2.2) := by
  rw [checkConstant_eq]
  simp

/-- A step of the first loop succeeds; it either leaves the state alone or is a `check_constant`. -/
theorem constStep_cases (s : Rebuild w) (ps : List (Rebuild w)) (sub : Rebuild w)
    (hcmp : ∀ a b : Expr w, Ok (compare s ps a b)) (st : CState) (var : Int) :
    ∃ st', constStep s ps sub st var = .ok st' ∧ (st' = st ∨ ∃ vs, st' = checkConstant var vs st) := by
  unfold constStep
  split
  · rename_i wr hw
    obtain ⟨b, hb⟩ := hcmp (Expr.var var) wr
    rw [hb]
    cases b with
    | false => exact ⟨st, rfl, Or.inl rfl⟩
    | true =>
      split
      · rename_i p hp
        obtain ⟨b2, hb2⟩ := hcmp (Expr.var var) p
        rw [hb2]
        cases b2 with
        | false => exact ⟨st, rfl, Or.inl rfl⟩
        | true => exact ⟨_, rfl, Or.inr ⟨_, rfl⟩⟩
      · exact ⟨_, rfl, Or.inr ⟨_, rfl⟩⟩
  · exact ⟨st, rfl, Or.inl rfl⟩
  · split
    · rename_i p hp
      obtain ⟨b, hb⟩ := hcmp (Expr.var var) p
      rw [hb]
      cases b with
      | false => exact ⟨st, rfl, Or.inl rfl⟩
      | true => exact ⟨_, rfl, Or.inr ⟨_, rfl⟩⟩
    · exact ⟨_, rfl, Or.inr ⟨[], (checkConstant_nil var st).symm⟩⟩

theorem i1_fold (s : Rebuild w) (ps : List (Rebuild w)) (sub : Rebuild w)
    (hcmp : ∀ a b : Expr w, Ok (compare s ps a b)) (vars : List Int) (done : List Int) (st : CState)
    (h : I1 done st) (hnd : vars.Nodup) (hdis : ∀ v ∈ vars, v ∉ done) :
    ∃ st' done', vars.foldlM (constStep s ps sub) st = .ok st' ∧ I1 done' st' := by
  induction vars generalizing done st with
  | nil => exact ⟨st, done, rfl, h⟩
  | cons v vars ih =>
    rw [List.nodup_cons] at hnd
    obtain ⟨st1, hst1, hc⟩ := constStep_cases s ps sub hcmp st v
    have hv : v ∉ done := hdis v List.mem_cons_self
    have h1 : I1 (v :: done) st1 := by
      rcases hc with rfl | ⟨vs, rfl⟩
      · exact i1_skip h v
      · exact i1_checkConstant h v hv vs
    obtain ⟨st', done', hf, hi⟩ := ih (v :: done) st1 h1 hnd.2 (fun x hx hxd => by
      rcases List.mem_cons.1 hxd with rfl | hxd
      · exact hnd.1 hx
      · exact hdis x (List.mem_cons_of_mem _ hx) hxd)
    refine ⟨st', done', ?_, hi⟩
    rw [List.foldlM_cons, hst1]
    exact hf

/-- **`constantsAmong` is total**: no `unwrap` on `None`, no underflow, no fuel exhaustion. -/
theorem constantsAmong_ok {w : Nat} (s : Rebuild w) (ps : List (Rebuild w)) (sub : Rebuild w)
    (vars : List Int) (hnd : vars.Nodup) (hcmp : ∀ a b : Expr w, Ok (compare s ps a b)) :
    Ok (constantsAmong s ps sub vars) := by
  rw [constantsAmong_eq]
  have h0 : I1 [] (([], [], []) : CState) :=
    ⟨keysAsc_nil, keysAsc_nil, fun u _ => rfl, fun var => Nat.zero_le _⟩
  obtain ⟨st, done, hf, hi⟩ :=
    i1_fold s ps sub hcmp vars [] _ h0 hnd (fun v _ hv => by cases hv)
  rw [hf]
  show Ok (constLoop (st.1.length + st.2.2.length + 1) st.1.reverse st.1 st.2.1 st.2.2)
  refine constLoop_ok _ _ _ _ _ hi.ascO hi.tot ?_
  have := pos_le_length st.2.2
  rw [List.length_reverse]
  omega

#print axioms constantsAmong_ok

end OptTotal
end Hpbf
