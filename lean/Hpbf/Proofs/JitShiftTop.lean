/-
JIT range, the `shift` field, part 3: the two halves put together.

* `translateE_mov_mem` (part 2): every `mov sh` of `translateE b' numRegs fuse` has `sh ∈ shiftsL b'.insts`;
* `shiftsL_le_drift`, `optimizeF_drift` / `optimize_drift`, `parse_drift_le_moves` (part 1): for `parse src = .ok b`
  and `optimizeF b level orders = .ok b'` every such shift has `|sh| ≤ driftL b'.insts ≤ driftL b.insts ≤ moves src
  ≤ src.length`.
Hence `DispOk sz sh` from `bytes * length < 2^31`.
-/
import Hpbf.Proofs.JitShiftBc
import Hpbf.Proofs.ChainFinal2

namespace Hpbf
namespace Chain

open Bc BcGen C02 OptOffs

variable {w : Nat}

theorem dispOk_of_natAbs_le {sz : Asm.Size} {x : Int} {R : Nat} (hx : x.natAbs ≤ R)
    (hR : (sz.bytes : Int) * R < 2147483648) : C03.DispOk sz x := by
  unfold C03.DispOk
  cases sz <;> simp only [Asm.Size.bytes] at hR ⊢ <;> omega

/-- Every `mov` of a translated program carries one of the block shifts of the IR. -/
theorem translateE_mov_shiftsOf {blk : Ir.Block w} {numRegs : Nat} {fuse : Bool} {p : Bc.Program w}
    (ht : translateE blk numRegs fuse = .ok p) :
    ∀ (i : Nat) (sh : Int), p.insts[i]? = some (Bc.Instr.mov sh) → sh ∈ shiftsOf blk :=
  fun i sh hi => List.mem_cons_of_mem _ (C03.translateE_mov_mem ht i sh hi)

/-- From any bound on the block shifts of the IR. -/
theorem shift_of_shiftBound {blk : Ir.Block w} {numRegs : Nat} {fuse : Bool} {p : Bc.Program w} {sz : Asm.Size}
    {R : Nat} (ht : translateE blk numRegs fuse = .ok p) (hs : ∀ s ∈ shiftsOf blk, s.natAbs ≤ R)
    (hR : (sz.bytes : Int) * R < 2147483648) :
    ∀ (i : Nat) (sh : Int), p.insts[i]? = some (Bc.Instr.mov sh) → C03.DispOk sz sh :=
  fun i sh hi => dispOk_of_natAbs_le (hs sh (translateE_mov_shiftsOf ht i sh hi)) hR

/-- All block shifts (top-level and nested) of the IR optimized by `optimizeF` are bounded by the source length. -/
theorem optimizedF_shiftsOf_le_length {src : List Kind} {b b' : Ir.Block w} {level : Nat} {orders : Opt.Orders}
    (hp : Ir.parse (w := w) src = .ok b) (h : OptFix.optimizeF b level orders = .ok b') :
    ∀ s ∈ shiftsOf b', s.natAbs ≤ src.length := by
  intro s hs
  simp only [shiftsOf, List.mem_cons] at hs
  rcases hs with rfl | hs
  · exact optimizedF_shift_le_length hp h
  · have h1 := shiftsL_le_drift b'.insts s hs
    have h2 := optimizedF_drift_le_moves hp h
    have h3 := C10.moves_le_length src
    omega

/-- The same for the original optimizer `Opt.optimize`. -/
theorem optimized_shiftsOf_le_length {src : List Kind} {b b' : Ir.Block w} {level : Nat} {orders : Opt.Orders}
    (hp : Ir.parse (w := w) src = .ok b) (h : Opt.optimize b level orders = .ok b') :
    ∀ s ∈ shiftsOf b', s.natAbs ≤ src.length := by
  intro s hs
  simp only [shiftsOf, List.mem_cons] at hs
  rcases hs with rfl | hs
  · exact optimized_shift_le_length hp h
  · have h1 := shiftsL_le_drift b'.insts s hs
    have h2 := optimized_drift_le_moves hp h
    have h3 := C10.moves_le_length src
    omega

theorem shift_of_length_F {src : List Kind} {b b' : Ir.Block w} {level : Nat} {orders : Opt.Orders}
    {p : Bc.Program w} {numRegs : Nat} {fuse : Bool} {sz : Asm.Size}
    (hp : Ir.parse (w := w) src = .ok b) (h : OptFix.optimizeF b level orders = .ok b')
    (ht : translateE b' numRegs fuse = .ok p) (hlen : (sz.bytes : Int) * src.length < 2147483648) :
    ∀ (i : Nat) (sh : Int), p.insts[i]? = some (Bc.Instr.mov sh) → C03.DispOk sz sh :=
  shift_of_shiftBound ht (optimizedF_shiftsOf_le_length hp h) hlen

theorem shift_of_length_O {src : List Kind} {b b' : Ir.Block w} {level : Nat} {orders : Opt.Orders}
    {p : Bc.Program w} {numRegs : Nat} {fuse : Bool} {sz : Asm.Size}
    (hp : Ir.parse (w := w) src = .ok b) (h : Opt.optimize b level orders = .ok b')
    (ht : translateE b' numRegs fuse = .ok p) (hlen : (sz.bytes : Int) * src.length < 2147483648) :
    ∀ (i : Nat) (sh : Int), p.insts[i]? = some (Bc.Instr.mov sh) → C03.DispOk sz sh :=
  shift_of_shiftBound ht (optimized_shiftsOf_le_length hp h) hlen

/-- The five length-dependent fields of `JitRange` at once. -/
theorem fields_of_length_F {src : List Kind} {b b' : Ir.Block w} {level : Nat} {orders : Opt.Orders}
    {p : Bc.Program w} {numRegs : Nat} {fuse : Bool} {sz : Asm.Size}
    (hp : Ir.parse (w := w) src = .ok b) (h : OptFix.optimizeF b level orders = .ok b')
    (ht : translateE b' numRegs fuse = .ok p) (hlen : (sz.bytes : Int) * src.length < 2147483648) :
    (-2147483648 < p.minAcc ∧ p.maxAcc < 2147483648) ∧ C03.DispOk sz p.minAcc ∧ C03.DispOk sz p.maxAcc ∧
    (C03.DispOk sz (-p.minAcc) ∧ C03.DispOk sz (-p.maxAcc)) ∧
    ∀ (i : Nat) (sh : Int), p.insts[i]? = some (Bc.Instr.mov sh) → C03.DispOk sz sh := by
  have e : p = translate b' numRegs fuse := by
    have := translate_ok b' numRegs fuse
    rw [ht] at this; cases this; rfl
  obtain ⟨a1, a2, a3, a4, a5⟩ := jitRange_window_of_length_final2 hp h numRegs fuse sz hlen
  rw [← e] at a1 a2 a3 a4 a5
  exact ⟨a1, a2, a3, ⟨a4, a5⟩, shift_of_length_F hp h ht hlen⟩

end Chain
end Hpbf
