/-
Rebuild-round proofs, stage 2: `inline` (a block that is executed exactly once is spliced into its parent).
-/
import Hpbf.Proofs.OptRbLoopStay2
import Hpbf.Proofs.OptRbCanon4

namespace Hpbf
namespace OptProof
open Opt OptSem Ir

variable {w : Nat}

/-- The fold of `inline` over the child's `written` map. -/
def ifold (acc : Rebuild w × List (Int × Bool)) (vk : Int × OptWrite w) : Rebuild w × List (Int × Bool) :=
  if vk.2.isMaybe then (acc.1, acc.2 ++ [(vk.1, true)])
  else ((removePending acc.1 vk.1).1, acc.2 ++ [(vk.1, false)])

def knownsOf (sub : Rebuild w) : List (Int × Expr w) :=
  sub.written.filterMap (fun vk => match vk.2 with | .known e => some (vk.1, e) | _ => none)

/-- last phase of `inline` -/
def inlineEnd (s3 : Rebuild w) (ps : List (Rebuild w)) (sub : Rebuild w) : M (Rebuild w) :=
  if sub.noReturn then pure { s3 with noReturn := true }
  else do
    let pending ← takeInlineOrder sub.pending
    let s ← performAll s3 ps 0 pending
    pure { s with shift := sub.shift }

theorem inlineRest_run {s : Rebuild w} {ps : List (Rebuild w)} {sub : Rebuild w} {os os' : Orders} {s' : Rebuild w}
    (hr : (inlineRest s ps sub).run os = .ok (s', os')) :
    ∃ s2 os2 s4,
      (clobberAll ps (Expr.stableSort (fun (a b : Int × Bool) => decide (a.1 ≤ b.1))
        (sub.written.foldl ifold (s, [])).2) (sub.written.foldl ifold (s, [])).1).run os = .ok (s2, os2) ∧
      (inlineEnd (writtenCalcs { s2 with insts := s2.insts ++ sub.insts } ps (knownsOf sub)) ps sub).run os2
        = .ok (s4, os') ∧
      s' = { s4 with subAnal := s4.subAnal ++ sub.subAnal } := by
  unfold inlineRest at hr
  dsimp only at hr
  rw [run_bind_ok] at hr
  obtain ⟨s2, os2, h1, h2⟩ := hr
  refine ⟨s2, os2, ?_⟩
  unfold inlineEnd
  split at h2
  · rename_i hn
    rw [run_bind_ok] at h2
    obtain ⟨s4, os4, h3, h4⟩ := h2
    rw [run_pure] at h3 h4
    cases h3; cases h4
    exact ⟨_, h1, by rw [if_pos hn]; rfl, rfl⟩
  · rename_i hn
    rw [run_bind_ok] at h2
    obtain ⟨pend, os3, h3, h4⟩ := h2
    rw [run_bind_ok] at h4
    obtain ⟨s5, os5, h5, h6⟩ := h4
    rw [run_bind_ok] at h6
    obtain ⟨s6, os6, h7, h8⟩ := h6
    rw [run_pure] at h7 h8
    cases h7; cases h8
    refine ⟨_, h1, ?_, rfl⟩
    rw [if_neg hn, run_bind_ok]
    refine ⟨pend, os3, h3, ?_⟩
    rw [run_bind_ok]
    exact ⟨s5, os', h5, rfl⟩

/-- End-state relation of one execution of a non-moving child whose pending operations are kept: `y` is the
run of the child's code from the SOURCE memory (related to the source end state `a` through `sub`), `b` the run
from the parent's emitted memory. -/
def OnceQ (shC : Int) (K : Int → Prop) (sub : Rebuild w) (σS' σE' : State w) (a b : State w) : Prop :=
  ∃ y M0c, RelAt shC sub [] M0c y a ∧ AgreeOff (Rest K sub) y b ∧ b.ptr = σE'.ptr ∧
    (∀ v, M0c v = memS σE' σS' v) ∧
    (∀ v, mGet sub.written v = none → memE b v = memE σE' v)

theorem child_once {Gc : State w → Prop} {shP shC cS : Int} {pc : List (Rebuild w)} {sub0 sub : Rebuild w}
    {bodyS : List (Instr w)} (hc : ChildPre Gc shP shC pc sub0 sub cS bodyS)
    (K : Int → Prop) (hK : ∀ v, K v → v ∉ sub.reads) {σS' σE' : State w}
    (htr : σS'.trace = σE'.trace) (henv : σS'.env = σE'.env) (hptr : σS'.ptr = σE'.ptr + shP)
    (hag : ∀ v, ¬ K v → memS σE' σS' v = memE σE' v) (hne : σS'.rd cS ≠ 0#w) (hg : Gc σS') :
    Sim (OnceQ shC K sub σS' σE') bodyS sub.insts σS' σE' ∧ ¬ Bad sub.insts σE' := by
  have hX : ∃ σX : State w, σX = σS'.mov (-shP) := ⟨_, rfl⟩
  obtain ⟨σX, hσX⟩ := hX
  have hXptr : σX.ptr = σE'.ptr := by
    rw [hσX]; show σS'.ptr + -shP = σE'.ptr; rw [hptr]; omega
  have hXtape : σX.tape = σS'.tape := by rw [hσX]; rfl
  have hsm : SameMem shP σS' σX := by
    refine ⟨by rw [hσX]; rfl, by rw [hσX]; rfl, by rw [hXptr]; exact hptr, ?_⟩
    funext v
    show σS'.tape.get (σX.ptr + v) = σX.tape.get (σX.ptr + v)
    rw [hXtape]
  obtain ⟨M0c, hre⟩ := hc.entry σX σS' hsm hne hg
  obtain ⟨hs1, hnb1⟩ := hc.rep M0c σX σS' hre hg
  have hagX : AgreeOff (Rest K sub0) σX σE' := by
    refine ⟨hXptr, by rw [hσX]; exact henv, by rw [hσX]; exact htr, ?_⟩
    intro v hv
    have hkv : ¬ K v := fun hk => hv ((rest_fresh hc.w0 v).2 hk)
    have := hag v hkv
    show σX.tape.get (σX.ptr + v) = _
    rw [hXtape, hXptr]; exact this
  have hvX : ValidG Gc shP sub0 pc σX := ⟨M0c, σS', hre, hg⟩
  have hs2 := hc.foot hc.noShift K hK σX σE' hvX hagX
  refine ⟨?_, fun hb => hnb1 (hc.badfoot hc.noShift K hK σX σE' hvX hagX hb)⟩
  refine (Sim.trans hs1.fin_strengthen hs2.fin_strengthen).mono ?_
  rintro a b ⟨y, ⟨⟨M0', hr', hk'⟩, _, hy⟩, hab, _, hb⟩
  obtain ⟨hM0, pyp⟩ := hk' hc.noShift
  obtain ⟨pb, fb⟩ := hc.frame2 hc.noShift K hK σX σE' hvX hagX b hb
  have hXE : ∀ v, memE σX v = memS σE' σS' v := by
    intro v
    show σX.tape.get (σX.ptr + v) = σS'.tape.get (σE'.ptr + v)
    rw [hXtape, hXptr]
  have hM0c : ∀ v, M0c v = memE σX v := by
    intro v
    have := hre.inv.writ v
    rw [hc.w0] at this
    exact this.symm
  refine ⟨y, M0', hr', hab, pb, fun v => by rw [hM0, hM0c v, hXE v], ?_⟩
  intro v hv
  by_cases hr : v ∈ sub.reads
  · have hkv : ¬ K v := fun hk => hK v hk hr
    have hnr : ¬ Rest K sub v := fun h => hkv h.1
    rw [← hab.2.2.2 v hnr, hr'.inv.writ.absent hv, hM0, hM0c v, hXE v]
    exact hag v hkv
  · exact fb v ((mGet_none_iff _ _).1 hv) hr

/-! ### helpers -/

theorem ifold_eq : (ifold : Rebuild w × List (Int × Bool) → Int × OptWrite w → _) =
    cfold (OptLoop.unknown true) [] := by
  funext acc vk
  simp [ifold, cfold, OptLoop.unknown]

/-- The state's analysis does not make `canAskParentFor` depend on `shift`. -/
def ShiftFree (s : Rebuild w) : Prop :=
  s.anal = none ∨ ∃ a, s.anal = some a ∧ a.loopAnal.atMostOnce = true

theorem canAsk_shift {s : Rebuild w} (h : ShiftFree s) (x : Int) (v : Int) :
    canAskParentFor { s with shift := x } v = canAskParentFor s v := by
  unfold canAskParentFor
  rcases h with h | ⟨a, h, ha⟩
  · simp only [h]
  · simp only [h, ha, Bool.true_or]

theorem PK.shift {s : Rebuild w} {ps : List (Rebuild w)} {M0 : Mem w} (h : PK s ps M0) (hf : ShiftFree s)
    (x : Int) : PK { s with shift := x } ps M0 := by
  have hca : ∀ v, canAskParentFor { s with shift := x } v = canAskParentFor s v := canAsk_shift hf x
  refine ⟨?_, ?_, ?_⟩
  · intro v c hc
    apply h.const v c
    unfold getParentConstant at hc ⊢
    rw [hca] at hc; exact hc
  · intro v hv
    apply h.nz v
    unfold nonZeroParent at hv ⊢
    rw [hca] at hv; exact hv
  · intro a b ha hb hc
    apply h.cmp a b ha hb
    unfold compareParent at hc ⊢
    have : (fun y => canAskParentFor { s with shift := x } y) = (fun y => canAskParentFor s y) := by
      funext y; exact hca y
    rw [this] at hc; exact hc

/-- Sequential assignment of entries of a map, covering all its keys, is the simultaneous assignment. -/
theorem assignS_eq_par {P l : List (Int × Expr w)} (hl : ∀ ve ∈ l, mGet P ve.1 = some ve.2)
    (hall : ∀ k e, mGet P k = some e → (k, e) ∈ l) (S : Mem w) :
    assignS 0 l S = Mem.par P S := by
  unfold assignS
  -- general accumulator
  have key : ∀ (l' : List (Int × Expr w)) (acc : Mem w), (∀ ve ∈ l', mGet P ve.1 = some ve.2) →
      ∀ v, ((l'.map (fun vc => ((0 : Int) + vc.1, Expr.evaluate vc.2 (fun x => S (x + 0))))).foldl
        (fun m kv => upd m kv.1 kv.2) acc) v =
        (if v ∈ l'.map (·.1) then Mem.par P S v else acc v) := by
    intro l'
    induction l' with
    | nil => intro acc _ v; simp
    | cons ve l' ih =>
      intro acc hl' v
      simp only [List.map_cons, List.foldl_cons]
      rw [ih _ (fun x hx => hl' x (List.mem_cons_of_mem _ hx))]
      by_cases hv : v ∈ l'.map (·.1)
      · simp [hv]
      · simp only [hv, if_false, List.mem_cons]
        by_cases hv2 : v = ve.1
        · subst hv2
          simp only [true_or, if_true]
          rw [show (0 : Int) + ve.1 = ve.1 by omega, upd_same, par_of_get _ _ _ _ (hl' ve (by simp))]
          show Expr.evaluate ve.2 _ = Expr.evaluate ve.2 S
          congr 1; funext x; simp
        · simp only [hv2, false_or, hv, if_false]
          rw [upd_ne]
          omega
  funext v
  rw [key l S hl v]
  by_cases hv : v ∈ l.map (·.1)
  · simp [hv]
  · simp only [hv, if_false]
    cases hp : mGet P v with
    | none => exact (par_of_not_mem _ _ _ hp).symm
    | some e => exact absurd (List.mem_map.2 ⟨(v, e), hall v e hp, rfl⟩) hv

theorem mem_knownsOf {sub : Rebuild w} (hs : Sorted sub.written) (v : Int) (e : Expr w) :
    (v, e) ∈ knownsOf sub ↔ mGet sub.written v = some (.known e) := by
  unfold knownsOf
  rw [List.mem_filterMap]
  constructor
  · rintro ⟨⟨k, wv⟩, hmem, hsome⟩
    cases wv with
    | known e' =>
      simp only [Option.some.injEq, Prod.mk.injEq] at hsome
      obtain ⟨rfl, rfl⟩ := hsome
      exact mGet_of_mem hs hmem
    | unknown => simp at hsome
    | maybe => simp at hsome
  · intro h
    exact ⟨(v, .known e), mGet_some_mem h, rfl⟩

theorem nodup_knownsOf {sub : Rebuild w} (hs : Sorted sub.written) : ((knownsOf sub).map (·.1)).Nodup := by
  unfold knownsOf
  have hnd := nodup_keys_of_sorted hs
  unfold mKeys at hnd
  generalize sub.written = l at hnd
  induction l with
  | nil => simp
  | cons kv l ih =>
    simp only [List.map_cons, List.nodup_cons] at hnd
    simp only [List.filterMap_cons]
    cases hk : kv.2 with
    | known e =>
      simp only [List.map_cons, List.nodup_cons]
      refine ⟨?_, ih hnd.2⟩
      intro hmem
      obtain ⟨x, hx, e1⟩ := List.mem_map.1 hmem
      obtain ⟨y, hy, e2⟩ := List.mem_filterMap.1 hx
      apply hnd.1
      have : y.1 = x.1 := by
        cases hy2 : y.2 with
        | known e' => rw [hy2] at e2; simp only [Option.some.injEq] at e2; rw [← e2]
        | unknown => rw [hy2] at e2; simp at e2
        | maybe => rw [hy2] at e2; simp at e2
      exact List.mem_map.2 ⟨y, hy, by rw [this, e1]⟩
    | unknown => exact ih hnd.2
    | maybe => exact ih hnd.2

/-! ### the parent's state after the spliced code -/

/-- After the child's code: the parent's invariant for the state that has clobbered the child's writes and
recorded the child's known entries; `Ey` plays the role of the source memory (the child's pending operations are
not applied yet). -/
theorem inline_minv {ps : List (Rebuild w)} {s2 sub : Rebuild w} {M0 E2 S Eb Ey : Mem w} {Dx : Int → Prop}
    {M0c : Mem w} (hwf2 : Wf s2) (hwfc : Wf sub)
    (hX : MInvX Dx s2 ps M0 E2 S)
    (hdead : ∀ vk ∈ sub.written, Dead s2 vk.1)
    (hDx : ∀ v, Dx v → ∃ k, (v, k) ∈ sub.written ∧ k.isMaybe = false)
    (hreadsP : ∀ v ∈ sub.reads, mGet s2.pending v = none ∧ ¬ Dx v)
    (hkv : ∀ v e, mGet sub.written v = some (.known e) → ∀ x ∈ Expr.variables e, x ∈ sub.reads)
    (hM0c : ∀ v, M0c v = S v)
    (hwy : WrOk sub M0c Ey)
    (hag : ∀ v, ¬ ((S v ≠ E2 v) ∧ ¬ DefW sub v) → Ey v = Eb v)
    (hfb : ∀ v, mGet sub.written v = none → Eb v = E2 v)
    (insts' : List (Instr w)) :
    MInv (writtenCalcs { s2 with insts := insts' } ps (knownsOf sub)) ps M0 Eb Ey := by
  -- the parent's invariant before recording the known entries
  have hSE : ∀ v, mGet s2.pending v = none → ¬ Dx v → S v = E2 v := by
    intro v hp hd
    rw [hX.pendX v hd]; exact par_of_not_mem _ _ _ hp
  have hm2 : MInv s2 ps M0 Eb Ey := by
    refine (hX.mono (D' := fun v => ∃ k, (v, k) ∈ sub.written) ?_).havoc ?_ ?_ ?_
    · intro v hd
      obtain ⟨k, hk, _⟩ := hDx v hd
      exact ⟨k, hk⟩
    · rintro v ⟨k, hk⟩
      exact hdead (v, k) hk
    · intro v hv
      have hw : mGet sub.written v = none := by
        cases h : mGet sub.written v with
        | none => rfl
        | some k => exact absurd ⟨k, mGet_some_mem h⟩ hv
      refine ⟨hfb v hw, ?_⟩
      rw [hwy.absent hw, hM0c v]
    · rintro v ⟨k, hk⟩
      apply hag v
      rintro ⟨hne, hnd⟩
      by_cases hm : k.isMaybe = false
      · exact hnd ⟨k, mGet_of_mem hwfc.writ hk, hm⟩
      · apply hne
        apply hSE v (hdead (v, k) hk).1
        intro hd
        obtain ⟨k', hk', hm'⟩ := hDx v hd
        have e1 := mGet_of_mem hwfc.writ hk
        have e2 := mGet_of_mem hwfc.writ hk'
        rw [e1] at e2
        cases e2
        exact hm hm'
  obtain ⟨hsame, _, hwr⟩ := writtenCalcs_eq ({ s2 with insts := insts' } : Rebuild w) ps (knownsOf sub)
  have hm2' : MInv ({ s2 with insts := insts' } : Rebuild w) ps M0 Eb Ey :=
    hm2.congr rfl rfl (SameHdr.refl _)
  refine ⟨by rw [hsame.2.2.2.2.2.2.2.1]; exact hm2'.pend, ?_, hm2'.pk.congr hsame.hdr⟩
  intro v
  rw [hwr]
  have hnd : (((knownsOf sub).map (fun vc => (vc.1, knownOf ({ s2 with insts := insts' } : Rebuild w) ps vc.2))).map
      (·.1)).Nodup := by
    rw [List.map_map]; exact nodup_knownsOf hwfc.writ
  by_cases hv : v ∈ (knownsOf sub).map (·.1)
  · obtain ⟨ve, hve, rfl⟩ := List.mem_map.1 hv
    rw [mGet_foldl_mSet_in _ _ ve.1 (knownOf ({ s2 with insts := insts' } : Rebuild w) ps ve.2) hnd
      (List.mem_map.2 ⟨ve, hve, rfl⟩)]
    have hkn : mGet sub.written ve.1 = some (.known ve.2) := (mem_knownsOf hwfc.writ ve.1 ve.2).1 hve
    by_cases hop : Expr.opCount ve.2 < 32
    · cases hc : evalWritten ({ s2 with insts := insts' } : Rebuild w) ps ve.2 with
      | none => simp only [knownOf, hop, hc, if_true]
      | some c =>
        simp only [knownOf, hop, hc, if_true]
        -- the value in the emitted run
        have h1 : Eb ve.1 = Ey ve.1 := by
          symm; apply hag
          rintro ⟨_, hnd'⟩
          exact hnd' ⟨_, hkn, rfl⟩
        have h2 : Ey ve.1 = ev ve.2 M0c := hwy.known hkn
        have h3 : ev ve.2 M0c = ev ve.2 E2 := by
          apply ev_congr
          intro x hx
          obtain ⟨hp, hd⟩ := hreadsP x (hkv ve.1 ve.2 hkn x hx)
          rw [hM0c x, hSE x hp hd]
        have h4 : ev c M0 = ev ve.2 E2 :=
          evalWritten_sound' (s := ({ s2 with insts := insts' } : Rebuild w)) (ps := ps)
            (hX.writ.of_written_eq rfl) (hX.pk.congr (SameHdr.refl _)) hc
        rw [h1, h2, h3, ← h4]
        exact (Expr.eval_normalize c M0).symm
    · simp only [knownOf, hop, if_false]
  · have hv' : v ∉ ((knownsOf sub).map (fun vc => (vc.1, knownOf ({ s2 with insts := insts' } : Rebuild w) ps vc.2))).map
        (·.1) := by
      rw [List.map_map]; exact hv
    rw [mGet_foldl_mSet_notin _ _ _ hv']
    exact hm2.writ v

theorem takeInlineOrder_cover {P l : List (Int × Expr w)} {os os' : Orders} (hs : Sorted P)
    (h : (takeInlineOrder P).run os = .ok (l, os')) :
    (∀ ve ∈ l, mGet P ve.1 = some ve.2) ∧ (∀ k e, mGet P k = some e → (k, e) ∈ l) := by
  have hmem := takeInlineOrder_mem h
  refine ⟨fun ve hve => mGet_of_mem hs (hmem ve hve), ?_⟩
  have h' : takeInlineOrder P os = .ok (l, os') := h
  unfold takeInlineOrder at h'
  split at h'
  · cases h'
    intro k e hk; exact mGet_some_mem hk
  · split at h'
    · rename_i ks rest
      dsimp only at h'
      split at h'
      · rename_i hchk
        cases h'
        intro k e hk
        simp only [Bool.and_eq_true, List.all_eq_true, List.contains_eq_mem, decide_eq_true_eq] at hchk
        have hkk : k ∈ mKeys P := (mGet_isSome_iff _ _).1 (by rw [hk]; rfl)
        have hks : k ∈ ks := hchk.1.2 k hkk
        rw [List.mem_filterMap]
        exact ⟨k, hks, by rw [hk]; rfl⟩
      · cases h'
    · cases h'

/-- `inline` of a child that does not move the pointer (the block is executed exactly once). -/
theorem inline_stay_ok {shP shC shS cS : Int} {bodyS : List (Instr w)}
    {s : Rebuild w} {ps : List (Rebuild w)} {sub : Rebuild w} {pc : List (Rebuild w)} {sub0 : Rebuild w}
    {os os' : Orders} {s' : Rebuild w} {G Gc : State w → Prop}
    (hr : (Opt.inline s ps sub).run os = .ok (s', os'))
    (hwf : Wf s) (hpre : ChildPre Gc shP shC pc sub0 sub cS bodyS) (hsf : ShiftFree s)
    (hkv : ∀ v e, mGet sub.written v = some (.known e) → ∀ x ∈ Expr.variables e, x ∈ sub.reads)
    (hne : ∀ M0 σE σS, RelAt shP s ps M0 σE σS → G σS → σS.rd cS ≠ 0#w)
    (hGc : ∀ M0 σE σS, RelAt shP s ps M0 σE σS → G σS → Gc σS) :
    Wf s' ∧ s'.subShift = s.subShift ∧ s'.parent = s.parent ∧ s'.anal = s.anal ∧ s'.cond = s.cond ∧
    (sub.noReturn = true → s'.noReturn = true) ∧ (sub.noReturn = false → s'.shift = sub.shift) ∧
    ∃ new, s'.insts = s.insts ++ new ∧
      ∀ M0 σE σS, RelAt shP s ps M0 σE σS → G σS →
        Sim (fun a b => StepQ (shC + shS) ps s' M0 σE (a.mov shS) b) bodyS new σS σE ∧ ¬ Bad new σE := by
  rw [inline_eq, if_neg (by rw [hpre.noShift]; simp), run_bind_ok] at hr
  obtain ⟨s1, os1, h1, h2⟩ := hr
  obtain ⟨s2, os2, s4, h3, h4, rfl⟩ := inlineRest_run h2
  obtain ⟨c1, r1, n1⟩ := emitReadAll_pending_none ps _ hwf h1
  have hcp : (clobberPhase s1 ps sub (OptLoop.unknown true) []).run os1 = .ok (s2, os2) := by
    rw [clobberPhase_eq]
    have : (!(OptLoop.unknown true : OptLoop w).noEffect) = true := rfl
    rw [if_pos this, ← ifold_eq]; exact h3
  obtain ⟨c2, r2, d2, k2⟩ := clobberPhase_res ps sub (OptLoop.unknown true) [] r1.wf hcp
  have hdead : ∀ vk ∈ sub.written, Dead s2 vk.1 := fun vk hvk => d2 rfl vk hvk (by simp)
  have hreads2 : ∀ v ∈ sub.reads, mGet s2.pending v = none := by
    intro v hv
    have hm : v ∈ readsSorted sub s := by
      unfold readsSorted; rw [(Expr.stableSort_perm _ _).mem_iff]; exact hv
    cases hp : mGet s2.pending v with
    | none => rfl
    | some e =>
      have := n1 v hm
      rw [r2.sub v e hp] at this; cases this
  have hreads1 : ∀ v ∈ sub.reads, mGet s1.pending v = none := fun v hv =>
    n1 v (by unfold readsSorted; rw [(Expr.stableSort_perm _ _).mem_iff]; exact hv)
  -- the recorded state
  have hwc := writtenCalcs_eq ({ s2 with insts := s2.insts ++ sub.insts } : Rebuild w) ps (knownsOf sub)
  obtain ⟨hsame3, _, hwr3⟩ := hwc
  have hwf3 : Wf (writtenCalcs ({ s2 with insts := s2.insts ++ sub.insts } : Rebuild w) ps (knownsOf sub)) := by
    refine ⟨by rw [hsame3.2.2.2.2.2.2.2.1]; exact r2.wf.pend, ?_, by rw [hsame3.2.2.2.2.2.2.2.2.1]; exact r2.wf.rev,
      by rw [hsame3.2.2.2.2.2.2.2.1, hsame3.2.2.2.2.2.2.2.2.1]; exact r2.wf.revOk⟩
    rw [hwr3]; exact sorted_foldl_mSet _ r2.wf.writ
  have hinsts3 : (writtenCalcs ({ s2 with insts := s2.insts ++ sub.insts } : Rebuild w) ps (knownsOf sub)).insts
      = s.insts ++ (c1 ++ c2).map Instr.calc ++ sub.insts := by
    rw [hsame3.2.2.2.2.2.2.2.2.2.1]
    show s2.insts ++ sub.insts = _
    rw [r2.insts, r1.insts]; simp
  have hhdr3 : SameHdr s (writtenCalcs ({ s2 with insts := s2.insts ++ sub.insts } : Rebuild w) ps (knownsOf sub)) :=
    (r1.hdr.trans r2.hdr).trans hsame3.hdr
  -- the semantic core, up to the recorded state
  have hcore : ∀ M0 σE σS, RelAt shP s ps M0 σE σS → G σS →
      Sim (fun a b => ∃ y M0c, RelAt shC sub [] M0c y a ∧ y.ptr = b.ptr ∧ a.trace = b.trace ∧ a.env = b.env ∧
          b.ptr = σE.ptr ∧
          MInv (writtenCalcs ({ s2 with insts := s2.insts ++ sub.insts } : Rebuild w) ps (knownsOf sub)) ps M0
            (memE b) (memE y))
        bodyS ((c1 ++ c2).map Instr.calc ++ sub.insts) σS σE ∧
      ¬ Bad ((c1 ++ c2).map Instr.calc ++ sub.insts) σE := by
    intro M0 σE σS hrel hG
    obtain ⟨m1, m2, m3⟩ := foldl_doCalc_meta (c1 ++ c2) σE
    have hnd12 : ∀ g ∈ c1 ++ c2, (g.map (·.1)).Nodup := by
      intro g hg
      rcases List.mem_append.1 hg with h | h
      · exact r1.nodup g h
      · exact r2.nodup g h
    have hX : MInvX (fun v => False ∨ ((OptLoop.unknown true : OptLoop w).noEffect = false ∧
          DropL (OptLoop.unknown true) [] sub.written s1 v)) s2 ps M0
        (memE ((c1 ++ c2).foldl doCalc σE)) (memS ((c1 ++ c2).foldl doCalc σE) σS) := by
      rw [memE_foldl_doCalc σE _ hnd12, memS_foldl_doCalc, seq_append]
      exact k2 _ M0 _ _ ((r1.minv hrel.inv).toX _)
    have hDxW : ∀ v, (False ∨ ((OptLoop.unknown true : OptLoop w).noEffect = false ∧
        DropL (OptLoop.unknown true) [] sub.written s1 v)) → ∃ k, (v, k) ∈ sub.written ∧ k.isMaybe = false := by
      rintro v (h | ⟨_, vk, hvk, e1, _, e3, _⟩)
      · exact absurd h id
      · refine ⟨vk.2, by rw [← e1]; exact hvk, ?_⟩
        cases hm : vk.2.isMaybe with
        | false => rfl
        | true => rw [hm] at e3; simp at e3
    have hDxR : ∀ v ∈ sub.reads, mGet s2.pending v = none ∧ ¬ (False ∨ ((OptLoop.unknown true : OptLoop w).noEffect = false ∧
        DropL (OptLoop.unknown true) [] sub.written s1 v)) := by
      intro v hv
      refine ⟨hreads2 v hv, ?_⟩
      rintro (h | ⟨_, vk, _, e1, _, _, e4⟩)
      · exact h
      · exact e4 (hreads1 v hv)
    have hSE : ∀ v, mGet s2.pending v = none → ¬ (False ∨ ((OptLoop.unknown true : OptLoop w).noEffect = false ∧
        DropL (OptLoop.unknown true) [] sub.written s1 v)) →
        memS ((c1 ++ c2).foldl doCalc σE) σS v = memE ((c1 ++ c2).foldl doCalc σE) v := by
      intro v hp hd
      rw [hX.pendX v hd]; exact par_of_not_mem _ _ _ hp
    have hK : ∀ v, memS ((c1 ++ c2).foldl doCalc σE) σS v ≠ memE ((c1 ++ c2).foldl doCalc σE) v →
        v ∉ sub.reads := by
      intro v hv hr'
      obtain ⟨hp, hd⟩ := hDxR v hr'
      exact hv (hSE v hp hd)
    have honce := child_once hpre
      (fun v => memS ((c1 ++ c2).foldl doCalc σE) σS v ≠ memE ((c1 ++ c2).foldl doCalc σE) v) hK
      (by rw [m3]; exact hrel.tr) (by rw [m2]; exact hrel.env) (by rw [m1]; exact hrel.ptr)
      (fun v hv => Classical.not_not.1 hv) (hne M0 σE σS hrel hG) (hGc M0 σE σS hrel hG)
    refine ⟨Sim.calcs_right (c1 ++ c2) (honce.1.mono ?_), ?_⟩
    · rintro a b ⟨y, M0c, hr', hab, pb, hM0c, hfb⟩
      refine ⟨y, M0c, hr', hab.1, hr'.tr.trans hab.2.2.1, hr'.env.trans hab.2.1, pb.trans m1, ?_⟩
      refine inline_minv r2.wf hpre.wf hX hdead hDxW hDxR hkv hM0c hr'.inv.writ ?_ hfb _
      intro v hv
      apply hab.2.2.2 v
      rintro ⟨h1', h2'⟩
      exact hv ⟨h1', h2'⟩
    · rw [bad_calcs_iff]
      exact honce.2
  have hs1nr : s2.noReturn = s.noReturn := r2.noRet.trans r1.noRet
  have hsf3 : ShiftFree (writtenCalcs ({ s2 with insts := s2.insts ++ sub.insts } : Rebuild w) ps (knownsOf sub)) := by
    unfold ShiftFree at hsf ⊢
    rw [hhdr3.2.1]; exact hsf
  unfold inlineEnd at h4
  split at h4
  · -- the child never returns
    rename_i hnr
    rw [run_pure] at h4
    cases h4
    refine ⟨⟨hwf3.pend, hwf3.writ, hwf3.rev, hwf3.revOk⟩, hhdr3.2.2.2.2, hhdr3.1, hhdr3.2.1, hhdr3.2.2.2.1,
      fun _ => rfl, fun h => absurd (hnr.symm.trans h) (by simp),
      (c1 ++ c2).map Instr.calc ++ sub.insts, ?_, ?_⟩
    · show (writtenCalcs _ ps (knownsOf sub)).insts = _
      rw [hinsts3, List.append_assoc]
    · intro M0 σE σS hrel hG
      obtain ⟨hs, hb⟩ := hcore M0 σE σS hrel hG
      refine ⟨hs.mono ?_, hb⟩
      rintro a b ⟨y, M0c, hr', _⟩
      have := hr'.nr
      rw [hnr] at this; cases this
  · rename_i hnr
    rw [run_bind_ok] at h4
    obtain ⟨l, os3, h5, h6⟩ := h4
    rw [run_bind_ok] at h6
    obtain ⟨s5, os5, h7, h8⟩ := h6
    rw [run_pure] at h8
    cases h8
    obtain ⟨hl1, hl2⟩ := takeInlineOrder_cover hpre.wf.pend h5
    obtain ⟨c3, s3', res3, hwf5, hsame5, hminv5⟩ := performAll_spec hwf3 h7
    have hhdr5 : SameHdr s s5 := hhdr3.trans (res3.hdr.trans hsame5.hdr)
    refine ⟨⟨hwf5.pend, hwf5.writ, hwf5.rev, hwf5.revOk⟩, hhdr5.2.2.2.2, hhdr5.1, hhdr5.2.1, hhdr5.2.2.2.1,
      fun h => absurd h hnr, fun _ => rfl,
      ((c1 ++ c2).map Instr.calc ++ sub.insts) ++ c3.map Instr.calc, ?_, ?_⟩
    · show s5.insts = _
      rw [hsame5.2.2.2.2.2.2.2.2.1, res3.insts, hinsts3]
      simp only [List.append_assoc]
    · intro M0 σE σS hrel hG
      obtain ⟨hs, hb⟩ := hcore M0 σE σS hrel hG
      refine ⟨?_, ?_⟩
      · have : Sim (fun a b => StepQ (shC + shS) ps
            ({ ({ s5 with shift := sub.shift } : Rebuild w) with
              subAnal := ({ s5 with shift := sub.shift } : Rebuild w).subAnal ++ sub.subAnal }) M0 σE (a.mov shS) b)
            (bodyS ++ []) (((c1 ++ c2).map Instr.calc ++ sub.insts) ++ c3.map Instr.calc) σS σE := by
          refine Sim.append hs ?_
          rintro a b ⟨y, M0c, hr', hyb, htr, henv, hbp, hm3⟩
          obtain ⟨m1, m2, m3⟩ := foldl_doCalc_meta c3 b
          refine Sim.of_atomic (atomic_calcs ([] : List (List (Int × Expr w)))) (atomic_calcs c3)
            htr.symm rfl (m3.trans htr.symm) (m2.trans henv.symm) ?_
          intro _
          refine ⟨M0, ⟨?_, ?_, ?_, ?_, ?_⟩, fun _ => ⟨rfl, m1.trans hbp⟩⟩
          · show a.trace = (c3.foldl doCalc b).trace
            rw [m3]; exact htr
          · show a.env = (c3.foldl doCalc b).env
            rw [m2]; exact henv
          · show a.ptr + shS = (c3.foldl doCalc b).ptr + (shC + shS)
            rw [m1, hr'.ptr, hyb]; omega
          · show s5.noReturn = false
            rw [hsame5.2.2.2.2.2.1, res3.noRet, hsame3.2.2.2.2.2.1]
            show s2.noReturn = false
            rw [hs1nr]; exact hrel.nr
          · have hS : memS (c3.foldl doCalc b) (a.mov shS) = assignS 0 l (memE y) := by
              have e1 : memS (c3.foldl doCalc b) (a.mov shS) = memS y a := by
                funext v
                show a.tape.get ((c3.foldl doCalc b).ptr + v) = a.tape.get (y.ptr + v)
                rw [m1, hyb]
              rw [e1, hr'.inv.pend, assignS_eq_par hl1 hl2]
            have hE : memE (c3.foldl doCalc b) = Mem.seq c3 (memE b) := memE_foldl_doCalc b c3 res3.nodup
            show MInv _ ps M0 (memE (c3.foldl doCalc b)) (memS (c3.foldl doCalc b) (a.mov shS))
            rw [hS, hE]
            have h5m := hminv5 M0 _ _ hm3
            have hsf5 : ShiftFree s5 := by
              unfold ShiftFree at hsf ⊢
              rw [hhdr5.2.1]; exact hsf
            exact ⟨h5m.pend, h5m.writ, (h5m.pk.shift hsf5 sub.shift).congr ⟨rfl, rfl, rfl, rfl, rfl⟩⟩
        rw [List.append_nil] at this
        exact this
      · intro hbad
        rcases bad_append.1 hbad with h1' | ⟨σ1, _, h2'⟩
        · exact hb h1'
        · exact not_bad_of_noBlocks (noBlocks_calcs c3) _ h2'

end OptProof
end Hpbf
