/-
C11 for the output of `allocate_temps`, part 7: composition.

* `latePasses_initFacts` / `latePasses_liveFacts`: the late passes carry solutions of the initialisation and
  liveness clauses from their input to their output;
* `allocateTemps_initOk_of_emit`, `allocateTemps_liveOk_of_emit`: the two clauses hold (in the boolean form tested
  by `BcWf.check`) for the output of `allocate_temps` in the pipeline;
* `translateE_initOk`, `translateE_liveOk`: they hold for every program returned by `translateE`.
-/
import Hpbf.Proofs.C11AllocStrip
import Hpbf.Proofs.ChainPhases
set_option linter.unusedSimpArgs false

namespace Hpbf
namespace C02

open Bc BcWf BcGen C11 Alloc Alloc.Wf

variable {w : Nat}

/-! ### the late passes -/

/-- The shape of a successful run of the late passes. -/
theorem latePasses_shape (s s4 : St w) (h : LatePre s) (fuse : Bool) (h4 : latePasses fuse s = .ok s4) :
    ∃ sz : St w, InstsSim s.insts sz.insts ∧ sz.live = s.live ∧ sz.live.size = sz.insts.size ∧
      TargetsOk sz.insts ∧ stripNoops sz = .ok s4 := by
  have hT1 := parameterReordering_targetsOk s h.targets
  have hZ1 := parameterReordering_noMemZero s h.noZero
  have hL1 : (parameterReordering s).live.size = (parameterReordering s).insts.size := by
    rw [parameterReordering_live, parameterReordering_size]; exact h.live
  cases fuse with
  | false =>
    simp only [latePasses, Bool.false_eq_true, if_false, pure_bind] at h4
    exact ⟨parameterReordering s, instsSim_parameterReordering s, rfl, hL1, hT1, h4⟩
  | true =>
    obtain ⟨tg, r1, r2⟩ := recordBranchTargets_spec (parameterReordering s) hT1
    obtain ⟨s3, z1, z2, _, z4, z5, _⟩ := zeroingMoveDetection_preserves_of_pre
      { parameterReordering s with isTarget := tg } ⟨r2, hZ1⟩
    simp only [latePasses, if_true, r1, bind, Except.bind, z1] at h4
    obtain ⟨q1, q2⟩ := zeroingMoveDetection_sim { parameterReordering s with isTarget := tg } ⟨r2, hZ1⟩ z1
    refine ⟨s3, (instsSim_parameterReordering s).trans q1, q2, ?_, z5, h4⟩
    rw [z2, z4]; exact hL1

theorem latePasses_initFacts (s s4 : St w) (h : LatePre s) (fuse : Bool) (h4 : latePasses fuse s = .ok s4)
    {t : Nat} {mn mx : Int} {I : Array (List Nat)} (hI : InitFacts (progOf s t mn mx) I)
    (t' : Nat) (mn' mx' : Int) : ∃ I', InitFacts (progOf s4 t' mn' mx') I' := by
  obtain ⟨sz, h1, h2, h3, h5, h6⟩ := latePasses_shape s s4 h fuse h4
  have hIz : InitFacts (progOf sz t mn mx) I := initFacts_of_sim (p' := progOf sz t mn mx) hI h1
  exact ⟨_, initFacts_strip (stripNoops_rel sz s4 h3 h5 h6 t t' mn mn' mx mx') hIz⟩

theorem latePasses_liveFacts (s s4 : St w) (h : LatePre s) (fuse : Bool) (h4 : latePasses fuse s = .ok s4)
    {numRegs t : Nat} {mn mx : Int} {O : Array (List Nat)} (hO : LiveFacts (progOf s t mn mx) numRegs O)
    (t' : Nat) (mn' mx' : Int) : ∃ O', LiveFacts (progOf s4 t' mn' mx') numRegs O' := by
  obtain ⟨sz, h1, h2, h3, h5, h6⟩ := latePasses_shape s s4 h fuse h4
  have hOz : LiveFacts (progOf sz t mn mx) numRegs O := liveFacts_of_sim (p' := progOf sz t mn mx) hO h1 h2
  exact ⟨_, liveFacts_strip (stripNoops_rel sz s4 h3 h5 h6 t t' mn mn' mx mx') hOz⟩

/-! ### the pipeline -/

section
variable {prog : Ir.Block w} {fuse : Bool} {numRegs : Nat} {s1 s2 s3 : St w}

/-- **`allocate_temps` in the pipeline, initialisation**: in the code after the pass no physical temporary is read
before it is written on any path – the checker's own test, with the array the checker computes, for every packaging
whose `temps` bounds the temporaries read. -/
theorem allocateTemps_initOk_of_emit (h1 : emitState prog fuse = .ok s1) (h2 : deadStoreElim s1 = .ok s2)
    (h3 : allocateTemps numRegs s2 = .ok s3) (Tn : Nat) (mn mx : Int) (hb : TempsBelow s3.insts Tn) :
    initOk (progOf s3 Tn mn mx) (initSolve (progOf s3 Tn mn mx)) = true := by
  obtain ⟨s2', h2', _, _, _, hT, _⟩ := deadStoreElim_preserves_of_emit h1
  rw [h2] at h2'; cases h2'
  exact allocateTemps_initOk s2 s3 numRegs (AEmit.allocPre_of_emit h1 h2) (hT (Chain.emit_targetsOk h1)) h3 Tn mn mx hb

/-- **`allocate_temps` in the pipeline, liveness**: every register temporary needed after a non-branch instruction
is in its `live` bitmap. -/
theorem allocateTemps_liveOk_of_emit (h1 : emitState prog fuse = .ok s1) (h2 : deadStoreElim s1 = .ok s2)
    (h3 : allocateTemps numRegs s2 = .ok s3) (Tn : Nat) (mn mx : Int) (hb : TempsBelow s3.insts Tn) :
    liveOk (progOf s3 Tn mn mx) numRegs (liveSolve (progOf s3 Tn mn mx)) = true := by
  obtain ⟨s2', h2', _, _, _, hT, _⟩ := deadStoreElim_preserves_of_emit h1
  rw [h2] at h2'; cases h2'
  exact allocateTemps_liveOk s2 s3 numRegs (AEmit.allocPre_of_emit h1 h2) (hT (Chain.emit_targetsOk h1)) h3 Tn mn mx hb

/-- With the declared count used by `translate` (`count_temps`). -/
theorem allocateTemps_contract_of_emit (h1 : emitState prog fuse = .ok s1) (h2 : deadStoreElim s1 = .ok s2)
    (h3 : allocateTemps numRegs s2 = .ok s3) (mn mx : Int) :
    initOk (progOf s3 (countTemps s3.insts) mn mx) (initSolve (progOf s3 (countTemps s3.insts) mn mx)) = true ∧
    liveOk (progOf s3 (countTemps s3.insts) mn mx) numRegs (liveSolve (progOf s3 (countTemps s3.insts) mn mx)) = true :=
  ⟨allocateTemps_initOk_of_emit h1 h2 h3 _ mn mx (tempsBelow_countTemps _),
   allocateTemps_liveOk_of_emit h1 h2 h3 _ mn mx (tempsBelow_countTemps _)⟩

end

/-- **The program returned by `translate` passes the initialisation and liveness tests of `BcWf.check`.** -/
theorem translateE_initOk_liveOk {prog : Ir.Block w} {numRegs : Nat} {fuse : Bool} {p : Program w}
    (h : translateE prog numRegs fuse = .ok p) :
    initOk p (initSolve p) = true ∧ liveOk p numRegs (liveSolve p) = true := by
  obtain ⟨s1, s2, s3, s4, h1, h2, h3, h4, rfl⟩ := Chain.translateE_phases h
  obtain ⟨s2', h2', _, _, _, hT, _⟩ := deadStoreElim_preserves_of_emit h1
  rw [h2] at h2'; cases h2'
  have hpre := AEmit.allocPre_of_emit h1 h2
  have hT2 := hT (Chain.emit_targetsOk h1)
  have hlate := allocateTemps_latePre s2 s3 numRegs hpre hT2 h3
  have hb3 := tempsBelow_countTemps s3.insts
  obtain ⟨I, hI, _⟩ := allocateTemps_initFacts s2 s3 numRegs hpre hT2 h3 (countTemps s3.insts) 0 0 hb3
  obtain ⟨O, hO⟩ := allocateTemps_liveFacts s2 s3 numRegs hpre hT2 h3 (countTemps s3.insts) 0 0 hb3
  rw [Chain.package_eq_progOf]
  obtain ⟨I', hI'⟩ := latePasses_initFacts s3 s4 hlate fuse h4 hI (countTemps s4.insts)
    (analyze prog).minAcc (analyze prog).maxAcc
  obtain ⟨O', hO'⟩ := latePasses_liveFacts s3 s4 hlate fuse h4 hO (countTemps s4.insts)
    (analyze prog).minAcc (analyze prog).maxAcc
  have hu : UsesLt (progOf s4 (countTemps s4.insts) (analyze prog).minAcc (analyze prog).maxAcc)
      (progOf s4 (countTemps s4.insts) (analyze prog).minAcc (analyze prog).maxAcc).temps :=
    tempsBelow_countTemps s4.insts
  exact ⟨alloc_initOk_of_facts (alloc_initSolve_facts' hI' hu), alloc_liveOk_of_facts (alloc_liveSolve_facts hO' hu)⟩

end C02
end Hpbf
